import CoapVerif.Props.C01
import CoapVerif.Spec.CodecJudge
/-!
# C01 — known finding F15: the last sentence of the property is false of the current code

"Anything outside the preconditions (oversized token, invalid type or message ID) is refused with an
error rather than silently truncated."  `message.ValidateType` admits 0..255, `udp/coder.Encode` then
writes `byte(m.Type) << 4` into a header that has two type bits.  The repository's own test
(`udp/coder/coder_test.go: TestMarshalMessage`) requires `Type: 255` to encode without error, so the
defect is recorded, not fixed.  Witnesses (on the model, which the correspondence check ties to the
code; replay on the real code: `rt udp 4 7 1 1 - - 0`, `enc udp 4 4 0 0 - - 0`):
-/
namespace CoapVerif.Findings.C01
open CoapVerif.Model CoapVerif.Model.OptionCodec CoapVerif.Spec.Wire CoapVerif.Spec.CodecJudge

/-- Type 7 is accepted and sent as type 3 (Reset). -/
theorem type7_sent_as_reset :
    UdpCoder.encode ⟨7, 1, 1, [], [], []⟩ [0, 0, 0, 0] = .ok ⟨4, false, [0x70, 1, 0, 1]⟩ := by decide

/-- Type 4 is accepted and sent as type 0 (Confirmable). -/
theorem type4_sent_as_confirmable :
    UdpCoder.encode ⟨4, 0, 0, [], [], []⟩ [0, 0, 0, 0] = .ok ⟨4, false, [0x40, 0, 0, 0]⟩ := by decide

/-- Type 9 is accepted and also overwrites the version bits (0xD0 = version 3). -/
theorem type9_clobbers_version :
    UdpCoder.encode ⟨9, 1, 1, [], [], []⟩ [0, 0, 0, 0] = .ok ⟨4, false, [0xD0, 1, 0, 1]⟩ := by decide

/-- Negation of the full refusal statement (`Props.C01.udp_rejects_partial` is the part that holds). -/
theorem full_refusal_statement_is_false :
    ¬ (∀ (m : Msg) (buf : Bytes), mustRefuse .udp m = true → ∃ e, UdpCoder.encode m buf = .error e) := by
  intro h
  obtain ⟨e, he⟩ := h ⟨7, 1, 1, [], [], []⟩ [0, 0, 0, 0] (by decide)
  rw [type7_sent_as_reset] at he
  cases he

end CoapVerif.Findings.C01

section Audit
open CoapVerif.Findings.C01
#print axioms type7_sent_as_reset
#print axioms type4_sent_as_confirmable
#print axioms type9_clobbers_version
#print axioms full_refusal_statement_is_false
end Audit
