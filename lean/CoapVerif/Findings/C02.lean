import CoapVerif.Props.C02
/-!
# C02 — findings F2, F16, F17 (fixed in /repo): what the pre-fix code did, as proven facts

* F2  `pool.Message.decode` retried with `make(Options, 0, len(options)*2)`: at capacity 0 the new
  capacity is 0 again, the decoder is deterministic, so the loop repeats the same state forever.
* F16 `tcp/coder.DecodeHeader` had no TKL check: the reference calls TKL 9..15 malformed.
* F17 `tcp/coder.Decode` passed `data[header.Length:]`: bytes behind the declared frame became payload.
The post-fix models are the ones in `Model/`; the facts below are about the old step functions.
-/
namespace CoapVerif.Findings.C02
open CoapVerif.Model CoapVerif.Model.OptionCodec CoapVerif.Model.PoolMessage CoapVerif.Spec

/-- The capacity step of the loop before the fix. -/
def oldNewCap (cap : Nat) : Nat := cap * 2

/-- F2: the old step has a fixed point at 0, so the measure `len(data) − cap` cannot decrease there
(the fact `newCap_gt` that `decodeRetry`'s termination proof needs is false for it) … -/
theorem old_retry_stuck : oldNewCap 0 = 0 ∧ ¬ (∀ cap, cap < oldNewCap cap) := by
  refine ⟨rfl, ?_⟩
  intro h; have := h 0; simp [oldNewCap] at this

/-- … and capacity 0 does report the capacity error on any datagram with one option, so the old loop
re-enters the identical state (same capacity, same data) forever. -/
theorem old_retry_reenters :
    UdpCoder.decode 0 [0x40, 0x01, 0x12, 0x34, 0x01, 0x01] = .error .optCap ∧
    UdpCoder.decode (oldNewCap 0) [0x40, 0x01, 0x12, 0x34, 0x01, 0x01] = .error .optCap := by
  have h : UdpCoder.decode 0 [0x40, 0x01, 0x12, 0x34, 0x01, 0x01] = .error .optCap := by
    rw [CoapVerif.Lemmas.CoderDecode.udp_decode_eq]
    simp [CoapVerif.Lemmas.CoderDecode.udpDec, CoapVerif.Lemmas.RefParser.decLoop_cons,
      CoapVerif.Lemmas.OptionCodec.decExt]
  exact ⟨h, h⟩

/-- F16: the reference parser calls a first byte with TKL 9 malformed, whatever follows. -/
theorem tkl9_malformed (t : Wire.Bytes) : Rfc8323.parseHead (0x09 :: t) = .malformed := by
  simp [Rfc8323.parseHead]

/-- F17: the frame `00 00` followed by `00` is one empty message occupying two bytes. -/
theorem trailing_byte_not_consumed :
    Rfc8323.parse [0x00, 0x00, 0x00] = some (⟨0, 0, 0, [], [], []⟩, 2) := by
  simp [Rfc8323.parse, Rfc8323.parseHead, Rfc8323.headRest, Rfc8323.extOf, Rfc7252.parseBody, Rfc7252.tokens,
    Rfc7252.absolute, Rfc7252.lenient]

end CoapVerif.Findings.C02

section Audit
open CoapVerif.Findings.C02
#print axioms old_retry_stuck
#print axioms old_retry_reenters
#print axioms tkl9_malformed
#print axioms trailing_byte_not_consumed
end Audit
