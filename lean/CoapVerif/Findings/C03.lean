import CoapVerif.Model.TokenTable
import CoapVerif.Lemmas.TokenTable
/-!
# F13 (C03) — the token table is keyed by a hash of the token, and the hash is not injective

`Props/C03.lean` proves `resp_token_matches` / `no_cross_delivery` under the hypothesis `HashInj`.  Without it the
full statement of C03 ("every request call that returns successfully returns a response carrying its own token",
"requests with distinct tokens may be outstanding concurrently") is **false of the model, hence of the code it
follows**: for *any* key function with one collision between two distinct tokens there is a schedule in which a call
returns a response that carries the other token, and a schedule in which a request with a distinct token is
refused as a duplicate.  The real key function (CRC-64/ISO, `message.Token.Hash`) has such collisions between
tokens of different lengths; one pair is exhibited.  The same histories are replayed on the real connection by
`checks/c03.py` (scenarios with `inj=0`).
-/
namespace CoapVerif.Findings.C03
open CoapVerif.Model.TokenTable

/-- the history: caller 1 (token `t1`) is answered and returns; caller 2 (token `t2`) starts; a late duplicate of the
    answer to caller 1 arrives -/
def crossHistory (t1 t2 : Token) : List Event := [
  .doStart 1 t1 false 1, .arrive .non t1 9 "for-1", .process, .ret 1,
  .doStart 2 t2 false 2, .arrive .non t1 10 "for-1", .process, .ret 2]

/-- **Negation of `resp_token_matches` without `HashInj`, by witness.**  For every key function that maps two distinct
    non-empty tokens to the same key, caller 2 returns successfully with a message that carries caller 1's token. -/
theorem f13_cross_delivery (h : Token → Nat) (t1 t2 : Token) (h1 : t1 ≠ []) (h2 : t2 ≠ []) (hcoll : h t2 = h t1) :
    ((run h ⟨true, false⟩ (crossHistory t1 t2)).callers 2) =
      some ⟨t2, 2, .returned, none, some (.ok ⟨.non, t1, 10, "for-1", 1⟩)⟩ := by
  simp [crossHistory, run, step, init, register, receive, bump, enqueue, wakeMid, dedupHit, deliver, deliverDeletes,
    handover, wakeCaller, remember, finish, upd, h1, h2, hcoll]

/-- … so the conclusion of the property fails whenever the two tokens differ. -/
theorem f13_wrong_token (h : Token → Nat) (t1 t2 : Token) (h1 : t1 ≠ []) (h2 : t2 ≠ []) (hne : t1 ≠ t2) (hcoll : h t2 = h t1) :
    ∃ evs c cl m, (run h ⟨true, false⟩ evs).callers c = some cl ∧ cl.res = some (.ok m) ∧ m.tok ≠ cl.tok :=
  ⟨crossHistory t1 t2, 2, _, _, f13_cross_delivery h t1 t2 h1 h2 hcoll, rfl, hne⟩

/-- **Second face: a request with a distinct token is refused as a duplicate** while the colliding one is outstanding. -/
theorem f13_distinct_rejected (h : Token → Nat) (cfg : Cfg) (t1 t2 : Token) (h1 : t1 ≠ []) (h2 : t2 ≠ []) (hcoll : h t2 = h t1)
    (hbw : cfg.bw = false) :
    ((run h cfg [.doStart 1 t1 false 1, .doStart 2 t2 false 2]).callers 2) = some ⟨t2, 2, .returned, none, some .exists_⟩ := by
  simp [run, step, init, register, reject, upd, h1, h2, hcoll, hbw]

/-- The real key function collides on two distinct tokens (lengths 4 and 8). -/
theorem crc64_collision : crc64 [0x42, 0x2f, 0xf4, 0x42, 0x01, 0x02, 0x03, 0xf4] = crc64 [0x01, 0x02, 0x03, 0x04] := by
  decide +kernel

/-- **F13 on the real key function**: with CRC-64 the call with token `422ff442010203f4` returns the response that
    carries token `01020304`. -/
theorem f13_on_crc64 :
    ∃ evs c cl m, (run crc64 ⟨true, false⟩ evs).callers c = some cl ∧ cl.res = some (.ok m) ∧ m.tok ≠ cl.tok :=
  f13_wrong_token crc64 [0x01, 0x02, 0x03, 0x04] [0x42, 0x2f, 0xf4, 0x42, 0x01, 0x02, 0x03, 0xf4]
    (by decide) (by decide) (by decide) crc64_collision

/-- The unrestricted statement (token equality for every key function and every schedule) is refuted. -/
theorem not_resp_token_matches_without_inj :
    ¬ (∀ (h : Token → Nat) (cfg : Cfg) (evs : List Event) (c : Nat) (cl : Caller) (m : Msg),
        (run h cfg evs).callers c = some cl → cl.res = some (.ok m) → m.tok = cl.tok) := by
  intro hall
  obtain ⟨evs, c, cl, m, g1, g2, g3⟩ := f13_on_crc64
  exact g3 (hall crc64 _ evs c cl m g1 g2)

/-! ### Second finding (C03, "late return erases the successor")

`doInternal`'s deferred `LoadAndDelete(token.Hash())` deletes *whatever* is filed under the hash, not the entry the call
registered.  Between the moment a response consumes the entry (`LoadAndDelete` in `handle`) and the moment the woken
call returns, a second request with the *same* token is accepted (the first exchange is answered, so the judge does
not object); the first call's return then removes the **second** caller's registration: the second request is
displaced although it is outstanding and unanswered, its response goes to the default handler, and a third request
with the same token is accepted instead of rejected.  Equal caller-chosen tokens only.

History of this finding: when it was found, a confirmable request whose separate response overtook the ACK stayed in
`waitForAcknowledge` with its entry consumed, so the window lasted until the retransmission was acknowledged
(seconds; reproduced deterministically on the real connection).  A concurrent change for C06 (a response now also
acknowledges its request, RFC 7252 §5.2.2) lets the call return at once; what remains is the scheduling window
between the two goroutines, which the model — where a schedule may put any event in between — still exhibits. -/

def windowHistory (t : Token) : List Event := [
  .doStart 1 t true 1, .arrive .con t 9 "early", .process,
  .doStart 2 t false 2, .ret 1]

theorem late_return_erases_successor (h : Token → Nat) (t : Token) (ht : t ≠ []) :
    let s := run h ⟨true, false⟩ (windowHistory t)
    s.callers 2 = some ⟨t, 2, .waitResp, none, none⟩ ∧ s.table (h t) = none ∧
    s.callers 1 = some ⟨t, 1, .returned, none, some (.ok ⟨.con, t, 9, "early", 0⟩)⟩ := by
  simp [windowHistory, run, step, init, register, receive, bump, enqueue, wakeMid, dedupHit, deliver, deliverDeletes,
    handover, wakeCaller, remember, finish, upd, ht]

/-- … and then a third request with the same token is accepted while the second one is outstanding and unanswered:
    the clause "a request issued with a token that is still outstanding is rejected" fails. -/
theorem third_request_accepted (h : Token → Nat) (t : Token) (ht : t ≠ []) :
    let s := run h ⟨true, false⟩ (windowHistory t ++ [.doStart 3 t false 3])
    s.callers 2 = some ⟨t, 2, .waitResp, none, none⟩ ∧ s.callers 3 = some ⟨t, 3, .waitResp, none, none⟩ ∧
    s.table (h t) = some 3 := by
  simp [windowHistory, run, step, init, register, receive, bump, enqueue, wakeMid, dedupHit, deliver, deliverDeletes,
    handover, wakeCaller, remember, finish, upd, ht]

end CoapVerif.Findings.C03

section Audit
open CoapVerif.Findings.C03
#print axioms f13_cross_delivery
#print axioms f13_wrong_token
#print axioms f13_distinct_rejected
#print axioms crc64_collision
#print axioms f13_on_crc64
#print axioms not_resp_token_matches_without_inj
#print axioms late_return_erases_successor
#print axioms third_request_accepted
end Audit
