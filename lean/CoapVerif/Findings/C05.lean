import CoapVerif.Model.Dedup
import CoapVerif.Spec.Dedup
import CoapVerif.Model.DedupLock
/-!
# Finding F9 (C05), fixed in /repo — kept as a proven counter-example of the *unfixed* key choice

Before the fix `processResponse` stored the reply under the **reply's** message ID
(`addResponseToCache(resp)` → `strconv.Itoa(int(resp.MessageID()))`).  With that key choice
(`storeKeyIsRequestMID := false`) the model violates the property; both witnesses below were first observed
on the real code by the judge (corpus/C05/f9-*.json) and are decided here by evaluation of the model:

* a duplicated non-confirmable request that got a reply is handed to the handler twice (`rehandled`);
* a confirmable request whose message ID equals the endpoint's own message ID used for an earlier reply is
  answered from the cache with the *other* request's reply and never reaches the handler (`notFresh`).

With the key the code has now (`Generated.Dedup.storeKeyIsRequestMID = true`) Props/C05.lean proves the property.
-/
namespace CoapVerif.Findings.C05
open CoapVerif.Spec.Dedup CoapVerif.Model.Dedup

/-- The parameters of the code before the fix. -/
def f9Params : Params := { params with storeKeyIsRequestMID := false }

def f9Run (msgID : Nat) (evs : List Ev) : List Obs := (runFrom f9Params (init msgID) evs).trace.reverse

theorem f9_duplicate_non_rehandled :
    judge (f9Run (initMsgID 0 32767) [.recv .non 1234 [0xa1, 0xb2] .pbe 0, .recv .non 1234 [0xa1, 0xb2] .pbe 0]) = .rehandled := by
  decide

theorem f9_own_mid_crosstalk :
    judge (f9Run (initMsgID 100 32767) [.recv .non 5 [0xa1] .pbe 0, .recv .con 32870 [0xb7] .pbe 0]) = .notFresh := by
  decide

/-! ## F28 (fixed): an empty (0.00) / reset reply was not cached -/

/-- The parameters of the code before the F28 fix. -/
def f28Params : Params := { params with emptyReplyCached := false }

/-- A confirmable request answered with code 0.00 and duplicated 1 µs later was handed to the handler twice
    (first observed on the real code: `own 0 | recv con 7 a1 empty | sleep 1000 | recv con 7 a1 empty`). -/
theorem f28_empty_reply_rehandled :
    judge (runFrom f28Params (init 7) [.recv .con 9 [1] .empty 0, .sleep 1000, .recv .con 9 [1] .empty 0]).trace.reverse
      = .rehandled := by decide

/-! ## without the per-message-ID mutex two concurrent copies can both reach the handler -/

/-- Schedule A-lock, A-check, B-lock, B-check, A-handle, B-handle on the program without lock / unlock. -/
theorem nolock_two_handler_runs :
    (CoapVerif.Model.DedupLock.exec false (CoapVerif.Model.DedupLock.init false) [false, false, true, true, false, true]).runs = 2 := by
  decide

/-- The same histories conform with the request-MID key. -/
theorem fixed_conforms :
    judge (run (initMsgID 0 32767) [.recv .non 1234 [0xa1, 0xb2] .pbe 0, .recv .non 1234 [0xa1, 0xb2] .pbe 0]).trace.reverse = .ok ∧
    judge (run (initMsgID 100 32767) [.recv .non 5 [0xa1] .pbe 0, .recv .con 32870 [0xb7] .pbe 0]).trace.reverse = .ok := by
  decide

end CoapVerif.Findings.C05

section Audit
open CoapVerif.Findings.C05
#print axioms f9_duplicate_non_rehandled
#print axioms f9_own_mid_crosstalk
#print axioms f28_empty_reply_rehandled
#print axioms nolock_two_handler_runs
#print axioms fixed_conforms
end Audit
