import CoapVerif.Model.Dedup
import CoapVerif.Spec.Dedup
/-!
# Finding F9 (C05), fixed in /repo — kept as a proven counter-example of the *unfixed* key choice

Before the fix `processResponse` stored the reply under the **reply's** message ID
(`addResponseToCache(resp)` → `strconv.Itoa(int(resp.MessageID()))`).  With that key choice
(`storeKeyIsRequestMID := false`) the model violates the property; both witnesses below were first observed
on the real code by the judge (corpus/C05/f9-*.json) and are decided here by evaluation of the model:

* a duplicated non-confirmable request that got a reply is handed to the handler twice (`rehandled`);
* a confirmable request whose message ID equals the endpoint's own message ID used for an earlier reply is
  answered from the cache with the *other* request's reply and never reaches the handler (`notFresh`).

With the key the code has now (`Generated.Dedup.storeKeyIsRequestMID = true`) Props/C05.lean proves the property.
-/
namespace CoapVerif.Findings.C05
open CoapVerif.Spec.Dedup CoapVerif.Model.Dedup

/-- The parameters of the code before the fix. -/
def f9Params : Params := { params with storeKeyIsRequestMID := false }

def f9Run (msgID : Nat) (evs : List Ev) : List Obs := (runFrom f9Params (init msgID) evs).trace.reverse

theorem f9_duplicate_non_rehandled :
    judge (f9Run (initMsgID 0 32767) [.recv .non 1234 [0xa1, 0xb2] .pbe 0, .recv .non 1234 [0xa1, 0xb2] .pbe 0]) = .rehandled := by
  decide

theorem f9_own_mid_crosstalk :
    judge (f9Run (initMsgID 100 32767) [.recv .non 5 [0xa1] .pbe 0, .recv .con 32870 [0xb7] .pbe 0]) = .notFresh := by
  decide

/-- The same histories conform with the request-MID key. -/
theorem fixed_conforms :
    judge (run (initMsgID 0 32767) [.recv .non 1234 [0xa1, 0xb2] .pbe 0, .recv .non 1234 [0xa1, 0xb2] .pbe 0]).trace.reverse = .ok ∧
    judge (run (initMsgID 100 32767) [.recv .non 5 [0xa1] .pbe 0, .recv .con 32870 [0xb7] .pbe 0]).trace.reverse = .ok := by
  decide

end CoapVerif.Findings.C05

section Audit
open CoapVerif.Findings.C05
#print axioms f9_duplicate_non_rehandled
#print axioms f9_own_mid_crosstalk
#print axioms fixed_conforms
end Audit
