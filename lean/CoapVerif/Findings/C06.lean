import CoapVerif.Model.RetransmitObserve
import CoapVerif.Spec.Retransmit
/-!
# Finding F42 (C06, FIXED): on the observe entrance a response that arrives before the acknowledgement did not end the exchange

**Status: fixed** (udp/client/conn.go: `writeMessage` keeps token → message ID of the confirmable request it is writing in
`requestMessageIDs`; `Conn.handle` calls `acknowledgeByResponse` before it dispatches a response by token).  Whether today's
source has the repaired shape is the regenerated fact `Model.RetransmitObserve.wakesToday`
(`Generated.Retransmit.responseAcknowledgesByToken`).  The witness theorems below stay, as theorems about the shape without
the repair: each takes the flag and the hypothesis `wakes = false`.  The second part proves the positive statements for the
repaired shape (`wakes = true`) and `today_is_repaired`.  What follows describes the finding as it was.

Property text: "a confirmable request issued through the client API … if any one copy reaches the peer and the matching
acknowledgement/response gets back before the attempts are exhausted, the request call succeeds with that response" and
"no copy after an acknowledgement …" (RFC 7252 §5.2.2: the response is an implicit acknowledgement).
`Client.Observe` / `Conn.DoObserve` issue a confirmable request through the client API.  Their registration GET goes out
through `Conn.WriteMessage` (`net/observation: NewObservation` → `udp/client/conn.go: writeMessage`), whose wait ends only with
a message carrying the request's **message ID**; the first notification is matched by **token** and only fills
`respObservationChan`.  So with the acknowledgement lost: the request is retransmitted although it has been answered, and
`DoObserve` returns only when some acknowledgement arrives — with all of them lost it fails (context / exhaustion) although the
server registered the observation and answered.  For `Conn.Do` this was defect F21, repaired in `doInternal`'s token handler;
the repair does not reach this entrance.  Reproduced on the real code: `cfg 1000 2 1 bw | obs 0 - | resp 0 non 8 | sleep 1001 |
tick 0 | ack 0` → `… | tx=0.1001.= | ret=0.ok:8.1001` (judge: `no-success` at the response, `copy-after-stop` at the copy).

`Model.RetransmitObserve` is that entrance, minimally (`wakes = false`: as the code is; `wakes = true`: what `doInternal` does).
The theorems of Props/C06*.lean are about `Conn.Do`, `Conn.Ping` and confirmable non-request writes and stay as they are.
-/
namespace CoapVerif.Findings.C06
open CoapVerif CoapVerif.Model.Retransmit CoapVerif.Model.RetransmitObserve
open CoapVerif.Spec.Retransmit (judge Verdict Step Tx Ret Cfg)

def P0 : Params := ⟨1000, 2, 1⟩
def cfg0 : Cfg := ⟨1000, 2, 1⟩

/-- the history of the reproduction: registration, the notification at once, a pass after the timeout, the acknowledgement -/
def witness : List OEv := [.start, .notif 8, .advance 1001, .tick 0, .ack]

/-- **The response does not end the wait for the message ID**: after the notification the entry is still pending, the pass
    at 1001 writes a second copy, and the call has not returned — it returns only with the acknowledgement. -/
theorem observe_response_before_ack_does_not_end_the_wait (wakes : Bool) (h : wakes = false) :
    (run P0 wakes [.start, .notif 8]).pend.isSome = true ∧ (run P0 wakes [.start, .notif 8]).ret = none ∧
    (run P0 wakes [.start, .notif 8, .advance 1001, .tick 0]).copies = [1001, 0] ∧
    (run P0 wakes [.start, .notif 8, .advance 1001, .tick 0]).ret = none ∧
    (run P0 wakes witness).ret = some (.ok 8, 1001) := by subst h; decide

/-- With every acknowledgement lost the call never succeeds, although it was answered: all `1 + MAX_RETRANSMIT` copies go
    out, the entry is given up, and the call ends with its context. -/
theorem observe_answered_but_never_acknowledged_fails (wakes : Bool) (h : wakes = false) :
    (run P0 wakes [.start, .notif 8, .advance 1001, .tick 0, .advance 1000, .tick 0, .advance 1000, .tick 0, .cancel]).copies
      = [2001, 1001, 0] ∧
    (run P0 wakes [.start, .notif 8, .advance 1001, .tick 0, .advance 1000, .tick 0, .advance 1000, .tick 0, .cancel]).ret
      = some (.ctx, 3001) := by subst h; decide

/-! ## the property's conclusion, as the specification's judge states it, is false of this history -/

def specEv : OEv → Spec.Retransmit.Ev
  | .start => .send 0 none
  | .advance d => .sleep d
  | .tick a => .tick a
  | .ack => .recvMid 0 .ack
  | .notif tag => .resp 0 false tag
  | .cancel => .cancel 0

def specRes : ORes → Spec.Retransmit.Res
  | .ok tag => .ok tag
  | .ctx => .ctx

/-- One judge step per event: the stimulus, the copies written and the return observed in that step. -/
def historyFrom (P : Params) (wakes : Bool) : OState → List OEv → List Step
  | _, [] => []
  | s, e :: r =>
    let s' := step P wakes s e
    let txs : List Tx := (s'.copies.take (s'.copies.length - s.copies.length)).map (fun t => ⟨0, t, true⟩)
    let rets : List Ret := match s.ret, s'.ret with
      | none, some (res, t) => [⟨0, specRes res, t⟩]
      | _, _ => []
    ⟨specEv e, txs, rets⟩ :: historyFrom P wakes s' r

/-- **Negation of the full statement for the observe entrance**: the judge of C06 rejects the history — the response got back
    before the attempts were exhausted and the call did not succeed with it (`no-success`).  (That a copy follows the response
    — the judge's `copy-after-stop`, which it would report next — is the third conjunct of
    `observe_response_before_ack_does_not_end_the_wait`.) -/
theorem observe_entrance_violates_c06 (wakes : Bool) (h : wakes = false) :
    judge cfg0 (historyFrom P0 wakes {} witness) = .noSuccess := by subst h; decide

/-- the same history with the response ignored by the judge is fine: it is exactly the response that is mishandled -/
theorem observe_entrance_fine_without_the_response (wakes : Bool) (h : wakes = false) :
    judge cfg0 (historyFrom P0 wakes {} [.start, .advance 1001, .tick 0, .ack, .notif 8]) = .ok := by subst h; decide

/-! ## the repaired shape (`wakes = true`) -/

/-- **The repair on the witness**: the notification also removes the pending entry and wakes the writer (what `doInternal`'s
    token handler does since F21, and `Conn.handle` for every entrance since the repair of F42): the call returns the
    response at once, no further copy is written, the judge accepts - also with every acknowledgement lost. -/
theorem waking_the_writer_repairs_it :
    (run P0 true [.start, .notif 8]).ret = some (.ok 8, 0) ∧
    (run P0 true witness).copies = [0] ∧
    judge cfg0 (historyFrom P0 true {} witness) = .ok ∧
    judge cfg0 (historyFrom P0 true {} [.start, .notif 8, .advance 1001, .tick 0, .advance 1000, .tick 0, .advance 1000, .tick 0,
      .cancel]) = .ok := by decide

/-- **Today's source has the repaired shape** (regenerated fact; false again if the repair is taken out - then the witness
    theorems above apply to `runToday`). -/
theorem today_is_repaired : wakesToday = true := by decide

/-- … so on today's source the witness history returns the response in the step of the notification and writes one copy. -/
theorem today_witness_accepted :
    (runToday P0 witness).ret = some (.ok 8, 0) ∧ (runToday P0 witness).copies = [0] ∧
    judge cfg0 (historyFrom P0 wakesToday {} witness) = .ok := by decide

/-- **The response ends the wait** - every parameter triple, every state in which `writeMessage` is waiting for the
    acknowledgement (entry pending, call not returned), every notification: in that very step the entry is gone, the slot is
    free, the call has returned the response (the first one, if one was already in the channel) at the current time, and no
    copy was written. -/
theorem repaired_response_ends_the_wait (P : Params) (s : OState) (tag : Nat)
    (hw : s.writing = true) (hp : s.pend.isSome = true) (hr : s.ret = none) :
    (Model.RetransmitObserve.step P true s (.notif tag)).pend = none ∧ (Model.RetransmitObserve.step P true s (.notif tag)).writing = false ∧
    (Model.RetransmitObserve.step P true s (.notif tag)).ret = some (.ok (s.chan.getD tag), s.now) ∧
    (Model.RetransmitObserve.step P true s (.notif tag)).copies = s.copies := by
  cases hc : s.chan <;> simp [Model.RetransmitObserve.step, woken, hw, hp, hr, hc]

/-- Nothing pending, nothing written: from a state whose call was started and whose entry is gone, no history writes a copy or
    brings the entry back, and a result once returned stays (either flag). -/
theorem no_copy_without_pending_entry (P : Params) (wakes : Bool) (evs : List OEv) :
    ∀ (s : OState), s.started = true → s.pend = none → s.ret.isSome = true →
      (evs.foldl (Model.RetransmitObserve.step P wakes) s).copies = s.copies ∧ (evs.foldl (Model.RetransmitObserve.step P wakes) s).pend = none ∧
      (evs.foldl (Model.RetransmitObserve.step P wakes) s).ret = s.ret := by
  induction evs with
  | nil => intro s _ hp _; exact ⟨rfl, hp, rfl⟩
  | cons e es ih =>
    intro s hs hp hr
    have key : (Model.RetransmitObserve.step P wakes s e).started = true ∧ (Model.RetransmitObserve.step P wakes s e).pend = none ∧ (Model.RetransmitObserve.step P wakes s e).ret = s.ret ∧
        (Model.RetransmitObserve.step P wakes s e).copies = s.copies := by
      cases e <;> simp [Model.RetransmitObserve.step, hs, hp, hr]
    obtain ⟨k1, k2, k3, k4⟩ := key
    have := ih (Model.RetransmitObserve.step P wakes s e) k1 k2 (by rw [k3]; exact hr)
    simp only [List.foldl_cons]
    exact ⟨by rw [this.1, k4], this.2.1, by rw [this.2.2, k3]⟩

/-- **No copy after the response, and the call has succeeded with it** - whatever follows (passes at any time, late or
    duplicated acknowledgements and notifications, a cancellation): the positive statement of C06 for this entrance in the
    repaired shape, for every parameter triple and every continuation. -/
theorem repaired_no_copy_after_the_response (P : Params) (s : OState) (tag : Nat) (evs : List OEv)
    (hst : s.started = true) (hw : s.writing = true) (hp : s.pend.isSome = true) (hr : s.ret = none) :
    (evs.foldl (Model.RetransmitObserve.step P true) (Model.RetransmitObserve.step P true s (.notif tag))).copies = s.copies ∧
    (evs.foldl (Model.RetransmitObserve.step P true) (Model.RetransmitObserve.step P true s (.notif tag))).ret = some (.ok (s.chan.getD tag), s.now) := by
  obtain ⟨h1, _, h3, h4⟩ := repaired_response_ends_the_wait P s tag hw hp hr
  have hst' : (Model.RetransmitObserve.step P true s (.notif tag)).started = true := by
    cases hc : s.chan <;> simp [Model.RetransmitObserve.step, woken, hw, hp, hr, hc, hst]
  have := no_copy_without_pending_entry P true evs _ hst' h1 (by rw [h3]; rfl)
  exact ⟨by rw [this.1, h4], by rw [this.2.2, h3]⟩

/-- non-vacuity: the state after `start` satisfies the hypotheses -/
example : (run P0 true [.start]).started = true ∧ (run P0 true [.start]).writing = true ∧
    (run P0 true [.start]).pend.isSome = true ∧ (run P0 true [.start]).ret = none := by decide

end CoapVerif.Findings.C06

section Audit
open CoapVerif.Findings.C06
#print axioms observe_response_before_ack_does_not_end_the_wait
#print axioms observe_answered_but_never_acknowledged_fails
#print axioms observe_entrance_violates_c06
#print axioms observe_entrance_fine_without_the_response
#print axioms waking_the_writer_repairs_it
#print axioms today_is_repaired
#print axioms today_witness_accepted
#print axioms repaired_response_ends_the_wait
#print axioms no_copy_without_pending_entry
#print axioms repaired_no_copy_after_the_response
end Audit
