import CoapVerif.Model.RetransmitObserve
import CoapVerif.Spec.Retransmit
/-!
# Finding F42 (C06): on the observe entrance a response that arrives before the acknowledgement does not end the exchange

Property text: "a confirmable request issued through the client API … if any one copy reaches the peer and the matching
acknowledgement/response gets back before the attempts are exhausted, the request call succeeds with that response" and
"no copy after an acknowledgement …" (RFC 7252 §5.2.2: the response is an implicit acknowledgement).
`Client.Observe` / `Conn.DoObserve` issue a confirmable request through the client API.  Their registration GET goes out
through `Conn.WriteMessage` (`net/observation: NewObservation` → `udp/client/conn.go: writeMessage`), whose wait ends only with
a message carrying the request's **message ID**; the first notification is matched by **token** and only fills
`respObservationChan`.  So with the acknowledgement lost: the request is retransmitted although it has been answered, and
`DoObserve` returns only when some acknowledgement arrives — with all of them lost it fails (context / exhaustion) although the
server registered the observation and answered.  For `Conn.Do` this was defect F21, repaired in `doInternal`'s token handler;
the repair does not reach this entrance.  Reproduced on the real code: `cfg 1000 2 1 bw | obs 0 - | resp 0 non 8 | sleep 1001 |
tick 0 | ack 0` → `… | tx=0.1001.= | ret=0.ok:8.1001` (judge: `no-success` at the response, `copy-after-stop` at the copy).

`Model.RetransmitObserve` is that entrance, minimally (`wakes = false`: as the code is; `wakes = true`: what `doInternal` does).
The theorems of Props/C06*.lean are about `Conn.Do`, `Conn.Ping` and confirmable non-request writes and stay as they are.
-/
namespace CoapVerif.Findings.C06
open CoapVerif CoapVerif.Model.Retransmit CoapVerif.Model.RetransmitObserve
open CoapVerif.Spec.Retransmit (judge Verdict Step Tx Ret Cfg)

def P0 : Params := ⟨1000, 2, 1⟩
def cfg0 : Cfg := ⟨1000, 2, 1⟩

/-- the history of the reproduction: registration, the notification at once, a pass after the timeout, the acknowledgement -/
def witness : List OEv := [.start, .notif 8, .advance 1001, .tick 0, .ack]

/-- **The response does not end the wait for the message ID**: after the notification the entry is still pending, the pass
    at 1001 writes a second copy, and the call has not returned — it returns only with the acknowledgement. -/
theorem observe_response_before_ack_does_not_end_the_wait :
    (run P0 false [.start, .notif 8]).pend.isSome = true ∧ (run P0 false [.start, .notif 8]).ret = none ∧
    (run P0 false [.start, .notif 8, .advance 1001, .tick 0]).copies = [1001, 0] ∧
    (run P0 false [.start, .notif 8, .advance 1001, .tick 0]).ret = none ∧
    (run P0 false witness).ret = some (.ok 8, 1001) := by decide

/-- With every acknowledgement lost the call never succeeds, although it was answered: all `1 + MAX_RETRANSMIT` copies go
    out, the entry is given up, and the call ends with its context. -/
theorem observe_answered_but_never_acknowledged_fails :
    (run P0 false [.start, .notif 8, .advance 1001, .tick 0, .advance 1000, .tick 0, .advance 1000, .tick 0, .cancel]).copies
      = [2001, 1001, 0] ∧
    (run P0 false [.start, .notif 8, .advance 1001, .tick 0, .advance 1000, .tick 0, .advance 1000, .tick 0, .cancel]).ret
      = some (.ctx, 3001) := by decide

/-! ## the property's conclusion, as the specification's judge states it, is false of this history -/

def specEv : OEv → Spec.Retransmit.Ev
  | .start => .send 0 none
  | .advance d => .sleep d
  | .tick a => .tick a
  | .ack => .recvMid 0 .ack
  | .notif tag => .resp 0 false tag
  | .cancel => .cancel 0

def specRes : ORes → Spec.Retransmit.Res
  | .ok tag => .ok tag
  | .ctx => .ctx

/-- One judge step per event: the stimulus, the copies written and the return observed in that step. -/
def historyFrom (P : Params) (wakes : Bool) : OState → List OEv → List Step
  | _, [] => []
  | s, e :: r =>
    let s' := step P wakes s e
    let txs : List Tx := (s'.copies.take (s'.copies.length - s.copies.length)).map (fun t => ⟨0, t, true⟩)
    let rets : List Ret := match s.ret, s'.ret with
      | none, some (res, t) => [⟨0, specRes res, t⟩]
      | _, _ => []
    ⟨specEv e, txs, rets⟩ :: historyFrom P wakes s' r

/-- **Negation of the full statement for the observe entrance**: the judge of C06 rejects the history — the response got back
    before the attempts were exhausted and the call did not succeed with it (`no-success`).  (That a copy follows the response
    — the judge's `copy-after-stop`, which it would report next — is the third conjunct of
    `observe_response_before_ack_does_not_end_the_wait`.) -/
theorem observe_entrance_violates_c06 : judge cfg0 (historyFrom P0 false {} witness) = .noSuccess := by decide

/-- the same history with the response ignored by the judge is fine: it is exactly the response that is mishandled -/
theorem observe_entrance_fine_without_the_response :
    judge cfg0 (historyFrom P0 false {} [.start, .advance 1001, .tick 0, .ack, .notif 8]) = .ok := by decide

/-- **Repair direction**: if the notification also removed the pending entry and woke the writer (what `doInternal`'s token
    handler does since F21), the call returns the response at once, no further copy is written, the judge accepts. -/
theorem waking_the_writer_would_repair_it :
    (run P0 true [.start, .notif 8]).ret = some (.ok 8, 0) ∧
    (run P0 true witness).copies = [0] ∧
    judge cfg0 (historyFrom P0 true {} witness) = .ok ∧
    judge cfg0 (historyFrom P0 true {} [.start, .notif 8, .advance 1001, .tick 0, .advance 1000, .tick 0, .advance 1000, .tick 0,
      .cancel]) = .ok := by decide

end CoapVerif.Findings.C06

section Audit
open CoapVerif.Findings.C06
#print axioms observe_response_before_ack_does_not_end_the_wait
#print axioms observe_answered_but_never_acknowledged_fails
#print axioms observe_entrance_violates_c06
#print axioms observe_entrance_fine_without_the_response
#print axioms waking_the_writer_would_repair_it
end Audit
