import CoapVerif.Model.Lifecycle
/-!
# Finding F26 (C09): a frame write blocked in the transport ignores the request context

`net/conn.go: Conn.WriteWithContext` checks `ctx.Done()` only between calls of `c.connection.Write`; no write deadline is
armed from the context (fact `writeArmsDeadline`, read from the source on every run).  When the peer of a stream
connection stops reading and the socket buffers are full, the operation stays inside `Write` after its context was
cancelled or expired; it ends only when the connection is closed.  Every other operation of the connection then waits
for the write lock.  Reproduced on the real code by the cases `case tcp <op> stalled cancel|deadline`.
-/
namespace CoapVerif.Findings.C09
open CoapVerif.Model.Lifecycle CoapVerif.Generated.BlockingWaits

theorem write_arms_no_deadline : writeArmsDeadline = false := by decide

/-- after the context has ended, however often the writer is scheduled, it is still blocked (no Close, peer silent) -/
theorem stalled_write_ignores_ctx (n : Nat) :
    (wrun closeTakesWriteLock writeArmsDeadline {} (.ctxEnds :: List.replicate n .sched)).writerBlocked = true := by
  have key : ∀ (s : WState), s.socketClosed = false → s.writerBlocked = true →
      (wrun closeTakesWriteLock writeArmsDeadline s (List.replicate n .sched)).writerBlocked = true := by
    induction n with
    | zero => intro s _ hb; exact hb
    | succ k ih =>
      intro s hs hb
      simp only [List.replicate_succ, wrun, List.foldl_cons]
      have : wstep closeTakesWriteLock writeArmsDeadline s .sched = s := by
        simp [wstep, hs, write_arms_no_deadline]
      rw [this]; exact ih s hs hb
  simp only [wrun, List.foldl_cons]
  exact key _ (by simp [wstep]) (by simp [wstep])

/-- with a deadline armed from the context the same history ends the write: the repair direction -/
theorem armed_deadline_would_end_it : (wrun false true {} [.ctxEnds, .sched]).writerBlocked = false := by decide

end CoapVerif.Findings.C09

section Audit
open CoapVerif.Findings.C09
#print axioms write_arms_no_deadline
#print axioms stalled_write_ignores_ctx
#print axioms armed_deadline_would_end_it
end Audit
