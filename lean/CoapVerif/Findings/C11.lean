import CoapVerif.Model.Reader
import CoapVerif.Model.ReaderPrograms
import CoapVerif.Lemmas.Reader
/-!
# F11, F12 and the ping variant (C11) — library operations that block before asking for a replacement loop

`Props/C11.lean` proves that the connection never stalls when every handler's first blocking construct is preceded by a
call of `TryToReplaceLoop`.  `doInternal` and `waitForAcknowledge` have that form.  Three other blocking operations a
handler may call on its own connection do **not** (facts re-read from today's source, `Generated/WaitShape.lean`):

* **F11** `limitParallelRequests.Do/DoObserve`: `acquireEndpoint`'s select and `limit.Acquire` come before any
  `TryToReplaceLoop` — with limits in force (default 1/1) a handler's nested request waits for a slot while it is the
  only reader;
* **F12** `NewObservation`: the select on the first notification has no `TryToReplaceLoop`; on the datagram transport
  the preceding confirmable write asks for a replacement, on stream transports nothing does;
* **ping** `Client.Ping`: the select on the pong has none; the pong itself is read inline by the socket reader, but
  not while that reader is stuck behind a full receive queue.

For each, the program the model runs is not well-formed, and a concrete schedule reaches a state in which the current
loop is blocked although a message (the awaited answer) is waiting — the negation of `current_never_blocked` for the
unrestricted statement.  The same histories stall the real connection (`checks/c11.py`, fixed scenarios).
-/
namespace CoapVerif.Findings.C11
open CoapVerif.Model.Reader CoapVerif.Model.ReaderPrograms CoapVerif.Lemmas.Reader CoapVerif.Generated.WaitShape

/-- the current loop runs a handler whose next action cannot be taken -/
def currentBlocked (s : State) : Bool :=
  match s.loops s.current with
  | some lp => lp.pc == .running &&
    (match lp.prog with
     | act :: rest => (doAct s s.current lp act rest).isNone
     | [] => false)
  | none => false

def hs (l n : Nat) : List Event := List.replicate n (.handlerStep l)

/-! ### F11 -/

/-- today's source: the limiter's blocking constructs have no replacement request before them -/
theorem f11_limiter_waits_not_preceded :
    preceded "LimitParallelRequests.acquireEndpoint" "select" = false ∧
    preceded "LimitParallelRequests.Do" "acquire" = false ∧
    preceded "LimitParallelRequests.DoObserve" "acquire" = false := by decide +kernel

/-- hence a nested `Do` under limits is not a well-formed handler program -/
theorem f11_doProg_not_wf : waitsPreceded (doProg false 1 1 1 1) = false ∧ waitsPreceded (doProg true 1 1 1 1) = false := by
  decide +kernel

def f11Inbox : List Msg := [⟨1, .req (doProg false 1 1 1 1)⟩, ⟨2, .req (doProg false 1 1 1 2)⟩, ⟨101, .resp 1⟩]

/-- request 1's handler issues a nested call (holds the endpoint slot, asked for a replacement loop); request 2's handler,
    run by that replacement loop, issues a nested call to the same endpoint and waits for the slot; the answer to
    call 1 arrives -/
def f11Schedule : List Event :=
  [.feederRead, .feederPush, .loopTake 0] ++ hs 0 7 ++ [.feederRead, .feederPush, .loopTake 1] ++ hs 1 2 ++
  [.feederRead, .feederPush]

/-- **F11 on the model (default limits 1/1, stream transport):** the answer to the first nested call is in the queue, the
    connection is open, and the current loop is blocked in the limiter. -/
theorem f11_stall :
    let s := run (init 16 false f11Inbox) f11Schedule
    currentBlocked s = true ∧ (waiting s).map (·.id) = [101] ∧ s.closed = false ∧ s.current = 1 := by
  decide +kernel

/-! ### F12 -/

theorem f12_first_notification_wait_not_preceded : preceded "Handler.NewObservation" "select" = false := by decide +kernel

/-- on a stream transport `DoObserve` (even without limits) is not well-formed; on the datagram transport it is -/
theorem f12_observeProg_wf : waitsPreceded (observeProg false 1 0 0 1) = false ∧ waitsPreceded (observeProg true 1 0 0 1) = true := by
  decide +kernel

def f12Inbox : List Msg := [⟨1, .req (observeProg false 1 0 0 1)⟩, ⟨2, .req []⟩, ⟨101, .resp 1⟩]

def f12Schedule : List Event := [.feederRead, .feederPush, .loopTake 0] ++ hs 0 4 ++ [.feederRead, .feederPush, .feederRead]

/-- **F12 on the model (stream transport, no limits, queue capacity 1):** the handler of request 1 waits for the first
    notification of its observation in the one and only loop; request 2 is queued and the notification itself is in
    the reader's hand. -/
theorem f12_stall :
    let s := run (init 1 false f12Inbox) f12Schedule
    currentBlocked s = true ∧ (waiting s).map (·.id) = [2, 101] ∧ s.closed = false ∧ s.current = 0 := by
  decide +kernel

/-! ### Ping -/

theorem ping_wait_not_preceded : preceded "Client.Ping" "select" = false := by decide +kernel

def pingInbox : List Msg := [⟨1, .req ([.send 0] ++ pingProg)⟩, ⟨2, .req []⟩, ⟨101, .pong⟩]

def pingSchedule : List Event := [.feederRead, .loopTake 0] ++ hs 0 2 ++ [.feederRead]

/-- **Ping inside a handler (queue capacity 0):** the loop waits for the pong; the socket reader is stuck handing request 2
    over, so the pong behind it is never read. -/
theorem ping_stall :
    let s := run (init 0 false pingInbox) pingSchedule
    currentBlocked s = true ∧ s.hand.map (·.id) = some 2 ∧ s.inbox.map (·.id) = [101] ∧ s.ponged = false := by
  decide +kernel

/-- **The unrestricted statement is refuted**: without the well-formedness hypothesis `current_never_blocked` fails. -/
theorem not_current_never_blocked_without_wf :
    ¬ (∀ (cap : Nat) (udp : Bool) (inbox : List Msg) (evs : List Event),
        currentBlocked (run (init cap udp inbox) evs) = false) := by
  intro h
  have := h 16 false f11Inbox f11Schedule
  have hs := f11_stall.1
  rw [this] at hs; cases hs

end CoapVerif.Findings.C11

section Audit
open CoapVerif.Findings.C11
#print axioms f11_limiter_waits_not_preceded
#print axioms f11_doProg_not_wf
#print axioms f11_stall
#print axioms f12_first_notification_wait_not_preceded
#print axioms f12_observeProg_wf
#print axioms f12_stall
#print axioms ping_wait_not_preceded
#print axioms ping_stall
#print axioms not_current_never_blocked_without_wf
end Audit
