import CoapVerif.Model.Reader
import CoapVerif.Model.ReaderPrograms
import CoapVerif.Lemmas.Reader
/-!
# F11, F12 and the ping variant (C11) — library operations that block before asking for a replacement loop

`Props/C11.lean` proves that the connection never stalls when every handler's first blocking construct is preceded by a
call of `TryToReplaceLoop`.  `doInternal` and `waitForAcknowledge` have that form.  Three other blocking operations a
handler may call on its own connection do **not** (facts re-read from today's source, `Generated/WaitShape.lean`):

* **F11** `limitParallelRequests.Do/DoObserve`: `acquireEndpoint`'s select and `limit.Acquire` come before any
  `TryToReplaceLoop` — with limits in force (default 1/1) a handler's nested request waits for a slot while it is the
  only reader;
* **F12** `NewObservation`: the select on the first notification has no `TryToReplaceLoop`; on the datagram transport
  the preceding confirmable write asks for a replacement, on stream transports nothing does;
* **ping** `Client.Ping`: the select on the pong has none; the pong itself is read inline by the socket reader, but
  not while that reader is stuck behind a full receive queue.

For each, the program the model runs is not well-formed, and a concrete schedule reaches a state in which the current
loop is blocked although a message (the awaited answer) is waiting — the negation of `current_never_blocked` for the
unrestricted statement.  The same histories stall the real connection (`checks/c11.py`, fixed scenarios).
-/
namespace CoapVerif.Findings.C11
open CoapVerif.Model.Reader CoapVerif.Model.ReaderPrograms CoapVerif.Lemmas.Reader CoapVerif.Generated.WaitShape

/-- the current loop runs a handler whose next action cannot be taken -/
def currentBlocked (s : State) : Bool :=
  match s.loops s.current with
  | some lp => lp.pc == .running &&
    (match lp.prog with
     | act :: rest => (doAct s s.current lp act rest).isNone
     | [] => false)
  | none => false

def hs (l n : Nat) : List Event := List.replicate n (.handlerStep l)

/-! ### What the regenerated source facts say about the three operations

Each finding below is stated **relative to today's source**: "if the source has no hand-over before this wait, then …
stall" and "if it has one, the program is well-formed" (so `Props.C11.current_never_blocked` / `queue_drains` cover it).
Both halves are checked on every run; which antecedent holds is decided by `Generated.WaitShape`, regenerated from the
working tree.  On a tree where a finding is open the stall half is the content (and the same history stalls the real
connection: known finding); on a tree where it is fixed the well-formedness half is. -/

/-- the source hands the reader loop over before the limiter waits of `fn` (inside `acquireEndpoint`, or by the hook the
    connection installs, called first thing in `fn`) -/
def limiterHandsOver (udp : Bool) (fn : String) : Bool :=
  preceded "LimitParallelRequests.acquireEndpoint" "select" || handed udp fn "LimitParallelRequests.acquireEndpoint"

/-- … on the way to the select on the first notification: in its only caller `Conn.doObserve` (before the request is
    written), or in `NewObservation` right before the select (on the datagram transport the write's wait for the ACK comes
    first and must have its own) -/
def observeHandsOver (udp : Bool) : Bool :=
  handed udp "Conn.doObserve" "Handler.NewObservation" ||
  (preceded "Handler.NewObservation" "select" && (!udp || preceded "Conn.waitForAcknowledge" "select"))

/-- … before the select on the pong (in `Client.Ping`, or in the `Conn.Ping` that wraps it) -/
def pingHandsOver (udp : Bool) : Bool :=
  if pingOwnWait udp then pingOwnPreceded udp else handed udp "Conn.Ping" "Client.Ping" || preceded "Client.Ping" "select"

/-! ### F11 -/

/-- if the limiter's waits have no replacement request before them, a nested `Do` under limits is not a well-formed
    handler program (either transport) -/
theorem f11_doProg_not_wf :
    (limiterHandsOver false "LimitParallelRequests.Do" = false → waitsPreceded (doProg false 1 1 1 1) = false) ∧
    (limiterHandsOver true "LimitParallelRequests.Do" = false → waitsPreceded (doProg true 1 1 1 1) = false) := by
  decide +kernel

/-- if they have one, a nested `Do` is well-formed under every limit, on that transport -/
theorem f11_fixed_wf (udp : Bool) (h : limiterHandsOver udp "LimitParallelRequests.Do" = true) (key epLimit limit k : Nat) :
    waitsPreceded (doProg udp key epLimit limit k) = true := by
  simp only [limiterHandsOver] at h
  simp [doProg, limiterPart, rep, h, waitsPreceded]

theorem f11_fixed_wf_observe (udp : Bool) (h : limiterHandsOver udp "LimitParallelRequests.DoObserve" = true) (key epLimit limit k : Nat) :
    waitsPreceded (observeProg udp key epLimit limit k) = true := by
  simp only [limiterHandsOver] at h
  simp [observeProg, limiterPart, rep, h, waitsPreceded]

def f11Inbox : List Msg := [⟨1, .req (doProg false 1 1 1 1)⟩, ⟨2, .req (doProg false 1 1 1 2)⟩, ⟨101, .resp 1⟩]

/-- request 1's handler issues a nested call (holds the endpoint slot, asked for a replacement loop); request 2's handler,
    run by that replacement loop, issues a nested call to the same endpoint and waits for the slot; the answer to
    call 1 arrives -/
def f11Schedule : List Event :=
  [.feederRead, .feederPush, .loopTake 0] ++ hs 0 7 ++ [.feederRead, .feederPush, .loopTake 1] ++ hs 1 2 ++
  [.feederRead, .feederPush]

/-- **F11 on the model (default limits 1/1, stream transport), for a source without hand-over before the limiter:** the
    answer to the first nested call is in the queue, the connection is open, and the current loop is blocked in the limiter. -/
theorem f11_stall :
    limiterHandsOver false "LimitParallelRequests.Do" = false →
    (let s := run (init 16 false f11Inbox) f11Schedule
     currentBlocked s = true ∧ (waiting s).map (·.id) = [101] ∧ s.closed = false ∧ s.current = 1) := by
  decide +kernel

/-! ### F12 -/

/-- without a hand-over before the first-notification wait, `DoObserve` on a stream transport (even without limits) is not
    well-formed; on the datagram transport the confirmable write of the request asks for a replacement anyway -/
theorem f12_observeProg_wf :
    ((limiterHandsOver false "LimitParallelRequests.DoObserve" || observeHandsOver false) = false →
      waitsPreceded (observeProg false 1 0 0 1) = false) ∧
    waitsPreceded (observeProg true 1 0 0 1) = true := by
  decide +kernel

/-- with one, `DoObserve` without limits is well-formed on that transport -/
theorem f12_fixed_wf (udp : Bool) (h : observeHandsOver udp = true) (key k : Nat) :
    waitsPreceded (observeProg udp key 0 0 k) = true := by
  simp only [observeHandsOver] at h
  cases h1 : (preceded "LimitParallelRequests.acquireEndpoint" "select" || handed udp "LimitParallelRequests.DoObserve" "LimitParallelRequests.acquireEndpoint") <;>
  cases h2 : preceded "LimitParallelRequests.DoObserve" "acquire" <;>
  cases h3 : handed udp "Conn.doObserve" "Handler.NewObservation" <;>
  cases h4 : preceded "Handler.NewObservation" "select" <;>
  cases udp <;>
  simp_all [observeProg, limiterPart, ackPart, rep, totalKey, waitsPreceded] <;>
  cases h5 : preceded "Conn.waitForAcknowledge" "select" <;> simp_all [waitsPreceded]

def f12Inbox : List Msg := [⟨1, .req (observeProg false 1 0 0 1)⟩, ⟨2, .req []⟩, ⟨101, .resp 1⟩]

def f12Schedule : List Event := [.feederRead, .feederPush, .loopTake 0] ++ hs 0 4 ++ [.feederRead, .feederPush, .feederRead]

/-- **F12 on the model (stream transport, no limits, queue capacity 1), for a source without hand-over on the way to the
    first-notification wait:** the handler of request 1 waits for the first notification of its observation in the one
    and only loop; request 2 is queued and the notification itself is in the reader's hand. -/
theorem f12_stall :
    (limiterHandsOver false "LimitParallelRequests.DoObserve" || observeHandsOver false) = false →
    (let s := run (init 1 false f12Inbox) f12Schedule
     currentBlocked s = true ∧ (waiting s).map (·.id) = [2, 101] ∧ s.closed = false ∧ s.current = 0) := by
  decide +kernel

/-! ### Ping -/

theorem ping_fixed_wf (udp : Bool) (h : pingHandsOver udp = true) : waitsPreceded (pingProg udp) = true := by
  cases h0 : pingOwnWait udp
  · simp only [pingHandsOver, h0, Bool.or_eq_true] at h
    cases h1 : handed udp "Conn.Ping" "Client.Ping" <;> cases h2 : preceded "Client.Ping" "select" <;>
    simp_all [pingProg, rep, waitsPreceded]
  · simp only [pingHandsOver, h0, if_true] at h
    simp_all [pingProg, rep, waitsPreceded]

def pingInbox : List Msg := [⟨1, .req (pingProg false)⟩, ⟨2, .req []⟩, ⟨101, .pong⟩]

def pingSchedule : List Event := [.feederRead, .loopTake 0] ++ hs 0 2 ++ [.feederRead]

/-- **Ping inside a handler (queue capacity 0), for a source without hand-over before the wait for the pong:** the loop
    waits for the pong; the socket reader is stuck handing request 2 over, so the pong behind it is never read. -/
theorem ping_stall :
    pingHandsOver false = false →
    (let s := run (init 0 false pingInbox) pingSchedule
     currentBlocked s = true ∧ s.hand.map (·.id) = some 2 ∧ s.inbox.map (·.id) = [101] ∧ s.ponged = false) := by
  decide +kernel

/-! ### The unrestricted statement is false whatever the source looks like -/

/-- a handler written by hand that waits for the answer to its own request without asking for a replacement loop -/
def rawWaiter : List Act := [.startCall 1 30000, .send 1, .wait (.delivered 1) true, .endCall 1]

def rawInbox : List Msg := [⟨1, .req rawWaiter⟩, ⟨101, .resp 1⟩]

def rawSchedule : List Event := [.feederRead, .feederPush, .loopTake 0] ++ hs 0 2 ++ [.feederRead, .feederPush]

theorem raw_stall :
    let s := run (init 16 false rawInbox) rawSchedule
    currentBlocked s = true ∧ (waiting s).map (·.id) = [101] ∧ s.closed = false := by
  decide +kernel

/-- **The unrestricted statement is refuted**: without the well-formedness hypothesis `current_never_blocked` fails. -/
theorem not_current_never_blocked_without_wf :
    ¬ (∀ (cap : Nat) (udp : Bool) (inbox : List Msg) (evs : List Event),
        currentBlocked (run (init cap udp inbox) evs) = false) := by
  intro h
  have := h 16 false rawInbox rawSchedule
  have hs := raw_stall.1
  rw [this] at hs; cases hs

end CoapVerif.Findings.C11

section Audit
open CoapVerif.Findings.C11
#print axioms f11_doProg_not_wf
#print axioms f11_fixed_wf
#print axioms f11_fixed_wf_observe
#print axioms f11_stall
#print axioms f12_observeProg_wf
#print axioms f12_fixed_wf
#print axioms f12_stall
#print axioms ping_fixed_wf
#print axioms ping_stall
#print axioms raw_stall
#print axioms not_current_never_blocked_without_wf
end Audit
