import CoapVerif.Model.Reader
import CoapVerif.Model.ReaderPrograms
import CoapVerif.Model.ReaderNStart
import CoapVerif.Lemmas.Reader
import CoapVerif.Findings.C11
/-!
# C11 — F41: the NSTART wait without a hand-over before it (repaired in /repo a2d1ac6; signature on a relapse `C11:nested-stall:nstart`)

Before the repair `prepareWriteMessage` waited for an NSTART slot (`acquireOutstandingInteraction`) with no `TryToReplaceLoop` before
the wait (`Generated.WaitShape`: `Conn.acquireOutstandingInteraction / acquire`, `precededByReplace`).  A handler's nested
confirmable request then waits for the slot on the loop goroutine.  Giving the slot back needs only the socket reader
(`Props.C11NStart.release_after_ack_read`) — but the socket reader stands behind a full receive queue that only the waiting
handler's loop could drain: nobody reads the holder's acknowledgement, nor anything else, until the holder's request runs into its
deadline.  As for F11 / F12 / ping the statements are relative to the regenerated source facts: the stall half is about a source
without the hand-over (it is what a relapse would mean), the well-formedness half about one with it — there
`Props.C11NStart.nstart_wait_never_keeps_a_queued_message` is the full statement.  Both halves build on either tree.
-/
namespace CoapVerif.Findings.C11NStart
open CoapVerif.Model.Reader CoapVerif.Model.ReaderPrograms CoapVerif.Model.ReaderNStart CoapVerif.Lemmas.Reader
open CoapVerif.Findings.C11 (currentBlocked hs)

/-- without a hand-over before the NSTART wait a nested confirmable `Do` on the datagram transport is not a well-formed handler
    program, even with the parallel-request limiter switched off -/
theorem nstart_doProg_not_wf : nstartWaitPreceded = false → waitsPreceded (doProgN true 1 0 0 1 1) = false := by
  decide +kernel

/-- with one it is, for every NSTART that is in force -/
theorem nstart_fixed_wf (h : nstartWaitPreceded = true) (key n k : Nat) : waitsPreceded (doProgN true key 0 0 (n + 1) k) = true := by
  cases h1 : (preceded "LimitParallelRequests.acquireEndpoint" "select" || handed true "LimitParallelRequests.Do" "LimitParallelRequests.acquireEndpoint") <;>
    cases h2 : preceded "LimitParallelRequests.Do" "acquire" <;>
    simp [doProgN, limiterPart, conWrite, takeSlot, rep, h, h1, h2, totalKey, waitsPreceded]

/-- an application goroutine (slot 1 of the loop table, not a reader loop) -/
def app (prog : List Act) : Loop := { idleLoop with doneClosed := true, pc := .running, prog := prog }

def stallInbox : List Msg := [⟨1, .req (doProgN true 1 0 0 1 1)⟩, ⟨2, .req []⟩, ⟨101, .ack 9⟩, ⟨102, .sep 9⟩]

/-- NSTART 1, receive queue of size 0, limiter off.  The application's confirmable request 9 is written (it holds the slot and
    waits for its ACK); request 1 arrives, its handler issues a nested confirmable request and waits for the slot on the one and
    only loop; request 2 arrives: the socket reader holds it and cannot hand it over -/
def stallSchedule : List Event :=
  hs 1 7 ++ [.feederRead, .loopTake 0] ++ hs 0 5 ++ [.feederRead, .feederPush, .feederRead]

/-- **the stall on the model, for a source without a hand-over before the NSTART wait:** the current loop is blocked in the
    semaphore, the slot's holder waits for an acknowledgement that is on the wire *behind* the message in the socket reader's
    hand, the connection is open — and no event other than the passing of time changes that (every event is a no-op). -/
theorem nstart_stall :
    nstartWaitPreceded = false →
    (let s := run { setLoop (init 0 true stallInbox) 1 (app (doProgN true 1 0 0 1 9)) with nloops := 2 } stallSchedule
     currentBlocked s = true ∧ waitsForSlot s 0 = true ∧ holdsSlotInAckWait s 1 9 = true ∧ s.hand.map (·.id) = some 2 ∧
     s.inbox.map (·.id) = [101, 102] ∧ s.closed = false ∧ s.current = 0 ∧
     ([Event.feederRead, .feederPush, .loopTake 0, .loopExit 0, .handlerStep 0, .handlerStep 1].all fun e =>
        let s' := step s e
        s'.inbox == s.inbox && s'.hand == s.hand && s'.queue == s.queue && s'.holders == s.holders && s'.acked == s.acked &&
        s'.started == s.started && s'.loops 0 == s.loops 0 && s'.loops 1 == s.loops 1) = true) := by
  decide +kernel

/-- **the unrestricted statement is refuted** (what `Props.C11NStart.release_after_ack_read` assumes — a free socket reader — cannot be
    dropped for such a source): there is a reachable state in which a holder stands in its acknowledgement wait, the acknowledgement is on the wire,
    and one step of the socket reader plus two of the holder do *not* give the slot back. -/
theorem not_release_without_free_reader :
    nstartWaitPreceded = false →
    ¬ (∀ (s : State) (l k : Nat), holdsSlotInAckWait s l k = true → (∃ m ∈ s.inbox, m.kind = .ack k) →
        slotsInUse (run s [.feederRead, .handlerStep l, .handlerStep l]) < slotsInUse s) := by
  intro h hall
  have := hall (run { setLoop (init 0 true stallInbox) 1 (app (doProgN true 1 0 0 1 9)) with nloops := 2 } stallSchedule) 1 9
    ((nstart_stall h).2.2.1) ⟨⟨101, .ack 9⟩, by decide +kernel, rfl⟩
  revert this
  decide +kernel

end CoapVerif.Findings.C11NStart

section Audit
open CoapVerif.Findings.C11NStart
#print axioms nstart_doProg_not_wf
#print axioms nstart_fixed_wf
#print axioms nstart_stall
#print axioms not_release_without_free_reader
end Audit
