import CoapVerif.Go.Basic
import CoapVerif.Model.PoolOptions
import CoapVerif.Spec.SortedMultiset
/-!
# C15 — findings: the code as it was before the repairs, and why the property was false of it

`Model/OptionValues.lean` models `message/options.go` *after* three small repairs.  This file keeps the previous
behaviour as separate definitions and proves, by concrete witnesses, that it violated the statements that
`Props/C15.lean` now proves for the repaired code.  Each witness is also a regression case in `corpus/C15/`
(replayed on the real code by every run of the check).  The old shapes are branches of the model itself
(`getMulti false`, `setPathUnchecked`, `resetOptionsToUnchecked`), selected by the facts the extractor reads from the AST;
on the current source those facts select the repaired branches (`Props/C15.lean: shape_agrees`).

* **F1** `Options.GetUint32s`: loop bound `i <= lastIdx` — one iteration too many.
* **F19** `setPath`: `options.Remove(optionID)` ran (in place) *before* the path was validated and the buffer
  checked; every error return handed back the caller's old header over the compacted array.
* **C15-resetto** `Options.ResetOptionsTo`: values were copied and options overwritten one by one, and `ErrTooSmall`
  discovered half-way returned the caller's old header over the partly overwritten array.
-/
namespace CoapVerif.Findings.C15
open CoapVerif.Model.Options CoapVerif.Spec.SortedMultiset CoapVerif.Generated.OptionList

/-! ## F1 -/

/-- `GetUint32s` with the old bound `for i := firstIdx; i <= lastIdx; i++` is `getMulti false` of the model. -/
def getMultiOld {α : Type} (o : Options α) (id : Nat) (n : Nat) := o.getMulti false id n

def f1List : Options Nat := ⟨[(8, 1), (11, 2), (11, 3)], 3⟩

/-- well-formed, sorted list; result slice of exactly the right size; the option is last in the list: panic -/
theorem f1_panics_at_end_of_list : getMultiOld f1List 11 2 = .error .index := by decide
/-- mid-list with an exactly sized slice: panic (write past the result slice) -/
theorem f1_panics_mid_list : getMultiOld f1List 8 1 = .error .index := by decide
/-- mid-list with a larger slice: no panic, but a value of a *different* option is returned as well -/
theorem f1_foreign_value : getMultiOld f1List 8 4 = .ok (2, none, [1, 2]) := by decide
/-- the repaired loop on the same inputs -/
theorem f1_repaired : f1List.getMulti true 11 2 = .ok (2, none, [2, 3]) ∧ f1List.getMulti true 8 1 = .ok (1, none, [1]) ∧
    f1List.getMulti true 8 4 = .ok (1, none, [1]) := by decide

/-! ## F19 -/

/-- `setPath` in the old order (remove first, validate afterwards, return `options` on error) is the model's
`setPathUnchecked`, the branch `Options.setPath` takes when the AST says so. -/
def setPathOld := @Options.setPathUnchecked

def g0 (c : Nat) : Nat := 2 * c + 1
/-- heap: buffer 0 holds "abq" + 5 unused bytes -/
def f19Mem : Mem := [[97, 98, 113, 0, 0, 0, 0, 0]]
/-- `11:"a" 11:"b" 15:"q"`, capacity 4 -/
def f19Opts : Options View := ⟨[(11, ⟨0, 0, 1⟩), (11, ⟨0, 1, 1⟩), (15, ⟨0, 2, 1⟩), (0, ⟨0, 0, 0⟩)], 3⟩
def f19Buf : Slice := ⟨0, 3, 5⟩
/-- "/xxxxxx": six bytes do not fit the five that are left -/
def f19Path : List UInt8 := [47, 120, 120, 120, 120, 120, 120]

def itemsOf (m : Mem) (o : Options View) : List Item := o.toList.map (fun x => (x.1, m.read x.2))

theorem f19_before : itemsOf f19Mem f19Opts = [(11, [97]), (11, [98]), (15, [113])] := by decide

/-- The old `setPath` refuses (`ErrTooSmall`) and hands back a list that is no longer the one it was given:
`15:q 11:b 15:q` — unsorted, one path segment lost, one option duplicated. -/
theorem f19_refusal_corrupts_list :
    (setPathOld g0 f19Mem f19Opts 11 f19Buf f19Path).map (fun r => (r.err, itemsOf r.mem r.opts))
      = .ok (some .tooSmall, [(15, [113]), (11, [98]), (15, [113])]) := by decide

/-- The repaired `setPath` on the same input refuses and leaves the list untouched. -/
theorem f19_repaired :
    (Options.setPathChecked g0 f19Mem f19Opts 11 f19Buf f19Path).map (fun r => (r.err, itemsOf r.mem r.opts))
      = .ok (some .tooSmall, [(11, [97]), (11, [98]), (15, [113])]) := by decide

/-- `pool.Message.SetPath` with the old `setPath`: grows the buffer and retries on the corrupted header. -/
def poolSetPathOld (g : Nat → Nat) (gb : Nat → Nat → Nat) (r : Msg) (p : List UInt8) : M (Msg × Option Err) := do
  let res ← setPathOld g r.mem r.opts uriPath r.vb p
  match res.err with
  | some .tooSmall =>
    match ← Options.getPathBufferSize p with
    | .error e => pure (r, some e)
    | .ok expandBy =>
      let (m', vb') := appendZeros gb res.mem r.vb expandBy
      let res' ← setPathOld g m' res.opts uriPath vb' p
      match res'.err with
      | some e => pure ({ r with mem := res'.mem, vb := vb' }, some e)
      | none => pure ({ r with mem := res'.mem, opts := res'.opts, vb := ← vb'.tail res'.used.toNat }, none)
  | some e => pure (r, some e)
  | none => pure ({ r with mem := res.mem, opts := res.opts, vb := ← r.vb.tail res.used.toNat }, none)

def gb0 (c need : Nat) : Nat := max (2 * c) need

/-- The full F19 scenario on a pooled message: it already carries a path, the value buffer must grow, the call
*succeeds* — and the message ends up with five options `11:x… 15:q 11:b 15:q`, duplicated and unsorted. -/
theorem f19_pool_grow_duplicates :
    (poolSetPathOld g0 gb0 ⟨f19Mem, f19Opts, f19Buf, ⟨0, 0, 8⟩⟩ f19Path).map (fun r => (r.2, (itemsOf r.1.mem r.1.opts).map (·.1)))
      = .ok (none, [11, 15, 11, 15]) := by decide

/-! ## C15-resetto (ResetOptionsTo) -/

/-- `ResetOptionsTo` in the old form is the model's `resetOptionsToUnchecked`. -/
def resetOptionsToOld := @Options.resetOptionsToUnchecked

/-- heap: buffer 0 = the message's values "ab" + 2 unused bytes; buffer 1 = the caller's input values -/
def resettoMem : Mem := [[170, 187, 0, 0], [204, 221, 221, 221, 221]]
def resettoOpts : Options View := ⟨[(1, ⟨0, 0, 1⟩), (2, ⟨0, 1, 1⟩)], 2⟩
def resettoIn : List (Opt View) := [(5, ⟨1, 0, 1⟩), (6, ⟨1, 1, 4⟩)]

/-- The old `ResetOptionsTo` refuses (`ErrTooSmall`) after it has already overwritten the first option. -/
theorem resetto_refusal_corrupts_list :
    (resetOptionsToOld g0 resettoMem resettoOpts ⟨0, 2, 2⟩ resettoIn).map (fun r => (r.err, itemsOf r.mem r.opts))
      = .ok (some .tooSmall, [(5, [204]), (2, [187])]) := by decide

theorem resetto_repaired :
    (Options.resetOptionsToChecked g0 resettoMem resettoOpts ⟨0, 2, 2⟩ resettoIn).map (fun r => (r.err, itemsOf r.mem r.opts))
      = .ok (some .tooSmall, [(1, [170]), (2, [187])]) := by decide

end CoapVerif.Findings.C15

section Audit
open CoapVerif.Findings.C15
#print axioms f1_panics_at_end_of_list
#print axioms f1_panics_mid_list
#print axioms f1_foreign_value
#print axioms f1_repaired
#print axioms f19_before
#print axioms f19_refusal_corrupts_list
#print axioms f19_repaired
#print axioms f19_pool_grow_duplicates
#print axioms resetto_refusal_corrupts_list
#print axioms resetto_repaired
end Audit
