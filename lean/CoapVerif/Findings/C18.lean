import CoapVerif.Model.Monitor
/-!
Finding O3 (C18, datagram server only): `udp/server/server.go: getConn` checks expiry at `now + 10 ms` when a
datagram of a known peer arrives.  The full statement "closed only if no message was received for a full period"
is therefore false for that call site: witness below (period 100 ms, previous message at 0, datagram at 95 ms).
The proved part is `Props.C18.datagram_close_bound_partial` (silence > period − look-ahead).
-/
namespace CoapVerif.Findings.C18
open CoapVerif.Model.Monitor CoapVerif.Spec.Monitor

theorem datagram_closes_before_period_elapsed :
    ∃ (cfg : Cfg) (s : St) (t : Int), s.closed = false ∧ Out.close ∈ (step cfg s (.datagram t)).2 ∧
      ¬ (t > s.last + cfg.period) :=
  ⟨⟨100000000, none⟩, init 0, 95000000, by decide⟩

end CoapVerif.Findings.C18
#print axioms CoapVerif.Findings.C18.datagram_closes_before_period_elapsed
