import CoapVerif.Model.Monitor
/-!
Finding O3 (C18, datagram server only): `udp/server/server.go: getConn` checks expiry at `now + 10 ms` when a
datagram of a known peer arrives.  The full statement "closed only if no message was received for a full period"
is therefore false for that call site: witness below (period 100 ms, previous message at 0, datagram at 95 ms).
The proved part is `Props.C18.datagram_close_bound_partial` (silence > period − look-ahead).
-/
namespace CoapVerif.Findings.C18
open CoapVerif.Model.Monitor CoapVerif.Spec.Monitor

theorem datagram_closes_before_period_elapsed :
    ∃ (cfg : Cfg) (s : St) (t : Int), s.closed = false ∧ Out.close ∈ (step cfg s (.datagram t)).2 ∧
      ¬ (t > s.last + cfg.period) :=
  ⟨⟨100000000, none⟩, init 0, 95000000, by decide⟩

/-!
Observation O4 (keep-alive timing; NOT a violation of C18 as worded, recorded so that nobody reads more into the
theorems than they say): `KeepAlive.OnInactive` does not refresh `lastActivity`, so after the idle period has elapsed
every further housekeeping tick is an idle firing.  Pings are therefore spaced by the housekeeping interval (default
runner: 4 s; any configured `PeriodicRunner`), not by the monitor period, and the connection is closed
`maxRetries + 1` ticks after the period elapsed — e.g. `WithKeepAlive(2, 60 s)` (period 20 s) with the default 4 s runner
closes a silent peer after about 32 s, each ping having had 4 s.  With period 100, two retries and ticks 1 ns apart: -/
theorem keepalive_firings_need_no_time_between_them :
    (run ⟨100, some 2⟩ (init 0) [.tick 101, .tick 102, .tick 103]).2
      = [.ping 1, .cancelPing 1, .ping 2, .cancelPing 2, .close] := by decide

/-- and when nothing can be sent the connection is closed without a single ping having left -/
theorem keepalive_closes_without_a_ping_sent :
    (run ⟨100, some 2⟩ (init 0) [.tickFail 101, .tickFail 102, .tick 103]).2 = [.pingFailed 1, .pingFailed 2, .close] := by
  decide

end CoapVerif.Findings.C18
#print axioms CoapVerif.Findings.C18.datagram_closes_before_period_elapsed
#print axioms CoapVerif.Findings.C18.keepalive_firings_need_no_time_between_them
#print axioms CoapVerif.Findings.C18.keepalive_closes_without_a_ping_sent
