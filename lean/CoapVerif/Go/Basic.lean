/-! Shared basics for the Go models (core Lean only). -/
namespace CoapVerif

instance instDecidableEqExcept {ε α : Type} [DecidableEq ε] [DecidableEq α] : DecidableEq (Except ε α)
  | .ok a, .ok b => if h : a = b then isTrue (by rw [h]) else isFalse (by intro h'; injection h' with h'; exact h h')
  | .error a, .error b => if h : a = b then isTrue (by rw [h]) else isFalse (by intro h'; injection h' with h'; exact h h')
  | .ok _, .error _ => isFalse (by intro h; cases h)
  | .error _, .ok _ => isFalse (by intro h; cases h)

end CoapVerif
