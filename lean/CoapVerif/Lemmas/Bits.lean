/-! Small facts about `Nat` bit operations used by the block-option and header models (core only). -/
namespace CoapVerif.Lemmas

theorem and_7 (v : Nat) : v &&& 7 = v % 8 := Nat.and_two_pow_sub_one_eq_mod v 3

theorem and_8_lt (v : Nat) : v &&& 8 < 16 := Nat.and_lt_two_pow v (n := 4) (by decide)

theorem and_8_mod (v : Nat) : v &&& 8 = (v % 16) &&& 8 := by
  have h1 : (v &&& 8) % 2 ^ 4 = (v % 2 ^ 4) &&& (8 % 2 ^ 4) := Nat.and_mod_two_pow
  have h2 := and_8_lt v
  have h3 : (v &&& 8) % 16 = v &&& 8 := Nat.mod_eq_of_lt h2
  simpa [h3] using h1

theorem and_8_small : ∀ r, r < 16 → ((r &&& 8) != 0) = (r / 8 % 2 == 1) := by decide

theorem and_8_ne_zero (v : Nat) : ((v &&& 8) != 0) = (v / 8 % 2 == 1) := by
  rw [and_8_mod, and_8_small (v % 16) (Nat.mod_lt _ (by decide))]
  have : v % 16 / 8 % 2 = v / 8 % 2 := by omega
  rw [this]

theorem shr_4 (v : Nat) : v >>> 4 = v / 16 := Nat.shiftRight_eq_div_pow v 4

end CoapVerif.Lemmas
