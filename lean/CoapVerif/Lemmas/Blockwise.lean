import CoapVerif.Go.Basic
import CoapVerif.Model.Blockwise
import CoapVerif.Props.C19
/-!
Helper lemmas for C04 (`Props/C04.lean`): block sizes, slices of a body, the sender's `createSendingMessage`,
the receiver's `processReceivedMessage` invariants.  Core Lean only.
-/
namespace CoapVerif.Lemmas.Blockwise
open CoapVerif CoapVerif.Model.Blockwise CoapVerif.Model.BlockOpt CoapVerif.Generated.BlockwiseXfer

/-! ### block sizes -/

theorem sizeN_cases {s : Nat} (h : s ≤ 7) : sizeN s = if s < 7 then 2 ^ (s + 4) else 1024 := by
  have : s = 0 ∨ s = 1 ∨ s = 2 ∨ s = 3 ∨ s = 4 ∨ s = 5 ∨ s = 6 ∨ s = 7 := by omega
  rcases this with h | h | h | h | h | h | h | h <;> subst h <;> decide

theorem sizeN_pos {s : Nat} (h : s ≤ 7) : 0 < sizeN s := by
  rw [sizeN_cases h]; split
  · exact Nat.pow_pos (by decide)
  · decide

theorem bufLen_small {s : Nat} (m : Nat) (h : s < 7) : bufLen s m = sizeN s := by
  unfold bufLen sizeN bufferSize
  simp [Generated.Blockwise.szxBERT, h]

theorem bufLen_bert (m : Nat) : bufLen 7 m = (m / 1024) * sizeN 7 := by
  have h := (Props.C19.bert_buffer_multiple m).1
  unfold bufLen
  rw [h]
  have : sizeN 7 = 1024 := by decide
  rw [this]
  omega

/-- the buffer of a block is a whole number of size units -/
theorem bufLen_mul {s : Nat} (m : Nat) (h : s ≤ 7) : ∃ k, bufLen s m = k * sizeN s := by
  by_cases h7 : s < 7
  · exact ⟨1, by rw [bufLen_small m h7]; omega⟩
  · have : s = 7 := by omega
    subst this
    exact ⟨m / 1024, bufLen_bert m⟩

theorem bufLen_pos_small {s : Nat} (m : Nat) (h : s < 7) : 0 < bufLen s m := by
  rw [bufLen_small m h]; exact sizeN_pos (by omega)

theorem getSzx_eq_min (a b : Nat) : getSzx a b = min a b := by
  unfold getSzx; split <;> omega

theorem getSzx_le_left (a b : Nat) : getSzx a b ≤ a := by rw [getSzx_eq_min]; omega
theorem getSzx_le_right (a b : Nat) : getSzx a b ≤ b := by rw [getSzx_eq_min]; omega

/-- a decoded block has a size exponent of at most 7 -/
theorem decode_szx_le {v s n : Nat} {m : Bool} (h : decodeBlock v = .ok (s, n, m)) : s ≤ 7 := by
  have hd := Props.C19.decode_eq_spec v
  rw [h] at hd
  unfold Spec.BlockOpt.decode at hd
  by_cases hv : v < 2 ^ 24
  · simp only [hv, if_true, Except.toOption] at hd
    injection hd with hd
    injection hd with h1 _
    omega
  · simp [hv, Except.toOption] at hd

/-! ### slices and prefixes of a body -/

/-- `pay` is the part of `body` that starts at offset `off` -/
def SliceAt (body : Bytes) (off : Nat) (pay : Bytes) : Prop := off ≤ body.length ∧ pay <+: body.drop off

theorem sliceAt_take_drop (body : Bytes) (off n : Nat) (h : off ≤ body.length) :
    SliceAt body off ((body.drop off).take n) := ⟨h, List.take_prefix _ _⟩

theorem prefix_eq_take {held body : Bytes} (h : held <+: body) : held = body.take held.length := by
  obtain ⟨t, rfl⟩ := h
  simp

/-- appending the slice that starts where the held prefix ends gives a longer prefix -/
theorem prefix_append_slice {held body pay : Bytes} (hp : held <+: body) (hs : SliceAt body held.length pay) :
    held ++ pay <+: body := by
  obtain ⟨_, rest, hr⟩ := hs
  have h1 : body = body.take held.length ++ body.drop held.length := (List.take_append_drop _ _).symm
  rw [← prefix_eq_take hp, ← hr] at h1
  exact ⟨rest, by rw [List.append_assoc]; exact h1.symm⟩

/-- … and the whole body when the slice ends it -/
theorem prefix_append_slice_complete {held body pay : Bytes} (hp : held <+: body) (hs : SliceAt body held.length pay)
    (he : held.length + pay.length = body.length) : held ++ pay = body := by
  obtain ⟨t, ht⟩ := prefix_append_slice hp hs
  have hl := congrArg List.length ht
  simp only [List.length_append] at hl
  have : t = [] := List.eq_nil_of_length_eq_zero (by omega)
  subst this
  simpa using ht

theorem slice_zero_complete {body pay : Bytes} (hs : SliceAt body 0 pay) (he : pay.length = body.length) : pay = body := by
  have := prefix_append_slice_complete (held := []) (List.nil_prefix) (by simpa using hs) (by simpa using he)
  simpa using this

/-! ### sender: `createSendingMessage` -/

theorem createSendingAt_spec {sm : Msg} {bt : BT} {szx off nb : Nat} {m : Msg} {more : Bool}
    (h : createSendingAt sm bt szx off nb = some (m, more)) :
    ∃ v, m = { (sm.setSize bt sm.body.length).setBlock bt v with body := (sm.body.drop off).take nb } ∧
      decodeBlock v = .ok (szx, off / sizeN szx, more) ∧
      more = decide (off + m.body.length ≠ sm.body.length) ∧
      (nb > 0 → off ≤ sm.body.length) ∧ sm.body.length < 4294967296 := by
  unfold createSendingAt at h
  split at h
  · cases h
  split at h
  · cases h
  · rename_i hoff
    split at h
    · cases h
    · rename_i hlen
      simp only [] at h
      split at h
      · cases h
      · rename_i v he
        injection h with h
        injection h with h1 h2
        refine ⟨v, h1.symm, ?_, ?_, ?_, ?_⟩
        · have := Props.C19.decode_encode _ _ _ _ he
          rw [this, ← h2]
          rfl
        · subst h1; exact h2.symm
        · intro hpos
          apply Nat.le_of_not_gt
          intro hh
          exact hoff ⟨hpos, hh⟩
        · omega

/-- (F39) a message without body has no block to send -/
theorem createSendingAt_bodyless (hfix : refusesBodylessSending = true) {sm : Msg} (h : sm.body = []) (bt : BT) (szx off nb : Nat) :
    createSendingAt sm bt szx off nb = none := by
  unfold createSendingAt
  rw [if_pos ⟨hfix, h⟩]

/-- … and for a message with a body the test is passed -/
theorem bodyless_test_neg {sm : Msg} (h : 0 < sm.body.length) : ¬ (refusesBodylessSending = true ∧ sm.body = []) := by
  intro hh
  rw [hh.2] at h
  exact absurd h (by simp)

/-! ### receiver: ETag handling and reassembly -/

theorem applyEtag_cases (r c : Msg) :
    (applyEtag r c = c ∧ (r.etag = c.etag ∨ r.etag = none ∨ c.etag = none)) ∨
    (applyEtag r c = { r with body := [], tok := c.tok, deadline := c.deadline } ∧ r.etag ≠ c.etag ∧
      r.etag ≠ none ∧ c.etag ≠ none) := by
  unfold applyEtag
  cases hr : r.etag <;> cases hc : c.etag
  · simp
  · simp
  · simp
  · rename_i a b
    by_cases hab : a = b
    · simp [hab]
    · simp [hab, restartTakesNewOptions]

/-- the message the payload is appended to: the held one (compatible ETags, not a first block that restarts), or a fresh
    one made from the block (ETag change; first block once F10e is in the tree) -/
theorem blockBase_cases (r c : Msg) (off : Nat) :
    (blockBase r c off = c ∧ (r.etag = c.etag ∨ r.etag = none ∨ c.etag = none)) ∨
    (blockBase r c off = { r with body := [], tok := c.tok, deadline := c.deadline }) := by
  unfold blockBase
  split
  · exact Or.inr rfl
  · rcases applyEtag_cases r c with ⟨h, hc⟩ | ⟨h, _⟩
    · exact Or.inl ⟨h, hc⟩
    · exact Or.inr h

/-- what an application supplied for transfer under a token and an ETag -/
structure Supplied where
  body : Bytes
  other : List (Nat × Bytes)
  code : Nat

/-- token → ETag → what is being sent to this endpoint under that token / ETag -/
abbrev Reg := Nat → Option Bytes → Option Supplied

/-- ETag discipline (RFC 7959 §2.4): representations under one token are told apart by their ETags; a
    representation without ETag is the only one of its token. -/
def Discipline (R : Reg) : Prop :=
  ∀ tok e s s', R tok none = some s → R tok (some e) = some s' → s = s'

def Matches (R : Reg) (tok : Nat) (m : Msg) (s : Supplied) : Prop :=
  R tok m.etag = some s ∧ m.other = s.other ∧ m.code = s.code ∧ m.tok = tok

/-- the bytes held for a token are a prefix of the body being sent under that token / ETag -/
def HeldOK (R : Reg) (tok : Nat) (c : Msg) : Prop := ∃ s, Matches R tok c s ∧ c.body <+: s.body

theorem matches_unique {R : Reg} (hd : Discipline R) {tok : Nat} {r c : Msg} {s s' : Supplied}
    (hr : Matches R tok r s) (hc : Matches R tok c s') (he : r.etag = c.etag ∨ r.etag = none ∨ c.etag = none) : s = s' := by
  obtain ⟨h1, _⟩ := hr
  obtain ⟨h2, _⟩ := hc
  rcases he with he | he | he
  · rw [he] at h1; rw [h1] at h2; exact Option.some.inj h2
  · rw [he] at h1
    cases hce : c.etag with
    | none => rw [hce] at h2; rw [h1] at h2; exact Option.some.inj h2
    | some e => rw [hce] at h2; exact hd tok e s s' h1 h2
  · rw [he] at h2
    cases hre : r.etag with
    | none => rw [hre] at h1; rw [h1] at h2; exact Option.some.inj h2
    | some e => rw [hre] at h1; exact (hd tok e s' s h2 h1).symm

/-- `absorb` keeps the invariant, and a block that ends the body completes it -/
theorem absorb_ok {R : Reg} (hd : Discipline R) {tok off : Nat} {r c0 : Msg} {s : Supplied}
    (hc : HeldOK R tok c0) (hr : Matches R tok r s)
    (hs : off = (blockBase r c0 off).body.length → SliceAt s.body off r.body) :
    Matches R tok (absorb r c0 off).1 s ∧ (absorb r c0 off).1.body <+: s.body ∧
      ((absorb r c0 off).2 = true → off + r.body.length = s.body.length → (absorb r c0 off).1.body = s.body) := by
  obtain ⟨s', hm', hp'⟩ := hc
  have key : Matches R tok (blockBase r c0 off) s ∧ (blockBase r c0 off).body <+: s.body := by
    rcases blockBase_cases r c0 off with ⟨he, hcase⟩ | he
    · have : s = s' := matches_unique hd hr hm' hcase
      subst this
      rw [he]; exact ⟨hm', hp'⟩
    · rw [he]
      obtain ⟨h1, h2, h3, _⟩ := hr
      exact ⟨⟨h1, h2, h3, hm'.2.2.2⟩, List.nil_prefix⟩
  unfold absorb
  simp only []
  split
  · rename_i hoff
    have hsl := hs hoff
    rw [hoff] at hsl
    refine ⟨?_, ?_, ?_⟩
    · exact key.1
    · exact prefix_append_slice key.2 hsl
    · intro _ hend
      exact prefix_append_slice_complete key.2 hsl (by omega)
  · exact ⟨key.1, key.2, by intro h; cases h⟩

/-- every data block of `r` is an aligned slice of what was supplied under its token and ETag, and a block
    without `more` ends that body -/
def GoodData (R : Reg) (bt : BT) (r : Msg) : Prop :=
  ∀ blk szx num more, r.block bt = some blk → decodeBlock blk = .ok (szx, num, more) →
    ∃ s, Matches R r.tok r s ∧ SliceAt s.body (num * sizeN szx) r.body ∧
      (more = false → num * sizeN szx + r.body.length = s.body.length)

/-- `d` is exactly what was supplied under its token and ETag -/
def Complete (R : Reg) (tok : Nat) (d : Msg) : Prop :=
  ∃ s, R tok d.etag = some s ∧ d.body = s.body ∧ d.other = s.other ∧ d.code = s.code ∧ d.tok = tok

theorem live_some {slot : Option Entry} {e : Entry} {now : Int} (h : live slot now = some e) : slot = some e := by
  unfold live at h
  cases slot with
  | none => simp at h
  | some x =>
    simp only at h
    split at h
    · cases h
    · exact h

theorem blockBase_fresh (r : Msg) (off : Nat) : (blockBase r { r with body := [] } off).body = [] := by
  rcases blockBase_cases r { r with body := [] } off with ⟨h, _⟩ | h <;> rw [h]

theorem removeBlockSize_fields (c : Msg) (bt : BT) :
    (c.removeBlockSize bt).etag = c.etag ∧ (c.removeBlockSize bt).body = c.body ∧ (c.removeBlockSize bt).other = c.other ∧
    (c.removeBlockSize bt).code = c.code ∧ (c.removeBlockSize bt).tok = c.tok := by
  cases bt <;> simp [Msg.removeBlockSize]

theorem processReceived_inv {R : Reg} (hd : Discipline R) (cfg : Cfg) (sl : Slots) (now : Int) (w : Option Msg) (r : Msg)
    (maxSzx : Nat) (app : App) (bt : BT)
    (hg : GoodData R bt r) (hinv : ∀ e, sl.rcv = some e → HeldOK R r.tok e.msg) :
    (∀ e, (processReceived cfg sl now w r maxSzx app bt).sl.rcv = some e → HeldOK R r.tok e.msg) ∧
    (∀ d ∈ (processReceived cfg sl now w r maxSzx app bt).delivered,
      (d = r ∧ (r.tok = 0 ∨ r.code = codeGET ∨ r.code = codeDELETE ∨ r.block bt = none)) ∨ Complete R r.tok d) := by
  unfold processReceived
  simp only []
  split
  · rename_i h0; exact ⟨hinv, by intro d hdm; simp at hdm; exact Or.inl ⟨hdm, Or.inl h0⟩⟩
  split
  · rename_i _ hgd
    refine ⟨hinv, ?_⟩
    intro d hdm; simp at hdm
    rcases hgd with h | h
    · exact Or.inl ⟨hdm, Or.inr (Or.inl h)⟩
    · exact Or.inl ⟨hdm, Or.inr (Or.inr (Or.inl h))⟩
  split
  · rename_i _ _ hb
    split
    · exact ⟨hinv, by intro d hdm; simp at hdm⟩
    · exact ⟨hinv, by intro d hdm; simp at hdm; exact Or.inl ⟨hdm, Or.inr (Or.inr (Or.inr hb))⟩⟩
  · rename_i _ _ blk hb
    split
    · exact ⟨hinv, by intro d hdm; simp at hdm⟩
    · rename_i szx0 num more hdec
      obtain ⟨s, hm, hsl, hend⟩ := hg blk szx0 num more hb hdec
      have hs7 : szx0 ≤ 7 := decode_szx_le hdec
      split
      · exact ⟨hinv, by intro d hdm; simp at hdm⟩
      · split
        · -- nothing held
          split
          · rename_i hmore
            split
            · exact ⟨hinv, by intro d hdm; simp at hdm⟩
            · rename_i hnum
              refine ⟨hinv, ?_⟩
              intro d hdm; simp at hdm
              have hn0 : num = 0 := by
                have : ¬ num > 0 := fun hp => hnum ⟨rfl, hp⟩
                omega
              subst hn0
              refine Or.inr ⟨s, ?_⟩
              subst hdm
              have hlen := hend hmore
              simp at hlen hsl
              exact ⟨hm.1, slice_zero_complete hsl hlen, hm.2.1, hm.2.2.1, hm.2.2.2⟩
          · -- first block of a new entry
            have hfresh : HeldOK R r.tok { r with body := [] } := ⟨s, ⟨hm.1, hm.2.1, hm.2.2.1, hm.2.2.2⟩, List.nil_prefix⟩
            have hab := absorb_ok hd (off := num * sizeN (getSzx szx0 maxSzx)) hfresh hm (by
              intro hoff
              rw [blockBase_fresh] at hoff
              have hp : 0 < sizeN (getSzx szx0 maxSzx) := sizeN_pos (Nat.le_trans (getSzx_le_left _ _) hs7)
              have hn0 : num = 0 := by
                rcases Nat.eq_zero_or_pos num with h | h
                · exact h
                · have := Nat.mul_pos h hp; simp at hoff; omega
              subst hn0
              simpa using hsl)
            split
            · exact ⟨by intro e he; simp at he, by intro d hdm; simp at hdm⟩
            · refine ⟨?_, by intro d hdm; simp at hdm⟩
              intro e he
              simp at he
              subst he
              exact ⟨s, hab.1, hab.2.1⟩
        · -- an entry is held
          rename_i ent hlive
          have hheld := hinv ent (live_some hlive)
          have hab := absorb_ok hd (off := num * sizeN szx0) hheld hm (fun _ => hsl)
          split
          · rename_i hdone
            refine ⟨by intro e he; simp at he, ?_⟩
            intro d hdm; simp at hdm
            subst hdm
            have hfull := hab.2.2 hdone.1 (hend hdone.2)
            obtain ⟨f1, f2, f3, f4, f5⟩ := removeBlockSize_fields (absorb r ent.msg (num * sizeN szx0)).1 bt
            refine Or.inr ⟨s, ?_, ?_, ?_, ?_, ?_⟩
            · rw [f1]; exact hab.1.1
            · rw [f2]; exact hfull
            · rw [f3]; exact hab.1.2.1
            · rw [f4]; exact hab.1.2.2.1
            · rw [f5]; exact hab.1.2.2.2
          · split
            · exact ⟨by intro e he; simp at he, by intro d hdm; simp at hdm⟩
            · refine ⟨?_, by intro d hdm; simp at hdm⟩
              intro e he
              simp at he
              subst he
              exact ⟨s, hab.1, hab.2.1⟩

/-! ### counting: deliveries need first blocks -/

/-- 1 if bytes are held in the slot, else 0 -/
def heldNe (slot : Option Entry) : Nat :=
  match slot with
  | some e => if e.msg.body = [] then 0 else 1
  | none => 0

/-- 1 if `r` can start a body in direction `bt`: it carries no such block option, or block number 0 -/
def isStartBlock (r : Msg) (bt : BT) : Nat :=
  match r.block bt with
  | none => 1
  | some v =>
    match decodeBlock v with
    | .ok (_, num, _) => if num = 0 then 1 else 0
    | .error _ => 0

theorem absorb_pot (r c0 : Msg) (off : Nat) :
    ((absorb r c0 off).2 = true → c0.body ≠ [] ∨ off = 0) ∧
    ((absorb r c0 off).1.body ≠ [] → c0.body ≠ [] ∨ off = 0) := by
  have hb : (blockBase r c0 off).body = c0.body ∨ (blockBase r c0 off).body = [] := by
    rcases blockBase_cases r c0 off with ⟨h, _⟩ | h <;> rw [h] <;> simp
  unfold absorb
  simp only []
  split
  · rename_i hoff
    constructor
    · intro _
      rcases hb with h | h
      · by_cases hc : c0.body = []
        · right; rw [hoff, h, hc]; rfl
        · left; exact hc
      · right; rw [hoff, h]; rfl
    · intro _
      rcases hb with h | h
      · by_cases hc : c0.body = []
        · right; rw [hoff, h, hc]; rfl
        · left; exact hc
      · right; rw [hoff, h]; rfl
  · constructor
    · intro h; cases h
    · intro hne
      rcases hb with h | h
      · left; rw [← h]; exact hne
      · exact absurd h hne

theorem heldNe_le_one (s : Option Entry) : heldNe s ≤ 1 := by
  unfold heldNe; split
  · split <;> omega
  · omega

theorem heldNe_some_of_ne {e : Entry} (h : e.msg.body ≠ []) : heldNe (some e) = 1 := by
  simp [heldNe, h]

theorem heldNe_live (slot : Option Entry) (now : Int) (e : Entry) (h : live slot now = some e) :
    heldNe slot = if e.msg.body = [] then 0 else 1 := by
  rw [live_some h]; rfl

theorem mul_sizeN_eq_zero {num s : Nat} (hs : s ≤ 7) (h : num * sizeN s = 0) : num = 0 := by
  rcases Nat.eq_zero_or_pos num with h0 | h0
  · exact h0
  · have := Nat.mul_pos h0 (sizeN_pos hs); omega

theorem processReceived_once (cfg : Cfg) (sl : Slots) (now : Int) (w : Option Msg) (r : Msg)
    (maxSzx : Nat) (app : App) (bt : BT) (htok : r.tok ≠ 0) (hcode : ¬ (r.code = codeGET ∨ r.code = codeDELETE)) :
    (processReceived cfg sl now w r maxSzx app bt).delivered.length +
        heldNe (processReceived cfg sl now w r maxSzx app bt).sl.rcv ≤ heldNe sl.rcv + isStartBlock r bt := by
  unfold processReceived isStartBlock
  simp only []
  rw [if_neg htok, if_neg hcode]
  cases hb : r.block bt with
  | none =>
    simp only []
    split
    · simp
    · simp; omega
  | some blk =>
    simp only []
    cases hdec : decodeBlock blk with
    | error e => simp
    | ok t =>
      obtain ⟨szx0, num, more⟩ := t
      have hs7 : szx0 ≤ 7 := decode_szx_le hdec
      simp only []
      split
      · simp
      · split
        · rename_i hlive
          split
          · split
            · simp
            · rename_i hnum
              have hn0 : num = 0 := by
                have : ¬ num > 0 := fun hp => hnum ⟨rfl, hp⟩
                omega
              simp [hn0]; omega
          · -- new entry
            have hp := (absorb_pot r { r with body := [] } (num * sizeN (getSzx szx0 maxSzx))).2
            split
            · simp [heldNe]
            · simp only [List.length_nil, Nat.zero_add]
              by_cases hne : (absorb r { r with body := [] } (num * sizeN (getSzx szx0 maxSzx))).1.body = []
              · simp [heldNe, hne]
              · rcases hp hne with h | h
                · simp at h
                · have hn0 := mul_sizeN_eq_zero (Nat.le_trans (getSzx_le_left _ _) hs7) h
                  rw [if_pos hn0]
                  exact Nat.le_trans (heldNe_le_one _) (by omega)
        · rename_i ent hlive
          have hh := heldNe_live sl.rcv now ent hlive
          have hp := absorb_pot r ent.msg (num * sizeN szx0)
          split
          · rename_i hdone
            simp only [List.length_singleton]
            have h0 : heldNe (none : Option Entry) = 0 := rfl
            rw [h0]
            rcases hp.1 hdone.1 with h | h
            · rw [hh]; simp [h]
            · have hn0 := mul_sizeN_eq_zero hs7 h
              simp [hn0]
          · split
            · simp [heldNe]
            · simp only [List.length_nil, Nat.zero_add]
              by_cases hne : (absorb r ent.msg (num * sizeN szx0)).1.body = []
              · simp [heldNe, hne]
              · rcases hp.2 hne with h | h
                · rw [hh]; simp [h]
                  exact Nat.le_trans (heldNe_le_one _) (by omega)
                · have hn0 := mul_sizeN_eq_zero hs7 h
                  rw [if_pos hn0]
                  exact Nat.le_trans (heldNe_le_one _) (by omega)

/-! ### `Handle` on one token's slots -/

/-- the block option that describes the payload of a message with this code, as `handleReceivedMessage` dispatches -/
def dataBT (code : Nat) : Option BT :=
  if isSignal code = true ∨ code = codeGET ∨ code = codeDELETE then none
  else if isPostPut code = true then some .b1 else some .b2

/-- 1 if the arrival of `r` can start a body: not a data block at all, or block number 0 -/
def startOf (r : Msg) : Nat :=
  match dataBT r.code with
  | none => 1
  | some bt => isStartBlock r bt

def GoodMsg (R : Reg) (r : Msg) : Prop := ∀ bt, dataBT r.code = some bt → GoodData R bt r

/-- `r` is handed on as it is because it carries no data block of its direction -/
def NoData (r : Msg) : Prop := r.tok = 0 ∨ dataBT r.code = none ∨ ∃ bt, dataBT r.code = some bt ∧ r.block bt = none

theorem finishReceived_rcv (cfg : Cfg) (now : Int) (h : HR) (mx blk : Nat) :
    (finishReceived cfg now h mx blk).sl.rcv = h.sl.rcv ∧ (finishReceived cfg now h mx blk).delivered = h.delivered := by
  unfold finishReceived
  split
  · exact ⟨rfl, rfl⟩
  · split <;> exact ⟨rfl, rfl⟩

/-- the receive path, seen from the receiving slot: either a pass-through, or `processReceived` in the direction of the code -/
theorem handleReceived_shape (cfg : Cfg) (sl : Slots) (now : Int) (r : Msg) (app : App) :
    ((handleReceived cfg sl now r app).sl.rcv = sl.rcv ∧ (handleReceived cfg sl now r app).delivered = [] ) ∨
    (dataBT r.code = none ∧ (handleReceived cfg sl now r app).sl.rcv = sl.rcv ∧ (handleReceived cfg sl now r app).delivered = [r]) ∨
    (∃ bt mx, dataBT r.code = some bt ∧
      (handleReceived cfg sl now r app).sl.rcv = (processReceived cfg sl now none r mx app bt).sl.rcv ∧
      (handleReceived cfg sl now r app).delivered = (processReceived cfg sl now none r mx app bt).delivered) := by
  unfold handleReceived
  split
  · exact Or.inl ⟨rfl, rfl⟩
  · split
    · rename_i hsig
      exact Or.inr (Or.inl ⟨by simp [dataBT, hsig], rfl, rfl⟩)
    · rename_i hsig
      split
      · rename_i hgd
        obtain ⟨h1, h2⟩ := finishReceived_rcv cfg now { sl := sl, w := next app none r, delivered := [r] }
          (fitSZX r .b2 cfg.szx) (match r.block2, next app none r with
            | some b, some m => if m.code = codeContent then b else _
            | _, _ => _)
        refine Or.inr (Or.inl ⟨?_, ?_, ?_⟩)
        · unfold dataBT; rw [if_pos (Or.inr hgd)]
        · exact h1
        · exact h2
      · rename_i hgd
        have hnone : ¬ (isSignal r.code = true ∨ r.code = codeGET ∨ r.code = codeDELETE) := by
          intro h; rcases h with h | h
          · exact hsig h
          · exact hgd h
        split
        · rename_i hpp
          obtain ⟨h1, h2⟩ := finishReceived_rcv cfg now (processReceived cfg sl now none r (fitSZX r .b1 cfg.szx) app .b1) (fitSZX r .b1 cfg.szx) _
          exact Or.inr (Or.inr ⟨.b1, _, by unfold dataBT; rw [if_neg hnone, if_pos hpp], h1, h2⟩)
        · rename_i hpp
          obtain ⟨h1, h2⟩ := finishReceived_rcv cfg now (processReceived cfg sl now none r (fitSZX r .b2 cfg.szx) app .b2) (fitSZX r .b2 cfg.szx) _
          exact Or.inr (Or.inr ⟨.b2, _, by unfold dataBT; rw [if_neg hnone, if_neg hpp], h1, h2⟩)

/-- what `Handle` does to the receiving slot and which messages it hands on -/
theorem handleS_shape (cfg : Cfg) (sl : Slots) (now : Int) (r : Msg) (app : App) :
    ((handleS cfg sl now r app).1.rcv = sl.rcv ∧ (handleS cfg sl now r app).2.delivered = []) ∨
    ((handleS cfg sl now r app).1.rcv = (handleReceived cfg sl now r app).sl.rcv ∧
     (handleS cfg sl now r app).2.delivered = (handleReceived cfg sl now r app).delivered) := by
  have hrecv : ∀ (x : Slots × Out), x = (let h := handleReceived cfg sl now r app
      if h.failed then (h.sl, { reply := some (entityIncomplete r.tok), delivered := h.delivered, err := true })
      else (h.sl, { reply := h.w, delivered := h.delivered })) →
      x.1.rcv = (handleReceived cfg sl now r app).sl.rcv ∧ x.2.delivered = (handleReceived cfg sl now r app).delivered := by
    intro x hx
    subst hx
    simp only []
    split <;> exact ⟨rfl, rfl⟩
  unfold handleS
  simp only []
  split
  · exact Or.inr (hrecv _ rfl)
  · split
    · exact Or.inr (hrecv _ rfl)
    · split
      · exact Or.inr (hrecv _ rfl)
      · split
        · exact Or.inl ⟨rfl, rfl⟩
        · refine Or.inl ⟨?_, rfl⟩
          split <;> rfl

theorem dataBT_not_getdelete {code : Nat} {bt : BT} (h : dataBT code = some bt) : ¬ (code = codeGET ∨ code = codeDELETE) := by
  intro hc
  unfold dataBT at h
  rw [if_pos (Or.inr hc)] at h
  cases h

theorem handleS_once (cfg : Cfg) (sl : Slots) (now : Int) (r : Msg) (app : App) (htok : r.tok ≠ 0) :
    (handleS cfg sl now r app).2.delivered.length + heldNe (handleS cfg sl now r app).1.rcv ≤ heldNe sl.rcv + startOf r := by
  rcases handleS_shape cfg sl now r app with ⟨h1, h2⟩ | ⟨h1, h2⟩
  · rw [h1, h2]; simp
  · rw [h1, h2]
    rcases handleReceived_shape cfg sl now r app with ⟨g1, g2⟩ | ⟨gd, g1, g2⟩ | ⟨bt, mx, gd, g1, g2⟩
    · rw [g1, g2]; simp
    · rw [g1, g2]; simp [startOf, gd]; omega
    · rw [g1, g2]
      have := processReceived_once cfg sl now none r mx app bt htok (dataBT_not_getdelete gd)
      simpa [startOf, gd] using this

theorem handleS_inv {R : Reg} (hd : Discipline R) (cfg : Cfg) (sl : Slots) (now : Int) (r : Msg) (app : App)
    (hg : GoodMsg R r) (hinv : ∀ e, sl.rcv = some e → HeldOK R r.tok e.msg) :
    (∀ e, (handleS cfg sl now r app).1.rcv = some e → HeldOK R r.tok e.msg) ∧
    (∀ d ∈ (handleS cfg sl now r app).2.delivered, (d = r ∧ NoData r) ∨ Complete R r.tok d) := by
  rcases handleS_shape cfg sl now r app with ⟨h1, h2⟩ | ⟨h1, h2⟩
  · rw [h1, h2]; exact ⟨hinv, by intro d hdm; simp at hdm⟩
  · rw [h1, h2]
    rcases handleReceived_shape cfg sl now r app with ⟨g1, g2⟩ | ⟨gd, g1, g2⟩ | ⟨bt, mx, gd, g1, g2⟩
    · rw [g1, g2]; exact ⟨hinv, by intro d hdm; simp at hdm⟩
    · rw [g1, g2]
      refine ⟨hinv, ?_⟩
      intro d hdm; simp at hdm
      exact Or.inl ⟨hdm, Or.inr (Or.inl gd)⟩
    · rw [g1, g2]
      obtain ⟨p1, p2⟩ := processReceived_inv hd cfg sl now none r mx app bt (hg bt gd) hinv
      refine ⟨p1, ?_⟩
      intro d hdm
      rcases p2 d hdm with ⟨e1, e2⟩ | hc
      · refine Or.inl ⟨e1, ?_⟩
        rcases e2 with e | e | e | e
        · exact Or.inl e
        · exact absurd (Or.inl e) (dataBT_not_getdelete gd)
        · exact absurd (Or.inr e) (dataBT_not_getdelete gd)
        · exact Or.inr (Or.inr ⟨bt, gd, e⟩)
      · exact Or.inr hc

/-! ### the sender's blocks are aligned slices -/

theorem sendOff_aligned (skip : Bool) (bt : BT) {szx : Nat} (num ms : Nat) (h : szx ≤ 7) :
    sendOffWith skip bt szx num (bufLen szx ms) / sizeN szx * sizeN szx = sendOffWith skip bt szx num (bufLen szx ms) := by
  obtain ⟨k, hk⟩ := bufLen_mul ms h
  have hp := sizeN_pos h
  unfold sendOffWith
  rw [hk]
  split
  · have : num * sizeN szx + k * sizeN szx = (num + k) * sizeN szx := by rw [Nat.add_mul]
    rw [this, Nat.mul_div_cancel _ hp]
  · rw [Nat.add_zero, Nat.mul_div_cancel _ hp]

theorem bufLen_pos {szx ms : Nat} (h7 : szx ≤ 7) (h : szx < 7 ∨ 1024 ≤ ms) : 0 < bufLen szx ms := by
  by_cases hs : szx < 7
  · exact bufLen_pos_small ms hs
  · have : szx = 7 := by omega
    subst this
    rw [bufLen_bert]
    have : sizeN 7 = 1024 := by decide
    rw [this]
    rcases h with h | h
    · omega
    · have : 1 ≤ ms / 1024 := (Nat.le_div_iff_mul_le (by decide)).mpr (by omega)
      omega

theorem setBlock_block (m : Msg) (bt : BT) (v : Nat) : (m.setBlock bt v).block bt = some v := by
  cases bt <;> rfl

/-- everything `createSendingMessage` can emit for a message is an aligned slice of that message's body, flagged
    `more` exactly when it does not end the body, with the message's code, token, ETag and other options -/
theorem createSendingWith_slice {skip : Bool} {sm : Msg} {mx ms blk : Nat} {m : Msg} {more : Bool}
    (hms : mx < 7 ∨ 1024 ≤ ms) (h : createSendingWith skip sm mx ms blk = some (m, more)) :
    ∃ v szx num, m.block (sendBT sm.code) = some v ∧ decodeBlock v = .ok (szx, num, more) ∧ szx ≤ mx ∧
      SliceAt sm.body (num * sizeN szx) m.body ∧ m.body.length ≤ bufLen szx ms ∧
      (more = false ↔ num * sizeN szx + m.body.length = sm.body.length) ∧
      m.code = sm.code ∧ m.tok = sm.tok ∧ m.etag = sm.etag ∧ m.other = sm.other := by
  unfold createSendingWith at h
  split at h
  · cases h
  · rename_i s0 n0 m0 hdec
    simp only [] at h
    have hs7 : getSzx s0 mx ≤ 7 := Nat.le_trans (getSzx_le_left _ _) (decode_szx_le hdec)
    obtain ⟨v, hm, hdv, hmore, hoff, _⟩ := createSendingAt_spec h
    have hal := sendOff_aligned skip (sendBT sm.code) n0 ms hs7
    have hpos : 0 < bufLen (getSzx s0 mx) ms := by
      apply bufLen_pos hs7
      by_cases h7 : getSzx s0 mx < 7
      · exact Or.inl h7
      · right
        rcases hms with h' | h'
        · have := getSzx_le_right s0 mx; omega
        · exact h'
    refine ⟨v, getSzx s0 mx, _, ?_, hdv, getSzx_le_right _ _, ?_, ?_, ?_, ?_, ?_, ?_, ?_⟩
    · rw [hm]; cases hbt : sendBT sm.code <;> simp [Msg.setBlock, Msg.block]
    · rw [hal, hm]
      exact sliceAt_take_drop _ _ _ (hoff hpos)
    · rw [hm]; simp; omega
    · rw [hal, hmore]; simp
    · rw [hm]; cases hbt : sendBT sm.code <;> simp [Msg.setBlock, Msg.setSize]
    · rw [hm]; cases hbt : sendBT sm.code <;> simp [Msg.setBlock, Msg.setSize]
    · rw [hm]; cases hbt : sendBT sm.code <;> simp [Msg.setBlock, Msg.setSize]
    · rw [hm]; cases hbt : sendBT sm.code <;> simp [Msg.setBlock, Msg.setSize]

/-! ### endpoint level -/

theorem createSending_slice {sm : Msg} {mx ms blk : Nat} {m : Msg} {more : Bool}
    (hms : mx < 7 ∨ 1024 ≤ ms) (h : createSending sm mx ms blk = some (m, more)) :
    ∃ v szx num, m.block (sendBT sm.code) = some v ∧ decodeBlock v = .ok (szx, num, more) ∧ szx ≤ mx ∧
      SliceAt sm.body (num * sizeN szx) m.body ∧ m.body.length ≤ bufLen szx ms ∧
      (more = false ↔ num * sizeN szx + m.body.length = sm.body.length) ∧
      m.code = sm.code ∧ m.tok = sm.tok ∧ m.etag = sm.etag ∧ m.other = sm.other :=
  createSendingWith_slice hms h

theorem put_same (c : Cache) (k : Nat) (v : Option Entry) : (c.put k v) k = v := by simp [Cache.put]
theorem put_other (c : Cache) {k k' : Nat} (v : Option Entry) (h : k' ≠ k) : (c.put k v) k' = c k' := by simp [Cache.put, h]

theorem put_comm (c : Cache) {k1 k2 : Nat} (v1 v2 : Option Entry) (h : k1 ≠ k2) :
    (c.put k1 v1).put k2 v2 = (c.put k2 v2).put k1 v1 := by
  funext k
  simp only [Cache.put]
  by_cases h1 : k = k1
  · by_cases h2 : k = k2
    · exact absurd (h1.symm.trans h2) h
    · subst h1; simp [h2]
  · by_cases h2 : k = k2
    · subst h2; simp [h1]
    · simp [h1, h2]

theorem ep_put_slots_same (ep : Endpoint) (k : Nat) (s : Slots) : (ep.put k s).slots k = s := by
  simp [Endpoint.put, Endpoint.slots, put_same]
theorem ep_put_slots_other (ep : Endpoint) {k k' : Nat} (s : Slots) (h : k' ≠ k) : (ep.put k s).slots k' = ep.slots k' := by
  simp [Endpoint.put, Endpoint.slots, put_other _ _ h]
theorem ep_put_cfg (ep : Endpoint) (k : Nat) (s : Slots) : (ep.put k s).toCfg = ep.toCfg := rfl

theorem ep_put_comm (ep : Endpoint) {k1 k2 : Nat} (s1 s2 : Slots) (h : k1 ≠ k2) :
    (ep.put k1 s1).put k2 s2 = (ep.put k2 s2).put k1 s1 := by
  simp only [Endpoint.put]
  rw [put_comm ep.sending _ _ h, put_comm ep.receiving _ _ h]

/-- every receiving entry holds a prefix of the body being sent under its token / ETag -/
def EpInv (R : Reg) (ep : Endpoint) : Prop := ∀ tok e, ep.receiving tok = some e → HeldOK R tok e.msg

theorem handle_inv {R : Reg} (hd : Discipline R) (ep : Endpoint) (now : Int) (r : Msg) (app : App)
    (hg : GoodMsg R r) (hinv : EpInv R ep) :
    EpInv R (handle ep now r app).1 ∧
    (∀ d ∈ (handle ep now r app).2.delivered, (d = r ∧ NoData r) ∨ Complete R r.tok d) := by
  have hs := handleS_inv hd ep.toCfg (ep.slots r.tok) now r app hg (fun e he => hinv r.tok e he)
  unfold handle
  simp only []
  refine ⟨?_, hs.2⟩
  intro tok e he
  by_cases ht : tok = r.tok
  · subst ht
    simp only [Endpoint.put, put_same] at he
    exact hs.1 e he
  · simp only [Endpoint.put, put_other _ _ ht] at he
    exact hinv tok e he

theorem sweep_inv {R : Reg} (ep : Endpoint) (now : Int) (hinv : EpInv R ep) : EpInv R (sweep ep now) := by
  intro tok e he
  simp only [sweep, sweepSlots, Endpoint.slots] at he
  cases hr : ep.receiving tok with
  | none => rw [hr] at he; simp at he
  | some x =>
    rw [hr] at he
    simp only at he
    split at he
    · simp at he
    · simp at he; subst he; exact hinv tok x hr

theorem step_inv {R : Reg} (hd : Discipline R) (app : App) (ep : Endpoint) (a : Arrival)
    (hg : ∀ now r, a = .msg now r → GoodMsg R r) (hinv : EpInv R ep) :
    EpInv R (ep.step app a).1 ∧
    (∀ d ∈ (ep.step app a).2, (∃ now, a = .msg now d ∧ NoData d) ∨ Complete R d.tok d) := by
  cases a with
  | msg now r =>
    obtain ⟨h1, h2⟩ := handle_inv hd ep now r app (hg now r rfl) hinv
    refine ⟨h1, ?_⟩
    intro d hdm
    rcases h2 d hdm with ⟨e1, e2⟩ | hc
    · subst e1; exact Or.inl ⟨now, rfl, e2⟩
    · right
      obtain ⟨s, c1, c2, c3, c4, c5⟩ := hc
      exact ⟨s, by rw [c5]; exact c1, c2, c3, c4, rfl⟩
  | sweep now => exact ⟨sweep_inv ep now hinv, by intro d hdm; simp [Endpoint.step] at hdm⟩

/-- induction over an arbitrary sequence of arrivals (every fault sequence of the network is one) -/
theorem run_inv {R : Reg} (hd : Discipline R) (app : App) (as : List Arrival) :
    ∀ (ep : Endpoint), (∀ now r, Arrival.msg now r ∈ as → GoodMsg R r) → EpInv R ep →
    EpInv R (Endpoint.run app ep as).1 ∧
    (∀ d ∈ (Endpoint.run app ep as).2, (∃ now, Arrival.msg now d ∈ as ∧ NoData d) ∨ Complete R d.tok d) := by
  induction as with
  | nil => intro ep _ hinv; exact ⟨hinv, by intro d hdm; simp [Endpoint.run] at hdm⟩
  | cons a as ih =>
    intro ep hg hinv
    obtain ⟨s1, s2⟩ := step_inv hd app ep a (fun now r h => hg now r (by rw [h]; exact List.mem_cons_self)) hinv
    obtain ⟨r1, r2⟩ := ih (ep.step app a).1 (fun now r h => hg now r (List.mem_cons_of_mem _ h)) s1
    refine ⟨r1, ?_⟩
    intro d hdm
    simp only [Endpoint.run, List.mem_append] at hdm
    rcases hdm with hdm | hdm
    · rcases s2 d hdm with ⟨now, e, nd⟩ | hc
      · exact Or.inl ⟨now, by rw [e]; exact List.mem_cons_self, nd⟩
      · exact Or.inr hc
    · rcases r2 d hdm with ⟨now, e, nd⟩ | hc
      · exact Or.inl ⟨now, List.mem_cons_of_mem _ e, nd⟩
      · exact Or.inr hc

/-- number of messages handed to the application while handling arrivals that carry token `tok` -/
def deliveredFor (app : App) (tok : Nat) : Endpoint → List Arrival → Nat
  | _, [] => 0
  | ep, a :: as =>
    (match a with
     | .msg _ r => if r.tok = tok then (ep.step app a).2.length else 0
     | .sweep _ => 0) + deliveredFor app tok (ep.step app a).1 as

/-- number of arrivals with token `tok` that can start a body (no data block, or block number 0) -/
def startsFor (tok : Nat) : List Arrival → Nat
  | [] => 0
  | .msg _ r :: as => (if r.tok = tok then startOf r else 0) + startsFor tok as
  | .sweep _ :: as => startsFor tok as

theorem heldNe_sweep (ep : Endpoint) (now : Int) (tok : Nat) :
    heldNe ((sweep ep now).receiving tok) ≤ heldNe (ep.receiving tok) := by
  simp only [sweep, sweepSlots, Endpoint.slots]
  cases hr : ep.receiving tok with
  | none => simp [heldNe]
  | some x =>
    simp only
    split
    · simp [heldNe]
    · exact Nat.le_refl _

theorem run_once (app : App) (tok : Nat) (htok : tok ≠ 0) (as : List Arrival) :
    ∀ ep : Endpoint, deliveredFor app tok ep as + heldNe ((Endpoint.run app ep as).1.receiving tok) ≤
      heldNe (ep.receiving tok) + startsFor tok as := by
  induction as with
  | nil => intro ep; simp [deliveredFor, startsFor, Endpoint.run]
  | cons a as ih =>
    intro ep
    have h := ih (ep.step app a).1
    cases a with
    | sweep now =>
      have hs := heldNe_sweep ep now tok
      simp only [deliveredFor, startsFor, Endpoint.run, Endpoint.step] at h ⊢
      omega
    | msg now r =>
      simp only [deliveredFor, startsFor, Endpoint.run]
      by_cases ht : r.tok = tok
      · have ho := handleS_once ep.toCfg (ep.slots r.tok) now r app (by rw [ht]; exact htok)
        have e1 : ((ep.step app (.msg now r)).1).receiving tok = (handleS ep.toCfg (ep.slots r.tok) now r app).1.rcv := by
          simp only [Endpoint.step, handle, Endpoint.put]
          rw [← ht, put_same]
        have e2 : (ep.step app (.msg now r)).2 = (handleS ep.toCfg (ep.slots r.tok) now r app).2.delivered := by
          simp only [Endpoint.step, handle]
        have e3 : (ep.slots r.tok).rcv = ep.receiving tok := by rw [← ht]; rfl
        rw [if_pos ht, if_pos ht, e2]
        rw [e1] at h
        rw [e3] at ho
        omega
      · have e1 : ((ep.step app (.msg now r)).1).receiving tok = ep.receiving tok := by
          simp only [Endpoint.step, handle, Endpoint.put]
          exact put_other _ _ (fun h => ht h.symm)
        rw [if_neg ht, if_neg ht]
        rw [e1] at h
        omega

/-- `Handle` calls for different tokens commute: same final caches, same replies, deliveries and errors -/
theorem handle_comm (ep : Endpoint) (t1 t2 : Int) (r1 r2 : Msg) (app : App) (h : r1.tok ≠ r2.tok) :
    (handle (handle ep t1 r1 app).1 t2 r2 app).1 = (handle (handle ep t2 r2 app).1 t1 r1 app).1 ∧
    (handle (handle ep t1 r1 app).1 t2 r2 app).2 = (handle ep t2 r2 app).2 ∧
    (handle (handle ep t2 r2 app).1 t1 r1 app).2 = (handle ep t1 r1 app).2 := by
  simp only [handle]
  rw [ep_put_slots_other _ _ (fun e => h e.symm), ep_put_slots_other _ _ h, ep_put_cfg, ep_put_cfg]
  exact ⟨(ep_put_comm ep _ _ h), rfl, rfl⟩

/-! ### negotiation, ETag restart, expiry -/

theorem fitSZX_none {r : Msg} {bt : BT} (mx : Nat) (h : r.block bt = none) : fitSZX r bt mx = mx := by
  unfold fitSZX; rw [h]

/-- the negotiated exponent is the smaller of the own maximum and the one the peer's block carries -/
theorem fitSZX_some {r : Msg} {bt : BT} {v s n : Nat} {m : Bool} (mx : Nat) (h : r.block bt = some v)
    (hd : decodeBlock v = .ok (s, n, m)) : fitSZX r bt mx = min mx s := by
  unfold fitSZX; rw [h]; simp only [hd]
  split <;> omega

theorem fitSZX_le (r : Msg) (bt : BT) (mx : Nat) : fitSZX r bt mx ≤ mx := by
  unfold fitSZX
  split
  · exact Nat.le_refl _
  · split
    · exact Nat.le_refl _
    · split <;> omega

theorem createSending_szx {sm : Msg} {mx ms blk s0 n0 : Nat} {m0 : Bool} {m : Msg} {more : Bool}
    (hdec : decodeBlock blk = .ok (s0, n0, m0)) (h : createSending sm mx ms blk = some (m, more)) :
    ∃ v num, m.block (sendBT sm.code) = some v ∧ decodeBlock v = .ok (min s0 mx, num, more) := by
  unfold createSending createSendingWith at h
  rw [hdec] at h
  simp only [] at h
  obtain ⟨v, hm, hdv, _⟩ := createSendingAt_spec h
  refine ⟨v, _, ?_, by rw [← getSzx_eq_min]; exact hdv⟩
  rw [hm]; cases hbt : sendBT sm.code <;> simp [Msg.setBlock, Msg.block]

theorem blockReply_szx {bt : BT} {sent : Option Msg} {tok szx num held : Nat} {more : Bool} {m : Msg}
    (h : blockReply bt sent tok szx num held more = some m) :
    ∃ v n, m.block bt = some v ∧ decodeBlock v = .ok (szx, n, more) := by
  unfold blockReply at h
  split at h
  · simp only [] at h
    split at h
    · cases h
    · split at h
      · cases h
      · rename_i v he
        injection h with h
        exact ⟨v, _, by rw [← h]; rfl, Props.C19.decode_encode _ _ _ _ he⟩
  · split at h
    · cases h
    · rename_i v he
      injection h with h
      exact ⟨v, _, by rw [← h]; exact setBlock_block _ _ _, Props.C19.decode_encode _ _ _ _ he⟩

/-- an ETag different from the held one discards what is held: afterwards only this block's payload is held, and
    only if it is the first block -/
theorem absorb_restart {r c0 : Msg} {a b : Bytes} (hr : r.etag = some a) (hc : c0.etag = some b) (hab : a ≠ b) (off : Nat) :
    (absorb r c0 off).1.etag = some a ∧ (absorb r c0 off).1.other = r.other ∧ (absorb r c0 off).1.code = r.code ∧
    (absorb r c0 off).1.body = (if off = 0 then r.body else []) := by
  have he : blockBase r c0 off = { r with body := [], tok := c0.tok, deadline := c0.deadline } := by
    rcases blockBase_cases r c0 off with ⟨_, hcase⟩ | h
    · rw [hr, hc] at hcase
      rcases hcase with h | h | h
      · exact absurd (Option.some.inj h) hab
      · cases h
      · cases h
    · exact h
  unfold absorb
  simp only [he]
  by_cases h0 : off = 0
  · subst h0; simp [hr]
  · have : ¬ off = ([] : Bytes).length := by simpa using h0
    simp [h0, hr]

/-- the same ETag (or none on both sides) keeps what is held, unless the block is a first block that restarts the transfer -/
theorem absorb_same {r c0 : Msg} (h : r.etag = c0.etag) (off : Nat) (hnr : ¬ (block0Restarts = true ∧ off = 0)) :
    (absorb r c0 off).1.body = if off = c0.body.length then c0.body ++ r.body else c0.body := by
  have he : blockBase r c0 off = c0 := by
    unfold blockBase
    rw [if_neg hnr]
    rcases applyEtag_cases r c0 with ⟨h', _⟩ | ⟨_, hne, _⟩
    · exact h'
    · exact absurd h hne
  unfold absorb
  simp only [he]
  split <;> rfl

/-- (F10e) a first block replaces whatever is held: afterwards exactly its payload is held, with its options, code and ETag -/
theorem absorb_first_block (hfix : block0Restarts = true) (r c0 : Msg) :
    (absorb r c0 0).1 = { r with tok := c0.tok, deadline := c0.deadline } ∧ (absorb r c0 0).2 = true := by
  unfold absorb blockBase
  simp [hfix]

theorem live_expired (e : Entry) (now : Int) (h : now > e.validUntil) : live (some e) now = none := by
  simp [live, Entry.expired, h]

theorem live_fresh (e : Entry) (now : Int) (h : now ≤ e.validUntil) : live (some e) now = some e := by
  have : ¬ now > e.validUntil := by omega
  simp [live, Entry.expired, this]

/-- a sweep after an entry's deadline removes it (a receiving entry takes the sending entry of its key with it) -/
theorem sweep_removes (ep : Endpoint) (now : Int) (k : Nat) :
    (∀ e, ep.receiving k = some e → now > e.validUntil → (sweep ep now).receiving k = none ∧ (sweep ep now).sending k = none) ∧
    (∀ e, ep.sending k = some e → now > e.validUntil → (sweep ep now).sending k = none) := by
  constructor
  · intro e he hexp
    simp [sweep, sweepSlots, Endpoint.slots, he, Entry.expired, hexp]
  · intro e he hexp
    simp only [sweep, sweepSlots, Endpoint.slots, he]
    cases hr : ep.receiving k with
    | none => simp [live_expired e now hexp]
    | some x =>
      simp only
      split
      · rfl
      · simp [live_expired e now hexp]

/-! ### the two observations of DESIGN §6 (negative results) -/

theorem postput_dataBT {c : Nat} (h : isPostPut c = true) : dataBT c = some .b1 := by
  have hc : c = codePOST ∨ c = codePUT := by simpa [isPostPut] using h
  rcases hc with hc | hc <;> subst hc <;> decide

theorem postput_sendBT {c : Nat} (h : isPostPut c = true) : sendBT c = .b1 := by simp [sendBT, h]

/-- O1: a POST/PUT sent block by block through `createSendingMessage` never produces block number 0:
    the "already sent" offset is added even for the first call (`startSendingMessage`, one-way `WriteMessage`). -/
theorem createSendingWith_block1_not_first {skip : Bool} (hskip : skip = true) {sm : Msg} {mx ms blk : Nat} {m : Msg} {more : Bool}
    (hpp : isPostPut sm.code = true) (hms : mx < 7 ∨ 1024 ≤ ms) (h : createSendingWith skip sm mx ms blk = some (m, more)) :
    startOf m = 0 := by
  unfold createSendingWith at h
  split at h
  · cases h
  · rename_i s0 n0 m0 hdec
    simp only [] at h
    have hs7 : getSzx s0 mx ≤ 7 := Nat.le_trans (getSzx_le_left _ _) (decode_szx_le hdec)
    obtain ⟨v, hm, hdv, _⟩ := createSendingAt_spec h
    have hpos : 0 < bufLen (getSzx s0 mx) ms := by
      apply bufLen_pos hs7
      by_cases h7 : getSzx s0 mx < 7
      · exact Or.inl h7
      · right
        rcases hms with h' | h'
        · have := getSzx_le_right s0 mx; omega
        · exact h'
    obtain ⟨k, hk⟩ := bufLen_mul ms hs7
    have hsz := sizeN_pos hs7
    have hk1 : 1 ≤ k := by
      rcases Nat.eq_zero_or_pos k with h0 | h0
      · rw [h0] at hk; omega
      · exact h0
    have hnum : 1 ≤ sendOffWith skip (sendBT sm.code) (getSzx s0 mx) n0 (bufLen (getSzx s0 mx) ms) / sizeN (getSzx s0 mx) := by
      rw [postput_sendBT hpp]
      unfold sendOffWith
      simp only [hskip, beq_self_eq_true, Bool.and_self, if_true, hk]
      have : n0 * sizeN (getSzx s0 mx) + k * sizeN (getSzx s0 mx) = (n0 + k) * sizeN (getSzx s0 mx) := by rw [Nat.add_mul]
      rw [this, Nat.mul_div_cancel _ hsz]
      omega
    have hcode : m.code = sm.code := by
      rw [hm]; cases hbt : sendBT sm.code <;> simp [Msg.setBlock, Msg.setSize]
    have hblk : m.block .b1 = some v := by
      rw [hm, postput_sendBT hpp]; rfl
    unfold startOf
    rw [hcode, postput_dataBT hpp]
    simp only [isStartBlock, hblk, hdv]
    have : ¬ sendOffWith skip (sendBT sm.code) (getSzx s0 mx) n0 (bufLen (getSzx s0 mx) ms) / sizeN (getSzx s0 mx) = 0 := by omega
    simp [this]

theorem createSending_block1_not_first {sm : Msg} {mx ms blk : Nat} {m : Msg} {more : Bool}
    (hpp : isPostPut sm.code = true) (hms : mx < 7 ∨ 1024 ≤ ms) (h : createSending sm mx ms blk = some (m, more)) :
    startOf m = 0 :=
  createSendingWith_block1_not_first (skip := block1SkipsSent) rfl hpp hms h

/-- O1 proper: while `startSendingMessage` asks for the addend too, the first message of a one-way POST/PUT is not a first block -/
theorem createSendingFirst_block1_not_first (hO1 : startSkipsSent = true) {sm : Msg} {mx ms blk : Nat} {m : Msg} {more : Bool}
    (hpp : isPostPut sm.code = true) (hms : mx < 7 ∨ 1024 ≤ ms) (h : createSendingFirst sm mx ms blk = some (m, more)) :
    startOf m = 0 :=
  createSendingWith_block1_not_first hO1 hpp hms h

/-- … so a receiver that is fed only such blocks — in any order, any number of times — never hands a body on. -/
theorem no_first_block_no_delivery (app : App) (tok : Nat) (htok : tok ≠ 0) (ep : Endpoint) (as : List Arrival)
    (hempty : ep.receiving tok = none) (h : ∀ now r, Arrival.msg now r ∈ as → r.tok = tok → startOf r = 0) :
    deliveredFor app tok ep as = 0 := by
  have hs : startsFor tok as = 0 := by
    induction as with
    | nil => rfl
    | cons a as ih =>
      cases a with
      | sweep now => simp only [startsFor]; exact ih (fun now r hm => h now r (List.mem_cons_of_mem _ hm))
      | msg now r =>
        simp only [startsFor]
        rw [ih (fun now r hm => h now r (List.mem_cons_of_mem _ hm))]
        by_cases ht : r.tok = tok
        · rw [if_pos ht, h now r List.mem_cons_self ht]
        · rw [if_neg ht]
  have := run_once app tok htok as ep
  rw [hempty, hs] at this
  simp [heldNe] at this
  omega

/-- O2: with BERT, `Do` flags its first block `more` although a body of 1024 < length < buffer size is in it
    completely; the block the peer's 2.31 (exponent 7, block 0) asks for lies behind the end of the body and
    `createSendingMessage` fails. -/
theorem bert_first_block_holds_everything (cfg : Cfg) (snd : Option Entry) (now : Int) (r : Msg)
    (hszx : cfg.szx = 7) (htok : r.tok ≠ 0) (hpp : isPostPut r.code = true) (hfree : live snd now = none)
    (hmax : cfg.maxSize < 4294967296) (h1 : 1024 < r.body.length) (h2 : r.body.length < bufLen 7 cfg.maxSize) :
    ∃ m, (doStartS cfg snd now r).2 = some m ∧ m.body = r.body ∧ m.block1 = some 15 ∧
      (∀ blk n0 m0, decodeBlock blk = .ok (7, n0, m0) → createSending r cfg.szx cfg.maxSize blk = none) := by
  have hsz : sizeN 7 = 1024 := by decide
  have hlen : r.body.length < 4294967296 := by
    have := (Props.C19.bert_buffer_multiple cfg.maxSize).2.1
    unfold bufLen at h2
    omega
  refine ⟨{ r with size1 := some r.body.length, block1 := some 15, body := r.body.take (bufLen 7 cfg.maxSize) }, ?_, ?_, rfl, ?_⟩
  · unfold doStartS
    have hle : doDirectIsLe = true := rfl
    simp only [hszx, storeIfAbsent, hfree, fits, hle, hsz]
    have e1 : ¬ (7 > 7) := by decide
    have e2 : ¬ r.body.length ≤ 1024 := by omega
    have e3 : ¬ r.body.length ≥ 4294967296 := by omega
    have e4 : encodeBlock 7 0 true = .ok 15 := by decide
    simp [e1, htok, e2, hpp, e3, e4]
  · simp only []
    exact List.take_of_length_le (Nat.le_of_lt h2)
  · intro blk n0 m0 hdec
    unfold createSending createSendingWith
    simp only [hdec, hszx]
    have hg : getSzx 7 7 = 7 := by decide
    have hskip : block1SkipsSent = true := rfl
    unfold createSendingAt sendOffWith
    simp only [hg, postput_sendBT hpp, hskip, beq_self_eq_true, Bool.and_self, if_true]
    have : bufLen 7 cfg.maxSize > 0 ∧ n0 * sizeN 7 + bufLen 7 cfg.maxSize > r.body.length := by omega
    simp [this]

/-! ### a small instance used by the non-vacuity examples of `Props/C04.lean` -/

def exBody : Bytes := (List.range 40).map UInt8.ofNat
/-- block `num` (16-byte blocks) of a POST of `exBody` under token 7 -/
def exBlk (num : Nat) (more : Bool) : Msg :=
  { code := 2, tok := 7, block1 := some (num * 16 + (if more then 8 else 0)), size1 := some 40, other := [(11, [99])],
    body := (exBody.drop (num * 16)).take 16 }
def exEp : Endpoint := { szx := 0, maxSize := 64, expiration := 1000 }
def exR : Reg := fun tok e => if tok = 7 ∧ e = none then some ⟨exBody, [(11, [99])], 2⟩ else none

/-! ### what an endpoint puts on the wire -/

/-- `m` is, as a whole, what an application supplied under its token and ETag (no block options on it) -/
def WholeMsg (R : Reg) (m : Msg) : Prop :=
  R m.tok m.etag = some ⟨m.body, m.other, m.code⟩ ∧ m.block1 = none ∧ m.block2 = none

def CfgOK (cfg : Cfg) : Prop := cfg.szx ≤ 7 ∧ (cfg.szx < 7 ∨ 1024 ≤ cfg.maxSize)

theorem dataBT_sendBT {c : Nat} {bt : BT} (h : dataBT c = some bt) : sendBT c = bt := by
  unfold dataBT at h
  split at h
  · cases h
  · split at h
    · rename_i hpp; injection h with h; rw [← h]; simp [sendBT, hpp]
    · rename_i hpp; injection h with h; rw [← h]; simp [sendBT, hpp]

/-- a message without block options of its direction is `GoodMsg` for any registry -/
theorem goodMsg_of_no_block {R : Reg} {m : Msg} (h : ∀ bt, dataBT m.code = some bt → m.block bt = none) : GoodMsg R m := by
  intro bt hbt blk szx num more hb
  rw [h bt hbt] at hb; cases hb

/-- every block cut from a whole message is `GoodMsg` -/
theorem createSendingWith_good {R : Reg} {skip : Bool} {sm : Msg} {mx ms blk : Nat} {m : Msg} {more : Bool}
    (hw : WholeMsg R sm) (hms : mx < 7 ∨ 1024 ≤ ms) (h : createSendingWith skip sm mx ms blk = some (m, more)) : GoodMsg R m := by
  obtain ⟨v, szx, num, hb, hdv, _, hsl, _, hmore, hcode, htok, hetag, hother⟩ := createSendingWith_slice hms h
  intro bt hbt blk' szx' num' more' hb' hdec'
  rw [hcode] at hbt
  have := dataBT_sendBT hbt
  subst this
  rw [hb] at hb'
  injection hb' with hb'
  subst hb'
  rw [hdv] at hdec'
  injection hdec' with hdec'; injection hdec' with e1 hdec'; injection hdec' with e2 e3
  subst e1 e2 e3
  refine ⟨⟨sm.body, sm.other, sm.code⟩, ⟨?_, hother, hcode, rfl⟩, hsl, fun hm => hmore.mp hm⟩
  rw [htok, hetag]; exact hw.1

theorem createSending_good {R : Reg} {sm : Msg} {mx ms blk : Nat} {m : Msg} {more : Bool}
    (hw : WholeMsg R sm) (hms : mx < 7 ∨ 1024 ≤ ms) (h : createSending sm mx ms blk = some (m, more)) : GoodMsg R m :=
  createSendingWith_good hw hms h

theorem createSending_code {sm : Msg} {mx ms blk : Nat} {m : Msg} {more : Bool}
    (h : createSending sm mx ms blk = some (m, more)) : m.code = sm.code ∧ m.tok = sm.tok := by
  unfold createSending createSendingWith at h
  split at h
  · cases h
  · simp only [] at h
    obtain ⟨v, hm, _⟩ := createSendingAt_spec h
    rw [hm]; cases hbt : sendBT sm.code <;> simp [Msg.setBlock, Msg.setSize]

/-- the sending slot holds a whole message (with a property `P` of its code, used for the roles) -/
def SndOK (R : Reg) (P : Nat → Prop) (slot : Option Entry) : Prop := ∀ e, slot = some e → WholeMsg R e.msg ∧ P e.msg.code

theorem storeIfAbsent_ok {R : Reg} {P : Nat → Prop} {slot : Option Entry} {e : Entry} {now : Int}
    (hs : SndOK R P slot) (he : WholeMsg R e.msg ∧ P e.msg.code) : SndOK R P (storeIfAbsent slot e now).1 := by
  unfold storeIfAbsent
  split
  · exact hs
  · intro x hx; injection hx with hx; subst hx; exact he

/-- `startSendingMessage` on a response writer that holds nothing, a body-less answer of the layer, or a whole message -/
theorem startSendingS_ok {R : Reg} {P : Nat → Prop} {cfg : Cfg} {snd : Option Entry} {now : Int} {w : Option Msg} {mx blk : Nat}
    {snd' : Option Entry} {w' : Option Msg}
    (hcfg : CfgOK cfg) (hmx : mx ≤ cfg.szx) (hsnd : SndOK R P snd)
    (hw : ∀ m, w = some m → (m.body = [] ∧ GoodMsg R m) ∨ (WholeMsg R m ∧ P m.code))
    (h : startSendingS cfg snd now w mx blk = .ok (snd', w')) :
    SndOK R P snd' ∧ (∀ m', w' = some m' → GoodMsg R m') := by
  unfold startSendingS at h
  split at h
  · injection h with h; injection h with h1 h2
    subst h1 h2
    exact ⟨hsnd, by intro m' hm'; cases hm'⟩
  · rename_i m
    have hm7 : mx ≤ 7 := Nat.le_trans hmx hcfg.1
    split at h
    · injection h with h; injection h with h1 h2
      subst h1 h2
      refine ⟨hsnd, ?_⟩
      intro m' hm'; injection hm' with hm'; subst hm'
      rcases hw m rfl with ⟨_, hg⟩ | ⟨hwm, _⟩
      · exact hg
      · exact goodMsg_of_no_block (by intro bt _; cases bt; exact hwm.2.1; exact hwm.2.2)
    · rename_i hfit
      rcases hw m rfl with ⟨hb, _⟩ | hwm
      · exfalso
        apply hfit
        have hle : startDirectIsLe = false := rfl
        have := sizeN_pos hm7
        simp [fits, hle, hb, this]
      · split at h
        · cases h
        · rename_i sm more hcs
          have hms : mx < 7 ∨ 1024 ≤ cfg.maxSize := by
            rcases hcfg.2 with h' | h'
            · left; omega
            · right; exact h'
          have fin : ∀ (ex : Int), (if (storeIfAbsent snd ⟨m, ex⟩ now).2 = true then Except.error ()
              else Except.ok ((storeIfAbsent snd ⟨m, ex⟩ now).1, some sm)) = (Except.ok (snd', w') : Except Unit _) →
              SndOK R P snd' ∧ (∀ m', w' = some m' → GoodMsg R m') := by
            intro ex h
            split at h
            · cases h
            · injection h with h; injection h with h1 h2
              subst h1 h2
              refine ⟨storeIfAbsent_ok hsnd hwm, ?_⟩
              intro m' hm'; injection hm' with hm'; subst hm'
              exact createSendingWith_good hwm.1 hms hcs
          simp only [] at h
          split at h <;> exact fin _ h

/-- codes whose payload is not described by Block2: requests and signals -/
def ReqCode (c : Nat) : Prop := dataBT c ≠ some .b2

/-- what the application may answer: a whole message of the registry (under the token of the message it answers) -/
def AppOK (R : Reg) (P : Nat → Prop) (app : App) : Prop :=
  ∀ d x, app d = some x → WholeMsg R { x with tok := d.tok } ∧ P x.code

theorem next_ok {R : Reg} {P : Nat → Prop} {app : App} (happ : AppOK R P app) (d : Msg) :
    ∀ m, next app none d = some m → WholeMsg R m ∧ P m.code := by
  intro m hm
  unfold next at hm
  split at hm
  · rename_i x hx
    injection hm with hm; subst hm
    exact happ d x hx
  · cases hm

theorem continue_good (R : Reg) (tok v : Nat) : GoodMsg R ((continueMsg tok).setBlock .b1 v) := by
  apply goodMsg_of_no_block
  intro bt hbt
  have h : dataBT codeContinue = some .b2 := by decide
  change dataBT codeContinue = some bt at hbt
  rw [h] at hbt; injection hbt with hbt; subst hbt; rfl

theorem nextRequest_good (R : Reg) (s : Msg) (v : Nat) (hs : ReqCode s.code) : GoodMsg R ((nextRequest s).setBlock .b2 v) := by
  apply goodMsg_of_no_block
  intro bt hbt
  have hc : ((nextRequest s).setBlock .b2 v).code = s.code := rfl
  rw [hc] at hbt
  cases bt with
  | b1 => rfl
  | b2 => exact absurd hbt hs

/-- the answers of `blockReply` carry no body and are `GoodMsg` -/
theorem blockReply_good {R : Reg} {bt : BT} {sent : Option Msg} {tok szx num held : Nat} {more : Bool} {m : Msg}
    (hbt : bt = .b1 ∨ ∃ s, sent = some s ∧ ReqCode s.code)
    (h : blockReply bt sent tok szx num held more = some m) : m.body = [] ∧ GoodMsg R m := by
  unfold blockReply at h
  split at h
  · rename_i s
    simp only [] at h
    split at h
    · cases h
    · split at h
      · cases h
      · injection h with h; subst h
        rcases hbt with hbt | ⟨s', hs', hq⟩
        · cases hbt
        · injection hs' with hs'; subst hs'
          exact ⟨rfl, nextRequest_good R s _ hq⟩
  · rename_i hne
    split at h
    · cases h
    · injection h with h; subst h
      rcases hbt with hbt | ⟨s', hs', _⟩
      · subst hbt; exact ⟨rfl, continue_good R tok _⟩
      · cases bt with
        | b1 => exact ⟨rfl, continue_good R tok _⟩
        | b2 => exact absurd hs' (by intro hh; exact hne s' rfl hh)

/-- what `processReceivedMessage` leaves in the response writer: nothing, a body-less answer of the layer, or what
    the application answered -/
theorem processReceived_w {R : Reg} {P : Nat → Prop} {app : App} (happ : AppOK R P app)
    (cfg : Cfg) (sl : Slots) (now : Int) (r : Msg) (maxSzx : Nat) (bt : BT)
    (hq : bt = .b2 → ∀ blk szx num more, r.block2 = some blk → decodeBlock blk = .ok (szx, num, more) →
      ∀ e, sl.snd = some e → ReqCode e.msg.code) :
    (processReceived cfg sl now none r maxSzx app bt).sl.snd = sl.snd ∧
    ∀ m, (processReceived cfg sl now none r maxSzx app bt).w = some m →
      (m.body = [] ∧ GoodMsg R m) ∨ (WholeMsg R m ∧ P m.code) := by
  have hnext : ∀ d m, next app none d = some m → (m.body = [] ∧ GoodMsg R m) ∨ (WholeMsg R m ∧ P m.code) :=
    fun d m hm => Or.inr (next_ok happ d m hm)
  unfold processReceived
  simp only []
  split
  · exact ⟨rfl, hnext r⟩
  split
  · exact ⟨rfl, hnext r⟩
  split
  · split
    · exact ⟨rfl, by intro m hm; cases hm⟩
    · exact ⟨rfl, hnext r⟩
  · rename_i blk hb
    split
    · exact ⟨rfl, by intro m hm; cases hm⟩
    · rename_i szx0 num more hdec
      split
      · exact ⟨rfl, by intro m hm; cases hm⟩
      · rename_i hsent
        have hbt : bt = .b1 ∨ ∃ s, sl.snd.map (·.msg) = some s ∧ ReqCode s.code := by
          cases bt with
          | b1 => exact Or.inl rfl
          | b2 =>
            right
            cases hs : sl.snd with
            | none => exfalso; apply hsent; simp [hs]
            | some e =>
              exact ⟨e.msg, rfl, hq rfl blk szx0 num more hb hdec e hs⟩
        split
        · split
          · split
            · exact ⟨rfl, by intro m hm; cases hm⟩
            · exact ⟨rfl, hnext r⟩
          · split
            · exact ⟨rfl, by intro m hm; cases hm⟩
            · rename_i m' hbr
              refine ⟨rfl, ?_⟩
              intro m hm; injection hm with hm; subst hm
              exact Or.inl (blockReply_good hbt hbr)
        · split
          · exact ⟨rfl, hnext _⟩
          · split
            · exact ⟨rfl, by intro m hm; cases hm⟩
            · rename_i m' hbr
              refine ⟨rfl, ?_⟩
              intro m hm; injection hm with hm; subst hm
              exact Or.inl (blockReply_good hbt hbr)
theorem entityIncomplete_good (R : Reg) (tok : Nat) : GoodMsg R (entityIncomplete tok) := by
  apply goodMsg_of_no_block
  intro bt hbt
  have h : dataBT codeRequestEntityIncomplete = some .b2 := by decide
  change dataBT codeRequestEntityIncomplete = some bt at hbt
  rw [h] at hbt; injection hbt with hbt; subst hbt; rfl

theorem finishReceived_out {R : Reg} {P : Nat → Prop} {cfg : Cfg} (hcfg : CfgOK cfg) (now : Int) (h : HR) (mx blk : Nat)
    (hmx : mx ≤ cfg.szx) (hsnd : SndOK R P h.sl.snd)
    (hw : ∀ m, h.w = some m → (m.body = [] ∧ GoodMsg R m) ∨ (WholeMsg R m ∧ P m.code)) :
    SndOK R P (finishReceived cfg now h mx blk).sl.snd ∧
    ((finishReceived cfg now h mx blk).failed = false → ∀ m, (finishReceived cfg now h mx blk).w = some m → GoodMsg R m) := by
  unfold finishReceived
  split
  · rename_i hf
    exact ⟨hsnd, by intro hnf; rw [hf] at hnf; cases hnf⟩
  · split
    · exact ⟨hsnd, by intro hnf; cases hnf⟩
    · rename_i snd' w' hst
      have := startSendingS_ok hcfg hmx hsnd hw hst
      exact ⟨this.1, fun _ => this.2⟩

theorem dataBT_b2_of {c : Nat} (h1 : ¬ isSignal c = true) (h2 : ¬ (c = codeGET ∨ c = codeDELETE)) (h3 : ¬ isPostPut c = true) :
    dataBT c = some .b2 := by
  unfold dataBT
  have : ¬ (isSignal c = true ∨ c = codeGET ∨ c = codeDELETE) := by
    intro h; rcases h with h | h
    · exact h1 h
    · exact h2 h
  rw [if_neg this, if_neg h3]

theorem handleReceived_out {R : Reg} {P : Nat → Prop} {app : App} (happ : AppOK R P app) {cfg : Cfg} (hcfg : CfgOK cfg)
    (sl : Slots) (now : Int) (r : Msg) (hsnd : SndOK R P sl.snd)
    (hq : dataBT r.code = some .b2 → ∀ blk szx num more, r.block2 = some blk → decodeBlock blk = .ok (szx, num, more) →
      ∀ e, sl.snd = some e → ReqCode e.msg.code) :
    SndOK R P (handleReceived cfg sl now r app).sl.snd ∧
    ((handleReceived cfg sl now r app).failed = false → ∀ m, (handleReceived cfg sl now r app).w = some m → GoodMsg R m) := by
  have hwhole : ∀ m, WholeMsg R m → GoodMsg R m := fun m hwm =>
    goodMsg_of_no_block (by intro bt _; cases bt; exact hwm.2.1; exact hwm.2.2)
  unfold handleReceived
  split
  · exact ⟨hsnd, by intro hnf; cases hnf⟩
  · split
    · refine ⟨hsnd, fun _ m hm => ?_⟩
      exact hwhole m (next_ok happ r m hm).1
    · rename_i hsig
      split
      · exact finishReceived_out hcfg now _ _ _ (fitSZX_le _ _ _) hsnd (fun m hm => Or.inr (next_ok happ r m hm))
      · rename_i hgd
        split
        · have hp := processReceived_w (R := R) happ cfg sl now r (fitSZX r .b1 cfg.szx) .b1 (by intro h; cases h)
          exact finishReceived_out hcfg now _ _ _ (fitSZX_le _ _ _) (by rw [hp.1]; exact hsnd) hp.2
        · rename_i hpp
          have hb2 := dataBT_b2_of hsig hgd hpp
          have hp := processReceived_w (R := R) happ cfg sl now r (fitSZX r .b2 cfg.szx) .b2 (fun _ => hq hb2)
          exact finishReceived_out hcfg now _ _ _ (fitSZX_le _ _ _) (by rw [hp.1]; exact hsnd) hp.2

/-- everything one `Handle` call puts on the wire is `GoodMsg` for the peer, and the sending slot keeps holding a whole message -/
theorem handleS_out {R : Reg} {P : Nat → Prop} {app : App} (happ : AppOK R P app) {cfg : Cfg} (hcfg : CfgOK cfg)
    (sl : Slots) (now : Int) (r : Msg) (hsnd : SndOK R P sl.snd)
    (hq : dataBT r.code = some .b2 → ∀ blk szx num more, r.block2 = some blk → decodeBlock blk = .ok (szx, num, more) →
      ∀ e, sl.snd = some e → ReqCode e.msg.code) :
    SndOK R P (handleS cfg sl now r app).1.snd ∧ ∀ m, (handleS cfg sl now r app).2.reply = some m → GoodMsg R m := by
  have hr := handleReceived_out happ hcfg sl now r hsnd hq
  have hrecv : ∀ (x : Slots × Out), x = (let h := handleReceived cfg sl now r app
      if h.failed then (h.sl, { reply := some (entityIncomplete r.tok), delivered := h.delivered, err := true })
      else (h.sl, { reply := h.w, delivered := h.delivered })) →
      SndOK R P x.1.snd ∧ ∀ m, x.2.reply = some m → GoodMsg R m := by
    intro x hx
    subst hx
    simp only []
    split
    · refine ⟨hr.1, ?_⟩
      intro m hm; injection hm with hm; subst hm
      exact entityIncomplete_good R r.tok
    · rename_i hf
      exact ⟨hr.1, hr.2 (by simpa using hf)⟩
  unfold handleS
  simp only []
  split
  · exact hrecv _ rfl
  · split
    · exact hrecv _ rfl
    · rename_i e hlive
      split
      · exact hrecv _ rfl
      · split
        · refine ⟨?_, ?_⟩
          · intro x hx; simp at hx
          · intro m hm; simp at hm
        · rename_i sm more hcs
          have hsome := live_some hlive
          have hwm := (hsnd e hsome).1
          have hms : cfg.szx < 7 ∨ 1024 ≤ cfg.maxSize := hcfg.2
          refine ⟨?_, ?_⟩
          · split
            · intro x hx; simp at hx
            · exact hsnd
          · intro m hm; simp at hm; subst hm
            unfold continueSendingS at hcs
            split at hcs
            · cases hcs
            · rw [hsome] at hcs
              exact createSending_good hwm hms hcs

/-! ### two endpoints and the relay: the invariant of `system_safe` -/

/-- a registry that only holds requests (what a client's applications supply) -/
def RegReq (R : Reg) : Prop := ∀ tok e s, R tok e = some s → ReqCode s.code

/-- a Block2 data block that is `GoodMsg` for a registry of requests does not exist -/
theorem no_block2_data_of_regReq {R : Reg} (hreq : RegReq R) {r : Msg} (hg : GoodMsg R r) (hb2 : dataBT r.code = some .b2)
    {blk szx num : Nat} {more : Bool} (hb : r.block2 = some blk) (hdec : decodeBlock blk = .ok (szx, num, more)) : False := by
  obtain ⟨s, hm, _⟩ := hg .b2 hb2 blk szx num more hb hdec
  have := hreq r.tok r.etag s hm.1
  rw [← hm.2.2.1] at this
  exact this hb2

theorem handle_out {R : Reg} {P : Nat → Prop} {app : App} (happ : AppOK R P app) (ep : Endpoint) (hcfg : CfgOK ep.toCfg)
    (now : Int) (r : Msg) (hsnd : ∀ tok, SndOK R P (ep.sending tok))
    (hq : dataBT r.code = some .b2 → ∀ blk szx num more, r.block2 = some blk → decodeBlock blk = .ok (szx, num, more) →
      ∀ e, ep.sending r.tok = some e → ReqCode e.msg.code) :
    (∀ tok, SndOK R P ((handle ep now r app).1.sending tok)) ∧ (∀ m, (handle ep now r app).2.reply = some m → GoodMsg R m) ∧
    (handle ep now r app).1.toCfg = ep.toCfg := by
  have h := handleS_out happ hcfg (ep.slots r.tok) now r (hsnd r.tok) hq
  unfold handle
  simp only []
  refine ⟨?_, h.2, rfl⟩
  intro tok
  by_cases ht : tok = r.tok
  · subst ht; simp only [Endpoint.put, put_same]; exact h.1
  · simp only [Endpoint.put, put_other _ _ ht]; exact hsnd tok

/-- what an application of the client side may hand to `Do` / `WriteMessage` -/
def ReqOK (R : Reg) (r : Msg) : Prop := WholeMsg R r ∧ ReqCode r.code

theorem doStartS_out {R : Reg} {cfg : Cfg} (snd : Option Entry) (now : Int) (r : Msg)
    (hr : ReqOK R r) (hsnd : SndOK R ReqCode snd) :
    SndOK R ReqCode (doStartS cfg snd now r).1 ∧ ∀ m, (doStartS cfg snd now r).2 = some m → GoodMsg R m := by
  have hwhole : GoodMsg R r := goodMsg_of_no_block (by intro bt _; cases bt; exact hr.1.2.1; exact hr.1.2.2)
  have hnone : SndOK R ReqCode none := by intro e he; cases he
  unfold doStartS
  split
  · exact ⟨hsnd, by intro m hm; cases hm⟩
  split
  · exact ⟨hsnd, by intro m hm; cases hm⟩
  simp only []
  have fin : ∀ (ex : Int),
      SndOK R ReqCode (if (storeIfAbsent snd ⟨r, ex⟩ now).2 = true then (snd, (none : Option Msg)) else
        if fits doDirectIsLe r.body.length (sizeN cfg.szx) = true then ((storeIfAbsent snd ⟨r, ex⟩ now).1, some r) else
        if (!isPostPut r.code) = true then (none, none) else
        if r.body.length ≥ 4294967296 then (none, none) else
        match encodeBlock cfg.szx 0 true with
        | .error _ => (none, none)
        | .ok v => ((storeIfAbsent snd ⟨r, ex⟩ now).1,
            some { r with size1 := some r.body.length, block1 := some v, body := r.body.take (bufLen cfg.szx cfg.maxSize) })).1 ∧
      ∀ m, (if (storeIfAbsent snd ⟨r, ex⟩ now).2 = true then (snd, (none : Option Msg)) else
        if fits doDirectIsLe r.body.length (sizeN cfg.szx) = true then ((storeIfAbsent snd ⟨r, ex⟩ now).1, some r) else
        if (!isPostPut r.code) = true then (none, none) else
        if r.body.length ≥ 4294967296 then (none, none) else
        match encodeBlock cfg.szx 0 true with
        | .error _ => (none, none)
        | .ok v => ((storeIfAbsent snd ⟨r, ex⟩ now).1,
            some { r with size1 := some r.body.length, block1 := some v, body := r.body.take (bufLen cfg.szx cfg.maxSize) })).2 = some m →
        GoodMsg R m := by
    intro ex
    have hst := storeIfAbsent_ok (now := now) hsnd (e := ⟨r, ex⟩) ⟨hr.1, hr.2⟩
    split
    · exact ⟨hsnd, by intro m hm; cases hm⟩
    split
    · exact ⟨hst, by intro m hm; injection hm with hm; subst hm; exact hwhole⟩
    split
    · exact ⟨hnone, by intro m hm; cases hm⟩
    · rename_i hpp
      split
      · exact ⟨hnone, by intro m hm; cases hm⟩
      · split
        · exact ⟨hnone, by intro m hm; cases hm⟩
        · rename_i v he
          refine ⟨hst, ?_⟩
          intro m hm; injection hm with hm; subst hm
          have hpp' : isPostPut r.code = true := by simpa using hpp
          have hdv := Props.C19.decode_encode _ _ _ _ he
          intro bt hbt blk szx num more hb hdec
          change dataBT r.code = some bt at hbt
          rw [postput_dataBT hpp'] at hbt
          injection hbt with hbt; subst hbt
          change some v = some blk at hb
          injection hb with hb; subst hb
          rw [hdv] at hdec
          injection hdec with hdec; injection hdec with e1 hdec; injection hdec with e2 e3
          subst e1 e2 e3
          refine ⟨⟨r.body, r.other, r.code⟩, ⟨hr.1.1, rfl, rfl, rfl⟩, ?_, by intro h; cases h⟩
          simp only [Int.toNat_zero, Nat.zero_mul]
          exact ⟨Nat.zero_le _, by simpa using List.take_prefix _ _⟩
  split <;> exact fin _
/-- registry of the bodies being sent *to* a side -/
def regOf (RA RB : Reg) : Side → Reg
  | .A => RA
  | .B => RB

/-- A is the client (its applications call `Do` / `WriteMessage` with requests), B the server (its application answers) -/
structure WInv (RA RB : Reg) (w : World) : Prop where
  ia : EpInv RA w.a
  ib : EpInv RB w.b
  sa : ∀ tok, SndOK RB ReqCode (w.a.sending tok)
  sb : ∀ tok, SndOK RA (fun _ => True) (w.b.sending tok)
  pk : ∀ p, p ∈ w.queue ∨ p ∈ w.hist → GoodMsg (regOf RA RB p.dst) p.msg
  ca : CfgOK w.a.toCfg
  cb : CfgOK w.b.toCfg
  app : AppOK RA (fun _ => True) w.appB

/-- a delivery is either an arrival without data block handed on as it is, or exactly what was supplied -/
def DeliveryOK (RA RB : Reg) : Event → Prop
  | .deliver s d => NoData d ∨ Complete (regOf RA RB s) d.tok d
  | _ => True

theorem sndOK_put_none {R : Reg} {P : Nat → Prop} (c : Cache) (k : Nat) (h : ∀ tok, SndOK R P (c tok)) :
    ∀ tok, SndOK R P ((c.put k none) tok) := by
  intro tok
  by_cases ht : tok = k
  · subst ht; rw [put_same]; intro e he; cases he
  · rw [put_other _ _ ht]; exact h tok

theorem completeDo_inv {RA RB : Reg} {w : World} (h : WInv RA RB w) (m : Msg) :
    WInv RA RB (completeDo w m).1 ∧ ∀ ev ∈ (completeDo w m).2, DeliveryOK RA RB ev := by
  unfold completeDo
  split
  · refine ⟨{ h with sa := ?_ }, ?_⟩
    · exact sndOK_put_none _ _ h.sa
    · intro ev hev; simp at hev; subst hev; trivial
  · exact ⟨h, by intro ev hev; cases hev⟩

theorem completeAll_inv {RA RB : Reg} (ms : List Msg) :
    ∀ (w : World), WInv RA RB w → WInv RA RB (completeAll w ms).1 ∧ ∀ ev ∈ (completeAll w ms).2, DeliveryOK RA RB ev := by
  induction ms with
  | nil => intro w h; exact ⟨h, by intro ev hev; cases hev⟩
  | cons m ms ih =>
    intro w h
    have hc := completeDo_inv h m
    have hr := ih (completeDo w m).1 hc.1
    refine ⟨hr.1, ?_⟩
    intro ev hev
    simp only [completeAll, List.mem_append] at hev
    rcases hev with hev | hev
    · exact hc.2 ev hev
    · exact hr.2 ev hev

theorem goodMsg_onWire {R : Reg} {m : Msg} (h : GoodMsg R m) : GoodMsg R (onWire m) := h

theorem completeAll_queue (ms : List Msg) : ∀ (w : World), (completeAll w ms).1.queue = w.queue ∧ (completeAll w ms).1.hist = w.hist := by
  induction ms with
  | nil => intro w; exact ⟨rfl, rfl⟩
  | cons m ms ih =>
    intro w
    have h1 := ih (completeDo w m).1
    have h2 : (completeDo w m).1.queue = w.queue ∧ (completeDo w m).1.hist = w.hist := by
      unfold completeDo; split <;> exact ⟨rfl, rfl⟩
    simp only [completeAll]
    exact ⟨h1.1.trans h2.1, h1.2.trans h2.2⟩

theorem afterDeliveries_inv {RA RB : Reg} {w : World} (h : WInv RA RB w) (s : Side) (ds : List Msg) :
    WInv RA RB (w.afterDeliveries s ds).1 ∧ (∀ ev ∈ (w.afterDeliveries s ds).2, DeliveryOK RA RB ev) ∧
    (w.afterDeliveries s ds).1.queue = w.queue ∧ (w.afterDeliveries s ds).1.hist = w.hist := by
  cases s with
  | A =>
    have hc := completeAll_inv (RA := RA) (RB := RB) ds w h
    have hq := completeAll_queue ds w
    exact ⟨hc.1, hc.2, hq.1, hq.2⟩
  | B => exact ⟨h, by intro ev hev; simp [World.afterDeliveries] at hev, rfl, rfl⟩

/-- one delivery by the network keeps the invariant; what is handed to an application is exact -/
theorem recv_inv {RA RB : Reg} (hdA : Discipline RA) (hdB : Discipline RB) (hreq : RegReq RB) {w : World} (h : WInv RA RB w)
    (p : Packet) (hp : GoodMsg (regOf RA RB p.dst) p.msg) :
    WInv RA RB (w.recv p).1 ∧ ∀ ev ∈ (w.recv p).2, DeliveryOK RA RB ev := by
  obtain ⟨dst, msg⟩ := p
  -- the endpoint step
  have step : ∃ (w1 : World), w1 = w.setEp dst (handle (w.ep dst) w.now msg (w.appOf dst)).1 ∧ WInv RA RB w1 ∧
      (∀ d ∈ (handle (w.ep dst) w.now msg (w.appOf dst)).2.delivered, DeliveryOK RA RB (Event.deliver dst d)) ∧
      (∀ m, (handle (w.ep dst) w.now msg (w.appOf dst)).2.reply = some m → GoodMsg (regOf RA RB dst.other) m) := by
    refine ⟨_, rfl, ?_⟩
    cases dst with
    | A =>
      have hAppA : AppOK RB ReqCode (fun _ => none) := by intro d x hx; cases hx
      have hi := handle_inv hdA w.a w.now msg (fun _ => none) hp h.ia
      have ho := handle_out hAppA w.a h.ca w.now msg h.sa (fun _ _ _ _ _ _ _ e he => (h.sa msg.tok e he).2)
      refine ⟨{ h with ia := hi.1, sa := ho.1, ca := ?_ }, ?_, ho.2.1⟩
      · show CfgOK (handle w.a w.now msg (fun _ => none)).1.toCfg
        rw [ho.2.2]; exact h.ca
      · intro d hd
        rcases hi.2 d hd with ⟨e1, e2⟩ | hc
        · subst e1; exact Or.inl e2
        · right
          obtain ⟨s, c1, c2, c3, c4, c5⟩ := hc
          exact ⟨s, by rw [c5]; exact c1, c2, c3, c4, rfl⟩
    | B =>
      have hi := handle_inv hdB w.b w.now msg w.appB hp h.ib
      have ho := handle_out h.app w.b h.cb w.now msg h.sb
        (fun hb2 blk szx num more hb hdec _ _ => (no_block2_data_of_regReq hreq hp hb2 hb hdec).elim)
      refine ⟨{ h with ib := hi.1, sb := ho.1, cb := ?_ }, ?_, ho.2.1⟩
      · show CfgOK (handle w.b w.now msg w.appB).1.toCfg
        rw [ho.2.2]; exact h.cb
      · intro d hd
        rcases hi.2 d hd with ⟨e1, e2⟩ | hc
        · subst e1; exact Or.inl e2
        · right
          obtain ⟨s, c1, c2, c3, c4, c5⟩ := hc
          exact ⟨s, by rw [c5]; exact c1, c2, c3, c4, rfl⟩
  obtain ⟨w1, hw1eq, hw1, hdel, hrep⟩ := step
  -- the calls of A that this delivery completes
  have hq1 : w1.queue = w.queue ∧ w1.hist = w.hist := by rw [hw1eq]; cases dst <;> exact ⟨rfl, rfl⟩
  have hfin := afterDeliveries_inv (RA := RA) (RB := RB) hw1 dst (handle (w.ep dst) w.now msg (w.appOf dst)).2.delivered
  obtain ⟨hf, hfev, hfq, hfh⟩ := hfin
  have hevs : ∀ ev ∈ ([Event.arrive dst msg] ++ (handle (w.ep dst) w.now msg (w.appOf dst)).2.delivered.map (Event.deliver dst) ++
      (w1.afterDeliveries dst (handle (w.ep dst) w.now msg (w.appOf dst)).2.delivered).2 ++
      (if (handle (w.ep dst) w.now msg (w.appOf dst)).2.err then [Event.errcb dst] else [])), DeliveryOK RA RB ev := by
    intro ev hev
    simp only [List.mem_append, List.mem_singleton, List.mem_map] at hev
    rcases hev with ((hev | ⟨d, hd, hev⟩) | hev) | hev
    · subst hev; trivial
    · subst hev; exact hdel d hd
    · exact hfev ev hev
    · split at hev
      · simp at hev; subst hev; trivial
      · cases hev
  unfold World.recv
  simp only [← hw1eq]
  split
  · rename_i m hm
    refine ⟨{ hf with pk := ?_ }, ?_⟩
    · intro q hq
      simp only [World.enqueue, List.mem_append, List.mem_singleton] at hq
      rcases hq with (hq | hq) | hq
      · exact h.pk q (Or.inl (by rw [← hq1.1, ← hfq]; exact hq))
      · subst hq; exact goodMsg_onWire (hrep m hm)
      · exact h.pk q (Or.inr (by rw [← hq1.2, ← hfh]; exact hq))
    · intro ev hev
      simp only [List.mem_append, List.mem_singleton] at hev
      rcases hev with hev | hev
      · exact hevs ev (by simp only [List.mem_append, List.mem_singleton]; exact hev)
      · subst hev; trivial
  · refine ⟨hf, ?_⟩
    intro ev hev
    exact hevs ev hev


theorem winv_of_fields {RA RB : Reg} {w w' : World} (h : WInv RA RB w) (ha : w'.a = w.a) (hb : w'.b = w.b) (happ : w'.appB = w.appB)
    (hpk : ∀ p, p ∈ w'.queue ∨ p ∈ w'.hist → p ∈ w.queue ∨ p ∈ w.hist) : WInv RA RB w' :=
  { ia := by rw [ha]; exact h.ia, ib := by rw [hb]; exact h.ib, sa := by rw [ha]; exact h.sa, sb := by rw [hb]; exact h.sb,
    pk := fun p hp => h.pk p (hpk p hp), ca := by rw [ha]; exact h.ca, cb := by rw [hb]; exact h.cb, app := by rw [happ]; exact h.app }

theorem fault_inv {RA RB : Reg} (hdA : Discipline RA) (hdB : Discipline RB) (hreq : RegReq RB) {w : World} (h : WInv RA RB w) (f : Fault) :
    WInv RA RB (w.fault f).1 ∧ ∀ ev ∈ (w.fault f).2, DeliveryOK RA RB ev := by
  have hnil : ∀ ev ∈ ([] : List Event), DeliveryOK RA RB ev := by intro ev hev; cases hev
  cases f with
  | deliver =>
    simp only [World.fault]
    cases hq : w.queue with
    | nil => exact ⟨h, hnil⟩
    | cons p q =>
      simp only []
      have hw' : WInv RA RB { w with queue := q, hist := w.hist ++ [p] } :=
        winv_of_fields h rfl rfl rfl (by
          intro x hx
          simp only [List.mem_append, List.mem_singleton] at hx
          rcases hx with hx | hx | hx
          · left; rw [hq]; exact List.mem_cons_of_mem _ hx
          · right; exact hx
          · left; rw [hq, hx]; exact List.mem_cons_self)
      exact recv_inv hdA hdB hreq hw' p (h.pk p (Or.inl (by rw [hq]; exact List.mem_cons_self)))
  | dup =>
    simp only [World.fault]
    cases hq : w.queue with
    | nil => exact ⟨h, hnil⟩
    | cons p q =>
      simp only []
      have hw' : WInv RA RB { w with queue := p :: q, hist := w.hist ++ [p] } :=
        winv_of_fields h rfl rfl rfl (by
          intro x hx
          simp only [List.mem_append, List.mem_singleton] at hx
          rcases hx with hx | hx | hx
          · left; rw [hq]; exact hx
          · right; exact hx
          · left; rw [hq, hx]; exact List.mem_cons_self)
      exact recv_inv hdA hdB hreq hw' p (h.pk p (Or.inl (by rw [hq]; exact List.mem_cons_self)))
  | drop =>
    simp only [World.fault]
    cases hq : w.queue with
    | nil => exact ⟨h, hnil⟩
    | cons p q =>
      refine ⟨winv_of_fields h rfl rfl rfl ?_, hnil⟩
      intro x hx
      simp only [List.mem_append, List.mem_singleton] at hx
      rcases hx with hx | hx | hx
      · left; rw [hq]; exact List.mem_cons_of_mem _ hx
      · right; exact hx
      · left; rw [hq, hx]; exact List.mem_cons_self
  | swap =>
    simp only [World.fault]
    cases hq : w.queue with
    | nil => exact ⟨h, hnil⟩
    | cons p q1 =>
      cases q1 with
      | nil => exact ⟨h, hnil⟩
      | cons p' q =>
        refine ⟨winv_of_fields h rfl rfl rfl ?_, hnil⟩
        intro x hx
        rcases hx with hx | hx
        · left
          rw [hq]
          simp only [List.mem_cons] at hx ⊢
          rcases hx with hx | hx | hx
          · exact Or.inr (Or.inl hx)
          · exact Or.inl hx
          · exact Or.inr (Or.inr hx)
        · right; exact hx
  | replay k =>
    simp only [World.fault]
    cases hk : w.hist[k]? with
    | none => exact ⟨h, hnil⟩
    | some p => exact recv_inv hdA hdB hreq h p (h.pk p (Or.inr (List.mem_of_getElem? hk)))

theorem sweep_sending (ep : Endpoint) (now : Int) (k : Nat) :
    (sweep ep now).sending k = none ∨ (sweep ep now).sending k = ep.sending k := by
  simp only [sweep, sweepSlots, Endpoint.slots]
  cases hr : ep.receiving k with
  | none =>
    simp only
    cases hs : ep.sending k with
    | none => left; rfl
    | some e => simp only [live]; split <;> simp
  | some x =>
    simp only
    split
    · left; rfl
    · cases hs : ep.sending k with
      | none => left; rfl
      | some e => simp only [live]; split <;> simp

theorem sndOK_sweep {R : Reg} {P : Nat → Prop} (ep : Endpoint) (now : Int) (h : ∀ tok, SndOK R P (ep.sending tok)) :
    ∀ tok, SndOK R P ((sweep ep now).sending tok) := by
  intro tok e he
  rcases sweep_sending ep now tok with hs | hs
  · rw [hs] at he; cases he
  · rw [hs] at he; exact h tok e he

theorem op_inv {RA RB : Reg} (hdA : Discipline RA) (hdB : Discipline RB) (hreq : RegReq RB) {w : World} (h : WInv RA RB w) (o : Op)
    (ho : ∀ r, (o = .doReq r ∨ o = .writeReq r) → ReqOK RB r) :
    WInv RA RB (w.op o).1 ∧ ∀ ev ∈ (w.op o).2, DeliveryOK RA RB ev := by
  have hnotdel : ∀ (evs : List Event), (∀ ev ∈ evs, ∀ s d, ev ≠ Event.deliver s d) → ∀ ev ∈ evs, DeliveryOK RA RB ev := by
    intro evs hne ev hev
    cases ev with
    | deliver s d => exact absurd rfl (hne _ hev s d)
    | _ => trivial
  cases o with
  | fault f => exact fault_inv hdA hdB hreq h f
  | tick s =>
    refine ⟨?_, by intro ev hev; cases hev⟩
    cases s with
    | A => exact { h with ia := sweep_inv w.a w.now h.ia, sa := sndOK_sweep w.a w.now h.sa, ca := h.ca }
    | B => exact { h with ib := sweep_inv w.b w.now h.ib, sb := sndOK_sweep w.b w.now h.sb, cb := h.cb }
  | sleep d =>
    have hfold : ∀ (ps : List Pending) (a : Endpoint), (∀ tok, SndOK RB ReqCode (a.sending tok)) → EpInv RA a → CfgOK a.toCfg →
        (∀ tok, SndOK RB ReqCode ((ps.foldl (fun a p => doFinish a p.tok) a).sending tok)) ∧ EpInv RA (ps.foldl (fun a p => doFinish a p.tok) a) ∧
        CfgOK (ps.foldl (fun a p => doFinish a p.tok) a).toCfg := by
      intro ps
      induction ps with
      | nil => intro a h1 h2 h3; exact ⟨h1, h2, h3⟩
      | cons p ps ih =>
        intro a h1 h2 h3
        exact ih (doFinish a p.tok) (sndOK_put_none _ _ h1) h2 h3
    have hf := hfold (w.pending.filter (fun p => match p.deadline with | some t => decide (t ≤ w.now + d) | none => false)) w.a h.sa h.ia h.ca
    refine ⟨{ h with ia := hf.2.1, sa := hf.1, ca := hf.2.2 }, ?_⟩
    apply hnotdel
    intro ev hev s dd
    simp only [World.op, World.sleep, List.mem_map] at hev
    obtain ⟨p, _, hp⟩ := hev
    rw [← hp]; intro hc; cases hc
  | doReq r =>
    have hr := ho r (Or.inl rfl)
    have hd := doStartS_out (cfg := w.a.toCfg) (w.a.sending r.tok) w.now r hr (h.sa r.tok)
    simp only [World.op, World.startDo, doStart]
    have hsa : ∀ tok, SndOK RB ReqCode ((w.a.sending.put r.tok (doStartS w.a.toCfg (w.a.sending r.tok) w.now r).1) tok) := by
      intro tok
      by_cases ht : tok = r.tok
      · subst ht; rw [put_same]; exact hd.1
      · rw [put_other _ _ ht]; exact h.sa tok
    split
    · rename_i a' m heq
      injection heq with h1 h2
      subst h1
      refine ⟨{ h with sa := hsa, ca := h.ca, pk := ?_ }, ?_⟩
      · intro q hq
        simp only [List.mem_append, List.mem_singleton] at hq
        rcases hq with (hq | hq) | hq
        · exact h.pk q (Or.inl hq)
        · subst hq; exact goodMsg_onWire (hd.2 m h2)
        · exact h.pk q (Or.inr hq)
      · apply hnotdel
        intro ev hev s dd
        simp only [List.mem_singleton] at hev
        rw [hev]; intro hc; cases hc
    · rename_i a' heq
      injection heq with h1 h2
      subst h1
      refine ⟨{ h with sa := hsa, ca := h.ca }, ?_⟩
      apply hnotdel
      intro ev hev s dd
      simp only [List.mem_singleton] at hev
      rw [hev]; intro hc; cases hc
  | writeReq r =>
    have hr := ho r (Or.inr rfl)
    simp only [World.op, World.startWrite, World.ep, writeMessage]
    split
    · rename_i e' m heq
      split at heq
      · cases heq
      · rename_i blk _
        split at heq
        · cases heq
        · rename_i snd' w' hst
          injection heq with h1 h2
          subst h1 h2
          have hs := startSendingS_ok h.ca (Nat.le_refl _) (h.sa r.tok)
            (fun m hm => by injection hm with hm; subst hm; exact Or.inr ⟨hr.1, hr.2⟩) hst
          have hsa : ∀ tok, SndOK RB ReqCode ((w.a.sending.put r.tok snd') tok) := by
            intro tok
            by_cases ht : tok = r.tok
            · subst ht; rw [put_same]; exact hs.1
            · rw [put_other _ _ ht]; exact h.sa tok
          refine ⟨?_, ?_⟩
          · refine { ia := h.ia, ib := h.ib, sa := hsa, sb := h.sb, ca := h.ca, cb := h.cb, app := h.app, pk := ?_ }
            intro q hq
            simp only [World.setEp, List.mem_append, List.mem_singleton] at hq
            rcases hq with (hq | hq) | hq
            · exact h.pk q (Or.inl hq)
            · subst hq; exact goodMsg_onWire (hs.2 m rfl)
            · exact h.pk q (Or.inr hq)
          · apply hnotdel
            intro ev hev s dd
            simp only [List.mem_cons] at hev
            rcases hev with hev | hev | hev
            · rw [hev]; intro hc; cases hc
            · rw [hev]; intro hc; cases hc
            · cases hev
    · rename_i e' heq
      refine ⟨?_, ?_⟩
      · split at heq
        · injection heq with h1 _; subst h1
          exact { ia := h.ia, ib := h.ib, sa := h.sa, sb := h.sb, ca := h.ca, cb := h.cb, app := h.app, pk := h.pk }
        · split at heq
          · injection heq with h1 _; subst h1
            exact { ia := h.ia, ib := h.ib, sa := h.sa, sb := h.sb, ca := h.ca, cb := h.cb, app := h.app, pk := h.pk }
          · rename_i snd' w' hst
            injection heq with h1 h2
            subst h1
            have hs := startSendingS_ok h.ca (Nat.le_refl _) (h.sa r.tok)
              (fun m hm => by injection hm with hm; subst hm; exact Or.inr ⟨hr.1, hr.2⟩) hst
            have hsa : ∀ tok, SndOK RB ReqCode ((w.a.sending.put r.tok snd') tok) := by
              intro tok
              by_cases ht : tok = r.tok
              · subst ht; rw [put_same]; exact hs.1
              · rw [put_other _ _ ht]; exact h.sa tok
            exact { ia := h.ia, ib := h.ib, sa := hsa, sb := h.sb, ca := h.ca, cb := h.cb, app := h.app, pk := h.pk }
      · apply hnotdel
        intro ev hev s dd
        simp only [List.mem_singleton] at hev
        rw [hev]; intro hc; cases hc

/-- induction over an arbitrary script: relay faults, calls of the client's application, time, sweeps -/
theorem world_run_inv {RA RB : Reg} (hdA : Discipline RA) (hdB : Discipline RB) (hreq : RegReq RB) (ops : List Op) :
    ∀ (w : World), WInv RA RB w → (∀ r, (Op.doReq r ∈ ops ∨ Op.writeReq r ∈ ops) → ReqOK RB r) →
    WInv RA RB (World.run w ops).1 ∧ ∀ ev ∈ (World.run w ops).2, DeliveryOK RA RB ev := by
  induction ops with
  | nil => intro w h _; exact ⟨h, by intro ev hev; cases hev⟩
  | cons o os ih =>
    intro w h ho
    have h1 := op_inv hdA hdB hreq h o (by
      intro r hr
      rcases hr with hr | hr
      · exact ho r (Or.inl (by rw [hr]; exact List.mem_cons_self))
      · exact ho r (Or.inr (by rw [hr]; exact List.mem_cons_self)))
    have h2 := ih (w.op o).1 h1.1 (by
      intro r hr
      rcases hr with hr | hr
      · exact ho r (Or.inl (List.mem_cons_of_mem _ hr))
      · exact ho r (Or.inr (List.mem_cons_of_mem _ hr)))
    refine ⟨h2.1, ?_⟩
    intro ev hev
    simp only [World.run, List.mem_append] at hev
    rcases hev with hev | hev
    · exact h1.2 ev hev
    · exact h2.2 ev hev



/-! ### a two-endpoint instance for the non-vacuity examples of `system_safe` -/

def exRespBody : Bytes := (List.range 40).map (fun i => UInt8.ofNat (200 - i))
/-- B's application answers a POST under token 7 with 40 bytes -/
def exApp : App := fun d => if d.code = 2 ∧ d.tok = 7 then some { code := 68, tok := 7, other := [(12, [42])], body := exRespBody } else none
def exReq : Msg := { code := 2, tok := 7, other := [(11, [99])], body := exBody }
def exRA : Reg := fun tok e => if tok = 7 ∧ e = none then some ⟨exRespBody, [(12, [42])], 68⟩ else none
def exWorld : World := { a := { szx := 0, maxSize := 64, expiration := 1000 }, b := { szx := 0, maxSize := 64, expiration := 1000 }, appB := exApp }
/-- what the two applications were handed: (side is A, code, length of the body, body is the supplied one) -/
def exDeliveries (evs : List Event) : List (Bool × Nat × Nat × Bool) :=
  evs.filterMap (fun e => match e with
    | .deliver s d => some (s == .A, d.code, d.body.length, d.body == exBody || d.body == exRespBody)
    | _ => none)

/-! ### fault-free progress, one round at a time -/

/-- raw option value of the block (szx, num, more) -/
def blkVal (szx num : Nat) (more : Bool) : Nat := num * 16 + (if more then 8 else 0) + szx

theorem encode_blkVal {szx num : Nat} (more : Bool) (hs : szx ≤ 7) (hn : num < 2 ^ 20) :
    encodeBlock szx (num : Int) more = .ok (blkVal szx num more) := by
  rw [Props.C19.encode_total szx (num : Int) more hs (by omega) (by omega)]
  simp [blkVal]

theorem decode_blkVal {szx num : Nat} (more : Bool) (hs : szx ≤ 7) (hn : num < 2 ^ 20) :
    decodeBlock (blkVal szx num more) = .ok (szx, num, more) := by
  have := Props.C19.decode_encode szx (num : Int) more _ (encode_blkVal more hs hn)
  simpa using this

/-- block `j` of the upload of `r` with exponent `s` (as `createSendingMessage` cuts it) -/
def uploadBlock (r : Msg) (s ms j : Nat) : Msg :=
  { r with size1 := some r.body.length,
           block1 := some (blkVal s j (decide (j * sizeN s + ((r.body.drop (j * sizeN s)).take (bufLen s ms)).length ≠ r.body.length))),
           body := (r.body.drop (j * sizeN s)).take (bufLen s ms) }

/-- the 2.31 that acknowledges block `k` -/
def uploadAck (tok s k : Nat) : Msg := (continueMsg tok).setBlock .b1 (blkVal s k true)

/-- **sender round.** While the request is cached, the acknowledgement of block `k` makes the sender emit block `k+1`,
    an aligned slice that is flagged `more` iff it does not end the body; its caches do not change. -/
theorem sender_round (cfg : Cfg) (r : Msg) (exp now : Int) (rcv : Option Entry) (app : App) (k : Nat)
    (hs : cfg.szx < 7) (hpp : isPostPut r.code = true) (htok : r.tok ≠ 0) (hlive : now ≤ exp)
    (hk : (k + 1) * sizeN cfg.szx ≤ r.body.length) (hlen : r.body.length < 4294967296) (hnum : k + 1 < 2 ^ 20) :
    handleS cfg ⟨some ⟨r, exp⟩, rcv⟩ now (uploadAck r.tok cfg.szx k) app =
      (⟨some ⟨r, exp⟩, rcv⟩, { reply := some (uploadBlock r cfg.szx cfg.maxSize (k + 1)) }) := by
  have hs7 : cfg.szx ≤ 7 := by omega
  have hsz := sizeN_pos hs7
  have hbuf : bufLen cfg.szx cfg.maxSize = sizeN cfg.szx := bufLen_small _ hs
  have hlv : live (some ⟨r, exp⟩) now = some ⟨r, exp⟩ := live_fresh _ _ hlive
  have hw : wantsToBeReceived (uploadAck r.tok cfg.szx k) = false := by
    simp [wantsToBeReceived, uploadAck, continueMsg, Msg.setBlock, isPostPut, isRequest]
    decide
  have htok' : (uploadAck r.tok cfg.szx k).tok = r.tok := rfl
  have hsend : sendBT r.code = .b1 := postput_sendBT hpp
  have hcode : r.code > codeDELETE ↔ False := by
    have : r.code = codePOST ∨ r.code = codePUT := by simpa [isPostPut] using hpp
    rcases this with h | h <;> rw [h] <;> decide
  have hskip : block1SkipsSent = true := rfl
  have hoff : sendOffWith block1SkipsSent .b1 cfg.szx k (sizeN cfg.szx) = (k + 1) * sizeN cfg.szx := by
    simp [sendOffWith, hskip, Nat.add_mul]
  have hcs : createSending r cfg.szx cfg.maxSize (blkVal cfg.szx k true) =
      some (uploadBlock r cfg.szx cfg.maxSize (k + 1),
        decide ((k + 1) * sizeN cfg.szx + ((r.body.drop ((k + 1) * sizeN cfg.szx)).take (sizeN cfg.szx)).length ≠ r.body.length)) := by
    unfold createSending createSendingWith
    rw [decode_blkVal true hs7 (by omega)]
    simp only [getSzx_eq_min, Nat.min_self, hsend, hbuf, hoff]
    unfold createSendingAt
    have e0 : ¬ (refusesBodylessSending = true ∧ r.body = []) :=
      bodyless_test_neg (Nat.lt_of_lt_of_le (Nat.mul_pos (Nat.succ_pos k) hsz) hk)
    have e1 : ¬ (sizeN cfg.szx > 0 ∧ (k + 1) * sizeN cfg.szx > r.body.length) := by omega
    have e2 : ¬ r.body.length ≥ 4294967296 := by omega
    rw [if_neg e0, if_neg e1, if_neg e2]
    simp only [Nat.mul_div_cancel _ hsz]
    rw [encode_blkVal _ hs7 hnum]
    simp [uploadBlock, Msg.setSize, Msg.setBlock, hbuf]
  have hblk : (uploadAck r.tok cfg.szx k).block .b1 = some (blkVal cfg.szx k true) := rfl
  unfold handleS
  simp only []
  split
  · rename_i h0; exact absurd h0 htok
  · split
    · rename_i hl; rw [hlv] at hl; cases hl
    · rename_i e hl
      rw [hlv] at hl
      injection hl with hl
      subst hl
      split
      · rename_i hwr; rw [hw] at hwr; cases hwr
      · have hc : continueSendingS cfg (some ⟨r, exp⟩) (uploadAck r.tok cfg.szx k) r.code =
            some (uploadBlock r cfg.szx cfg.maxSize (k + 1),
              decide ((k + 1) * sizeN cfg.szx + ((r.body.drop ((k + 1) * sizeN cfg.szx)).take (sizeN cfg.szx)).length ≠ r.body.length)) := by
          unfold continueSendingS
          rw [hsend, hblk]
          exact hcs
        split
        · rename_i hn; rw [hc] at hn; cases hn
        · rename_i sm more hsome
          rw [hc] at hsome
          injection hsome with hsome
          injection hsome with h1 h2
          subst h1
          have : ¬ (more = false ∧ r.code > codeDELETE) := fun hh => hcode.mp hh.2
          rw [if_neg this]
theorem uploadBlock_fields (r : Msg) (s ms j : Nat) :
    (uploadBlock r s ms j).tok = r.tok ∧ (uploadBlock r s ms j).code = r.code ∧ (uploadBlock r s ms j).etag = r.etag ∧
    (uploadBlock r s ms j).block2 = r.block2 := ⟨rfl, rfl, rfl, rfl⟩

/-- **receiver round.** The receiver holds exactly the first `k` blocks (an unexpired entry with the request's ETag);
    block `k` arrives.  If it does not end the body it is appended and acknowledged with 2.31 carrying the same
    number; if it ends the body the entry is removed and the application is handed the complete body, with the
    entry's options minus Block1/Size1. -/
theorem receiver_round (cfg : Cfg) (r : Msg) (ent : Entry) (now : Int) (app : App) (ms k : Nat)
    (hs : cfg.szx < 7) (hpp : isPostPut r.code = true) (htok : r.tok ≠ 0) (hlive : now ≤ ent.validUntil)
    (hheld : ent.msg.body = r.body.take (k * sizeN cfg.szx)) (hk : k * sizeN cfg.szx ≤ r.body.length)
    (hetag : ent.msg.etag = r.etag) (hnum : k < 2 ^ 20) (hk0 : 0 < k) :
    ((k + 1) * sizeN cfg.szx < r.body.length →
      handleS cfg ⟨none, some ent⟩ now (uploadBlock r cfg.szx ms k) app =
        (⟨none, some ⟨{ ent.msg with body := r.body.take ((k + 1) * sizeN cfg.szx) }, ent.validUntil⟩⟩,
         { reply := some (uploadAck r.tok cfg.szx k) })) ∧
    (r.body.length ≤ (k + 1) * sizeN cfg.szx →
      (handleS cfg ⟨none, some ent⟩ now (uploadBlock r cfg.szx ms k) app).1.rcv = none ∧
      (handleS cfg ⟨none, some ent⟩ now (uploadBlock r cfg.szx ms k) app).2.delivered =
        [{ ent.msg with body := r.body, block1 := none, size1 := none }]) := by
  have hs7 : cfg.szx ≤ 7 := by omega
  have hsz := sizeN_pos hs7
  have hbuf : bufLen cfg.szx ms = sizeN cfg.szx := bufLen_small _ hs
  obtain ⟨f1, f2, f3, _⟩ := uploadBlock_fields r cfg.szx ms k
  have hcode : r.code = codePOST ∨ r.code = codePUT := by simpa [isPostPut] using hpp
  have hsig : isSignal r.code = false := by rcases hcode with h | h <;> rw [h] <;> decide
  have hgd : ¬ (r.code = codeGET ∨ r.code = codeDELETE) := by
    rcases hcode with h | h <;> rw [h] <;> decide
  have hpaylen : ((r.body.drop (k * sizeN cfg.szx)).take (sizeN cfg.szx)).length = min (sizeN cfg.szx) (r.body.length - k * sizeN cfg.szx) := by
    simp
  -- the shape of `handleS` on this input: the receive path with `processReceived … .b1`
  have hshape : handleS cfg ⟨none, some ent⟩ now (uploadBlock r cfg.szx ms k) app =
      (let h := finishReceived cfg now (processReceived cfg ⟨none, some ent⟩ now none (uploadBlock r cfg.szx ms k)
          (fitSZX (uploadBlock r cfg.szx ms k) .b1 cfg.szx) app .b1) (fitSZX (uploadBlock r cfg.szx ms k) .b1 cfg.szx) (blkVal cfg.szx 0 true)
       if h.failed then (h.sl, { reply := some (entityIncomplete r.tok), delivered := h.delivered, err := true })
       else (h.sl, { reply := h.w, delivered := h.delivered })) := by
    unfold handleS
    simp only [f1, if_neg htok, live]
    unfold handleReceived
    have he : encodeBlock cfg.szx 0 true = .ok (blkVal cfg.szx 0 true) := encode_blkVal true hs7 (by decide)
    simp only [he, f2, hsig, Bool.false_eq_true, if_false, if_neg hgd, hpp, if_true]
  have hdecode : decodeBlock (blkVal cfg.szx k (decide (k * sizeN cfg.szx + ((r.body.drop (k * sizeN cfg.szx)).take (bufLen cfg.szx ms)).length ≠ r.body.length))) =
      .ok (cfg.szx, k, decide (k * sizeN cfg.szx + ((r.body.drop (k * sizeN cfg.szx)).take (bufLen cfg.szx ms)).length ≠ r.body.length)) :=
    decode_blkVal _ hs7 hnum
  have hfit : fitSZX (uploadBlock r cfg.szx ms k) .b1 cfg.szx = cfg.szx := by
    rw [fitSZX_some (v := blkVal cfg.szx k _) cfg.szx rfl hdecode]; omega
  have hlv : live (some ent) now = some ent := live_fresh _ _ hlive
  have hap : blockBase (uploadBlock r cfg.szx ms k) ent.msg (k * sizeN cfg.szx) = ent.msg := by
    have hne0 : ¬ (block0Restarts = true ∧ k * sizeN cfg.szx = 0) := by
      intro h; have := Nat.mul_pos hk0 hsz; omega
    unfold blockBase
    rw [if_neg hne0]
    rcases applyEtag_cases (uploadBlock r cfg.szx ms k) ent.msg with ⟨h, _⟩ | ⟨_, hne, _⟩
    · exact h
    · exact absurd (by rw [f3, hetag]) hne
  have hlen : ent.msg.body.length = k * sizeN cfg.szx := by rw [hheld, List.length_take]; omega
  have habs : absorb (uploadBlock r cfg.szx ms k) ent.msg (k * sizeN cfg.szx) =
      ({ ent.msg with body := r.body.take ((k + 1) * sizeN cfg.szx) }, true) := by
    unfold absorb
    simp only [hap, hlen, if_true]
    have : ent.msg.body ++ (uploadBlock r cfg.szx ms k).body = r.body.take ((k + 1) * sizeN cfg.szx) := by
      rw [hheld, Nat.add_mul, Nat.one_mul, List.take_add]
      simp [uploadBlock, hbuf]
    rw [this]
  constructor
  · intro hmore
    have hm : decide (k * sizeN cfg.szx + ((r.body.drop (k * sizeN cfg.szx)).take (bufLen cfg.szx ms)).length ≠ r.body.length) = true := by
      rw [hbuf, hpaylen]; simp; rw [Nat.add_mul] at hmore; omega
    have hblk : (uploadBlock r cfg.szx ms k).block .b1 = some (blkVal cfg.szx k true) := by
      show some (blkVal cfg.szx k (decide (k * sizeN cfg.szx + ((r.body.drop (k * sizeN cfg.szx)).take (bufLen cfg.szx ms)).length ≠ r.body.length))) = _
      rw [hm]
    have hpr : processReceived cfg ⟨none, some ent⟩ now none (uploadBlock r cfg.szx ms k) cfg.szx app .b1 =
        { sl := ⟨none, some ⟨{ ent.msg with body := r.body.take ((k + 1) * sizeN cfg.szx) }, ent.validUntil⟩⟩,
          w := some (uploadAck r.tok cfg.szx k) } := by
      unfold processReceived
      simp only [f1, if_neg htok, f2, if_neg hgd, hblk, decode_blkVal true hs7 hnum, hlv, habs]
      have hnb : ¬ (BT.b1 = BT.b2 ∧ (Option.map (fun x => x.msg) (none : Option Entry)).isNone = true) := by
        intro h; cases h.1
      rw [if_neg hnb]
      simp only [Bool.true_eq_false, and_false, if_false, getSzx_eq_min, Nat.min_self]
      unfold blockReply
      simp only []
      rw [encode_blkVal true hs7 hnum]
      rfl
    rw [hshape, hfit, hpr]
    unfold finishReceived
    simp only [Bool.false_eq_true, if_false]
    unfold startSendingS
    have hfits : fits startDirectIsLe (uploadAck r.tok cfg.szx k).body.length (sizeN cfg.szx) = true := by
      have hle : startDirectIsLe = false := rfl
      simp [fits, hle, uploadAck, continueMsg, Msg.setBlock, hsz]
    simp only [hfits, if_true, Bool.false_eq_true, if_false]
  · intro hlast
    have hm : decide (k * sizeN cfg.szx + ((r.body.drop (k * sizeN cfg.szx)).take (bufLen cfg.szx ms)).length ≠ r.body.length) = false := by
      rw [hbuf, hpaylen]; simp; rw [Nat.add_mul] at hlast; omega
    have hblk : (uploadBlock r cfg.szx ms k).block .b1 = some (blkVal cfg.szx k false) := by
      show some (blkVal cfg.szx k (decide (k * sizeN cfg.szx + ((r.body.drop (k * sizeN cfg.szx)).take (bufLen cfg.szx ms)).length ≠ r.body.length))) = _
      rw [hm]
    have htake : r.body.take ((k + 1) * sizeN cfg.szx) = r.body := List.take_of_length_le hlast
    have hpr : (processReceived cfg ⟨none, some ent⟩ now none (uploadBlock r cfg.szx ms k) cfg.szx app .b1).sl.rcv = none ∧
        (processReceived cfg ⟨none, some ent⟩ now none (uploadBlock r cfg.szx ms k) cfg.szx app .b1).delivered =
          [{ ent.msg with body := r.body, block1 := none, size1 := none }] := by
      unfold processReceived
      simp only [f1, if_neg htok, f2, if_neg hgd, hblk, decode_blkVal false hs7 hnum, hlv, habs]
      have hnb : ¬ (BT.b1 = BT.b2 ∧ (Option.map (fun x => x.msg) (none : Option Entry)).isNone = true) := by
        intro h; cases h.1
      rw [if_neg hnb]
      simp only [and_self, if_true, htake]
      simp [Msg.removeBlockSize]
    rw [hshape, hfit]
    have hfin := finishReceived_rcv cfg now (processReceived cfg ⟨none, some ent⟩ now none (uploadBlock r cfg.szx ms k) cfg.szx app .b1)
      cfg.szx (blkVal cfg.szx 0 true)
    simp only []
    split
    · exact ⟨by rw [hfin.1]; exact hpr.1, by simp only []; rw [hfin.2]; exact hpr.2⟩
    · exact ⟨by rw [hfin.1]; exact hpr.1, by simp only []; rw [hfin.2]; exact hpr.2⟩

/-- block `j` of the download of `resp` with exponent `s` (as `createSendingMessage` cuts it) -/
def downloadBlock (resp : Msg) (s ms j : Nat) : Msg :=
  { resp with size2 := some resp.body.length,
              block2 := some (blkVal s j (decide (j * sizeN s + ((resp.body.drop (j * sizeN s)).take (bufLen s ms)).length ≠ resp.body.length))),
              body := (resp.body.drop (j * sizeN s)).take (bufLen s ms) }

/-- the request for block `j` of the response, built from the request that was sent -/
def downloadReq (req : Msg) (s j : Nat) : Msg := (nextRequest req).setBlock .b2 (blkVal s j true)

/-- **responder round.** While the response is cached, the request for block `j` makes the responder emit block `j`;
    the cached response is dropped with the last block (for response codes), kept otherwise. -/
theorem responder_round (cfg : Cfg) (resp req : Msg) (exp now : Int) (rcv : Option Entry) (app : App) (j : Nat)
    (hs : cfg.szx < 7) (hreq : isRequest req.code = true) (hresp : isPostPut resp.code = false) (hrc : resp.code > codeDELETE)
    (htok : req.tok ≠ 0) (hlive : now ≤ exp)
    (hj : j * sizeN cfg.szx ≤ resp.body.length) (hlen : resp.body.length < 4294967296) (hnum : j < 2 ^ 20)
    (hne : 0 < resp.body.length) :
    handleS cfg ⟨some ⟨resp, exp⟩, rcv⟩ now (downloadReq req cfg.szx j) app =
      (if (j + 1) * sizeN cfg.szx < resp.body.length then ⟨some ⟨resp, exp⟩, rcv⟩ else ⟨none, rcv⟩,
       { reply := some (downloadBlock resp cfg.szx cfg.maxSize j) }) := by
  have hs7 : cfg.szx ≤ 7 := by omega
  have hsz := sizeN_pos hs7
  have hbuf : bufLen cfg.szx cfg.maxSize = sizeN cfg.szx := bufLen_small _ hs
  have hlv : live (some ⟨resp, exp⟩) now = some ⟨resp, exp⟩ := live_fresh _ _ hlive
  have hw : wantsToBeReceived (downloadReq req cfg.szx j) = false := by
    have h1 : (downloadReq req cfg.szx j).block1 = none := rfl
    have h2 : (downloadReq req cfg.szx j).block2 = some (blkVal cfg.szx j true) := rfl
    have h3 : (downloadReq req cfg.szx j).code = req.code := rfl
    unfold wantsToBeReceived
    simp [h1, h2, h3, hreq]
  have hsend : sendBT resp.code = .b2 := by simp [sendBT, hresp]
  have hoff : sendOffWith block1SkipsSent .b2 cfg.szx j (sizeN cfg.szx) = j * sizeN cfg.szx := by
    have : (BT.b2 == BT.b1) = false := by decide
    simp [sendOffWith, this]
  have hpaylen : ((resp.body.drop (j * sizeN cfg.szx)).take (sizeN cfg.szx)).length = min (sizeN cfg.szx) (resp.body.length - j * sizeN cfg.szx) := by
    simp
  have hcs : createSending resp cfg.szx cfg.maxSize (blkVal cfg.szx j true) =
      some (downloadBlock resp cfg.szx cfg.maxSize j,
        decide (j * sizeN cfg.szx + ((resp.body.drop (j * sizeN cfg.szx)).take (sizeN cfg.szx)).length ≠ resp.body.length)) := by
    unfold createSending createSendingWith
    rw [decode_blkVal true hs7 hnum]
    simp only [getSzx_eq_min, Nat.min_self, hsend, hbuf, hoff]
    unfold createSendingAt
    have e0 : ¬ (refusesBodylessSending = true ∧ resp.body = []) := bodyless_test_neg hne
    have e1 : ¬ (sizeN cfg.szx > 0 ∧ j * sizeN cfg.szx > resp.body.length) := by omega
    have e2 : ¬ resp.body.length ≥ 4294967296 := by omega
    rw [if_neg e0, if_neg e1, if_neg e2]
    simp only [Nat.mul_div_cancel _ hsz]
    rw [encode_blkVal _ hs7 hnum]
    simp [downloadBlock, Msg.setSize, Msg.setBlock, hbuf]
  have hblk : (downloadReq req cfg.szx j).block .b2 = some (blkVal cfg.szx j true) := rfl
  have htok' : (downloadReq req cfg.szx j).tok = req.tok := rfl
  unfold handleS
  simp only []
  split
  · rename_i h0; exact absurd h0 htok
  · split
    · rename_i hl; rw [hlv] at hl; cases hl
    · rename_i e hl
      rw [hlv] at hl
      injection hl with hl
      subst hl
      split
      · rename_i hwr; rw [hw] at hwr; cases hwr
      · have hc : continueSendingS cfg (some ⟨resp, exp⟩) (downloadReq req cfg.szx j) resp.code =
            some (downloadBlock resp cfg.szx cfg.maxSize j,
              decide (j * sizeN cfg.szx + ((resp.body.drop (j * sizeN cfg.szx)).take (sizeN cfg.szx)).length ≠ resp.body.length)) := by
          unfold continueSendingS
          rw [hsend, hblk]
          exact hcs
        split
        · rename_i hn; rw [hc] at hn; cases hn
        · rename_i sm more hsome
          rw [hc] at hsome
          injection hsome with hsome
          injection hsome with h1 h2
          subst h1
          by_cases hmore : (j + 1) * sizeN cfg.szx < resp.body.length
          · have hm : more = true := by
              rw [← h2, hpaylen]; simp; rw [Nat.add_mul] at hmore; omega
            have : ¬ (more = false ∧ resp.code > codeDELETE) := by rw [hm]; intro hh; cases hh.1
            rw [if_neg this, if_pos hmore]
          · have hm : more = false := by
              rw [← h2, hpaylen]; simp; rw [Nat.add_mul] at hmore; omega
            rw [if_pos ⟨hm, hrc⟩, if_neg hmore]

/-- **requester round.** The requester holds exactly the first `j` blocks of the response (an unexpired entry with the
    response's ETag) and still has its request cached; block `j` arrives.  If it does not end the body it is appended
    and block `j+1` is requested; if it ends the body the entry is removed and the application is handed the
    complete body, with the entry's options minus Block2/Size2. -/
theorem requester_round (cfg : Cfg) (resp req : Msg) (sexp : Int) (ent : Entry) (now : Int) (app : App) (ms j : Nat)
    (hs : cfg.szx < 7) (_hrq : isRequest req.code = true) (hnopp : isPostPut resp.code = false) (hnr : isRequest resp.code = false)
    (hnsig : isSignal resp.code = false) (hncont : resp.code ≠ codeContinue) (hb1 : resp.block1 = none)
    (htok : resp.tok ≠ 0) (hlive : now ≤ ent.validUntil) (hslive : now ≤ sexp)
    (hheld : ent.msg.body = resp.body.take (j * sizeN cfg.szx)) (hj : j * sizeN cfg.szx ≤ resp.body.length)
    (hetag : ent.msg.etag = resp.etag) (hnum : j + 1 < 2 ^ 20) (hj0 : 0 < j) :
    ((j + 1) * sizeN cfg.szx < resp.body.length →
      handleS cfg ⟨some ⟨req, sexp⟩, some ent⟩ now (downloadBlock resp cfg.szx ms j) app =
        (⟨some ⟨req, sexp⟩, some ⟨{ ent.msg with body := resp.body.take ((j + 1) * sizeN cfg.szx) }, ent.validUntil⟩⟩,
         { reply := some (downloadReq req cfg.szx (j + 1)) })) ∧
    (resp.body.length ≤ (j + 1) * sizeN cfg.szx →
      (handleS cfg ⟨some ⟨req, sexp⟩, some ent⟩ now (downloadBlock resp cfg.szx ms j) app).1.rcv = none ∧
      (handleS cfg ⟨some ⟨req, sexp⟩, some ent⟩ now (downloadBlock resp cfg.szx ms j) app).2.delivered =
        [{ ent.msg with body := resp.body, block2 := none, size2 := none }]) := by
  have hs7 : cfg.szx ≤ 7 := by omega
  have hsz := sizeN_pos hs7
  have hbuf : bufLen cfg.szx ms = sizeN cfg.szx := bufLen_small _ hs
  have f1 : (downloadBlock resp cfg.szx ms j).tok = resp.tok := rfl
  have f2 : (downloadBlock resp cfg.szx ms j).code = resp.code := rfl
  have f3 : (downloadBlock resp cfg.szx ms j).etag = resp.etag := rfl
  have f4 : (downloadBlock resp cfg.szx ms j).block1 = none := hb1
  have hgd : ¬ (resp.code = codeGET ∨ resp.code = codeDELETE) := by
    intro h
    have : isRequest resp.code = true := by rcases h with h | h <;> rw [h] <;> decide
    rw [hnr] at this; cases this
  have hpaylen : ((resp.body.drop (j * sizeN cfg.szx)).take (sizeN cfg.szx)).length = min (sizeN cfg.szx) (resp.body.length - j * sizeN cfg.szx) := by
    simp
  have hslv : live (some ⟨req, sexp⟩) now = some ⟨req, sexp⟩ := live_fresh _ _ hslive
  have hw : wantsToBeReceived (downloadBlock resp cfg.szx ms j) = true := by
    unfold wantsToBeReceived
    simp [f4, f2, hnr]
    exact hncont
  have hshape : handleS cfg ⟨some ⟨req, sexp⟩, some ent⟩ now (downloadBlock resp cfg.szx ms j) app =
      (let h := finishReceived cfg now (processReceived cfg ⟨some ⟨req, sexp⟩, some ent⟩ now none (downloadBlock resp cfg.szx ms j)
          (fitSZX (downloadBlock resp cfg.szx ms j) .b2 cfg.szx) app .b2) (fitSZX (downloadBlock resp cfg.szx ms j) .b2 cfg.szx) (blkVal cfg.szx 0 true)
       if h.failed then (h.sl, { reply := some (entityIncomplete resp.tok), delivered := h.delivered, err := true })
       else (h.sl, { reply := h.w, delivered := h.delivered })) := by
    unfold handleS
    simp only [f1, if_neg htok, hslv, hw, if_true]
    unfold handleReceived
    have he : encodeBlock cfg.szx 0 true = .ok (blkVal cfg.szx 0 true) := encode_blkVal true hs7 (by decide)
    simp only [he, f2, hnsig, Bool.false_eq_true, if_false, if_neg hgd, hnopp]
  have hdecode : decodeBlock (blkVal cfg.szx j (decide (j * sizeN cfg.szx + ((resp.body.drop (j * sizeN cfg.szx)).take (bufLen cfg.szx ms)).length ≠ resp.body.length))) =
      .ok (cfg.szx, j, decide (j * sizeN cfg.szx + ((resp.body.drop (j * sizeN cfg.szx)).take (bufLen cfg.szx ms)).length ≠ resp.body.length)) :=
    decode_blkVal _ hs7 (by omega)
  have hfit : fitSZX (downloadBlock resp cfg.szx ms j) .b2 cfg.szx = cfg.szx := by
    rw [fitSZX_some (v := blkVal cfg.szx j _) cfg.szx rfl hdecode]; omega
  have hlv : live (some ent) now = some ent := live_fresh _ _ hlive
  have hap : blockBase (downloadBlock resp cfg.szx ms j) ent.msg (j * sizeN cfg.szx) = ent.msg := by
    have hne0 : ¬ (block0Restarts = true ∧ j * sizeN cfg.szx = 0) := by
      intro h; have := Nat.mul_pos hj0 hsz; omega
    unfold blockBase
    rw [if_neg hne0]
    rcases applyEtag_cases (downloadBlock resp cfg.szx ms j) ent.msg with ⟨h, _⟩ | ⟨_, hne, _⟩
    · exact h
    · exact absurd (by rw [f3, hetag]) hne
  have hlen : ent.msg.body.length = j * sizeN cfg.szx := by rw [hheld, List.length_take]; omega
  have habs : absorb (downloadBlock resp cfg.szx ms j) ent.msg (j * sizeN cfg.szx) =
      ({ ent.msg with body := resp.body.take ((j + 1) * sizeN cfg.szx) }, true) := by
    unfold absorb
    simp only [hap, hlen, if_true]
    have : ent.msg.body ++ (downloadBlock resp cfg.szx ms j).body = resp.body.take ((j + 1) * sizeN cfg.szx) := by
      rw [hheld, Nat.add_mul, Nat.one_mul, List.take_add]
      simp [downloadBlock, hbuf]
    rw [this]
  have hnb : ¬ (True ∧ (Option.map (fun x => x.msg) (some (⟨req, sexp⟩ : Entry))).isNone = true) := by
    intro h; simp at h
  constructor
  · intro hmore
    have hm : decide (j * sizeN cfg.szx + ((resp.body.drop (j * sizeN cfg.szx)).take (bufLen cfg.szx ms)).length ≠ resp.body.length) = true := by
      rw [hbuf, hpaylen]; simp; rw [Nat.add_mul] at hmore; omega
    have hblk : (downloadBlock resp cfg.szx ms j).block .b2 = some (blkVal cfg.szx j true) := by
      show some (blkVal cfg.szx j (decide (j * sizeN cfg.szx + ((resp.body.drop (j * sizeN cfg.szx)).take (bufLen cfg.szx ms)).length ≠ resp.body.length))) = _
      rw [hm]
    have hheld' : (resp.body.take ((j + 1) * sizeN cfg.szx)).length / sizeN cfg.szx = j + 1 := by
      rw [List.length_take, Nat.min_eq_left (by omega), Nat.mul_div_cancel _ hsz]
    have hpr : processReceived cfg ⟨some ⟨req, sexp⟩, some ent⟩ now none (downloadBlock resp cfg.szx ms j) cfg.szx app .b2 =
        { sl := ⟨some ⟨req, sexp⟩, some ⟨{ ent.msg with body := resp.body.take ((j + 1) * sizeN cfg.szx) }, ent.validUntil⟩⟩,
          w := some (downloadReq req cfg.szx (j + 1)) } := by
      unfold processReceived
      simp only [f1, if_neg htok, f2, if_neg hgd, hblk, decode_blkVal true hs7 (by omega : j < 2 ^ 20), hlv, habs]
      rw [if_neg hnb]
      simp only [Bool.true_eq_false, and_false, if_false, getSzx_eq_min, Nat.min_self]
      unfold blockReply
      simp only [Option.map, hheld']
      have hnr0 : (refusesBodylessRestart && decide (j + 1 = 0) && isPostPut req.code) = false := by simp
      rw [hnr0]
      simp only [Bool.false_eq_true, if_false]
      rw [encode_blkVal true hs7 hnum]
      rfl
    rw [hshape, hfit, hpr]
    unfold finishReceived
    simp only [Bool.false_eq_true, if_false]
    unfold startSendingS
    have hfits : fits startDirectIsLe (downloadReq req cfg.szx (j + 1)).body.length (sizeN cfg.szx) = true := by
      have hle : startDirectIsLe = false := rfl
      simp [fits, hle, downloadReq, nextRequest, Msg.setBlock, hsz]
    simp only [hfits, if_true, Bool.false_eq_true, if_false]
  · intro hlast
    have hm : decide (j * sizeN cfg.szx + ((resp.body.drop (j * sizeN cfg.szx)).take (bufLen cfg.szx ms)).length ≠ resp.body.length) = false := by
      rw [hbuf, hpaylen]; simp; rw [Nat.add_mul] at hlast; omega
    have hblk : (downloadBlock resp cfg.szx ms j).block .b2 = some (blkVal cfg.szx j false) := by
      show some (blkVal cfg.szx j (decide (j * sizeN cfg.szx + ((resp.body.drop (j * sizeN cfg.szx)).take (bufLen cfg.szx ms)).length ≠ resp.body.length))) = _
      rw [hm]
    have htake : resp.body.take ((j + 1) * sizeN cfg.szx) = resp.body := List.take_of_length_le hlast
    have hpr : (processReceived cfg ⟨some ⟨req, sexp⟩, some ent⟩ now none (downloadBlock resp cfg.szx ms j) cfg.szx app .b2).sl.rcv = none ∧
        (processReceived cfg ⟨some ⟨req, sexp⟩, some ent⟩ now none (downloadBlock resp cfg.szx ms j) cfg.szx app .b2).delivered =
          [{ ent.msg with body := resp.body, block2 := none, size2 := none }] := by
      unfold processReceived
      simp only [f1, if_neg htok, f2, if_neg hgd, hblk, decode_blkVal false hs7 (by omega : j < 2 ^ 20), hlv, habs]
      rw [if_neg hnb]
      simp only [and_self, if_true, htake]
      simp [Msg.removeBlockSize]
    rw [hshape, hfit]
    have hfin := finishReceived_rcv cfg now (processReceived cfg ⟨some ⟨req, sexp⟩, some ent⟩ now none (downloadBlock resp cfg.szx ms j) cfg.szx app .b2)
      cfg.szx (blkVal cfg.szx 0 true)
    simp only []
    split
    · exact ⟨by rw [hfin.1]; exact hpr.1, by simp only []; rw [hfin.2]; exact hpr.2⟩
    · exact ⟨by rw [hfin.1]; exact hpr.1, by simp only []; rw [hfin.2]; exact hpr.2⟩



/-! ### (F10e) re-use of a token: the first block of the new body restarts the transfer -/

/-- whatever is held (`c0` is arbitrary): after a first block that is a slice of the body now supplied under the token,
    exactly that block is held, with the new body's options, code and ETag -/
theorem absorb_first_block_ok {R : Reg} (hfix : block0Restarts = true) {tok : Nat} {r c0 : Msg} {s : Supplied}
    (htok : c0.tok = tok) (hr : Matches R tok r s) (hs : SliceAt s.body 0 r.body) :
    (absorb r c0 0).2 = true ∧ Matches R tok (absorb r c0 0).1 s ∧ (absorb r c0 0).1.body = r.body ∧
    (absorb r c0 0).1.body <+: s.body ∧ (r.body.length = s.body.length → (absorb r c0 0).1.body = s.body) := by
  obtain ⟨h1, h2⟩ := absorb_first_block hfix r c0
  rw [h1, h2]
  obtain ⟨m1, m2, m3, _⟩ := hr
  have hp : r.body <+: s.body := by simpa using hs.2
  exact ⟨rfl, ⟨m1, m2, m3, htok⟩, rfl, hp, fun hl => slice_zero_complete hs hl⟩

end CoapVerif.Lemmas.Blockwise
