import CoapVerif.Go.Basic
import CoapVerif.Model.Blockwise
import CoapVerif.Props.C19
/-!
Helper lemmas for C04 (`Props/C04.lean`): block sizes, slices of a body, the sender's `createSendingMessage`,
the receiver's `processReceivedMessage` invariants.  Core Lean only.
-/
namespace CoapVerif.Lemmas.Blockwise
open CoapVerif CoapVerif.Model.Blockwise CoapVerif.Model.BlockOpt CoapVerif.Generated.BlockwiseXfer

/-! ### block sizes -/

theorem sizeN_cases {s : Nat} (h : s ≤ 7) : sizeN s = if s < 7 then 2 ^ (s + 4) else 1024 := by
  have : s = 0 ∨ s = 1 ∨ s = 2 ∨ s = 3 ∨ s = 4 ∨ s = 5 ∨ s = 6 ∨ s = 7 := by omega
  rcases this with h | h | h | h | h | h | h | h <;> subst h <;> decide

theorem sizeN_pos {s : Nat} (h : s ≤ 7) : 0 < sizeN s := by
  rw [sizeN_cases h]; split
  · exact Nat.pow_pos (by decide)
  · decide

theorem bufLen_small {s : Nat} (m : Nat) (h : s < 7) : bufLen s m = sizeN s := by
  unfold bufLen sizeN bufferSize
  simp [Generated.Blockwise.szxBERT, h]

theorem bufLen_bert (m : Nat) : bufLen 7 m = (m / 1024) * sizeN 7 := by
  have h := (Props.C19.bert_buffer_multiple m).1
  unfold bufLen
  rw [h]
  have : sizeN 7 = 1024 := by decide
  rw [this]
  omega

/-- the buffer of a block is a whole number of size units -/
theorem bufLen_mul {s : Nat} (m : Nat) (h : s ≤ 7) : ∃ k, bufLen s m = k * sizeN s := by
  by_cases h7 : s < 7
  · exact ⟨1, by rw [bufLen_small m h7]; omega⟩
  · have : s = 7 := by omega
    subst this
    exact ⟨m / 1024, bufLen_bert m⟩

theorem bufLen_pos_small {s : Nat} (m : Nat) (h : s < 7) : 0 < bufLen s m := by
  rw [bufLen_small m h]; exact sizeN_pos (by omega)

theorem getSzx_eq_min (a b : Nat) : getSzx a b = min a b := by
  unfold getSzx; split <;> omega

theorem getSzx_le_left (a b : Nat) : getSzx a b ≤ a := by rw [getSzx_eq_min]; omega
theorem getSzx_le_right (a b : Nat) : getSzx a b ≤ b := by rw [getSzx_eq_min]; omega

/-- a decoded block has a size exponent of at most 7 -/
theorem decode_szx_le {v s n : Nat} {m : Bool} (h : decodeBlock v = .ok (s, n, m)) : s ≤ 7 := by
  have hd := Props.C19.decode_eq_spec v
  rw [h] at hd
  unfold Spec.BlockOpt.decode at hd
  by_cases hv : v < 2 ^ 24
  · simp only [hv, if_true, Except.toOption] at hd
    injection hd with hd
    injection hd with h1 _
    omega
  · simp [hv, Except.toOption] at hd

/-! ### slices and prefixes of a body -/

/-- `pay` is the part of `body` that starts at offset `off` -/
def SliceAt (body : Bytes) (off : Nat) (pay : Bytes) : Prop := off ≤ body.length ∧ pay <+: body.drop off

theorem sliceAt_take_drop (body : Bytes) (off n : Nat) (h : off ≤ body.length) :
    SliceAt body off ((body.drop off).take n) := ⟨h, List.take_prefix _ _⟩

theorem prefix_eq_take {held body : Bytes} (h : held <+: body) : held = body.take held.length := by
  obtain ⟨t, rfl⟩ := h
  simp

/-- appending the slice that starts where the held prefix ends gives a longer prefix -/
theorem prefix_append_slice {held body pay : Bytes} (hp : held <+: body) (hs : SliceAt body held.length pay) :
    held ++ pay <+: body := by
  obtain ⟨_, rest, hr⟩ := hs
  have h1 : body = body.take held.length ++ body.drop held.length := (List.take_append_drop _ _).symm
  rw [← prefix_eq_take hp, ← hr] at h1
  exact ⟨rest, by rw [List.append_assoc]; exact h1.symm⟩

/-- … and the whole body when the slice ends it -/
theorem prefix_append_slice_complete {held body pay : Bytes} (hp : held <+: body) (hs : SliceAt body held.length pay)
    (he : held.length + pay.length = body.length) : held ++ pay = body := by
  obtain ⟨t, ht⟩ := prefix_append_slice hp hs
  have hl := congrArg List.length ht
  simp only [List.length_append] at hl
  have : t = [] := List.eq_nil_of_length_eq_zero (by omega)
  subst this
  simpa using ht

theorem slice_zero_complete {body pay : Bytes} (hs : SliceAt body 0 pay) (he : pay.length = body.length) : pay = body := by
  have := prefix_append_slice_complete (held := []) (List.nil_prefix) (by simpa using hs) (by simpa using he)
  simpa using this

/-! ### sender: `createSendingMessage` -/

theorem createSendingAt_spec {sm : Msg} {bt : BT} {szx off nb : Nat} {m : Msg} {more : Bool}
    (h : createSendingAt sm bt szx off nb = some (m, more)) :
    ∃ v, m = { (sm.setSize bt sm.body.length).setBlock bt v with body := (sm.body.drop off).take nb } ∧
      decodeBlock v = .ok (szx, off / sizeN szx, more) ∧
      more = decide (off + m.body.length ≠ sm.body.length) ∧
      (nb > 0 → off ≤ sm.body.length) ∧ sm.body.length < 4294967296 := by
  unfold createSendingAt at h
  split at h
  · cases h
  · rename_i hoff
    split at h
    · cases h
    · rename_i hlen
      simp only [] at h
      split at h
      · cases h
      · rename_i v he
        injection h with h
        injection h with h1 h2
        refine ⟨v, h1.symm, ?_, ?_, ?_, ?_⟩
        · have := Props.C19.decode_encode _ _ _ _ he
          rw [this, ← h2]
          rfl
        · subst h1; exact h2.symm
        · intro hpos
          apply Nat.le_of_not_gt
          intro hh
          exact hoff ⟨hpos, hh⟩
        · omega

/-! ### receiver: ETag handling and reassembly -/

theorem applyEtag_cases (r c : Msg) :
    (applyEtag r c = c ∧ (r.etag = c.etag ∨ r.etag = none ∨ c.etag = none)) ∨
    (applyEtag r c = { r with body := [], tok := c.tok, deadline := c.deadline } ∧ r.etag ≠ c.etag ∧
      r.etag ≠ none ∧ c.etag ≠ none) := by
  unfold applyEtag
  cases hr : r.etag <;> cases hc : c.etag
  · simp
  · simp
  · simp
  · rename_i a b
    by_cases hab : a = b
    · simp [hab]
    · simp [hab, restartTakesNewOptions]

/-- what an application supplied for transfer under a token and an ETag -/
structure Supplied where
  body : Bytes
  other : List (Nat × Bytes)
  code : Nat

/-- token → ETag → what is being sent to this endpoint under that token / ETag -/
abbrev Reg := Nat → Option Bytes → Option Supplied

/-- ETag discipline (RFC 7959 §2.4): representations under one token are told apart by their ETags; a
    representation without ETag is the only one of its token. -/
def Discipline (R : Reg) : Prop :=
  ∀ tok e s s', R tok none = some s → R tok (some e) = some s' → s = s'

def Matches (R : Reg) (tok : Nat) (m : Msg) (s : Supplied) : Prop :=
  R tok m.etag = some s ∧ m.other = s.other ∧ m.code = s.code ∧ m.tok = tok

/-- the bytes held for a token are a prefix of the body being sent under that token / ETag -/
def HeldOK (R : Reg) (tok : Nat) (c : Msg) : Prop := ∃ s, Matches R tok c s ∧ c.body <+: s.body

theorem matches_unique {R : Reg} (hd : Discipline R) {tok : Nat} {r c : Msg} {s s' : Supplied}
    (hr : Matches R tok r s) (hc : Matches R tok c s') (he : r.etag = c.etag ∨ r.etag = none ∨ c.etag = none) : s = s' := by
  obtain ⟨h1, _⟩ := hr
  obtain ⟨h2, _⟩ := hc
  rcases he with he | he | he
  · rw [he] at h1; rw [h1] at h2; exact Option.some.inj h2
  · rw [he] at h1
    cases hce : c.etag with
    | none => rw [hce] at h2; rw [h1] at h2; exact Option.some.inj h2
    | some e => rw [hce] at h2; exact hd tok e s s' h1 h2
  · rw [he] at h2
    cases hre : r.etag with
    | none => rw [hre] at h1; rw [h1] at h2; exact Option.some.inj h2
    | some e => rw [hre] at h1; exact (hd tok e s' s h2 h1).symm

/-- `absorb` keeps the invariant, and a block that ends the body completes it -/
theorem absorb_ok {R : Reg} (hd : Discipline R) {tok off : Nat} {r c0 : Msg} {s : Supplied}
    (hc : HeldOK R tok c0) (hr : Matches R tok r s)
    (hs : off = (applyEtag r c0).body.length → SliceAt s.body off r.body) :
    Matches R tok (absorb r c0 off).1 s ∧ (absorb r c0 off).1.body <+: s.body ∧
      ((absorb r c0 off).2 = true → off + r.body.length = s.body.length → (absorb r c0 off).1.body = s.body) := by
  obtain ⟨s', hm', hp'⟩ := hc
  have key : Matches R tok (applyEtag r c0) s ∧ (applyEtag r c0).body <+: s.body := by
    rcases applyEtag_cases r c0 with ⟨he, hcase⟩ | ⟨he, _, _, _⟩
    · have : s = s' := matches_unique hd hr hm' hcase
      subst this
      rw [he]; exact ⟨hm', hp'⟩
    · rw [he]
      obtain ⟨h1, h2, h3, _⟩ := hr
      exact ⟨⟨h1, h2, h3, hm'.2.2.2⟩, List.nil_prefix⟩
  unfold absorb
  simp only []
  split
  · rename_i hoff
    have hsl := hs hoff
    rw [hoff] at hsl
    refine ⟨?_, ?_, ?_⟩
    · exact key.1
    · exact prefix_append_slice key.2 hsl
    · intro _ hend
      exact prefix_append_slice_complete key.2 hsl (by omega)
  · exact ⟨key.1, key.2, by intro h; cases h⟩

/-- every data block of `r` is an aligned slice of what was supplied under its token and ETag, and a block
    without `more` ends that body -/
def GoodData (R : Reg) (bt : BT) (r : Msg) : Prop :=
  ∀ blk szx num more, r.block bt = some blk → decodeBlock blk = .ok (szx, num, more) →
    ∃ s, Matches R r.tok r s ∧ SliceAt s.body (num * sizeN szx) r.body ∧
      (more = false → num * sizeN szx + r.body.length = s.body.length)

/-- `d` is exactly what was supplied under its token and ETag -/
def Complete (R : Reg) (tok : Nat) (d : Msg) : Prop :=
  ∃ s, R tok d.etag = some s ∧ d.body = s.body ∧ d.other = s.other ∧ d.code = s.code ∧ d.tok = tok

theorem live_some {slot : Option Entry} {e : Entry} {now : Int} (h : live slot now = some e) : slot = some e := by
  unfold live at h
  cases slot with
  | none => simp at h
  | some x =>
    simp only at h
    split at h
    · cases h
    · exact h

theorem applyEtag_fresh (r : Msg) : (applyEtag r { r with body := [] }).body = [] := by
  rcases applyEtag_cases r { r with body := [] } with ⟨h, _⟩ | ⟨h, _⟩ <;> rw [h]

theorem removeBlockSize_fields (c : Msg) (bt : BT) :
    (c.removeBlockSize bt).etag = c.etag ∧ (c.removeBlockSize bt).body = c.body ∧ (c.removeBlockSize bt).other = c.other ∧
    (c.removeBlockSize bt).code = c.code ∧ (c.removeBlockSize bt).tok = c.tok := by
  cases bt <;> simp [Msg.removeBlockSize]

theorem processReceived_inv {R : Reg} (hd : Discipline R) (cfg : Cfg) (sl : Slots) (now : Int) (w : Option Msg) (r : Msg)
    (maxSzx : Nat) (app : App) (bt : BT)
    (hg : GoodData R bt r) (hinv : ∀ e, sl.rcv = some e → HeldOK R r.tok e.msg) :
    (∀ e, (processReceived cfg sl now w r maxSzx app bt).sl.rcv = some e → HeldOK R r.tok e.msg) ∧
    (∀ d ∈ (processReceived cfg sl now w r maxSzx app bt).delivered,
      (d = r ∧ (r.tok = 0 ∨ r.code = codeGET ∨ r.code = codeDELETE ∨ r.block bt = none)) ∨ Complete R r.tok d) := by
  unfold processReceived
  simp only []
  split
  · rename_i h0; exact ⟨hinv, by intro d hdm; simp at hdm; exact Or.inl ⟨hdm, Or.inl h0⟩⟩
  split
  · rename_i _ hgd
    refine ⟨hinv, ?_⟩
    intro d hdm; simp at hdm
    rcases hgd with h | h
    · exact Or.inl ⟨hdm, Or.inr (Or.inl h)⟩
    · exact Or.inl ⟨hdm, Or.inr (Or.inr (Or.inl h))⟩
  split
  · rename_i _ _ hb
    split
    · exact ⟨hinv, by intro d hdm; simp at hdm⟩
    · exact ⟨hinv, by intro d hdm; simp at hdm; exact Or.inl ⟨hdm, Or.inr (Or.inr (Or.inr hb))⟩⟩
  · rename_i _ _ blk hb
    split
    · exact ⟨hinv, by intro d hdm; simp at hdm⟩
    · rename_i szx0 num more hdec
      obtain ⟨s, hm, hsl, hend⟩ := hg blk szx0 num more hb hdec
      have hs7 : szx0 ≤ 7 := decode_szx_le hdec
      split
      · exact ⟨hinv, by intro d hdm; simp at hdm⟩
      · split
        · -- nothing held
          split
          · rename_i hmore
            split
            · exact ⟨hinv, by intro d hdm; simp at hdm⟩
            · rename_i hnum
              refine ⟨hinv, ?_⟩
              intro d hdm; simp at hdm
              have hn0 : num = 0 := by
                have : ¬ num > 0 := fun hp => hnum ⟨rfl, hp⟩
                omega
              subst hn0
              refine Or.inr ⟨s, ?_⟩
              subst hdm
              have hlen := hend hmore
              simp at hlen hsl
              exact ⟨hm.1, slice_zero_complete hsl hlen, hm.2.1, hm.2.2.1, hm.2.2.2⟩
          · -- first block of a new entry
            have hfresh : HeldOK R r.tok { r with body := [] } := ⟨s, ⟨hm.1, hm.2.1, hm.2.2.1, hm.2.2.2⟩, List.nil_prefix⟩
            have hab := absorb_ok hd (off := num * sizeN (getSzx szx0 maxSzx)) hfresh hm (by
              intro hoff
              rw [applyEtag_fresh] at hoff
              have hp : 0 < sizeN (getSzx szx0 maxSzx) := sizeN_pos (Nat.le_trans (getSzx_le_left _ _) hs7)
              have hn0 : num = 0 := by
                rcases Nat.eq_zero_or_pos num with h | h
                · exact h
                · have := Nat.mul_pos h hp; simp at hoff; omega
              subst hn0
              simpa using hsl)
            split
            · exact ⟨by intro e he; simp at he, by intro d hdm; simp at hdm⟩
            · refine ⟨?_, by intro d hdm; simp at hdm⟩
              intro e he
              simp at he
              subst he
              exact ⟨s, hab.1, hab.2.1⟩
        · -- an entry is held
          rename_i ent hlive
          have hheld := hinv ent (live_some hlive)
          have hab := absorb_ok hd (off := num * sizeN szx0) hheld hm (fun _ => hsl)
          split
          · rename_i hdone
            refine ⟨by intro e he; simp at he, ?_⟩
            intro d hdm; simp at hdm
            subst hdm
            have hfull := hab.2.2 hdone.1 (hend hdone.2)
            obtain ⟨f1, f2, f3, f4, f5⟩ := removeBlockSize_fields (absorb r ent.msg (num * sizeN szx0)).1 bt
            refine Or.inr ⟨s, ?_, ?_, ?_, ?_, ?_⟩
            · rw [f1]; exact hab.1.1
            · rw [f2]; exact hfull
            · rw [f3]; exact hab.1.2.1
            · rw [f4]; exact hab.1.2.2.1
            · rw [f5]; exact hab.1.2.2.2
          · split
            · exact ⟨by intro e he; simp at he, by intro d hdm; simp at hdm⟩
            · refine ⟨?_, by intro d hdm; simp at hdm⟩
              intro e he
              simp at he
              subst he
              exact ⟨s, hab.1, hab.2.1⟩

/-! ### counting: deliveries need first blocks -/

/-- 1 if bytes are held in the slot, else 0 -/
def heldNe (slot : Option Entry) : Nat :=
  match slot with
  | some e => if e.msg.body = [] then 0 else 1
  | none => 0

/-- 1 if `r` can start a body in direction `bt`: it carries no such block option, or block number 0 -/
def isStartBlock (r : Msg) (bt : BT) : Nat :=
  match r.block bt with
  | none => 1
  | some v =>
    match decodeBlock v with
    | .ok (_, num, _) => if num = 0 then 1 else 0
    | .error _ => 0

theorem absorb_pot (r c0 : Msg) (off : Nat) :
    ((absorb r c0 off).2 = true → c0.body ≠ [] ∨ off = 0) ∧
    ((absorb r c0 off).1.body ≠ [] → c0.body ≠ [] ∨ off = 0) := by
  have hb : (applyEtag r c0).body = c0.body ∨ (applyEtag r c0).body = [] := by
    rcases applyEtag_cases r c0 with ⟨h, _⟩ | ⟨h, _⟩ <;> rw [h] <;> simp
  unfold absorb
  simp only []
  split
  · rename_i hoff
    constructor
    · intro _
      rcases hb with h | h
      · by_cases hc : c0.body = []
        · right; rw [hoff, h, hc]; rfl
        · left; exact hc
      · right; rw [hoff, h]; rfl
    · intro _
      rcases hb with h | h
      · by_cases hc : c0.body = []
        · right; rw [hoff, h, hc]; rfl
        · left; exact hc
      · right; rw [hoff, h]; rfl
  · constructor
    · intro h; cases h
    · intro hne
      rcases hb with h | h
      · left; rw [← h]; exact hne
      · exact absurd h hne

theorem heldNe_le_one (s : Option Entry) : heldNe s ≤ 1 := by
  unfold heldNe; split
  · split <;> omega
  · omega

theorem heldNe_some_of_ne {e : Entry} (h : e.msg.body ≠ []) : heldNe (some e) = 1 := by
  simp [heldNe, h]

theorem heldNe_live (slot : Option Entry) (now : Int) (e : Entry) (h : live slot now = some e) :
    heldNe slot = if e.msg.body = [] then 0 else 1 := by
  rw [live_some h]; rfl

theorem mul_sizeN_eq_zero {num s : Nat} (hs : s ≤ 7) (h : num * sizeN s = 0) : num = 0 := by
  rcases Nat.eq_zero_or_pos num with h0 | h0
  · exact h0
  · have := Nat.mul_pos h0 (sizeN_pos hs); omega

theorem processReceived_once (cfg : Cfg) (sl : Slots) (now : Int) (w : Option Msg) (r : Msg)
    (maxSzx : Nat) (app : App) (bt : BT) (htok : r.tok ≠ 0) (hcode : ¬ (r.code = codeGET ∨ r.code = codeDELETE)) :
    (processReceived cfg sl now w r maxSzx app bt).delivered.length +
        heldNe (processReceived cfg sl now w r maxSzx app bt).sl.rcv ≤ heldNe sl.rcv + isStartBlock r bt := by
  unfold processReceived isStartBlock
  simp only []
  rw [if_neg htok, if_neg hcode]
  cases hb : r.block bt with
  | none =>
    simp only []
    split
    · simp
    · simp; omega
  | some blk =>
    simp only []
    cases hdec : decodeBlock blk with
    | error e => simp
    | ok t =>
      obtain ⟨szx0, num, more⟩ := t
      have hs7 : szx0 ≤ 7 := decode_szx_le hdec
      simp only []
      split
      · simp
      · split
        · rename_i hlive
          split
          · split
            · simp
            · rename_i hnum
              have hn0 : num = 0 := by
                have : ¬ num > 0 := fun hp => hnum ⟨rfl, hp⟩
                omega
              simp [hn0]; omega
          · -- new entry
            have hp := (absorb_pot r { r with body := [] } (num * sizeN (getSzx szx0 maxSzx))).2
            split
            · simp [heldNe]
            · simp only [List.length_nil, Nat.zero_add]
              by_cases hne : (absorb r { r with body := [] } (num * sizeN (getSzx szx0 maxSzx))).1.body = []
              · simp [heldNe, hne]
              · rcases hp hne with h | h
                · simp at h
                · have hn0 := mul_sizeN_eq_zero (Nat.le_trans (getSzx_le_left _ _) hs7) h
                  rw [if_pos hn0]
                  exact Nat.le_trans (heldNe_le_one _) (by omega)
        · rename_i ent hlive
          have hh := heldNe_live sl.rcv now ent hlive
          have hp := absorb_pot r ent.msg (num * sizeN szx0)
          split
          · rename_i hdone
            simp only [List.length_singleton]
            have h0 : heldNe (none : Option Entry) = 0 := rfl
            rw [h0]
            rcases hp.1 hdone.1 with h | h
            · rw [hh]; simp [h]
            · have hn0 := mul_sizeN_eq_zero hs7 h
              simp [hn0]
          · split
            · simp [heldNe]
            · simp only [List.length_nil, Nat.zero_add]
              by_cases hne : (absorb r ent.msg (num * sizeN szx0)).1.body = []
              · simp [heldNe, hne]
              · rcases hp.2 hne with h | h
                · rw [hh]; simp [h]
                  exact Nat.le_trans (heldNe_le_one _) (by omega)
                · have hn0 := mul_sizeN_eq_zero hs7 h
                  rw [if_pos hn0]
                  exact Nat.le_trans (heldNe_le_one _) (by omega)

/-! ### `Handle` on one token's slots -/

/-- the block option that describes the payload of a message with this code, as `handleReceivedMessage` dispatches -/
def dataBT (code : Nat) : Option BT :=
  if isSignal code = true ∨ code = codeGET ∨ code = codeDELETE then none
  else if isPostPut code = true then some .b1 else some .b2

/-- 1 if the arrival of `r` can start a body: not a data block at all, or block number 0 -/
def startOf (r : Msg) : Nat :=
  match dataBT r.code with
  | none => 1
  | some bt => isStartBlock r bt

def GoodMsg (R : Reg) (r : Msg) : Prop := ∀ bt, dataBT r.code = some bt → GoodData R bt r

/-- `r` is handed on as it is because it carries no data block of its direction -/
def NoData (r : Msg) : Prop := r.tok = 0 ∨ dataBT r.code = none ∨ ∃ bt, dataBT r.code = some bt ∧ r.block bt = none

theorem finishReceived_rcv (cfg : Cfg) (now : Int) (h : HR) (mx blk : Nat) :
    (finishReceived cfg now h mx blk).sl.rcv = h.sl.rcv ∧ (finishReceived cfg now h mx blk).delivered = h.delivered := by
  unfold finishReceived
  split
  · exact ⟨rfl, rfl⟩
  · split <;> exact ⟨rfl, rfl⟩

/-- the receive path, seen from the receiving slot: either a pass-through, or `processReceived` in the direction of the code -/
theorem handleReceived_shape (cfg : Cfg) (sl : Slots) (now : Int) (r : Msg) (app : App) :
    ((handleReceived cfg sl now r app).sl.rcv = sl.rcv ∧ (handleReceived cfg sl now r app).delivered = [] ) ∨
    (dataBT r.code = none ∧ (handleReceived cfg sl now r app).sl.rcv = sl.rcv ∧ (handleReceived cfg sl now r app).delivered = [r]) ∨
    (∃ bt mx, dataBT r.code = some bt ∧
      (handleReceived cfg sl now r app).sl.rcv = (processReceived cfg sl now none r mx app bt).sl.rcv ∧
      (handleReceived cfg sl now r app).delivered = (processReceived cfg sl now none r mx app bt).delivered) := by
  unfold handleReceived
  split
  · exact Or.inl ⟨rfl, rfl⟩
  · split
    · rename_i hsig
      exact Or.inr (Or.inl ⟨by simp [dataBT, hsig], rfl, rfl⟩)
    · rename_i hsig
      split
      · rename_i hgd
        obtain ⟨h1, h2⟩ := finishReceived_rcv cfg now { sl := sl, w := next app none r, delivered := [r] }
          (fitSZX r .b2 cfg.szx) (match r.block2, next app none r with
            | some b, some m => if m.code = codeContent then b else _
            | _, _ => _)
        refine Or.inr (Or.inl ⟨?_, ?_, ?_⟩)
        · unfold dataBT; rw [if_pos (Or.inr hgd)]
        · exact h1
        · exact h2
      · rename_i hgd
        have hnone : ¬ (isSignal r.code = true ∨ r.code = codeGET ∨ r.code = codeDELETE) := by
          intro h; rcases h with h | h
          · exact hsig h
          · exact hgd h
        split
        · rename_i hpp
          obtain ⟨h1, h2⟩ := finishReceived_rcv cfg now (processReceived cfg sl now none r (fitSZX r .b1 cfg.szx) app .b1) (fitSZX r .b1 cfg.szx) _
          exact Or.inr (Or.inr ⟨.b1, _, by unfold dataBT; rw [if_neg hnone, if_pos hpp], h1, h2⟩)
        · rename_i hpp
          obtain ⟨h1, h2⟩ := finishReceived_rcv cfg now (processReceived cfg sl now none r (fitSZX r .b2 cfg.szx) app .b2) (fitSZX r .b2 cfg.szx) _
          exact Or.inr (Or.inr ⟨.b2, _, by unfold dataBT; rw [if_neg hnone, if_neg hpp], h1, h2⟩)

/-- what `Handle` does to the receiving slot and which messages it hands on -/
theorem handleS_shape (cfg : Cfg) (sl : Slots) (now : Int) (r : Msg) (app : App) :
    ((handleS cfg sl now r app).1.rcv = sl.rcv ∧ (handleS cfg sl now r app).2.delivered = []) ∨
    ((handleS cfg sl now r app).1.rcv = (handleReceived cfg sl now r app).sl.rcv ∧
     (handleS cfg sl now r app).2.delivered = (handleReceived cfg sl now r app).delivered) := by
  have hrecv : ∀ (x : Slots × Out), x = (let h := handleReceived cfg sl now r app
      if h.failed then (h.sl, { reply := some (entityIncomplete r.tok), delivered := h.delivered, err := true })
      else (h.sl, { reply := h.w, delivered := h.delivered })) →
      x.1.rcv = (handleReceived cfg sl now r app).sl.rcv ∧ x.2.delivered = (handleReceived cfg sl now r app).delivered := by
    intro x hx
    subst hx
    simp only []
    split <;> exact ⟨rfl, rfl⟩
  unfold handleS
  simp only []
  split
  · exact Or.inr (hrecv _ rfl)
  · split
    · exact Or.inr (hrecv _ rfl)
    · split
      · exact Or.inr (hrecv _ rfl)
      · split
        · exact Or.inl ⟨rfl, rfl⟩
        · refine Or.inl ⟨?_, rfl⟩
          split <;> rfl

theorem dataBT_not_getdelete {code : Nat} {bt : BT} (h : dataBT code = some bt) : ¬ (code = codeGET ∨ code = codeDELETE) := by
  intro hc
  unfold dataBT at h
  rw [if_pos (Or.inr hc)] at h
  cases h

theorem handleS_once (cfg : Cfg) (sl : Slots) (now : Int) (r : Msg) (app : App) (htok : r.tok ≠ 0) :
    (handleS cfg sl now r app).2.delivered.length + heldNe (handleS cfg sl now r app).1.rcv ≤ heldNe sl.rcv + startOf r := by
  rcases handleS_shape cfg sl now r app with ⟨h1, h2⟩ | ⟨h1, h2⟩
  · rw [h1, h2]; simp
  · rw [h1, h2]
    rcases handleReceived_shape cfg sl now r app with ⟨g1, g2⟩ | ⟨gd, g1, g2⟩ | ⟨bt, mx, gd, g1, g2⟩
    · rw [g1, g2]; simp
    · rw [g1, g2]; simp [startOf, gd]; omega
    · rw [g1, g2]
      have := processReceived_once cfg sl now none r mx app bt htok (dataBT_not_getdelete gd)
      simpa [startOf, gd] using this

theorem handleS_inv {R : Reg} (hd : Discipline R) (cfg : Cfg) (sl : Slots) (now : Int) (r : Msg) (app : App)
    (hg : GoodMsg R r) (hinv : ∀ e, sl.rcv = some e → HeldOK R r.tok e.msg) :
    (∀ e, (handleS cfg sl now r app).1.rcv = some e → HeldOK R r.tok e.msg) ∧
    (∀ d ∈ (handleS cfg sl now r app).2.delivered, (d = r ∧ NoData r) ∨ Complete R r.tok d) := by
  rcases handleS_shape cfg sl now r app with ⟨h1, h2⟩ | ⟨h1, h2⟩
  · rw [h1, h2]; exact ⟨hinv, by intro d hdm; simp at hdm⟩
  · rw [h1, h2]
    rcases handleReceived_shape cfg sl now r app with ⟨g1, g2⟩ | ⟨gd, g1, g2⟩ | ⟨bt, mx, gd, g1, g2⟩
    · rw [g1, g2]; exact ⟨hinv, by intro d hdm; simp at hdm⟩
    · rw [g1, g2]
      refine ⟨hinv, ?_⟩
      intro d hdm; simp at hdm
      exact Or.inl ⟨hdm, Or.inr (Or.inl gd)⟩
    · rw [g1, g2]
      obtain ⟨p1, p2⟩ := processReceived_inv hd cfg sl now none r mx app bt (hg bt gd) hinv
      refine ⟨p1, ?_⟩
      intro d hdm
      rcases p2 d hdm with ⟨e1, e2⟩ | hc
      · refine Or.inl ⟨e1, ?_⟩
        rcases e2 with e | e | e | e
        · exact Or.inl e
        · exact absurd (Or.inl e) (dataBT_not_getdelete gd)
        · exact absurd (Or.inr e) (dataBT_not_getdelete gd)
        · exact Or.inr (Or.inr ⟨bt, gd, e⟩)
      · exact Or.inr hc

/-! ### the sender's blocks are aligned slices -/

theorem sendOff_aligned (bt : BT) {szx : Nat} (num ms : Nat) (h : szx ≤ 7) :
    sendOff bt szx num (bufLen szx ms) / sizeN szx * sizeN szx = sendOff bt szx num (bufLen szx ms) := by
  obtain ⟨k, hk⟩ := bufLen_mul ms h
  have hp := sizeN_pos h
  unfold sendOff
  rw [hk]
  split
  · have : num * sizeN szx + k * sizeN szx = (num + k) * sizeN szx := by rw [Nat.add_mul]
    rw [this, Nat.mul_div_cancel _ hp]
  · rw [Nat.add_zero, Nat.mul_div_cancel _ hp]

theorem bufLen_pos {szx ms : Nat} (h7 : szx ≤ 7) (h : szx < 7 ∨ 1024 ≤ ms) : 0 < bufLen szx ms := by
  by_cases hs : szx < 7
  · exact bufLen_pos_small ms hs
  · have : szx = 7 := by omega
    subst this
    rw [bufLen_bert]
    have : sizeN 7 = 1024 := by decide
    rw [this]
    rcases h with h | h
    · omega
    · have : 1 ≤ ms / 1024 := (Nat.le_div_iff_mul_le (by decide)).mpr (by omega)
      omega

theorem setBlock_block (m : Msg) (bt : BT) (v : Nat) : (m.setBlock bt v).block bt = some v := by
  cases bt <;> rfl

/-- everything `createSendingMessage` can emit for a message is an aligned slice of that message's body, flagged
    `more` exactly when it does not end the body, with the message's code, token, ETag and other options -/
theorem createSending_slice {sm : Msg} {mx ms blk : Nat} {m : Msg} {more : Bool}
    (hms : mx < 7 ∨ 1024 ≤ ms) (h : createSending sm mx ms blk = some (m, more)) :
    ∃ v szx num, m.block (sendBT sm.code) = some v ∧ decodeBlock v = .ok (szx, num, more) ∧ szx ≤ mx ∧
      SliceAt sm.body (num * sizeN szx) m.body ∧ m.body.length ≤ bufLen szx ms ∧
      (more = false ↔ num * sizeN szx + m.body.length = sm.body.length) ∧
      m.code = sm.code ∧ m.tok = sm.tok ∧ m.etag = sm.etag ∧ m.other = sm.other := by
  unfold createSending at h
  split at h
  · cases h
  · rename_i s0 n0 m0 hdec
    simp only [] at h
    have hs7 : getSzx s0 mx ≤ 7 := Nat.le_trans (getSzx_le_left _ _) (decode_szx_le hdec)
    obtain ⟨v, hm, hdv, hmore, hoff, _⟩ := createSendingAt_spec h
    have hal := sendOff_aligned (sendBT sm.code) n0 ms hs7
    have hpos : 0 < bufLen (getSzx s0 mx) ms := by
      apply bufLen_pos hs7
      by_cases h7 : getSzx s0 mx < 7
      · exact Or.inl h7
      · right
        rcases hms with h' | h'
        · have := getSzx_le_right s0 mx; omega
        · exact h'
    refine ⟨v, getSzx s0 mx, _, ?_, hdv, getSzx_le_right _ _, ?_, ?_, ?_, ?_, ?_, ?_, ?_⟩
    · rw [hm]; cases hbt : sendBT sm.code <;> simp [Msg.setBlock, Msg.block]
    · rw [hal, hm]
      exact sliceAt_take_drop _ _ _ (hoff hpos)
    · rw [hm]; simp; omega
    · rw [hal, hmore]; simp
    · rw [hm]; cases hbt : sendBT sm.code <;> simp [Msg.setBlock, Msg.setSize]
    · rw [hm]; cases hbt : sendBT sm.code <;> simp [Msg.setBlock, Msg.setSize]
    · rw [hm]; cases hbt : sendBT sm.code <;> simp [Msg.setBlock, Msg.setSize]
    · rw [hm]; cases hbt : sendBT sm.code <;> simp [Msg.setBlock, Msg.setSize]

/-! ### endpoint level -/

theorem put_same (c : Cache) (k : Nat) (v : Option Entry) : (c.put k v) k = v := by simp [Cache.put]
theorem put_other (c : Cache) {k k' : Nat} (v : Option Entry) (h : k' ≠ k) : (c.put k v) k' = c k' := by simp [Cache.put, h]

theorem put_comm (c : Cache) {k1 k2 : Nat} (v1 v2 : Option Entry) (h : k1 ≠ k2) :
    (c.put k1 v1).put k2 v2 = (c.put k2 v2).put k1 v1 := by
  funext k
  simp only [Cache.put]
  by_cases h1 : k = k1
  · by_cases h2 : k = k2
    · exact absurd (h1.symm.trans h2) h
    · subst h1; simp [h2]
  · by_cases h2 : k = k2
    · subst h2; simp [h1]
    · simp [h1, h2]

theorem ep_put_slots_same (ep : Endpoint) (k : Nat) (s : Slots) : (ep.put k s).slots k = s := by
  simp [Endpoint.put, Endpoint.slots, put_same]
theorem ep_put_slots_other (ep : Endpoint) {k k' : Nat} (s : Slots) (h : k' ≠ k) : (ep.put k s).slots k' = ep.slots k' := by
  simp [Endpoint.put, Endpoint.slots, put_other _ _ h]
theorem ep_put_cfg (ep : Endpoint) (k : Nat) (s : Slots) : (ep.put k s).toCfg = ep.toCfg := rfl

theorem ep_put_comm (ep : Endpoint) {k1 k2 : Nat} (s1 s2 : Slots) (h : k1 ≠ k2) :
    (ep.put k1 s1).put k2 s2 = (ep.put k2 s2).put k1 s1 := by
  simp only [Endpoint.put]
  rw [put_comm ep.sending _ _ h, put_comm ep.receiving _ _ h]

/-- every receiving entry holds a prefix of the body being sent under its token / ETag -/
def EpInv (R : Reg) (ep : Endpoint) : Prop := ∀ tok e, ep.receiving tok = some e → HeldOK R tok e.msg

theorem handle_inv {R : Reg} (hd : Discipline R) (ep : Endpoint) (now : Int) (r : Msg) (app : App)
    (hg : GoodMsg R r) (hinv : EpInv R ep) :
    EpInv R (handle ep now r app).1 ∧
    (∀ d ∈ (handle ep now r app).2.delivered, (d = r ∧ NoData r) ∨ Complete R r.tok d) := by
  have hs := handleS_inv hd ep.toCfg (ep.slots r.tok) now r app hg (fun e he => hinv r.tok e he)
  unfold handle
  simp only []
  refine ⟨?_, hs.2⟩
  intro tok e he
  by_cases ht : tok = r.tok
  · subst ht
    simp only [Endpoint.put, put_same] at he
    exact hs.1 e he
  · simp only [Endpoint.put, put_other _ _ ht] at he
    exact hinv tok e he

theorem sweep_inv {R : Reg} (ep : Endpoint) (now : Int) (hinv : EpInv R ep) : EpInv R (sweep ep now) := by
  intro tok e he
  simp only [sweep, sweepSlots, Endpoint.slots] at he
  cases hr : ep.receiving tok with
  | none => rw [hr] at he; simp at he
  | some x =>
    rw [hr] at he
    simp only at he
    split at he
    · simp at he
    · simp at he; subst he; exact hinv tok x hr

theorem step_inv {R : Reg} (hd : Discipline R) (app : App) (ep : Endpoint) (a : Arrival)
    (hg : ∀ now r, a = .msg now r → GoodMsg R r) (hinv : EpInv R ep) :
    EpInv R (ep.step app a).1 ∧
    (∀ d ∈ (ep.step app a).2, (∃ now, a = .msg now d ∧ NoData d) ∨ Complete R d.tok d) := by
  cases a with
  | msg now r =>
    obtain ⟨h1, h2⟩ := handle_inv hd ep now r app (hg now r rfl) hinv
    refine ⟨h1, ?_⟩
    intro d hdm
    rcases h2 d hdm with ⟨e1, e2⟩ | hc
    · subst e1; exact Or.inl ⟨now, rfl, e2⟩
    · right
      obtain ⟨s, c1, c2, c3, c4, c5⟩ := hc
      exact ⟨s, by rw [c5]; exact c1, c2, c3, c4, rfl⟩
  | sweep now => exact ⟨sweep_inv ep now hinv, by intro d hdm; simp [Endpoint.step] at hdm⟩

/-- induction over an arbitrary sequence of arrivals (every fault sequence of the network is one) -/
theorem run_inv {R : Reg} (hd : Discipline R) (app : App) (as : List Arrival) :
    ∀ (ep : Endpoint), (∀ now r, Arrival.msg now r ∈ as → GoodMsg R r) → EpInv R ep →
    EpInv R (Endpoint.run app ep as).1 ∧
    (∀ d ∈ (Endpoint.run app ep as).2, (∃ now, Arrival.msg now d ∈ as ∧ NoData d) ∨ Complete R d.tok d) := by
  induction as with
  | nil => intro ep _ hinv; exact ⟨hinv, by intro d hdm; simp [Endpoint.run] at hdm⟩
  | cons a as ih =>
    intro ep hg hinv
    obtain ⟨s1, s2⟩ := step_inv hd app ep a (fun now r h => hg now r (by rw [h]; exact List.mem_cons_self)) hinv
    obtain ⟨r1, r2⟩ := ih (ep.step app a).1 (fun now r h => hg now r (List.mem_cons_of_mem _ h)) s1
    refine ⟨r1, ?_⟩
    intro d hdm
    simp only [Endpoint.run, List.mem_append] at hdm
    rcases hdm with hdm | hdm
    · rcases s2 d hdm with ⟨now, e, nd⟩ | hc
      · exact Or.inl ⟨now, by rw [e]; exact List.mem_cons_self, nd⟩
      · exact Or.inr hc
    · rcases r2 d hdm with ⟨now, e, nd⟩ | hc
      · exact Or.inl ⟨now, List.mem_cons_of_mem _ e, nd⟩
      · exact Or.inr hc

/-- number of messages handed to the application while handling arrivals that carry token `tok` -/
def deliveredFor (app : App) (tok : Nat) : Endpoint → List Arrival → Nat
  | _, [] => 0
  | ep, a :: as =>
    (match a with
     | .msg _ r => if r.tok = tok then (ep.step app a).2.length else 0
     | .sweep _ => 0) + deliveredFor app tok (ep.step app a).1 as

/-- number of arrivals with token `tok` that can start a body (no data block, or block number 0) -/
def startsFor (tok : Nat) : List Arrival → Nat
  | [] => 0
  | .msg _ r :: as => (if r.tok = tok then startOf r else 0) + startsFor tok as
  | .sweep _ :: as => startsFor tok as

theorem heldNe_sweep (ep : Endpoint) (now : Int) (tok : Nat) :
    heldNe ((sweep ep now).receiving tok) ≤ heldNe (ep.receiving tok) := by
  simp only [sweep, sweepSlots, Endpoint.slots]
  cases hr : ep.receiving tok with
  | none => simp [heldNe]
  | some x =>
    simp only
    split
    · simp [heldNe]
    · exact Nat.le_refl _

theorem run_once (app : App) (tok : Nat) (htok : tok ≠ 0) (as : List Arrival) :
    ∀ ep : Endpoint, deliveredFor app tok ep as + heldNe ((Endpoint.run app ep as).1.receiving tok) ≤
      heldNe (ep.receiving tok) + startsFor tok as := by
  induction as with
  | nil => intro ep; simp [deliveredFor, startsFor, Endpoint.run]
  | cons a as ih =>
    intro ep
    have h := ih (ep.step app a).1
    cases a with
    | sweep now =>
      have hs := heldNe_sweep ep now tok
      simp only [deliveredFor, startsFor, Endpoint.run, Endpoint.step] at h ⊢
      omega
    | msg now r =>
      simp only [deliveredFor, startsFor, Endpoint.run]
      by_cases ht : r.tok = tok
      · have ho := handleS_once ep.toCfg (ep.slots r.tok) now r app (by rw [ht]; exact htok)
        have e1 : ((ep.step app (.msg now r)).1).receiving tok = (handleS ep.toCfg (ep.slots r.tok) now r app).1.rcv := by
          simp only [Endpoint.step, handle, Endpoint.put]
          rw [← ht, put_same]
        have e2 : (ep.step app (.msg now r)).2 = (handleS ep.toCfg (ep.slots r.tok) now r app).2.delivered := by
          simp only [Endpoint.step, handle]
        have e3 : (ep.slots r.tok).rcv = ep.receiving tok := by rw [← ht]; rfl
        rw [if_pos ht, if_pos ht, e2]
        rw [e1] at h
        rw [e3] at ho
        omega
      · have e1 : ((ep.step app (.msg now r)).1).receiving tok = ep.receiving tok := by
          simp only [Endpoint.step, handle, Endpoint.put]
          exact put_other _ _ (fun h => ht h.symm)
        rw [if_neg ht, if_neg ht]
        rw [e1] at h
        omega

/-- `Handle` calls for different tokens commute: same final caches, same replies, deliveries and errors -/
theorem handle_comm (ep : Endpoint) (t1 t2 : Int) (r1 r2 : Msg) (app : App) (h : r1.tok ≠ r2.tok) :
    (handle (handle ep t1 r1 app).1 t2 r2 app).1 = (handle (handle ep t2 r2 app).1 t1 r1 app).1 ∧
    (handle (handle ep t1 r1 app).1 t2 r2 app).2 = (handle ep t2 r2 app).2 ∧
    (handle (handle ep t2 r2 app).1 t1 r1 app).2 = (handle ep t1 r1 app).2 := by
  simp only [handle]
  rw [ep_put_slots_other _ _ (fun e => h e.symm), ep_put_slots_other _ _ h, ep_put_cfg, ep_put_cfg]
  exact ⟨(ep_put_comm ep _ _ h), rfl, rfl⟩

/-! ### negotiation, ETag restart, expiry -/

theorem fitSZX_none {r : Msg} {bt : BT} (mx : Nat) (h : r.block bt = none) : fitSZX r bt mx = mx := by
  unfold fitSZX; rw [h]

/-- the negotiated exponent is the smaller of the own maximum and the one the peer's block carries -/
theorem fitSZX_some {r : Msg} {bt : BT} {v s n : Nat} {m : Bool} (mx : Nat) (h : r.block bt = some v)
    (hd : decodeBlock v = .ok (s, n, m)) : fitSZX r bt mx = min mx s := by
  unfold fitSZX; rw [h]; simp only [hd]
  split <;> omega

theorem fitSZX_le (r : Msg) (bt : BT) (mx : Nat) : fitSZX r bt mx ≤ mx := by
  unfold fitSZX
  split
  · exact Nat.le_refl _
  · split
    · exact Nat.le_refl _
    · split <;> omega

theorem createSending_szx {sm : Msg} {mx ms blk s0 n0 : Nat} {m0 : Bool} {m : Msg} {more : Bool}
    (hdec : decodeBlock blk = .ok (s0, n0, m0)) (h : createSending sm mx ms blk = some (m, more)) :
    ∃ v num, m.block (sendBT sm.code) = some v ∧ decodeBlock v = .ok (min s0 mx, num, more) := by
  unfold createSending at h
  rw [hdec] at h
  simp only [] at h
  obtain ⟨v, hm, hdv, _⟩ := createSendingAt_spec h
  refine ⟨v, _, ?_, by rw [← getSzx_eq_min]; exact hdv⟩
  rw [hm]; cases hbt : sendBT sm.code <;> simp [Msg.setBlock, Msg.block]

theorem blockReply_szx {bt : BT} {sent : Option Msg} {tok szx num held : Nat} {more : Bool} {m : Msg}
    (h : blockReply bt sent tok szx num held more = some m) :
    ∃ v n, m.block bt = some v ∧ decodeBlock v = .ok (szx, n, more) := by
  unfold blockReply at h
  split at h
  · simp only [] at h
    split at h
    · cases h
    · split at h
      · cases h
      · rename_i v he
        injection h with h
        exact ⟨v, _, by rw [← h]; rfl, Props.C19.decode_encode _ _ _ _ he⟩
  · split at h
    · cases h
    · rename_i v he
      injection h with h
      exact ⟨v, _, by rw [← h]; exact setBlock_block _ _ _, Props.C19.decode_encode _ _ _ _ he⟩

/-- an ETag different from the held one discards what is held: afterwards only this block's payload is held, and
    only if it is the first block -/
theorem absorb_restart {r c0 : Msg} {a b : Bytes} (hr : r.etag = some a) (hc : c0.etag = some b) (hab : a ≠ b) (off : Nat) :
    (absorb r c0 off).1.etag = some a ∧ (absorb r c0 off).1.other = r.other ∧ (absorb r c0 off).1.code = r.code ∧
    (absorb r c0 off).1.body = (if off = 0 then r.body else []) := by
  have he : applyEtag r c0 = { r with body := [], tok := c0.tok, deadline := c0.deadline } := by
    rcases applyEtag_cases r c0 with ⟨_, hcase⟩ | ⟨h, _⟩
    · rw [hr, hc] at hcase
      rcases hcase with h | h | h
      · exact absurd (Option.some.inj h) hab
      · cases h
      · cases h
    · exact h
  unfold absorb
  simp only [he]
  by_cases h0 : off = 0
  · subst h0; simp [hr]
  · have : ¬ off = ([] : Bytes).length := by simpa using h0
    simp [h0, hr]

/-- the same ETag (or none on both sides) keeps what is held -/
theorem absorb_same {r c0 : Msg} (h : r.etag = c0.etag) (off : Nat) :
    (absorb r c0 off).1.body = if off = c0.body.length then c0.body ++ r.body else c0.body := by
  have he : applyEtag r c0 = c0 := by
    rcases applyEtag_cases r c0 with ⟨h', _⟩ | ⟨_, hne, _⟩
    · exact h'
    · exact absurd h hne
  unfold absorb
  simp only [he]
  split <;> rfl

theorem live_expired (e : Entry) (now : Int) (h : now > e.validUntil) : live (some e) now = none := by
  simp [live, Entry.expired, h]

theorem live_fresh (e : Entry) (now : Int) (h : now ≤ e.validUntil) : live (some e) now = some e := by
  have : ¬ now > e.validUntil := by omega
  simp [live, Entry.expired, this]

/-- a sweep after an entry's deadline removes it (a receiving entry takes the sending entry of its key with it) -/
theorem sweep_removes (ep : Endpoint) (now : Int) (k : Nat) :
    (∀ e, ep.receiving k = some e → now > e.validUntil → (sweep ep now).receiving k = none ∧ (sweep ep now).sending k = none) ∧
    (∀ e, ep.sending k = some e → now > e.validUntil → (sweep ep now).sending k = none) := by
  constructor
  · intro e he hexp
    simp [sweep, sweepSlots, Endpoint.slots, he, Entry.expired, hexp]
  · intro e he hexp
    simp only [sweep, sweepSlots, Endpoint.slots, he]
    cases hr : ep.receiving k with
    | none => simp [live_expired e now hexp]
    | some x =>
      simp only
      split
      · rfl
      · simp [live_expired e now hexp]

/-! ### the two observations of DESIGN §6 (negative results) -/

theorem postput_dataBT {c : Nat} (h : isPostPut c = true) : dataBT c = some .b1 := by
  have hc : c = codePOST ∨ c = codePUT := by simpa [isPostPut] using h
  rcases hc with hc | hc <;> subst hc <;> decide

theorem postput_sendBT {c : Nat} (h : isPostPut c = true) : sendBT c = .b1 := by simp [sendBT, h]

/-- O1: a POST/PUT sent block by block through `createSendingMessage` never produces block number 0:
    the "already sent" offset is added even for the first call (`startSendingMessage`, one-way `WriteMessage`). -/
theorem createSending_block1_not_first {sm : Msg} {mx ms blk : Nat} {m : Msg} {more : Bool}
    (hpp : isPostPut sm.code = true) (hms : mx < 7 ∨ 1024 ≤ ms) (h : createSending sm mx ms blk = some (m, more)) :
    startOf m = 0 := by
  have hskip : block1SkipsSent = true := rfl
  unfold createSending at h
  split at h
  · cases h
  · rename_i s0 n0 m0 hdec
    simp only [] at h
    have hs7 : getSzx s0 mx ≤ 7 := Nat.le_trans (getSzx_le_left _ _) (decode_szx_le hdec)
    obtain ⟨v, hm, hdv, _⟩ := createSendingAt_spec h
    have hpos : 0 < bufLen (getSzx s0 mx) ms := by
      apply bufLen_pos hs7
      by_cases h7 : getSzx s0 mx < 7
      · exact Or.inl h7
      · right
        rcases hms with h' | h'
        · have := getSzx_le_right s0 mx; omega
        · exact h'
    obtain ⟨k, hk⟩ := bufLen_mul ms hs7
    have hsz := sizeN_pos hs7
    have hk1 : 1 ≤ k := by
      rcases Nat.eq_zero_or_pos k with h0 | h0
      · rw [h0] at hk; omega
      · exact h0
    have hnum : 1 ≤ sendOff (sendBT sm.code) (getSzx s0 mx) n0 (bufLen (getSzx s0 mx) ms) / sizeN (getSzx s0 mx) := by
      rw [postput_sendBT hpp]
      unfold sendOff
      simp only [hskip, beq_self_eq_true, Bool.and_self, if_true, hk]
      have : n0 * sizeN (getSzx s0 mx) + k * sizeN (getSzx s0 mx) = (n0 + k) * sizeN (getSzx s0 mx) := by rw [Nat.add_mul]
      rw [this, Nat.mul_div_cancel _ hsz]
      omega
    have hcode : m.code = sm.code := by
      rw [hm]; cases hbt : sendBT sm.code <;> simp [Msg.setBlock, Msg.setSize]
    have hblk : m.block .b1 = some v := by
      rw [hm, postput_sendBT hpp]; rfl
    unfold startOf
    rw [hcode, postput_dataBT hpp]
    simp only [isStartBlock, hblk, hdv]
    have : ¬ sendOff (sendBT sm.code) (getSzx s0 mx) n0 (bufLen (getSzx s0 mx) ms) / sizeN (getSzx s0 mx) = 0 := by omega
    simp [this]

/-- … so a receiver that is fed only such blocks — in any order, any number of times — never hands a body on. -/
theorem no_first_block_no_delivery (app : App) (tok : Nat) (htok : tok ≠ 0) (ep : Endpoint) (as : List Arrival)
    (hempty : ep.receiving tok = none) (h : ∀ now r, Arrival.msg now r ∈ as → r.tok = tok → startOf r = 0) :
    deliveredFor app tok ep as = 0 := by
  have hs : startsFor tok as = 0 := by
    induction as with
    | nil => rfl
    | cons a as ih =>
      cases a with
      | sweep now => simp only [startsFor]; exact ih (fun now r hm => h now r (List.mem_cons_of_mem _ hm))
      | msg now r =>
        simp only [startsFor]
        rw [ih (fun now r hm => h now r (List.mem_cons_of_mem _ hm))]
        by_cases ht : r.tok = tok
        · rw [if_pos ht, h now r List.mem_cons_self ht]
        · rw [if_neg ht]
  have := run_once app tok htok as ep
  rw [hempty, hs] at this
  simp [heldNe] at this
  omega

/-- O2: with BERT, `Do` flags its first block `more` although a body of 1024 < length < buffer size is in it
    completely; the block the peer's 2.31 (exponent 7, block 0) asks for lies behind the end of the body and
    `createSendingMessage` fails. -/
theorem bert_first_block_holds_everything (cfg : Cfg) (snd : Option Entry) (now : Int) (r : Msg)
    (hszx : cfg.szx = 7) (htok : r.tok ≠ 0) (hpp : isPostPut r.code = true) (hfree : live snd now = none)
    (hmax : cfg.maxSize < 4294967296) (h1 : 1024 < r.body.length) (h2 : r.body.length < bufLen 7 cfg.maxSize) :
    ∃ m, (doStartS cfg snd now r).2 = some m ∧ m.body = r.body ∧ m.block1 = some 15 ∧
      (∀ blk n0 m0, decodeBlock blk = .ok (7, n0, m0) → createSending r cfg.szx cfg.maxSize blk = none) := by
  have hsz : sizeN 7 = 1024 := by decide
  have hlen : r.body.length < 4294967296 := by
    have := (Props.C19.bert_buffer_multiple cfg.maxSize).2.1
    unfold bufLen at h2
    omega
  refine ⟨{ r with size1 := some r.body.length, block1 := some 15, body := r.body.take (bufLen 7 cfg.maxSize) }, ?_, ?_, rfl, ?_⟩
  · unfold doStartS
    have hle : doDirectIsLe = true := rfl
    simp only [hszx, storeIfAbsent, hfree, fits, hle, hsz]
    have e1 : ¬ (7 > 7) := by decide
    have e2 : ¬ r.body.length ≤ 1024 := by omega
    have e3 : ¬ r.body.length ≥ 4294967296 := by omega
    have e4 : encodeBlock 7 0 true = .ok 15 := by decide
    simp [e1, htok, e2, hpp, e3, e4]
  · simp only []
    exact List.take_of_length_le (Nat.le_of_lt h2)
  · intro blk n0 m0 hdec
    unfold createSending
    simp only [hdec, hszx]
    have hg : getSzx 7 7 = 7 := by decide
    have hskip : block1SkipsSent = true := rfl
    unfold createSendingAt sendOff
    simp only [hg, postput_sendBT hpp, hskip, beq_self_eq_true, Bool.and_self, if_true]
    have : bufLen 7 cfg.maxSize > 0 ∧ n0 * sizeN 7 + bufLen 7 cfg.maxSize > r.body.length := by omega
    simp [this]

/-! ### a small instance used by the non-vacuity examples of `Props/C04.lean` -/

def exBody : Bytes := (List.range 40).map UInt8.ofNat
/-- block `num` (16-byte blocks) of a POST of `exBody` under token 7 -/
def exBlk (num : Nat) (more : Bool) : Msg :=
  { code := 2, tok := 7, block1 := some (num * 16 + (if more then 8 else 0)), size1 := some 40, other := [(11, [99])],
    body := (exBody.drop (num * 16)).take 16 }
def exEp : Endpoint := { szx := 0, maxSize := 64, expiration := 1000 }
def exR : Reg := fun tok e => if tok = 7 ∧ e = none then some ⟨exBody, [(11, [99])], 2⟩ else none

end CoapVerif.Lemmas.Blockwise
