import CoapVerif.Go.Basic
import CoapVerif.Model.Blockwise
import CoapVerif.Model.BlockwiseObserve
import CoapVerif.Model.BlockwiseObserveRun
import CoapVerif.Lemmas.Blockwise
import CoapVerif.Lemmas.BlockwiseObserve
/-!
Conservativity of the observe-aware model over the plain one: where nothing of the Observe branch is involved,
`handleO` (`Model/BlockwiseObserve.lean`, what the driver executes) IS `handle` (`Model/Blockwise.lean`, what the theorems of
`Props/C04.lean` are about) — on the same `Endpoint` type, so the "state embedding" is the identity.

The two differ in exactly these places (each one a line of the source), and each gets its exact side condition:

* `getSentRequest` falls back to the observation table when the sending slot of the token is EMPTY.  It changes the result
  only then: `TableSilent` = "the sending slot is occupied or the table has no entry for the token".
* `sendMessage.Remove(message.Observe)` on every follow-up request: changes the follow-up only if the paired request carries
  an Observe option: `SentPlain`.
* the `bytes.Equal` deletion and the slot `startSendingMessage` works on (token of the RESPONSE = token of the message
  handed on): differ from the plain model only if the held reassembly message carries another token than its key: `HeldTok`
  (part of `EpInv`; false exactly under the fresh keys of the observe branch).
* an observe response that goes out block-wise is not stored: differs only if the application answers with an observe
  response: `AppPlain`.
* the observe branch itself: `isObserveResponse r = false`.
-/
namespace CoapVerif.Lemmas.BlockwiseConserv
open CoapVerif CoapVerif.Model.Blockwise CoapVerif.Model.BlockOpt CoapVerif.Generated.BlockwiseXfer
open CoapVerif.Model.BlockwiseObserve CoapVerif.Lemmas.Blockwise CoapVerif.Lemmas.BlockwiseObserve

/-! ### small facts -/

theorem removeObserve_id {m : Msg} (h : hasObserve m = false) : removeObserve m = m := by
  unfold removeObserve
  have : m.other.filter (fun o => o.1 != optObserve) = m.other := by
    rw [List.filter_eq_self]
    intro a ha
    unfold hasObserve at h
    rw [List.any_eq_false] at h
    have := h a ha
    simp only [bne_iff_ne, ne_eq]
    intro hc
    exact this (by simp [hc])
  rw [this]

theorem not_obsResp_of_not_has {m : Msg} (h : hasObserve m = false) : isObserveResponse m = false := by
  unfold isObserveResponse; rw [h]; rfl

theorem createSendingWith_code_other {skip : Bool} {sm : Msg} {mx ms blk : Nat} {m : Msg} {more : Bool}
    (h : createSendingWith skip sm mx ms blk = some (m, more)) : m.code = sm.code ∧ m.other = sm.other := by
  unfold createSendingWith at h
  split at h
  · cases h
  · simp only [] at h
    obtain ⟨v, hm, _⟩ := createSendingAt_spec h
    rw [hm]; cases hbt : sendBT sm.code <;> simp [Msg.setBlock, Msg.setSize]

/-- `startSendingMessage` with and without the "observe response is not stored" exit agree on everything that is not an
    observe response -/
theorem startSendingSO_eq (cfg : Cfg) (snd : Option Entry) (now : Int) (w : Option Msg) (mx blk : Nat)
    (hw : ∀ m, w = some m → isObserveResponse m = false) :
    startSendingSO cfg snd now w mx blk = startSendingS cfg snd now w mx blk := by
  unfold startSendingSO
  cases w with
  | none => rfl
  | some m =>
    simp only []
    split
    · rename_i hf; unfold startSendingS; simp only [hf, if_true]
    · rename_i hf
      split
      · rename_i hc; unfold startSendingS; simp only [hf, hc]; rfl
      · rename_i sm more hc
        obtain ⟨h1, h2⟩ := createSendingWith_code_other (skip := startSkipsSent) hc
        have : isObserveResponse sm = false := by
          have := hw m rfl
          unfold isObserveResponse hasObserve at this ⊢
          rw [h1, h2]; exact this
        simp only [this, Bool.false_eq_true, if_false]

/-- `processReceivedMessage` reads the sending slot only through the message stored there (`getSentRequest`: code, options,
    context) — never its expiry — and never writes it -/
theorem processReceived_snd_congr (cfg : Cfg) (s1 s2 rcv : Option Entry) (now : Int) (w : Option Msg) (r : Msg) (mx : Nat)
    (app : App) (bt : BT) (h : s1.map (·.msg) = s2.map (·.msg)) :
    processReceived cfg ⟨s1, rcv⟩ now w r mx app bt =
      { processReceived cfg ⟨s2, rcv⟩ now w r mx app bt with
        sl := ⟨s1, (processReceived cfg ⟨s2, rcv⟩ now w r mx app bt).sl.rcv⟩ } := by
  unfold processReceived
  simp only [h]
  split
  · rfl
  split
  · rfl
  split
  · split <;> rfl
  split
  · rfl
  split
  · rfl
  split
  · split
    · split <;> rfl
    · split <;> rfl
  · split
    · rfl
    · split <;> rfl

theorem next_tok {app : App} {d m : Msg} (h : next app none d = some m) : m.tok = d.tok := by
  unfold next at h
  split at h
  · injection h with h; rw [← h]
  · cases h

theorem absorb_tok (r c0 : Msg) (off : Nat) : (absorb r c0 off).1.tok = c0.tok := by
  have hb : (blockBase r c0 off).tok = c0.tok := by
    rcases blockBase_cases r c0 off with ⟨h, _⟩ | h <;> rw [h]
  unfold absorb
  simp only []
  split
  · exact hb
  · exact hb

theorem blockReply_tok {bt : BT} {sent : Option Msg} {tok szx num held : Nat} {more : Bool} {m : Msg}
    (hs : ∀ s, sent = some s → s.tok = tok) (h : blockReply bt sent tok szx num held more = some m) : m.tok = tok := by
  unfold blockReply at h
  split at h
  · rename_i s
    simp only [] at h
    split at h
    · cases h
    · split at h
      · cases h
      · injection h with h; rw [← h]; exact hs s rfl
  · split at h
    · cases h
    · injection h with h; rw [← h]; cases bt <;> rfl

/-- tokens of what `processReceivedMessage` hands on and answers with: the token of the message being handled — provided the
    held reassembly message and the paired request carry the token of their key (always so in the plain model; under the fresh
    key of the observe branch the held message carries the ORIGINAL token, which is what the `bytes.Equal` line looks at) -/
theorem processReceived_toks (cfg : Cfg) (snd rcv : Option Entry) (now : Int) (r : Msg) (mx : Nat) (app : App) (bt : BT)
    (hheld : ∀ e, rcv = some e → e.msg.tok = r.tok) (hsent : ∀ e, snd = some e → e.msg.tok = r.tok) :
    (∀ d ∈ (processReceived cfg ⟨snd, rcv⟩ now none r mx app bt).delivered, d.tok = r.tok) ∧
    (∀ m, (processReceived cfg ⟨snd, rcv⟩ now none r mx app bt).w = some m → m.tok = r.tok) := by
  have hs' : ∀ s, snd.map (·.msg) = some s → s.tok = r.tok := by
    intro s hs
    cases snd with
    | none => cases hs
    | some e => injection hs with hs; rw [← hs]; exact hsent e rfl
  have pass : (∀ d ∈ [r], d.tok = r.tok) ∧ (∀ m, next app none r = some m → m.tok = r.tok) :=
    ⟨by intro d hd; simp at hd; rw [hd], fun m hm => next_tok hm⟩
  have fail : (∀ d ∈ ([] : List Msg), d.tok = r.tok) ∧ (∀ m, (none : Option Msg) = some m → m.tok = r.tok) :=
    ⟨(by intro d hd; cases hd), (by intro m hm; cases hm)⟩
  unfold processReceived
  simp only []
  split
  · exact pass
  split
  · exact pass
  split
  · split
    · exact fail
    · exact pass
  split
  · exact fail
  split
  · exact fail
  split
  · split
    · split
      · exact fail
      · exact pass
    · split
      · exact fail
      · rename_i m hm
        exact ⟨fail.1, by intro m' hm'; injection hm' with hm'; rw [← hm']; exact blockReply_tok hs' hm⟩
  · rename_i ent hlive
    have hent := hheld ent (live_some hlive)
    split
    · have ht : ∀ off, ((absorb r ent.msg off).1.removeBlockSize bt).tok = r.tok := by
        intro off
        rw [(removeBlockSize_fields _ bt).2.2.2.2, absorb_tok]; exact hent
      refine ⟨?_, ?_⟩
      · intro d hd; simp at hd; rw [hd]; exact ht _
      · intro m hm; rw [next_tok hm]; exact ht _
    · split
      · exact fail
      · rename_i m hm
        exact ⟨fail.1, by intro m' hm'; injection hm' with hm'; rw [← hm']; exact blockReply_tok hs' hm⟩

/-! ### the step: `handleO` = `handle` -/

/-- the application never answers with an observe response (an observe response that is cut into blocks is not stored by
    `startSendingMessage`: the one place where the SENDER side of the two models differs) -/
def AppPlain (app : App) : Prop := ∀ d x, app d = some x → isObserveResponse x = false

/-- the exact side conditions on the state, for the token of the message being handled -/
structure StepPlain (ep : Endpoint) (outside : Outside) (tok : Nat) : Prop where
  /-- `getSentRequest` does not reach the observation table, or finds nothing there -/
  table : ep.sending tok = none → outside tok = none
  /-- the paired request has no Observe option to remove, and carries the token of its key -/
  sent : ∀ e, ep.sending tok = some e → hasObserve e.msg = false ∧ e.msg.tok = tok
  /-- the held reassembly message carries the token of its key (false under the fresh keys of the observe branch) -/
  held : ∀ e, ep.receiving tok = some e → e.msg.tok = tok

/-- a result of the plain receive path, written back under key `k` -/
def mkO (ep : Endpoint) (k : Nat) (h : HR) : ResO :=
  { ep := ep.put k h.sl, w := h.w, delivered := h.delivered, failed := h.failed }

theorem put_slots_id (ep : Endpoint) (k : Nat) : ep.put k (ep.slots k) = ep := by
  unfold Endpoint.put Endpoint.slots
  simp only [put_self]

theorem ep_ext {a b : Endpoint} (h1 : a.toCfg = b.toCfg) (h2 : a.sending = b.sending) (h3 : a.receiving = b.receiving) : a = b := by
  cases a; cases b
  simp only at h1 h2 h3
  subst h1 h2 h3
  rfl

theorem put_then_snd (ep : Endpoint) (k : Nat) (sl : Slots) (x : Option Entry) :
    ({ toCfg := ep.toCfg, sending := (ep.put k sl).sending.put k x, receiving := (ep.put k sl).receiving } : Endpoint) =
      ep.put k ⟨x, sl.rcv⟩ := by
  refine ep_ext rfl ?_ rfl
  funext k'
  simp only [Endpoint.put, Cache.put]
  split <;> rfl

theorem processReceived_sl (cfg : Cfg) (s rcv : Option Entry) (now : Int) (w : Option Msg) (r : Msg) (mx : Nat)
    (app : App) (bt : BT) :
    (processReceived cfg ⟨s, rcv⟩ now w r mx app bt).sl = ⟨s, (processReceived cfg ⟨s, rcv⟩ now w r mx app bt).sl.rcv⟩ :=
  congrArg HR.sl (processReceived_snd_congr cfg s s rcv now w r mx app bt rfl)

theorem writeBack_plain (ep : Endpoint) (key : Nat) (b : Bool) (h : HR) (hd : ∀ d ∈ h.delivered, d.tok = key) :
    writeBack ep key b h = ep.put key ⟨ep.sending key, h.sl.rcv⟩ := by
  unfold writeBack
  have : h.delivered.any (fun d => d.tok != key) = false := by
    rw [List.any_eq_false]
    intro d hdm
    simp [hd d hdm]
  simp only [this, Bool.and_false, Bool.false_eq_true, if_false]

theorem processReceivedO_eq (ep : Endpoint) (outside : Outside) (fresh : Nat) (now : Int) (r : Msg) (mx : Nat) (app : App)
    (bt : BT) (hno : bt = .b1 ∨ isObserveResponse r = false) (hp : StepPlain ep outside r.tok) :
    processReceivedO ep outside fresh now none r mx app bt =
      mkO ep r.tok (processReceived ep.toCfg (ep.slots r.tok) now none r mx app bt) := by
  have hcond : ¬ (reachesSent r bt = true ∧ bt = .b2 ∧ isObserveResponse r = true) := by
    rintro ⟨_, h2, h3⟩
    rcases hno with h | h
    · rw [h] at h2; cases h2
    · rw [h] at h3; cases h3
  unfold processReceivedO mkO
  cases hs : ep.sending r.tok with
  | none =>
    have hsl : ep.slots r.tok = ⟨none, ep.receiving r.tok⟩ := by unfold Endpoint.slots; rw [hs]
    have htoks := processReceived_toks ep.toCfg none (ep.receiving r.tok) now r mx app bt hp.held (by intro e he; cases he)
    simp only [getSentRequest, hs, hp.table hs, hsl]
    rw [writeBack_plain _ _ _ _ htoks.1, hs]
    rw [← processReceived_sl]
  | some e =>
    obtain ⟨hob, htk⟩ := hp.sent e hs
    have hsl : ep.slots r.tok = ⟨some e, ep.receiving r.tok⟩ := by unfold Endpoint.slots; rw [hs]
    have htoks := processReceived_toks ep.toCfg (some e) (ep.receiving r.tok) now r mx app bt hp.held
      (by intro e' he; injection he with he; rw [← he]; exact htk)
    have hcg := processReceived_snd_congr ep.toCfg (some ⟨e.msg, 0⟩) (some e) (ep.receiving r.tok) now none r mx app bt rfl
    simp only [getSentRequest, hs, if_neg hcond, removeObserve_id hob, hsl]
    rw [hcg]
    rw [writeBack_plain _ _ _ _ (by exact htoks.1), hs]
    simp only []
    rw [← processReceived_sl]

theorem finishReceivedO_mk (ep : Endpoint) (k : Nat) (now : Int) (h : HR) (mx blk : Nat)
    (hw : ∀ m, h.w = some m → m.tok = k ∧ isObserveResponse m = false) :
    finishReceivedO now (mkO ep k h) mx blk = mkO ep k (finishReceived ep.toCfg now h mx blk) := by
  obtain ⟨sl, w, d, f⟩ := h
  unfold finishReceivedO finishReceived
  cases f with
  | true => rfl
  | false =>
    simp only [mkO, Bool.false_eq_true, if_false]
    cases w with
    | none => rfl
    | some m =>
      obtain ⟨htk, hob⟩ := hw m rfl
      have hsnd : (ep.put k sl).sending m.tok = sl.snd := by
        rw [htk]; simp [Endpoint.put, put_same]
      have hcfg : (ep.put k sl).toCfg = ep.toCfg := rfl
      simp only [hsnd, hcfg]
      rw [startSendingSO_eq _ _ _ _ _ _ (by intro m' hm'; injection hm' with hm'; rw [← hm']; exact hob)]
      cases hst : startSendingS ep.toCfg sl.snd now (some m) mx blk with
      | error u => rfl
      | ok p =>
        obtain ⟨snd, w'⟩ := p
        simp only [htk]
        exact congrArg (fun e => ({ ep := e, w := w', delivered := d } : ResO)) (put_then_snd ep k sl snd)

/-- what `processReceivedMessage` leaves in the response writer: the application's answer, a 2.31, or the follow-up request -/
theorem processReceived_w_cases (P : Msg → Prop) (cfg : Cfg) (snd rcv : Option Entry) (now : Int) (r : Msg) (mx : Nat)
    (app : App) (bt : BT)
    (hnext : ∀ d m, next app none d = some m → P m)
    (hcont : ∀ bt v, P ((continueMsg r.tok).setBlock bt v))
    (hreq : ∀ e v, snd = some e → P ((nextRequest e.msg).setBlock .b2 v)) :
    ∀ m, (processReceived cfg ⟨snd, rcv⟩ now none r mx app bt).w = some m → P m := by
  have hbr : ∀ {szx num held : Nat} {more : Bool} {m : Msg},
      blockReply bt (snd.map (·.msg)) r.tok szx num held more = some m → P m := by
    intro szx num held more m h
    unfold blockReply at h
    split at h
    · rename_i s hs
      simp only [] at h
      split at h
      · cases h
      · split at h
        · cases h
        · injection h with h; rw [← h]
          cases snd with
          | none => cases hs
          | some e => injection hs with hs; rw [← hs]; exact hreq e _ rfl
    · split at h
      · cases h
      · injection h with h; rw [← h]; exact hcont _ _
  have pass : ∀ m, next app none r = some m → P m := fun m hm => hnext r m hm
  have fail : ∀ m, (none : Option Msg) = some m → P m := by intro m hm; cases hm
  unfold processReceived
  simp only []
  split
  · exact pass
  split
  · exact pass
  split
  · split
    · exact fail
    · exact pass
  split
  · exact fail
  split
  · exact fail
  split
  · split
    · split
      · exact fail
      · exact pass
    · split
      · exact fail
      · rename_i m hm
        intro m' hm'; injection hm' with hm'; rw [← hm']; exact hbr hm
  · split
    · intro m hm; exact hnext _ m hm
    · split
      · exact fail
      · rename_i m hm
        intro m' hm'; injection hm' with hm'; rw [← hm']; exact hbr hm

theorem next_plain {app : App} (happ : AppPlain app) {d m : Msg} (h : next app none d = some m) : isObserveResponse m = false := by
  unfold next at h
  split at h
  · rename_i x hx
    injection h with h; rw [← h]
    exact happ d x hx
  · cases h

theorem handleReceivedO_eq (ep : Endpoint) (outside : Outside) (fresh : Nat) (now : Int) (r : Msg) (app : App)
    (hno : isObserveResponse r = false) (hp : StepPlain ep outside r.tok) (happ : AppPlain app) :
    handleReceivedO ep outside fresh now r app = mkO ep r.tok (handleReceived ep.toCfg (ep.slots r.tok) now r app) := by
  have hid : ∀ (w : Option Msg) (d : List Msg) (f : Bool),
      ({ ep := ep, w := w, delivered := d, failed := f } : ResO) = mkO ep r.tok { sl := ep.slots r.tok, w := w, delivered := d, failed := f } := by
    intro w d f; simp only [mkO, put_slots_id]
  have hsl : ep.slots r.tok = ⟨ep.sending r.tok, ep.receiving r.tok⟩ := rfl
  have hprw : ∀ mx bt, ∀ m, (processReceived ep.toCfg (ep.slots r.tok) now none r mx app bt).w = some m →
      m.tok = r.tok ∧ isObserveResponse m = false := by
    intro mx bt m hm
    rw [hsl] at hm
    refine ⟨(processReceived_toks ep.toCfg _ _ now r mx app bt hp.held (fun e he => (hp.sent e he).2)).2 m hm, ?_⟩
    refine processReceived_w_cases (fun m => isObserveResponse m = false) ep.toCfg _ _ now r mx app bt
      (fun d m h => next_plain happ h) ?_ ?_ m hm
    · intro bt v; cases bt <;> rfl
    · intro e v he
      have := (hp.sent e he).1
      unfold isObserveResponse hasObserve at *
      show (e.msg.other.any _ && _) = false
      rw [this]; rfl
  unfold handleReceivedO handleReceived
  have hszx : ep.toCfg.szx = ep.szx := rfl
  rw [hszx]
  cases henc : encodeBlock ep.szx 0 true with
  | error e => exact hid _ _ _
  | ok startBlk =>
    simp only []
    by_cases hsig : isSignal r.code = true
    · simp only [hsig, if_true]; exact hid _ _ _
    · simp only [hsig]
      by_cases hgd : r.code = codeGET ∨ r.code = codeDELETE
      · simp only [hgd, if_true]
        rw [hid]
        exact finishReceivedO_mk ep r.tok now { sl := ep.slots r.tok, w := next app none r, delivered := [r] } _ _
          (fun m hm => ⟨next_tok (d := r) hm, next_plain happ (d := r) hm⟩)
      · simp only [hgd, if_false]
        by_cases hpp : isPostPut r.code = true
        · simp only [hpp, if_true]
          rw [processReceivedO_eq ep outside fresh now r _ app .b1 (Or.inl rfl) hp]
          exact finishReceivedO_mk ep r.tok now _ _ _ (hprw _ _)
        · simp only [hpp]
          rw [processReceivedO_eq ep outside fresh now r _ app .b2 (Or.inr hno) hp]
          exact finishReceivedO_mk ep r.tok now _ _ _ (hprw _ _)

/-- **handleO_eq_handle.**  For every endpoint state, observation table, scripted fresh token, time, application and message:
    if the message is not an observe response, the application does not answer with observe responses, and the state
    satisfies `StepPlain` for the message's token — the sending slot is occupied or the table has no entry for the token; the
    paired request has no Observe option; paired request and held reassembly message carry the token of their key — then one
    `Handle` call of the observe-aware model does exactly what one `Handle` call of the plain model does, to the same state,
    and draws no token. -/
theorem handleO_eq_handle (ep : Endpoint) (outside : Outside) (fresh : Nat) (now : Int) (r : Msg) (app : App)
    (hno : isObserveResponse r = false) (hp : StepPlain ep outside r.tok) (happ : AppPlain app) :
    handleO ep outside fresh now r app = ((handle ep now r app).1, (handle ep now r app).2, false) := by
  have hrecv : (let h := handleReceivedO ep outside fresh now r app
      if h.failed then (h.ep, ({ reply := some (entityIncomplete r.tok), delivered := h.delivered, err := true } : Out), h.drew)
      else (h.ep, { reply := h.w, delivered := h.delivered }, h.drew)) =
      (let h := handleReceived ep.toCfg (ep.slots r.tok) now r app
       if h.failed then (ep.put r.tok h.sl, ({ reply := some (entityIncomplete r.tok), delivered := h.delivered, err := true } : Out), false)
       else (ep.put r.tok h.sl, { reply := h.w, delivered := h.delivered }, false)) := by
    rw [handleReceivedO_eq ep outside fresh now r app hno hp happ]
    rfl
  unfold handleO
  simp only [hrecv]
  have hsl : (ep.slots r.tok).snd = ep.sending r.tok := rfl
  unfold handle handleS
  simp only [hsl]
  by_cases ht : r.tok = 0
  · simp only [ht, if_true]
    split <;> rfl
  · simp only [ht, if_false]
    cases hl : live (ep.sending r.tok) now with
    | none =>
      simp only []
      split <;> rfl
    | some e =>
      simp only []
      by_cases hw : wantsToBeReceived r = true
      · simp only [hw, if_true]
        split <;> rfl
      · simp only [hw, Bool.false_eq_true, if_false]

/-! ### the invariant that keeps `StepPlain` true along a run -/

/-- the application never puts an Observe option on what it answers -/
def AppNoObs (app : App) : Prop := ∀ d x, app d = some x → hasObserve x = false

theorem AppNoObs.plain {app : App} (h : AppNoObs app) : AppPlain app := fun d x hx => not_obsResp_of_not_has (h d x hx)

/-- every cached message carries the token of its key, and no paired request / stored response has an Observe option:
    the state of an endpoint on which the Observe branch never ran -/
structure PlainEp (ep : Endpoint) : Prop where
  sent : ∀ k e, ep.sending k = some e → hasObserve e.msg = false ∧ e.msg.tok = k
  held : ∀ k e, ep.receiving k = some e → e.msg.tok = k

theorem PlainEp.step {ep : Endpoint} (h : PlainEp ep) {outside : Outside} {tok : Nat}
    (ht : ep.sending tok = none → outside tok = none) : StepPlain ep outside tok :=
  ⟨ht, h.sent tok, h.held tok⟩

theorem processReceived_rcv_tok (cfg : Cfg) (snd rcv : Option Entry) (now : Int) (w : Option Msg) (r : Msg) (mx : Nat) (app : App)
    (bt : BT) (hheld : ∀ e, rcv = some e → e.msg.tok = r.tok) :
    ∀ e, (processReceived cfg ⟨snd, rcv⟩ now w r mx app bt).sl.rcv = some e → e.msg.tok = r.tok := by
  have fail : ∀ e, (none : Option Entry) = some e → e.msg.tok = r.tok := by intro e he; cases he
  unfold processReceived
  simp only []
  split
  · exact hheld
  split
  · exact hheld
  split
  · split <;> exact hheld
  split
  · exact hheld
  split
  · exact hheld
  split
  · split
    · split <;> exact hheld
    · split
      · exact fail
      · intro e he; injection he with he; rw [← he]; exact absorb_tok _ _ _
  · rename_i ent hlive
    have hent := hheld ent (live_some hlive)
    split
    · exact fail
    · split
      · exact fail
      · intro e he; injection he with he; rw [← he]; show (absorb _ _ _).1.tok = _; rw [absorb_tok]; exact hent

theorem startSendingS_snd {cfg : Cfg} {snd : Option Entry} {now : Int} {w : Option Msg} {mx blk : Nat}
    {snd' : Option Entry} {w' : Option Msg} (h : startSendingS cfg snd now w mx blk = .ok (snd', w')) :
    ∀ e, snd' = some e → snd = some e ∨ w = some e.msg := by
  intro e he
  unfold startSendingS at h
  split at h
  · injection h with h; injection h with h1 h2; rw [← h1] at he; exact Or.inl he
  · split at h
    · injection h with h; injection h with h1 h2; rw [← h1] at he; exact Or.inl he
    · split at h
      · cases h
      · rename_i m _ _ sm more _
        have fin : ∀ (ex : Int), (if (storeIfAbsent snd ⟨m, ex⟩ now).2 = true then Except.error ()
            else Except.ok ((storeIfAbsent snd ⟨m, ex⟩ now).1, some sm)) = (Except.ok (snd', w') : Except Unit _) →
            snd = some e ∨ some m = some e.msg := by
          intro ex h
          split at h
          · cases h
          · injection h with h; injection h with h1 h2
            rw [← h1] at he
            unfold storeIfAbsent at he
            split at he
            · exact Or.inl he
            · injection he with he; rw [← he]; exact Or.inr rfl
        simp only [] at h
        split at h <;> exact fin _ h

theorem finishReceived_snd (cfg : Cfg) (now : Int) (h : HR) (mx blk : Nat) :
    ∀ e, (finishReceived cfg now h mx blk).sl.snd = some e → h.sl.snd = some e ∨ h.w = some e.msg := by
  intro e he
  unfold finishReceived at he
  split at he
  · exact Or.inl he
  · split at he
    · exact Or.inl he
    · rename_i snd w' hst
      exact startSendingS_snd hst e he

/-- a message that satisfies what `PlainEp` asks of a cached message under key `k` -/
def PlainMsg (k : Nat) (m : Msg) : Prop := hasObserve m = false ∧ m.tok = k

theorem next_noObs {app : App} (happ : AppNoObs app) {d m : Msg} (h : next app none d = some m) : PlainMsg d.tok m := by
  unfold next at h
  split at h
  · rename_i x hx
    injection h with h; rw [← h]
    exact ⟨happ d x hx, rfl⟩
  · cases h

theorem handleReceived_snd (cfg : Cfg) (sl : Slots) (now : Int) (r : Msg) (app : App) (happ : AppNoObs app)
    (hsent : ∀ e, sl.snd = some e → PlainMsg r.tok e.msg) (hheld : ∀ e, sl.rcv = some e → e.msg.tok = r.tok) :
    ∀ e, (handleReceived cfg sl now r app).sl.snd = some e → PlainMsg r.tok e.msg := by
  obtain ⟨snd, rcv⟩ := sl
  have hpr : ∀ mx bt, ∀ m, (processReceived cfg ⟨snd, rcv⟩ now none r mx app bt).w = some m → PlainMsg r.tok m := by
    intro mx bt m hm
    refine ⟨?_, (processReceived_toks cfg snd rcv now r mx app bt hheld (fun e he => (hsent e he).2)).2 m hm⟩
    refine processReceived_w_cases (fun m => hasObserve m = false) cfg snd rcv now r mx app bt
      (fun d m h => (next_noObs happ h).1) ?_ ?_ m hm
    · intro bt v; cases bt <;> rfl
    · intro e v he
      have := (hsent e he).1
      unfold hasObserve at *
      exact this
  have hfin : ∀ (h : HR) mx blk, h.sl.snd = snd → (∀ m, h.w = some m → PlainMsg r.tok m) →
      ∀ e, (finishReceived cfg now h mx blk).sl.snd = some e → PlainMsg r.tok e.msg := by
    intro h mx blk h1 h2 e he
    rcases finishReceived_snd cfg now h mx blk e he with h' | h'
    · rw [h1] at h'; exact hsent e h'
    · exact h2 _ h'
  unfold handleReceived
  split
  · exact hsent
  · split
    · exact hsent
    · split
      · exact hfin _ _ _ rfl (fun m hm => next_noObs happ (d := r) hm)
      · split
        · exact hfin _ _ _ (by rw [processReceived_sl]) (hpr _ _)
        · exact hfin _ _ _ (by rw [processReceived_sl]) (hpr _ _)

theorem handleReceived_rcv_tok (cfg : Cfg) (sl : Slots) (now : Int) (r : Msg) (app : App)
    (hheld : ∀ e, sl.rcv = some e → e.msg.tok = r.tok) :
    ∀ e, (handleReceived cfg sl now r app).sl.rcv = some e → e.msg.tok = r.tok := by
  obtain ⟨snd, rcv⟩ := sl
  rcases handleReceived_shape cfg ⟨snd, rcv⟩ now r app with ⟨g1, _⟩ | ⟨_, g1, _⟩ | ⟨bt, mx, _, g1, _⟩
  · rw [g1]; exact hheld
  · rw [g1]; exact hheld
  · rw [g1]; exact processReceived_rcv_tok cfg snd rcv now none r mx app bt hheld

theorem handleS_plain (cfg : Cfg) (sl : Slots) (now : Int) (r : Msg) (app : App) (happ : AppNoObs app)
    (hsent : ∀ e, sl.snd = some e → PlainMsg r.tok e.msg) (hheld : ∀ e, sl.rcv = some e → e.msg.tok = r.tok) :
    (∀ e, (handleS cfg sl now r app).1.snd = some e → PlainMsg r.tok e.msg) ∧
    (∀ e, (handleS cfg sl now r app).1.rcv = some e → e.msg.tok = r.tok) := by
  constructor
  · have hrecv : ∀ (x : Slots × Out), x = (let h := handleReceived cfg sl now r app
        if h.failed then (h.sl, { reply := some (entityIncomplete r.tok), delivered := h.delivered, err := true })
        else (h.sl, { reply := h.w, delivered := h.delivered })) →
        ∀ e, x.1.snd = some e → PlainMsg r.tok e.msg := by
      intro x hx e he
      subst hx
      simp only [] at he
      split at he <;> exact handleReceived_snd cfg sl now r app happ hsent hheld e he
    unfold handleS
    simp only []
    split
    · exact hrecv _ rfl
    · split
      · exact hrecv _ rfl
      · split
        · exact hrecv _ rfl
        · split
          · intro e he; cases he
          · split
            · intro e he; cases he
            · exact hsent
  · rcases handleS_shape cfg sl now r app with ⟨h1, _⟩ | ⟨h1, _⟩
    · rw [h1]; exact hheld
    · rw [h1]; exact handleReceived_rcv_tok cfg sl now r app hheld

theorem handle_plain (ep : Endpoint) (now : Int) (r : Msg) (app : App) (happ : AppNoObs app) (h : PlainEp ep) :
    PlainEp (handle ep now r app).1 := by
  obtain ⟨p1, p2⟩ := handleS_plain ep.toCfg (ep.slots r.tok) now r app happ (h.sent r.tok) (h.held r.tok)
  constructor
  · intro k e he
    by_cases hk : k = r.tok
    · subst hk
      simp only [handle, Endpoint.put, put_same] at he
      exact p1 e he
    · simp only [handle, Endpoint.put, put_other _ _ hk] at he
      exact h.sent k e he
  · intro k e he
    by_cases hk : k = r.tok
    · subst hk
      simp only [handle, Endpoint.put, put_same] at he
      exact p2 e he
    · simp only [handle, Endpoint.put, put_other _ _ hk] at he
      exact h.held k e he

theorem sweep_receiving (ep : Endpoint) (now : Int) (k : Nat) :
    (sweep ep now).receiving k = none ∨ (sweep ep now).receiving k = ep.receiving k := by
  simp only [sweep, sweepSlots, Endpoint.slots]
  cases hr : ep.receiving k with
  | none => left; rfl
  | some x =>
    simp only
    split
    · left; rfl
    · right; rfl

theorem sweep_plain (ep : Endpoint) (now : Int) (h : PlainEp ep) : PlainEp (sweep ep now) := by
  constructor
  · intro k e he
    rcases sweep_sending ep now k with hs | hs
    · rw [hs] at he; cases he
    · rw [hs] at he; exact h.sent k e he
  · intro k e he
    rcases sweep_receiving ep now k with hs | hs
    · rw [hs] at he; cases he
    · rw [hs] at he; exact h.held k e he

/-! ### runs of one endpoint -/

/-- an arrival of the observe-aware run, seen by the plain model (the scripted token is dropped) -/
def forget : ArrivalO → Arrival
  | .msg now r _ => .msg now r
  | .sweep now => .sweep now

/-- the arrival does not involve the Observe branch: not an observe response, and `getSentRequest` finds nothing for its
    token in the observation table -/
def Quiet (outside : Outside) : ArrivalO → Prop
  | .msg _ r _ => isObserveResponse r = false ∧ outside r.tok = none
  | .sweep _ => True

/-- **runO_eq_run.**  From a state on which the Observe branch never ran (`PlainEp`), for an application that never answers
    with an Observe option, for EVERY list of arrivals (any order, duplicates, gaps, sweeps, any scripted fresh tokens) none of
    which is an observe response or carries a token with an entry in the observation table: the observe-aware run `runO` is
    the plain run `Endpoint.run` — same final state, same deliveries in the same order — and the final state is again `PlainEp`. -/
theorem runO_eq_run (app : App) (outside : Outside) (happ : AppNoObs app) (as : List ArrivalO) :
    ∀ (ep : Endpoint), PlainEp ep → (∀ a ∈ as, Quiet outside a) →
      runO app outside ep as = Endpoint.run app ep (as.map forget) ∧ PlainEp (runO app outside ep as).1 := by
  induction as with
  | nil => intro ep hp _; exact ⟨rfl, hp⟩
  | cons a as ih =>
    intro ep hp hq
    have hstep : stepO app outside ep a = ep.step app (forget a) ∧ PlainEp (stepO app outside ep a).1 := by
      cases a with
      | msg now r fresh =>
        obtain ⟨hno, hout⟩ : isObserveResponse r = false ∧ outside r.tok = none := hq _ List.mem_cons_self
        have := handleO_eq_handle ep outside fresh now r app hno (hp.step (fun _ => hout)) happ.plain
        simp only [stepO, Endpoint.step, forget, this]
        exact ⟨trivial, handle_plain ep now r app happ hp⟩
      | sweep now => exact ⟨rfl, sweep_plain ep now hp⟩
    obtain ⟨h1, h2⟩ := ih (stepO app outside ep a).1 hstep.2 (fun a' ha' => hq a' (List.mem_cons_of_mem _ ha'))
    refine ⟨?_, ?_⟩
    · simp only [runO, List.map, Endpoint.run]
      rw [h1, hstep.1]
    · simp only [runO]; exact h2

end CoapVerif.Lemmas.BlockwiseConserv
