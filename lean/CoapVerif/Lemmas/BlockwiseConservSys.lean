import CoapVerif.Go.Basic
import CoapVerif.Model.Blockwise
import CoapVerif.Model.BlockwiseObserve
import CoapVerif.Model.BlockwiseObserveRun
import CoapVerif.Lemmas.Blockwise
import CoapVerif.Lemmas.BlockwiseObserve
import CoapVerif.Lemmas.BlockwiseConserv
/-!
Conservativity, system level: the observe-aware two-endpoint system `OWorld` (what `Driver/C04.lean` executes) under a script
of operations IS the plain system `World` of `Model/Blockwise.lean` (what `system_safe` is about) as long as nothing of the
Observe branch is involved: no Observe option on anything the applications supply (requests of `Do` / `WriteMessage`, answers
of B's application), none on the messages already in flight or in the relay's history, caches on which the branch never ran
(`PlainEp`), and — `T` is the set of tokens in use — no entry for a token of `T` in either observation table (`TablesSilent`;
for empty tables `T` is everything).  The invariant `PlainW T` is kept by every operation, so the equality holds for every
script.
-/
namespace CoapVerif.Lemmas.BlockwiseConservSys
open CoapVerif CoapVerif.Model.Blockwise CoapVerif.Model.BlockOpt CoapVerif.Generated.BlockwiseXfer
open CoapVerif.Model.BlockwiseObserve CoapVerif.Lemmas.Blockwise CoapVerif.Lemmas.BlockwiseObserve
open CoapVerif.Lemmas.BlockwiseConserv

/-- nothing of the Observe branch has touched the system: caches, B's application, everything that is or was in flight -/
structure PlainW (T : Nat → Prop) (w : World) : Prop where
  a : PlainEp w.a
  b : PlainEp w.b
  app : AppNoObs w.appB
  pk : ∀ p, p ∈ w.queue ∨ p ∈ w.hist → hasObserve p.msg = false ∧ T p.msg.tok

/-- neither observation table has an entry for a token of `T` -/
def TablesSilent (T : Nat → Prop) (o : OWorld) : Prop := ∀ t, T t → o.outA t = none ∧ o.outB t = none

/-- both observation tables are empty -/
def NoTables (o : OWorld) : Prop := (∀ t, o.outA t = none) ∧ (∀ t, o.outB t = none)

theorem NoTables.silent {o : OWorld} (h : NoTables o) : TablesSilent (fun _ => True) o := fun t _ => ⟨h.1 t, h.2 t⟩

theorem PlainW.ep {T : Nat → Prop} {w : World} (h : PlainW T w) (s : Side) : PlainEp (w.ep s) := by
  cases s
  · exact h.a
  · exact h.b

theorem PlainW.appOf {T : Nat → Prop} {w : World} (h : PlainW T w) (s : Side) : AppNoObs (w.appOf s) := by
  cases s
  · intro d x hx; cases hx
  · exact h.app

/-! ### what a `Handle` call puts on the wire carries no Observe option -/

theorem createSendingWith_tok {skip : Bool} {sm : Msg} {mx ms blk : Nat} {m : Msg} {more : Bool}
    (h : createSendingWith skip sm mx ms blk = some (m, more)) : m.tok = sm.tok := by
  unfold createSendingWith at h
  split at h
  · cases h
  · simp only [] at h
    obtain ⟨v, hm, _⟩ := createSendingAt_spec h
    rw [hm]; cases hbt : sendBT sm.code <;> simp [Msg.setBlock, Msg.setSize]

theorem startSendingS_w {cfg : Cfg} {snd : Option Entry} {now : Int} {w : Option Msg} {mx blk : Nat}
    {snd' : Option Entry} {w' : Option Msg} (h : startSendingS cfg snd now w mx blk = .ok (snd', w')) :
    ∀ m', w' = some m' → ∃ m, w = some m ∧ m'.other = m.other ∧ m'.tok = m.tok := by
  intro m' hm'
  unfold startSendingS at h
  split at h
  · injection h with h; injection h with h1 h2; rw [← h2] at hm'; cases hm'
  · rename_i m
    split at h
    · injection h with h; injection h with h1 h2; rw [← h2] at hm'; injection hm' with hm'; exact ⟨m, rfl, by rw [hm'], by rw [hm']⟩
    · split at h
      · cases h
      · rename_i sm more hc
        have fin : ∀ (ex : Int), (if (storeIfAbsent snd ⟨m, ex⟩ now).2 = true then Except.error ()
            else Except.ok ((storeIfAbsent snd ⟨m, ex⟩ now).1, some sm)) = (Except.ok (snd', w') : Except Unit _) →
            ∃ m0, some m = some m0 ∧ m'.other = m0.other ∧ m'.tok = m0.tok := by
          intro ex h
          split at h
          · cases h
          · injection h with h; injection h with h1 h2
            rw [← h2] at hm'; injection hm' with hm'
            exact ⟨m, rfl, by rw [← hm']; exact (createSendingWith_code_other (skip := startSkipsSent) hc).2,
              by rw [← hm']; exact createSendingWith_tok (skip := startSkipsSent) hc⟩
        simp only [] at h
        split at h <;> exact fin _ h

theorem finishReceived_w (cfg : Cfg) (now : Int) (h : HR) (mx blk : Nat) :
    ∀ m', (finishReceived cfg now h mx blk).w = some m' → ∃ m, h.w = some m ∧ m'.other = m.other ∧ m'.tok = m.tok := by
  intro m' hm'
  unfold finishReceived at hm'
  split at hm'
  · exact ⟨m', hm', rfl, rfl⟩
  · split at hm'
    · exact ⟨m', hm', rfl, rfl⟩
    · rename_i snd w' hst
      exact startSendingS_w hst m' hm'

theorem hasObserve_of_other {m m' : Msg} (h : m'.other = m.other) (hm : hasObserve m = false) : hasObserve m' = false := by
  unfold hasObserve at *; rw [h]; exact hm

theorem handleReceived_w_noObs (cfg : Cfg) (sl : Slots) (now : Int) (r : Msg) (app : App) (happ : AppNoObs app)
    (hsent : ∀ e, sl.snd = some e → PlainMsg r.tok e.msg) (hheld : ∀ e, sl.rcv = some e → e.msg.tok = r.tok) :
    ∀ m, (handleReceived cfg sl now r app).w = some m → PlainMsg r.tok m := by
  obtain ⟨snd, rcv⟩ := sl
  have hpr : ∀ mx bt, ∀ m, (processReceived cfg ⟨snd, rcv⟩ now none r mx app bt).w = some m → PlainMsg r.tok m := by
    intro mx bt m hm
    refine ⟨?_, (processReceived_toks cfg snd rcv now r mx app bt hheld (fun e he => (hsent e he).2)).2 m hm⟩
    refine processReceived_w_cases (fun m => hasObserve m = false) cfg snd rcv now r mx app bt
      (fun d m h => (next_noObs happ h).1) ?_ ?_ m hm
    · intro bt v; cases bt <;> rfl
    · intro e v he
      have := (hsent e he).1
      unfold hasObserve at *
      exact this
  have hfin : ∀ (h : HR) mx blk, (∀ m, h.w = some m → PlainMsg r.tok m) →
      ∀ m, (finishReceived cfg now h mx blk).w = some m → PlainMsg r.tok m := by
    intro h mx blk h2 m hm
    obtain ⟨m0, h0, ho, ht⟩ := finishReceived_w cfg now h mx blk m hm
    exact ⟨hasObserve_of_other ho (h2 m0 h0).1, by rw [ht]; exact (h2 m0 h0).2⟩
  unfold handleReceived
  split
  · intro m hm; cases hm
  · split
    · intro m hm; exact next_noObs happ (d := r) hm
    · split
      · exact hfin _ _ _ (fun m hm => next_noObs happ (d := r) hm)
      · split
        · exact hfin _ _ _ (hpr _ _)
        · exact hfin _ _ _ (hpr _ _)

theorem handle_reply_noObs (ep : Endpoint) (now : Int) (r : Msg) (app : App) (happ : AppNoObs app) (hp : PlainEp ep) :
    ∀ m, (handle ep now r app).2.reply = some m → PlainMsg r.tok m := by
  have hsent : ∀ e, (ep.slots r.tok).snd = some e → PlainMsg r.tok e.msg := fun e he => hp.sent r.tok e he
  have hheld : ∀ e, (ep.slots r.tok).rcv = some e → e.msg.tok = r.tok := fun e he => hp.held r.tok e he
  have hrecv : ∀ (x : Slots × Out), x = (let h := handleReceived ep.toCfg (ep.slots r.tok) now r app
      if h.failed then (h.sl, { reply := some (entityIncomplete r.tok), delivered := h.delivered, err := true })
      else (h.sl, { reply := h.w, delivered := h.delivered })) →
      ∀ m, x.2.reply = some m → PlainMsg r.tok m := by
    intro x hx m hm
    subst hx
    simp only [] at hm
    split at hm
    · injection hm with hm; rw [← hm]; exact ⟨rfl, rfl⟩
    · exact handleReceived_w_noObs ep.toCfg (ep.slots r.tok) now r app happ hsent hheld m hm
  unfold handle handleS
  simp only []
  split
  · exact hrecv _ rfl
  · split
    · exact hrecv _ rfl
    · split
      · exact hrecv _ rfl
      · split
        · intro m hm; cases hm
        · rename_i e hl _ sm more hc
          intro m hm
          simp only [] at hm
          injection hm with hm
          rw [← hm]
          unfold continueSendingS at hc
          split at hc
          · cases hc
          · split at hc
            · cases hc
            · rename_i e' he'
              exact ⟨hasObserve_of_other (createSendingWith_code_other hc).2 (hsent e' he').1,
                by rw [createSendingWith_tok hc]; exact (hsent e' he').2⟩

/-! ### the operations keep `PlainW` -/

theorem doFinish_plain (ep : Endpoint) (tok : Nat) (h : PlainEp ep) : PlainEp (doFinish ep tok) := by
  constructor
  · intro k e he
    by_cases hk : k = tok
    · subst hk; simp [doFinish, put_same] at he
    · simp only [doFinish, put_other _ _ hk] at he; exact h.sent k e he
  · exact h.held

theorem completeDo_plain {T : Nat → Prop} {w : World} (h : PlainW T w) (m : Msg) : PlainW T (completeDo w m).1 := by
  unfold completeDo
  split
  · exact ⟨doFinish_plain _ _ h.a, h.b, h.app, h.pk⟩
  · exact h

theorem completeAll_plain {T : Nat → Prop} (ms : List Msg) : ∀ {w : World}, PlainW T w → PlainW T (completeAll w ms).1 := by
  induction ms with
  | nil => intro w h; exact h
  | cons m ms ih => intro w h; exact ih (completeDo_plain h m)

theorem afterDeliveries_plain {T : Nat → Prop} {w : World} (h : PlainW T w) (s : Side) (ds : List Msg) : PlainW T (w.afterDeliveries s ds).1 := by
  cases s
  · exact completeAll_plain ds h
  · exact h

theorem setEp_plain {T : Nat → Prop} {w : World} (h : PlainW T w) (s : Side) (e : Endpoint) (he : PlainEp e) : PlainW T (w.setEp s e) := by
  cases s
  · exact ⟨he, h.b, h.app, h.pk⟩
  · exact ⟨h.a, he, h.app, h.pk⟩

theorem enqueue_plain {T : Nat → Prop} {w : World} (h : PlainW T w) (p : Packet) (hp : hasObserve p.msg = false ∧ T p.msg.tok) : PlainW T (w.enqueue p) := by
  refine ⟨h.a, h.b, h.app, ?_⟩
  intro q hq
  simp only [World.enqueue, List.mem_append, List.mem_singleton] at hq
  rcases hq with (hq | hq) | hq
  · exact h.pk q (Or.inl hq)
  · rw [hq]; exact hp
  · exact h.pk q (Or.inr hq)

theorem recv_plain {T : Nat → Prop} {w : World} (h : PlainW T w) (p : Packet) (hT : T p.msg.tok) : PlainW T (w.recv p).1 := by
  have hfin := afterDeliveries_plain (setEp_plain h p.dst _ (handle_plain (w.ep p.dst) w.now p.msg (w.appOf p.dst) (h.appOf p.dst) (h.ep p.dst)))
    p.dst (handle (w.ep p.dst) w.now p.msg (w.appOf p.dst)).2.delivered
  unfold World.recv
  simp only []
  split
  · rename_i m hm
    have hr := handle_reply_noObs (w.ep p.dst) w.now p.msg (w.appOf p.dst) (h.appOf p.dst) (h.ep p.dst) m hm
    exact enqueue_plain hfin _ ⟨hr.1, by show T (onWire m).tok; have : (onWire m).tok = p.msg.tok := hr.2; rw [this]; exact hT⟩
  · exact hfin

/-- `OWorld.recv` = `World.recv` on a plain system with empty tables, for a message without Observe option -/
theorem recv_eq {T : Nat → Prop} (o : OWorld) (ht : TablesSilent T o) (h : PlainW T o.w) (p : Packet)
    (hp : hasObserve p.msg = false ∧ T p.msg.tok) :
    o.recv p = ({ o with w := (o.w.recv p).1 }, (o.w.recv p).2) := by
  have hout : o.outside p.dst p.msg.tok = none := by
    cases hd : p.dst <;> simp only [OWorld.outside]
    · exact (ht _ hp.2).1
    · exact (ht _ hp.2).2
  have hstep := handleO_eq_handle (o.w.ep p.dst) (o.outside p.dst) o.nextFresh o.w.now p.msg (o.w.appOf p.dst)
    (not_obsResp_of_not_has hp.1) ((h.ep p.dst).step (fun _ => hout)) (h.appOf p.dst).plain
  unfold OWorld.recv World.recv
  simp only [hstep, OWorld.consume, Bool.false_eq_true, if_false]
  cases hr : (handle (o.w.ep p.dst) o.w.now p.msg (o.w.appOf p.dst)).2.reply <;> rfl

theorem fault_plain {T : Nat → Prop} {w : World} (h : PlainW T w) (f : Fault) : PlainW T (w.fault f).1 := by
  cases f with
  | deliver =>
    simp only [World.fault]
    split
    · exact h
    · rename_i p q hq
      refine recv_plain (w := { w with queue := q, hist := w.hist ++ [p] }) ⟨h.a, h.b, h.app, ?_⟩ p
        (h.pk p (Or.inl (by rw [hq]; exact List.mem_cons_self))).2
      intro x hx
      simp only [List.mem_append, List.mem_singleton] at hx
      rcases hx with hx | hx | hx
      · exact h.pk x (Or.inl (by rw [hq]; exact List.mem_cons_of_mem _ hx))
      · exact h.pk x (Or.inr hx)
      · rw [hx]; exact h.pk p (Or.inl (by rw [hq]; exact List.mem_cons_self))
  | dup =>
    simp only [World.fault]
    split
    · exact h
    · rename_i p q hq
      refine recv_plain (w := { w with hist := w.hist ++ [p] }) ⟨h.a, h.b, h.app, ?_⟩ p
        (h.pk p (Or.inl (by rw [hq]; exact List.mem_cons_self))).2
      intro x hx
      simp only [List.mem_append, List.mem_singleton] at hx
      rcases hx with hx | hx | hx
      · exact h.pk x (Or.inl hx)
      · exact h.pk x (Or.inr hx)
      · rw [hx]; exact h.pk p (Or.inl (by rw [hq]; exact List.mem_cons_self))
  | drop =>
    simp only [World.fault]
    split
    · exact h
    · rename_i p q hq
      refine ⟨h.a, h.b, h.app, ?_⟩
      intro x hx
      simp only [List.mem_append, List.mem_singleton] at hx
      rcases hx with hx | hx | hx
      · exact h.pk x (Or.inl (by rw [hq]; exact List.mem_cons_of_mem _ hx))
      · exact h.pk x (Or.inr hx)
      · rw [hx]; exact h.pk p (Or.inl (by rw [hq]; exact List.mem_cons_self))
  | swap =>
    simp only [World.fault]
    split
    · rename_i p p' q hq
      refine ⟨h.a, h.b, h.app, ?_⟩
      intro x hx
      rcases hx with hx | hx
      · refine h.pk x (Or.inl ?_)
        rw [hq]
        simp only [List.mem_cons] at hx ⊢
        rcases hx with hx | hx | hx
        · exact Or.inr (Or.inl hx)
        · exact Or.inl hx
        · exact Or.inr (Or.inr hx)
      · exact h.pk x (Or.inr hx)
    · exact h
  | replay k =>
    simp only [World.fault]
    split
    · rename_i p hk
      exact recv_plain h p (h.pk p (Or.inr (List.mem_of_getElem? hk))).2
    · exact h

theorem fault_eq {T : Nat → Prop} (o : OWorld) (ht : TablesSilent T o) (h : PlainW T o.w) (f : Fault) :
    o.fault f = ({ o with w := (o.w.fault f).1 }, (o.w.fault f).2) := by
  cases f with
  | deliver =>
    cases hq : o.w.queue with
    | nil => simp only [OWorld.fault, World.fault, hq]
    | cons p q =>
      have hp : hasObserve p.msg = false ∧ T p.msg.tok := h.pk p (Or.inl (by rw [hq]; exact List.mem_cons_self))
      have hpl : PlainW T { o.w with queue := q, hist := o.w.hist ++ [p] } := by
        have := fault_plain h .drop
        simp only [World.fault, hq] at this
        exact this
      have := recv_eq { o with w := { o.w with queue := q, hist := o.w.hist ++ [p] } } ht hpl p hp
      simp only [OWorld.fault, World.fault, hq]
      exact this
  | dup =>
    cases hq : o.w.queue with
    | nil => simp only [OWorld.fault, World.fault, hq]
    | cons p q =>
      have hp : hasObserve p.msg = false ∧ T p.msg.tok := h.pk p (Or.inl (by rw [hq]; exact List.mem_cons_self))
      have hpl : PlainW T { o.w with hist := o.w.hist ++ [p] } := by
        refine ⟨h.a, h.b, h.app, ?_⟩
        intro x hx
        simp only [List.mem_append, List.mem_singleton] at hx
        rcases hx with hx | hx | hx
        · exact h.pk x (Or.inl hx)
        · exact h.pk x (Or.inr hx)
        · rw [hx]; exact hp
      have := recv_eq { o with w := { o.w with hist := o.w.hist ++ [p] } } ht hpl p hp
      simp only [hq] at this
      simp only [OWorld.fault, World.fault, hq]
      exact this
  | drop =>
    cases hq : o.w.queue with
    | nil => simp only [OWorld.fault, World.fault, hq]
    | cons p q => simp only [OWorld.fault, World.fault, hq]
  | swap =>
    cases hq : o.w.queue with
    | nil => simp only [OWorld.fault, World.fault, hq]
    | cons p q =>
      cases q with
      | nil => simp only [OWorld.fault, World.fault, hq]
      | cons p' q => simp only [OWorld.fault, World.fault, hq]
  | replay k =>
    cases hk : o.w.hist[k]? with
    | none => simp only [OWorld.fault, World.fault, hk]
    | some p =>
      have := recv_eq o ht h p (h.pk p (Or.inr (List.mem_of_getElem? hk)))
      simp only [OWorld.fault, World.fault, hk]
      exact this

theorem doStartS_plain (cfg : Cfg) (snd : Option Entry) (now : Int) (r : Msg) (hr : hasObserve r = false)
    (hs : ∀ e, snd = some e → PlainMsg r.tok e.msg) :
    (∀ e, (doStartS cfg snd now r).1 = some e → PlainMsg r.tok e.msg) ∧
    (∀ m, (doStartS cfg snd now r).2 = some m → hasObserve m = false ∧ m.tok = r.tok) := by
  have hst : ∀ ex e, (storeIfAbsent snd ⟨r, ex⟩ now).1 = some e → PlainMsg r.tok e.msg := by
    intro ex e he
    unfold storeIfAbsent at he
    split at he
    · exact hs e he
    · injection he with he; rw [← he]; exact ⟨hr, rfl⟩
  have hnone : (∀ e, (none : Option Entry) = some e → PlainMsg r.tok e.msg) := by intro e he; cases he
  have hnm : ∀ m, (none : Option Msg) = some m → hasObserve m = false ∧ m.tok = r.tok := by intro m hm; cases hm
  have hsome : ∀ (x : Option Entry) (r' : Msg), r'.other = r.other → r'.tok = r.tok →
      ∀ m, (x, some r').2 = some m → hasObserve m = false ∧ m.tok = r.tok := by
    intro x r' ho ht m hm
    simp only [Option.some.injEq] at hm
    rw [← hm]; exact ⟨hasObserve_of_other ho hr, ht⟩
  unfold doStartS
  split
  · exact ⟨hs, hnm⟩
  split
  · exact ⟨hs, hnm⟩
  split <;>
  · simp only []
    split
    · exact ⟨hs, hnm⟩
    split
    · exact ⟨hst _, hsome _ _ rfl rfl⟩
    split
    · exact ⟨hnone, hnm⟩
    split
    · exact ⟨hnone, hnm⟩
    split
    · exact ⟨hnone, hnm⟩
    · exact ⟨hst _, hsome _ _ rfl rfl⟩

theorem put_sending_plain (ep : Endpoint) (k : Nat) (snd : Option Entry) (h : PlainEp ep)
    (hs : ∀ e, snd = some e → PlainMsg k e.msg) : PlainEp { ep with sending := ep.sending.put k snd } := by
  constructor
  · intro k' e he
    by_cases hk : k' = k
    · subst hk; simp only [put_same] at he; exact hs e he
    · simp only [put_other _ _ hk] at he; exact h.sent k' e he
  · exact h.held

theorem startDo_plain {T : Nat → Prop} {w : World} (h : PlainW T w) (r : Msg) (hr : hasObserve r = false ∧ T r.tok) : PlainW T (w.startDo r).1 := by
  obtain ⟨d1, d2⟩ := doStartS_plain w.a.toCfg (w.a.sending r.tok) w.now r hr.1 (h.a.sent r.tok)
  have ha : PlainEp (doStart w.a w.now r).1 := put_sending_plain w.a r.tok _ h.a d1
  unfold World.startDo
  split
  · rename_i a' m hm
    have h1 : a' = (doStart w.a w.now r).1 := by rw [hm]
    have h2 : some m = (doStartS w.a.toCfg (w.a.sending r.tok) w.now r).2 := by
      have : (doStart w.a w.now r).2 = some m := by rw [hm]
      rw [← this]; rfl
    refine ⟨by rw [h1]; exact ha, h.b, h.app, ?_⟩
    intro x hx
    simp only [List.mem_append, List.mem_singleton] at hx
    rcases hx with (hx | hx) | hx
    · exact h.pk x (Or.inl hx)
    · rw [hx]; exact ⟨(d2 m h2.symm).1, by show T (onWire m).tok; have : (onWire m).tok = r.tok := (d2 m h2.symm).2; rw [this]; exact hr.2⟩
    · exact h.pk x (Or.inr hx)
  · rename_i a' hm
    have h1 : a' = (doStart w.a w.now r).1 := by rw [hm]
    exact ⟨by rw [h1]; exact ha, h.b, h.app, h.pk⟩

theorem writeMessage_plain (ep : Endpoint) (now : Int) (r : Msg) (hr : hasObserve r = false) (h : PlainEp ep) :
    PlainEp (writeMessage ep now r).1 ∧ ∀ m, (writeMessage ep now r).2 = some m → hasObserve m = false ∧ m.tok = r.tok := by
  unfold writeMessage
  split
  · exact ⟨h, by intro m hm; cases hm⟩
  · split
    · exact ⟨h, by intro m hm; cases hm⟩
    · rename_i snd w' hst
      refine ⟨put_sending_plain ep r.tok snd h ?_, ?_⟩
      · intro e he
        rcases startSendingS_snd hst e he with h' | h'
        · exact h.sent r.tok e h'
        · injection h' with h'; rw [← h']; exact ⟨hr, rfl⟩
      · intro m hm
        obtain ⟨m0, h0, ho, ht⟩ := startSendingS_w hst m hm
        injection h0 with h0
        exact ⟨hasObserve_of_other ho (by rw [← h0]; exact hr), by rw [ht, ← h0]⟩

theorem writeMessageO_eq (ep : Endpoint) (now : Int) (r : Msg) (hr : isObserveResponse r = false) :
    writeMessageO ep now r = writeMessage ep now r := by
  unfold writeMessageO writeMessage
  cases he : encodeBlock ep.szx 0 true with
  | error e => rfl
  | ok blk =>
    simp only []
    rw [startSendingSO_eq _ _ _ _ _ _ (by intro m hm; injection hm with hm; rw [← hm]; exact hr)]
    rfl

theorem startWrite_plain {T : Nat → Prop} {w : World} (h : PlainW T w) (s : Side) (r : Msg) (hr : hasObserve r = false ∧ T r.tok) :
    PlainW T (w.startWrite s r).1 := by
  obtain ⟨w1, w2⟩ := writeMessage_plain (w.ep s) w.now r hr.1 (h.ep s)
  unfold World.startWrite
  split
  · rename_i e' m hm
    have h1 : e' = (writeMessage (w.ep s) w.now r).1 := by rw [hm]
    have h2 : (writeMessage (w.ep s) w.now r).2 = some m := by rw [hm]
    have hset := setEp_plain h s e' (by rw [h1]; exact w1)
    refine ⟨hset.a, hset.b, hset.app, ?_⟩
    intro x hx
    have hq : (w.setEp s e').queue = w.queue ∧ (w.setEp s e').hist = w.hist := by cases s <;> exact ⟨rfl, rfl⟩
    simp only [List.mem_append, List.mem_singleton, hq.2] at hx
    rcases hx with (hx | hx) | hx
    · exact h.pk x (Or.inl hx)
    · rw [hx]; exact ⟨(w2 m h2).1, by show T (onWire m).tok; have : (onWire m).tok = r.tok := (w2 m h2).2; rw [this]; exact hr.2⟩
    · exact h.pk x (Or.inr hx)
  · rename_i e' hm
    have h1 : e' = (writeMessage (w.ep s) w.now r).1 := by rw [hm]
    exact setEp_plain h s e' (by rw [h1]; exact w1)

theorem startWrite_eq (o : OWorld) (s : Side) (r : Msg) (hr : hasObserve r = false) :
    o.startWrite s r = ({ o with w := (o.w.startWrite s r).1 }, (o.w.startWrite s r).2) := by
  unfold OWorld.startWrite World.startWrite
  rw [writeMessageO_eq _ _ _ (not_obsResp_of_not_has hr)]
  rcases hw : writeMessage (o.w.ep s) o.w.now r with ⟨e', _ | m⟩ <;> rfl

theorem foldl_doFinish_plain (l : List Pending) : ∀ (a : Endpoint), PlainEp a → PlainEp (l.foldl (fun a p => doFinish a p.tok) a) := by
  induction l with
  | nil => intro a h; exact h
  | cons p l ih => intro a h; exact ih _ (doFinish_plain a p.tok h)

theorem sleep_plain {T : Nat → Prop} {w : World} (h : PlainW T w) (d : Int) : PlainW T (w.sleep d).1 :=
  ⟨foldl_doFinish_plain _ _ h.a, h.b, h.app, h.pk⟩

theorem tick_plain {T : Nat → Prop} {w : World} (h : PlainW T w) (s : Side) : PlainW T (w.tick s) :=
  setEp_plain h s _ (sweep_plain _ _ (h.ep s))

/-- the requests the client's application hands to `Do` / `WriteMessage` in the script carry no Observe option -/
def OpPlain (T : Nat → Prop) : Op → Prop
  | .doReq r => hasObserve r = false ∧ T r.tok
  | .writeReq r => hasObserve r = false ∧ T r.tok
  | _ => True

theorem op_plain {T : Nat → Prop} {w : World} (h : PlainW T w) (x : Op) (hx : OpPlain T x) : PlainW T (w.op x).1 := by
  cases x with
  | fault f => exact fault_plain h f
  | doReq r => exact startDo_plain h r hx
  | writeReq r => exact startWrite_plain h .A r hx
  | sleep d => exact sleep_plain h d
  | tick s => exact tick_plain h s

theorem op_eq {T : Nat → Prop} (o : OWorld) (ht : TablesSilent T o) (h : PlainW T o.w) (x : Op) (hx : OpPlain T x) :
    o.op x = ({ o with w := (o.w.op x).1 }, (o.w.op x).2) := by
  cases x with
  | fault f => exact fault_eq o ht h f
  | doReq r => rfl
  | writeReq r => exact startWrite_eq o .A r hx.1
  | sleep d => rfl
  | tick s => rfl

/-- **OWorld.run = World.run.**  For every script of operations (every fault sequence) whose requests carry no Observe option
    and a token of `T`, from a plain system all of whose messages in flight carry tokens of `T`, with observation tables that
    have no entry for a token of `T`: the observe-aware system does exactly what the plain system does — same worlds, same
    events, the scripted token source untouched — and stays plain. -/
theorem run_eq {T : Nat → Prop} (ops : List Op) : ∀ (o : OWorld), TablesSilent T o → PlainW T o.w → (∀ x ∈ ops, OpPlain T x) →
    OWorld.run o ops = ({ o with w := (World.run o.w ops).1 }, (World.run o.w ops).2) ∧ PlainW T (World.run o.w ops).1 := by
  induction ops with
  | nil => intro o _ h _; exact ⟨rfl, h⟩
  | cons x xs ih =>
    intro o ht h hx
    have hop := op_eq o ht h x (hx x List.mem_cons_self)
    have hpl := op_plain h x (hx x List.mem_cons_self)
    obtain ⟨r1, r2⟩ := ih { o with w := (o.w.op x).1 } ht hpl (fun y hy => hx y (List.mem_cons_of_mem _ hy))
    refine ⟨?_, r2⟩
    simp only [OWorld.run, World.run, hop]
    rw [r1]

end CoapVerif.Lemmas.BlockwiseConservSys
