import CoapVerif.Go.Basic
import CoapVerif.Model.Blockwise
import CoapVerif.Model.BlockwiseObserve
import CoapVerif.Lemmas.Blockwise
import CoapVerif.Lemmas.BlockwiseObserve
import CoapVerif.Lemmas.BlockwiseConserv
/-!
The FRAME of one `Handle` call of the observe-aware model (`handleO`), and the run-level independence of two fetches under
distinct fresh tokens that follows from it (`notifications_do_not_mix`).

`handleO_local`: one call for message `r` with scripted fresh token `f` is a function `handleL` of the configuration, the two
cache slots of `r.tok`, the two of `f` and the request `getSentRequest` finds for `r.tok` — and what it does to the endpoint
is ONE `Endpoint.put` at a key that is `r.tok` or `f`.
-/
namespace CoapVerif.Lemmas.BlockwiseFrame
open CoapVerif CoapVerif.Model.Blockwise CoapVerif.Model.BlockOpt CoapVerif.Generated.BlockwiseXfer
open CoapVerif.Model.BlockwiseObserve CoapVerif.Lemmas.Blockwise CoapVerif.Lemmas.BlockwiseObserve
open CoapVerif.Lemmas.BlockwiseConserv

/-! ### STEP 1: the local form of `processReceivedO` / `handleReceivedO` / `handleO` -/

/-- the result of the receive path as ONE write: key, the two slots written there, and the rest of `ResO` -/
structure Loc where
  key : Nat
  sl : Slots
  w : Option Msg := none
  delivered : List Msg := []
  failed : Bool := false
  drew : Bool := false

def Loc.onto (x : Loc) (ep : Endpoint) : ResO :=
  { ep := ep.put x.key x.sl, w := x.w, delivered := x.delivered, failed := x.failed, drew := x.drew }

/-- `processReceivedO` on what it reads: the configuration, the slots `sR` of the message's token, the slots `sF` of the
    fresh token, and the request `sent` that `getSentRequest` found -/
def procL (cfg : Cfg) (sR sF : Slots) (sent : Option Msg) (fresh : Nat) (now : Int) (w : Option Msg) (r : Msg)
    (mx : Nat) (app : App) (bt : BT) : Loc :=
  match sent with
  | some s =>
    if reachesSent r bt = true ∧ bt = .b2 ∧ isObserveResponse r = true then
      if (storeIfAbsent sF.snd ⟨cloneFor s fresh, now + cfg.expiration⟩ now).2 = true then
        { key := fresh, sl := sF, w := w, failed := true, drew := true }
      else
        { key := fresh,
          sl := ⟨if ((live sF.rcv now).isSome &&
                      (processReceived cfg ⟨some ⟨removeObserve { s with tok := fresh, deadline := none }, 0⟩, sF.rcv⟩ now w r mx app bt).delivered.any
                        (fun d => d.tok != fresh)) = true then none
                 else (storeIfAbsent sF.snd ⟨cloneFor s fresh, now + cfg.expiration⟩ now).1,
                 (processReceived cfg ⟨some ⟨removeObserve { s with tok := fresh, deadline := none }, 0⟩, sF.rcv⟩ now w r mx app bt).sl.rcv⟩,
          w := (processReceived cfg ⟨some ⟨removeObserve { s with tok := fresh, deadline := none }, 0⟩, sF.rcv⟩ now w r mx app bt).w,
          delivered := (processReceived cfg ⟨some ⟨removeObserve { s with tok := fresh, deadline := none }, 0⟩, sF.rcv⟩ now w r mx app bt).delivered,
          failed := (processReceived cfg ⟨some ⟨removeObserve { s with tok := fresh, deadline := none }, 0⟩, sF.rcv⟩ now w r mx app bt).failed,
          drew := true }
    else
      { key := r.tok,
        sl := ⟨if ((reachesSent r bt && (live sR.rcv now).isSome) &&
                    (processReceived cfg ⟨some ⟨removeObserve s, 0⟩, sR.rcv⟩ now w r mx app bt).delivered.any (fun d => d.tok != r.tok)) = true
               then none else sR.snd,
               (processReceived cfg ⟨some ⟨removeObserve s, 0⟩, sR.rcv⟩ now w r mx app bt).sl.rcv⟩,
        w := (processReceived cfg ⟨some ⟨removeObserve s, 0⟩, sR.rcv⟩ now w r mx app bt).w,
        delivered := (processReceived cfg ⟨some ⟨removeObserve s, 0⟩, sR.rcv⟩ now w r mx app bt).delivered,
        failed := (processReceived cfg ⟨some ⟨removeObserve s, 0⟩, sR.rcv⟩ now w r mx app bt).failed }
  | none =>
    { key := r.tok,
      sl := ⟨if ((reachesSent r bt && (live sR.rcv now).isSome) &&
                  (processReceived cfg ⟨none, sR.rcv⟩ now w r mx app bt).delivered.any (fun d => d.tok != r.tok)) = true
             then none else sR.snd,
             (processReceived cfg ⟨none, sR.rcv⟩ now w r mx app bt).sl.rcv⟩,
      w := (processReceived cfg ⟨none, sR.rcv⟩ now w r mx app bt).w,
      delivered := (processReceived cfg ⟨none, sR.rcv⟩ now w r mx app bt).delivered,
      failed := (processReceived cfg ⟨none, sR.rcv⟩ now w r mx app bt).failed }

theorem processReceivedO_local (ep : Endpoint) (outside : Outside) (fresh : Nat) (now : Int) (w : Option Msg) (r : Msg)
    (mx : Nat) (app : App) (bt : BT) :
    processReceivedO ep outside fresh now w r mx app bt =
      (procL ep.toCfg (ep.slots r.tok) (ep.slots fresh) (getSentRequest ep outside r.tok) fresh now w r mx app bt).onto ep := by
  unfold processReceivedO procL Loc.onto
  generalize getSentRequest ep outside r.tok = sent
  cases sent with
  | none => rfl
  | some s =>
    simp only []
    by_cases hc : reachesSent r bt = true ∧ bt = .b2 ∧ isObserveResponse r = true
    · simp only [if_pos hc]
      have hsF : (ep.slots fresh).snd = ep.sending fresh := rfl
      rw [hsF]
      cases hst : storeIfAbsent (ep.sending fresh) ⟨cloneFor s fresh, now + ep.toCfg.expiration⟩ now with
      | mk snd1 loaded =>
        cases loaded with
        | true =>
          simp only [if_true, put_slots_id]
        | false =>
          simp only [Bool.false_eq_true, if_false, writeBack, put_put_same, put_same]
          rfl
    · simp only [if_neg hc]
      rfl


theorem getSentRequest_congr {a b : Endpoint} (outside : Outside) {k : Nat} (h : a.slots k = b.slots k) :
    getSentRequest a outside k = getSentRequest b outside k := by
  have : a.sending k = b.sending k := congrArg Slots.snd h
  unfold getSentRequest
  rw [this]

theorem getSentRequest_isSome (ep : Endpoint) (outside : Outside) (k : Nat) (h : (outside k).isSome = true) :
    ∃ s, getSentRequest ep outside k = some s := by
  unfold getSentRequest
  cases ep.sending k with
  | some e => exact ⟨_, rfl⟩
  | none =>
    cases ho : outside k with
    | none => rw [ho] at h; cases h
    | some s => exact ⟨s, rfl⟩

/-- the application answers without a body (or not at all, as the application of the observing side does): then no answer
    is ever cut into blocks and `startSendingMessage` at the end of `handleReceivedMessage` stores nothing -/
def AppBodyless (app : App) : Prop := ∀ d x, app d = some x → x.body = []

theorem next_bodyless {app : App} (happ : AppBodyless app) {d m : Msg} (h : next app none d = some m) : m.body = [] := by
  unfold next at h
  split at h
  · rename_i x hx
    injection h with h; rw [← h]
    exact happ d x hx
  · cases h

theorem pr_w_bodyless {app : App} (happ : AppBodyless app) (cfg : Cfg) (snd rcv : Option Entry) (now : Int) (r : Msg) (mx : Nat)
    (bt : BT) : ∀ m, (processReceived cfg ⟨snd, rcv⟩ now none r mx app bt).w = some m → m.body = [] :=
  processReceived_w_cases (fun m => m.body = []) cfg snd rcv now r mx app bt
    (fun _ _ h => next_bodyless happ h) (by intro bt v; cases bt <;> rfl) (by intro e v _; rfl)

theorem procL_w_bodyless {app : App} (happ : AppBodyless app) (cfg : Cfg) (sR sF : Slots) (sent : Option Msg) (fresh : Nat)
    (now : Int) (r : Msg) (mx : Nat) (bt : BT) :
    ∀ m, (procL cfg sR sF sent fresh now none r mx app bt).w = some m → m.body = [] := by
  unfold procL
  cases sent with
  | none => exact pr_w_bodyless happ cfg _ _ now r mx bt
  | some s =>
    simp only []
    split
    · split
      · intro m hm; cases hm
      · exact pr_w_bodyless happ cfg _ _ now r mx bt
    · exact pr_w_bodyless happ cfg _ _ now r mx bt

/-- with nothing but bodyless answers `startSendingMessage` is the identity -/
theorem finishReceivedO_id (now : Int) (h : ResO) (mx blk : Nat) (hmx : mx ≤ 7) (hw : ∀ m, h.w = some m → m.body = []) :
    finishReceivedO now h mx blk = h := by
  cases hf : h.failed with
  | true => unfold finishReceivedO; simp only [hf, if_true]
  | false =>
    cases hw' : h.w with
    | none => unfold finishReceivedO; simp only [hf, hw', Bool.false_eq_true, if_false]
    | some q => exact finishReceivedO_request now h q mx blk hmx hf hw' (hw q hw')

/-- `handleReceivedO` on what it reads -/
def handleRL (cfg : Cfg) (sR sF : Slots) (sent : Option Msg) (fresh : Nat) (now : Int) (r : Msg) (app : App) : Loc :=
  match encodeBlock cfg.szx 0 true with
  | .error _ => { key := r.tok, sl := sR, failed := true }
  | .ok _ =>
    if isSignal r.code then { key := r.tok, sl := sR, w := next app none r, delivered := [r] } else
    if r.code = codeGET ∨ r.code = codeDELETE then { key := r.tok, sl := sR, w := next app none r, delivered := [r] }
    else if isPostPut r.code then procL cfg sR sF sent fresh now none r (fitSZX r .b1 cfg.szx) app .b1
    else procL cfg sR sF sent fresh now none r (fitSZX r .b2 cfg.szx) app .b2

theorem handleReceivedO_local (ep : Endpoint) (outside : Outside) (fresh : Nat) (now : Int) (r : Msg) (app : App)
    (hs7 : ep.szx ≤ 7) (happ : AppBodyless app) :
    handleReceivedO ep outside fresh now r app =
      (handleRL ep.toCfg (ep.slots r.tok) (ep.slots fresh) (getSentRequest ep outside r.tok) fresh now r app).onto ep := by
  have hszx : ep.toCfg.szx = ep.szx := rfl
  unfold handleReceivedO handleRL
  rw [hszx]
  cases encodeBlock ep.szx 0 true with
  | error e => simp only [Loc.onto, put_slots_id]
  | ok startBlk =>
    simp only []
    by_cases hsig : isSignal r.code = true
    · simp only [hsig, if_true, Loc.onto, put_slots_id]
    · simp only [hsig, Bool.false_eq_true, if_false]
      by_cases hgd : r.code = codeGET ∨ r.code = codeDELETE
      · simp only [if_pos hgd]
        rw [finishReceivedO_id _ _ _ _ (Nat.le_trans (fitSZX_le r .b2 ep.szx) hs7) (fun m hm => next_bodyless happ (d := r) hm)]
        simp only [Loc.onto, put_slots_id]
      · simp only [if_neg hgd]
        by_cases hpp : isPostPut r.code = true
        · simp only [hpp, if_true]
          rw [processReceivedO_local]
          exact finishReceivedO_id _ _ _ _ (Nat.le_trans (fitSZX_le r .b1 ep.szx) hs7) (procL_w_bodyless happ _ _ _ _ _ _ _ _ _)
        · simp only [hpp, Bool.false_eq_true, if_false]
          rw [processReceivedO_local]
          exact finishReceivedO_id _ _ _ _ (Nat.le_trans (fitSZX_le r .b2 ep.szx) hs7) (procL_w_bodyless happ _ _ _ _ _ _ _ _ _)

/-- the receive path's `Out` -/
def recvL (h : Loc) (r : Msg) : Nat × Slots × Out × Bool :=
  if h.failed then (h.key, h.sl, { reply := some (entityIncomplete r.tok), delivered := h.delivered, err := true }, h.drew)
  else (h.key, h.sl, { reply := h.w, delivered := h.delivered }, h.drew)

/-- `handleO` on what it reads: (key written, slots written there, `Out`, drew) -/
def handleL (cfg : Cfg) (sR sF : Slots) (sent : Option Msg) (fresh : Nat) (now : Int) (r : Msg) (app : App) :
    Nat × Slots × Out × Bool :=
  if r.tok = 0 then recvL (handleRL cfg sR sF sent fresh now r app) r else
  match live sR.snd now with
  | none => recvL (handleRL cfg sR sF sent fresh now r app) r
  | some _ =>
    if wantsToBeReceived r then recvL (handleRL cfg sR sF sent fresh now r app) r
    else (r.tok, (handleS cfg sR now r app).1, (handleS cfg sR now r app).2, false)

/-- **handleO_local (the frame of one `Handle` call).**  For every endpoint with a legal block size, every observation table,
    scripted fresh token, time, message and bodyless application: `handleO` does ONE `Endpoint.put` — at the key
    `(handleL …).1` with the slots `(handleL …).2.1` — and that key, those slots, `Out` and `drew` are the function `handleL` of
    `ep.toCfg`, `ep.slots r.tok`, `ep.slots fresh` and `getSentRequest ep outside r.tok` (which reads `ep.sending r.tok` and
    `outside r.tok`: `getSentRequest_congr`) -/
theorem handleO_local (ep : Endpoint) (outside : Outside) (fresh : Nat) (now : Int) (r : Msg) (app : App)
    (hs7 : ep.szx ≤ 7) (happ : AppBodyless app) :
    handleO ep outside fresh now r app =
      (ep.put (handleL ep.toCfg (ep.slots r.tok) (ep.slots fresh) (getSentRequest ep outside r.tok) fresh now r app).1
              (handleL ep.toCfg (ep.slots r.tok) (ep.slots fresh) (getSentRequest ep outside r.tok) fresh now r app).2.1,
       (handleL ep.toCfg (ep.slots r.tok) (ep.slots fresh) (getSentRequest ep outside r.tok) fresh now r app).2.2.1,
       (handleL ep.toCfg (ep.slots r.tok) (ep.slots fresh) (getSentRequest ep outside r.tok) fresh now r app).2.2.2) := by
  have hrecv : (let h := handleReceivedO ep outside fresh now r app
      if h.failed then (h.ep, ({ reply := some (entityIncomplete r.tok), delivered := h.delivered, err := true } : Out), h.drew)
      else (h.ep, { reply := h.w, delivered := h.delivered }, h.drew)) =
      (ep.put (recvL (handleRL ep.toCfg (ep.slots r.tok) (ep.slots fresh) (getSentRequest ep outside r.tok) fresh now r app) r).1
          (recvL (handleRL ep.toCfg (ep.slots r.tok) (ep.slots fresh) (getSentRequest ep outside r.tok) fresh now r app) r).2.1,
        (recvL (handleRL ep.toCfg (ep.slots r.tok) (ep.slots fresh) (getSentRequest ep outside r.tok) fresh now r app) r).2.2.1,
        (recvL (handleRL ep.toCfg (ep.slots r.tok) (ep.slots fresh) (getSentRequest ep outside r.tok) fresh now r app) r).2.2.2) := by
    rw [handleReceivedO_local ep outside fresh now r app hs7 happ]
    generalize handleRL ep.toCfg (ep.slots r.tok) (ep.slots fresh) (getSentRequest ep outside r.tok) fresh now r app = x
    simp only [Loc.onto, recvL]
    obtain ⟨key, sl, w, d, f, dr⟩ := x
    cases f <;> rfl
  have hsnd : (ep.slots r.tok).snd = ep.sending r.tok := rfl
  unfold handleO handleL
  simp only [hrecv, hsnd]
  by_cases ht : r.tok = 0
  · simp only [if_pos ht]
  · simp only [if_neg ht]
    cases live (ep.sending r.tok) now with
    | none => rfl
    | some e =>
      simp only []
      by_cases hw : wantsToBeReceived r = true
      · simp only [hw, if_true]
      · simp only [hw, Bool.false_eq_true, if_false, handle]


/-! ### which key is written -/

theorem procL_key (cfg : Cfg) (sR sF : Slots) (sent : Option Msg) (fresh : Nat) (now : Int) (w : Option Msg) (r : Msg)
    (mx : Nat) (app : App) (bt : BT) :
    (procL cfg sR sF sent fresh now w r mx app bt).key = r.tok ∨ (procL cfg sR sF sent fresh now w r mx app bt).key = fresh := by
  unfold procL
  cases sent with
  | none => exact Or.inl rfl
  | some s =>
    simp only []
    split
    · split
      · exact Or.inr rfl
      · exact Or.inr rfl
    · exact Or.inl rfl

/-- not an observe response: the fresh token and its slots are not looked at, the key written is the message's token -/
theorem procL_nobs (cfg : Cfg) (sR sF sF' : Slots) (sent : Option Msg) (fresh fresh' : Nat) (now : Int) (w : Option Msg) (r : Msg)
    (mx : Nat) (app : App) (bt : BT) (hno : isObserveResponse r = false) :
    procL cfg sR sF sent fresh now w r mx app bt = procL cfg sR sF' sent fresh' now w r mx app bt ∧
    (procL cfg sR sF sent fresh now w r mx app bt).key = r.tok := by
  unfold procL
  cases sent with
  | none => exact ⟨rfl, rfl⟩
  | some s =>
    simp only [hno, Bool.false_eq_true, and_false, if_false]
    exact ⟨trivial, trivial⟩

theorem handleRL_key (cfg : Cfg) (sR sF : Slots) (sent : Option Msg) (fresh : Nat) (now : Int) (r : Msg) (app : App) :
    (handleRL cfg sR sF sent fresh now r app).key = r.tok ∨ (handleRL cfg sR sF sent fresh now r app).key = fresh := by
  unfold handleRL
  cases encodeBlock cfg.szx 0 true with
  | error e => exact Or.inl rfl
  | ok b =>
    simp only []
    split
    · exact Or.inl rfl
    · split
      · exact Or.inl rfl
      · split
        · exact procL_key _ _ _ _ _ _ _ _ _ _ _
        · exact procL_key _ _ _ _ _ _ _ _ _ _ _

theorem handleRL_nobs (cfg : Cfg) (sR sF sF' : Slots) (sent : Option Msg) (fresh fresh' : Nat) (now : Int) (r : Msg) (app : App)
    (hno : isObserveResponse r = false) :
    handleRL cfg sR sF sent fresh now r app = handleRL cfg sR sF' sent fresh' now r app ∧
    (handleRL cfg sR sF sent fresh now r app).key = r.tok := by
  unfold handleRL
  cases encodeBlock cfg.szx 0 true with
  | error e => exact ⟨rfl, rfl⟩
  | ok b =>
    simp only []
    by_cases hsig : isSignal r.code = true
    · simp only [hsig, if_true]; exact ⟨trivial, trivial⟩
    · simp only [hsig, Bool.false_eq_true, if_false]
      by_cases hgd : r.code = codeGET ∨ r.code = codeDELETE
      · simp only [if_pos hgd]; exact ⟨trivial, trivial⟩
      · simp only [if_neg hgd]
        by_cases hpp : isPostPut r.code = true
        · simp only [hpp, if_true]; exact procL_nobs _ _ _ _ _ _ _ _ _ _ _ _ _ hno
        · simp only [hpp, Bool.false_eq_true, if_false]; exact procL_nobs _ _ _ _ _ _ _ _ _ _ _ _ _ hno

theorem recvL_key (h : Loc) (r : Msg) : (recvL h r).1 = h.key := by
  unfold recvL; split <;> rfl

theorem handleL_key (cfg : Cfg) (sR sF : Slots) (sent : Option Msg) (fresh : Nat) (now : Int) (r : Msg) (app : App) :
    (handleL cfg sR sF sent fresh now r app).1 = r.tok ∨ (handleL cfg sR sF sent fresh now r app).1 = fresh := by
  have h := handleRL_key cfg sR sF sent fresh now r app
  rw [← recvL_key _ r] at h
  unfold handleL
  split
  · exact h
  · split
    · exact h
    · split
      · exact h
      · exact Or.inl rfl

theorem handleL_nobs (cfg : Cfg) (sR sF sF' : Slots) (sent : Option Msg) (fresh fresh' : Nat) (now : Int) (r : Msg) (app : App)
    (hno : isObserveResponse r = false) :
    handleL cfg sR sF sent fresh now r app = handleL cfg sR sF' sent fresh' now r app ∧
    (handleL cfg sR sF sent fresh now r app).1 = r.tok := by
  obtain ⟨h1, h2⟩ := handleRL_nobs cfg sR sF sF' sent fresh fresh' now r app hno
  rw [← recvL_key _ r] at h2
  constructor
  · unfold handleL; rw [h1]
  · unfold handleL
    split
    · exact h2
    · split
      · exact h2
      · split
        · exact h2
        · rfl

/-! ### (a) and (b) in the form asked for -/

theorem ep_put_slots (ep : Endpoint) (key k : Nat) (sl : Slots) :
    (ep.put key sl).slots k = if k = key then sl else ep.slots k := by
  by_cases h : k = key
  · subst h; simp only [if_true, ep_put_slots_same]
  · simp only [if_neg h, ep_put_slots_other ep sl h]

/-- **(a) handleO_frame.**  One `Handle` call for `r` with scripted fresh token `fresh` leaves the configuration and both
    cache slots of every key other than `r.tok` and `fresh` as they were; if `r` is not an observe response, of every key
    other than `r.tok`. -/
theorem handleO_frame (ep : Endpoint) (outside : Outside) (fresh : Nat) (now : Int) (r : Msg) (app : App)
    (hs7 : ep.szx ≤ 7) (happ : AppBodyless app) :
    (handleO ep outside fresh now r app).1.toCfg = ep.toCfg ∧
    (∀ k, k ≠ r.tok → k ≠ fresh → (handleO ep outside fresh now r app).1.slots k = ep.slots k) ∧
    (isObserveResponse r = false → ∀ k, k ≠ r.tok → (handleO ep outside fresh now r app).1.slots k = ep.slots k) := by
  rw [handleO_local ep outside fresh now r app hs7 happ]
  refine ⟨rfl, ?_, ?_⟩
  · intro k h1 h2
    rcases handleL_key ep.toCfg (ep.slots r.tok) (ep.slots fresh) (getSentRequest ep outside r.tok) fresh now r app with h | h
    · exact ep_put_slots_other ep _ (by rw [h]; exact h1)
    · exact ep_put_slots_other ep _ (by rw [h]; exact h2)
  · intro hno k h1
    have h := (handleL_nobs ep.toCfg (ep.slots r.tok) (ep.slots fresh) (ep.slots fresh) (getSentRequest ep outside r.tok) fresh fresh
      now r app hno).2
    exact ep_put_slots_other ep _ (by rw [h]; exact h1)

/-- **(b) handleO_congr.**  Two endpoints that agree on the configuration and on the slots of `r.tok` and of `fresh`: the
    call does the same — same `Out`, same `drew`, and the results agree on every key on which the endpoints agreed (on
    `r.tok` and `fresh` in particular).  The observation table is read at `r.tok` only (`getSentRequest_congr`). -/
theorem handleO_congr (ep ep' : Endpoint) (outside : Outside) (fresh : Nat) (now : Int) (r : Msg) (app : App)
    (hs7 : ep.szx ≤ 7) (happ : AppBodyless app)
    (hc : ep.toCfg = ep'.toCfg) (hR : ep.slots r.tok = ep'.slots r.tok) (hF : ep.slots fresh = ep'.slots fresh) :
    (handleO ep outside fresh now r app).2 = (handleO ep' outside fresh now r app).2 ∧
    (∀ k, ep.slots k = ep'.slots k → (handleO ep outside fresh now r app).1.slots k = (handleO ep' outside fresh now r app).1.slots k) := by
  have hs7' : ep'.szx ≤ 7 := by
    have : ep.szx = ep'.szx := congrArg Cfg.szx hc
    omega
  rw [handleO_local ep outside fresh now r app hs7 happ, handleO_local ep' outside fresh now r app hs7' happ]
  rw [← hc, ← hR, ← hF, ← getSentRequest_congr outside hR]
  refine ⟨rfl, ?_⟩
  intro k hk
  simp only [ep_put_slots, hk]

/-- … and without the slots of `fresh` when `r` is not an observe response -/
theorem handleO_congr_nobs (ep ep' : Endpoint) (outside : Outside) (fresh fresh' : Nat) (now : Int) (r : Msg) (app : App)
    (hs7 : ep.szx ≤ 7) (happ : AppBodyless app) (hno : isObserveResponse r = false)
    (hc : ep.toCfg = ep'.toCfg) (hR : ep.slots r.tok = ep'.slots r.tok) :
    (handleO ep outside fresh now r app).2 = (handleO ep' outside fresh' now r app).2 ∧
    (∀ k, ep.slots k = ep'.slots k → (handleO ep outside fresh now r app).1.slots k = (handleO ep' outside fresh' now r app).1.slots k) := by
  have hs7' : ep'.szx ≤ 7 := by
    have : ep.szx = ep'.szx := congrArg Cfg.szx hc
    omega
  rw [handleO_local ep outside fresh now r app hs7 happ, handleO_local ep' outside fresh' now r app hs7' happ]
  rw [← hc, ← hR, ← getSentRequest_congr outside hR]
  rw [(handleL_nobs ep.toCfg (ep.slots r.tok) (ep'.slots fresh') (ep.slots fresh) (getSentRequest ep outside r.tok) fresh' fresh
    now r app hno).1]
  refine ⟨rfl, ?_⟩
  intro k hk
  simp only [ep_put_slots, hk]


/-! ### STEP 2: two fetches under distinct fresh tokens do not mix -/

/-- a block of a block-wise notification that takes the observe branch: an observe response with a decodable Block2 option,
    a token, a response code that is neither a signal nor 2.31 (so `Handle` sends it down the receive path) -/
def firstBlockB (r : Msg) : Bool :=
  isObserveResponse r && reachesSent r .b2 && !isPostPut r.code && !isSignal r.code && wantsToBeReceived r

theorem reachesSent_not_getdelete {r : Msg} {bt : BT} (h : reachesSent r bt = true) : ¬ (r.code = codeGET ∨ r.code = codeDELETE) := by
  intro hc
  unfold reachesSent at h
  rcases hc with hc | hc <;> simp [hc] at h

/-- a first block whose observation is known writes under the FRESH token, whatever the state -/
theorem handleL_first (cfg : Cfg) (hs7 : cfg.szx ≤ 7) (sR sF : Slots) (s : Msg) (fresh : Nat) (now : Int) (r : Msg) (app : App)
    (hfb : firstBlockB r = true) : (handleL cfg sR sF (some s) fresh now r app).1 = fresh := by
  simp only [firstBlockB, Bool.and_eq_true, Bool.not_eq_true'] at hfb
  obtain ⟨⟨⟨⟨hobs, hreach⟩, hpp⟩, hsig⟩, hw⟩ := hfb
  have hgd := reachesSent_not_getdelete hreach
  have he : encodeBlock cfg.szx 0 true = .ok (blkVal cfg.szx 0 true) := encode_blkVal true hs7 (by decide)
  have hk : (handleRL cfg sR sF (some s) fresh now r app).key = fresh := by
    unfold handleRL
    simp only [he, hsig, Bool.false_eq_true, if_false, if_neg hgd, hpp]
    unfold procL
    simp only [hreach, hobs, and_self, if_true]
    split <;> rfl
  rw [← recvL_key _ r] at hk
  unfold handleL
  simp only [hw, if_true]
  split
  · exact hk
  · split <;> exact hk

/-- the arrivals of the fetch under `F` of the observation with token `T`: a first block (observe response for `T`, scripted
    token `F`), any message with token `F` that is not an observe response — and every sweep (sweeps belong to everybody) -/
def mine (T F : Nat) : ArrivalO → Bool
  | .msg _ r fr => (firstBlockB r && decide (r.tok = T) && decide (fr = F)) || (!isObserveResponse r && decide (r.tok = F))
  | .sweep _ => true

/-- arrivals that have nothing to do with `F` and do not write `T`: first blocks of a known observation fetched under another
    token than `F`, `T`; messages that are not observe responses with another token than `F`, `T` -/
def Foreign (outside : Outside) (T F : Nat) : ArrivalO → Prop
  | .msg _ r fr => (firstBlockB r = true ∧ (outside r.tok).isSome = true ∧ fr ≠ F ∧ fr ≠ T) ∨
                   (isObserveResponse r = false ∧ r.tok ≠ F ∧ r.tok ≠ T)
  | .sweep _ => False

theorem firstBlockB_obs {r : Msg} (h : firstBlockB r = true) : isObserveResponse r = true := by
  simp only [firstBlockB, Bool.and_eq_true] at h
  exact h.1.1.1.1

theorem foreign_not_mine {outside : Outside} {T F : Nat} {a : ArrivalO} (h : Foreign outside T F a) : mine T F a = false := by
  cases a with
  | sweep now => cases h
  | msg now r fr =>
    rcases h with ⟨h1, _, h3, _⟩ | ⟨h1, h2, _⟩
    · simp [mine, firstBlockB_obs h1, h3]
    · have : firstBlockB r = false := by
        cases hb : firstBlockB r with
        | false => rfl
        | true => rw [firstBlockB_obs hb] at h1; cases h1
      simp [mine, this, h2]

/-- the deliveries made while handling the arrivals selected by `p` -/
def runSel (p : ArrivalO → Bool) (app : App) (outside : Outside) : Endpoint → List ArrivalO → List Msg
  | _, [] => []
  | ep, a :: as => (if p a then (stepO app outside ep a).2 else []) ++ runSel p app outside (stepO app outside ep a).1 as

theorem runSel_all (app : App) (outside : Outside) (as : List ArrivalO) :
    ∀ ep, runSel (fun _ => true) app outside ep as = (runO app outside ep as).2 := by
  induction as with
  | nil => intro ep; rfl
  | cons a as ih => intro ep; simp only [runSel, runO, if_true, ih]

/-- the two endpoints look the same from the fetch under `F`: configuration, slots of the observation's token, slots of `F` -/
structure Agree (T F : Nat) (a b : Endpoint) : Prop where
  cfg : a.toCfg = b.toCfg
  sT : a.slots T = b.slots T
  sF : a.slots F = b.slots F

theorem sweep_slots (ep : Endpoint) (now : Int) (k : Nat) : (sweep ep now).slots k = sweepSlots (ep.slots k) now := rfl

theorem stepO_cfg (app : App) (outside : Outside) (ep : Endpoint) (x : ArrivalO) (hs7 : ep.szx ≤ 7) (happ : AppBodyless app) :
    (stepO app outside ep x).1.toCfg = ep.toCfg := by
  cases x with
  | sweep now => rfl
  | msg now r fr => exact (handleO_frame ep outside fr now r app hs7 happ).1

/-- an arrival of `F`'s fetch does the same to both endpoints -/
theorem step_mine (app : App) (outside : Outside) (T F : Nat)
    (happ : AppBodyless app) (a b : Endpoint) (hs7 : a.szx ≤ 7) (hab : Agree T F a b) (x : ArrivalO) (hx : mine T F x = true) :
    (stepO app outside a x).2 = (stepO app outside b x).2 ∧ Agree T F (stepO app outside a x).1 (stepO app outside b x).1 := by
  have hs7b : b.szx ≤ 7 := by
    have : a.szx = b.szx := congrArg Cfg.szx hab.cfg
    omega
  cases x with
  | sweep now =>
    refine ⟨rfl, ⟨?_, ?_, ?_⟩⟩
    · exact hab.cfg
    · simp only [stepO, sweep_slots, hab.sT]
    · simp only [stepO, sweep_slots, hab.sF]
  | msg now r fr =>
    have hca := (handleO_frame a outside fr now r app hs7 happ).1
    have hcb := (handleO_frame b outside fr now r app hs7b happ).1
    simp only [mine, Bool.or_eq_true, Bool.and_eq_true, decide_eq_true_eq, Bool.not_eq_true'] at hx
    rcases hx with ⟨⟨hfb, hrT⟩, hfr⟩ | ⟨hno, hrF⟩
    · -- a first block: reads the slots of `T` and `F`, writes under `F`
      subst hfr
      have hR : a.slots r.tok = b.slots r.tok := by rw [hrT]; exact hab.sT
      obtain ⟨h1, h2⟩ := handleO_congr a b outside fr now r app hs7 happ hab.cfg hR hab.sF
      refine ⟨congrArg (fun x => x.1.delivered) h1, ⟨?_, ?_, ?_⟩⟩
      · simp only [stepO]; rw [hca, hcb]; exact hab.cfg
      · exact h2 T hab.sT
      · exact h2 fr hab.sF
    · -- a later block: reads and writes the slots of `F` only
      have hR : a.slots r.tok = b.slots r.tok := by rw [hrF]; exact hab.sF
      obtain ⟨h1, h2⟩ := handleO_congr_nobs a b outside fr fr now r app hs7 happ hno hab.cfg hR
      refine ⟨congrArg (fun x => x.1.delivered) h1, ⟨?_, ?_, ?_⟩⟩
      · simp only [stepO]; rw [hca, hcb]; exact hab.cfg
      · exact h2 T hab.sT
      · exact h2 F hab.sF

/-- a foreign arrival leaves what `F`'s fetch sees as it was -/
theorem step_foreign (app : App) (outside : Outside) (T F : Nat) (happ : AppBodyless app) (a : Endpoint) (hs7 : a.szx ≤ 7)
    (x : ArrivalO) (hx : Foreign outside T F x) : Agree T F (stepO app outside a x).1 a := by
  cases x with
  | sweep now => cases hx
  | msg now r fr =>
    simp only [stepO]
    rcases hx with ⟨hfb, ho, hF, hT⟩ | ⟨hno, hF, hT⟩
    · obtain ⟨s, hs⟩ := getSentRequest_isSome a outside r.tok ho
      have hk := handleL_first a.toCfg hs7 (a.slots r.tok) (a.slots fr) s fr now r app hfb
      rw [handleO_local a outside fr now r app hs7 happ, hs]
      exact ⟨rfl, ep_put_slots_other a _ (by rw [hk]; exact fun h => hT h.symm),
        ep_put_slots_other a _ (by rw [hk]; exact fun h => hF h.symm)⟩
    · obtain ⟨hc, _, hfr⟩ := handleO_frame a outside fr now r app hs7 happ
      exact ⟨hc, hfr hno T (fun h => hT h.symm), hfr hno F (fun h => hF h.symm)⟩

theorem agree_trans {T F : Nat} {a b c : Endpoint} (h1 : Agree T F a b) (h2 : Agree T F b c) : Agree T F a c :=
  ⟨h1.cfg.trans h2.cfg, h1.sT.trans h2.sT, h1.sF.trans h2.sF⟩

/-- **notifications_do_not_mix (run level, general form).**  `T` is the token of an observation, `F` a fresh
    token, the application answers without bodies, the block size is legal.  For EVERY list of arrivals each of which is one
    of `F`'s fetch (`mine T F`: first blocks for `T` with scripted token `F`, any non-observe message with token `F`, sweeps)
    or `Foreign` to it (first blocks of known observations under other fresh tokens than `F`, `T`; non-observe messages with
    other tokens than `F`, `T` — any number of other fetches and exchanges), started in two states that look the same from `F`
    (`Agree`; the same state in particular): the deliveries made while handling `F`'s arrivals in the whole run are exactly
    the deliveries of the run over `F`'s arrivals alone, and the two final states again agree on the configuration and on the
    slots of `T` and `F`. -/
theorem runSel_filter (app : App) (outside : Outside) (T F : Nat)
    (happ : AppBodyless app) (as : List ArrivalO) :
    ∀ (a b : Endpoint), a.szx ≤ 7 → Agree T F a b → (∀ x ∈ as, mine T F x = true ∨ Foreign outside T F x) →
      runSel (mine T F) app outside a as = (runO app outside b (as.filter (mine T F))).2 ∧
      Agree T F (runO app outside a as).1 (runO app outside b (as.filter (mine T F))).1 := by
  induction as with
  | nil => intro a b _ hab _; exact ⟨rfl, hab⟩
  | cons x as ih =>
    intro a b hs7 hab hall
    have hs7' : (stepO app outside a x).1.szx ≤ 7 := by
      have : (stepO app outside a x).1.szx = a.szx := congrArg Cfg.szx (stepO_cfg app outside a x hs7 happ)
      omega
    have hrest : ∀ y ∈ as, mine T F y = true ∨ Foreign outside T F y := fun y hy => hall y (List.mem_cons_of_mem _ hy)
    rcases hall x List.mem_cons_self with hx | hx
    · obtain ⟨h1, h2⟩ := step_mine app outside T F happ a b hs7 hab x hx
      obtain ⟨i1, i2⟩ := ih _ _ hs7' h2 hrest
      simp only [runSel, List.filter, hx, if_true, runO]
      exact ⟨by rw [i1, h1], i2⟩
    · have hnm := foreign_not_mine hx
      have h2 := agree_trans (step_foreign app outside T F happ a hs7 x hx) hab
      obtain ⟨i1, i2⟩ := ih _ _ hs7' h2 hrest
      simp only [runSel, List.filter, hnm, Bool.false_eq_true, if_false, List.nil_append, runO]
      exact ⟨i1, i2⟩


theorem mine_other_foreign {outside : Outside} {T F G : Nat} (hGF : G ≠ F) (hGT : G ≠ T) (hout : (outside T).isSome = true)
    {x : ArrivalO} (hx : mine T G x = true) : mine T F x = true ∨ Foreign outside T F x := by
  cases x with
  | sweep now => exact Or.inl rfl
  | msg now r fr =>
    simp only [mine, Bool.or_eq_true, Bool.and_eq_true, decide_eq_true_eq, Bool.not_eq_true'] at hx
    rcases hx with ⟨⟨hfb, hrT⟩, hfr⟩ | ⟨hno, hrG⟩
    · exact Or.inr (Or.inl ⟨hfb, by rw [hrT]; exact hout, by rw [hfr]; exact hGF, by rw [hfr]; exact hGT⟩)
    · exact Or.inr (Or.inr ⟨hno, by rw [hrG]; exact hGF, by rw [hrG]; exact hGT⟩)

/-- **notifications_do_not_mix.**  Two notifications of the observation with token `T` (known to the observation table) are
    fetched under distinct fresh tokens `F ≠ G`, both different from `T`.  For EVERY interleaving `as` of arrivals of the two
    fetches — first blocks (observe responses for `T`, scripted token `F` resp. `G`), any messages with token `F` resp. `G`
    that are not observe responses (in any order, any number of times, anything missing), sweeps anywhere — from every state
    with a legal block size and for every application that answers without bodies: what is handed to the application while
    `F`'s arrivals are handled is exactly what the run over `F`'s arrivals alone hands on (sweeps are kept in both
    projections), the slots of `F` (and of `T`) end up the same, and likewise for `G`. -/
theorem notifications_do_not_mix (app : App) (outside : Outside) (T F G : Nat) (hFG : F ≠ G) (hFT : F ≠ T) (hGT : G ≠ T)
    (hout : (outside T).isSome = true) (happ : AppBodyless app) (ep : Endpoint) (hs7 : ep.szx ≤ 7) (as : List ArrivalO)
    (hall : ∀ x ∈ as, mine T F x = true ∨ mine T G x = true) :
    (runSel (mine T F) app outside ep as = (runO app outside ep (as.filter (mine T F))).2 ∧
     (runO app outside ep as).1.slots F = (runO app outside ep (as.filter (mine T F))).1.slots F) ∧
    (runSel (mine T G) app outside ep as = (runO app outside ep (as.filter (mine T G))).2 ∧
     (runO app outside ep as).1.slots G = (runO app outside ep (as.filter (mine T G))).1.slots G) := by
  have hrefl : ∀ X, Agree T X ep ep := fun X => ⟨rfl, rfl, rfl⟩
  constructor
  · obtain ⟨h1, h2⟩ := runSel_filter app outside T F happ as ep ep hs7 (hrefl F) (fun x hx => by
      rcases hall x hx with h | h
      · exact Or.inl h
      · exact mine_other_foreign (fun h => hFG h.symm) hGT hout h)
    exact ⟨h1, h2.sF⟩
  · obtain ⟨h1, h2⟩ := runSel_filter app outside T G happ as ep ep hs7 (hrefl G) (fun x hx => by
      rcases hall x hx with h | h
      · exact mine_other_foreign hFG hFT hout h
      · exact Or.inl h)
    exact ⟨h1, h2.sF⟩

/-! non-vacuity: two notifications of the observation of token 7 fetched under 900 and 901 in lock step -/
def xN : Msg := { code := 69, tok := 7, other := [(6, [5]), (12, [42])], body := exBody }
def xR : Msg := { code := 69, tok := 900, other := [(12, [42])], body := exBody }
def xN2 : Msg := { code := 69, tok := 7, other := [(6, [6]), (12, [42])], body := exRespBody }
def xR2 : Msg := { code := 69, tok := 901, other := [(12, [42])], body := exRespBody }
def xReq : Msg := { code := 1, tok := 7, other := [(6, []), (11, [99])] }
def xOutside : Outside := fun t => if t = 7 then some xReq else none
def xEp : Endpoint := { szx := 0, maxSize := 64, expiration := 1000 }
def xAs : List ArrivalO :=
  [.msg 0 (downloadBlock xN 0 64 0) 900, .msg 1 (downloadBlock xN2 0 64 0) 901,
   .msg 2 (downloadBlock xR 0 64 1) 0, .msg 3 (downloadBlock xR2 0 64 1) 0, .sweep 4,
   .msg 4 (downloadBlock xR 0 64 2) 0, .msg 5 (downloadBlock xR2 0 64 2) 0]

example : xAs.map (mine 7 900) = [true, false, true, false, true, true, false] ∧
    xAs.map (mine 7 901) = [false, true, false, true, true, false, true] ∧
    (runSel (mine 7 900) (fun _ => none) xOutside xEp xAs).map (·.body) = [exBody] ∧
    (runSel (mine 7 901) (fun _ => none) xOutside xEp xAs).map (·.body) = [exRespBody] ∧
    (runO (fun _ => none) xOutside xEp (xAs.filter (mine 7 900))).2.map (·.body) = [exBody] := by decide


/-! ### STEP 3: body-exactness for arbitrary arrivals, keyed by the CACHE KEY (not the token of the held message)

`HeldOK` / `Matches` / `GoodData` of `Lemmas/Blockwise.lean` without token, options and code: `processReceived` never looks at
the token or the other options of the held message; what it appends to is chosen by offset and ETag alone. -/

/-- the bytes held under key `k` are a prefix of the body being transferred under that key / ETag -/
def HeldB (R : Reg) (k : Nat) (c : Msg) : Prop := ∃ s, R k c.etag = some s ∧ c.body <+: s.body

/-- every data block of `r` is an aligned slice of the body transferred under key `k` and `r`'s ETag; a block without
    `more` ends that body -/
def GoodDataB (R : Reg) (k : Nat) (bt : BT) (r : Msg) : Prop :=
  ∀ blk szx num more, r.block bt = some blk → decodeBlock blk = .ok (szx, num, more) →
    ∃ s, R k r.etag = some s ∧ SliceAt s.body (num * sizeN szx) r.body ∧
      (more = false → num * sizeN szx + r.body.length = s.body.length)

theorem matchesB_unique {R : Reg} (hd : Discipline R) {k : Nat} {r c : Msg} {s s' : Supplied}
    (h1 : R k r.etag = some s) (h2 : R k c.etag = some s') (he : r.etag = c.etag ∨ r.etag = none ∨ c.etag = none) : s = s' := by
  rcases he with he | he | he
  · rw [he] at h1; rw [h1] at h2; exact Option.some.inj h2
  · rw [he] at h1
    cases hce : c.etag with
    | none => rw [hce] at h2; rw [h1] at h2; exact Option.some.inj h2
    | some e => rw [hce] at h2; exact hd k e s s' h1 h2
  · rw [he] at h2
    cases hre : r.etag with
    | none => rw [hre] at h1; rw [h1] at h2; exact Option.some.inj h2
    | some e => rw [hre] at h1; exact (hd k e s' s h2 h1).symm

theorem absorbB_ok {R : Reg} (hd : Discipline R) {k off : Nat} {r c0 : Msg} {s : Supplied}
    (hc : HeldB R k c0) (hr : R k r.etag = some s)
    (hs : off = (blockBase r c0 off).body.length → SliceAt s.body off r.body) :
    R k (absorb r c0 off).1.etag = some s ∧ (absorb r c0 off).1.body <+: s.body ∧
      ((absorb r c0 off).2 = true → off + r.body.length = s.body.length → (absorb r c0 off).1.body = s.body) := by
  obtain ⟨s', hm', hp'⟩ := hc
  have key : R k (blockBase r c0 off).etag = some s ∧ (blockBase r c0 off).body <+: s.body := by
    rcases blockBase_cases r c0 off with ⟨he, hcase⟩ | he
    · have : s = s' := matchesB_unique hd hr hm' hcase
      subst this
      rw [he]; exact ⟨hm', hp'⟩
    · rw [he]
      exact ⟨hr, List.nil_prefix⟩
  unfold absorb
  simp only []
  split
  · rename_i hoff
    have hsl := hs hoff
    rw [hoff] at hsl
    refine ⟨?_, ?_, ?_⟩
    · exact key.1
    · exact prefix_append_slice key.2 hsl
    · intro _ hend
      exact prefix_append_slice_complete key.2 hsl (by omega)
  · exact ⟨key.1, key.2, by intro h; cases h⟩

/-- **processReceived_invB.**  `processReceived` on the receiving slot of ANY key `k` — the token of the held message, its
    options and its code are not looked at: if what is held under `k` is a prefix of the body registered for `k` and the held
    ETag, and the block `r` is an aligned slice of the body registered for `k` and `r`'s ETag, then what is held afterwards is
    again such a prefix and everything handed on is `r` itself, unassembled (no token / GET / DELETE / no block option), or
    carries exactly the complete body registered for `k` under its ETag. -/
theorem processReceived_invB {R : Reg} (hd : Discipline R) (k : Nat) (cfg : Cfg) (sl : Slots) (now : Int) (w : Option Msg) (r : Msg)
    (maxSzx : Nat) (app : App) (bt : BT)
    (hg : reachesSent r bt = true → ¬ (bt = .b2 ∧ sl.snd = none) → GoodDataB R k bt r)
    (hinv : ∀ e, sl.rcv = some e → HeldB R k e.msg) :
    (∀ e, (processReceived cfg sl now w r maxSzx app bt).sl.rcv = some e → HeldB R k e.msg) ∧
    (∀ d ∈ (processReceived cfg sl now w r maxSzx app bt).delivered,
      (d = r ∧ (r.tok = 0 ∨ r.code = codeGET ∨ r.code = codeDELETE ∨ r.block bt = none)) ∨
      ∃ s, R k d.etag = some s ∧ d.body = s.body) := by
  unfold processReceived
  simp only []
  by_cases h0 : r.tok = 0
  · simp only [if_pos h0]; exact ⟨hinv, by intro d hdm; simp at hdm; exact Or.inl ⟨hdm, Or.inl h0⟩⟩
  simp only [if_neg h0]
  by_cases hgd : r.code = codeGET ∨ r.code = codeDELETE
  · simp only [if_pos hgd]
    refine ⟨hinv, ?_⟩
    intro d hdm; simp at hdm
    rcases hgd with h | h
    · exact Or.inl ⟨hdm, Or.inr (Or.inl h)⟩
    · exact Or.inl ⟨hdm, Or.inr (Or.inr (Or.inl h))⟩
  simp only [if_neg hgd]
  split
  · rename_i hb
    split
    · exact ⟨hinv, by intro d hdm; simp at hdm⟩
    · exact ⟨hinv, by intro d hdm; simp at hdm; exact Or.inl ⟨hdm, Or.inr (Or.inr (Or.inr hb))⟩⟩
  · rename_i blk hb
    split
    · exact ⟨hinv, by intro d hdm; simp at hdm⟩
    · rename_i szx0 num more hdec
      have hreach : reachesSent r bt = true := by
        have h1 : ¬ r.code = codeGET := fun h => hgd (Or.inl h)
        have h2 : ¬ r.code = codeDELETE := fun h => hgd (Or.inr h)
        unfold reachesSent
        simp [h0, h1, h2, hb, hdec]
      have hs7 : szx0 ≤ 7 := decode_szx_le hdec
      split
      · exact ⟨hinv, by intro d hdm; simp at hdm⟩
      · rename_i hns
        have hns' : ¬ (bt = .b2 ∧ sl.snd = none) := by
          intro hh; apply hns; refine ⟨hh.1, ?_⟩; rw [hh.2]; rfl
        obtain ⟨s, hm, hsl, hend⟩ := hg hreach hns' blk szx0 num more hb hdec
        split
        · -- nothing held
          split
          · rename_i hmore
            split
            · exact ⟨hinv, by intro d hdm; simp at hdm⟩
            · rename_i hnum
              refine ⟨hinv, ?_⟩
              intro d hdm; simp at hdm
              have hn0 : num = 0 := by
                have : ¬ num > 0 := fun hp => hnum ⟨rfl, hp⟩
                omega
              subst hn0
              refine Or.inr ⟨s, ?_⟩
              subst hdm
              have hlen := hend hmore
              simp at hlen hsl
              exact ⟨hm, slice_zero_complete hsl hlen⟩
          · -- first block of a new entry
            have hfresh : HeldB R k { r with body := [] } := ⟨s, hm, List.nil_prefix⟩
            have hab := absorbB_ok hd (off := num * sizeN (getSzx szx0 maxSzx)) hfresh hm (by
              intro hoff
              rw [blockBase_fresh] at hoff
              have hp : 0 < sizeN (getSzx szx0 maxSzx) := sizeN_pos (Nat.le_trans (getSzx_le_left _ _) hs7)
              have hn0 : num = 0 := by
                rcases Nat.eq_zero_or_pos num with h | h
                · exact h
                · have := Nat.mul_pos h hp; simp at hoff; omega
              subst hn0
              simpa using hsl)
            split
            · exact ⟨by intro e he; simp at he, by intro d hdm; simp at hdm⟩
            · refine ⟨?_, by intro d hdm; simp at hdm⟩
              intro e he
              simp at he
              subst he
              exact ⟨s, hab.1, hab.2.1⟩
        · -- an entry is held
          rename_i ent hlive
          have hheld := hinv ent (live_some hlive)
          have hab := absorbB_ok hd (off := num * sizeN szx0) hheld hm (fun _ => hsl)
          split
          · rename_i hdone
            refine ⟨by intro e he; simp at he, ?_⟩
            intro d hdm; simp at hdm
            subst hdm
            have hfull := hab.2.2 hdone.1 (hend hdone.2)
            obtain ⟨f1, f2, _, _, _⟩ := removeBlockSize_fields (absorb r ent.msg (num * sizeN szx0)).1 bt
            refine Or.inr ⟨s, ?_, ?_⟩
            · rw [f1]; exact hab.1
            · rw [f2]; exact hfull
          · split
            · exact ⟨by intro e he; simp at he, by intro d hdm; simp at hdm⟩
            · refine ⟨?_, by intro d hdm; simp at hdm⟩
              intro e he
              simp at he
              subst he
              exact ⟨s, hab.1, hab.2.1⟩


/-- the block option `handleReceivedMessage` reassembles by: Block1 for POST/PUT, Block2 otherwise -/
def btOf (r : Msg) : BT := if isPostPut r.code then .b1 else .b2

/-- `r` is handed on as it arrived: a signal, no token, GET/DELETE, or no block option of its direction -/
def PassThrough (r : Msg) : Prop :=
  isSignal r.code = true ∨ r.tok = 0 ∨ r.code = codeGET ∨ r.code = codeDELETE ∨ r.block (btOf r) = none

/-- `d` carries exactly the body registered under cache key `k` and `d`'s ETag -/
def CompleteB (R : Reg) (k : Nat) (d : Msg) : Prop := ∃ s, R k d.etag = some s ∧ d.body = s.body

theorem isObserveResponse_postPut {r : Msg} (h : isPostPut r.code = true) : isObserveResponse r = false := by
  have hc : r.code = 2 ∨ r.code = 3 := by
    simp only [isPostPut, Bool.or_eq_true, beq_iff_eq] at h
    exact h
  unfold isObserveResponse
  rcases hc with hc | hc <;> rw [hc] <;> simp [codeCreated]

theorem procL_invB {R : Reg} (hd : Discipline R) (cfg : Cfg) (sR sF : Slots) (sent : Option Msg) (fresh : Nat) (now : Int)
    (w : Option Msg) (r : Msg) (mx : Nat) (app : App) (bt : BT)
    (hgR : bt = .b1 ∨ isObserveResponse r = false → GoodDataB R r.tok bt r) (hgF : isObserveResponse r = true → GoodDataB R fresh bt r)
    (hR : ∀ e, sR.rcv = some e → HeldB R r.tok e.msg) (hF : ∀ e, sF.rcv = some e → HeldB R fresh e.msg) :
    (∀ e, (procL cfg sR sF sent fresh now w r mx app bt).sl.rcv = some e →
      HeldB R (procL cfg sR sF sent fresh now w r mx app bt).key e.msg) ∧
    (∀ d ∈ (procL cfg sR sF sent fresh now w r mx app bt).delivered,
      (d = r ∧ (r.tok = 0 ∨ r.code = codeGET ∨ r.code = codeDELETE ∨ r.block bt = none)) ∨
      CompleteB R (procL cfg sR sF sent fresh now w r mx app bt).key d) := by
  have hcase : ¬ (bt = .b2 ∧ isObserveResponse r = true) → bt = .b1 ∨ isObserveResponse r = false := by
    intro h
    cases bt with
    | b1 => exact Or.inl rfl
    | b2 =>
      cases ho : isObserveResponse r with
      | false => exact Or.inr rfl
      | true => exact absurd ⟨rfl, ho⟩ h
  unfold procL
  cases sent with
  | none =>
    exact processReceived_invB hd r.tok cfg ⟨none, sR.rcv⟩ now w r mx app bt
      (fun _ hns => hgR (hcase (fun h => hns ⟨h.1, rfl⟩))) hR
  | some s =>
    simp only []
    split
    · rename_i hc
      split
      · exact ⟨hF, by intro d hdm; cases hdm⟩
      · exact processReceived_invB hd fresh cfg ⟨_, sF.rcv⟩ now w r mx app bt (fun _ _ => hgF hc.2.2) hF
    · rename_i hc
      exact processReceived_invB hd r.tok cfg ⟨_, sR.rcv⟩ now w r mx app bt
        (fun hreach _ => hgR (hcase (fun h => hc ⟨hreach, h.1, h.2⟩))) hR

theorem handleRL_invB {R : Reg} (hd : Discipline R) (cfg : Cfg) (sR sF : Slots) (sent : Option Msg) (fresh : Nat) (now : Int)
    (r : Msg) (app : App)
    (hgR : isObserveResponse r = false → GoodDataB R r.tok (btOf r) r) (hgF : isObserveResponse r = true → GoodDataB R fresh (btOf r) r)
    (hR : ∀ e, sR.rcv = some e → HeldB R r.tok e.msg) (hF : ∀ e, sF.rcv = some e → HeldB R fresh e.msg) :
    (∀ e, (handleRL cfg sR sF sent fresh now r app).sl.rcv = some e →
      HeldB R (handleRL cfg sR sF sent fresh now r app).key e.msg) ∧
    (∀ d ∈ (handleRL cfg sR sF sent fresh now r app).delivered,
      (d = r ∧ PassThrough r) ∨ CompleteB R (handleRL cfg sR sF sent fresh now r app).key d) := by
  unfold handleRL
  cases encodeBlock cfg.szx 0 true with
  | error e => exact ⟨hR, by intro d hdm; cases hdm⟩
  | ok b =>
    simp only []
    by_cases hsig : isSignal r.code = true
    · simp only [hsig, if_true]
      exact ⟨hR, by intro d hdm; simp at hdm; exact Or.inl ⟨hdm, Or.inl hsig⟩⟩
    · simp only [hsig, Bool.false_eq_true, if_false]
      by_cases hgd : r.code = codeGET ∨ r.code = codeDELETE
      · simp only [if_pos hgd]
        refine ⟨hR, ?_⟩
        intro d hdm; simp at hdm
        rcases hgd with h | h
        · exact Or.inl ⟨hdm, Or.inr (Or.inr (Or.inl h))⟩
        · exact Or.inl ⟨hdm, Or.inr (Or.inr (Or.inr (Or.inl h)))⟩
      · simp only [if_neg hgd]
        have lift : ∀ bt, btOf r = bt → ∀ (x : Loc),
            ((∀ e, x.sl.rcv = some e → HeldB R x.key e.msg) ∧
             (∀ d ∈ x.delivered, (d = r ∧ (r.tok = 0 ∨ r.code = codeGET ∨ r.code = codeDELETE ∨ r.block bt = none)) ∨ CompleteB R x.key d)) →
            ((∀ e, x.sl.rcv = some e → HeldB R x.key e.msg) ∧ (∀ d ∈ x.delivered, (d = r ∧ PassThrough r) ∨ CompleteB R x.key d)) := by
          intro bt hbt x hx
          refine ⟨hx.1, ?_⟩
          intro d hdm
          rcases hx.2 d hdm with ⟨e1, e2⟩ | hc
          · refine Or.inl ⟨e1, ?_⟩
            rcases e2 with e | e | e | e
            · exact Or.inr (Or.inl e)
            · exact Or.inr (Or.inr (Or.inl e))
            · exact Or.inr (Or.inr (Or.inr (Or.inl e)))
            · exact Or.inr (Or.inr (Or.inr (Or.inr (by rw [hbt]; exact e))))
          · exact Or.inr hc
        by_cases hpp : isPostPut r.code = true
        · have hbt : btOf r = .b1 := by simp [btOf, hpp]
          simp only [hpp, if_true]
          rw [hbt] at hgR hgF
          exact lift .b1 hbt _ (procL_invB hd cfg sR sF sent fresh now none r _ app .b1
            (fun _ => hgR (isObserveResponse_postPut hpp)) hgF hR hF)
        · have hbt : btOf r = .b2 := by simp [btOf, hpp]
          simp only [hpp, Bool.false_eq_true, if_false]
          rw [hbt] at hgR hgF
          exact lift .b2 hbt _ (procL_invB hd cfg sR sF sent fresh now none r _ app .b2
            (fun h => by rcases h with h | h; cases h; exact hgR h) hgF hR hF)

theorem recvL_fields (h : Loc) (r : Msg) :
    (recvL h r).1 = h.key ∧ (recvL h r).2.1 = h.sl ∧ (recvL h r).2.2.1.delivered = h.delivered := by
  unfold recvL; split <;> exact ⟨rfl, rfl, rfl⟩

theorem handleS_continue (cfg : Cfg) (sl : Slots) (now : Int) (r : Msg) (app : App) (e : Entry)
    (ht : ¬ r.tok = 0) (hl : live sl.snd now = some e) (hw : ¬ wantsToBeReceived r = true) :
    (handleS cfg sl now r app).1.rcv = sl.rcv ∧ (handleS cfg sl now r app).2.delivered = [] := by
  unfold handleS
  simp only [if_neg ht, hl, hw, Bool.false_eq_true, if_false]
  split
  · exact ⟨rfl, rfl⟩
  · refine ⟨?_, rfl⟩
    split <;> rfl

theorem handleL_invB {R : Reg} (hd : Discipline R) (cfg : Cfg) (sR sF : Slots) (sent : Option Msg) (fresh : Nat) (now : Int)
    (r : Msg) (app : App)
    (hgR : isObserveResponse r = false → GoodDataB R r.tok (btOf r) r) (hgF : isObserveResponse r = true → GoodDataB R fresh (btOf r) r)
    (hR : ∀ e, sR.rcv = some e → HeldB R r.tok e.msg) (hF : ∀ e, sF.rcv = some e → HeldB R fresh e.msg) :
    (∀ e, (handleL cfg sR sF sent fresh now r app).2.1.rcv = some e →
      HeldB R (handleL cfg sR sF sent fresh now r app).1 e.msg) ∧
    (∀ d ∈ (handleL cfg sR sF sent fresh now r app).2.2.1.delivered,
      (d = r ∧ PassThrough r) ∨ CompleteB R (handleL cfg sR sF sent fresh now r app).1 d) := by
  have h := handleRL_invB hd cfg sR sF sent fresh now r app hgR hgF hR hF
  obtain ⟨f1, f2, f3⟩ := recvL_fields (handleRL cfg sR sF sent fresh now r app) r
  rw [← f1, ← f2, ← f3] at h
  unfold handleL
  by_cases ht : r.tok = 0
  · simp only [if_pos ht]; exact h
  · simp only [if_neg ht]
    cases hl : live sR.snd now with
    | none => exact h
    | some e =>
      simp only []
      by_cases hw : wantsToBeReceived r = true
      · simp only [hw, if_true]; exact h
      · simp only [hw, Bool.false_eq_true, if_false]
        obtain ⟨g1, g2⟩ := handleS_continue cfg sR now r app e ht hl hw
        rw [g1, g2]
        exact ⟨hR, by intro d hdm; cases hdm⟩

/-- every receiving entry holds a prefix of the body registered under ITS KEY and the held ETag -/
def EpInvB (R : Reg) (ep : Endpoint) : Prop := ∀ k e, ep.receiving k = some e → HeldB R k e.msg

/-- what is asked of an arrival: its data block is an aligned slice of the body registered under the key it is filed under —
    the message's token, or for an observe response (which is reassembled under the scripted fresh token or not at all) that
    fresh token -/
def GoodArrB (R : Reg) : ArrivalO → Prop
  | .msg _ r fr => (isObserveResponse r = false → GoodDataB R r.tok (btOf r) r) ∧
                   (isObserveResponse r = true → GoodDataB R fr (btOf r) r)
  | .sweep _ => True

/-- **handleO_invB.**  One `Handle` call of the observe-aware model keeps `EpInvB`, and every message it hands to the application
    is the arrived message itself, unassembled (`PassThrough`), or carries exactly the complete body registered under the key
    it was reassembled under — the message's token or the scripted fresh token — and its ETag. -/
theorem handleO_invB {R : Reg} (hd : Discipline R) (ep : Endpoint) (outside : Outside) (fresh : Nat) (now : Int) (r : Msg) (app : App)
    (hs7 : ep.szx ≤ 7) (happ : AppBodyless app) (hg : GoodArrB R (.msg now r fresh)) (hinv : EpInvB R ep) :
    EpInvB R (handleO ep outside fresh now r app).1 ∧
    (∀ d ∈ (handleO ep outside fresh now r app).2.1.delivered,
      (d = r ∧ PassThrough r) ∨ CompleteB R r.tok d ∨ CompleteB R fresh d) := by
  rw [handleO_local ep outside fresh now r app hs7 happ]
  obtain ⟨p1, p2⟩ := handleL_invB hd ep.toCfg (ep.slots r.tok) (ep.slots fresh) (getSentRequest ep outside r.tok) fresh now r app
    hg.1 hg.2 (hinv r.tok) (hinv fresh)
  constructor
  · intro k e he
    by_cases hk : k = (handleL ep.toCfg (ep.slots r.tok) (ep.slots fresh) (getSentRequest ep outside r.tok) fresh now r app).1
    · rw [hk] at he ⊢
      simp only [Endpoint.put, put_same] at he
      exact p1 e he
    · simp only [Endpoint.put, put_other _ _ hk] at he
      exact hinv k e he
  · intro d hdm
    rcases p2 d hdm with h | h
    · exact Or.inl h
    · rcases handleL_key ep.toCfg (ep.slots r.tok) (ep.slots fresh) (getSentRequest ep outside r.tok) fresh now r app with hk | hk
      · rw [hk] at h; exact Or.inr (Or.inl h)
      · rw [hk] at h; exact Or.inr (Or.inr h)

theorem sweep_invB {R : Reg} (ep : Endpoint) (now : Int) (hinv : EpInvB R ep) : EpInvB R (sweep ep now) := by
  intro k e he
  rcases sweep_receiving ep now k with hs | hs
  · rw [hs] at he; cases he
  · rw [hs] at he; exact hinv k e he

/-- **runO_body_exact (item 2, for arbitrary arrivals).**  From any state satisfying `EpInvB` (the empty caches in particular), for
    EVERY list of arrivals (any order, duplicates, losses, any tokens in between, any scripted fresh tokens, sweeps) whose data
    blocks are slices of what is registered for their cache key: every message handed to the application is one of the arrived
    messages handed on unassembled, or carries exactly the complete body registered under the key it was reassembled under
    (the token of the arrival or its scripted fresh token) and its ETag — never a part of a body, never a mixture. -/
theorem runO_body_exact {R : Reg} (hd : Discipline R) (app : App) (outside : Outside) (happ : AppBodyless app) (as : List ArrivalO) :
    ∀ (ep : Endpoint), ep.szx ≤ 7 → EpInvB R ep → (∀ a ∈ as, GoodArrB R a) →
      EpInvB R (runO app outside ep as).1 ∧
      ∀ d ∈ (runO app outside ep as).2,
        ∃ now r fr, ArrivalO.msg now r fr ∈ as ∧ ((d = r ∧ PassThrough r) ∨ CompleteB R r.tok d ∨ CompleteB R fr d) := by
  induction as with
  | nil => intro ep _ hinv _; exact ⟨hinv, by intro d hdm; cases hdm⟩
  | cons a as ih =>
    intro ep hs7 hinv hall
    have hs7' : (stepO app outside ep a).1.szx ≤ 7 := by
      have : (stepO app outside ep a).1.szx = ep.szx := congrArg Cfg.szx (stepO_cfg app outside ep a hs7 happ)
      omega
    have hstep : EpInvB R (stepO app outside ep a).1 ∧
        ∀ d ∈ (stepO app outside ep a).2,
          ∃ now r fr, ArrivalO.msg now r fr ∈ a :: as ∧ ((d = r ∧ PassThrough r) ∨ CompleteB R r.tok d ∨ CompleteB R fr d) := by
      cases a with
      | sweep now => exact ⟨sweep_invB ep now hinv, by intro d hdm; cases hdm⟩
      | msg now r fr =>
        obtain ⟨q1, q2⟩ := handleO_invB hd ep outside fr now r app hs7 happ (hall _ List.mem_cons_self) hinv
        exact ⟨q1, fun d hdm => ⟨now, r, fr, List.mem_cons_self, q2 d hdm⟩⟩
    obtain ⟨i1, i2⟩ := ih _ hs7' hstep.1 (fun a' ha' => hall a' (List.mem_cons_of_mem _ ha'))
    refine ⟨i1, ?_⟩
    intro d hdm
    simp only [runO, List.mem_append] at hdm
    rcases hdm with h | h
    · exact hstep.2 d h
    · obtain ⟨now, r, fr, hm, hh⟩ := i2 d h
      exact ⟨now, r, fr, List.mem_cons_of_mem _ hm, hh⟩


/-! ### the wording of item 2: one notification `N` fetched under the fresh key `F` -/

/-- the registry that knows one body: `N`'s, under the cache key `F` and `N`'s ETag -/
def regOne (F : Nat) (N : Msg) : Reg := fun k e => if k = F ∧ e = N.etag then some ⟨N.body, N.other, N.code⟩ else none

theorem regOne_discipline (F : Nat) (N : Msg) : Discipline (regOne F N) := by
  intro tok e s s' h1 h2
  unfold regOne at h1 h2
  split at h1
  · rename_i c1
    split at h2
    · rename_i c2
      have : (none : Option Bytes) = some e := c1.2.trans c2.2.symm
      cases this
    · cases h2
  · cases h1

/-- **nothing_before_last_block (arbitrary arrivals).**  A notification `N` is fetched under the fresh key `F`.  For EVERY list of
    arrivals (any order, duplicates, losses, sweeps, scripted tokens) whose data blocks — where they are reassembled at all —
    are filed under `F` and are aligned slices of `N`'s body with `N`'s ETag (`GoodArrB (regOne F N)`: nothing else is
    registered, so blocks with a data option under other keys are excluded; messages without block option, signals, GET/DELETE
    are free), from any state whose receiving cache satisfies the invariant (empty caches in particular): every message handed
    to the application is an arrived message handed on as it is, or carries `N`'s ETag and exactly `N`'s complete body. -/
theorem nothing_before_last_block (F : Nat) (N : Msg) (app : App) (outside : Outside) (happ : AppBodyless app) (as : List ArrivalO)
    (ep : Endpoint) (hs7 : ep.szx ≤ 7) (hinv : EpInvB (regOne F N) ep) (hall : ∀ a ∈ as, GoodArrB (regOne F N) a) :
    ∀ d ∈ (runO app outside ep as).2,
      (∃ now r fr, ArrivalO.msg now r fr ∈ as ∧ d = r ∧ PassThrough r) ∨ (d.etag = N.etag ∧ d.body = N.body) := by
  have hc : ∀ k d, CompleteB (regOne F N) k d → d.etag = N.etag ∧ d.body = N.body := by
    intro k d ⟨s, h1, h2⟩
    unfold regOne at h1
    split at h1
    · rename_i c
      injection h1 with h1
      rw [h2, ← h1]
      exact ⟨c.2, rfl⟩
    · cases h1
  intro d hdm
  obtain ⟨now, r, fr, hm, h⟩ := (runO_body_exact (regOne_discipline F N) app outside happ as ep hs7 hinv hall).2 d hdm
  rcases h with ⟨h1, h2⟩ | h | h
  · exact Or.inl ⟨now, r, fr, hm, h1, h2⟩
  · exact Or.inr (hc _ d h)
  · exact Or.inr (hc _ d h)

theorem epInvB_empty (R : Reg) (ep : Endpoint) (h : ∀ k, ep.receiving k = none) : EpInvB R ep := by
  intro k e he; rw [h k] at he; cases he

/-- the blocks `createSendingMessage` cuts out of a message are good data for any key its body is registered under -/
theorem goodDataB_downloadBlock (R : Reg) (k : Nat) (resp : Msg) (sup : Supplied) (s ms j : Nat) (hs : s ≤ 7) (hj : j < 2 ^ 20)
    (hoff : j * sizeN s ≤ resp.body.length) (hreg : R k resp.etag = some sup) (hb : sup.body = resp.body) :
    GoodDataB R k .b2 (downloadBlock resp s ms j) := by
  intro blk szx num more hblk hdec
  have hbk : (downloadBlock resp s ms j).block .b2 =
      some (blkVal s j (decide (j * sizeN s + ((resp.body.drop (j * sizeN s)).take (bufLen s ms)).length ≠ resp.body.length))) := rfl
  rw [hbk] at hblk
  injection hblk with hblk
  rw [← hblk, decode_blkVal _ hs hj] at hdec
  injection hdec with hdec
  injection hdec with h1 h2
  injection h2 with h2 h3
  subst h1 h2
  refine ⟨sup, hreg, ?_, ?_⟩
  · rw [hb]; exact sliceAt_take_drop _ _ _ hoff
  · intro hm
    rw [hb]
    rw [hm] at h3
    have : ¬ (j * sizeN s + ((resp.body.drop (j * sizeN s)).take (bufLen s ms)).length ≠ resp.body.length) := by
      intro hne; rw [decide_eq_true hne] at h3; cases h3
    exact Classical.not_not.mp this

/-- non-vacuity: the in-order fetch of `xN` under 900 (first block, a duplicate of it, a sweep, blocks 1 and 2) satisfies the
    hypotheses of `nothing_before_last_block`, and something IS delivered -/
def xAsF : List ArrivalO :=
  [.msg 0 (downloadBlock xN 0 64 0) 900, .msg 1 (downloadBlock xR 0 64 1) 0, .msg 1 (downloadBlock xR 0 64 1) 0, .sweep 2,
   .msg 3 (downloadBlock xR 0 64 2) 0]

example : (∀ a ∈ xAsF, GoodArrB (regOne 900 xN) a) ∧ EpInvB (regOne 900 xN) xEp ∧
    (runO (fun _ => none) xOutside xEp xAsF).2.map (·.body) = [exBody] := by
  have hreg : regOne 900 xN 900 none = some ⟨exBody, xN.other, xN.code⟩ := rfl
  refine ⟨?_, epInvB_empty _ _ (fun _ => rfl), by decide⟩
  intro a ha
  simp only [xAsF, List.mem_cons, List.not_mem_nil, or_false] at ha
  rcases ha with h | h | h | h | h <;> subst h
  · exact ⟨fun h => absurd h (by decide), fun _ => goodDataB_downloadBlock _ _ xN _ 0 64 0 (by decide) (by decide) (by decide) hreg rfl⟩
  · exact ⟨fun _ => goodDataB_downloadBlock _ _ xR _ 0 64 1 (by decide) (by decide) (by decide) hreg rfl, fun h => absurd h (by decide)⟩
  · exact ⟨fun _ => goodDataB_downloadBlock _ _ xR _ 0 64 1 (by decide) (by decide) (by decide) hreg rfl, fun h => absurd h (by decide)⟩
  · trivial
  · exact ⟨fun _ => goodDataB_downloadBlock _ _ xR _ 0 64 2 (by decide) (by decide) (by decide) hreg rfl, fun h => absurd h (by decide)⟩

end CoapVerif.Lemmas.BlockwiseFrame
