import CoapVerif.Go.Basic
import CoapVerif.Model.Blockwise
import CoapVerif.Model.BlockwiseObserve
import CoapVerif.Lemmas.Blockwise
/-!
Lemmas for the observe branch (`Model/BlockwiseObserve.lean`) and for the rounds of a fault-free transfer at the level of
`processReceived` (the step lemmas of `Lemmas/Blockwise.lean` are stated for `handleS`; the observe branch calls
`processReceived` on the slots of another key, so the same facts are needed one level below).
-/
namespace CoapVerif.Lemmas.BlockwiseObserve
open CoapVerif CoapVerif.Model.Blockwise CoapVerif.Model.BlockOpt CoapVerif.Generated.BlockwiseXfer
open CoapVerif.Model.BlockwiseObserve CoapVerif.Lemmas.Blockwise

/-- what a response must look like to be reassembled as a Block2 transfer: not a request, not a signal, not 2.31 -/
structure RespCode (c : Nat) : Prop where
  npp : isPostPut c = false
  nreq : isRequest c = false
  nsig : isSignal c = false
  ncont : c ≠ codeContinue

theorem RespCode.not_getdelete {c : Nat} (h : RespCode c) : ¬ (c = codeGET ∨ c = codeDELETE) := by
  intro hc
  have : isRequest c = true := by rcases hc with hc | hc <;> rw [hc] <;> decide
  rw [h.nreq] at this; cases this

theorem downloadBlock_payload_len (resp : Msg) {s : Nat} (ms j : Nat) (hs : s < 7) :
    ((resp.body.drop (j * sizeN s)).take (bufLen s ms)).length = min (sizeN s) (resp.body.length - j * sizeN s) := by
  rw [bufLen_small _ hs]; simp

/-- the block option of block `j` when more blocks follow / when it is the last one -/
theorem downloadBlock_block_more (resp : Msg) {s : Nat} (ms j : Nat) (hs : s < 7) (h : (j + 1) * sizeN s < resp.body.length) :
    (downloadBlock resp s ms j).block .b2 = some (blkVal s j true) := by
  have hm : decide (j * sizeN s + ((resp.body.drop (j * sizeN s)).take (bufLen s ms)).length ≠ resp.body.length) = true := by
    rw [downloadBlock_payload_len resp ms j hs]; simp; rw [Nat.add_mul] at h; omega
  show some (blkVal s j (decide (j * sizeN s + ((resp.body.drop (j * sizeN s)).take (bufLen s ms)).length ≠ resp.body.length))) = _
  rw [hm]

theorem downloadBlock_block_last (resp : Msg) {s : Nat} (ms j : Nat) (hs : s < 7) (hj : j * sizeN s ≤ resp.body.length)
    (h : resp.body.length ≤ (j + 1) * sizeN s) :
    (downloadBlock resp s ms j).block .b2 = some (blkVal s j false) := by
  have hm : decide (j * sizeN s + ((resp.body.drop (j * sizeN s)).take (bufLen s ms)).length ≠ resp.body.length) = false := by
    rw [downloadBlock_payload_len resp ms j hs]; simp; rw [Nat.add_mul] at h; omega
  show some (blkVal s j (decide (j * sizeN s + ((resp.body.drop (j * sizeN s)).take (bufLen s ms)).length ≠ resp.body.length))) = _
  rw [hm]

/-- a later block (`j ≥ 1`) meets exactly the first `j` blocks: it is appended -/
theorem absorb_later (resp : Msg) (ent : Entry) {s : Nat} (ms j : Nat) (hs : s < 7) (hj0 : 0 < j)
    (hheld : ent.msg.body = resp.body.take (j * sizeN s)) (hj : j * sizeN s ≤ resp.body.length) (hetag : ent.msg.etag = resp.etag) :
    absorb (downloadBlock resp s ms j) ent.msg (j * sizeN s) = ({ ent.msg with body := resp.body.take ((j + 1) * sizeN s) }, true) := by
  have hsz := sizeN_pos (by omega : s ≤ 7)
  have hbuf : bufLen s ms = sizeN s := bufLen_small _ hs
  have f3 : (downloadBlock resp s ms j).etag = resp.etag := rfl
  have hap : blockBase (downloadBlock resp s ms j) ent.msg (j * sizeN s) = ent.msg := by
    have hne0 : ¬ (block0Restarts = true ∧ j * sizeN s = 0) := by
      intro h; have := Nat.mul_pos hj0 hsz; omega
    unfold blockBase
    rw [if_neg hne0]
    rcases applyEtag_cases (downloadBlock resp s ms j) ent.msg with ⟨h, _⟩ | ⟨_, hne, _⟩
    · exact h
    · exact absurd (by rw [f3, hetag]) hne
  have hlen : ent.msg.body.length = j * sizeN s := by rw [hheld, List.length_take]; omega
  unfold absorb
  simp only [hap, hlen, if_true]
  have : ent.msg.body ++ (downloadBlock resp s ms j).body = resp.body.take ((j + 1) * sizeN s) := by
    rw [hheld, Nat.add_mul, Nat.one_mul, List.take_add]
    simp [downloadBlock, hbuf]
  rw [this]

/-- **requester, `processReceived` level, a later block that is not the last**: appended, the next block is asked for -/
theorem pr_later_more (cfg : Cfg) (resp req : Msg) (sexp : Int) (ent : Entry) (now : Int) (app : App) (ms j : Nat)
    (hs : cfg.szx < 7) (hrc : RespCode resp.code) (htok : resp.tok ≠ 0) (hlive : now ≤ ent.validUntil)
    (hheld : ent.msg.body = resp.body.take (j * sizeN cfg.szx)) (hj : j * sizeN cfg.szx ≤ resp.body.length)
    (hetag : ent.msg.etag = resp.etag) (hnum : j + 1 < 2 ^ 20) (hj0 : 0 < j)
    (hmore : (j + 1) * sizeN cfg.szx < resp.body.length) :
    processReceived cfg ⟨some ⟨req, sexp⟩, some ent⟩ now none (downloadBlock resp cfg.szx ms j) cfg.szx app .b2 =
      { sl := ⟨some ⟨req, sexp⟩, some ⟨{ ent.msg with body := resp.body.take ((j + 1) * sizeN cfg.szx) }, ent.validUntil⟩⟩,
        w := some (downloadReq req cfg.szx (j + 1)) } := by
  have hs7 : cfg.szx ≤ 7 := by omega
  have hsz := sizeN_pos hs7
  have f1 : (downloadBlock resp cfg.szx ms j).tok = resp.tok := rfl
  have f2 : (downloadBlock resp cfg.szx ms j).code = resp.code := rfl
  have hgd := hrc.not_getdelete
  have hlv : live (some ent) now = some ent := live_fresh _ _ hlive
  have habs := absorb_later resp ent ms j hs hj0 hheld hj hetag
  have hnb : ¬ (True ∧ (Option.map (fun x => x.msg) (some (⟨req, sexp⟩ : Entry))).isNone = true) := by
    intro h; simp at h
  have hblk := downloadBlock_block_more resp ms j hs hmore
  have hheld' : (resp.body.take ((j + 1) * sizeN cfg.szx)).length / sizeN cfg.szx = j + 1 := by
    rw [List.length_take, Nat.min_eq_left (by omega), Nat.mul_div_cancel _ hsz]
  unfold processReceived
  simp only [f1, if_neg htok, f2, if_neg hgd, hblk, decode_blkVal true hs7 (by omega : j < 2 ^ 20), hlv, habs]
  rw [if_neg hnb]
  simp only [Bool.true_eq_false, and_false, if_false, getSzx_eq_min, Nat.min_self]
  unfold blockReply
  simp only [Option.map, hheld']
  have hnr0 : (refusesBodylessRestart && decide (j + 1 = 0) && isPostPut req.code) = false := by simp
  rw [hnr0]
  simp only [Bool.false_eq_true, if_false]
  rw [encode_blkVal true hs7 hnum]
  rfl

/-- **requester, `processReceived` level, the last block**: the entry is removed and the complete message handed on -/
theorem pr_later_last (cfg : Cfg) (resp req : Msg) (sexp : Int) (ent : Entry) (now : Int) (app : App) (ms j : Nat)
    (hs : cfg.szx < 7) (hrc : RespCode resp.code) (htok : resp.tok ≠ 0) (hlive : now ≤ ent.validUntil)
    (hheld : ent.msg.body = resp.body.take (j * sizeN cfg.szx)) (hj : j * sizeN cfg.szx ≤ resp.body.length)
    (hetag : ent.msg.etag = resp.etag) (hnum : j + 1 < 2 ^ 20) (hj0 : 0 < j)
    (hlast : resp.body.length ≤ (j + 1) * sizeN cfg.szx) :
    processReceived cfg ⟨some ⟨req, sexp⟩, some ent⟩ now none (downloadBlock resp cfg.szx ms j) cfg.szx app .b2 =
      { sl := ⟨some ⟨req, sexp⟩, none⟩,
        w := next app none { ent.msg with body := resp.body, block2 := none, size2 := none },
        delivered := [{ ent.msg with body := resp.body, block2 := none, size2 := none }] } := by
  have hs7 : cfg.szx ≤ 7 := by omega
  have f1 : (downloadBlock resp cfg.szx ms j).tok = resp.tok := rfl
  have f2 : (downloadBlock resp cfg.szx ms j).code = resp.code := rfl
  have hgd := hrc.not_getdelete
  have hlv : live (some ent) now = some ent := live_fresh _ _ hlive
  have habs := absorb_later resp ent ms j hs hj0 hheld hj hetag
  have hnb : ¬ (True ∧ (Option.map (fun x => x.msg) (some (⟨req, sexp⟩ : Entry))).isNone = true) := by
    intro h; simp at h
  have hblk := downloadBlock_block_last resp ms j hs hj hlast
  have htake : resp.body.take ((j + 1) * sizeN cfg.szx) = resp.body := List.take_of_length_le hlast
  unfold processReceived
  simp only [f1, if_neg htok, f2, if_neg hgd, hblk, decode_blkVal false hs7 (by omega : j < 2 ^ 20), hlv, habs]
  rw [if_neg hnb]
  simp only [and_self, if_true, htake]
  simp [Msg.removeBlockSize]

/-- block 0 of a body of more than one block, as `createSendingMessage` cuts it -/
theorem downloadBlock_zero_body (resp : Msg) {s : Nat} (ms : Nat) (hs : s < 7) :
    (downloadBlock resp s ms 0).body = resp.body.take (sizeN s) := by
  simp [downloadBlock, bufLen_small _ hs]

/-- **requester, `processReceived` level, a first block** `r` (Block2 0 / more, exactly one block of payload) when nothing
    live is held: a new entry holding exactly this block — the block itself, token included — is made, valid until the sent
    request's deadline or `now + expiration`, and block 1 is asked for with the sent request as template -/
theorem pr_first_gen (cfg : Cfg) (r req : Msg) (sexp : Int) (rcv : Option Entry) (now : Int) (app : App)
    (hs : cfg.szx < 7) (hrc : RespCode r.code) (htok : r.tok ≠ 0) (hfree : live rcv now = none)
    (hblk : r.block .b2 = some (blkVal cfg.szx 0 true)) (hbl : r.body.length = sizeN cfg.szx) :
    processReceived cfg ⟨some ⟨req, sexp⟩, rcv⟩ now none r cfg.szx app .b2 =
      { sl := ⟨some ⟨req, sexp⟩, some ⟨r, match req.deadline with | some d => d | none => now + cfg.expiration⟩⟩,
        w := some (downloadReq req cfg.szx 1) } := by
  have hs7 : cfg.szx ≤ 7 := by omega
  have hsz := sizeN_pos hs7
  have hgd := hrc.not_getdelete
  have hnb : ¬ (True ∧ (Option.map (fun x => x.msg) (some (⟨req, sexp⟩ : Entry))).isNone = true) := by
    intro h; simp at h
  have hr0 : block0Restarts = true := rfl
  have habs : absorb r { r with body := [] } (0 * sizeN cfg.szx) = (r, true) := by
    unfold absorb blockBase
    simp [hr0]
  unfold processReceived
  simp only [if_neg htok, if_neg hgd, hblk, decode_blkVal true hs7 (by omega : 0 < 2 ^ 20), hfree]
  rw [if_neg hnb]
  simp only [Bool.true_eq_false, if_false, getSzx_eq_min, Nat.min_self, habs, hbl]
  unfold blockReply
  simp only [Option.map, Nat.div_self hsz]
  have hnr0 : (refusesBodylessRestart && decide (1 = 0) && isPostPut req.code) = false := by simp
  rw [hnr0]
  simp only [Bool.false_eq_true, if_false]
  rw [encode_blkVal true hs7 (by omega : 1 < 2 ^ 20)]
  rfl

theorem pr_first (cfg : Cfg) (resp req : Msg) (sexp : Int) (rcv : Option Entry) (now : Int) (app : App) (ms : Nat)
    (hs : cfg.szx < 7) (hrc : RespCode resp.code) (htok : resp.tok ≠ 0) (hfree : live rcv now = none)
    (hmore : sizeN cfg.szx < resp.body.length) :
    processReceived cfg ⟨some ⟨req, sexp⟩, rcv⟩ now none (downloadBlock resp cfg.szx ms 0) cfg.szx app .b2 =
      { sl := ⟨some ⟨req, sexp⟩, some ⟨downloadBlock resp cfg.szx ms 0,
                                       match req.deadline with | some d => d | none => now + cfg.expiration⟩⟩,
        w := some (downloadReq req cfg.szx 1) } := by
  have hbl : (downloadBlock resp cfg.szx ms 0).body.length = sizeN cfg.szx := by
    rw [downloadBlock_zero_body resp ms hs, List.length_take]; omega
  exact pr_first_gen cfg (downloadBlock resp cfg.szx ms 0) req sexp rcv now app hs hrc htok hfree
    (downloadBlock_block_more resp ms 0 hs (by omega)) hbl

/-! ### `Handle` with the observe branch: shape for a Block2 data block -/

theorem wants_of_respCode {r : Msg} (hrc : RespCode r.code) (hb1 : r.block1 = none) : wantsToBeReceived r = true := by
  unfold wantsToBeReceived
  simp [hb1, hrc.nreq]
  exact hrc.ncont

theorem handleO_of_wants (ep : Endpoint) (outside : Outside) (fresh : Nat) (now : Int) (r : Msg) (app : App)
    (hw : wantsToBeReceived r = true) :
    handleO ep outside fresh now r app =
      (if (handleReceivedO ep outside fresh now r app).failed then
        ((handleReceivedO ep outside fresh now r app).ep,
         { reply := some (entityIncomplete r.tok), delivered := (handleReceivedO ep outside fresh now r app).delivered, err := true },
         (handleReceivedO ep outside fresh now r app).drew)
       else ((handleReceivedO ep outside fresh now r app).ep,
             { reply := (handleReceivedO ep outside fresh now r app).w, delivered := (handleReceivedO ep outside fresh now r app).delivered },
             (handleReceivedO ep outside fresh now r app).drew)) := by
  unfold handleO
  simp only [hw, if_true]
  split
  · rfl
  · split <;> rfl

theorem handleReceivedO_b2 (ep : Endpoint) (outside : Outside) (fresh : Nat) (now : Int) (r : Msg) (app : App)
    (hs7 : ep.szx ≤ 7) (hrc : RespCode r.code) :
    handleReceivedO ep outside fresh now r app =
      finishReceivedO now (processReceivedO ep outside fresh now none r (fitSZX r .b2 ep.szx) app .b2)
        (fitSZX r .b2 ep.szx) (blkVal ep.szx 0 true) := by
  unfold handleReceivedO
  have he : encodeBlock ep.szx 0 true = .ok (blkVal ep.szx 0 true) := encode_blkVal true hs7 (by decide)
  simp only [he, hrc.nsig, Bool.false_eq_true, if_false, if_neg hrc.not_getdelete, hrc.npp]

theorem fitSZX_downloadBlock (resp : Msg) {s : Nat} (ms j : Nat) (hs : s < 7) (hj : j < 2 ^ 20) :
    fitSZX (downloadBlock resp s ms j) .b2 s = s := by
  have hdecode := decode_blkVal (szx := s) (num := j)
    (decide (j * sizeN s + ((resp.body.drop (j * sizeN s)).take (bufLen s ms)).length ≠ resp.body.length)) (by omega) hj
  rw [fitSZX_some (v := blkVal s j _) s rfl hdecode]; omega

theorem reachesSent_downloadBlock (resp : Msg) {s : Nat} (ms j : Nat) (hs : s < 7) (hj : j < 2 ^ 20)
    (hrc : RespCode resp.code) (htok : resp.tok ≠ 0) : reachesSent (downloadBlock resp s ms j) .b2 = true := by
  have hdecode := decode_blkVal (szx := s) (num := j)
    (decide (j * sizeN s + ((resp.body.drop (j * sizeN s)).take (bufLen s ms)).length ≠ resp.body.length)) (by omega) hj
  have hgd := hrc.not_getdelete
  have f1 : (downloadBlock resp s ms j).tok = resp.tok := rfl
  have f2 : (downloadBlock resp s ms j).code = resp.code := rfl
  have hb : (downloadBlock resp s ms j).block .b2 = some (blkVal s j (decide (j * sizeN s + ((resp.body.drop (j * sizeN s)).take (bufLen s ms)).length ≠ resp.body.length))) := rfl
  unfold reachesSent
  rw [hb, f1, f2]
  simp only [hdecode]
  have h1 : ¬ resp.code = codeGET := fun h => hgd (Or.inl h)
  have h2 : ¬ resp.code = codeDELETE := fun h => hgd (Or.inr h)
  simp [htok, h1, h2]

theorem put_self (c : Cache) (k : Nat) : c.put k (c k) = c := by
  funext k'
  simp only [Cache.put]
  split
  · rename_i h; rw [h]
  · rfl

/-- a follow-up request (no body) is sent as it is: `startSendingMessage` leaves the caches alone -/
theorem finishReceivedO_request (now : Int) (h : ResO) (q : Msg) (mx blk : Nat) (hs7 : mx ≤ 7)
    (hf : h.failed = false) (hw : h.w = some q) (hq : q.body = []) :
    finishReceivedO now h mx blk = h := by
  unfold finishReceivedO
  simp only [hf, hw, Bool.false_eq_true, if_false]
  unfold startSendingSO
  have hle : startDirectIsLe = false := rfl
  have hfits : fits startDirectIsLe q.body.length (sizeN mx) = true := by
    simp [fits, hle, hq, sizeN_pos hs7]
  simp only [hfits, if_true, put_self]
  cases h with
  | mk ep w d f dr =>
    simp only at hw hf
    subst hw hf
    cases ep
    rfl

theorem put_put_same (ep : Endpoint) (F : Nat) (x : Option Entry) (sl : Slots) :
    ({ ep with sending := ep.sending.put F x } : Endpoint).put F sl = ep.put F sl := by
  unfold Endpoint.put
  congr 1
  funext k
  simp only [Cache.put]
  split <;> rfl

theorem downloadReq_body (req : Msg) (s j : Nat) : (downloadReq req s j).body = [] := rfl
theorem downloadReq_tok (req : Msg) (s j : Nat) : (downloadReq req s j).tok = req.tok := rfl

/-- the endpoint while a block-wise notification is being fetched under the fresh token `F`: the clone of the
    observation's request in the sending cache, the reassembly entry in the receiving cache -/
def fetching (ep : Endpoint) (F : Nat) (clone : Entry) (ent : Entry) : Endpoint := ep.put F ⟨some clone, some ent⟩

/-- **first block of a block-wise notification.**  The observation's request is found (sending cache of the original
    token or the observation table), the fresh token `F` is free: the clone of the request is stored under `F` in the
    sending cache, the reassembly entry — the notification's first block, ORIGINAL token — under `F` in the receiving
    cache, both valid until `now + expiration`; the answer is the request without Observe, with token `F`, for block 1;
    nothing is handed on. -/
theorem handleO_first (ep : Endpoint) (outside : Outside) (F : Nat) (now : Int) (N req : Msg) (app : App) (ms : Nat)
    (hs : ep.szx < 7) (hrc : RespCode N.code) (hobs : isObserveResponse N = true) (htok : N.tok ≠ 0) (hb1 : N.block1 = none)
    (hmore : sizeN ep.szx < N.body.length)
    (hsent : getSentRequest ep outside N.tok = some req)
    (hfs : live (ep.sending F) now = none) (hfr : live (ep.receiving F) now = none) :
    handleO ep outside F now (downloadBlock N ep.szx ms 0) app =
      (fetching ep F ⟨cloneFor req F, now + ep.expiration⟩ ⟨downloadBlock N ep.szx ms 0, now + ep.expiration⟩,
       { reply := some (downloadReq (removeObserve { req with tok := F, deadline := none }) ep.szx 1) }, true) := by
  have hs7 : ep.szx ≤ 7 := by omega
  have hrc' : RespCode (downloadBlock N ep.szx ms 0).code := hrc
  have hw := wants_of_respCode hrc' hb1
  have hfit := fitSZX_downloadBlock N ms 0 hs (by omega)
  have hreach := reachesSent_downloadBlock N ms 0 hs (by omega) hrc htok
  have hobs' : isObserveResponse (downloadBlock N ep.szx ms 0) = true := hobs
  have hpro : processReceivedO ep outside F now none (downloadBlock N ep.szx ms 0) ep.szx app .b2 =
      { ep := fetching ep F ⟨cloneFor req F, now + ep.expiration⟩ ⟨downloadBlock N ep.szx ms 0, now + ep.expiration⟩,
        w := some (downloadReq (removeObserve { req with tok := F, deadline := none }) ep.szx 1), drew := true } := by
    unfold processReceivedO
    have f1 : (downloadBlock N ep.szx ms 0).tok = N.tok := rfl
    simp only [f1, hsent, hreach, hobs', and_self, if_true]
    unfold storeIfAbsent
    simp only [hfs, Bool.false_eq_true, if_false]
    have hrcv : ({ ep with sending := ep.sending.put F (some ⟨cloneFor req F, now + ep.toCfg.expiration⟩) } : Endpoint).receiving F = ep.receiving F := rfl
    rw [hrcv, hfr]
    have hp := pr_first ep.toCfg N (removeObserve { req with tok := F, deadline := none }) 0 (ep.receiving F) now app ms hs hrc htok hfr hmore
    rw [hp]
    have hd : (removeObserve { req with tok := F, deadline := none }).deadline = none := rfl
    simp only [writeBack, Option.isSome, Bool.false_and, Bool.false_eq_true, if_false, hd, put_put_same, fetching]
    rw [put_same]
  rw [handleO_of_wants _ _ _ _ _ _ hw, handleReceivedO_b2 _ _ _ _ _ _ hs7 hrc', hfit, hpro]
  have hfin' := finishReceivedO_request now
      { ep := fetching ep F ⟨cloneFor req F, now + ep.expiration⟩ ⟨downloadBlock N ep.szx ms 0, now + ep.expiration⟩,
        w := some (downloadReq (removeObserve { req with tok := F, deadline := none }) ep.szx 1), drew := true }
      (downloadReq (removeObserve { req with tok := F, deadline := none }) ep.szx 1) ep.szx (blkVal ep.szx 0 true) hs7 rfl rfl rfl
  rw [hfin']
  simp

theorem getSentRequest_of_sending {ep : Endpoint} {outside : Outside} {tok : Nat} {e : Entry} (h : ep.sending tok = some e) :
    getSentRequest ep outside tok = some e.msg := by
  unfold getSentRequest; rw [h]

/-- **a later block under the fresh token that is not the last one**: appended under the fresh key, the next block is asked
    for with the clone of the request (without Observe) as template; nothing is handed on, no token is drawn -/
theorem handleO_later_more (ep : Endpoint) (outside : Outside) (fr : Nat) (now : Int) (R c : Msg) (vs : Int) (ent : Entry)
    (app : App) (ms j : Nat)
    (hs : ep.szx < 7) (hrc : RespCode R.code) (hnobs : isObserveResponse R = false) (htok : R.tok ≠ 0) (hb1 : R.block1 = none)
    (hsnd : ep.sending R.tok = some ⟨c, vs⟩) (hrcv : ep.receiving R.tok = some ent) (hlive : now ≤ ent.validUntil)
    (hheld : ent.msg.body = R.body.take (j * sizeN ep.szx)) (hj : j * sizeN ep.szx ≤ R.body.length)
    (hetag : ent.msg.etag = R.etag) (hnum : j + 1 < 2 ^ 20) (hj0 : 0 < j)
    (hmore : (j + 1) * sizeN ep.szx < R.body.length) :
    handleO ep outside fr now (downloadBlock R ep.szx ms j) app =
      (ep.put R.tok ⟨some ⟨c, vs⟩, some ⟨{ ent.msg with body := R.body.take ((j + 1) * sizeN ep.szx) }, ent.validUntil⟩⟩,
       { reply := some (downloadReq (removeObserve c) ep.szx (j + 1)) }, false) := by
  have hs7 : ep.szx ≤ 7 := by omega
  have hrc' : RespCode (downloadBlock R ep.szx ms j).code := hrc
  have hw := wants_of_respCode hrc' hb1
  have hfit := fitSZX_downloadBlock R ms j hs (by omega)
  have hnobs' : isObserveResponse (downloadBlock R ep.szx ms j) = false := hnobs
  have hpro : processReceivedO ep outside fr now none (downloadBlock R ep.szx ms j) ep.szx app .b2 =
      { ep := ep.put R.tok ⟨some ⟨c, vs⟩, some ⟨{ ent.msg with body := R.body.take ((j + 1) * sizeN ep.szx) }, ent.validUntil⟩⟩,
        w := some (downloadReq (removeObserve c) ep.szx (j + 1)) } := by
    unfold processReceivedO
    have f1 : (downloadBlock R ep.szx ms j).tok = R.tok := rfl
    simp only [f1, getSentRequest_of_sending hsnd, hnobs', Bool.false_eq_true, and_false, if_false, hrcv]
    have hp := pr_later_more ep.toCfg R (removeObserve c) 0 ent now app ms j hs hrc htok hlive hheld hj hetag hnum hj0 hmore
    rw [hp]
    simp only [writeBack, List.any_nil, Bool.and_false, Bool.false_eq_true, if_false, hsnd]
  rw [handleO_of_wants _ _ _ _ _ _ hw, handleReceivedO_b2 _ _ _ _ _ _ hs7 hrc', hfit, hpro]
  rw [finishReceivedO_request now _ (downloadReq (removeObserve c) ep.szx (j + 1)) ep.szx (blkVal ep.szx 0 true) hs7 rfl rfl rfl]
  simp

/-- **the last block under the fresh token**: the complete message — the notification's first block with the whole body,
    ORIGINAL token — is handed on once; both slots of the fresh key are empty afterwards (the reassembly entry is deleted,
    and the clone of the request too because the held message carries another token than the key's) -/
theorem handleO_later_last (ep : Endpoint) (outside : Outside) (fr : Nat) (now : Int) (R c : Msg) (vs : Int) (ent : Entry)
    (app : App) (ms j : Nat)
    (hs : ep.szx < 7) (hrc : RespCode R.code) (hnobs : isObserveResponse R = false) (htok : R.tok ≠ 0) (hb1 : R.block1 = none)
    (hsnd : ep.sending R.tok = some ⟨c, vs⟩) (hrcv : ep.receiving R.tok = some ent) (hlive : now ≤ ent.validUntil)
    (hheld : ent.msg.body = R.body.take (j * sizeN ep.szx)) (hj : j * sizeN ep.szx ≤ R.body.length)
    (hetag : ent.msg.etag = R.etag) (hnum : j + 1 < 2 ^ 20) (hj0 : 0 < j)
    (hlast : R.body.length ≤ (j + 1) * sizeN ep.szx) (horig : ent.msg.tok ≠ R.tok)
    (happ : app { ent.msg with body := R.body, block2 := none, size2 := none } = none) :
    handleO ep outside fr now (downloadBlock R ep.szx ms j) app =
      (ep.put R.tok ⟨none, none⟩,
       { delivered := [{ ent.msg with body := R.body, block2 := none, size2 := none }] }, false) := by
  have hs7 : ep.szx ≤ 7 := by omega
  have hrc' : RespCode (downloadBlock R ep.szx ms j).code := hrc
  have hw := wants_of_respCode hrc' hb1
  have hfit := fitSZX_downloadBlock R ms j hs (by omega)
  have hnobs' : isObserveResponse (downloadBlock R ep.szx ms j) = false := hnobs
  have hreach := reachesSent_downloadBlock R ms j hs (by omega) hrc htok
  have hpro : processReceivedO ep outside fr now none (downloadBlock R ep.szx ms j) ep.szx app .b2 =
      { ep := ep.put R.tok ⟨none, none⟩, w := none,
        delivered := [{ ent.msg with body := R.body, block2 := none, size2 := none }] } := by
    unfold processReceivedO
    have f1 : (downloadBlock R ep.szx ms j).tok = R.tok := rfl
    simp only [f1, getSentRequest_of_sending hsnd, hnobs', Bool.false_eq_true, and_false, if_false, hrcv]
    have hp := pr_later_last ep.toCfg R (removeObserve c) 0 ent now app ms j hs hrc htok hlive hheld hj hetag hnum hj0 hlast
    rw [hp]
    have hlv : live (some ent) now = some ent := live_fresh _ _ hlive
    have hnx : next app none { ent.msg with body := R.body, block2 := none, size2 := none } = none := by
      unfold next; rw [happ]
    simp only [writeBack, hreach, hlv, Option.isSome, Bool.and_self, Bool.true_and, List.any_cons, List.any_nil, Bool.or_false, hnx]
    have hne : (ent.msg.tok != R.tok) = true := by simp [horig]
    simp only [hne, if_true]
  rw [handleO_of_wants _ _ _ _ _ _ hw, handleReceivedO_b2 _ _ _ _ _ _ hs7 hrc', hfit, hpro]
  unfold finishReceivedO
  simp

end CoapVerif.Lemmas.BlockwiseObserve
