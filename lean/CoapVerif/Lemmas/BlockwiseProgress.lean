import CoapVerif.Go.Basic
import CoapVerif.Model.Blockwise
import CoapVerif.Lemmas.Blockwise
import CoapVerif.Lemmas.BlockwiseObserve
namespace CoapVerif.Lemmas.BlockwiseProgress
open CoapVerif CoapVerif.Model.Blockwise CoapVerif.Model.BlockOpt CoapVerif.Generated.BlockwiseXfer
open CoapVerif.Lemmas.Blockwise CoapVerif.Lemmas.BlockwiseObserve

/-- the messages handed to the applications, in order -/
def delivs (evs : List Event) : List (Side × Msg) :=
  evs.filterMap (fun e => match e with | .deliver s d => some (s, d) | _ => none)

/-- number of `errors` callbacks and returns of `Do` among the events -/
def troubles (evs : List Event) : Nat :=
  (evs.filter (fun e => match e with | .errcb _ => true | .ret _ _ => true | _ => false)).length

/-- the expiry `Do` gives the entry of its request -/
def doExpire (r : Msg) : Int := match r.deadline with | some d => d | none => never

/-- what is in flight after the last block of the upload was handled by B -/
def respQueue (app : App) (r : Msg) : List Packet :=
  match app (onWire r) with
  | some x => [⟨.A, onWire { x with tok := r.tok }⟩]
  | none => []

def exShortApp : App := fun d => if d.code = 2 ∧ d.tok = 7 then some { code := 68, tok := 9, other := [(12, [42])], body := [1, 2, 3] } else none
def exW : World := { exWorld with appB := exShortApp }

example :
    delivs (World.run exW (Op.doReq exReq :: List.replicate (2 * 3 - 1) (Op.fault .deliver))).2 = [(.B, onWire exReq)] ∧
    troubles (World.run exW (Op.doReq exReq :: List.replicate (2 * 3 - 1) (Op.fault .deliver))).2 = 0 ∧
    (World.run exW (Op.doReq exReq :: List.replicate (2 * 3 - 1) (Op.fault .deliver))).1.queue = respQueue exShortApp exReq := by decide

/-! ### `handleS`-level first and last round of the upload -/

theorem uploadBlock_ms (r : Msg) {s : Nat} (ms j : Nat) (hs : s < 7) : uploadBlock r s ms j = uploadBlock r s 0 j := by
  unfold uploadBlock
  rw [bufLen_small ms hs, bufLen_small 0 hs]

theorem upload_payload_len (r : Msg) {s : Nat} (ms j : Nat) (hs : s < 7) :
    ((r.body.drop (j * sizeN s)).take (bufLen s ms)).length = min (sizeN s) (r.body.length - j * sizeN s) := by
  rw [bufLen_small _ hs]; simp

/-- the receive path of `Handle` for a Block1 block of a POST/PUT when nothing is being sent under the token -/
theorem handleS_upload_shape (cfg : Cfg) (r : Msg) (rcv : Option Entry) (now : Int) (app : App) (ms k : Nat)
    (hs : cfg.szx < 7) (hpp : isPostPut r.code = true) (htok : r.tok ≠ 0) (hnum : k < 2 ^ 20) :
    handleS cfg ⟨none, rcv⟩ now (uploadBlock r cfg.szx ms k) app =
      (let h := finishReceived cfg now (processReceived cfg ⟨none, rcv⟩ now none (uploadBlock r cfg.szx ms k) cfg.szx app .b1)
          cfg.szx (blkVal cfg.szx 0 true)
       if h.failed then (h.sl, { reply := some (entityIncomplete r.tok), delivered := h.delivered, err := true })
       else (h.sl, { reply := h.w, delivered := h.delivered })) := by
  have hs7 : cfg.szx ≤ 7 := by omega
  obtain ⟨f1, f2, f3, _⟩ := uploadBlock_fields r cfg.szx ms k
  have hcode : r.code = codePOST ∨ r.code = codePUT := by simpa [isPostPut] using hpp
  have hsig : isSignal r.code = false := by rcases hcode with h | h <;> rw [h] <;> decide
  have hgd : ¬ (r.code = codeGET ∨ r.code = codeDELETE) := by
    rcases hcode with h | h <;> rw [h] <;> decide
  have hfit : fitSZX (uploadBlock r cfg.szx ms k) .b1 cfg.szx = cfg.szx := by
    rw [fitSZX_some (v := blkVal cfg.szx k _) cfg.szx rfl (decode_blkVal _ hs7 hnum)]; omega
  unfold handleS
  simp only [f1, if_neg htok, live]
  unfold handleReceived
  have he : encodeBlock cfg.szx 0 true = .ok (blkVal cfg.szx 0 true) := encode_blkVal true hs7 (by decide)
  simp only [he, f2, hsig, Bool.false_eq_true, if_false, if_neg hgd, hpp, if_true, hfit]

theorem ack_fits (cfg : Cfg) (tok k : Nat) (hs : cfg.szx ≤ 7) :
    fits startDirectIsLe (uploadAck tok cfg.szx k).body.length (sizeN cfg.szx) = true := by
  have hle : startDirectIsLe = false := rfl
  have hsz := sizeN_pos hs
  simp [fits, hle, uploadAck, continueMsg, Msg.setBlock, hsz]

/-- **receiver, first round.**  Nothing is held under the token; block 0 of a body of more than one block arrives: a new
    entry with the block's options and the first `size` bytes is stored (valid for the transfer timeout) and the block is
    acknowledged with 2.31 carrying number 0. -/
theorem receiver_first (cfg : Cfg) (r : Msg) (now : Int) (app : App) (ms : Nat)
    (hs : cfg.szx < 7) (hpp : isPostPut r.code = true) (htok : r.tok ≠ 0)
    (hmore : sizeN cfg.szx < r.body.length) :
    handleS cfg ⟨none, none⟩ now (uploadBlock r cfg.szx ms 0) app =
      (⟨none, some ⟨{ uploadBlock r cfg.szx ms 0 with body := r.body.take (1 * sizeN cfg.szx) }, now + cfg.expiration⟩⟩,
       { reply := some (uploadAck r.tok cfg.szx 0) }) := by
  have hs7 : cfg.szx ≤ 7 := by omega
  have hsz := sizeN_pos hs7
  have hbuf : bufLen cfg.szx ms = sizeN cfg.szx := bufLen_small _ hs
  obtain ⟨f1, f2, f3, _⟩ := uploadBlock_fields r cfg.szx ms 0
  have hcode : r.code = codePOST ∨ r.code = codePUT := by simpa [isPostPut] using hpp
  have hgd : ¬ (r.code = codeGET ∨ r.code = codeDELETE) := by
    rcases hcode with h | h <;> rw [h] <;> decide
  have hpaylen := upload_payload_len r ms 0 hs
  have hm : decide (0 * sizeN cfg.szx + ((r.body.drop (0 * sizeN cfg.szx)).take (bufLen cfg.szx ms)).length ≠ r.body.length) = true := by
    rw [hpaylen]; simp; omega
  have hblk : (uploadBlock r cfg.szx ms 0).block .b1 = some (blkVal cfg.szx 0 true) := by
    show some (blkVal cfg.szx 0 (decide (0 * sizeN cfg.szx + ((r.body.drop (0 * sizeN cfg.szx)).take (bufLen cfg.szx ms)).length ≠ r.body.length))) = _
    rw [hm]
  have habs : ∀ c0 : Msg, absorb (uploadBlock r cfg.szx ms 0) c0 (0 * sizeN cfg.szx) =
      ({ uploadBlock r cfg.szx ms 0 with body := r.body.take (1 * sizeN cfg.szx), tok := c0.tok, deadline := c0.deadline }, true) := by
    intro c0
    have h0 : block0Restarts = true ∧ 0 * sizeN cfg.szx = 0 := ⟨rfl, by omega⟩
    unfold absorb blockBase
    simp only [if_pos h0]
    simp [uploadBlock, hbuf]
  have hpr : processReceived cfg ⟨none, none⟩ now none (uploadBlock r cfg.szx ms 0) cfg.szx app .b1 =
      { sl := ⟨none, some ⟨{ uploadBlock r cfg.szx ms 0 with body := r.body.take (1 * sizeN cfg.szx) }, now + cfg.expiration⟩⟩,
        w := some (uploadAck r.tok cfg.szx 0) } := by
    unfold processReceived
    simp only [f1, if_neg htok, f2, if_neg hgd, hblk, decode_blkVal true hs7 (by decide : 0 < 2 ^ 20), live]
    have hnb : ¬ (BT.b1 = BT.b2 ∧ (Option.map (fun x => x.msg) (none : Option Entry)).isNone = true) := by
      intro h; cases h.1
    rw [if_neg hnb]
    simp only [Bool.true_eq_false, if_false, getSzx_eq_min, Nat.min_self, habs]
    unfold blockReply
    simp only []
    rw [encode_blkVal true hs7 (by decide : 0 < 2 ^ 20)]
    rfl
  rw [handleS_upload_shape cfg r none now app ms 0 hs hpp htok (by decide), hpr]
  unfold finishReceived
  simp only [Bool.false_eq_true, if_false]
  unfold startSendingS
  simp only [ack_fits cfg r.tok 0 hs7, if_true, Bool.false_eq_true, if_false]

/-- `processReceivedMessage` on the block that ends an upload of which exactly the first `k ≥ 1` blocks are held -/
theorem pr_upload_last (cfg : Cfg) (r : Msg) (ent : Entry) (now : Int) (app : App) (ms k : Nat)
    (hs : cfg.szx < 7) (hpp : isPostPut r.code = true) (htok : r.tok ≠ 0) (hlive : now ≤ ent.validUntil)
    (hheld : ent.msg.body = r.body.take (k * sizeN cfg.szx)) (hk : k * sizeN cfg.szx ≤ r.body.length)
    (hetag : ent.msg.etag = r.etag) (hnum : k < 2 ^ 20) (hk0 : 0 < k)
    (hlast : r.body.length ≤ (k + 1) * sizeN cfg.szx) :
    processReceived cfg ⟨none, some ent⟩ now none (uploadBlock r cfg.szx ms k) cfg.szx app .b1 =
      { sl := ⟨none, none⟩, w := next app none { ent.msg with body := r.body, block1 := none, size1 := none },
        delivered := [{ ent.msg with body := r.body, block1 := none, size1 := none }] } := by
  have hs7 : cfg.szx ≤ 7 := by omega
  have hsz := sizeN_pos hs7
  have hbuf : bufLen cfg.szx ms = sizeN cfg.szx := bufLen_small _ hs
  obtain ⟨f1, f2, f3, _⟩ := uploadBlock_fields r cfg.szx ms k
  have hcode : r.code = codePOST ∨ r.code = codePUT := by simpa [isPostPut] using hpp
  have hgd : ¬ (r.code = codeGET ∨ r.code = codeDELETE) := by
    rcases hcode with h | h <;> rw [h] <;> decide
  have hpaylen := upload_payload_len r ms k hs
  have hlv : live (some ent) now = some ent := live_fresh _ _ hlive
  have hap : blockBase (uploadBlock r cfg.szx ms k) ent.msg (k * sizeN cfg.szx) = ent.msg := by
    have hne0 : ¬ (block0Restarts = true ∧ k * sizeN cfg.szx = 0) := by
      intro h; have := Nat.mul_pos hk0 hsz; omega
    unfold blockBase
    rw [if_neg hne0]
    rcases applyEtag_cases (uploadBlock r cfg.szx ms k) ent.msg with ⟨h, _⟩ | ⟨_, hne, _⟩
    · exact h
    · exact absurd (by rw [f3, hetag]) hne
  have hlen : ent.msg.body.length = k * sizeN cfg.szx := by rw [hheld, List.length_take]; omega
  have habs : absorb (uploadBlock r cfg.szx ms k) ent.msg (k * sizeN cfg.szx) =
      ({ ent.msg with body := r.body.take ((k + 1) * sizeN cfg.szx) }, true) := by
    unfold absorb
    simp only [hap, hlen, if_true]
    have : ent.msg.body ++ (uploadBlock r cfg.szx ms k).body = r.body.take ((k + 1) * sizeN cfg.szx) := by
      rw [hheld, Nat.add_mul, Nat.one_mul, List.take_add]
      simp [uploadBlock, hbuf]
    rw [this]
  have hm : decide (k * sizeN cfg.szx + ((r.body.drop (k * sizeN cfg.szx)).take (bufLen cfg.szx ms)).length ≠ r.body.length) = false := by
    rw [hpaylen]; simp; rw [Nat.add_mul] at hlast; omega
  have hblk : (uploadBlock r cfg.szx ms k).block .b1 = some (blkVal cfg.szx k false) := by
    show some (blkVal cfg.szx k (decide (k * sizeN cfg.szx + ((r.body.drop (k * sizeN cfg.szx)).take (bufLen cfg.szx ms)).length ≠ r.body.length))) = _
    rw [hm]
  have htake : r.body.take ((k + 1) * sizeN cfg.szx) = r.body := List.take_of_length_le hlast
  unfold processReceived
  simp only [f1, if_neg htok, f2, if_neg hgd, hblk, decode_blkVal false hs7 hnum, hlv, habs]
  have hnb : ¬ (BT.b1 = BT.b2 ∧ (Option.map (fun x => x.msg) (none : Option Entry)).isNone = true) := by
    intro h; cases h.1
  rw [if_neg hnb]
  simp only [and_self, if_true, htake]
  simp [Msg.removeBlockSize]

/-- **receiver, last round (with the reply).**  The receiver holds exactly the first `k ≥ 1` blocks; block `k` ends the body:
    the entry is removed, the application is handed the complete body once, and what it answers — a response that fits one
    block, or nothing — is the reply of `Handle`; nothing is stored for sending. -/
theorem receiver_last (cfg : Cfg) (r : Msg) (ent : Entry) (now : Int) (app : App) (ms k : Nat)
    (hs : cfg.szx < 7) (hpp : isPostPut r.code = true) (htok : r.tok ≠ 0) (hlive : now ≤ ent.validUntil)
    (hheld : ent.msg.body = r.body.take (k * sizeN cfg.szx)) (hk : k * sizeN cfg.szx ≤ r.body.length)
    (hetag : ent.msg.etag = r.etag) (hnum : k < 2 ^ 20) (hk0 : 0 < k)
    (hlast : r.body.length ≤ (k + 1) * sizeN cfg.szx)
    (happ : ∀ x, app { ent.msg with body := r.body, block1 := none, size1 := none } = some x → x.body.length < sizeN cfg.szx) :
    handleS cfg ⟨none, some ent⟩ now (uploadBlock r cfg.szx ms k) app =
      (⟨none, none⟩, { reply := next app none { ent.msg with body := r.body, block1 := none, size1 := none },
                       delivered := [{ ent.msg with body := r.body, block1 := none, size1 := none }] }) := by
  have hpr := pr_upload_last cfg r ent now app ms k hs hpp htok hlive hheld hk hetag hnum hk0 hlast
  rw [handleS_upload_shape cfg r (some ent) now app ms k hs hpp htok hnum, hpr]
  unfold finishReceived
  simp only [Bool.false_eq_true, if_false]
  unfold startSendingS next
  cases hx : app { ent.msg with body := r.body, block1 := none, size1 := none } with
  | none => simp only [Bool.false_eq_true, if_false]
  | some x =>
    have hle : startDirectIsLe = false := rfl
    have hf : fits startDirectIsLe x.body.length (sizeN cfg.szx) = true := by
      simp [fits, hle, happ x hx]
    simp only [hf, if_true, Bool.false_eq_true, if_false]

/-! ### `Do`: the first block -/

theorem doStartS_first (cfg : Cfg) (now : Int) (r : Msg) (hs : cfg.szx < 7) (hpp : isPostPut r.code = true) (htok : r.tok ≠ 0)
    (hmore : sizeN cfg.szx < r.body.length) (hlen : r.body.length < 4294967296) :
    doStartS cfg none now r = (some ⟨r, doExpire r⟩, some (uploadBlock r cfg.szx cfg.maxSize 0)) := by
  have hs7 : cfg.szx ≤ 7 := by omega
  have hbuf : bufLen cfg.szx cfg.maxSize = sizeN cfg.szx := bufLen_small _ hs
  have hpaylen := upload_payload_len r cfg.maxSize 0 hs
  have hm : decide (0 * sizeN cfg.szx + ((r.body.drop (0 * sizeN cfg.szx)).take (bufLen cfg.szx cfg.maxSize)).length ≠ r.body.length) = true := by
    rw [hpaylen]; simp; omega
  have h1 : ¬ cfg.szx > 7 := by omega
  have hle : doDirectIsLe = true := rfl
  have h2 : fits doDirectIsLe r.body.length (sizeN cfg.szx) = false := by
    simp [fits, hle]; omega
  have h3 : ¬ r.body.length ≥ 4294967296 := by omega
  unfold doStartS
  rw [if_neg h1, if_neg htok]
  have he : encodeBlock cfg.szx 0 true = .ok (blkVal cfg.szx 0 true) := encode_blkVal true hs7 (by decide)
  simp only [storeIfAbsent, live, Bool.false_eq_true, if_false, h2, hpp, Bool.not_true, if_neg h3, he]
  unfold uploadBlock doExpire
  rw [hm]
  simp
  cases r.deadline <;> rfl

/-! ### the relay: one fault-free delivery -/

theorem fault_deliver_cons (w : World) (p : Packet) (q : List Packet) (hq : w.queue = p :: q) :
    w.fault .deliver = World.recv { w with queue := q, hist := w.hist ++ [p] } p := by
  simp only [World.fault, hq]

/-- the reply of a `Handle` call as the relay takes it -/
def flight (dst : Side) : Option Msg → List Packet
  | some x => [⟨dst, onWire x⟩]
  | none => []
/-- … and as it is observed -/
def wireEv (src : Side) : Option Msg → List Event
  | some x => [Event.wire src (onWire x)]
  | none => []

/-- B handles a message without error: its slots change, what it delivers is observed, its reply goes in flight -/
theorem recv_B (w : World) (m : Msg) (sl : Slots) (rep : Option Msg) (ds : List Msg)
    (h : handleS w.b.toCfg (w.b.slots m.tok) w.now m w.appB = (sl, { reply := rep, delivered := ds })) :
    World.recv w ⟨.B, m⟩ =
      ({ w with b := w.b.put m.tok sl, queue := w.queue ++ flight .A rep },
       [Event.arrive .B m] ++ ds.map (Event.deliver .B) ++ wireEv .B rep) := by
  unfold World.recv handle
  simp only [World.ep, World.appOf, h, World.setEp, World.afterDeliveries, Bool.false_eq_true, if_false, List.append_nil]
  cases rep with
  | none => simp [flight, wireEv]
  | some x => simp [World.enqueue, Side.other, flight, wireEv]

/-- A handles a message that is not handed to its application, without error -/
theorem recv_A (w : World) (m : Msg) (sl : Slots) (x : Msg)
    (h : handleS w.a.toCfg (w.a.slots m.tok) w.now m (fun _ => none) = (sl, { reply := some x })) :
    World.recv w ⟨.A, m⟩ =
      ({ w with a := w.a.put m.tok sl, queue := w.queue ++ [⟨.B, onWire x⟩] },
       [Event.arrive .A m, Event.wire .A (onWire x)]) := by
  unfold World.recv handle
  simp only [World.ep, World.appOf, h, World.setEp, World.afterDeliveries, completeAll, Bool.false_eq_true, if_false, List.append_nil]
  simp [World.enqueue, Side.other]

/-- a fault-free delivery to B, field by field -/
theorem deliver_B (w : World) (m : Msg) (sl : Slots) (rep : Option Msg) (ds : List Msg)
    (hq : w.queue = [⟨.B, m⟩])
    (h : handleS w.b.toCfg (w.b.slots m.tok) w.now m w.appB = (sl, { reply := rep, delivered := ds })) :
    (w.fault .deliver).1.a = w.a ∧ (w.fault .deliver).1.b = w.b.put m.tok sl ∧ (w.fault .deliver).1.appB = w.appB ∧
    (w.fault .deliver).1.now = w.now ∧ (w.fault .deliver).1.pending = w.pending ∧
    (w.fault .deliver).1.queue = flight .A rep ∧
    (w.fault .deliver).2 = [Event.arrive .B m] ++ ds.map (Event.deliver .B) ++
      wireEv .B rep := by
  rw [fault_deliver_cons w _ _ hq, recv_B { w with queue := [], hist := w.hist ++ [⟨.B, m⟩] } m sl rep ds h]
  exact ⟨rfl, rfl, rfl, rfl, rfl, rfl, rfl⟩

/-- a fault-free delivery to A of a message that is answered and not handed on, field by field -/
theorem deliver_A (w : World) (m : Msg) (sl : Slots) (x : Msg)
    (hq : w.queue = [⟨.A, m⟩])
    (h : handleS w.a.toCfg (w.a.slots m.tok) w.now m (fun _ => none) = (sl, { reply := some x })) :
    (w.fault .deliver).1.a = w.a.put m.tok sl ∧ (w.fault .deliver).1.b = w.b ∧ (w.fault .deliver).1.appB = w.appB ∧
    (w.fault .deliver).1.now = w.now ∧ (w.fault .deliver).1.pending = w.pending ∧
    (w.fault .deliver).1.queue = [⟨.B, onWire x⟩] ∧
    (w.fault .deliver).2 = [Event.arrive .A m, Event.wire .A (onWire x)] := by
  rw [fault_deliver_cons w _ _ hq, recv_A { w with queue := [], hist := w.hist ++ [⟨.A, m⟩] } m sl x h]
  exact ⟨rfl, rfl, rfl, rfl, rfl, rfl, rfl⟩

theorem put_sending (ep : Endpoint) (k : Nat) (sl : Slots) : (ep.put k sl).sending k = sl.snd := by
  simp [Endpoint.put, put_same]
theorem put_receiving (ep : Endpoint) (k : Nat) (sl : Slots) : (ep.put k sl).receiving k = sl.rcv := by
  simp [Endpoint.put, put_same]

/-! ### the upload in the two-endpoint system: invariant between rounds -/

/-- the state between two rounds of the upload of `r` (exponent `s`, virtual time `t`): block `j` is the only message
    in flight, A keeps the request for the duration of the call, B holds exactly the first `j` blocks under options from
    which the completed message is the request as the wire carries it -/
structure Mid (w : World) (app : App) (r : Msg) (s : Nat) (t : Int) (j : Nat) : Prop where
  happ : w.appB = app
  now : w.now = t
  sa : w.a.szx = s
  sb : w.b.szx = s
  ea : 0 ≤ w.a.expiration
  eb : 0 ≤ w.b.expiration
  queue : w.queue = [⟨.B, uploadBlock (onWire r) s 0 j⟩]
  pending : w.pending = [⟨r.tok, r.deadline⟩]
  asnd : w.a.sending r.tok = some ⟨r, doExpire r⟩
  arcv : w.a.receiving r.tok = none
  bsnd : w.b.sending r.tok = none
  brcv : ∃ ent, w.b.receiving r.tok = some ent ∧ t ≤ ent.validUntil ∧ ent.msg.body = r.body.take (j * sizeN s) ∧
    ent.msg.etag = r.etag ∧ { ent.msg with body := r.body, block1 := none, size1 := none } = onWire r

/-- **one round in the middle**: B appends block `j` and acknowledges it, A answers the acknowledgement with block `j+1`;
    nothing is handed to an application, nothing fails -/
theorem mid_round (w : World) (app : App) (r : Msg) (s : Nat) (t : Int) (j : Nat)
    (hs : s < 7) (hpp : isPostPut r.code = true) (htok : r.tok ≠ 0) (hexp : t ≤ doExpire r)
    (hlen : r.body.length < 4294967296) (hnum : j + 1 < 2 ^ 20) (hj0 : 0 < j)
    (hmore : (j + 1) * sizeN s < r.body.length) (h : Mid w app r s t j) :
    Mid ((w.fault .deliver).1.fault .deliver).1 app r s t (j + 1) ∧
    delivs ((w.fault .deliver).2 ++ ((w.fault .deliver).1.fault .deliver).2) = [] ∧
    troubles ((w.fault .deliver).2 ++ ((w.fault .deliver).1.fault .deliver).2) = 0 := by
  obtain ⟨ent, hrcv, hlive, hheld, hetag, hdone⟩ := h.brcv
  have hsz := sizeN_pos (by omega : s ≤ 7)
  have hjle : j * sizeN s ≤ r.body.length := by
    have : j * sizeN s ≤ (j + 1) * sizeN s := Nat.mul_le_mul_right _ (by omega)
    omega
  -- B's step
  have hB : handleS w.b.toCfg (w.b.slots r.tok) w.now (uploadBlock (onWire r) s 0 j) w.appB =
      (⟨none, some ⟨{ ent.msg with body := r.body.take ((j + 1) * sizeN s) }, ent.validUntil⟩⟩,
       { reply := some (uploadAck r.tok s j) }) := by
    have hb := (receiver_round w.b.toCfg (onWire r) ent w.now w.appB 0 j (by rw [h.sb]; exact hs) hpp htok
      (by rw [h.now]; exact hlive) (by rw [h.sb]; exact hheld) (by rw [h.sb]; exact hjle) hetag (by omega) hj0).1
      (by rw [h.sb]; exact hmore)
    rw [h.sb] at hb
    simp only [Endpoint.slots, h.bsnd, hrcv]
    exact hb
  obtain ⟨b1, b2, b3, b4, b5, b6, b7⟩ := deliver_B w _ _ _ _ h.queue hB
  generalize w.fault .deliver = W1 at b1 b2 b3 b4 b5 b6 b7 ⊢
  -- A's step
  have hA : handleS W1.1.a.toCfg (W1.1.a.slots r.tok) W1.1.now (uploadAck r.tok s j) (fun _ => none) =
      (⟨some ⟨r, doExpire r⟩, w.a.receiving r.tok⟩, { reply := some (uploadBlock r s w.a.maxSize (j + 1)) }) := by
    have ha := sender_round w.a.toCfg r (doExpire r) w.now (w.a.receiving r.tok) (fun _ => none) j (by rw [h.sa]; exact hs) hpp htok
      (by rw [h.now]; exact hexp) (by rw [h.sa]; omega) hlen hnum
    rw [h.sa] at ha
    rw [b1, b4]
    simp only [Endpoint.slots, h.asnd]
    exact ha
  obtain ⟨a1, a2, a3, a4, a5, a6, a7⟩ := deliver_A W1.1 (uploadAck r.tok s j) _ _ b6 hA
  refine ⟨⟨?_, ?_, ?_, ?_, ?_, ?_, ?_, ?_, ?_, ?_, ?_, ?_⟩, ?_, ?_⟩
  · rw [a3, b3]; exact h.happ
  · rw [a4, b4]; exact h.now
  · rw [a1, b1]; exact h.sa
  · rw [a2, b2]; exact h.sb
  · rw [a1, b1]; exact h.ea
  · rw [a2, b2]; exact h.eb
  · rw [a6, uploadBlock_ms r _ _ hs]; rfl
  · rw [a5, b5]; exact h.pending
  · rw [a1]; exact put_sending _ _ _
  · rw [a1]; show (W1.1.a.put r.tok _).receiving r.tok = none; rw [put_receiving]; exact h.arcv
  · rw [a2, b2]
    show (w.b.put r.tok _).sending r.tok = none
    rw [put_sending]
  · refine ⟨⟨{ ent.msg with body := r.body.take ((j + 1) * sizeN s) }, ent.validUntil⟩, ?_, hlive, rfl, hetag, hdone⟩
    rw [a2, b2]
    show (w.b.put r.tok _).receiving r.tok = _
    rw [put_receiving]
  · rw [a7, b7]; rfl
  · rw [a7, b7]; rfl

/-- `Do` of a POST/PUT whose body needs more than one block, field by field -/
theorem startDo_fields (w : World) (r : Msg) (hs : w.a.szx < 7) (hpp : isPostPut r.code = true) (htok : r.tok ≠ 0)
    (hmore : sizeN w.a.szx < r.body.length) (hlen : r.body.length < 4294967296) (hfree : w.a.sending r.tok = none) :
    (w.startDo r).1.a.toCfg = w.a.toCfg ∧ (w.startDo r).1.a.sending r.tok = some ⟨r, doExpire r⟩ ∧
    (w.startDo r).1.a.receiving = w.a.receiving ∧
    (w.startDo r).1.b = w.b ∧ (w.startDo r).1.appB = w.appB ∧ (w.startDo r).1.now = w.now ∧
    (w.startDo r).1.pending = w.pending ++ [⟨r.tok, r.deadline⟩] ∧
    (w.startDo r).1.queue = w.queue ++ [⟨.B, uploadBlock (onWire r) w.a.szx 0 0⟩] ∧
    (w.startDo r).2 = [Event.wire .A (uploadBlock (onWire r) w.a.szx 0 0)] := by
  have h := doStartS_first w.a.toCfg w.now r hs hpp htok hmore hlen
  unfold World.startDo doStart
  rw [hfree, h]
  have hu : uploadBlock (onWire r) w.a.szx 0 0 = onWire (uploadBlock r w.a.szx w.a.maxSize 0) := by
    rw [uploadBlock_ms r _ _ hs]; rfl
  rw [hu]
  exact ⟨rfl, put_same _ _ _, rfl, rfl, rfl, rfl, rfl, rfl, rfl⟩

/-- **the first round**: `Do` puts block 0 in flight, B opens an entry with it and acknowledges it, A answers with block 1 -/
theorem first_round (w : World) (r : Msg) (s : Nat) (hsa : w.a.szx = s) (hsb : w.b.szx = s)
    (hs : s < 7) (hpp : isPostPut r.code = true) (htok : r.tok ≠ 0) (hexp : w.now ≤ doExpire r)
    (hlen : r.body.length < 4294967296) (hb1 : r.block1 = none) (hs1 : r.size1 = none)
    (hmore : sizeN s < r.body.length) (hq : w.queue = []) (hpe : w.pending = [])
    (hfa : w.a.sending r.tok = none) (hra : w.a.receiving r.tok = none) (hfb : w.b.sending r.tok = none) (hrb : w.b.receiving r.tok = none)
    (hexpA : 0 ≤ w.a.expiration) (hexpB : 0 ≤ w.b.expiration) :
    Mid (((w.startDo r).1.fault .deliver).1.fault .deliver).1 w.appB r s w.now 1 ∧
    delivs ((w.startDo r).2 ++ (((w.startDo r).1.fault .deliver).2 ++ (((w.startDo r).1.fault .deliver).1.fault .deliver).2)) = [] ∧
    troubles ((w.startDo r).2 ++ (((w.startDo r).1.fault .deliver).2 ++ (((w.startDo r).1.fault .deliver).1.fault .deliver).2)) = 0 := by
  subst hsa
  obtain ⟨s1, s2, s3, s4, s5, s6, s9, s7, s8⟩ := startDo_fields w r hs hpp htok hmore hlen hfa
  rw [hq] at s7
  rw [hpe] at s9
  generalize w.startDo r = W0 at s1 s2 s3 s4 s5 s6 s7 s8 s9 ⊢
  -- B's step
  have hB : handleS W0.1.b.toCfg (W0.1.b.slots r.tok) W0.1.now (uploadBlock (onWire r) w.a.szx 0 0) W0.1.appB =
      (⟨none, some ⟨{ uploadBlock (onWire r) w.a.szx 0 0 with body := r.body.take (1 * sizeN w.a.szx) }, w.now + w.b.expiration⟩⟩,
       { reply := some (uploadAck r.tok w.a.szx 0) }) := by
    have hb := receiver_first w.b.toCfg (onWire r) w.now w.appB 0 (by rw [hsb]; exact hs) hpp htok (by rw [hsb]; exact hmore)
    rw [hsb] at hb
    rw [s4, s5, s6]
    simp only [Endpoint.slots, hfb, hrb]
    exact hb
  obtain ⟨b1, b2, b3, b4, b5, b6, b7⟩ := deliver_B W0.1 _ _ _ _ s7 hB
  generalize W0.1.fault .deliver = W1 at b1 b2 b3 b4 b5 b6 b7 ⊢
  -- A's step
  have hA : handleS W1.1.a.toCfg (W1.1.a.slots r.tok) W1.1.now (uploadAck r.tok w.a.szx 0) (fun _ => none) =
      (⟨some ⟨r, doExpire r⟩, w.a.receiving r.tok⟩, { reply := some (uploadBlock r w.a.szx w.a.maxSize (0 + 1)) }) := by
    have ha := sender_round w.a.toCfg r (doExpire r) w.now (w.a.receiving r.tok) (fun _ => none) 0 hs hpp htok
      hexp (by omega) hlen (by decide)
    rw [b1, b4, s1, s6]
    simp only [Endpoint.slots, s2, s3]
    exact ha
  obtain ⟨a1, a2, a3, a4, a5, a6, a7⟩ := deliver_A W1.1 (uploadAck r.tok w.a.szx 0) _ _ b6 hA
  have hdone : { ({ uploadBlock (onWire r) w.a.szx 0 0 with body := r.body.take (1 * sizeN w.a.szx) } : Msg) with
      body := r.body, block1 := none, size1 := none } = onWire r := by
    cases r
    simp only at hb1 hs1
    subst hb1 hs1
    rfl
  refine ⟨⟨?_, ?_, ?_, ?_, ?_, ?_, ?_, ?_, ?_, ?_, ?_, ?_⟩, ?_, ?_⟩
  · rw [a3, b3, s5]
  · rw [a4, b4, s6]
  · rw [a1]; show (W1.1.a.toCfg).szx = _; rw [b1, s1]
  · rw [a2, b2]; show (W0.1.b.toCfg).szx = _; rw [s4]; exact hsb
  · rw [a1]; show 0 ≤ (W1.1.a.toCfg).expiration; rw [b1, s1]; exact hexpA
  · rw [a2, b2]; show 0 ≤ (W0.1.b.toCfg).expiration; rw [s4]; exact hexpB
  · rw [a6, uploadBlock_ms r _ _ hs]; rfl
  · rw [a5, b5, s9]; rfl
  · rw [a1]; exact put_sending _ _ _
  · rw [a1]; show (W1.1.a.put r.tok _).receiving r.tok = none; rw [put_receiving]; show w.a.receiving r.tok = none; exact hra
  · rw [a2, b2]
    show (W0.1.b.put r.tok _).sending r.tok = none
    rw [put_sending]
  · refine ⟨⟨{ uploadBlock (onWire r) w.a.szx 0 0 with body := r.body.take (1 * sizeN w.a.szx) }, w.now + w.b.expiration⟩,
      ?_, ?_, rfl, rfl, hdone⟩
    · rw [a2, b2]
      show (W0.1.b.put r.tok _).receiving r.tok = _
      rw [put_receiving]
    · show w.now ≤ w.now + w.b.expiration
      omega
  · rw [a7, b7, s8]; rfl
  · rw [a7, b7, s8]; rfl

theorem delivs_append (a b : List Event) : delivs (a ++ b) = delivs a ++ delivs b := by
  simp [delivs, List.filterMap_append]
theorem troubles_append (a b : List Event) : troubles (a ++ b) = troubles a + troubles b := by
  simp [troubles, List.filter_append]
theorem delivs_wireEv (s : Side) (rep : Option Msg) : delivs (wireEv s rep) = [] := by
  cases rep <;> rfl
theorem troubles_wireEv (s : Side) (rep : Option Msg) : troubles (wireEv s rep) = 0 := by
  cases rep <;> rfl

theorem respQueue_eq (app : App) (r : Msg) : respQueue app r = flight .A (next app none (onWire r)) := by
  unfold respQueue next
  cases app (onWire r) <;> rfl

/-- the state after the upload: what B's application answered is the only message in flight (nothing if it did not
    answer), B holds nothing under the token any more, A still keeps the request (its call is waiting for the response) -/
structure Done (w : World) (app : App) (r : Msg) : Prop where
  queue : w.queue = respQueue app r
  pending : w.pending = [⟨r.tok, r.deadline⟩]
  asnd : w.a.sending r.tok = some ⟨r, doExpire r⟩
  bsnd : w.b.sending r.tok = none
  brcv : w.b.receiving r.tok = none

/-- **the last round**: block `j` ends the body; B hands the request to its application — complete, as the wire carries
    it, without block options — and its short answer goes in flight -/
theorem last_round (w : World) (app : App) (r : Msg) (s : Nat) (t : Int) (j : Nat)
    (hs : s < 7) (hpp : isPostPut r.code = true) (htok : r.tok ≠ 0) (hnum : j < 2 ^ 20) (hj0 : 0 < j)
    (hjle : j * sizeN s ≤ r.body.length) (hlast : r.body.length ≤ (j + 1) * sizeN s)
    (happ : ∀ x, app (onWire r) = some x → x.body.length < sizeN s) (h : Mid w app r s t j) :
    Done (w.fault .deliver).1 app r ∧ delivs (w.fault .deliver).2 = [(.B, onWire r)] ∧ troubles (w.fault .deliver).2 = 0 := by
  obtain ⟨ent, hrcv, hlive, hheld, hetag, hdone⟩ := h.brcv
  have hB : handleS w.b.toCfg (w.b.slots r.tok) w.now (uploadBlock (onWire r) s 0 j) w.appB =
      (⟨none, none⟩, { reply := next app none (onWire r), delivered := [onWire r] }) := by
    have hd : ({ ent.msg with body := (onWire r).body, block1 := none, size1 := none } : Msg) = onWire r := hdone
    have happ' : ∀ x, w.appB { ent.msg with body := (onWire r).body, block1 := none, size1 := none } = some x →
        x.body.length < sizeN w.b.szx := by
      intro x hx
      have hx' : app (onWire r) = some x := by rw [← hd, ← h.happ]; exact hx
      rw [h.sb]; exact happ x hx'
    have hb := receiver_last w.b.toCfg (onWire r) ent w.now w.appB 0 j (by rw [h.sb]; exact hs) hpp htok
      (by rw [h.now]; exact hlive) (by rw [h.sb]; exact hheld) (by rw [h.sb]; exact hjle) hetag hnum hj0
      (by rw [h.sb]; exact hlast) happ'
    rw [hd, h.sb, h.happ] at hb
    simp only [Endpoint.slots, h.bsnd, hrcv, h.happ]
    exact hb
  obtain ⟨b1, b2, _, _, b5, b6, b7⟩ := deliver_B w _ _ _ _ h.queue hB
  refine ⟨⟨?_, ?_, ?_, ?_, ?_⟩, ?_, ?_⟩
  · rw [b6, respQueue_eq]
  · rw [b5]; exact h.pending
  · rw [b1]; exact h.asnd
  · rw [b2]; show (w.b.put r.tok _).sending r.tok = none; rw [put_sending]
  · rw [b2]; show (w.b.put r.tok _).receiving r.tok = none; rw [put_receiving]
  · rw [b7, delivs_append, delivs_wireEv]; rfl
  · rw [b7, troubles_append, troubles_wireEv]; rfl

theorem run_cons (w : World) (o : Op) (os : List Op) :
    World.run w (o :: os) = ((World.run (w.op o).1 os).1, (w.op o).2 ++ (World.run (w.op o).1 os).2) := rfl

/-- the rounds after the first one, by induction over the number `d` of blocks still to come after block `j` -/
theorem upload_from (app : App) (r : Msg) (s : Nat) (t : Int)
    (hs : s < 7) (hpp : isPostPut r.code = true) (htok : r.tok ≠ 0) (hexp : t ≤ doExpire r)
    (hlen : r.body.length < 4294967296) (happ : ∀ x, app (onWire r) = some x → x.body.length < sizeN s) :
    ∀ (d j : Nat) (w : World), 0 < j → j + d < 2 ^ 20 → (j + d) * sizeN s < r.body.length →
      r.body.length ≤ (j + d + 1) * sizeN s → Mid w app r s t j →
      Done (World.run w (List.replicate (2 * d + 1) (Op.fault .deliver))).1 app r ∧
      delivs (World.run w (List.replicate (2 * d + 1) (Op.fault .deliver))).2 = [(.B, onWire r)] ∧
      troubles (World.run w (List.replicate (2 * d + 1) (Op.fault .deliver))).2 = 0 := by
  intro d
  induction d with
  | zero =>
    intro j w hj0 hnum hlo hhi h
    obtain ⟨h1, h2, h3⟩ := last_round w app r s t j hs hpp htok (by omega) hj0 (by simp at hlo; omega) (by simpa using hhi) happ h
    show Done (World.run w [Op.fault .deliver]).1 app r ∧ delivs (World.run w [Op.fault .deliver]).2 = _ ∧
      troubles (World.run w [Op.fault .deliver]).2 = 0
    simp only [World.run, World.op, List.append_nil]
    exact ⟨h1, h2, h3⟩
  | succ d ih =>
    intro j w hj0 hnum hlo hhi h
    have hmore : (j + 1) * sizeN s < r.body.length := by
      have : (j + 1) * sizeN s ≤ (j + (d + 1)) * sizeN s := Nat.mul_le_mul_right _ (by omega)
      omega
    obtain ⟨m1, m2, m3⟩ := mid_round w app r s t j hs hpp htok hexp hlen (by omega) hj0 hmore h
    obtain ⟨r1, r2, r3⟩ := ih (j + 1) _ (by omega) (by omega)
      (by have : j + 1 + d = j + (d + 1) := by omega
          rw [this]; exact hlo)
      (by have : j + 1 + d + 1 = j + (d + 1) + 1 := by omega
          rw [this]; exact hhi) m1
    have hl : List.replicate (2 * (d + 1) + 1) (Op.fault Fault.deliver) =
        Op.fault .deliver :: Op.fault .deliver :: List.replicate (2 * d + 1) (Op.fault .deliver) := by
      have : 2 * (d + 1) + 1 = (2 * d + 1) + 1 + 1 := by omega
      rw [this, List.replicate_succ, List.replicate_succ]
    rw [hl, run_cons, run_cons]
    simp only [World.op]
    refine ⟨r1, ?_, ?_⟩
    · rw [← List.append_assoc, delivs_append, m2, r2]; rfl
    · rw [← List.append_assoc, troubles_append, m3, r3]

/-- **upload_progress** (Block1, `Do` through the two-endpoint system, fault-free, any body length).  A world with nothing in
    flight, equal non-BERT exponents, A's sending slot and both of B's slots for the token free; a POST/PUT `r` (non-zero
    token, no Block1/Size1 option, deadline not yet reached or none) whose body needs `n ≥ 2` blocks (`n ≤ 2^20`, below 4 GiB);
    B's application answers the completed request with a response that fits one block, or not at all.  Then `Do(r)` followed
    by exactly `2n − 1` fault-free deliveries hands B's application exactly one message — `r` as the wire carries it, complete
    body, no block options — hands A's application nothing, raises no error and returns no call; afterwards the only message
    in flight is B's answer (none if there is none), B holds nothing under the token and A still keeps `r` for its call. -/
theorem upload_progress (w : World) (r : Msg) (n : Nat)
    (hszx : w.a.szx = w.b.szx) (hs : w.b.szx < 7) (hpp : isPostPut r.code = true) (htok : r.tok ≠ 0)
    (hexp : w.now ≤ doExpire r) (hlen : r.body.length < 4294967296) (hb1 : r.block1 = none) (hs1 : r.size1 = none)
    (hn : 2 ≤ n) (hnum : n ≤ 2 ^ 20) (hlo : (n - 1) * sizeN w.b.szx < r.body.length) (hhi : r.body.length ≤ n * sizeN w.b.szx)
    (hq : w.queue = []) (hpe : w.pending = []) (hfa : w.a.sending r.tok = none) (hra : w.a.receiving r.tok = none)
    (hfb : w.b.sending r.tok = none) (hrb : w.b.receiving r.tok = none)
    (hexpA : 0 ≤ w.a.expiration) (hexpB : 0 ≤ w.b.expiration)
    (happ : ∀ x, w.appB (onWire r) = some x → x.body.length < sizeN w.b.szx) :
    Done (World.run w (Op.doReq r :: List.replicate (2 * n - 1) (Op.fault .deliver))).1 w.appB r ∧
    delivs (World.run w (Op.doReq r :: List.replicate (2 * n - 1) (Op.fault .deliver))).2 = [(.B, onWire r)] ∧
    troubles (World.run w (Op.doReq r :: List.replicate (2 * n - 1) (Op.fault .deliver))).2 = 0 := by
  obtain ⟨d, rfl⟩ : ∃ d, n = d + 2 := ⟨n - 2, by omega⟩
  have hsz := sizeN_pos (by omega : w.b.szx ≤ 7)
  have e1 : d + 2 - 1 = 1 + d := by omega
  rw [e1] at hlo
  have hmore : sizeN w.b.szx < r.body.length := by
    have : 1 * sizeN w.b.szx ≤ (1 + d) * sizeN w.b.szx := Nat.mul_le_mul_right _ (by omega)
    omega
  obtain ⟨f1, f2, f3⟩ := first_round w r w.b.szx hszx rfl hs hpp htok hexp hlen hb1 hs1 hmore hq hpe hfa hra hfb hrb hexpA hexpB
  obtain ⟨r1, r2, r3⟩ := upload_from w.appB r w.b.szx w.now hs hpp htok hexp hlen happ d 1 _ (by decide) (by omega) hlo
    (by have : 1 + d + 1 = d + 2 := by omega
        rw [this]; exact hhi) f1
  have hl : List.replicate (2 * (d + 2) - 1) (Op.fault Fault.deliver) =
      Op.fault .deliver :: Op.fault .deliver :: List.replicate (2 * d + 1) (Op.fault .deliver) := by
    have : 2 * (d + 2) - 1 = (2 * d + 1) + 1 + 1 := by omega
    rw [this, List.replicate_succ, List.replicate_succ]
  rw [hl, run_cons, run_cons, run_cons]
  simp only [World.op]
  refine ⟨r1, ?_, ?_⟩
  · rw [← List.append_assoc, ← List.append_assoc, delivs_append, List.append_assoc, f2, r2]; rfl
  · rw [← List.append_assoc, ← List.append_assoc, troubles_append, List.append_assoc, f3, r3]

/-- non-vacuity: the hypotheses hold for a 40-byte POST in three 16-byte blocks answered with three bytes … -/
example : Done (World.run exW (Op.doReq exReq :: List.replicate (2 * 3 - 1) (Op.fault .deliver))).1 exShortApp exReq ∧
    delivs (World.run exW (Op.doReq exReq :: List.replicate (2 * 3 - 1) (Op.fault .deliver))).2 = [(.B, onWire exReq)] ∧
    troubles (World.run exW (Op.doReq exReq :: List.replicate (2 * 3 - 1) (Op.fault .deliver))).2 = 0 :=
  upload_progress exW exReq 3 (by decide) (by decide) (by decide) (by decide) (by decide) (by decide) (by decide) (by decide)
    (by decide) (by decide) (by decide) (by decide) rfl rfl rfl rfl rfl rfl (by decide) (by decide)
    (by
      intro x hx
      have h : exW.appB (onWire exReq) = some { code := 68, tok := 9, other := [(12, [42])], body := [1, 2, 3] } := by decide
      rw [h] at hx
      injection hx with hx
      subst hx
      decide)


/-! ## Block2: the download of a response -/

theorem respCode_gt {c : Nat} (h : RespCode c) : c > codeDELETE := by
  by_cases hc : c > 4
  · exact hc
  · exfalso
    have : c = 0 ∨ c = 1 ∨ c = 2 ∨ c = 3 ∨ c = 4 := by omega
    rcases this with h0 | h0 | h0 | h0 | h0 <;> subst h0
    · exact absurd h.nsig (by decide)
    · exact absurd h.nreq (by decide)
    · exact absurd h.nreq (by decide)
    · exact absurd h.nreq (by decide)
    · exact absurd h.nreq (by decide)

theorem downloadBlock_ms (r : Msg) {s : Nat} (ms j : Nat) (hs : s < 7) : downloadBlock r s ms j = downloadBlock r s 0 j := by
  unfold downloadBlock
  rw [bufLen_small ms hs, bufLen_small 0 hs]

/-- the receive path of `Handle` for a Block2 block of a response while the request is cached -/
theorem handleS_download_shape (cfg : Cfg) (resp req : Msg) (sexp : Int) (rcv : Option Entry) (now : Int) (app : App) (ms j : Nat)
    (hs : cfg.szx < 7) (hrc : RespCode resp.code) (hb1 : resp.block1 = none) (htok : resp.tok ≠ 0) (hslive : now ≤ sexp)
    (hnum : j < 2 ^ 20) :
    handleS cfg ⟨some ⟨req, sexp⟩, rcv⟩ now (downloadBlock resp cfg.szx ms j) app =
      (let h := finishReceived cfg now (processReceived cfg ⟨some ⟨req, sexp⟩, rcv⟩ now none (downloadBlock resp cfg.szx ms j)
          cfg.szx app .b2) cfg.szx (blkVal cfg.szx 0 true)
       if h.failed then (h.sl, { reply := some (entityIncomplete resp.tok), delivered := h.delivered, err := true })
       else (h.sl, { reply := h.w, delivered := h.delivered })) := by
  have hs7 : cfg.szx ≤ 7 := by omega
  have f1 : (downloadBlock resp cfg.szx ms j).tok = resp.tok := rfl
  have f2 : (downloadBlock resp cfg.szx ms j).code = resp.code := rfl
  have hgd := hrc.not_getdelete
  have hslv : live (some ⟨req, sexp⟩) now = some ⟨req, sexp⟩ := live_fresh _ _ hslive
  have hw : wantsToBeReceived (downloadBlock resp cfg.szx ms j) = true := wants_of_respCode hrc hb1
  unfold handleS
  simp only [f1, if_neg htok, hslv, hw, if_true]
  unfold handleReceived
  have he : encodeBlock cfg.szx 0 true = .ok (blkVal cfg.szx 0 true) := encode_blkVal true hs7 (by decide)
  simp only [he, f2, hrc.nsig, Bool.false_eq_true, if_false, if_neg hgd, hrc.npp, fitSZX_downloadBlock resp ms j hs hnum]

theorem req_fits (cfg : Cfg) (req : Msg) (j : Nat) (hs : cfg.szx ≤ 7) :
    fits startDirectIsLe (downloadReq req cfg.szx j).body.length (sizeN cfg.szx) = true := by
  have hle : startDirectIsLe = false := rfl
  have hsz := sizeN_pos hs
  simp [fits, hle, downloadReq_body, hsz]

/-- the expiry of a receiving entry opened while `req` is cached: the deadline of `req`, else the transfer timeout -/
def reqValid (req : Msg) (now exp : Int) : Int := match req.deadline with | some d => d | none => now + exp

/-- **requester, first round.**  The request is cached, nothing is held; block 0 of a response of more than one block
    arrives: it becomes the entry (valid until the request's deadline, or for the transfer timeout) and block 1 is requested -/
theorem requester_first (cfg : Cfg) (resp req : Msg) (sexp : Int) (now : Int) (app : App) (ms : Nat)
    (hs : cfg.szx < 7) (hrc : RespCode resp.code) (hb1 : resp.block1 = none) (htok : resp.tok ≠ 0) (hslive : now ≤ sexp)
    (hmore : sizeN cfg.szx < resp.body.length) :
    handleS cfg ⟨some ⟨req, sexp⟩, none⟩ now (downloadBlock resp cfg.szx ms 0) app =
      (⟨some ⟨req, sexp⟩, some ⟨downloadBlock resp cfg.szx ms 0, reqValid req now cfg.expiration⟩⟩,
       { reply := some (downloadReq req cfg.szx 1) }) := by
  rw [handleS_download_shape cfg resp req sexp none now app ms 0 hs hrc hb1 htok hslive (by decide),
    pr_first cfg resp req sexp none now app ms hs hrc htok rfl hmore]
  unfold finishReceived
  simp only [Bool.false_eq_true, if_false]
  unfold startSendingS
  simp only [req_fits cfg req 1 (by omega), if_true, Bool.false_eq_true, if_false]
  unfold reqValid
  cases req.deadline <;> rfl

/-- **requester, last round (with the reply).**  Block `j ≥ 1` ends the body: the entry is removed, the application (which
    does not answer) is handed the complete response once, nothing is replied, the cached request stays (it is `Do` that
    deletes it) -/
theorem requester_last (cfg : Cfg) (resp req : Msg) (sexp : Int) (ent : Entry) (now : Int) (ms j : Nat)
    (hs : cfg.szx < 7) (hrc : RespCode resp.code) (hb1 : resp.block1 = none) (htok : resp.tok ≠ 0)
    (hlive : now ≤ ent.validUntil) (hslive : now ≤ sexp)
    (hheld : ent.msg.body = resp.body.take (j * sizeN cfg.szx)) (hj : j * sizeN cfg.szx ≤ resp.body.length)
    (hetag : ent.msg.etag = resp.etag) (hnum : j + 1 < 2 ^ 20) (hj0 : 0 < j)
    (hlast : resp.body.length ≤ (j + 1) * sizeN cfg.szx) :
    handleS cfg ⟨some ⟨req, sexp⟩, some ent⟩ now (downloadBlock resp cfg.szx ms j) (fun _ => none) =
      (⟨some ⟨req, sexp⟩, none⟩,
       { reply := none, delivered := [{ ent.msg with body := resp.body, block2 := none, size2 := none }] }) := by
  rw [handleS_download_shape cfg resp req sexp (some ent) now _ ms j hs hrc hb1 htok hslive (by omega),
    pr_later_last cfg resp req sexp ent now _ ms j hs hrc htok hlive hheld hj hetag hnum hj0 hlast]
  unfold finishReceived
  simp only [Bool.false_eq_true, if_false]
  unfold startSendingS next
  simp only [Bool.false_eq_true, if_false]

/-- **responder, first round.**  A GET/DELETE without Block2 option arrives while nothing is sent under its token; the
    application answers with a response (no deadline) that needs more than one block: the request is handed to the
    application once, the response is cached for the transfer timeout and its block 0 is the reply -/
theorem responder_first (cfg : Cfg) (q x : Msg) (rcv : Option Entry) (now : Int) (app : App)
    (hs : cfg.szx < 7) (hq : q.code = codeGET ∨ q.code = codeDELETE) (htok : q.tok ≠ 0) (hb2 : q.block2 = none)
    (happ : app q = some x) (hx : isPostPut x.code = false) (hdl : x.deadline = none)
    (hmore : sizeN cfg.szx < x.body.length) (hlen : x.body.length < 4294967296) :
    handleS cfg ⟨none, rcv⟩ now q app =
      (⟨some ⟨{ x with tok := q.tok }, now + cfg.expiration⟩, rcv⟩,
       { reply := some (downloadBlock { x with tok := q.tok } cfg.szx cfg.maxSize 0), delivered := [q] }) := by
  have hs7 : cfg.szx ≤ 7 := by omega
  have hsz := sizeN_pos hs7
  have hbuf : bufLen cfg.szx cfg.maxSize = sizeN cfg.szx := bufLen_small _ hs
  have hsig : isSignal q.code = false := by rcases hq with h | h <;> rw [h] <;> decide
  have he : encodeBlock cfg.szx 0 true = .ok (blkVal cfg.szx 0 true) := encode_blkVal true hs7 (by decide)
  have hnext : next app none q = some { x with tok := q.tok } := by unfold next; rw [happ]
  have hsend : sendBT x.code = .b2 := by simp [sendBT, hx]
  have hoff : sendOffWith startSkipsSent .b2 cfg.szx 0 (sizeN cfg.szx) = 0 * sizeN cfg.szx := by
    have : (BT.b2 == BT.b1) = false := by decide
    simp [sendOffWith, this]
  have hcs : createSendingFirst { x with tok := q.tok } cfg.szx cfg.maxSize (blkVal cfg.szx 0 true) =
      some (downloadBlock { x with tok := q.tok } cfg.szx cfg.maxSize 0,
        decide (0 * sizeN cfg.szx + ((x.body.drop (0 * sizeN cfg.szx)).take (sizeN cfg.szx)).length ≠ x.body.length)) := by
    unfold createSendingFirst createSendingWith
    rw [decode_blkVal true hs7 (by decide : 0 < 2 ^ 20)]
    simp only [getSzx_eq_min, Nat.min_self, hsend, hbuf, hoff]
    unfold createSendingAt
    have e0 : ¬ (refusesBodylessSending = true ∧ x.body = []) := bodyless_test_neg (by omega)
    have e1 : ¬ (sizeN cfg.szx > 0 ∧ 0 * sizeN cfg.szx > x.body.length) := by omega
    have e2 : ¬ x.body.length ≥ 4294967296 := by omega
    simp only [if_neg e0, if_neg e1, if_neg e2, Nat.mul_div_cancel _ hsz]
    rw [encode_blkVal _ hs7 (by decide : 0 < 2 ^ 20)]
    simp [downloadBlock, Msg.setSize, Msg.setBlock, hbuf]
  have hfits : fits startDirectIsLe x.body.length (sizeN cfg.szx) = false := by
    have hle : startDirectIsLe = false := rfl
    simp [fits, hle]; omega
  unfold handleS
  simp only [if_neg htok, live]
  unfold handleReceived
  simp only [he, hsig, Bool.false_eq_true, if_false, if_pos hq, hnext, hb2, fitSZX_none cfg.szx (show q.block .b2 = none from hb2)]
  unfold finishReceived
  simp only [Bool.false_eq_true, if_false]
  unfold startSendingS
  simp only [hfits, Bool.false_eq_true, if_false, hcs]
  have hd : (downloadBlock { x with tok := q.tok } cfg.szx cfg.maxSize 0).deadline = none := hdl
  simp only [hd, storeIfAbsent, live, Bool.false_eq_true, if_false]

/-! ### the download in the two-endpoint system -/

/-- the returns of `Do` among the events, in order -/
def rets (evs : List Event) : List (Nat × Option Msg) :=
  evs.filterMap (fun e => match e with | .ret tok m => some (tok, m) | _ => none)
/-- number of `errors` callbacks among the events -/
def errs (evs : List Event) : Nat :=
  (evs.filter (fun e => match e with | .errcb _ => true | _ => false)).length

theorem rets_append (a b : List Event) : rets (a ++ b) = rets a ++ rets b := by
  simp [rets, List.filterMap_append]
theorem errs_append (a b : List Event) : errs (a ++ b) = errs a + errs b := by
  simp [errs, List.filter_append]

theorem doStartS_direct (cfg : Cfg) (now : Int) (r : Msg) (hs : cfg.szx ≤ 7) (htok : r.tok ≠ 0)
    (hfit : r.body.length ≤ sizeN cfg.szx) :
    doStartS cfg none now r = (some ⟨r, doExpire r⟩, some r) := by
  have h1 : ¬ cfg.szx > 7 := by omega
  have hle : doDirectIsLe = true := rfl
  have h2 : fits doDirectIsLe r.body.length (sizeN cfg.szx) = true := by
    simp [fits, hle]; omega
  unfold doStartS
  rw [if_neg h1, if_neg htok]
  simp only [storeIfAbsent, live, Bool.false_eq_true, if_false, h2, if_true]
  unfold doExpire
  cases r.deadline <;> rfl

/-- `Do` of a request that fits one block, field by field -/
theorem startDo_direct_fields (w : World) (r : Msg) (hs : w.a.szx ≤ 7) (htok : r.tok ≠ 0)
    (hfit : r.body.length ≤ sizeN w.a.szx) (hfree : w.a.sending r.tok = none) :
    (w.startDo r).1.a.toCfg = w.a.toCfg ∧ (w.startDo r).1.a.sending r.tok = some ⟨r, doExpire r⟩ ∧
    (w.startDo r).1.a.receiving = w.a.receiving ∧
    (w.startDo r).1.b = w.b ∧ (w.startDo r).1.appB = w.appB ∧ (w.startDo r).1.now = w.now ∧
    (w.startDo r).1.pending = w.pending ++ [⟨r.tok, r.deadline⟩] ∧
    (w.startDo r).1.queue = w.queue ++ [⟨.B, onWire r⟩] ∧
    (w.startDo r).2 = [Event.wire .A (onWire r)] := by
  have h := doStartS_direct w.a.toCfg w.now r hs htok hfit
  unfold World.startDo doStart
  rw [hfree, h]
  exact ⟨rfl, put_same _ _ _, rfl, rfl, rfl, rfl, rfl, rfl, rfl⟩

/-- a fault-free delivery to A of the message that completes its only pending call: nothing is replied, `Do` returns it
    and deletes the cached request -/
theorem deliver_A_done (w : World) (m d : Msg) (sl : Slots) (dl : Option Int)
    (hq : w.queue = [⟨.A, m⟩]) (hp : w.pending = [⟨d.tok, dl⟩])
    (h : handleS w.a.toCfg (w.a.slots m.tok) w.now m (fun _ => none) = (sl, { reply := none, delivered := [d] })) :
    (w.fault .deliver).1.a = doFinish (w.a.put m.tok sl) d.tok ∧ (w.fault .deliver).1.b = w.b ∧
    (w.fault .deliver).1.pending = [] ∧ (w.fault .deliver).1.queue = [] ∧
    (w.fault .deliver).2 = [Event.arrive .A m, Event.deliver .A d, Event.ret d.tok (some d)] := by
  rw [fault_deliver_cons w _ _ hq]
  unfold World.recv handle
  simp only [World.ep, World.appOf, h, World.setEp, World.afterDeliveries, completeAll, completeDo, hp]
  simp

theorem onWire_downloadBlock (resp : Msg) {s : Nat} (ms j : Nat) (hs : s < 7) (hdl : resp.deadline = none) :
    onWire (downloadBlock resp s ms j) = downloadBlock resp s 0 j := by
  rw [downloadBlock_ms resp ms j hs]
  cases resp
  simp only at hdl
  subst hdl
  rfl

/-- the state between two rounds of the download of `resp` (the answer to `req`; exponent `s`, virtual time `t`): the
    request for block `j` is the only message in flight, A's call is pending with `req` cached and exactly the first `j`
    blocks held, B has `resp` cached -/
structure Mid2 (w : World) (req resp : Msg) (s : Nat) (t : Int) (j : Nat) : Prop where
  now : w.now = t
  sa : w.a.szx = s
  sb : w.b.szx = s
  queue : w.queue = [⟨.B, downloadReq req s j⟩]
  pending : w.pending = [⟨req.tok, req.deadline⟩]
  asnd : w.a.sending req.tok = some ⟨req, doExpire req⟩
  arcv : ∃ ent, w.a.receiving req.tok = some ent ∧ t ≤ ent.validUntil ∧ ent.msg.body = resp.body.take (j * sizeN s) ∧
    ent.msg.etag = resp.etag ∧ { ent.msg with body := resp.body, block2 := none, size2 := none } = resp
  bsnd : ∃ e, w.b.sending req.tok = some ⟨resp, e⟩ ∧ t ≤ e

/-- **one round in the middle**: B answers the request for block `j` with that block, A appends it and asks for block `j+1` -/
theorem mid_round2 (w : World) (req resp : Msg) (s : Nat) (t : Int) (j : Nat)
    (hs : s < 7) (hrq : isRequest req.code = true) (hrc : RespCode resp.code) (hb1 : resp.block1 = none)
    (htok : req.tok ≠ 0) (hrt : resp.tok = req.tok) (hdl : resp.deadline = none) (hexp : t ≤ doExpire req)
    (hlen : resp.body.length < 4294967296) (hnum : j + 1 < 2 ^ 20) (hj0 : 0 < j)
    (hmore : (j + 1) * sizeN s < resp.body.length) (h : Mid2 w req resp s t j) :
    Mid2 ((w.fault .deliver).1.fault .deliver).1 req resp s t (j + 1) ∧
    delivs ((w.fault .deliver).2 ++ ((w.fault .deliver).1.fault .deliver).2) = [] ∧
    rets ((w.fault .deliver).2 ++ ((w.fault .deliver).1.fault .deliver).2) = [] ∧
    errs ((w.fault .deliver).2 ++ ((w.fault .deliver).1.fault .deliver).2) = 0 := by
  obtain ⟨ent, hrcv, hlive, hheld, hetag, hdone⟩ := h.arcv
  obtain ⟨e, hbs, hblive⟩ := h.bsnd
  have hsz := sizeN_pos (by omega : s ≤ 7)
  have hjle : j * sizeN s ≤ resp.body.length := by
    have : j * sizeN s ≤ (j + 1) * sizeN s := Nat.mul_le_mul_right _ (by omega)
    omega
  -- B's step
  have hB : handleS w.b.toCfg (w.b.slots req.tok) w.now (downloadReq req s j) w.appB =
      (⟨some ⟨resp, e⟩, w.b.receiving req.tok⟩, { reply := some (downloadBlock resp s w.b.maxSize j) }) := by
    have hb := responder_round w.b.toCfg resp req e w.now (w.b.receiving req.tok) w.appB j (by rw [h.sb]; exact hs) hrq hrc.npp
      (respCode_gt hrc) htok (by rw [h.now]; exact hblive) (by rw [h.sb]; exact hjle) hlen (by omega) (by omega)
    rw [h.sb, if_pos hmore] at hb
    simp only [Endpoint.slots, hbs]
    exact hb
  obtain ⟨b1, b2, _, b4, b5, b6, b7⟩ := deliver_B w (downloadReq req s j) _ _ _ h.queue hB
  generalize w.fault .deliver = W1 at b1 b2 b4 b5 b6 b7 ⊢
  have hq1 : W1.1.queue = [⟨.A, downloadBlock resp s 0 j⟩] := by
    rw [b6]; show [(⟨.A, onWire (downloadBlock resp s w.b.maxSize j)⟩ : Packet)] = _
    rw [onWire_downloadBlock resp _ j hs hdl]
  -- A's step
  have hA : handleS W1.1.a.toCfg (W1.1.a.slots (downloadBlock resp s 0 j).tok) W1.1.now (downloadBlock resp s 0 j) (fun _ => none) =
      (⟨some ⟨req, doExpire req⟩, some ⟨{ ent.msg with body := resp.body.take ((j + 1) * sizeN s) }, ent.validUntil⟩⟩,
       { reply := some (downloadReq req s (j + 1)) }) := by
    have ha := (requester_round w.a.toCfg resp req (doExpire req) ent w.now (fun _ => none) 0 j (by rw [h.sa]; exact hs) hrq
      hrc.npp hrc.nreq hrc.nsig hrc.ncont hb1 (by rw [hrt]; exact htok) (by rw [h.now]; exact hlive) (by rw [h.now]; exact hexp)
      (by rw [h.sa]; exact hheld) (by rw [h.sa]; exact hjle) hetag hnum hj0).1 (by rw [h.sa]; exact hmore)
    rw [h.sa] at ha
    show handleS W1.1.a.toCfg (W1.1.a.slots resp.tok) W1.1.now _ _ = _
    rw [b1, b4, hrt]
    simp only [Endpoint.slots, h.asnd, hrcv]
    exact ha
  obtain ⟨a1, a2, _, a4, a5, a6, a7⟩ := deliver_A W1.1 (downloadBlock resp s 0 j) _ _ hq1 hA
  have ht : (downloadBlock resp s 0 j).tok = req.tok := hrt
  rw [ht] at a1
  refine ⟨⟨?_, ?_, ?_, ?_, ?_, ?_, ?_, ?_⟩, ?_, ?_, ?_⟩
  · rw [a4, b4]; exact h.now
  · rw [a1, b1]; exact h.sa
  · rw [a2, b2]; exact h.sb
  · rw [a6]; rfl
  · rw [a5, b5]; exact h.pending
  · rw [a1]; exact put_sending _ _ _
  · refine ⟨⟨{ ent.msg with body := resp.body.take ((j + 1) * sizeN s) }, ent.validUntil⟩, ?_, hlive, rfl, hetag, hdone⟩
    rw [a1]; exact put_receiving _ _ _
  · refine ⟨e, ?_, hblive⟩
    rw [a2, b2]
    show (w.b.put req.tok _).sending req.tok = _
    rw [put_sending]
  · rw [a7, b7]; rfl
  · rw [a7, b7]; rfl
  · rw [a7, b7]; rfl

/-- the state after the download: nothing in flight, no call pending, nothing cached under the token on either side -/
structure Done2 (w : World) (tok : Nat) : Prop where
  queue : w.queue = []
  pending : w.pending = []
  asnd : w.a.sending tok = none
  arcv : w.a.receiving tok = none
  bsnd : w.b.sending tok = none

/-- **the last round**: B answers the request for the last block and drops the cached response, A completes the body,
    hands it to the waiting call — the response as B's application supplied it — and `Do` returns it -/
theorem last_round2 (w : World) (req resp : Msg) (s : Nat) (t : Int) (j : Nat)
    (hs : s < 7) (hrq : isRequest req.code = true) (hrc : RespCode resp.code) (hb1 : resp.block1 = none)
    (htok : req.tok ≠ 0) (hrt : resp.tok = req.tok) (hdl : resp.deadline = none) (hexp : t ≤ doExpire req)
    (hlen : resp.body.length < 4294967296) (hnum : j + 1 < 2 ^ 20) (hj0 : 0 < j)
    (hjle : j * sizeN s < resp.body.length) (hlast : resp.body.length ≤ (j + 1) * sizeN s) (h : Mid2 w req resp s t j) :
    Done2 ((w.fault .deliver).1.fault .deliver).1 req.tok ∧
    delivs ((w.fault .deliver).2 ++ ((w.fault .deliver).1.fault .deliver).2) = [(.A, resp)] ∧
    rets ((w.fault .deliver).2 ++ ((w.fault .deliver).1.fault .deliver).2) = [(req.tok, some resp)] ∧
    errs ((w.fault .deliver).2 ++ ((w.fault .deliver).1.fault .deliver).2) = 0 := by
  obtain ⟨ent, hrcv, hlive, hheld, hetag, hdone⟩ := h.arcv
  obtain ⟨e, hbs, hblive⟩ := h.bsnd
  have hnm : ¬ (j + 1) * sizeN s < resp.body.length := by omega
  -- B's step
  have hB : handleS w.b.toCfg (w.b.slots req.tok) w.now (downloadReq req s j) w.appB =
      (⟨none, w.b.receiving req.tok⟩, { reply := some (downloadBlock resp s w.b.maxSize j) }) := by
    have hb := responder_round w.b.toCfg resp req e w.now (w.b.receiving req.tok) w.appB j (by rw [h.sb]; exact hs) hrq hrc.npp
      (respCode_gt hrc) htok (by rw [h.now]; exact hblive) (by rw [h.sb]; omega) hlen (by omega) (by omega)
    rw [h.sb, if_neg hnm] at hb
    simp only [Endpoint.slots, hbs]
    exact hb
  obtain ⟨b1, b2, _, b4, b5, b6, b7⟩ := deliver_B w (downloadReq req s j) _ _ _ h.queue hB
  generalize w.fault .deliver = W1 at b1 b2 b4 b5 b6 b7 ⊢
  have hq1 : W1.1.queue = [⟨.A, downloadBlock resp s 0 j⟩] := by
    rw [b6]; show [(⟨.A, onWire (downloadBlock resp s w.b.maxSize j)⟩ : Packet)] = _
    rw [onWire_downloadBlock resp _ j hs hdl]
  -- A's step
  have hA : handleS W1.1.a.toCfg (W1.1.a.slots (downloadBlock resp s 0 j).tok) W1.1.now (downloadBlock resp s 0 j) (fun _ => none) =
      (⟨some ⟨req, doExpire req⟩, none⟩, { reply := none, delivered := [resp] }) := by
    have ha := requester_last w.a.toCfg resp req (doExpire req) ent w.now 0 j (by rw [h.sa]; exact hs) hrc hb1
      (by rw [hrt]; exact htok) (by rw [h.now]; exact hlive) (by rw [h.now]; exact hexp)
      (by rw [h.sa]; exact hheld) (by rw [h.sa]; omega) hetag hnum hj0 (by rw [h.sa]; exact hlast)
    rw [h.sa, hdone] at ha
    show handleS W1.1.a.toCfg (W1.1.a.slots resp.tok) W1.1.now _ _ = _
    rw [b1, b4, hrt]
    simp only [Endpoint.slots, h.asnd, hrcv]
    exact ha
  have hp1 : W1.1.pending = [⟨resp.tok, req.deadline⟩] := by rw [b5, hrt]; exact h.pending
  obtain ⟨a1, a2, a3, a4, a5⟩ := deliver_A_done W1.1 (downloadBlock resp s 0 j) resp _ _ hq1 hp1 hA
  have ht : (downloadBlock resp s 0 j).tok = req.tok := hrt
  rw [ht, hrt] at a1
  refine ⟨⟨a4, a3, ?_, ?_, ?_⟩, ?_, ?_, ?_⟩
  · rw [a1]; exact put_same _ _ _
  · rw [a1]; show (W1.1.a.put req.tok _).receiving req.tok = none; rw [put_receiving]
  · rw [a2, b2]; show (w.b.put req.tok _).sending req.tok = none; rw [put_sending]
  · rw [a5, b7]; rfl
  · rw [a5, b7, hrt]; rfl
  · rw [a5, b7]; rfl

/-- **the first round**: `Do` sends the request as it is, B hands it to its application, caches the answer and replies
    with block 0, A opens an entry with it and asks for block 1 -/
theorem first_round2 (w : World) (req x : Msg) (s : Nat) (hsa : w.a.szx = s) (hsb : w.b.szx = s)
    (hs : s < 7) (hq : req.code = codeGET ∨ req.code = codeDELETE) (htok : req.tok ≠ 0) (hb2 : req.block2 = none)
    (hfit : req.body.length ≤ sizeN s) (hexp : w.now ≤ doExpire req)
    (happ : w.appB (onWire req) = some x) (hrc : RespCode x.code) (hxb1 : x.block1 = none) (hxb2 : x.block2 = none)
    (hxs2 : x.size2 = none) (hdl : x.deadline = none)
    (hmore : sizeN s < x.body.length) (hlen : x.body.length < 4294967296)
    (hqu : w.queue = []) (hpe : w.pending = [])
    (hfa : w.a.sending req.tok = none) (hra : w.a.receiving req.tok = none) (hfb : w.b.sending req.tok = none)
    (hexpA : 0 ≤ w.a.expiration) (hexpB : 0 ≤ w.b.expiration) :
    Mid2 (((w.startDo req).1.fault .deliver).1.fault .deliver).1 req { x with tok := req.tok } s w.now 1 ∧
    delivs ((w.startDo req).2 ++ (((w.startDo req).1.fault .deliver).2 ++ (((w.startDo req).1.fault .deliver).1.fault .deliver).2)) =
      [(.B, onWire req)] ∧
    rets ((w.startDo req).2 ++ (((w.startDo req).1.fault .deliver).2 ++ (((w.startDo req).1.fault .deliver).1.fault .deliver).2)) = [] ∧
    errs ((w.startDo req).2 ++ (((w.startDo req).1.fault .deliver).2 ++ (((w.startDo req).1.fault .deliver).1.fault .deliver).2)) = 0 := by
  subst hsa
  obtain ⟨s1, s2, s3, s4, s5, s6, s7, s8, s9⟩ := startDo_direct_fields w req (by omega) htok hfit hfa
  rw [hqu] at s8
  rw [hpe] at s7
  generalize w.startDo req = W0 at s1 s2 s3 s4 s5 s6 s7 s8 s9 ⊢
  -- B's step
  have hB : handleS W0.1.b.toCfg (W0.1.b.slots (onWire req).tok) W0.1.now (onWire req) W0.1.appB =
      (⟨some ⟨{ x with tok := req.tok }, w.now + w.b.expiration⟩, w.b.receiving req.tok⟩,
       { reply := some (downloadBlock { x with tok := req.tok } w.a.szx w.b.maxSize 0), delivered := [onWire req] }) := by
    have hb := responder_first w.b.toCfg (onWire req) x (w.b.receiving req.tok) w.now w.appB (by rw [hsb]; exact hs) hq htok hb2 happ
      hrc.npp hdl (by rw [hsb]; exact hmore) hlen
    rw [hsb] at hb
    show handleS W0.1.b.toCfg (W0.1.b.slots req.tok) W0.1.now _ _ = _
    rw [s4, s5, s6]
    simp only [Endpoint.slots, hfb]
    exact hb
  obtain ⟨b1, b2, _, b4, b5, b6, b7⟩ := deliver_B W0.1 (onWire req) _ _ _ s8 hB
  generalize W0.1.fault .deliver = W1 at b1 b2 b4 b5 b6 b7 ⊢
  have hq1 : W1.1.queue = [⟨.A, downloadBlock { x with tok := req.tok } w.a.szx 0 0⟩] := by
    rw [b6]; show [(⟨.A, onWire (downloadBlock { x with tok := req.tok } w.a.szx w.b.maxSize 0)⟩ : Packet)] = _
    have hdl' : ({ x with tok := req.tok } : Msg).deadline = none := hdl
    rw [onWire_downloadBlock { x with tok := req.tok } _ 0 hs hdl']
  -- A's step
  have hA : handleS W1.1.a.toCfg (W1.1.a.slots (downloadBlock { x with tok := req.tok } w.a.szx 0 0).tok) W1.1.now
        (downloadBlock { x with tok := req.tok } w.a.szx 0 0) (fun _ => none) =
      (⟨some ⟨req, doExpire req⟩, some ⟨downloadBlock { x with tok := req.tok } w.a.szx 0 0, reqValid req w.now w.a.expiration⟩⟩,
       { reply := some (downloadReq req w.a.szx 1) }) := by
    have ha := requester_first w.a.toCfg { x with tok := req.tok } req (doExpire req) w.now (fun _ => none) 0 hs hrc hxb1 htok
      hexp hmore
    show handleS W1.1.a.toCfg (W1.1.a.slots req.tok) W1.1.now _ _ = _
    rw [b1, b4, s1, s6]
    simp only [Endpoint.slots, s2, s3, hra]
    exact ha
  obtain ⟨a1, a2, _, a4, a5, a6, a7⟩ := deliver_A W1.1 _ _ _ hq1 hA
  have ht : (downloadBlock { x with tok := req.tok } w.a.szx 0 0).tok = req.tok := rfl
  rw [ht] at a1
  have hdone : { downloadBlock { x with tok := req.tok } w.a.szx 0 0 with body := x.body, block2 := none, size2 := none } =
      ({ x with tok := req.tok } : Msg) := by
    cases x
    simp only at hxb2 hxs2
    subst hxb2 hxs2
    rfl
  have hvalid : w.now ≤ reqValid req w.now w.a.expiration := by
    unfold reqValid
    unfold doExpire at hexp
    cases hd : req.deadline with
    | none => show w.now ≤ w.now + w.a.expiration; omega
    | some d => rw [hd] at hexp; exact hexp
  refine ⟨⟨?_, ?_, ?_, ?_, ?_, ?_, ?_, ?_⟩, ?_, ?_, ?_⟩
  · rw [a4, b4, s6]
  · rw [a1]; show (W1.1.a.toCfg).szx = _; rw [b1, s1]
  · rw [a2, b2]; show (W0.1.b.toCfg).szx = _; rw [s4]; exact hsb
  · rw [a6]; rfl
  · rw [a5, b5, s7]; rfl
  · rw [a1]; exact put_sending _ _ _
  · refine ⟨⟨downloadBlock { x with tok := req.tok } w.a.szx 0 0, reqValid req w.now w.a.expiration⟩, ?_, hvalid, ?_, rfl, hdone⟩
    · rw [a1]; exact put_receiving _ _ _
    · rw [downloadBlock_zero_body _ 0 hs, Nat.one_mul]
  · refine ⟨w.now + w.b.expiration, ?_, by omega⟩
    rw [a2, b2]
    show (W0.1.b.put req.tok _).sending req.tok = _
    rw [put_sending]
  · rw [a7, b7, s9]; rfl
  · rw [a7, b7, s9]; rfl
  · rw [a7, b7, s9]; rfl

/-- the rounds after the first one, by induction over the number `d` of blocks still to come after block `j` -/
theorem download_from (req resp : Msg) (s : Nat) (t : Int)
    (hs : s < 7) (hrq : isRequest req.code = true) (hrc : RespCode resp.code) (hb1 : resp.block1 = none)
    (htok : req.tok ≠ 0) (hrt : resp.tok = req.tok) (hdl : resp.deadline = none) (hexp : t ≤ doExpire req)
    (hlen : resp.body.length < 4294967296) :
    ∀ (d j : Nat) (w : World), 0 < j → j + d + 1 < 2 ^ 20 → (j + d) * sizeN s < resp.body.length →
      resp.body.length ≤ (j + d + 1) * sizeN s → Mid2 w req resp s t j →
      Done2 (World.run w (List.replicate (2 * d + 2) (Op.fault .deliver))).1 req.tok ∧
      delivs (World.run w (List.replicate (2 * d + 2) (Op.fault .deliver))).2 = [(.A, resp)] ∧
      rets (World.run w (List.replicate (2 * d + 2) (Op.fault .deliver))).2 = [(req.tok, some resp)] ∧
      errs (World.run w (List.replicate (2 * d + 2) (Op.fault .deliver))).2 = 0 := by
  intro d
  induction d with
  | zero =>
    intro j w hj0 hnum hlo hhi h
    obtain ⟨h1, h2, h3, h4⟩ := last_round2 w req resp s t j hs hrq hrc hb1 htok hrt hdl hexp hlen (by omega) hj0
      (by simpa using hlo) (by simpa using hhi) h
    show Done2 (World.run w [Op.fault .deliver, Op.fault .deliver]).1 req.tok ∧
      delivs (World.run w [Op.fault .deliver, Op.fault .deliver]).2 = _ ∧
      rets (World.run w [Op.fault .deliver, Op.fault .deliver]).2 = _ ∧
      errs (World.run w [Op.fault .deliver, Op.fault .deliver]).2 = 0
    simp only [World.run, World.op, List.append_nil]
    exact ⟨h1, h2, h3, h4⟩
  | succ d ih =>
    intro j w hj0 hnum hlo hhi h
    have hmore : (j + 1) * sizeN s < resp.body.length := by
      have : (j + 1) * sizeN s ≤ (j + (d + 1)) * sizeN s := Nat.mul_le_mul_right _ (by omega)
      omega
    obtain ⟨m1, m2, m3, m4⟩ := mid_round2 w req resp s t j hs hrq hrc hb1 htok hrt hdl hexp hlen (by omega) hj0 hmore h
    obtain ⟨r1, r2, r3, r4⟩ := ih (j + 1) _ (by omega) (by omega)
      (by have : j + 1 + d = j + (d + 1) := by omega
          rw [this]; exact hlo)
      (by have : j + 1 + d + 1 = j + (d + 1) + 1 := by omega
          rw [this]; exact hhi) m1
    have hl : List.replicate (2 * (d + 1) + 2) (Op.fault Fault.deliver) =
        Op.fault .deliver :: Op.fault .deliver :: List.replicate (2 * d + 2) (Op.fault .deliver) := by
      have : 2 * (d + 1) + 2 = (2 * d + 2) + 1 + 1 := by omega
      rw [this, List.replicate_succ, List.replicate_succ]
    rw [hl, run_cons, run_cons]
    simp only [World.op]
    refine ⟨r1, ?_, ?_, ?_⟩
    · rw [← List.append_assoc, delivs_append, m2, r2]; rfl
    · rw [← List.append_assoc, rets_append, m3, r3]; rfl
    · rw [← List.append_assoc, errs_append, m4, r4]

/-- **download_progress** (Block2, `Do` through the two-endpoint system, fault-free, any body length).  A world with nothing
    in flight and no call pending, equal non-BERT exponents, nothing cached under the token (A's two slots, B's sending slot);
    a GET/DELETE `req` (non-zero token, no Block2 option, body — if any — fits one block, deadline not yet reached or none);
    B's application answers it with a response `x` (a response code; no Block1/Block2/Size2 option, no deadline) whose body
    needs `n ≥ 2` blocks (`n < 2^20`, below 4 GiB).  Then `Do(req)` followed by exactly `2n` fault-free deliveries hands B's
    application exactly one message — `req` as the wire carries it — and A's application exactly one: `x` under the
    request's token, complete body, no block options; `Do` returns exactly once, with that message; no error is raised;
    afterwards nothing is in flight, no call is pending and nothing is cached under the token on either side. -/
theorem download_progress (w : World) (req x : Msg) (n : Nat)
    (hszx : w.a.szx = w.b.szx) (hs : w.b.szx < 7) (hq : req.code = codeGET ∨ req.code = codeDELETE) (htok : req.tok ≠ 0)
    (hb2 : req.block2 = none) (hfit : req.body.length ≤ sizeN w.b.szx) (hexp : w.now ≤ doExpire req)
    (happ : w.appB (onWire req) = some x) (hrc : RespCode x.code) (hxb1 : x.block1 = none) (hxb2 : x.block2 = none)
    (hxs2 : x.size2 = none) (hdl : x.deadline = none) (hlen : x.body.length < 4294967296)
    (hn : 2 ≤ n) (hnum : n < 2 ^ 20) (hlo : (n - 1) * sizeN w.b.szx < x.body.length) (hhi : x.body.length ≤ n * sizeN w.b.szx)
    (hqu : w.queue = []) (hpe : w.pending = [])
    (hfa : w.a.sending req.tok = none) (hra : w.a.receiving req.tok = none) (hfb : w.b.sending req.tok = none)
    (hexpA : 0 ≤ w.a.expiration) (hexpB : 0 ≤ w.b.expiration) :
    Done2 (World.run w (Op.doReq req :: List.replicate (2 * n) (Op.fault .deliver))).1 req.tok ∧
    delivs (World.run w (Op.doReq req :: List.replicate (2 * n) (Op.fault .deliver))).2 =
      [(.B, onWire req), (.A, { x with tok := req.tok })] ∧
    rets (World.run w (Op.doReq req :: List.replicate (2 * n) (Op.fault .deliver))).2 = [(req.tok, some { x with tok := req.tok })] ∧
    errs (World.run w (Op.doReq req :: List.replicate (2 * n) (Op.fault .deliver))).2 = 0 := by
  obtain ⟨d, rfl⟩ : ∃ d, n = d + 2 := ⟨n - 2, by omega⟩
  have hsz := sizeN_pos (by omega : w.b.szx ≤ 7)
  have e1 : d + 2 - 1 = 1 + d := by omega
  rw [e1] at hlo
  have hmore : sizeN w.b.szx < x.body.length := by
    have : 1 * sizeN w.b.szx ≤ (1 + d) * sizeN w.b.szx := Nat.mul_le_mul_right _ (by omega)
    omega
  have hrq : isRequest req.code = true := by rcases hq with h | h <;> rw [h] <;> decide
  obtain ⟨f1, f2, f3, f4⟩ := first_round2 w req x w.b.szx hszx rfl hs hq htok hb2 hfit hexp happ hrc hxb1 hxb2 hxs2 hdl hmore hlen
    hqu hpe hfa hra hfb hexpA hexpB
  obtain ⟨r1, r2, r3, r4⟩ := download_from req { x with tok := req.tok } w.b.szx w.now hs hrq hrc hxb1 htok rfl hdl hexp hlen
    d 1 _ (by decide) (by omega) hlo
    (by have : 1 + d + 1 = d + 2 := by omega
        rw [this]; exact hhi) f1
  have hl : List.replicate (2 * (d + 2)) (Op.fault Fault.deliver) =
      Op.fault .deliver :: Op.fault .deliver :: List.replicate (2 * d + 2) (Op.fault .deliver) := by
    have : 2 * (d + 2) = (2 * d + 2) + 1 + 1 := by omega
    rw [this, List.replicate_succ, List.replicate_succ]
  rw [hl, run_cons, run_cons, run_cons]
  simp only [World.op]
  refine ⟨r1, ?_, ?_, ?_⟩
  · rw [← List.append_assoc, ← List.append_assoc, delivs_append, List.append_assoc, f2, r2]; rfl
  · rw [← List.append_assoc, ← List.append_assoc, rets_append, List.append_assoc, f3, r3]; rfl
  · rw [← List.append_assoc, ← List.append_assoc, errs_append, List.append_assoc, f4, r4]

def exGet : Msg := { code := 1, tok := 7, other := [(11, [99])] }
def exGetResp : Msg := { code := 69, tok := 9, other := [(12, [42])], body := exRespBody }
def exGetApp : App := fun d => if d.code = 1 ∧ d.tok = 7 then some exGetResp else none
def exW2 : World := { exWorld with appB := exGetApp }

/-- non-vacuity: the hypotheses hold for a GET answered with 40 bytes in three 16-byte blocks … -/
example : Done2 (World.run exW2 (Op.doReq exGet :: List.replicate (2 * 3) (Op.fault .deliver))).1 7 ∧
    delivs (World.run exW2 (Op.doReq exGet :: List.replicate (2 * 3) (Op.fault .deliver))).2 =
      [(.B, onWire exGet), (.A, { exGetResp with tok := 7 })] ∧
    rets (World.run exW2 (Op.doReq exGet :: List.replicate (2 * 3) (Op.fault .deliver))).2 = [(7, some { exGetResp with tok := 7 })] ∧
    errs (World.run exW2 (Op.doReq exGet :: List.replicate (2 * 3) (Op.fault .deliver))).2 = 0 :=
  download_progress exW2 exGet exGetResp 3 (by decide) (by decide) (by decide) (by decide) (by decide) (by decide) (by decide)
    (by decide) ⟨by decide, by decide, by decide, by decide⟩ (by decide) (by decide) (by decide) (by decide) (by decide)
    (by decide) (by decide) (by decide) (by decide) rfl rfl rfl rfl rfl (by decide) (by decide)

/-- … and the same instance evaluated: with one delivery less A's application has not been handed anything -/
example :
    delivs (World.run exW2 (Op.doReq exGet :: List.replicate (2 * 3) (Op.fault .deliver))).2 =
      [(.B, onWire exGet), (.A, { exGetResp with tok := 7 })] ∧
    delivs (World.run exW2 (Op.doReq exGet :: List.replicate (2 * 3 - 1) (Op.fault .deliver))).2 = [(.B, onWire exGet)] ∧
    delivs (World.run exW (Op.doReq exReq :: List.replicate (2 * 3 - 2) (Op.fault .deliver))).2 = [] := by decide


/-! ## Upload followed by download: a POST/PUT in several blocks answered in several blocks -/

/-- `startSendingMessage` for a response (no deadline) that needs more than one block while nothing is cached under the
    token: it is cached for the transfer timeout and its block 0 is handed to the connection -/
theorem startSending_long (cfg : Cfg) (m : Msg) (now : Int)
    (hs : cfg.szx < 7) (hx : isPostPut m.code = false) (hdl : m.deadline = none)
    (hmore : sizeN cfg.szx < m.body.length) (hlen : m.body.length < 4294967296) :
    startSendingS cfg none now (some m) cfg.szx (blkVal cfg.szx 0 true) =
      .ok (some ⟨m, now + cfg.expiration⟩, some (downloadBlock m cfg.szx cfg.maxSize 0)) := by
  have hs7 : cfg.szx ≤ 7 := by omega
  have hsz := sizeN_pos hs7
  have hbuf : bufLen cfg.szx cfg.maxSize = sizeN cfg.szx := bufLen_small _ hs
  have hsend : sendBT m.code = .b2 := by simp [sendBT, hx]
  have hoff : sendOffWith startSkipsSent .b2 cfg.szx 0 (sizeN cfg.szx) = 0 * sizeN cfg.szx := by
    have : (BT.b2 == BT.b1) = false := by decide
    simp [sendOffWith, this]
  have hcs : createSendingFirst m cfg.szx cfg.maxSize (blkVal cfg.szx 0 true) =
      some (downloadBlock m cfg.szx cfg.maxSize 0,
        decide (0 * sizeN cfg.szx + ((m.body.drop (0 * sizeN cfg.szx)).take (sizeN cfg.szx)).length ≠ m.body.length)) := by
    unfold createSendingFirst createSendingWith
    rw [decode_blkVal true hs7 (by decide : 0 < 2 ^ 20)]
    simp only [getSzx_eq_min, Nat.min_self, hsend, hbuf, hoff]
    unfold createSendingAt
    have e0 : ¬ (refusesBodylessSending = true ∧ m.body = []) := bodyless_test_neg (by omega)
    have e1 : ¬ (sizeN cfg.szx > 0 ∧ 0 * sizeN cfg.szx > m.body.length) := by omega
    have e2 : ¬ m.body.length ≥ 4294967296 := by omega
    simp only [if_neg e0, if_neg e1, if_neg e2, Nat.mul_div_cancel _ hsz]
    rw [encode_blkVal _ hs7 (by decide : 0 < 2 ^ 20)]
    simp [downloadBlock, Msg.setSize, Msg.setBlock, hbuf]
  have hfits : fits startDirectIsLe m.body.length (sizeN cfg.szx) = false := by
    have hle : startDirectIsLe = false := rfl
    simp [fits, hle]; omega
  unfold startSendingS
  simp only [hfits, Bool.false_eq_true, if_false, hcs]
  have hd : (downloadBlock m cfg.szx cfg.maxSize 0).deadline = none := hdl
  simp only [hd, storeIfAbsent, live, Bool.false_eq_true, if_false]

/-- **receiver, last round, long answer.**  As `receiver_last`, but the application answers the completed request with a
    response (no deadline) that needs more than one block: it is cached and its block 0 is the reply -/
theorem receiver_last_long (cfg : Cfg) (r x : Msg) (ent : Entry) (now : Int) (app : App) (ms k : Nat)
    (hs : cfg.szx < 7) (hpp : isPostPut r.code = true) (htok : r.tok ≠ 0) (hlive : now ≤ ent.validUntil)
    (hheld : ent.msg.body = r.body.take (k * sizeN cfg.szx)) (hk : k * sizeN cfg.szx ≤ r.body.length)
    (hetag : ent.msg.etag = r.etag) (hnum : k < 2 ^ 20) (hk0 : 0 < k)
    (hlast : r.body.length ≤ (k + 1) * sizeN cfg.szx)
    (happ : app { ent.msg with body := r.body, block1 := none, size1 := none } = some x)
    (hx : isPostPut x.code = false) (hdl : x.deadline = none)
    (hmore : sizeN cfg.szx < x.body.length) (hlen : x.body.length < 4294967296) :
    handleS cfg ⟨none, some ent⟩ now (uploadBlock r cfg.szx ms k) app =
      (⟨some ⟨{ x with tok := ent.msg.tok }, now + cfg.expiration⟩, none⟩,
       { reply := some (downloadBlock { x with tok := ent.msg.tok } cfg.szx cfg.maxSize 0),
         delivered := [{ ent.msg with body := r.body, block1 := none, size1 := none }] }) := by
  have hpr := pr_upload_last cfg r ent now app ms k hs hpp htok hlive hheld hk hetag hnum hk0 hlast
  rw [handleS_upload_shape cfg r (some ent) now app ms k hs hpp htok hnum, hpr]
  have hnext : next app none { ent.msg with body := r.body, block1 := none, size1 := none } = some { x with tok := ent.msg.tok } := by
    unfold next; rw [happ]
  unfold finishReceived
  simp only [Bool.false_eq_true, if_false, hnext]
  rw [startSending_long cfg { x with tok := ent.msg.tok } now hs hx hdl hmore hlen]
  simp only [Bool.false_eq_true, if_false]

theorem run_append (l1 l2 : List Op) : ∀ w : World,
    World.run w (l1 ++ l2) =
      ((World.run (World.run w l1).1 l2).1, (World.run w l1).2 ++ (World.run (World.run w l1).1 l2).2) := by
  induction l1 with
  | nil => intro w; simp [World.run]
  | cons o os ih => intro w; simp only [List.cons_append, run_cons, ih, List.append_assoc]

theorem quiet_of_troubles : ∀ evs : List Event, troubles evs = 0 → rets evs = [] ∧ errs evs = 0 := by
  intro evs
  induction evs with
  | nil => intro _; exact ⟨rfl, rfl⟩
  | cons e es ih =>
    intro h
    cases e <;> simp [troubles, rets, errs] at h ⊢ <;> (have := ih (by simpa [troubles] using h); simpa [rets, errs] using this)

/-- `d` rounds in the middle of the upload, by induction -/
theorem upload_mid (app : App) (r : Msg) (s : Nat) (t : Int)
    (hs : s < 7) (hpp : isPostPut r.code = true) (htok : r.tok ≠ 0) (hexp : t ≤ doExpire r)
    (hlen : r.body.length < 4294967296) :
    ∀ (d j : Nat) (w : World), 0 < j → j + d < 2 ^ 20 → (j + d) * sizeN s < r.body.length → Mid w app r s t j →
      Mid (World.run w (List.replicate (2 * d) (Op.fault .deliver))).1 app r s t (j + d) ∧
      delivs (World.run w (List.replicate (2 * d) (Op.fault .deliver))).2 = [] ∧
      troubles (World.run w (List.replicate (2 * d) (Op.fault .deliver))).2 = 0 := by
  intro d
  induction d with
  | zero => intro j w _ _ _ h; exact ⟨h, rfl, rfl⟩
  | succ d ih =>
    intro j w hj0 hnum hlo h
    have hmore : (j + 1) * sizeN s < r.body.length := by
      have : (j + 1) * sizeN s ≤ (j + (d + 1)) * sizeN s := Nat.mul_le_mul_right _ (by omega)
      omega
    obtain ⟨m1, m2, m3⟩ := mid_round w app r s t j hs hpp htok hexp hlen (by omega) hj0 hmore h
    have e : j + 1 + d = j + (d + 1) := by omega
    obtain ⟨r1, r2, r3⟩ := ih (j + 1) _ (by omega) (by omega) (by rw [e]; exact hlo) m1
    rw [e] at r1
    have hl : List.replicate (2 * (d + 1)) (Op.fault Fault.deliver) =
        Op.fault .deliver :: Op.fault .deliver :: List.replicate (2 * d) (Op.fault .deliver) := by
      have : 2 * (d + 1) = (2 * d) + 1 + 1 := by omega
      rw [this, List.replicate_succ, List.replicate_succ]
    rw [hl, run_cons, run_cons]
    simp only [World.op]
    refine ⟨r1, ?_, ?_⟩
    · rw [← List.append_assoc, delivs_append, m2, r2]; rfl
    · rw [← List.append_assoc, troubles_append, m3, r3]

/-- **the round between upload and download**: the last block of the request reaches B, whose application answers with a
    response that needs more than one block; B replies with its block 0, A opens an entry with it and asks for block 1 -/
theorem hinge_round (w : World) (app : App) (r x : Msg) (s : Nat) (t : Int) (j : Nat)
    (hs : s < 7) (hpp : isPostPut r.code = true) (htok : r.tok ≠ 0) (hexp : t ≤ doExpire r)
    (hnum : j < 2 ^ 20) (hj0 : 0 < j)
    (hjle : j * sizeN s ≤ r.body.length) (hlast : r.body.length ≤ (j + 1) * sizeN s)
    (happ : app (onWire r) = some x) (hrc : RespCode x.code) (hxb1 : x.block1 = none) (hxb2 : x.block2 = none)
    (hxs2 : x.size2 = none) (hdl : x.deadline = none)
    (hmore : sizeN s < x.body.length) (hlen : x.body.length < 4294967296)
    (h : Mid w app r s t j) :
    Mid2 ((w.fault .deliver).1.fault .deliver).1 r { x with tok := r.tok } s t 1 ∧
    delivs ((w.fault .deliver).2 ++ ((w.fault .deliver).1.fault .deliver).2) = [(.B, onWire r)] ∧
    rets ((w.fault .deliver).2 ++ ((w.fault .deliver).1.fault .deliver).2) = [] ∧
    errs ((w.fault .deliver).2 ++ ((w.fault .deliver).1.fault .deliver).2) = 0 := by
  obtain ⟨ent, hrcv, hlive, hheld, hetag, hdone⟩ := h.brcv
  have hexpA := h.ea
  have hexpB := h.eb
  have hd : ({ ent.msg with body := (onWire r).body, block1 := none, size1 := none } : Msg) = onWire r := hdone
  have htk : ent.msg.tok = r.tok := by
    have := congrArg Msg.tok hd
    exact this
  -- B's step
  have hB : handleS w.b.toCfg (w.b.slots r.tok) w.now (uploadBlock (onWire r) s 0 j) w.appB =
      (⟨some ⟨{ x with tok := r.tok }, w.now + w.b.expiration⟩, none⟩,
       { reply := some (downloadBlock { x with tok := r.tok } s w.b.maxSize 0), delivered := [onWire r] }) := by
    have happ' : w.appB { ent.msg with body := (onWire r).body, block1 := none, size1 := none } = some x := by
      rw [hd, h.happ]; exact happ
    have hb := receiver_last_long w.b.toCfg (onWire r) x ent w.now w.appB 0 j (by rw [h.sb]; exact hs) hpp htok
      (by rw [h.now]; exact hlive) (by rw [h.sb]; exact hheld) (by rw [h.sb]; exact hjle) hetag hnum hj0
      (by rw [h.sb]; exact hlast) happ' hrc.npp hdl (by rw [h.sb]; exact hmore) hlen
    rw [hd, h.sb, htk] at hb
    simp only [Endpoint.slots, h.bsnd, hrcv]
    exact hb
  obtain ⟨b1, b2, _, b4, b5, b6, b7⟩ := deliver_B w (uploadBlock (onWire r) s 0 j) _ _ _ h.queue hB
  generalize w.fault .deliver = W1 at b1 b2 b4 b5 b6 b7 ⊢
  have hq1 : W1.1.queue = [⟨.A, downloadBlock { x with tok := r.tok } s 0 0⟩] := by
    rw [b6]; show [(⟨.A, onWire (downloadBlock { x with tok := r.tok } s w.b.maxSize 0)⟩ : Packet)] = _
    have hdl' : ({ x with tok := r.tok } : Msg).deadline = none := hdl
    rw [onWire_downloadBlock { x with tok := r.tok } _ 0 hs hdl']
  -- A's step
  have hA : handleS W1.1.a.toCfg (W1.1.a.slots (downloadBlock { x with tok := r.tok } s 0 0).tok) W1.1.now
        (downloadBlock { x with tok := r.tok } s 0 0) (fun _ => none) =
      (⟨some ⟨r, doExpire r⟩, some ⟨downloadBlock { x with tok := r.tok } s 0 0, reqValid r w.now w.a.expiration⟩⟩,
       { reply := some (downloadReq r s 1) }) := by
    have ha := requester_first w.a.toCfg { x with tok := r.tok } r (doExpire r) w.now (fun _ => none) 0 (by rw [h.sa]; exact hs)
      hrc hxb1 htok (by rw [h.now]; exact hexp) (by rw [h.sa]; exact hmore)
    rw [h.sa] at ha
    show handleS W1.1.a.toCfg (W1.1.a.slots r.tok) W1.1.now _ _ = _
    rw [b1, b4]
    simp only [Endpoint.slots, h.asnd, h.arcv]
    exact ha
  obtain ⟨a1, a2, _, a4, a5, a6, a7⟩ := deliver_A W1.1 _ _ _ hq1 hA
  have ht : (downloadBlock { x with tok := r.tok } s 0 0).tok = r.tok := rfl
  rw [ht] at a1
  have hdone2 : { downloadBlock { x with tok := r.tok } s 0 0 with body := x.body, block2 := none, size2 := none } =
      ({ x with tok := r.tok } : Msg) := by
    cases x
    simp only at hxb2 hxs2
    subst hxb2 hxs2
    rfl
  have hvalid : t ≤ reqValid r w.now w.a.expiration := by
    unfold reqValid
    unfold doExpire at hexp
    rw [h.now]
    cases hd : r.deadline with
    | none => show t ≤ t + w.a.expiration; omega
    | some d => rw [hd] at hexp; exact hexp
  refine ⟨⟨?_, ?_, ?_, ?_, ?_, ?_, ?_, ?_⟩, ?_, ?_, ?_⟩
  · rw [a4, b4]; exact h.now
  · rw [a1, b1]; exact h.sa
  · rw [a2, b2]; exact h.sb
  · rw [a6]; rfl
  · rw [a5, b5]; exact h.pending
  · rw [a1]; exact put_sending _ _ _
  · refine ⟨⟨downloadBlock { x with tok := r.tok } s 0 0, reqValid r w.now w.a.expiration⟩, ?_, hvalid, ?_, rfl, hdone2⟩
    · rw [a1]; exact put_receiving _ _ _
    · rw [downloadBlock_zero_body _ 0 hs, Nat.one_mul]
  · refine ⟨w.now + w.b.expiration, ?_, by rw [h.now]; omega⟩
    rw [a2, b2]
    show (w.b.put r.tok _).sending r.tok = _
    rw [put_sending]
  · rw [a7, b7]; rfl
  · rw [a7, b7]; rfl
  · rw [a7, b7]; rfl

theorem run_two (w : World) :
    World.run w (List.replicate 2 (Op.fault .deliver)) =
      (((w.fault .deliver).1.fault .deliver).1, (w.fault .deliver).2 ++ ((w.fault .deliver).1.fault .deliver).2) := by
  show World.run w [Op.fault .deliver, Op.fault .deliver] = _
  simp only [World.run, World.op, List.append_nil]

/-- **do_progress** (Block1 upload, then Block2 download; `Do` through the two-endpoint system, fault-free, any body
    lengths).  A world with nothing in flight and no call pending, equal non-BERT exponents, nothing cached under the token;
    a POST/PUT `r` (non-zero token, no Block1/Size1 option, deadline not yet reached or none) whose body needs `n₁ ≥ 2`
    blocks; B's application answers the completed request with a response `x` (a response code; no Block1/Block2/Size2
    option, no deadline) whose body needs `n₂ ≥ 2` blocks.  Then `Do(r)` followed by exactly `2n₁ + 2n₂ − 2` fault-free
    deliveries hands B's application exactly one message — `r` as the wire carries it, complete body, no block options —
    and A's application exactly one — `x` under the request's token, complete body, no block options —, in this order;
    `Do` returns exactly once, with that message; no error is raised; afterwards nothing is in flight, no call is pending,
    A has nothing cached under the token and B's sending slot is free. -/
theorem do_progress (w : World) (r x : Msg) (n1 n2 : Nat)
    (hszx : w.a.szx = w.b.szx) (hs : w.b.szx < 7) (hpp : isPostPut r.code = true) (htok : r.tok ≠ 0)
    (hexp : w.now ≤ doExpire r) (hlenr : r.body.length < 4294967296) (hb1 : r.block1 = none) (hs1 : r.size1 = none)
    (hn1 : 2 ≤ n1) (hnum1 : n1 ≤ 2 ^ 20) (hlo1 : (n1 - 1) * sizeN w.b.szx < r.body.length) (hhi1 : r.body.length ≤ n1 * sizeN w.b.szx)
    (happ : w.appB (onWire r) = some x) (hrc : RespCode x.code) (hxb1 : x.block1 = none) (hxb2 : x.block2 = none)
    (hxs2 : x.size2 = none) (hdl : x.deadline = none) (hlenx : x.body.length < 4294967296)
    (hn2 : 2 ≤ n2) (hnum2 : n2 < 2 ^ 20) (hlo2 : (n2 - 1) * sizeN w.b.szx < x.body.length) (hhi2 : x.body.length ≤ n2 * sizeN w.b.szx)
    (hq : w.queue = []) (hpe : w.pending = []) (hfa : w.a.sending r.tok = none) (hra : w.a.receiving r.tok = none)
    (hfb : w.b.sending r.tok = none) (hrb : w.b.receiving r.tok = none)
    (hexpA : 0 ≤ w.a.expiration) (hexpB : 0 ≤ w.b.expiration) :
    Done2 (World.run w (Op.doReq r :: List.replicate (2 * n1 + 2 * n2 - 2) (Op.fault .deliver))).1 r.tok ∧
    delivs (World.run w (Op.doReq r :: List.replicate (2 * n1 + 2 * n2 - 2) (Op.fault .deliver))).2 =
      [(.B, onWire r), (.A, { x with tok := r.tok })] ∧
    rets (World.run w (Op.doReq r :: List.replicate (2 * n1 + 2 * n2 - 2) (Op.fault .deliver))).2 =
      [(r.tok, some { x with tok := r.tok })] ∧
    errs (World.run w (Op.doReq r :: List.replicate (2 * n1 + 2 * n2 - 2) (Op.fault .deliver))).2 = 0 := by
  obtain ⟨d1, rfl⟩ : ∃ d, n1 = d + 2 := ⟨n1 - 2, by omega⟩
  obtain ⟨d2, rfl⟩ : ∃ d, n2 = d + 2 := ⟨n2 - 2, by omega⟩
  have hsz := sizeN_pos (by omega : w.b.szx ≤ 7)
  have e1 : d1 + 2 - 1 = 1 + d1 := by omega
  have e2 : d2 + 2 - 1 = 1 + d2 := by omega
  rw [e1] at hlo1
  rw [e2] at hlo2
  have hmore1 : sizeN w.b.szx < r.body.length := by
    have : 1 * sizeN w.b.szx ≤ (1 + d1) * sizeN w.b.szx := Nat.mul_le_mul_right _ (by omega)
    omega
  have hmore2 : sizeN w.b.szx < x.body.length := by
    have : 1 * sizeN w.b.szx ≤ (1 + d2) * sizeN w.b.szx := Nat.mul_le_mul_right _ (by omega)
    omega
  have hrq : isRequest r.code = true := by
    have : r.code = codePOST ∨ r.code = codePUT := by simpa [isPostPut] using hpp
    rcases this with h | h <;> rw [h] <;> decide
  have hl : List.replicate (2 * (d1 + 2) + 2 * (d2 + 2) - 2) (Op.fault Fault.deliver) =
      List.replicate 2 (Op.fault .deliver) ++ (List.replicate (2 * d1) (Op.fault .deliver) ++
        (List.replicate 2 (Op.fault .deliver) ++ List.replicate (2 * d2 + 2) (Op.fault .deliver))) := by
    simp only [List.replicate_append_replicate]
    congr 1
    omega
  rw [hl, run_cons]
  simp only [World.op]
  rw [run_append, run_append, run_append, run_two (w.startDo r).1]
  dsimp only
  -- first round
  obtain ⟨f1, f2, f3⟩ := first_round w r w.b.szx hszx rfl hs hpp htok hexp hlenr hb1 hs1 hmore1 hq hpe hfa hra hfb hrb hexpA hexpB
  obtain ⟨f4, f5⟩ := quiet_of_troubles _ f3
  generalize (((w.startDo r).1.fault .deliver).1.fault .deliver).1 = V1 at f1 ⊢
  generalize (w.startDo r).2 = E0 at f2 f3 f4 f5 ⊢
  generalize (((w.startDo r).1.fault .deliver).2 ++ (((w.startDo r).1.fault .deliver).1.fault .deliver).2) = E1 at f2 f3 f4 f5 ⊢
  -- the rest of the upload
  obtain ⟨u1, u2, u3⟩ := upload_mid w.appB r w.b.szx w.now hs hpp htok hexp hlenr d1 1 V1 (by decide) (by omega) hlo1 f1
  obtain ⟨u4, u5⟩ := quiet_of_troubles _ u3
  generalize World.run V1 (List.replicate (2 * d1) (Op.fault .deliver)) = R2 at u1 u2 u3 u4 u5 ⊢
  -- the last block of the request, the first of the response
  obtain ⟨g1, g2, g3, g4⟩ := hinge_round R2.1 w.appB r x w.b.szx w.now (1 + d1) hs hpp htok hexp (by omega) (by omega)
    (by omega) (by have : 1 + d1 + 1 = d1 + 2 := by omega
                   rw [this]; exact hhi1)
    happ hrc hxb1 hxb2 hxs2 hdl hmore2 hlenx u1
  rw [run_two R2.1]
  dsimp only
  generalize ((R2.1.fault .deliver).1.fault .deliver).1 = V3 at g1 ⊢
  generalize ((R2.1.fault .deliver).2 ++ ((R2.1.fault .deliver).1.fault .deliver).2) = E3 at g2 g3 g4 ⊢
  -- the rest of the download
  obtain ⟨r1, r2, r3, r4⟩ := download_from r { x with tok := r.tok } w.b.szx w.now hs hrq hrc hxb1 htok rfl hdl hexp hlenx
    d2 1 V3 (by decide) (by omega) hlo2
    (by have : 1 + d2 + 1 = d2 + 2 := by omega
        rw [this]; exact hhi2) g1
  generalize World.run V3 (List.replicate (2 * d2 + 2) (Op.fault .deliver)) = R4 at r1 r2 r3 r4 ⊢
  refine ⟨r1, ?_, ?_, ?_⟩
  · rw [← List.append_assoc, delivs_append, f2, delivs_append, u2, delivs_append, g2, r2]; rfl
  · rw [← List.append_assoc, rets_append, f4, rets_append, u4, rets_append, g3, r3]; rfl
  · rw [← List.append_assoc, errs_append, f5, errs_append, u5, errs_append, g4, r4]

/-- non-vacuity: the 40-byte POST of `Props/C04.lean` (three blocks) answered with 40 bytes (three blocks) completes in
    `2·3 + 2·3 − 2 = 10` fault-free deliveries … -/
example : Done2 (World.run exWorld (Op.doReq exReq :: List.replicate (2 * 3 + 2 * 3 - 2) (Op.fault .deliver))).1 7 ∧
    delivs (World.run exWorld (Op.doReq exReq :: List.replicate (2 * 3 + 2 * 3 - 2) (Op.fault .deliver))).2 =
      [(.B, onWire exReq), (.A, { code := 68, tok := 7, other := [(12, [42])], body := exRespBody })] ∧
    rets (World.run exWorld (Op.doReq exReq :: List.replicate (2 * 3 + 2 * 3 - 2) (Op.fault .deliver))).2 =
      [(7, some { code := 68, tok := 7, other := [(12, [42])], body := exRespBody })] ∧
    errs (World.run exWorld (Op.doReq exReq :: List.replicate (2 * 3 + 2 * 3 - 2) (Op.fault .deliver))).2 = 0 :=
  do_progress exWorld exReq { code := 68, tok := 7, other := [(12, [42])], body := exRespBody } 3 3
    (by decide) (by decide) (by decide) (by decide) (by decide) (by decide) (by decide) (by decide)
    (by decide) (by decide) (by decide) (by decide)
    (by decide) ⟨by decide, by decide, by decide, by decide⟩ (by decide) (by decide) (by decide) (by decide) (by decide)
    (by decide) (by decide) (by decide) (by decide)
    rfl rfl rfl rfl rfl rfl (by decide) (by decide)

end CoapVerif.Lemmas.BlockwiseProgress
