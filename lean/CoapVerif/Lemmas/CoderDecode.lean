import CoapVerif.Lemmas.OptionCodec
import CoapVerif.Model.TcpCoder
/-!
List-level characterisation of the datagram and stream decoders (`udpDec`, `tcpHdr`, `tcpDec`),
proved equal to the checked-slicing models; no-panic and the capacity bound used by the pooled
retry loop follow.  Core Lean only (imported by `Model/PoolMessage.lean`).
-/
set_option linter.unusedVariables false
namespace CoapVerif.Lemmas.CoderDecode
open CoapVerif.Generated.Codec CoapVerif.Generated.OptionDefs
open CoapVerif.Spec.Wire (Bytes Opt Msg)
open CoapVerif.Model.OptionCodec CoapVerif.Lemmas.OptionCodec
open CoapVerif.Model

theorem shr6 (b : UInt8) : (b >>> 6 ≠ 1) = (b.toNat / 64 ≠ 1) := by
  have : (b >>> 6 = 1) ↔ (b.toNat / 64 = 1) := by
    rw [← UInt8.toNat_inj, UInt8.toNat_shiftRight]; simp [Nat.shiftRight_eq_div_pow]
  simp [this]

theorem typBits (b : UInt8) : ((b >>> 4) &&& 0x3).toNat = b.toNat / 16 % 4 := by
  rw [UInt8.toNat_and, UInt8.toNat_shiftRight]
  simp [Nat.shiftRight_eq_div_pow]
  exact Nat.and_two_pow_sub_one_eq_mod _ 2

theorem and15' (b : UInt8) : (b &&& 0xf).toNat = b.toNat % 16 := and15 b

/-- List-level reading of `udp/coder.Decode`. -/
def udpDec (cap : Nat) (data : Bytes) : Except Err (Msg × Nat) :=
  match data with
  | b0 :: b1 :: b2 :: b3 :: rest =>
    if b0.toNat / 64 ≠ 1 then .error .badVersion
    else if b0.toNat % 16 > 8 then .error .badToken
    else if rest.length < b0.toNat % 16 then .error .truncated
    else
      match decLoop coapOptionDefs cap 0 0 (rest.drop (b0.toNat % 16)) with
      | .error e => .error e
      | .ok (os, pay) =>
        .ok (⟨((b0.toNat / 16 % 4 : Nat) : Int), ((b2.toNat * 256 + b3.toNat : Nat) : Int), b1.toNat,
              rest.take (b0.toNat % 16), os, pay⟩, data.length)
  | _ => .error .truncated

theorem udp_decode_eq (cap : Nat) (data : Bytes) : UdpCoder.decode cap data = udpDec cap data := by
  unfold UdpCoder.decode udpDec
  match data with
  | [] => simp
  | [_] => simp
  | [_, _] => simp
  | [_, _, _] => simp
  | b0 :: b1 :: b2 :: b3 :: rest =>
    have h4 : ¬ ((b0 :: b1 :: b2 :: b3 :: rest).length < 4) := by simp
    simp only [h4, ↓reduceIte, idx_cons_zero, bind, Except.bind, shr6, typBits, and15']
    by_cases hv : b0.toNat / 64 ≠ 1
    · simp [hv]
    · simp only [hv, ↓reduceIte]
      by_cases ht : b0.toNat % 16 > 8
      · simp [ht]
      · simp only [ht, ↓reduceIte, idx_cons_one]
        have e1 : sliceTo (b0 :: b1 :: b2 :: b3 :: rest) 4 = .ok [b0, b1, b2, b3] := by simp [sliceTo]
        have e2 : sliceFrom [b0, b1, b2, b3] 2 = .ok [b2, b3] := by simp [sliceFrom]
        have e3 : getU16 [b2, b3] = .ok (b2.toNat * 256 + b3.toNat) := by simp [getU16]
        have e4 : sliceFrom (b0 :: b1 :: b2 :: b3 :: rest) 4 = .ok rest := by simp [sliceFrom]
        simp only [e1, e2, e3, e4]
        by_cases hl : rest.length < b0.toNat % 16
        · simp [hl]
        · simp only [hl, ↓reduceIte]
          rw [sliceTo_ok (by omega), sliceFrom_ok (by omega)]
          simp only [optionsUnmarshal, unmarshalLoop_eq]
          cases hd : decLoop coapOptionDefs cap 0 0 (List.drop (b0.toNat % 16) rest) with
          | error e => rfl
          | ok r =>
            obtain ⟨os, pay⟩ := r
            obtain ⟨pre, hpre⟩ := decLoop_suffix _ _ _ _ _ _ _ hd
            simp only [Nat.zero_add]
            rw [sliceFrom_ok (by omega)]
            have : List.drop ((List.drop (b0.toNat % 16) rest).length - pay.length) (List.drop (b0.toNat % 16) rest) = pay := by
              rw [hpre]; simp
            simp only [List.length_drop, List.drop_drop] at this ⊢
            rw [this]

/-! ## Stream framing -/

theorem hiNib (b : UInt8) : ((b &&& 0xf0) >>> 4).toNat = b.toNat / 16 := by
  rw [UInt8.toNat_shiftRight, UInt8.toNat_and]
  simp [Nat.shiftRight_eq_div_pow]
  have h : (240 : Nat) = 15 <<< 4 := by decide
  rw [h]
  have := b.toNat_lt
  rw [← Nat.shiftRight_eq_div_pow (n := 4), Nat.and_comm, ← Nat.shiftRight_eq_div_pow b.toNat 4]
  apply Nat.eq_of_testBit_eq
  intro i
  simp only [Nat.testBit_shiftRight, Nat.testBit_and, Nat.testBit_shiftLeft]
  by_cases hi : i < 4
  · have : (15 : Nat).testBit i = true := by
      have : i = 0 ∨ i = 1 ∨ i = 2 ∨ i = 3 := by omega
      rcases this with h | h | h | h <;> subst h <;> decide
    simp [this]
  · have h8 : b.toNat.testBit (4 + i) = false := by
      apply Nat.testBit_lt_two_pow
      have : 2 ^ 8 ≤ 2 ^ (4 + i) := Nat.pow_le_pow_right (by decide) (by omega)
      omega
    simp [h8]

/-- Extended length of a stream frame: (options+payload length, rest, header offset after it). -/
def tcpExt (nib : Nat) (t : Bytes) : Except Err (Nat × Bytes × Nat) :=
  if nib < 13 then .ok (nib, t, 1)
  else if nib = 13 then
    match t with
    | e :: r => .ok (13 + e.toNat, r, 2)
    | _ => .error .shortRead
  else if nib = 14 then
    match t with
    | e0 :: e1 :: r => .ok (269 + (e0.toNat * 256 + e1.toNat), r, 3)
    | _ => .error .shortRead
  else if nib = 15 then
    match t with
    | e0 :: e1 :: e2 :: e3 :: r =>
      .ok (65805 + (e0.toNat * 16777216 + e1.toNat * 65536 + e2.toNat * 256 + e3.toNat), r, 5)
    | _ => .error .shortRead
  else .ok (0, t, 1)

/-- Second half of the header: declared length, code, token. -/
def tcpHdrRest (tkl opLen off : Nat) (t' : Bytes) : Except Err TcpCoder.Header :=
  if off + 1 + tkl + opLen > 4294967295 then .error .invalidLen
  else
    match t' with
    | [] => .error .shortRead
    | code :: r =>
      if r.length < tkl then .error .shortRead
      else .ok ⟨r.take tkl, off + 1 + tkl, off + 1 + tkl + opLen, code.toNat⟩

/-- List-level reading of `tcp/coder.DecodeHeader`. -/
def tcpHdr (data : Bytes) : Except Err TcpCoder.Header :=
  match data with
  | [] => .error .shortRead
  | b :: t =>
    if b.toNat % 16 > 8 then .error .badToken
    else
      match tcpExt (b.toNat / 16) t with
      | .error e => .error e
      | .ok (opLen, t', off) => tcpHdrRest (b.toNat % 16) opLen off t'

theorem decodeHeaderRest_eq (tkl opLen : Nat) (t' : Bytes) (off : Nat) :
    TcpCoder.decodeHeaderRest tkl opLen t' off = tcpHdrRest tkl opLen off t' := by
  unfold TcpCoder.decodeHeaderRest tcpHdrRest
  simp only []
  split
  · rfl
  · cases t' with
    | nil => simp
    | cons code r =>
      have : ¬ ((code :: r).length < 1) := by simp
      have e2 : sliceFrom (code :: r) 1 = .ok r := by simp [sliceFrom]
      simp only [this, ↓reduceIte, idx_cons_zero, e2, bind, Except.bind]
      by_cases hr : r.length < tkl
      · simp [hr]
      · simp only [hr, ↓reduceIte]
        by_cases h0 : tkl > 0
        · simp only [h0, ↓reduceIte]; rw [sliceTo_ok (by omega)]
        · have : tkl = 0 := by omega
          simp [this, pure, Except.pure]

theorem tcp_decodeHeader_eq (data : Bytes) : TcpCoder.decodeHeader data = tcpHdr data := by
  unfold TcpCoder.decodeHeader tcpHdr
  cases data with
  | nil => simp
  | cons b t =>
    have hne : ¬ ((b :: t).length = 0) := by simp
    have e1 : sliceFrom (b :: t) 1 = .ok t := by simp [sliceFrom]
    simp only [hne, ↓reduceIte, idx_cons_zero, bind, Except.bind, e1, hiNib, and15, maxTokenSize,
      msgLen13Base, msgLen14Base, msgLen15Base, decodeHeaderRest_eq]
    by_cases htk : b.toNat % 16 > 8
    · simp [htk]
    · simp only [htk, ↓reduceIte]
      unfold tcpExt
      by_cases h13 : b.toNat / 16 < 13
      · simp only [h13, ↓reduceIte]
      · simp only [h13, ↓reduceIte]
        by_cases e13 : b.toNat / 16 = 13
        · simp only [e13, ↓reduceIte]
          cases t with
          | nil => simp
          | cons e r =>
            have : ¬ ((e :: r).length < 1) := by simp
            have e2 : sliceFrom (e :: r) 1 = .ok r := by simp [sliceFrom]
            simp only [this, ↓reduceIte, idx_cons_zero, e2]
        · simp only [e13, ↓reduceIte]
          by_cases e14 : b.toNat / 16 = 14
          · simp only [e14, ↓reduceIte]
            match t with
            | [] => simp
            | [_] => simp
            | e0 :: e1 :: r =>
              have : ¬ ((e0 :: e1 :: r).length < 2) := by simp
              have e2 : sliceFrom (e0 :: e1 :: r) 2 = .ok r := by simp [sliceFrom]
              have e3 : getU16 (e0 :: e1 :: r) = .ok (e0.toNat * 256 + e1.toNat) := by simp [getU16]
              simp only [this, ↓reduceIte, e2, e3]
          · simp only [e14, ↓reduceIte]
            by_cases e15 : b.toNat / 16 = 15
            · simp only [e15, ↓reduceIte]
              match t with
              | [] => simp
              | [_] => simp
              | [_, _] => simp
              | [_, _, _] => simp
              | e0 :: e1 :: e2 :: e3 :: r =>
                have : ¬ ((e0 :: e1 :: e2 :: e3 :: r).length < 4) := by simp
                have e2' : sliceFrom (e0 :: e1 :: e2 :: e3 :: r) 4 = .ok r := by simp [sliceFrom]
                have e3' : getU32 (e0 :: e1 :: e2 :: e3 :: r) =
                    .ok (e0.toNat * 16777216 + e1.toNat * 65536 + e2.toNat * 256 + e3.toNat) := by simp [getU32]
                simp only [this, ↓reduceIte, e2', e3']
            · simp only [e15, ↓reduceIte]

theorem tcpExt_len {nib : Nat} {t t' : Bytes} {opLen off : Nat} (hext : tcpExt nib t = .ok (opLen, t', off)) :
    off + t'.length = 1 + t.length ∧ 1 ≤ off := by
  unfold tcpExt at hext
  split at hext
  · simp at hext; obtain ⟨_, rfl, rfl⟩ := hext; omega
  · split at hext
    · cases t with
      | nil => simp at hext
      | cons e r' => simp at hext; obtain ⟨_, rfl, rfl⟩ := hext; simp; omega
    · split at hext
      · match t, hext with
        | [], hext => simp at hext
        | [_], hext => simp at hext
        | e0 :: e1 :: r', hext => simp at hext; obtain ⟨_, rfl, rfl⟩ := hext; simp; omega
      · split at hext
        · match t, hext with
          | [], hext => simp at hext
          | [_], hext => simp at hext
          | [_, _], hext => simp at hext
          | [_, _, _], hext => simp at hext
          | e0 :: e1 :: e2 :: e3 :: r', hext => simp at hext; obtain ⟨_, rfl, rfl⟩ := hext; simp; omega
        · simp at hext; obtain ⟨_, rfl, rfl⟩ := hext; omega

theorem tcpExt_err {nib : Nat} {t : Bytes} {e : Err} (he : tcpExt nib t = .error e) : e = .shortRead := by
  unfold tcpExt at he
  split at he
  · cases he
  · split at he
    · split at he
      · cases he
      · injection he with he; exact he.symm
    · split at he
      · split at he
        · cases he
        · injection he with he; exact he.symm
      · split at he
        · split at he
          · cases he
          · injection he with he; exact he.symm
        · cases he

/-- Invariants of an accepted header. -/
theorem tcpHdr_inv {data : Bytes} {h : TcpCoder.Header} (hh : tcpHdr data = .ok h) :
    h.length ≤ h.messageLength ∧ h.length ≤ data.length ∧ h.messageLength ≤ 4294967295 ∧ h.token.length ≤ 8 := by
  unfold tcpHdr at hh
  cases data with
  | nil => simp at hh
  | cons b t =>
    simp only at hh
    split at hh
    · cases hh
    · rename_i htk
      split at hh
      · cases hh
      · rename_i opLen t' off hext
        have hoff := tcpExt_len hext
        unfold tcpHdrRest at hh
        split at hh
        · cases hh
        · rename_i hml
          split at hh
          · cases hh
          · rename_i code r
            split at hh
            · cases hh
            · rename_i hr
              injection hh with hh; subst hh
              simp only [List.length_take, List.length_cons] at hoff ⊢
              refine ⟨by omega, by omega, by omega, by omega⟩

/-- List-level reading of `tcp/coder.Decode`. -/
def tcpDec (cap : Nat) (data : Bytes) : Except Err (Msg × Nat) :=
  match tcpHdr data with
  | .error e => .error e
  | .ok h =>
    if data.length % 4294967296 < h.messageLength then .error .shortRead
    else
      match decLoop (TcpCoder.defsFor h.code) cap 0 0 ((data.take h.messageLength).drop h.length) with
      | .error e => .error e
      | .ok (os, pay) => .ok (⟨0, 0, h.code, h.token, os, pay⟩, h.messageLength)

theorem tcp_decode_eq (cap : Nat) (data : Bytes) : TcpCoder.decode cap data = tcpDec cap data := by
  unfold TcpCoder.decode tcpDec
  simp only [bind, Except.bind, tcp_decodeHeader_eq, TcpCoder.u32]
  cases hh : tcpHdr data with
  | error e => rfl
  | ok h =>
    obtain ⟨i1, i2, i3, i4⟩ := tcpHdr_inv hh
    simp only []
    by_cases hs : data.length % 4294967296 < h.messageLength
    · simp [hs]
    · simp only [hs, ↓reduceIte]
      have hle : h.messageLength ≤ data.length := by
        have := Nat.mod_le data.length 4294967296; omega
      rw [sliceTo_ok hle]
      simp only []
      rw [sliceFrom_ok (by simp; omega)]
      simp only [TcpCoder.decodeWithHeader, bind, Except.bind, optionsUnmarshal, unmarshalLoop_eq]
      cases hd : decLoop (TcpCoder.defsFor h.code) cap 0 0 (List.drop h.length (List.take h.messageLength data)) with
      | error e => rfl
      | ok r =>
        obtain ⟨os, pay⟩ := r
        obtain ⟨pre, hpre⟩ := decLoop_suffix _ _ _ _ _ _ _ hd
        simp only [Nat.zero_add]
        rw [sliceFrom_ok (by omega)]
        have hlen : (List.drop h.length (List.take h.messageLength data)).length = h.messageLength - h.length := by
          simp; omega
        have hpl : pre.length + pay.length = h.messageLength - h.length := by
          rw [← hlen, hpre]; simp
        have hdrop : List.drop ((List.drop h.length (List.take h.messageLength data)).length - pay.length)
            (List.drop h.length (List.take h.messageLength data)) = pay := by
          rw [hpre]; simp
        rw [hlen] at hdrop
        simp only [TcpCoder.u32, hlen, hdrop]
        have a1 : (h.messageLength - h.length - pay.length) % 4294967296 = h.messageLength - h.length - pay.length :=
          Nat.mod_eq_of_lt (by omega)
        have a2 : pay.length % 4294967296 = pay.length := Nat.mod_eq_of_lt (by omega)
        have a3 : (h.length + (h.messageLength - h.length - pay.length)) % 4294967296 =
            h.length + (h.messageLength - h.length - pay.length) := Nat.mod_eq_of_lt (by omega)
        have a4 : (h.length + (h.messageLength - h.length - pay.length) + pay.length) % 4294967296 = h.messageLength := by
          rw [Nat.mod_eq_of_lt (by omega)]; omega
        simp only [a1, a2, a3, a4]

/-! ## Capacity error only below the input length (termination of the pooled retry) -/

theorem udp_decode_optCap {cap : Nat} {data : Bytes} (h : UdpCoder.decode cap data = .error .optCap) :
    cap < data.length := by
  rw [udp_decode_eq] at h
  unfold udpDec at h
  split at h
  · rename_i b0 b1 b2 b3 rest
    split at h
    · cases h
    · split at h
      · cases h
      · split at h
        · cases h
        · split at h
          · rename_i e he
            injection h with h; subst h
            have := decLoop_optCap _ _ _ _ _ he (Nat.zero_le _)
            simp only [List.length_drop, List.length_cons] at this ⊢
            omega
          · cases h
  · cases h

theorem tcpHdr_not_optCap {data : Bytes} : tcpHdr data ≠ .error .optCap := by
  intro h
  unfold tcpHdr at h
  cases data with
  | nil => simp at h
  | cons b t =>
    simp only at h
    split at h
    · cases h
    · split at h
      · rename_i e he
        injection h with h; subst h
        have := tcpExt_err he
        cases this
      · unfold tcpHdrRest at h
        split at h
        · cases h
        · split at h
          · cases h
          · split at h <;> cases h

theorem tcp_decode_optCap {cap : Nat} {data : Bytes} (h : TcpCoder.decode cap data = .error .optCap) :
    cap < data.length := by
  rw [tcp_decode_eq] at h
  unfold tcpDec at h
  split at h
  · rename_i e he; injection h with h; subst h; exact absurd he tcpHdr_not_optCap
  · rename_i hd hh
    split at h
    · cases h
    · rename_i hs
      split at h
      · rename_i e he
        injection h with h; subst h
        have := decLoop_optCap _ _ _ _ _ he (Nat.zero_le _)
        simp only [List.length_drop, List.length_take] at this
        omega
      · cases h

/-! ## No panic -/

theorem udpDec_no_panic (cap : Nat) (data : Bytes) : udpDec cap data ≠ .error .panic := by
  intro h
  unfold udpDec at h
  split at h
  · split at h
    · cases h
    · split at h
      · cases h
      · split at h
        · cases h
        · split at h
          · rename_i e he; injection h with h; subst h; exact decLoop_no_panic _ _ _ _ _ he
          · cases h
  · cases h

theorem tcpHdr_no_panic (data : Bytes) : tcpHdr data ≠ .error .panic := by
  intro h
  unfold tcpHdr at h
  cases data with
  | nil => simp at h
  | cons b t =>
    simp only at h
    split at h
    · cases h
    · split at h
      · rename_i e he
        injection h with h; subst h
        have := tcpExt_err he
        cases this
      · unfold tcpHdrRest at h
        split at h
        · cases h
        · split at h
          · cases h
          · split at h <;> cases h

theorem tcpDec_no_panic (cap : Nat) (data : Bytes) : tcpDec cap data ≠ .error .panic := by
  intro h
  unfold tcpDec at h
  split at h
  · rename_i e he; injection h with h; subst h; exact tcpHdr_no_panic _ he
  · split at h
    · cases h
    · split at h
      · rename_i e he; injection h with h; subst h; exact decLoop_no_panic _ _ _ _ _ he
      · cases h

end CoapVerif.Lemmas.CoderDecode
