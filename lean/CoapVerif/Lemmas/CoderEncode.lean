import CoapVerif.Lemmas.OptionEncode
import CoapVerif.Model.TcpCoder
/-!
Encoders of the two coders: `Size` = length of the RFC encoding, `Encode` into a large-enough buffer
writes exactly the RFC encoding at the front and leaves the rest untouched, `Encode` into a smaller
buffer returns `(size, too small)` and leaves the buffer as it was.
-/
set_option linter.unusedVariables false
set_option linter.unusedSimpArgs false
namespace CoapVerif.Lemmas.CoderEncode
open CoapVerif.Generated.Codec
open CoapVerif.Spec.Wire
open CoapVerif.Model CoapVerif.Model.OptionCodec CoapVerif.Lemmas.OptionEncode

theorem withSub_prefix {α : Type} (p r : Bytes) (f : Bytes → Except Err (α × Bytes)) :
    withSub (p ++ r) p.length f =
      match f r with
      | .error e => .error e
      | .ok (a, w) => .ok (a, p ++ w) := by
  simp only [withSub, List.length_append, Nat.le_add_right, ↓reduceIte, List.drop_left', List.take_left']
  cases f r with
  | error e => rfl
  | ok x => rfl

theorem split_at (buf : Bytes) (k : Nat) (h : k ≤ buf.length) : ∃ p r, buf = p ++ r ∧ p.length = k :=
  ⟨buf.take k, buf.drop k, (List.take_append_drop k buf).symm, by simp; omega⟩

/-- Payload part in the spelling of the code (`len(payload) > 0`). -/
theorem encPayload_len (p : Bytes) : (encPayload p).length = if p.length > 0 then p.length + 1 else p.length := by
  unfold encPayload
  cases p with
  | nil => simp
  | cons b t => simp

/-- `Size`: for every message with a token of at most 8 bytes. -/
theorem udp_size (m : Msg) (htk : m.token.length ≤ 8) :
    UdpCoder.size m = .ok (4 + m.token.length + (optsB 0 m.options).length + (encPayload m.payload).length) := by
  unfold UdpCoder.size
  have : ¬ (m.token.length > maxTokenSize) := by simp [maxTokenSize]; omega
  simp only [this, ↓reduceIte, bind, Except.bind, optionsMarshal_nil, Bool.not_true, Bool.false_eq_true]
  rw [encPayload_len]
  congr 1
  split <;> omega

theorem first_byte : ∀ (t : Fin 4) (k : Fin 9),
    (((1 : UInt8) <<< 6) ||| (UInt8.ofNat t.val <<< 4) ||| UInt8.ofNat (0xf &&& k.val)) = UInt8.ofNat (64 + t.val * 16 + k.val) := by
  decide

theorem withSub_prefix' {α : Type} (p r : Bytes) (f : Bytes → Except Err (α × Bytes)) (k : Nat) (hk : p.length = k) :
    withSub (p ++ r) k f =
      match f r with
      | .error e => .error e
      | .ok (a, w) => .ok (a, p ++ w) := by
  subst hk; exact withSub_prefix p r f

theorem goCopy_prefix (p x v : Bytes) (h : p.length = v.length) : goCopy (p ++ x) v = v ++ x := by
  rw [goCopy_fits _ _ (by simp; omega), ← h, List.drop_left' rfl]

theorem optionsMarshal_prefix (os : List Opt) (p y : Bytes) (h : p.length = (optsB 0 os).length) :
    optionsMarshal (some (p ++ y)) os = .ok ((optsB 0 os).length, false, optsB 0 os ++ y) := by
  obtain ⟨w, hw, _, hf⟩ := optionsMarshal_spec os (p ++ y)
  have hfit : (optsB 0 os).length ≤ (p ++ y).length := by simp; omega
  rw [hw, hf hfit, ← h, List.drop_left' rfl]
  have : ¬ ((p ++ y).length < p.length) := by simp
  simp [this]

/-- The bytes `udp/coder.Encode` writes (in the spelling of the model). -/
def udpB (m : Msg) : Bytes :=
  [((1 : UInt8) <<< 6) ||| (byteOfInt m.typ <<< 4) ||| UInt8.ofNat (0xf &&& m.token.length), UInt8.ofNat m.code,
   UInt8.ofNat ((m.mid % 65536).toNat / 256), UInt8.ofNat ((m.mid % 65536).toNat % 256)] ++
    (m.token ++ (optsB 0 m.options ++ encPayload m.payload))

theorem udpB_length (m : Msg) :
    (udpB m).length = 4 + m.token.length + (optsB 0 m.options).length + (encPayload m.payload).length := by
  simp [udpB]; omega

theorem udp_encode_small (m : Msg) (hmid : UdpCoder.validateMID m.mid = true) (htyp : UdpCoder.validateType m.typ = true)
    (hcode : m.code ≤ 255) (htk : m.token.length ≤ 8) (buf : Bytes) (h : buf.length < (udpB m).length) :
    UdpCoder.encode m buf = .ok ⟨(udpB m).length, true, buf⟩ := by
  unfold UdpCoder.encode
  rw [udp_size m htk, ← udpB_length]
  have hc : ¬ (m.code > 255) := by omega
  simp [hmid, htyp, h, hc]

theorem udp_encode_big (m : Msg) (hmid : UdpCoder.validateMID m.mid = true) (htyp : UdpCoder.validateType m.typ = true)
    (hcode : m.code ≤ 255) (htk : m.token.length ≤ 8) (buf : Bytes) (h : (udpB m).length ≤ buf.length) :
    UdpCoder.encode m buf = .ok ⟨(udpB m).length, false, udpB m ++ buf.drop (udpB m).length⟩ := by
  unfold UdpCoder.encode
  rw [udp_size m htk, ← udpB_length]
  have hnl : ¬ (buf.length < (udpB m).length) := by omega
  have hc : ¬ (m.code > 255) := by omega
  simp only [hmid, htyp, Bool.not_true, Bool.false_eq_true, ↓reduceIte, hnl, hc]
  rw [udpB_length] at h
  -- split the buffer along the fields
  obtain ⟨p4, r4, rfl, hp4⟩ := split_at buf 4 (by omega)
  simp only [List.length_append, hp4] at h
  obtain ⟨pt, rt, rfl, hpt⟩ := split_at r4 m.token.length (by omega)
  simp only [List.length_append, hpt] at h
  obtain ⟨po, ro, rfl, hpo⟩ := split_at rt (optsB 0 m.options).length (by omega)
  simp only [List.length_append, hpo] at h
  obtain ⟨pp, rest, rfl, hpp⟩ := split_at ro (encPayload m.payload).length (by omega)
  match p4, hp4 with
  | [a0, a1, a2, a3], _ =>
    have htk' : ¬ (m.token.length > maxTokenSize) := by simp [maxTokenSize]; omega
    have s0 : ∀ (x : UInt8) (t : Bytes), setAt (a0 :: t) 0 x = .ok (x :: t) := by intro x t; simp [setAt]
    have s1 : ∀ (x y : UInt8) (t : Bytes), setAt (y :: a1 :: t) 1 x = .ok (y :: x :: t) := by intro x y t; simp [setAt]
    have s2 : ∀ (x y z : UInt8) (t : Bytes), setAt (y :: z :: a2 :: t) 2 x = .ok (y :: z :: x :: t) := by
      intro x y z t; simp [setAt]
    have s3 : ∀ (x y z u : UInt8) (t : Bytes), setAt (y :: z :: u :: a3 :: t) 3 x = .ok (y :: z :: u :: x :: t) := by
      intro x y z u t; simp [setAt]
    simp only [List.cons_append, List.nil_append, s0, s1, s2, s3, bind, Except.bind]
    have e4 : ∀ (x0 x1 x2 x3 : UInt8) (r : Bytes), x0 :: x1 :: x2 :: x3 :: r = [x0, x1, x2, x3] ++ r := by
      intros; rfl
    rw [e4, withSub_prefix' _ _ _ 4 rfl]
    simp only [htk', ↓reduceIte]
    rw [goCopy_prefix pt _ m.token hpt, withSub_prefix' m.token _ _ m.token.length rfl]
    rw [optionsMarshal_prefix m.options po _ hpo]
    simp only [Bool.false_eq_true, ↓reduceIte]
    rw [withSub_prefix' (optsB 0 m.options) _ _ (optsB 0 m.options).length rfl]
    have hdrop : List.drop (udpB m).length ([a0, a1, a2, a3] ++ (pt ++ (po ++ (pp ++ rest)))) = rest := by
      have : (udpB m).length = ([a0, a1, a2, a3] ++ (pt ++ (po ++ pp))).length := by
        rw [udpB_length]; simp [hpt, hpo, hpp]; omega
      rw [this]
      have : [a0, a1, a2, a3] ++ (pt ++ (po ++ (pp ++ rest))) = ([a0, a1, a2, a3] ++ (pt ++ (po ++ pp))) ++ rest := by simp
      rw [this, List.drop_left' rfl]
    rw [e4 a0 a1 a2 a3, hdrop]
    by_cases hpay : m.payload.length > 0
    · simp only [hpay, ↓reduceIte]
      have hepl : encPayload m.payload = 0xff :: m.payload := by
        unfold encPayload; cases hp : m.payload with
        | nil => simp [hp] at hpay
        | cons _ _ => simp
      rw [hepl] at hpp
      match pp, hpp with
      | c :: pp', hpp' =>
        simp only [List.length_cons, Nat.add_right_cancel_iff] at hpp'
        simp only [List.cons_append, setAt, List.length_cons, Nat.zero_lt_succ, ↓reduceIte, List.set_cons_zero]
        have e1 : ∀ (x : UInt8) (r : Bytes), x :: r = [x] ++ r := by intros; rfl
        rw [e1 255, withSub_prefix' [255] _ _ 1 rfl, goCopy_prefix pp' rest m.payload hpp']
        simp only [udpB, hepl]
        simp
    · simp only [hpay, ↓reduceIte]
      have hp0 : m.payload = [] := by
        cases hp : m.payload with
        | nil => rfl
        | cons _ _ => simp [hp] at hpay
      have hepl : encPayload m.payload = [] := by simp [encPayload, hp0]
      rw [hepl] at hpp
      have : pp = [] := by cases pp with | nil => rfl | cons _ _ => simp at hpp
      subst this
      simp only [udpB, hepl, hp0, goCopy, List.take_nil, List.drop_zero, List.length_nil, List.nil_append]
      simp [encPayload]

theorem udpB_eq_spec (m : Msg) (hwf : WF .udp m = true) : udpB m = encUdp m := by
  obtain ⟨typ, mid, code, token, options, payload⟩ := m
  simp only [WF, registryFor, Bool.and_eq_true, decide_eq_true_eq] at hwf
  obtain ⟨⟨⟨htk, hcode⟩, hopts⟩, ⟨⟨⟨ht0, ht3⟩, hm0⟩, hm1⟩⟩ := hwf
  obtain ⟨t, rfl⟩ := Int.eq_ofNat_of_zero_le ht0
  obtain ⟨mi, rfl⟩ := Int.eq_ofNat_of_zero_le hm0
  unfold udpB encUdp
  simp only [Int.toNat_natCast]
  rw [optsB_eq_encOpts options 0 (optsWF_encodable _ _ _ hopts), byteOfInt_nat]
  have hfb := first_byte ⟨t, by omega⟩ ⟨token.length, by omega⟩
  simp only at hfb
  have hmid : ((mi : Int) % 65536).toNat = mi := by omega
  rw [hfb, hmid]

theorem udp_valid_of_WF (m : Msg) (hwf : WF .udp m = true) :
    UdpCoder.validateMID m.mid = true ∧ UdpCoder.validateType m.typ = true ∧ m.token.length ≤ 8 ∧ m.code ≤ 255 := by
  simp only [WF, registryFor, Bool.and_eq_true, decide_eq_true_eq] at hwf
  obtain ⟨⟨⟨htk, hcode⟩, hopts⟩, ⟨⟨⟨ht0, ht3⟩, hm0⟩, hm1⟩⟩ := hwf
  refine ⟨?_, ?_, htk, by omega⟩
  · simp only [UdpCoder.validateMID, maxMID, Bool.and_eq_true, decide_eq_true_eq]
    exact ⟨hm0, decide_eq_true (by omega)⟩
  · simp only [UdpCoder.validateType, Bool.and_eq_true, decide_eq_true_eq]
    exact ⟨ht0, by omega⟩

/-! ## Stream coder -/

/-- The bytes `tcp/coder.Encode` writes (in the spelling of the model). -/
def tcpHdrB (m : Msg) : Bytes :=
  let l := (encPayload m.payload).length + (optsB 0 m.options).length
  (UInt8.ofNat m.token.length ||| (UInt8.ofNat (TcpCoder.getHeader l).1 <<< 4)) ::
    ((TcpCoder.getHeader l).2 ++ (UInt8.ofNat m.code :: m.token))

def tcpB (m : Msg) : Bytes := tcpHdrB m ++ (optsB 0 m.options ++ encPayload m.payload)

theorem tcp_encode_spec (m : Msg) (htk : m.token.length ≤ 8) (hcode : m.code ≤ 255) (buf : Bytes) :
    TcpCoder.encode m buf =
      if buf.length < (tcpB m).length then .ok ⟨(tcpB m).length, true, buf⟩
      else .ok ⟨(tcpB m).length, false, tcpB m ++ buf.drop (tcpB m).length⟩ := by
  unfold TcpCoder.encode
  have htk' : ¬ (m.token.length > maxTokenSize) := by simp [maxTokenSize]; omega
  have hc : ¬ (m.code > 255) := by omega
  simp only [htk', hc, ↓reduceIte, bind, Except.bind, optionsMarshal_nil, Bool.not_true, Bool.false_eq_true]
  have hpl : (if m.payload.length > 0 then m.payload.length + 1 else m.payload.length) = (encPayload m.payload).length := by
    rw [encPayload_len]
  simp only [hpl]
  generalize hL : (encPayload m.payload).length + (optsB 0 m.options).length = L
  have hhdr : tcpHdrB m = (UInt8.ofNat m.token.length ||| (UInt8.ofNat (TcpCoder.getHeader L).1 <<< 4)) ::
      ((TcpCoder.getHeader L).2 ++ (UInt8.ofNat m.code :: m.token)) := by
    unfold tcpHdrB; simp only [hL]
  rcases hg : TcpCoder.getHeader L with ⟨nibL, extL⟩
  rw [hg] at hhdr
  simp only at hhdr ⊢
  have hhl : (tcpHdrB m).length = 1 + extL.length + m.token.length + 1 := by
    rw [hhdr]; simp; omega
  have htl : (tcpB m).length = L + (1 + extL.length + m.token.length + 1) := by
    unfold tcpB; rw [List.length_append, hhl, List.length_append]; omega
  rw [← htl, ← hhdr]
  by_cases hs : buf.length < (tcpB m).length
  · simp [hs]
  · simp only [hs, ↓reduceIte]
    rw [← hhl]
    have hst : sliceTo (tcpHdrB m) (tcpHdrB m).length = .ok (tcpHdrB m) := by simp [sliceTo]
    simp only [hst]
    rw [htl] at hs
    obtain ⟨ph, rh, rfl, hph⟩ := split_at buf (tcpHdrB m).length (by omega)
    simp only [List.length_append, hph] at hs
    obtain ⟨po, ro, rfl, hpo⟩ := split_at rh (optsB 0 m.options).length (by omega)
    simp only [List.length_append, hpo] at hs
    obtain ⟨pp, rest, rfl, hpp⟩ := split_at ro (encPayload m.payload).length (by omega)
    rw [goCopy_prefix ph _ (tcpHdrB m) hph, withSub_prefix' (tcpHdrB m) _ _ (tcpHdrB m).length rfl]
    simp only [optionsMarshal_prefix m.options po _ hpo, bind, Except.bind, Bool.false_eq_true, ↓reduceIte]
    have hdrop : List.drop (tcpB m).length (ph ++ (po ++ (pp ++ rest))) = rest := by
      have : (tcpB m).length = (ph ++ (po ++ pp)).length := by
        unfold tcpB; simp [hph, hpo, hpp]
      rw [this]
      have : ph ++ (po ++ (pp ++ rest)) = (ph ++ (po ++ pp)) ++ rest := by simp
      rw [this, List.drop_left' rfl]
    rw [hdrop]
    by_cases hpay : m.payload.length > 0
    · simp only [hpay, ↓reduceIte]
      have hepl : encPayload m.payload = 0xff :: m.payload := by
        unfold encPayload; cases hp : m.payload with
        | nil => simp [hp] at hpay
        | cons _ _ => simp
      rw [hepl] at hpp
      match pp, hpp with
      | c :: pp', hpp' =>
        simp only [List.length_cons, Nat.add_right_cancel_iff] at hpp'
        have a1 : tcpHdrB m ++ (optsB 0 m.options ++ (c :: pp' ++ rest)) =
            (tcpHdrB m ++ optsB 0 m.options) ++ ([c] ++ (pp' ++ rest)) := by simp
        rw [a1, withSub_prefix' (tcpHdrB m ++ optsB 0 m.options) _ _ _ (by simp)]
        simp only [goCopy_prefix [c] (pp' ++ rest) [255] rfl]
        have a2 : tcpHdrB m ++ optsB 0 m.options ++ ([255] ++ (pp' ++ rest)) =
            (tcpHdrB m ++ optsB 0 m.options ++ [255]) ++ (pp' ++ rest) := by simp
        rw [a2, withSub_prefix' (tcpHdrB m ++ optsB 0 m.options ++ [255]) _ _ _ (by simp; omega)]
        simp only [goCopy_prefix pp' rest m.payload hpp']
        simp [tcpB, hepl]
    · simp only [hpay, ↓reduceIte]
      have hp0 : m.payload = [] := by
        cases hp : m.payload with
        | nil => rfl
        | cons _ _ => simp [hp] at hpay
      have hepl : encPayload m.payload = [] := by simp [encPayload, hp0]
      rw [hepl] at hpp
      have : pp = [] := by cases pp with | nil => rfl | cons _ _ => simp at hpp
      subst this
      simp [tcpB, hepl]

/-- `getHeader` = RFC 8323 length nibble and extended length, in all four classes. -/
theorem getHeader_eq (l : Nat) (h : l < messageMaxLen) : TcpCoder.getHeader l = (lenNib l, extLen l) := by
  unfold TcpCoder.getHeader lenNib extLen
  simp only [msgLen13Base, msgLen14Base, msgLen15Base, messageMaxLen] at h ⊢
  by_cases h1 : l ≤ 12
  · have : l < 13 := by omega
    have hm : l % 256 = l := Nat.mod_eq_of_lt (by omega)
    simp [h1, this, hm]
  · by_cases h2 : l ≤ 268
    · have a : ¬ l < 13 := by omega
      have b : l < 269 := by omega
      simp [h1, h2, a, b]
    · by_cases h3 : l ≤ 65804
      · have a : ¬ l < 13 := by omega
        have b : ¬ l < 269 := by omega
        have c : l < 65805 := by omega
        have e : (l - 269) % 65536 = l - 269 := Nat.mod_eq_of_lt (by omega)
        simp [h1, h2, h3, a, b, c, e]
      · have a : ¬ l < 13 := by omega
        have b : ¬ l < 269 := by omega
        have c : ¬ l < 65805 := by omega
        have e : TcpCoder.u32 (l - 65805) = l - 65805 := Nat.mod_eq_of_lt (by omega)
        simp [h1, h2, h3, a, b, c, h, e, be32]

theorem tcp_first_byte : ∀ (n : Fin 16) (k : Fin 9),
    (UInt8.ofNat k.val ||| (UInt8.ofNat n.val <<< 4)) = UInt8.ofNat (n.val * 16 + k.val) := by
  decide

theorem tcpB_eq_spec (m : Msg) (hwf : WF .tcp m = true) : tcpB m = encTcp m := by
  simp only [WF, Bool.and_eq_true, decide_eq_true_eq] at hwf
  obtain ⟨⟨⟨htk, hcode⟩, hopts⟩, hb⟩ := hwf
  have hopt := optsB_eq_encOpts m.options 0 (optsWF_encodable _ _ _ hopts)
  unfold tcpB tcpHdrB encTcp
  simp only [hopt]
  have hL : (encPayload m.payload).length + (encOpts 0 m.options).length = (encBody m).length := by
    unfold encBody; simp; omega
  rw [hL, getHeader_eq _ (by unfold tcpBodyLimit at hb; simp [messageMaxLen]; omega)]
  simp only []
  have hn : lenNib (encBody m).length < 16 := by
    unfold lenNib; split <;> (try split) <;> (try split) <;> omega
  have := tcp_first_byte ⟨lenNib (encBody m).length, hn⟩ ⟨m.token.length, by omega⟩
  simp only at this
  rw [this]
  simp [encBody]

end CoapVerif.Lemmas.CoderEncode
