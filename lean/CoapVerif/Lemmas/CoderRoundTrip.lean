import CoapVerif.Lemmas.OptionRoundTrip
import CoapVerif.Lemmas.CoderDecode
/-!
Decoders invert the RFC encoders (`encUdp`, `encTcp`) on well-formed messages — list level
(`udpDec`, `tcpHdr`, `tcpDec`); the statements about the checked models follow by `udp_decode_eq` /
`tcp_decode_eq`.
-/
set_option linter.unusedVariables false
namespace CoapVerif.Lemmas.CoderRoundTrip
open CoapVerif.Generated.Codec CoapVerif.Generated.OptionDefs
open CoapVerif.Spec.Wire
open CoapVerif.Model CoapVerif.Model.OptionCodec
open CoapVerif.Lemmas.OptionCodec CoapVerif.Lemmas.OptionRoundTrip CoapVerif.Lemmas.CoderDecode

theorem udpDec_encUdp (m : Msg) (hwf : WF .udp m = true) (cap : Nat) (hc : m.options.length ≤ cap) :
    udpDec cap (encUdp m) = .ok (m, (encUdp m).length) := by
  obtain ⟨typ, mid, code, token, options, payload⟩ := m
  simp only [WF, registryFor, Bool.and_eq_true, decide_eq_true_eq] at hwf
  obtain ⟨⟨⟨htk, hcode⟩, hopts⟩, ⟨⟨⟨ht0, ht3⟩, hm0⟩, hm1⟩⟩ := hwf
  obtain ⟨t, rfl⟩ := Int.eq_ofNat_of_zero_le ht0
  obtain ⟨mi, rfl⟩ := Int.eq_ofNat_of_zero_le hm0
  have ht3' : t ≤ 3 := by omega
  have hm1' : mi < 65536 := by omega
  unfold encUdp udpDec
  simp only [Int.toNat_natCast, List.cons_append, List.nil_append]
  have hb0 : (UInt8.ofNat (64 + t * 16 + token.length)).toNat = 64 + t * 16 + token.length := by
    simp; omega
  have hv : ¬ ((UInt8.ofNat (64 + t * 16 + token.length)).toNat / 64 ≠ 1) := by rw [hb0]; omega
  have hk : (UInt8.ofNat (64 + t * 16 + token.length)).toNat % 16 = token.length := by rw [hb0]; omega
  have hty : (UInt8.ofNat (64 + t * 16 + token.length)).toNat / 16 % 4 = t := by rw [hb0]; omega
  have h8 : ¬ (token.length > 8) := by omega
  have hlen : ¬ ((token ++ (encOpts 0 options ++ encPayload payload)).length < token.length) := by simp
  simp only [hv, hk, hty, h8, hlen, ↓reduceIte, List.drop_left', List.take_left']
  rw [← coap_regOf] at hopts
  rw [decLoop_encOpts coapOptionDefs coap_noUnknown options payload cap 0 0 hopts (by simp at hc; omega)]
  have hc1 : (UInt8.ofNat code).toNat = code := by simp; omega
  have hm : (UInt8.ofNat (mi / 256)).toNat * 256 + (UInt8.ofNat (mi % 256)).toNat = mi := by
    have a : (mi / 256) % 256 = mi / 256 := Nat.mod_eq_of_lt (by omega)
    simp [a]; omega
  simp only [hc1, hm]

/-! ## Stream framing -/

theorem lenNib_lt (l : Nat) : lenNib l ≤ 15 := by unfold lenNib; split <;> (try split) <;> (try split) <;> omega

/-- All four length classes: the extended length decodes to the length, consuming exactly its bytes. -/
theorem tcpExt_extLen (l : Nat) (hl : l < 65805 + 4294967296) (r : Bytes) :
    tcpExt (lenNib l) (extLen l ++ r) = .ok (l, r, 1 + (extLen l).length) := by
  unfold lenNib extLen tcpExt
  split
  · rename_i h1
    have : l < 13 := by omega
    simp [this]
  · split
    · rename_i h1 h2
      have a : (l - 13) % 256 = l - 13 := Nat.mod_eq_of_lt (by omega)
      simp [a]; omega
    · split
      · rename_i h1 h2 h3
        have a : (l - 269) / 256 % 256 = (l - 269) / 256 := Nat.mod_eq_of_lt (by omega)
        simp [a]; omega
      · rename_i h1 h2 h3
        have a : (l - 65805) / 16777216 % 256 = (l - 65805) / 16777216 := Nat.mod_eq_of_lt (by omega)
        simp [be32, a]; omega

theorem defsFor_noUnknown (code : Nat) : noUnknown (TcpCoder.defsFor code) = true := by
  unfold TcpCoder.defsFor
  split; exact csm_noUnknown
  split; exact pingpong_noUnknown
  split; exact release_noUnknown
  split; exact abort_noUnknown
  exact coap_noUnknown

theorem defsFor_regOf (code : Nat) : regOf (TcpCoder.defsFor code) = registryFor .tcp code := by
  unfold TcpCoder.defsFor registryFor
  simp only [codeCSM, codePing, codePong, codeRelease, codeAbort]
  by_cases h1 : code = 225
  · simp [h1, csm_regOf]
  · by_cases h2 : code = 226 ∨ code = 227
    · have : ¬ (code = 7 * 32 + 1) := by omega
      have h2' : code = 7 * 32 + 2 ∨ code = 7 * 32 + 3 := by omega
      simp only [h1, h2, this, h2', ↓reduceIte, pingpong_regOf]
    · by_cases h3 : code = 228
      · subst h3; simp [release_regOf]
      · by_cases h4 : code = 229
        · subst h4; simp [abort_regOf]
        · have a1 : ¬ (code = 7 * 32 + 1) := by omega
          have a2 : ¬ (code = 7 * 32 + 2 ∨ code = 7 * 32 + 3) := by omega
          have a3 : ¬ (code = 7 * 32 + 4) := by omega
          have a4 : ¬ (code = 7 * 32 + 5) := by omega
          simp only [h1, h2, h3, h4, a1, a2, a3, a4, ↓reduceIte, coap_regOf]

/-- Header pre-parse of an encoded frame: consumes exactly the header bytes and declares exactly
the frame length. -/
theorem tcpHdr_encTcp (m : Msg) (htk : m.token.length ≤ 8) (hcode : m.code < 256)
    (hb : (encBody m).length < tcpBodyLimit) (rest : Bytes) :
    tcpHdr (encTcp m ++ rest) =
      .ok ⟨m.token, 1 + (extLen (encBody m).length).length + 1 + m.token.length, (encTcp m).length, m.code⟩ := by
  unfold encTcp tcpHdr tcpHdrRest
  simp only [List.cons_append, List.append_assoc]
  have hn := lenNib_lt (encBody m).length
  have hb0 : (UInt8.ofNat (lenNib (encBody m).length * 16 + m.token.length)).toNat =
      lenNib (encBody m).length * 16 + m.token.length := by simp; omega
  have hk : (UInt8.ofNat (lenNib (encBody m).length * 16 + m.token.length)).toNat % 16 = m.token.length := by
    rw [hb0]; omega
  have hnib : (UInt8.ofNat (lenNib (encBody m).length * 16 + m.token.length)).toNat / 16 = lenNib (encBody m).length := by
    rw [hb0]; omega
  have h8 : ¬ (m.token.length > 8) := by omega
  simp only [hk, hnib, h8, ↓reduceIte]
  unfold tcpBodyLimit at hb
  rw [tcpExt_extLen _ (by omega)]
  have hel : (extLen (encBody m).length).length ≤ 4 := by
    unfold extLen; split <;> (try split) <;> (try split) <;> simp [be32]
  have hml : ¬ (1 + (extLen (encBody m).length).length + 1 + m.token.length + (encBody m).length > 4294967295) := by omega
  have hlen : ¬ ((m.token ++ (encBody m ++ rest)).length < m.token.length) := by simp
  have hc1 : (UInt8.ofNat m.code).toNat = m.code := by simp; omega
  simp only [hml, hlen, ↓reduceIte, List.take_left', hc1]
  congr 2
  simp only [List.length_cons, List.length_append]
  omega

theorem tcpDec_encTcp (m : Msg) (hwf : WF .tcp m = true) (cap : Nat) (hc : m.options.length ≤ cap) :
    tcpDec cap (encTcp m) = .ok (canon .tcp m, (encTcp m).length) := by
  simp only [WF, Bool.and_eq_true, decide_eq_true_eq] at hwf
  obtain ⟨⟨⟨htk, hcode⟩, hopts⟩, hb⟩ := hwf
  unfold tcpDec
  have hh := tcpHdr_encTcp m htk hcode hb []
  simp only [List.append_nil] at hh
  rw [hh]
  simp only []
  have htot : (encTcp m).length = 1 + (extLen (encBody m).length).length + 1 + m.token.length + (encBody m).length := by
    unfold encTcp; simp only [List.length_cons, List.length_append]; omega
  have hel : (extLen (encBody m).length).length ≤ 4 := by
    unfold extLen; split <;> (try split) <;> (try split) <;> simp [be32]
  unfold tcpBodyLimit at hb
  have hmod : (encTcp m).length % 4294967296 = (encTcp m).length := Nat.mod_eq_of_lt (by omega)
  simp only [hmod, Nat.lt_irrefl, ↓reduceIte, List.take_length]
  have hdrop : List.drop (1 + (extLen (encBody m).length).length + 1 + m.token.length) (encTcp m) = encBody m := by
    unfold encTcp
    have : 1 + (extLen (encBody m).length).length + 1 + m.token.length =
        (UInt8.ofNat (lenNib (encBody m).length * 16 + m.token.length) :: (extLen (encBody m).length ++
          (UInt8.ofNat m.code :: m.token))).length := by simp; omega
    rw [this]
    have e : UInt8.ofNat (lenNib (encBody m).length * 16 + m.token.length) ::
        (extLen (encBody m).length ++ (UInt8.ofNat m.code :: (m.token ++ encBody m))) =
        (UInt8.ofNat (lenNib (encBody m).length * 16 + m.token.length) :: (extLen (encBody m).length ++
          (UInt8.ofNat m.code :: m.token))) ++ encBody m := by simp
    rw [e, List.drop_left' rfl]
  rw [hdrop]
  rw [← defsFor_regOf] at hopts
  unfold encBody
  rw [decLoop_encOpts (TcpCoder.defsFor m.code) (defsFor_noUnknown m.code) m.options m.payload cap 0 0 hopts (by omega)]
  rfl

end CoapVerif.Lemmas.CoderRoundTrip
