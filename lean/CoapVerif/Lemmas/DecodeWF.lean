import CoapVerif.Lemmas.OptionRoundTrip
import CoapVerif.Lemmas.CoderRoundTrip
import CoapVerif.Lemmas.RefParser
/-!
Whatever a decoder accepts is well-formed (`WF`): numbers ascending, non-zero, 16-bit; value lengths
expressible and registry-legal; token at most 8 bytes; code a byte; (datagram) two-bit type, 16-bit ID.
-/
set_option linter.unusedVariables false
set_option linter.unusedSimpArgs false
namespace CoapVerif.Lemmas.DecodeWF
open CoapVerif.Generated.Codec CoapVerif.Generated.OptionDefs
open CoapVerif.Spec.Wire
open CoapVerif.Model CoapVerif.Model.OptionCodec
open CoapVerif.Lemmas CoapVerif.Lemmas.OptionCodec CoapVerif.Lemmas.OptionRoundTrip CoapVerif.Lemmas.CoderDecode

theorem optsWF_mono (reg : List (Nat × Nat × Nat)) (os : List Opt) (p p' : Nat) (hp : p' ≤ p)
    (h : optsWF reg p os = true) : optsWF reg p' os = true := by
  cases os with
  | nil => rfl
  | cons o os =>
    simp only [optsWF, Bool.and_eq_true, decide_eq_true_eq] at h ⊢
    obtain ⟨⟨⟨⟨⟨h1, h0⟩, h2⟩, h3⟩, hleg⟩, hrest⟩ := h
    exact ⟨⟨⟨⟨⟨by omega, h0⟩, h2⟩, h3⟩, hleg⟩, hrest⟩

theorem decLoop_WF (defs : Defs) (hu : noUnknown defs = true) (cap n prev : Nat) (bs : Bytes) (os : List Opt) (rest : Bytes)
    (h : decLoop defs cap n prev bs = .ok (os, rest)) : optsWF (regOf defs) prev os = true := by
  induction hl : bs.length using Nat.strongRecOn generalizing n prev bs os rest with
  | _ len ih =>
    subst hl
    cases bs with
    | nil => rw [decLoop.eq_def] at h; simp at h; obtain ⟨rfl, _⟩ := h; rfl
    | cons b t =>
      rw [RefParser.decLoop_cons] at h
      by_cases hff : b = 0xff
      · simp [hff] at h; obtain ⟨rfl, _⟩ := h; rfl
      · simp only [hff, ↓reduceIte] at h
        by_cases hm : b.toNat / 16 = 15 ∨ b.toNat % 16 = 15
        · simp [hm] at h
        · simp only [hm, ↓reduceIte] at h
          cases hd : decExt (b.toNat / 16) t with
          | error e => simp [hd] at h
          | ok r1 =>
            obtain ⟨delta, t1⟩ := r1
            simp only [hd] at h
            cases hl2 : decExt (b.toNat % 16) t1 with
            | error e => simp [hl2] at h
            | ok r2 =>
              obtain ⟨len', t2⟩ := r2
              simp only [hl2] at h
              by_cases hlen : t2.length < len'
              · simp [hlen] at h
              · simp only [hlen, ↓reduceIte] at h
                by_cases hov : prev + delta > 65535
                · simp [hov] at h
                · simp only [hov, ↓reduceIte] at h
                  by_cases hc : cap = n
                  · simp [hc] at h
                  · simp only [hc, ↓reduceIte] at h
                    have l1 := decExt_len hd
                    have l2 := decExt_len hl2
                    have hlt : (t2.drop len').length < (b :: t).length := by simp; omega
                    have hl15 : b.toNat % 16 < 15 := by omega
                    have hv := decExt_val_le hl2 hl15
                    have hvl : (t2.take len').length < 4294967296 := by simp; omega
                    have hk := keepOpt_eq defs hu (prev + delta) (t2.take len') hvl
                    cases hrec : decLoop defs cap
                        (if (keepOpt defs (prev + delta) (List.take len' t2)).isSome = true then n + 1 else n)
                        (prev + delta) (t2.drop len') with
                    | error e => simp [hrec] at h
                    | ok r3 =>
                      obtain ⟨os', rest'⟩ := r3
                      have hwf' := ih _ hlt _ _ _ _ _ hrec rfl
                      simp only [hrec, Except.ok.injEq, Prod.mk.injEq] at h
                      obtain ⟨hos, _⟩ := h
                      by_cases hkeep : prev + delta ≠ 0 ∧ lengthLegal (regOf defs) (prev + delta) (t2.take len').length = true
                      · rw [hk, if_pos hkeep] at hos
                        simp only at hos
                        subst hos
                        simp only [optsWF, Bool.and_eq_true, decide_eq_true_eq]
                        refine ⟨⟨⟨⟨⟨by omega, hkeep.1⟩, by omega⟩, ?_⟩, hkeep.2⟩, hwf'⟩
                        simp; omega
                      · rw [hk, if_neg hkeep] at hos
                        simp only at hos
                        subst hos
                        exact optsWF_mono _ _ _ _ (by omega) hwf'

theorem udpDec_WF (cap : Nat) (bs : Bytes) (m : Msg) (k : Nat) (h : udpDec cap bs = .ok (m, k)) : WF .udp m = true := by
  unfold udpDec at h
  split at h
  · rename_i b0 b1 b2 b3 rest
    split at h
    · cases h
    · split at h
      · cases h
      · rename_i ht
        split at h
        · cases h
        · rename_i hr
          split at h
          · cases h
          · rename_i os pay hd
            simp only [Except.ok.injEq, Prod.mk.injEq] at h
            obtain ⟨rfl, _⟩ := h
            have hwf := decLoop_WF coapOptionDefs coap_noUnknown _ _ _ _ _ _ hd
            rw [coap_regOf] at hwf
            simp only [WF, registryFor, Bool.and_eq_true, decide_eq_true_eq, hwf, and_true, List.length_take]
            have := b1.toNat_lt
            have := b2.toNat_lt
            have := b3.toNat_lt
            refine ⟨⟨by omega, by omega⟩, ⟨⟨⟨by omega, by omega⟩, by omega⟩, by omega⟩⟩
  · cases h

theorem tcpDec_WF (cap : Nat) (bs : Bytes) (m : Msg) (k : Nat) (h : tcpDec cap bs = .ok (m, k))
    (hb : (encBody m).length < tcpBodyLimit) : WF .tcp m = true := by
  unfold tcpDec at h
  split at h
  · cases h
  · rename_i hd hh
    split at h
    · cases h
    · split at h
      · cases h
      · rename_i os pay hdl
        simp only [Except.ok.injEq, Prod.mk.injEq] at h
        obtain ⟨rfl, _⟩ := h
        have hwf := decLoop_WF (TcpCoder.defsFor hd.code) (CoderRoundTrip.defsFor_noUnknown hd.code) _ _ _ _ _ _ hdl
        rw [CoderRoundTrip.defsFor_regOf] at hwf
        obtain ⟨_, _, _, i4⟩ := tcpHdr_inv hh
        have hcode : hd.code < 256 := by
          unfold tcpHdr at hh
          cases bs with
          | nil => simp at hh
          | cons b t =>
            simp only at hh
            split at hh
            · cases hh
            · split at hh
              · cases hh
              · unfold tcpHdrRest at hh
                split at hh
                · cases hh
                · split at hh
                  · cases hh
                  · rename_i x1 x2 x3 code r
                    split at hh
                    · cases hh
                    · injection hh with hh; subst hh; exact UInt8.toNat_lt _
        simp only [WF, Bool.and_eq_true, decide_eq_true_eq, hwf, and_true]
        exact ⟨⟨i4, hcode⟩, hb⟩

/-- A successful loop never needed more slots than the capacity. -/
theorem decLoop_ok_len (defs : Defs) (cap n prev : Nat) (bs : Bytes) (os : List Opt) (rest : Bytes)
    (h : decLoop defs cap n prev bs = .ok (os, rest)) (hn : n ≤ cap) : n + os.length ≤ cap := by
  induction hl : bs.length using Nat.strongRecOn generalizing n prev bs os rest with
  | _ len ih =>
    subst hl
    cases bs with
    | nil => rw [decLoop.eq_def] at h; simp at h; obtain ⟨rfl, _⟩ := h; simpa using hn
    | cons b t =>
      rw [RefParser.decLoop_cons] at h
      by_cases hff : b = 0xff
      · simp [hff] at h; obtain ⟨rfl, _⟩ := h; simpa using hn
      · simp only [hff, ↓reduceIte] at h
        by_cases hm : b.toNat / 16 = 15 ∨ b.toNat % 16 = 15
        · simp [hm] at h
        · simp only [hm, ↓reduceIte] at h
          cases hd : decExt (b.toNat / 16) t with
          | error e => simp [hd] at h
          | ok r1 =>
            obtain ⟨delta, t1⟩ := r1
            simp only [hd] at h
            cases hl2 : decExt (b.toNat % 16) t1 with
            | error e => simp [hl2] at h
            | ok r2 =>
              obtain ⟨len', t2⟩ := r2
              simp only [hl2] at h
              by_cases hlen : t2.length < len'
              · simp [hlen] at h
              · simp only [hlen, ↓reduceIte] at h
                by_cases hov : prev + delta > 65535
                · simp [hov] at h
                · simp only [hov, ↓reduceIte] at h
                  by_cases hc : cap = n
                  · simp [hc] at h
                  · simp only [hc, ↓reduceIte] at h
                    have l1 := decExt_len hd
                    have l2 := decExt_len hl2
                    have hlt : (t2.drop len').length < (b :: t).length := by simp; omega
                    cases hrec : decLoop defs cap
                        (if (keepOpt defs (prev + delta) (List.take len' t2)).isSome = true then n + 1 else n)
                        (prev + delta) (t2.drop len') with
                    | error e => simp [hrec] at h
                    | ok r3 =>
                      obtain ⟨os', rest'⟩ := r3
                      have hrl := ih _ hlt _ _ _ _ _ hrec (by split <;> omega) rfl
                      simp only [hrec, Except.ok.injEq, Prod.mk.injEq] at h
                      obtain ⟨hos, _⟩ := h
                      cases hk : keepOpt defs (prev + delta) (List.take len' t2) with
                      | none =>
                        rw [hk] at hos hrl; simp only at hos; subst hos
                        simpa using hrl
                      | some o =>
                        rw [hk] at hos hrl; simp only at hos; subst hos
                        simp at hrl ⊢; omega

theorem udpDec_ok_len (cap : Nat) (bs : Bytes) (m : Msg) (k : Nat) (h : udpDec cap bs = .ok (m, k)) :
    m.options.length ≤ cap := by
  unfold udpDec at h
  split at h
  · split at h
    · cases h
    · split at h
      · cases h
      · split at h
        · cases h
        · split at h
          · cases h
          · rename_i os pay hd
            simp only [Except.ok.injEq, Prod.mk.injEq] at h
            obtain ⟨rfl, _⟩ := h
            have := decLoop_ok_len _ _ _ _ _ _ _ hd (Nat.zero_le _)
            simpa using this
  · cases h

theorem tcpDec_ok_len (cap : Nat) (bs : Bytes) (m : Msg) (k : Nat) (h : tcpDec cap bs = .ok (m, k)) :
    m.options.length ≤ cap := by
  unfold tcpDec at h
  split at h
  · cases h
  · split at h
    · cases h
    · split at h
      · cases h
      · rename_i os pay hdl
        simp only [Except.ok.injEq, Prod.mk.injEq] at h
        obtain ⟨rfl, _⟩ := h
        have := decLoop_ok_len _ _ _ _ _ _ _ hdl (Nat.zero_le _)
        simpa using this

end CoapVerif.Lemmas.DecodeWF
