import CoapVerif.Lemmas.OptionRoundTrip
import CoapVerif.Lemmas.CoderRoundTrip
import CoapVerif.Lemmas.RefParser
import CoapVerif.Lemmas.CoderEncode
/-!
Whatever a decoder accepts is well-formed (`WF`): numbers ascending, non-zero, 16-bit; value lengths
expressible and registry-legal; token at most 8 bytes; code a byte; (datagram) two-bit type, 16-bit ID.
-/
set_option linter.unusedVariables false
set_option linter.unusedSimpArgs false
namespace CoapVerif.Lemmas.DecodeWF
open CoapVerif.Generated.Codec CoapVerif.Generated.OptionDefs
open CoapVerif.Spec.Wire
open CoapVerif.Model CoapVerif.Model.OptionCodec
open CoapVerif.Lemmas CoapVerif.Lemmas.OptionCodec CoapVerif.Lemmas.OptionRoundTrip CoapVerif.Lemmas.CoderDecode

theorem optsWF_mono (reg : List (Nat × Nat × Nat)) (os : List Opt) (p p' : Nat) (hp : p' ≤ p)
    (h : optsWF reg p os = true) : optsWF reg p' os = true := by
  cases os with
  | nil => rfl
  | cons o os =>
    simp only [optsWF, Bool.and_eq_true, decide_eq_true_eq] at h ⊢
    obtain ⟨⟨⟨⟨⟨h1, h0⟩, h2⟩, h3⟩, hleg⟩, hrest⟩ := h
    exact ⟨⟨⟨⟨⟨by omega, h0⟩, h2⟩, h3⟩, hleg⟩, hrest⟩

theorem decLoop_WF (defs : Defs) (hu : noUnknown defs = true) (cap n prev : Nat) (bs : Bytes) (os : List Opt) (rest : Bytes)
    (h : decLoop defs cap n prev bs = .ok (os, rest)) : optsWF (regOf defs) prev os = true := by
  induction hl : bs.length using Nat.strongRecOn generalizing n prev bs os rest with
  | _ len ih =>
    subst hl
    cases bs with
    | nil => rw [decLoop.eq_def] at h; simp at h; obtain ⟨rfl, _⟩ := h; rfl
    | cons b t =>
      rw [RefParser.decLoop_cons] at h
      by_cases hff : b = 0xff
      · simp [hff] at h; obtain ⟨rfl, _⟩ := h; rfl
      · simp only [hff, ↓reduceIte] at h
        by_cases hm : b.toNat / 16 = 15 ∨ b.toNat % 16 = 15
        · simp [hm] at h
        · simp only [hm, ↓reduceIte] at h
          cases hd : decExt (b.toNat / 16) t with
          | error e => simp [hd] at h
          | ok r1 =>
            obtain ⟨delta, t1⟩ := r1
            simp only [hd] at h
            cases hl2 : decExt (b.toNat % 16) t1 with
            | error e => simp [hl2] at h
            | ok r2 =>
              obtain ⟨len', t2⟩ := r2
              simp only [hl2] at h
              by_cases hlen : t2.length < len'
              · simp [hlen] at h
              · simp only [hlen, ↓reduceIte] at h
                by_cases hov : prev + delta > 65535
                · simp [hov] at h
                · simp only [hov, ↓reduceIte] at h
                  by_cases hc : cap = n
                  · simp [hc] at h
                  · simp only [hc, ↓reduceIte] at h
                    have l1 := decExt_len hd
                    have l2 := decExt_len hl2
                    have hlt : (t2.drop len').length < (b :: t).length := by simp; omega
                    have hl15 : b.toNat % 16 < 15 := by omega
                    have hv := decExt_val_le hl2 hl15
                    have hvl : (t2.take len').length < 4294967296 := by simp; omega
                    have hk := keepOpt_eq defs hu (prev + delta) (t2.take len') hvl
                    cases hrec : decLoop defs cap
                        (if (keepOpt defs (prev + delta) (List.take len' t2)).isSome = true then n + 1 else n)
                        (prev + delta) (t2.drop len') with
                    | error e => simp [hrec] at h
                    | ok r3 =>
                      obtain ⟨os', rest'⟩ := r3
                      have hwf' := ih _ hlt _ _ _ _ _ hrec rfl
                      simp only [hrec, Except.ok.injEq, Prod.mk.injEq] at h
                      obtain ⟨hos, _⟩ := h
                      by_cases hkeep : prev + delta ≠ 0 ∧ lengthLegal (regOf defs) (prev + delta) (t2.take len').length = true
                      · rw [hk, if_pos hkeep] at hos
                        simp only at hos
                        subst hos
                        simp only [optsWF, Bool.and_eq_true, decide_eq_true_eq]
                        refine ⟨⟨⟨⟨⟨by omega, hkeep.1⟩, by omega⟩, ?_⟩, hkeep.2⟩, hwf'⟩
                        simp; omega
                      · rw [hk, if_neg hkeep] at hos
                        simp only at hos
                        subst hos
                        exact optsWF_mono _ _ _ _ (by omega) hwf'

theorem udpDec_WF (cap : Nat) (bs : Bytes) (m : Msg) (k : Nat) (h : udpDec cap bs = .ok (m, k)) : WF .udp m = true := by
  unfold udpDec at h
  split at h
  · rename_i b0 b1 b2 b3 rest
    split at h
    · cases h
    · split at h
      · cases h
      · rename_i ht
        split at h
        · cases h
        · rename_i hr
          split at h
          · cases h
          · rename_i os pay hd
            simp only [Except.ok.injEq, Prod.mk.injEq] at h
            obtain ⟨rfl, _⟩ := h
            have hwf := decLoop_WF coapOptionDefs coap_noUnknown _ _ _ _ _ _ hd
            rw [coap_regOf] at hwf
            simp only [WF, registryFor, Bool.and_eq_true, decide_eq_true_eq, hwf, and_true, List.length_take]
            have := b1.toNat_lt
            have := b2.toNat_lt
            have := b3.toNat_lt
            refine ⟨⟨by omega, by omega⟩, ⟨⟨⟨by omega, by omega⟩, by omega⟩, by omega⟩⟩
  · cases h

theorem tcpDec_WF (cap : Nat) (bs : Bytes) (m : Msg) (k : Nat) (h : tcpDec cap bs = .ok (m, k))
    (hb : (encBody m).length < tcpBodyLimit) : WF .tcp m = true := by
  unfold tcpDec at h
  split at h
  · cases h
  · rename_i hd hh
    split at h
    · cases h
    · split at h
      · cases h
      · rename_i os pay hdl
        simp only [Except.ok.injEq, Prod.mk.injEq] at h
        obtain ⟨rfl, _⟩ := h
        have hwf := decLoop_WF (TcpCoder.defsFor hd.code) (CoderRoundTrip.defsFor_noUnknown hd.code) _ _ _ _ _ _ hdl
        rw [CoderRoundTrip.defsFor_regOf] at hwf
        obtain ⟨_, _, _, i4⟩ := tcpHdr_inv hh
        have hcode : hd.code < 256 := by
          unfold tcpHdr at hh
          cases bs with
          | nil => simp at hh
          | cons b t =>
            simp only at hh
            split at hh
            · cases hh
            · split at hh
              · cases hh
              · unfold tcpHdrRest at hh
                split at hh
                · cases hh
                · split at hh
                  · cases hh
                  · rename_i x1 x2 x3 code r
                    split at hh
                    · cases hh
                    · injection hh with hh; subst hh; exact UInt8.toNat_lt _
        simp only [WF, Bool.and_eq_true, decide_eq_true_eq, hwf, and_true]
        exact ⟨⟨i4, hcode⟩, hb⟩

/-- A successful loop never needed more slots than the capacity. -/
theorem decLoop_ok_len (defs : Defs) (cap n prev : Nat) (bs : Bytes) (os : List Opt) (rest : Bytes)
    (h : decLoop defs cap n prev bs = .ok (os, rest)) (hn : n ≤ cap) : n + os.length ≤ cap := by
  induction hl : bs.length using Nat.strongRecOn generalizing n prev bs os rest with
  | _ len ih =>
    subst hl
    cases bs with
    | nil => rw [decLoop.eq_def] at h; simp at h; obtain ⟨rfl, _⟩ := h; simpa using hn
    | cons b t =>
      rw [RefParser.decLoop_cons] at h
      by_cases hff : b = 0xff
      · simp [hff] at h; obtain ⟨rfl, _⟩ := h; simpa using hn
      · simp only [hff, ↓reduceIte] at h
        by_cases hm : b.toNat / 16 = 15 ∨ b.toNat % 16 = 15
        · simp [hm] at h
        · simp only [hm, ↓reduceIte] at h
          cases hd : decExt (b.toNat / 16) t with
          | error e => simp [hd] at h
          | ok r1 =>
            obtain ⟨delta, t1⟩ := r1
            simp only [hd] at h
            cases hl2 : decExt (b.toNat % 16) t1 with
            | error e => simp [hl2] at h
            | ok r2 =>
              obtain ⟨len', t2⟩ := r2
              simp only [hl2] at h
              by_cases hlen : t2.length < len'
              · simp [hlen] at h
              · simp only [hlen, ↓reduceIte] at h
                by_cases hov : prev + delta > 65535
                · simp [hov] at h
                · simp only [hov, ↓reduceIte] at h
                  by_cases hc : cap = n
                  · simp [hc] at h
                  · simp only [hc, ↓reduceIte] at h
                    have l1 := decExt_len hd
                    have l2 := decExt_len hl2
                    have hlt : (t2.drop len').length < (b :: t).length := by simp; omega
                    cases hrec : decLoop defs cap
                        (if (keepOpt defs (prev + delta) (List.take len' t2)).isSome = true then n + 1 else n)
                        (prev + delta) (t2.drop len') with
                    | error e => simp [hrec] at h
                    | ok r3 =>
                      obtain ⟨os', rest'⟩ := r3
                      have hrl := ih _ hlt _ _ _ _ _ hrec (by split <;> omega) rfl
                      simp only [hrec, Except.ok.injEq, Prod.mk.injEq] at h
                      obtain ⟨hos, _⟩ := h
                      cases hk : keepOpt defs (prev + delta) (List.take len' t2) with
                      | none =>
                        rw [hk] at hos hrl; simp only at hos; subst hos
                        simpa using hrl
                      | some o =>
                        rw [hk] at hos hrl; simp only at hos; subst hos
                        simp at hrl ⊢; omega

theorem udpDec_ok_len (cap : Nat) (bs : Bytes) (m : Msg) (k : Nat) (h : udpDec cap bs = .ok (m, k)) :
    m.options.length ≤ cap := by
  unfold udpDec at h
  split at h
  · split at h
    · cases h
    · split at h
      · cases h
      · split at h
        · cases h
        · split at h
          · cases h
          · rename_i os pay hd
            simp only [Except.ok.injEq, Prod.mk.injEq] at h
            obtain ⟨rfl, _⟩ := h
            have := decLoop_ok_len _ _ _ _ _ _ _ hd (Nat.zero_le _)
            simpa using this
  · cases h

theorem tcpDec_ok_len (cap : Nat) (bs : Bytes) (m : Msg) (k : Nat) (h : tcpDec cap bs = .ok (m, k)) :
    m.options.length ≤ cap := by
  unfold tcpDec at h
  split at h
  · cases h
  · split at h
    · cases h
    · split at h
      · cases h
      · rename_i os pay hdl
        simp only [Except.ok.injEq, Prod.mk.injEq] at h
        obtain ⟨rfl, _⟩ := h
        have := decLoop_ok_len _ _ _ _ _ _ _ hdl (Nat.zero_le _)
        simpa using this

/-! ## The canonical re-encoding is never longer than what was decoded -/

def extLenOf (v : Nat) : Nat := if v ≤ 12 then 0 else if v ≤ 268 then 1 else 2

theorem ext_length (v : Nat) : (ext v).length = extLenOf v := by
  unfold ext extLenOf; split <;> (try split) <;> simp

/-- Bytes consumed by a delta/length field = bytes its canonical encoding takes. -/
theorem decExt_consumed {nib : Nat} {t r : Bytes} {v : Nat} (h : decExt nib t = .ok (v, r)) (hn : nib < 15) :
    t.length = extLenOf v + r.length := by
  unfold decExt at h
  unfold extLenOf
  split at h
  · cases t with
    | nil => simp at h
    | cons b t' =>
      simp at h; obtain ⟨rfl, rfl⟩ := h
      have := b.toNat_lt
      have a : ¬ (b.toNat + 13 ≤ 12) := by omega
      have c : b.toNat + 13 ≤ 268 := by omega
      simp [a, c]; omega
  · split at h
    · match t, h with
      | [], h => simp at h
      | [_], h => simp at h
      | b0 :: b1 :: t', h =>
        simp at h; obtain ⟨rfl, rfl⟩ := h
        have a : ¬ (b0.toNat * 256 + b1.toNat + 269 ≤ 12) := by omega
        have c : ¬ (b0.toNat * 256 + b1.toNat + 269 ≤ 268) := by omega
        simp [a, c]; omega
    · simp at h; obtain ⟨rfl, rfl⟩ := h
      have : nib ≤ 12 := by omega
      simp [this]

theorem extLenOf_add (a b : Nat) : extLenOf (a + b) ≤ extLenOf a + 1 + extLenOf b := by
  unfold extLenOf
  split <;> split <;> split <;> (try split) <;> (try split) <;> omega

theorem encOpt_length (prev : Nat) (o : Opt) :
    (encOpt prev o).length = 1 + extLenOf (o.id - prev) + extLenOf o.val.length + o.val.length := by
  simp [encOpt, ext_length]; omega

/-- Re-basing the first delta after a dropped option costs at most the dropped option's header. -/
theorem encOpts_rebase (reg : List (Nat × Nat × Nat)) (os : List Opt) (prev delta : Nat)
    (h : optsWF reg (prev + delta) os = true) :
    (encOpts prev os).length ≤ (encOpts (prev + delta) os).length + 1 + extLenOf delta := by
  cases os with
  | nil => simp [encOpts]
  | cons o os =>
    simp only [optsWF, Bool.and_eq_true, decide_eq_true_eq] at h
    obtain ⟨⟨⟨⟨⟨h1, _⟩, _⟩, _⟩, _⟩, _⟩ := h
    simp only [encOpts, List.length_append, encOpt_length]
    have e : o.id - prev = (o.id - (prev + delta)) + delta := by omega
    have := extLenOf_add (o.id - (prev + delta)) delta
    rw [e]
    omega

theorem decLoop_enc_len (defs : Defs) (hu : noUnknown defs = true) (cap n prev : Nat) (bs : Bytes) (os : List Opt)
    (rest : Bytes) (h : decLoop defs cap n prev bs = .ok (os, rest)) :
    (encOpts prev os).length + (encPayload rest).length ≤ bs.length := by
  induction hl : bs.length using Nat.strongRecOn generalizing n prev bs os rest with
  | _ len ih =>
    subst hl
    cases bs with
    | nil => rw [decLoop.eq_def] at h; simp at h; obtain ⟨rfl, rfl⟩ := h; simp [encOpts, encPayload]
    | cons b t =>
      rw [RefParser.decLoop_cons] at h
      by_cases hff : b = 0xff
      · simp [hff] at h; obtain ⟨rfl, rfl⟩ := h
        simp only [encOpts, List.length_nil, Nat.zero_add, List.length_cons]
        rw [CoderEncode.encPayload_len]; split <;> omega
      · simp only [hff, ↓reduceIte] at h
        by_cases hm : b.toNat / 16 = 15 ∨ b.toNat % 16 = 15
        · simp [hm] at h
        · simp only [hm, ↓reduceIte] at h
          cases hd : decExt (b.toNat / 16) t with
          | error e => simp [hd] at h
          | ok r1 =>
            obtain ⟨delta, t1⟩ := r1
            simp only [hd] at h
            cases hl2 : decExt (b.toNat % 16) t1 with
            | error e => simp [hl2] at h
            | ok r2 =>
              obtain ⟨len', t2⟩ := r2
              simp only [hl2] at h
              by_cases hlen : t2.length < len'
              · simp [hlen] at h
              · simp only [hlen, ↓reduceIte] at h
                by_cases hov : prev + delta > 65535
                · simp [hov] at h
                · simp only [hov, ↓reduceIte] at h
                  by_cases hc : cap = n
                  · simp [hc] at h
                  · simp only [hc, ↓reduceIte] at h
                    have hdn : b.toNat / 16 < 15 := by have := b.toNat_lt; omega
                    have hln : b.toNat % 16 < 15 := by omega
                    have c1 := decExt_consumed hd hdn
                    have c2 := decExt_consumed hl2 hln
                    have hlt : (t2.drop len').length < (b :: t).length := by simp; omega
                    have hvl : (t2.take len').length < 4294967296 := by
                      have := decExt_val_le hl2 hln; simp; omega
                    have hk := keepOpt_eq defs hu (prev + delta) (t2.take len') hvl
                    cases hrec : decLoop defs cap
                        (if (keepOpt defs (prev + delta) (List.take len' t2)).isSome = true then n + 1 else n)
                        (prev + delta) (t2.drop len') with
                    | error e => simp [hrec] at h
                    | ok r3 =>
                      obtain ⟨os', rest'⟩ := r3
                      have hrl := ih _ hlt _ _ _ _ _ hrec rfl
                      have hwf' := decLoop_WF defs hu _ _ _ _ _ _ hrec
                      simp only [hrec, Except.ok.injEq, Prod.mk.injEq] at h
                      obtain ⟨hos, hrest⟩ := h
                      subst hrest
                      simp only [List.length_drop, List.length_cons] at hrl ⊢
                      by_cases hkeep : prev + delta ≠ 0 ∧ lengthLegal (regOf defs) (prev + delta) (t2.take len').length = true
                      · rw [hk, if_pos hkeep] at hos
                        simp only at hos; subst hos
                        simp only [encOpts, List.length_append, encOpt_length, List.length_take]
                        have e : prev + delta - prev = delta := by omega
                        have m' : min len' t2.length = len' := by omega
                        rw [e, m']
                        omega
                      · rw [hk, if_neg hkeep] at hos
                        simp only at hos; subst hos
                        have := encOpts_rebase (regOf defs) os' prev delta hwf'
                        have e0 : 0 ≤ extLenOf len' := Nat.zero_le _
                        omega

theorem tcpDec_body_len (cap : Nat) (bs : Bytes) (m : Msg) (k : Nat) (h : tcpDec cap bs = .ok (m, k)) :
    (encBody m).length ≤ bs.length := by
  unfold tcpDec at h
  split at h
  · cases h
  · rename_i hd hh
    split at h
    · cases h
    · split at h
      · cases h
      · rename_i os pay hdl
        simp only [Except.ok.injEq, Prod.mk.injEq] at h
        obtain ⟨rfl, _⟩ := h
        have := decLoop_enc_len (TcpCoder.defsFor hd.code) (CoderRoundTrip.defsFor_noUnknown hd.code) _ _ _ _ _ _ hdl
        simp only [encBody, List.length_append, List.length_drop, List.length_take] at this ⊢
        omega

end CoapVerif.Lemmas.DecodeWF
