import CoapVerif.Model.Dedup
/-! Helper lemmas for C05: the association-list cache, the invariant tying the cache to the trace, and
its preservation by every event. -/
set_option linter.unusedSimpArgs false
namespace CoapVerif.Lemmas.Dedup
open CoapVerif.Spec.Dedup CoapVerif.Model.Dedup

/-! ### cache as association list -/

theorem lookupRaw_mem {c : List (Nat × CEntry)} {m : Nat} {e : CEntry} (h : lookupRaw c m = some e) : (m, e) ∈ c := by
  unfold lookupRaw at h
  split at h
  · rename_i p hp
    have hm := List.mem_of_find?_eq_some hp
    have hk := List.find?_some hp
    simp at hk
    injection h with h
    subst h; subst hk
    exact hm
  · cases h

theorem lookupRaw_cons (k : Nat) (e : CEntry) (c : List (Nat × CEntry)) (m : Nat) :
    lookupRaw ((k, e) :: c) m = if k = m then some e else lookupRaw c m := by
  unfold lookupRaw
  by_cases h : k = m
  · have hb : (k == m) = true := by simp [h]
    simp [List.find?_cons, hb, h]
  · have hb : (k == m) = false := by simp [h]
    simp [List.find?_cons, hb, h]

theorem lookupRaw_filter_ne (k : Nat) (c : List (Nat × CEntry)) (m : Nat) (h : k ≠ m) :
    lookupRaw (c.filter (fun p => p.1 != k)) m = lookupRaw c m := by
  induction c with
  | nil => rfl
  | cons x t ih =>
    by_cases hx : x.1 = k
    · have hb : (x.1 != k) = false := by simp [hx]
      have : (x :: t).filter (fun p => p.1 != k) = t.filter (fun p => p.1 != k) := by simp [List.filter_cons, hb]
      rw [this, ih]
      obtain ⟨a, b⟩ := x
      simp at hx
      rw [lookupRaw_cons]
      have : a ≠ m := by omega
      simp [this]
    · have hb : (x.1 != k) = true := by simp [hx]
      have : (x :: t).filter (fun p => p.1 != k) = x :: t.filter (fun p => p.1 != k) := by simp [List.filter_cons, hb]
      rw [this]
      obtain ⟨a, b⟩ := x
      rw [lookupRaw_cons, lookupRaw_cons, ih]

theorem lookupRaw_sweep {c : List (Nat × CEntry)} {m now : Nat} {e : CEntry}
    (h : lookupRaw c m = some e) (hv : now ≤ e.validUntil) : lookupRaw (sweep c now) m = some e := by
  induction c with
  | nil => simp [lookupRaw] at h
  | cons x t ih =>
    obtain ⟨a, b⟩ := x
    rw [lookupRaw_cons] at h
    unfold sweep
    by_cases ha : a = m
    · simp [ha] at h
      subst h
      have : ((a, b) :: t).filter (fun p => decide (now ≤ p.2.validUntil)) = (a, b) :: t.filter (fun p => decide (now ≤ p.2.validUntil)) := by
        simp [List.filter_cons, hv]
      rw [this, lookupRaw_cons]; simp [ha]
    · simp [ha] at h
      have ih' := ih h
      unfold sweep at ih'
      by_cases hb : now ≤ b.validUntil
      · have : ((a, b) :: t).filter (fun p => decide (now ≤ p.2.validUntil)) = (a, b) :: t.filter (fun p => decide (now ≤ p.2.validUntil)) := by
          simp [List.filter_cons, hb]
        rw [this, lookupRaw_cons]; simp [ha]; exact ih'
      · have : ((a, b) :: t).filter (fun p => decide (now ≤ p.2.validUntil)) = t.filter (fun p => decide (now ≤ p.2.validUntil)) := by
          simp [List.filter_cons, hb]
        rw [this]; exact ih'

theorem lookup_some {c : List (Nat × CEntry)} {now m : Nat} {e : CEntry} (h : lookup c now m = some e) :
    lookupRaw c m = some e ∧ now ≤ e.validUntil := by
  unfold lookup at h
  split at h
  · rename_i e' he'
    split at h
    · injection h with h; subst h; exact ⟨he', by assumption⟩
    · cases h
  · cases h

theorem lookup_none_of_raw {c : List (Nat × CEntry)} {now m : Nat} {e : CEntry}
    (hr : lookupRaw c m = some e) (h : lookup c now m = none) : e.validUntil < now := by
  unfold lookup at h
  rw [hr] at h
  simp at h
  omega

theorem lookup_none_mono {c : List (Nat × CEntry)} {now now' m : Nat} (hle : now ≤ now')
    (h : lookup c now m = none) : lookup c now' m = none := by
  unfold lookup at h ⊢
  split
  · rename_i e he
    rw [he] at h
    simp at h
    have : ¬ now' ≤ e.validUntil := by omega
    simp [this]
  · rfl

/-- After a miss, `LoadOrStore` really stores. -/
theorem store_of_miss {c : List (Nat × CEntry)} {now k : Nat} (e : CEntry) (h : lookup c now k = none) :
    store c now k e = (k, e) :: c.filter (fun p => p.1 != k) := by
  unfold store; rw [h]

theorem lookupRaw_store_of_miss {c : List (Nat × CEntry)} {now k : Nat} (e : CEntry) (h : lookup c now k = none) (m : Nat) :
    lookupRaw (store c now k e) m = if k = m then some e else lookupRaw c m := by
  rw [store_of_miss e h, lookupRaw_cons]
  by_cases hk : k = m
  · simp [hk]
  · simp [hk]; exact lookupRaw_filter_ne k c m hk

theorem mem_store_of_miss {c : List (Nat × CEntry)} {now k : Nat} (e : CEntry) (h : lookup c now k = none)
    {x : Nat × CEntry} (hx : x ∈ store c now k e) : x = (k, e) ∨ x ∈ c := by
  rw [store_of_miss e h] at hx
  cases hx with
  | head => exact Or.inl rfl
  | tail _ ht => exact Or.inr (List.mem_filter.mp ht).1

/-! ### replies -/

theorem ne_nestedTok (tok : List UInt8) : (tok != nestedTok tok) = true := by
  have : tok ≠ nestedTok tok := by
    intro h
    have := congrArg List.length h
    simp [nestedTok] at this
  simp [this]

theorem nil_ne_nestedTok (tok : List UInt8) : (([] : List UInt8) != nestedTok tok) = true := by
  have : ([] : List UInt8) ≠ nestedTok tok := by
    intro h
    have := congrArg List.length h
    simp [nestedTok] at this
  simp [this]

theorem nestedOf_toks (beh : Beh) (tok : List UInt8) (n m : Nat) :
    ∀ d ∈ (nestedOf beh tok n m).2, d.tok = nestedTok tok := by
  intro d hd
  unfold nestedOf at hd
  cases beh <;> simp at hd
  subst hd; rfl

theorem find_reply_append (nested : List Dgram) (r : Dgram) (tok : List UInt8)
    (hn : ∀ d ∈ nested, d.tok = nestedTok tok) (hr : (r.tok != nestedTok tok) = true) :
    (nested ++ [r]).find? (fun d => d.tok != nestedTok tok) = some r := by
  induction nested with
  | nil => simp [hr]
  | cons x t ih =>
    have hx : x.tok = nestedTok tok := hn x (by simp)
    have : (x.tok != nestedTok tok) = false := by simp [hx]
    simp only [List.cons_append, List.find?, this]
    exact ih (fun d hd => hn d (by simp [hd]))

theorem find_reply_nested (nested : List Dgram) (tok : List UInt8)
    (hn : ∀ d ∈ nested, d.tok = nestedTok tok) :
    nested.find? (fun d => d.tok != nestedTok tok) = none := by
  induction nested with
  | nil => rfl
  | cons x t ih =>
    have hx : x.tok = nestedTok tok := hn x (by simp)
    have : (x.tok != nestedTok tok) = false := by simp [hx]
    simp only [List.find?, this]
    exact ih (fun d hd => hn d (by simp [hd]))

/-- What `respond` yields, by case. -/
theorem respond_tok (ec : Bool) (typ : RType) (mid : Nat) (tok : List UInt8) (w : Option Wr) (m : Nat) (r : Dgram) (b : Bool)
    (h : (respond ec typ mid tok w m).2 = some (r, b)) : r.tok = tok ∨ r.tok = [] := by
  unfold respond at h
  cases w with
  | none => cases typ <;> simp at h; exact Or.inr (by rw [← h.1])
  | some w =>
    simp only at h
    split at h <;> cases typ <;> simp at h <;> exact Or.inl (by rw [← h.1])


/-- With the empty / reset reply cached as well, every reply that is written is cached. -/
theorem respond_uncached (typ : RType) (mid : Nat) (tok : List UInt8) (beh : Beh) (n m : Nat) (r : Dgram)
    (h : (respond true typ mid tok (handlerWr beh n) m).2 = some (r, false)) : False := by
  cases beh <;> cases typ <;> simp [respond, handlerWr] at h

theorem respond_none (ec : Bool) (typ : RType) (mid : Nat) (tok : List UInt8) (beh : Beh) (n m : Nat)
    (h : (respond ec typ mid tok (handlerWr beh n) m).2 = none) : typ = .non ∧ (beh = .none ∨ beh = .sep) := by
  unfold respond at h
  cases beh <;> simp [handlerWr] at h <;> cases typ <;> simp at h <;> simp

theorem nestedOf_nil (beh : Beh) (tok : List UInt8) (n m : Nat) (h : beh = .none ∨ beh = .sep) :
    (nestedOf beh tok n m).2 = [] := by
  cases h with
  | inl h => subst h; rfl
  | inr h => subst h; rfl

/-! ### the trace predicates (at the strength the model has them: `≤` at the boundary, exact reply) -/

/-- Every in-scope earlier arrival `p` of the same MID that is still within the lifetime makes `o` a duplicate:
    no handler, one datagram = `p`'s reply re-addressed. -/
def DupOk (L : Nat) (o : Obs) (pre : List Obs) : Prop :=
  ∀ p ∈ pre, p.mid = o.mid → inScope p = true → o.t ≤ doneAt p + L →
    o.ran = [] ∧ ∃ r, reply p = some r ∧ o.sent = [{ r with mid := o.mid, typ := dupType o.typ }]

/-- If every earlier handler execution for this MID lies more than a lifetime back (or there is none),
    the handler runs exactly once. -/
def FreshOk (L : Nat) (o : Obs) (pre : List Obs) : Prop :=
  (∀ p ∈ pre, p.mid = o.mid → p.ran ≠ [] → doneAt p + L < o.t) → ∃ n, o.ran = [n]

def TraceOk (L : Nat) : List Obs → Prop
  | [] => True
  | o :: pre => DupOk L o pre ∧ FreshOk L o pre ∧ TraceOk L pre

/-- Invariant tying the response cache to the trace. -/
structure Inv (L : Nat) (s : State) : Prop where
  a : ∀ o ∈ s.trace, inScope o = true → s.now ≤ doneAt o + L →
        ∃ r, reply o = some r ∧ lookupRaw s.cache o.mid = some ⟨r, doneAt o + L⟩
  b : ∀ m e, (m, e) ∈ s.cache → ∃ o ∈ s.trace, o.mid = m ∧ o.ran ≠ [] ∧ e.validUntil = doneAt o + L
  t : TraceOk L s.trace

theorem inv_init (L m : Nat) : Inv L (init m) where
  a := by intro o ho; cases ho
  b := by intro m e h; cases h
  t := trivial

theorem mem_extend {α : Type} {Q : α → Prop} (x : α) {l : List α} (h : ∃ o ∈ l, Q o) : ∃ o ∈ x :: l, Q o := by
  obtain ⟨o, ho, hq⟩ := h
  exact ⟨o, List.mem_cons_of_mem _ ho, hq⟩

theorem inv_sleep {L : Nat} {s : State} (h : Inv L s) (d : Nat) : Inv L { s with now := s.now + d } :=
  ⟨fun o ho hs hn => h.a o ho hs (by simp at hn; omega), h.b, h.t⟩

theorem inv_tick {L : Nat} {s : State} (h : Inv L s) : Inv L { s with cache := sweep s.cache s.now } := by
  refine ⟨?_, ?_, h.t⟩
  · intro o ho hs hn
    obtain ⟨r, hr, hl⟩ := h.a o ho hs hn
    exact ⟨r, hr, lookupRaw_sweep hl hn⟩
  · intro m e hm
    exact h.b m e (List.mem_filter.mp hm).1

theorem flush_fields (s : State) : (flush s).1.now = s.now ∧ (flush s).1.cache = s.cache ∧ (flush s).1.trace = s.trace := by
  unfold flush
  exact ⟨rfl, rfl, rfl⟩

theorem inv_flush {L : Nat} {s : State} (h : Inv L s) : Inv L (flush s).1 := by
  obtain ⟨h1, h2, h3⟩ := flush_fields s
  refine ⟨?_, ?_, ?_⟩
  · rw [h1, h2, h3]; exact h.a
  · rw [h2, h3]; exact h.b
  · rw [h3]; exact h.t

theorem inv_recv {P : Params} (hk : P.storeKeyIsRequestMID = true) (he : P.emptyReplyCached = true) {s : State} (h : Inv P.lifetime s)
    (typ : RType) (mid : Nat) (tok : List UInt8) (beh : Beh) (dur : Nat) :
    Inv P.lifetime (recv P s typ mid tok beh dur).1 := by
  unfold recv
  cases hl : lookup s.cache s.now mid with
  | some e =>
    -- answered from the cache
    simp only
    obtain ⟨hraw, hvalid⟩ := lookup_some hl
    refine ⟨?_, ?_, ?_⟩
    · intro o ho hs hn
      cases ho with
      | head => simp [inScope] at hs
      | tail _ ho => exact h.a o ho hs hn
    · intro m e' hm
      obtain ⟨o, ho, h1⟩ := h.b m e' hm
      exact ⟨o, List.mem_cons_of_mem _ ho, h1⟩
    · refine ⟨?_, ?_, h.t⟩
      · intro p hp hmid hs hn
        obtain ⟨r, hr, hlr⟩ := h.a p hp hs hn
        simp only at hmid
        rw [hmid, hraw] at hlr
        injection hlr with hlr
        refine ⟨rfl, r, hr, ?_⟩
        simp only [hlr]
      · intro hall
        exfalso
        obtain ⟨o, ho, h1, h2, h3⟩ := h.b mid e (lookupRaw_mem hraw)
        have := hall o ho h1 h2
        simp only at this
        omega
  | none =>
    simp only
    have hmiss' : lookup s.cache (s.now + dur) mid = none := lookup_none_mono (Nat.le_add_right _ _) hl
    -- no in-scope earlier arrival of this MID is still within its lifetime
    have hnocover : ∀ p ∈ s.trace, p.mid = mid → inScope p = true → s.now ≤ doneAt p + P.lifetime → False := by
      intro p hp hmid hs hn
      obtain ⟨r, _, hlr⟩ := h.a p hp hs hn
      rw [hmid] at hlr
      have := lookup_none_of_raw hlr hl
      simp at this
      omega
    generalize hn : s.nexec + 1 = n
    generalize hnm : nestedOf beh tok n (checkMyMessageID P typ mid s.msgID) = nm
    rw [he]
    generalize hrc : respond true typ mid tok (handlerWr beh n) nm.1 = rc
    have hnt : ∀ d ∈ nm.2, d.tok = nestedTok tok := by rw [← hnm]; exact nestedOf_toks _ _ _ _
    refine ⟨?_, ?_, ?_⟩
    · intro o ho hs hnow
      cases ho with
      | head =>
        simp only [doneAt] at hnow ⊢
        cases hr2 : rc.2 with
        | none =>
          exfalso
          have hr2' := hr2
          rw [← hrc] at hr2'
          obtain ⟨ht, hb⟩ := respond_none _ _ _ _ _ _ _ hr2'
          have hnil : nm.2 = [] := by rw [← hnm]; exact nestedOf_nil _ _ _ _ hb
          simp [inScope, reply, hr2, hnil, ht] at hs
        | some rb =>
          obtain ⟨r, b⟩ := rb
          cases b with
          | false =>
            exfalso
            rw [← hrc] at hr2
            exact respond_uncached _ _ _ _ _ _ _ hr2
          | true =>
            have htok : (r.tok != nestedTok tok) = true := by
              rw [← hrc] at hr2
              cases respond_tok _ _ _ _ _ _ _ _ hr2 with
              | inl h1 => rw [h1]; exact ne_nestedTok tok
              | inr h1 => rw [h1]; exact nil_ne_nestedTok tok
            refine ⟨r, ?_, ?_⟩
            · simp only [reply, hr2]
              exact find_reply_append _ _ _ hnt htok
            · simp only [hr2, hk, if_true]
              rw [lookupRaw_store_of_miss _ hmiss']
              simp
      | tail _ ho =>
        have hnow' : s.now ≤ doneAt o + P.lifetime := by simp only at hnow; omega
        obtain ⟨r, hr, hlr⟩ := h.a o ho hs hnow'
        refine ⟨r, hr, ?_⟩
        have hne : mid ≠ o.mid := fun heq => hnocover o ho heq.symm hs hnow'
        cases hr2 : rc.2 with
        | none => simpa [hr2] using hlr
        | some rb =>
          obtain ⟨r', b⟩ := rb
          cases b with
          | false => simpa [hr2] using hlr
          | true =>
            simp only [hr2, hk, if_true]
            rw [lookupRaw_store_of_miss _ hmiss']
            simp [hne]; exact hlr
    · intro m e hm
      simp only at hm
      cases hr2 : rc.2 with
      | none => rw [hr2] at hm; exact mem_extend _ (h.b m e hm)
      | some rb =>
        obtain ⟨r, b⟩ := rb
        cases b with
        | false => rw [hr2] at hm; exact mem_extend _ (h.b m e hm)
        | true =>
          rw [hr2] at hm
          simp only [hk, if_true] at hm
          cases mem_store_of_miss _ hmiss' hm with
          | inl heq =>
            injection heq with h1 h2
            refine ⟨_, List.mem_cons_self, ?_⟩
            simp [doneAt, h1, h2]
          | inr hin => exact mem_extend _ (h.b m e hin)
    · refine ⟨?_, ?_, h.t⟩
      · intro p hp hmid hs hnow
        exact (hnocover p hp hmid hs hnow).elim
      · intro _
        exact ⟨n, rfl⟩

theorem inv_step {P : Params} (hk : P.storeKeyIsRequestMID = true) (he : P.emptyReplyCached = true) {s : State} (h : Inv P.lifetime s) (e : Ev) :
    Inv P.lifetime (step P s e).1 := by
  cases e with
  | recv typ mid tok beh dur => exact inv_recv hk he h typ mid tok beh dur
  | sleep d => exact inv_sleep h d
  | tick => exact inv_tick h
  | flush => exact inv_flush h

theorem inv_runFrom {P : Params} (hk : P.storeKeyIsRequestMID = true) (he : P.emptyReplyCached = true) (evs : List Ev) :
    ∀ s, Inv P.lifetime s → Inv P.lifetime (runFrom P s evs) := by
  induction evs with
  | nil => intro s h; exact h
  | cons e t ih =>
    intro s h
    exact ih _ (inv_step hk he h e)

end CoapVerif.Lemmas.Dedup
