import CoapVerif.Model.DedupLock
/-! Invariant of the two-goroutine lock model of `handleReq` and its preservation under every step. -/
namespace CoapVerif.Lemmas.DedupLock
open CoapVerif.Model.DedupLock

def inCS : PC → Bool
  | .locked | .miss | .handled | .replied => true
  | _ => false

def isHandled : PC → Bool
  | .handled => true
  | _ => false

def needsMiss : PC → Bool
  | .miss | .handled => true
  | _ => false

def past : PC → Bool
  | .replied | .done => true
  | _ => false

/-- The finite part: mutual exclusion, and what each program counter implies for the cache. -/
def goodOf (c0 : Bool) (pa pb : PC) (lock : Option Bool) (cached : Bool) : Bool :=
  (inCS pa == (lock == some false)) && (inCS pb == (lock == some true)) &&
  (!needsMiss pa || !cached) && (!needsMiss pb || !cached) &&
  (!past pa || cached) && (!past pb || cached) && (!c0 || cached)

def good (c0 : Bool) (s : State) : Bool := goodOf c0 s.pa s.pb s.lock s.cached

/-- Handler executions = 1 if this pair of copies filled the cache, plus 1 while a handler result is not stored yet. -/
def runsOf' (c0 : Bool) (pa pb : PC) (cached : Bool) : Nat :=
  (if cached && !c0 then 1 else 0) + (if isHandled pa || isHandled pb then 1 else 0)

def runsOf (c0 : Bool) (s : State) : Nat := runsOf' c0 s.pa s.pb s.cached

structure Inv (c0 : Bool) (s : State) : Prop where
  g : good c0 s = true
  r : s.runs = runsOf c0 s

theorem inv_init (c0 : Bool) : Inv c0 (init c0) := by
  cases c0 <;> exact ⟨by decide, by decide⟩

theorem inv_step (c0 : Bool) (s : State) (t : Bool) (h : Inv c0 s) : Inv c0 (step true s t) := by
  obtain ⟨pa, pb, lock, cached, runs⟩ := s
  obtain ⟨hg, hr⟩ := h
  simp only [runsOf] at hr
  simp only [good] at hg
  subst hr
  cases t <;> cases pa <;> cases pb <;> cases cached <;> cases c0 <;>
    (first
      | (exfalso; revert hg; cases lock with | none => decide | some b => cases b <;> decide)
      | (cases lock with
         | none => first | (exfalso; revert hg; decide) | exact ⟨by decide, by decide⟩
         | some b => cases b <;> first | (exfalso; revert hg; decide) | exact ⟨by decide, by decide⟩))

theorem inv_exec (c0 : Bool) (sched : List Bool) : ∀ s, Inv c0 s → Inv c0 (exec true s sched) := by
  induction sched with
  | nil => intro s h; exact h
  | cons t r ih => intro s h; exact ih _ (inv_step c0 s t h)

end CoapVerif.Lemmas.DedupLock
