import CoapVerif.Model.DedupLockN
/-! Invariant of the n-goroutine model of `handleReq` over the modelled `MutexMap`, preserved by every event. -/
namespace CoapVerif.Lemmas.DedupLockN
open CoapVerif.Model.DedupLockN

def holdsRef : PC → Bool
  | .waiting _ | .locked | .miss | .handled _ | .replied _ => true
  | _ => false

def inCS : PC → Bool
  | .locked | .miss | .handled _ | .replied _ => true
  | _ => false

def needsMiss : PC → Bool
  | .miss | .handled _ => true
  | _ => false

def isHandled : PC → Bool
  | .handled _ => true
  | _ => false

/-- the reply value a goroutine carries -/
def carries : PC → Option Nat
  | .handled v | .replied v | .unlocking _ v | .done v => some v
  | _ => none

def refP (k : Nat) (g : G) : Bool := g.key == k && holdsRef g.pc

/-- goroutines that hold a counted reference to the map entry of `k` -/
def refs (k : Nat) (gs : List G) : Nat := gs.countP (refP k)

/-- where replies for `k` can come from: the executions, and what was cached at the start -/
def srcs (c0 : Nat → Option Nat) (s : State) (k : Nat) : List Nat := s.runs k ++ (c0 k).toList

theorem refs_set (k : Nat) (gs : List G) (i : Nat) (g g' : G) (h : gs[i]? = some g) :
    refs k (gs.set i g') + (if refP k g then 1 else 0) = refs k gs + (if refP k g' then 1 else 0) := by
  obtain ⟨hi, hg⟩ := List.getElem?_eq_some_iff.mp h
  unfold refs
  rw [List.countP_set hi, hg]
  have := List.boole_getElem_le_countP (p := refP k) hi
  rw [hg] at this
  omega

theorem refs_append (k : Nat) (gs : List G) (g : G) : refs k (gs ++ [g]) = refs k gs + (if refP k g then 1 else 0) := by
  unfold refs
  rw [List.countP_append, List.countP_singleton]

theorem refs_pos (k : Nat) (gs : List G) (i : Nat) (g : G) (h : gs[i]? = some g) (hp : refP k g = true) : 1 ≤ refs k gs := by
  obtain ⟨hi, hg⟩ := List.getElem?_eq_some_iff.mp h
  have := List.boole_getElem_le_countP (p := refP k) hi
  rw [hg, hp] at this
  simpa [refs] using this

/-- two different goroutines with a reference: the count is at least two -/
theorem refs_two (k : Nat) (gs : List G) (i j : Nat) (g g' : G) (hij : i ≠ j) (h : gs[i]? = some g) (h' : gs[j]? = some g')
    (hp : refP k g = true) (hp' : refP k g' = true) : 2 ≤ refs k gs := by
  have h1 := refs_set k gs i g ⟨k + 1, .gone⟩ h
  have h2 : (gs.set i ⟨k + 1, .gone⟩)[j]? = some g' := by rw [List.getElem?_set]; simp [hij, h']
  have h3 := refs_pos k _ j g' h2 hp'
  have : refP k ⟨k + 1, .gone⟩ = false := by simp [refP, holdsRef]
  rw [hp, this] at h1
  simp at h1
  omega

@[simp] theorem upd_same {α : Type} (f : Nat → α) (k : Nat) (v : α) : upd f k v k = v := by simp [upd]
theorem upd_other {α : Type} (f : Nat → α) (k k' : Nat) (v : α) (h : k' ≠ k) : upd f k v k' = f k' := by simp [upd, h]

structure Inv (c0 : Nat → Option Nat) (s : State) : Prop where
  mapLt : ∀ k e, s.ma k = some e → e < s.next k
  mapCnt : ∀ k e, s.ma k = some e → (s.heap k e).cnt = refs k s.gs
  mapNone : ∀ k, s.ma k = none → refs k s.gs = 0
  wait : ∀ (i : Nat) (g : G) e, s.gs[i]? = some g → g.pc = .waiting e → s.ma g.key = some e
  cs : ∀ (i : Nat) (g : G), s.gs[i]? = some g → inCS g.pc = true → ∃ e, s.ma g.key = some e ∧ (s.heap g.key e).held = some i
  unl : ∀ (i : Nat) (g : G) e v, s.gs[i]? = some g → g.pc = .unlocking e v → e < s.next g.key ∧ (s.heap g.key e).held = some i
  held : ∀ k e j, (s.heap k e).held = some j →
    ∃ g, s.gs[j]? = some g ∧ g.key = k ∧ ((inCS g.pc = true ∧ s.ma k = some e) ∨ ∃ v, g.pc = .unlocking e v)
  noPanic : ∀ (i : Nat) (g : G), s.gs[i]? = some g → g.pc ≠ .panicked
  missNone : ∀ (i : Nat) (g : G), s.gs[i]? = some g → needsMiss g.pc = true → s.cache g.key = none
  vals : ∀ (i : Nat) (g : G) v, s.gs[i]? = some g → carries g.pc = some v → v ∈ srcs c0 s g.key
  cacheVal : ∀ k v, s.cache k = some v → v ∈ srcs c0 s k
  phi1 : ∀ k, (srcs c0 s k).length ≤ 1 + s.exps k
  phi2 : ∀ k, s.cache k = none → (∀ (i : Nat) (g : G), s.gs[i]? = some g → g.key = k → isHandled g.pc = false) →
    (srcs c0 s k).length ≤ s.exps k

theorem inv_init (c0 : Nat → Option Nat) : Inv c0 (init c0) := by
  refine ⟨?_, ?_, ?_, ?_, ?_, ?_, ?_, ?_, ?_, ?_, ?_, ?_, ?_⟩ <;> simp [init, srcs, refs]

theorem get_set {gs : List G} {i j : Nat} {g' x : G} (h : (gs.set i g')[j]? = some x) :
    (j = i ∧ x = g') ∨ (j ≠ i ∧ gs[j]? = some x) := by
  rw [List.getElem?_set] at h
  by_cases hij : i = j
  · subst hij; simp at h; left; exact ⟨rfl, h.2.symm⟩
  · simp [hij] at h; right; exact ⟨fun h' => hij h'.symm, h⟩

macro "inv_tac" : tactic => `(tactic| (
  refine ⟨?_, ?_, ?_, ?_, ?_, ?_, ?_, ?_, ?_, ?_, ?_, ?_, ?_⟩
  all_goals simp only [setPc, setEntry, newEntry]
  all_goals try grind [get_set, refP, holdsRef, inCS, needsMiss, isHandled, carries, srcs, upd]))

theorem mutex {c0 : Nat → Option Nat} {s : State} (h : Inv c0 s) {i j : Nat} {g g' : G} (hi : s.gs[i]? = some g)
    (hj : s.gs[j]? = some g') (hk : g'.key = g.key) (hc : inCS g.pc = true) (hc' : inCS g'.pc = true) : j = i := by
  obtain ⟨e, he, hh⟩ := h.cs i g hi hc
  obtain ⟨e', he', hh'⟩ := h.cs j g' hj hc'
  rw [hk] at he' hh'
  rw [he] at he'
  cases he'
  rw [hh] at hh'
  cases hh'
  rfl

end CoapVerif.Lemmas.DedupLockN
