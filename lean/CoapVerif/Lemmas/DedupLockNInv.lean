import CoapVerif.Lemmas.DedupLockNMap
/-! The invariant of `Lemmas/DedupLockN.lean` holds in every reachable state of the program with the lock. -/
namespace CoapVerif.Lemmas.DedupLockN
open CoapVerif.Model.DedupLockN

theorem inv_start (c0 : Nat → Option Nat) (s : State) (i k : Nat) (hg : s.gs[i]? = some ⟨k, .start⟩)
    (h : Inv c0 s) (c : Cfg) (hc : c.useLock = true) : Inv c0 (stepG c s i ⟨k, .start⟩) := by
  simp only [stepG, hc, if_true]
  split
  · have hr := fun k' g' => refs_set k' s.gs i _ g' hg
    obtain ⟨h1, h2, h3, h4, h5, h6, h7, h8, h9, h10, h11, h12, h13⟩ := h
    have hrp : ∀ k', refP k' ⟨k, .start⟩ = false := by simp [refP, holdsRef]
    simp only [hrp] at hr
    split
    · map_tac'
      case held =>
        clear h1 h2 h3 h4 h5 h6 h8 h9 h10 h11 h12 h13 hr
        grind [set_ne, inCS, upd]
      case phi2 => exact fun k' hc H => h13 k' hc (phi2_set rfl hg H)
    · rename_i hma
      have hpos := fun j x hj hp => refs_pos k s.gs j x hj hp
      have hs := set_self ⟨k, .locked⟩ hg
      have h0 := h3 k hma
      map_tac'
      case cs =>
        intro j g hj hcs
        rcases get_set hj with ⟨rfl, rfl⟩ | ⟨hne, hj'⟩
        · exact ⟨s.next k, by simp, by simp⟩
        · have hkk : g.key ≠ k := by
            intro hk
            have := hpos j g hj' (by cases hq : g.pc <;> simp_all [refP, holdsRef, inCS])
            omega
          obtain ⟨e, he, hh⟩ := h5 j g hj' hcs
          exact ⟨e, by simp [upd, hkk, he], by simp [hkk, hh]⟩
      case held =>
        have hs := set_self ⟨k, .locked⟩ hg
        clear h1 h2 h3 h4 h5 h6 h8 h9 h10 h11 h12 h13 hr
        grind [set_ne, inCS, upd]
      case phi2 => exact fun k' hc H => h13 k' hc (phi2_set rfl hg H)
  · exact inv_lockRef c0 s i k .start (Or.inl rfl) hg h

theorem inv_stepG (c0 : Nat → Option Nat) (s : State) (i : Nat) (g : G) (hg : s.gs[i]? = some g)
    (h : Inv c0 s) (c : Cfg) (hc : c.useLock = true) : Inv c0 (stepG c s i g) := by
  obtain ⟨k, pc⟩ := g
  cases pc with
  | start => exact inv_start c0 s i k hg h c hc
  | retry => exact inv_lockRef c0 s i k .retry (Or.inr rfl) hg h
  | waiting e => exact inv_waiting c0 s i k e hg h c
  | locked => exact inv_locked c0 s i k hg h c
  | miss => exact inv_miss c0 s i k hg h c
  | handled v => exact inv_handled c0 s i k v hg h c
  | replied v => exact inv_replied c0 s i k v hg h c hc
  | unlocking e v => exact inv_unlocking c0 s i k e v hg h c
  | done v => exact h
  | panicked => exact h
  | gone => exact h

theorem get_append {gs : List G} {j : Nat} {g' x : G} (h : (gs ++ [g'])[j]? = some x) :
    gs[j]? = some x ∨ (j = gs.length ∧ x = g') := by
  rw [List.getElem?_append] at h
  split at h
  · left; exact h
  · right
    have : j - gs.length = 0 := by
      cases hq : j - gs.length with
      | zero => rfl
      | succ n => rw [hq] at h; simp at h
    rw [this] at h
    simp at h
    exact ⟨by omega, h.symm⟩

theorem get_append_old {gs : List G} {j : Nat} {g' x : G} (h : gs[j]? = some x) : (gs ++ [g'])[j]? = some x := by
  obtain ⟨hi, hx⟩ := List.getElem?_eq_some_iff.mp h
  rw [List.getElem?_append]; simp [hi, hx]

/-- a new goroutine that holds nothing yet (a copy that has just arrived, or a slot that never moves) -/
theorem inv_append (c0 : Nat → Option Nat) (s : State) (g' : G) (hp : g'.pc = .start ∨ g'.pc = .gone)
    (h : Inv c0 s) : Inv c0 { s with gs := s.gs ++ [g'] } := by
  obtain ⟨k, pc⟩ := g'
  simp only at hp
  have hr : ∀ k', refs k' (s.gs ++ [⟨k, pc⟩]) = refs k' s.gs := by
    intro k'; rw [refs_append]; rcases hp with rfl | rfl <;> simp [refP, holdsRef]
  obtain ⟨h1, h2, h3, h4, h5, h6, h7, h8, h9, h10, h11, h12, h13⟩ := h
  refine ⟨?mapLt, ?mapCnt, ?mapNone, ?wait, ?cs, ?unl, ?held, ?noPanic, ?missNone, ?vals, ?cacheVal, ?phi1, ?phi2⟩
  all_goals simp only [srcs, hr]
  case mapLt => exact h1
  case mapCnt => exact h2
  case mapNone => exact h3
  case cacheVal => exact h11
  case phi1 => exact h12
  case held =>
    intro k' e j hh
    obtain ⟨g, hj, hk, hor⟩ := h7 k' e j hh
    exact ⟨g, get_append_old hj, hk, hor⟩
  case phi2 =>
    intro k' hc H
    exact h13 k' hc (fun j x hj hk => H j x (get_append_old hj) hk)
  case wait =>
    intro j x e hj hq
    rcases get_append hj with hj' | ⟨_, rfl⟩
    · exact h4 j x e hj' hq
    · rcases hp with rfl | rfl <;> cases hq
  case cs =>
    intro j x hj hq
    rcases get_append hj with hj' | ⟨_, rfl⟩
    · exact h5 j x hj' hq
    · rcases hp with rfl | rfl <;> simp [inCS] at hq
  case unl =>
    intro j x e v hj hq
    rcases get_append hj with hj' | ⟨_, rfl⟩
    · exact h6 j x e v hj' hq
    · rcases hp with rfl | rfl <;> cases hq
  case noPanic =>
    intro j x hj
    rcases get_append hj with hj' | ⟨_, rfl⟩
    · exact h8 j x hj'
    · rcases hp with rfl | rfl <;> simp
  case missNone =>
    intro j x hj hq
    rcases get_append hj with hj' | ⟨_, rfl⟩
    · exact h9 j x hj' hq
    · rcases hp with rfl | rfl <;> simp [needsMiss] at hq
  case vals =>
    intro j x v hj hq
    rcases get_append hj with hj' | ⟨_, rfl⟩
    · exact h10 j x v hj' hq
    · rcases hp with rfl | rfl <;> simp [carries] at hq

theorem inv_expire (c0 : Nat → Option Nat) (s : State) (k : Nat) (h : Inv c0 s) :
    Inv c0 { s with cache := upd s.cache k none, exps := upd s.exps k (s.exps k + 1) } := by
  obtain ⟨h1, h2, h3, h4, h5, h6, h7, h8, h9, h10, h11, h12, h13⟩ := h
  refine ⟨h1, h2, h3, h4, h5, h6, h7, h8, ?missNone, h10, ?cacheVal, ?phi1, ?phi2⟩
  all_goals simp only [srcs]
  case missNone => intro j g hj hn; have := h9 j g hj hn; by_cases hk : g.key = k <;> simp [upd, hk, this]
  case cacheVal =>
    intro k' v hv
    by_cases hk : k' = k
    · simp [upd, hk] at hv
    · simp [upd, hk] at hv; exact h11 k' v hv
  case phi1 =>
    intro k'
    have := h12 k'
    simp only [srcs] at this
    by_cases hk : k' = k
    · subst hk; simp only [upd_same]; omega
    · rw [upd_other _ _ _ _ hk]; exact this
  case phi2 =>
    intro k' hc H
    by_cases hk : k' = k
    · subst hk
      have := h12 k'
      simp only [srcs] at this
      simp only [upd_same]; omega
    · rw [upd_other _ _ _ _ hk] at hc ⊢
      exact h13 k' hc H

theorem inv_step (c0 : Nat → Option Nat) (c : Cfg) (hc : c.useLock = true) (s : State) (ev : Ev) (h : Inv c0 s) :
    Inv c0 (step c s ev) := by
  cases ev with
  | arrive k => exact inv_append c0 s ⟨k, .start⟩ (Or.inl rfl) h
  | step i =>
    simp only [step]
    split
    · rename_i g hg; exact inv_stepG c0 s i g hg h c hc
    · exact h
  | expire k => exact inv_expire c0 s k h
  | pad => exact inv_append c0 s ⟨0, .gone⟩ (Or.inr rfl) h
  | nop => exact h

theorem inv_exec (c0 : Nat → Option Nat) (c : Cfg) (hc : c.useLock = true) (sched : List Ev) :
    ∀ s, Inv c0 s → Inv c0 (exec c s sched) := by
  induction sched with
  | nil => intro s h; exact h
  | cons ev r ih => intro s h; exact ih _ (inv_step c0 c hc s ev h)

end CoapVerif.Lemmas.DedupLockN
