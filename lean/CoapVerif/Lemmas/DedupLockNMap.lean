import CoapVerif.Lemmas.DedupLockNStep
/-! Preservation of the invariant by the statements of the modelled `MutexMap` (`TryLock`, `Lock`, `Unlock`). -/
namespace CoapVerif.Lemmas.DedupLockN
open CoapVerif.Model.DedupLockN

theorem upd2_eq (h : Nat → Nat → Entry) (k e : Nat) (en : Entry) (k' e' : Nat) :
    upd h k (upd (h k) e en) k' e' = if k' = k ∧ e' = e then en else h k' e' := by
  unfold upd
  by_cases h1 : k' = k
  · subst h1; by_cases h2 : e' = e <;> simp [h2]
  · simp [h1]

theorem phi2_set {gs : List G} {i : Nat} {g g' : G} {k' : Nat} (hold : isHandled g.pc = false) (hg : gs[i]? = some g)
    (H : ∀ (j : Nat) (x : G), (gs.set i g')[j]? = some x → x.key = k' → isHandled x.pc = false) :
    ∀ (j : Nat) (x : G), gs[j]? = some x → x.key = k' → isHandled x.pc = false := by
  intro j x hj hk
  by_cases hji : j = i
  · subst hji; rw [hg] at hj; cases hj; exact hold
  · apply H j x _ hk
    rw [List.getElem?_set]; simp [Ne.symm hji, hj]

theorem set_self {gs : List G} {i : Nat} {g : G} (g' : G) (hg : gs[i]? = some g) : (gs.set i g')[i]? = some g' := by
  obtain ⟨hi, _⟩ := List.getElem?_eq_some_iff.mp hg
  rw [List.getElem?_set]; simp [hi]

theorem set_ne {gs : List G} {i j : Nat} (g' : G) (hji : j ≠ i) : (gs.set i g')[j]? = gs[j]? := by
  rw [List.getElem?_set]; simp [Ne.symm hji]

/-- all clauses but `held` and `phi2` -/
macro "map_tac'" : tactic => `(tactic| (
  refine ⟨?mapLt, ?mapCnt, ?mapNone, ?wait, ?cs, ?unl, ?held, ?noPanic, ?missNone, ?vals, ?cacheVal, ?phi1, ?phi2⟩
  all_goals simp only [setPc, setEntry, newEntry, upd2_eq, srcs]
  case' mapLt => try grind [upd]
  case' mapCnt => try grind [refP, holdsRef, upd]
  case' mapNone => try grind [refP, holdsRef, upd]
  case' wait => try grind [get_set, upd, refP, holdsRef]
  case' cs => try grind [get_set, inCS, upd, refP, holdsRef]
  case' unl => try grind [get_set, upd]
  case' noPanic => try grind [get_set]
  case' missNone => try grind [get_set, needsMiss, upd]
  case' vals => try grind [get_set, carries, srcs, upd]
  case' cacheVal => try grind [srcs, upd]
  case' phi1 => try grind [srcs, upd]))

theorem inv_unlocking (c0 : Nat → Option Nat) (s : State) (i k e v : Nat) (hg : s.gs[i]? = some ⟨k, .unlocking e v⟩)
    (h : Inv c0 s) (c : Cfg) : Inv c0 (stepG c s i ⟨k, .unlocking e v⟩) := by
  have hr := fun k' g' => refs_set k' s.gs i _ g' hg
  have hw := h.unl i _ e v hg rfl
  simp only at hw
  obtain ⟨h1, h2, h3, h4, h5, h6, h7, h8, h9, h10, h11, h12, h13⟩ := h
  simp only [stepG]
  map_tac'
  case held =>
    intro k' e' j hh
    split at hh
    · cases hh
    · rename_i hne
      obtain ⟨g, hj, hk, hor⟩ := h7 k' e' j hh
      have hji : j ≠ i := by
        rintro rfl
        rw [hg] at hj; cases hj
        rcases hor with ⟨hc, _⟩ | ⟨v', hv⟩
        · simp [inCS] at hc
        · cases hv
          exact hne ⟨hk.symm, rfl⟩
      refine ⟨g, ?_, hk, hor⟩
      rw [List.getElem?_set]; simp [Ne.symm hji, hj]
  case phi2 => exact fun k' hc H => h13 k' hc (phi2_set rfl hg H)

theorem inv_waiting (c0 : Nat → Option Nat) (s : State) (i k e : Nat) (hg : s.gs[i]? = some ⟨k, .waiting e⟩)
    (h : Inv c0 s) (c : Cfg) : Inv c0 (stepG c s i ⟨k, .waiting e⟩) := by
  have hr := fun k' g' => refs_set k' s.gs i _ g' hg
  have hw := h.wait i _ e hg rfl
  simp only at hw
  obtain ⟨h1, h2, h3, h4, h5, h6, h7, h8, h9, h10, h11, h12, h13⟩ := h
  simp only [stepG]
  split
  · map_tac'
    case held =>
      have hs := set_self ⟨k, .locked⟩ hg
      clear h1 h2 h3 h4 h8 h9 h10 h11 h12 h13 hr
      grind [set_ne, inCS]
    case phi2 => exact fun k' hc H => h13 k' hc (phi2_set rfl hg H)
  · exact ⟨h1, h2, h3, h4, h5, h6, h7, h8, h9, h10, h11, h12, h13⟩

theorem inv_replied (c0 : Nat → Option Nat) (s : State) (i k v : Nat) (hg : s.gs[i]? = some ⟨k, .replied v⟩)
    (h : Inv c0 s) (c : Cfg) (hc : c.useLock = true) : Inv c0 (stepG c s i ⟨k, .replied v⟩) := by
  have hr := fun k' g' => refs_set k' s.gs i _ g' hg
  have h2' := fun j x hij hj => refs_two k s.gs i j _ x hij hg hj
  obtain ⟨e, hma, hheld⟩ := h.cs i _ hg rfl
  simp only at hma hheld
  have hlt := h.mapLt k e hma
  have hcnt := h.mapCnt k e hma
  have hpos := refs_pos k s.gs i _ hg (by simp [refP, holdsRef])
  obtain ⟨h1, h2, h3, h4, h5, h6, h7, h8, h9, h10, h11, h12, h13⟩ := h
  simp only [stepG, hc, if_true, unlockRef, hma]
  split
  · map_tac'
    case held =>
      have hs := set_self ⟨k, .unlocking e v⟩ hg
      clear h1 h2 h3 h4 h8 h9 h10 h11 h12 h13 hr h2' hcnt hpos
      grind [set_ne, inCS, upd]
    case phi2 => exact fun k' hc H => h13 k' hc (phi2_set rfl hg H)
  · map_tac'
    case held =>
      have hs := set_self ⟨k, .unlocking e v⟩ hg
      clear h1 h2 h3 h4 h8 h9 h10 h11 h12 h13 hr h2' hcnt hpos
      grind [set_ne, inCS, upd]
    case phi2 => exact fun k' hc H => h13 k' hc (phi2_set rfl hg H)

theorem inv_lockRef (c0 : Nat → Option Nat) (s : State) (i k : Nat) (pc : PC) (hp : pc = .start ∨ pc = .retry)
    (hg : s.gs[i]? = some ⟨k, pc⟩) (h : Inv c0 s) : Inv c0 (lockRef s i k) := by
  have hr := fun k' g' => refs_set k' s.gs i _ g' hg
  obtain ⟨h1, h2, h3, h4, h5, h6, h7, h8, h9, h10, h11, h12, h13⟩ := h
  have hih : isHandled pc = false := by rcases hp with rfl | rfl <;> rfl
  have hrp : ∀ k', refP k' ⟨k, pc⟩ = false := by rcases hp with rfl | rfl <;> simp [refP, holdsRef]
  simp only [hrp] at hr
  unfold lockRef
  split
  · rename_i e hma
    map_tac'
    case held =>
      clear h1 h2 h3 h4 h5 h6 h8 h9 h10 h11 h12 h13 hr
      rcases hp with rfl | rfl <;> grind [set_ne, inCS, upd]
    case phi2 => exact fun k' hc H => h13 k' hc (phi2_set hih hg H)
  · rename_i hma
    map_tac'
    case held =>
      clear h1 h2 h3 h4 h5 h6 h8 h9 h10 h11 h12 h13 hr
      rcases hp with rfl | rfl <;> grind [set_ne, inCS, upd]
    case phi2 => exact fun k' hc H => h13 k' hc (phi2_set hih hg H)

end CoapVerif.Lemmas.DedupLockN
