import CoapVerif.Model.DedupLockN
/-! Message IDs are independent in the n-goroutine model: the projection of a run to one message ID is a run of the system
in which only copies of that message ID exist (the other goroutines are slots that never move). -/
namespace CoapVerif.Lemmas.DedupLockN
open CoapVerif.Model.DedupLockN

/-- a per-key table restricted to key `k` -/
def rk {α : Type} (k : Nat) (f : Nat → α) (d : α) : Nat → α := fun k' => if k' = k then f k' else d

/-- goroutines of other message IDs become slots that never move -/
def hide (k : Nat) (g : G) : G := if g.key = k then g else ⟨0, .gone⟩

/-- What message ID `k` sees of a state. -/
def restrict (k : Nat) (s : State) : State :=
  { gs := s.gs.map (hide k), ma := rk k s.ma none, heap := rk k s.heap (fun _ => ⟨0, none⟩), next := rk k s.next 0,
    cache := rk k s.cache none, runs := rk k s.runs [], exps := rk k s.exps 0 }

/-- What message ID `k` sees of an event: arrivals of other message IDs are empty slots, their expiries nothing. -/
def projEv (k : Nat) : Ev → Ev
  | .arrive k' => if k' = k then .arrive k' else .pad
  | .expire k' => if k' = k then .expire k' else .nop
  | e => e

theorem rk_same {α : Type} (k : Nat) (f : Nat → α) (d : α) : rk k f d k = f k := by simp [rk]

theorem rk_upd_same {α : Type} (k : Nat) (f : Nat → α) (d v : α) : rk k (upd f k v) d = upd (rk k f d) k v := by
  funext x; unfold rk upd; by_cases h : x = k <;> simp [h]

theorem rk_upd_other {α : Type} (k k2 : Nat) (f : Nat → α) (d v : α) (h : k2 ≠ k) : rk k (upd f k2 v) d = rk k f d := by
  funext x; unfold rk upd; by_cases h1 : x = k
  · subst h1; simp [Ne.symm h]
  · simp [h1]

theorem hide_same (k : Nat) (p : PC) : hide k ⟨k, p⟩ = ⟨k, p⟩ := by simp [hide]
theorem hide_other (k k2 : Nat) (p : PC) (h : k2 ≠ k) : hide k ⟨k2, p⟩ = ⟨0, .gone⟩ := by simp [hide, h]

theorem set_same_elem {l : List G} {i : Nat} {x : G} (h : l[i]? = some x) : l.set i x = l := by
  apply List.ext_getElem?
  intro j
  rw [List.getElem?_set]
  by_cases hij : i = j
  · subst hij
    obtain ⟨hi, hx⟩ := List.getElem?_eq_some_iff.mp h
    simp [hi, hx]
  · simp [hij]

theorem restrict_stepG_other (c : Cfg) (k : Nat) (s : State) (i : Nat) (g : G) (hg : s.gs[i]? = some g) (hk : g.key ≠ k) :
    restrict k (stepG c s i g) = restrict k s := by
  obtain ⟨k2, pc⟩ := g
  simp only at hk
  have hm : (s.gs.map (hide k))[i]? = some ⟨0, .gone⟩ := by simp [hg, hide, hk]
  have hset : ∀ p, (s.gs.set i ⟨k2, p⟩).map (hide k) = s.gs.map (hide k) := by
    intro p
    rw [List.map_set, hide_other k k2 p hk]
    exact set_same_elem hm
  cases pc <;> simp only [stepG, lockRef, unlockRef]
  all_goals (repeat' split)
  all_goals simp [restrict, setPc, setEntry, newEntry, hset, rk_upd_other _ _ _ _ _ hk]

theorem restrict_stepG_same (c : Cfg) (k : Nat) (s : State) (i : Nat) (pc : PC) :
    restrict k (stepG c s i ⟨k, pc⟩) = stepG c (restrict k s) i ⟨k, pc⟩ := by
  have hset : ∀ p, (s.gs.set i ⟨k, p⟩).map (hide k) = (s.gs.map (hide k)).set i ⟨k, p⟩ := by
    intro p; rw [List.map_set, hide_same]
  cases pc <;> simp only [stepG, lockRef, unlockRef, restrict, rk_same]
  all_goals (repeat' split)
  all_goals simp_all [setPc, setEntry, newEntry, rk_upd_same, rk_same]

theorem restrict_step (c : Cfg) (k : Nat) (s : State) (ev : Ev) :
    restrict k (step c s ev) = step c (restrict k s) (projEv k ev) := by
  cases ev with
  | arrive k' =>
    by_cases h : k' = k
    · subst h; simp [step, projEv, restrict, hide]
    · simp [step, projEv, restrict, hide, h]
  | expire k' =>
    by_cases h : k' = k
    · subst h; simp [step, projEv, restrict, rk_upd_same, rk_same]
    · simp [step, projEv, restrict, h, rk_upd_other _ _ _ _ _ h]
  | pad => simp [step, projEv, restrict, hide]
  | nop => simp [step, projEv]
  | step i =>
    simp only [step, projEv]
    cases hg : s.gs[i]? with
    | none =>
      have : (restrict k s).gs[i]? = none := by simp [restrict, hg]
      simp [this]
    | some g =>
      by_cases hk : g.key = k
      · obtain ⟨k2, pc⟩ := g
        simp only at hk
        subst hk
        have : (restrict k2 s).gs[i]? = some ⟨k2, pc⟩ := by simp [restrict, hg, hide]
        simp only [this]
        exact restrict_stepG_same c k2 s i pc
      · have : (restrict k s).gs[i]? = some ⟨0, .gone⟩ := by simp [restrict, hg, hide, hk]
        simp only [this, stepG]
        exact restrict_stepG_other c k s i g hg hk

theorem restrict_exec (c : Cfg) (k : Nat) (sched : List Ev) :
    ∀ s, restrict k (exec c s sched) = exec c (restrict k s) (sched.map (projEv k)) := by
  induction sched with
  | nil => intro s; rfl
  | cons ev r ih =>
    intro s
    simp only [exec, List.foldl_cons, List.map_cons] at ih ⊢
    rw [ih, restrict_step]

theorem restrict_init (k : Nat) (c0 : Nat → Option Nat) : restrict k (init c0) = init (rk k c0 none) := by
  simp only [restrict, init, List.map_nil, State.mk.injEq, true_and]
  refine ⟨?_, ?_, ?_, ?_, ?_⟩ <;> (funext x; simp [rk])

end CoapVerif.Lemmas.DedupLockN
