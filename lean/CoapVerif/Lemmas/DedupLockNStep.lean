import CoapVerif.Lemmas.DedupLockN
/-! Preservation of the invariant of `Lemmas/DedupLockN.lean` by every statement of the program and every event. -/
namespace CoapVerif.Lemmas.DedupLockN
open CoapVerif.Model.DedupLockN

macro "inv_tac" : tactic => `(tactic| (
  refine ⟨?_, ?_, ?_, ?_, ?_, ?_, ?_, ?_, ?_, ?_, ?_, ?_, ?_⟩
  all_goals simp only [setPc, setEntry, newEntry]
  all_goals try grind [get_set, refP, holdsRef, inCS, needsMiss, isHandled, carries, srcs, upd]))

theorem needsMiss_inCS (p : PC) (h : needsMiss p = true) : inCS p = true := by cases p <;> simp_all [needsMiss, inCS]

/-- nobody else is between the handler and the store while somebody is in the section -/
theorem nobody_handled {c0 : Nat → Option Nat} {s : State} (h : Inv c0 s) {i : Nat} {g : G} (hg : s.gs[i]? = some g)
    (hc : inCS g.pc = true) (hn : isHandled g.pc = false) :
    ∀ (j : Nat) (g' : G), s.gs[j]? = some g' → g'.key = g.key → isHandled g'.pc = false := by
  intro j g' hj hk
  cases hp : isHandled g'.pc
  · rfl
  · have hc' : inCS g'.pc = true := by cases hq : g'.pc <;> simp_all [isHandled, inCS]
    have := mutex h hg hj hk hc hc'
    subst this
    rw [hg] at hj
    cases hj
    rw [hn] at hp
    cases hp

theorem inv_miss (c0 : Nat → Option Nat) (s : State) (i k : Nat) (hg : s.gs[i]? = some ⟨k, .miss⟩)
    (h : Inv c0 s) (c : Cfg) : Inv c0 (stepG c s i ⟨k, .miss⟩) := by
  have hr := fun k' g' => refs_set k' s.gs i _ g' hg
  have hm := fun j g' => mutex h (j := j) (g' := g') hg
  have hnh := nobody_handled h hg rfl rfl
  obtain ⟨h1, h2, h3, h4, h5, h6, h7, h8, h9, h10, h11, h12, h13⟩ := h
  simp only [stepG]
  inv_tac

theorem inv_locked (c0 : Nat → Option Nat) (s : State) (i k : Nat) (hg : s.gs[i]? = some ⟨k, .locked⟩)
    (h : Inv c0 s) (c : Cfg) : Inv c0 (stepG c s i ⟨k, .locked⟩) := by
  have hr := fun k' g' => refs_set k' s.gs i _ g' hg
  have hnh := nobody_handled h hg rfl rfl
  obtain ⟨h1, h2, h3, h4, h5, h6, h7, h8, h9, h10, h11, h12, h13⟩ := h
  simp only [stepG]
  split
  all_goals inv_tac

theorem inv_handled (c0 : Nat → Option Nat) (s : State) (i k v : Nat) (hg : s.gs[i]? = some ⟨k, .handled v⟩)
    (h : Inv c0 s) (c : Cfg) : Inv c0 (stepG c s i ⟨k, .handled v⟩) := by
  have hr := fun k' g' => refs_set k' s.gs i _ g' hg
  have hm := fun j g' => mutex h (j := j) (g' := g') hg
  obtain ⟨h1, h2, h3, h4, h5, h6, h7, h8, h9, h10, h11, h12, h13⟩ := h
  simp only [stepG]
  split
  all_goals inv_tac
  intro j g' hj hn
  rcases get_set hj with ⟨rfl, rfl⟩ | ⟨hne, hj'⟩
  · simp [needsMiss] at hn
  · by_cases hk : g'.key = k
    · have := hm j g' hj' hk rfl (needsMiss_inCS _ hn)
      exact (hne this).elim
    · simpa [upd, hk] using h9 j g' hj' hn

end CoapVerif.Lemmas.DedupLockN
