import CoapVerif.Model.DedupLock
import CoapVerif.Lemmas.DedupLockNInv
/-! The two-goroutine model `Model/DedupLock.lean` is the n = 2, one-message-ID instance of `Model/DedupLockN.lean`, seen at a
coarser grain: every statement of the fine model is either invisible to the coarse one or one statement of it. -/
namespace CoapVerif.Lemmas.DedupLockN
open CoapVerif.Model.DedupLockN

def absPC : PC → Model.DedupLock.PC
  | .start | .retry | .waiting _ => .idle
  | .locked => .locked
  | .miss => .miss
  | .handled _ => .handled
  | .replied _ => .replied
  | .unlocking _ _ | .done _ | .panicked | .gone => .done

def pcAt (s : State) (i : Nat) : PC := match s.gs[i]? with | some g => g.pc | none => .gone

/-- The coarse view of a state with two copies (goroutines 0 and 1) of message ID `k`. -/
def abs2 (k : Nat) (s : State) : Model.DedupLock.State :=
  ⟨absPC (pcAt s 0), absPC (pcAt s 1),
   if inCS (pcAt s 0) then some false else if inCS (pcAt s 1) then some true else none,
   (s.cache k).isSome, (s.runs k).length⟩

def two (k : Nat) (s : State) : Prop := ∃ p0 p1, s.gs = [⟨k, p0⟩, ⟨k, p1⟩]

theorem sim0 (c0 : Nat → Option Nat) (c : Cfg) (hc : c.useLock = true) (k : Nat) (s : State) (hI : Inv c0 s) (p0 p1 : PC)
    (hgs : s.gs = [⟨k, p0⟩, ⟨k, p1⟩]) :
    (abs2 k (step c s (.step 0)) = abs2 k s ∨ abs2 k (step c s (.step 0)) = Model.DedupLock.step true (abs2 k s) false) ∧
    two k (step c s (.step 0)) := by
  have h0 : s.gs[0]? = some ⟨k, p0⟩ := by simp [hgs]
  have h1 : s.gs[1]? = some ⟨k, p1⟩ := by simp [hgs]
  have hmx : inCS p0 = true → inCS p1 = true → False := fun a b => by
    have := mutex hI h0 h1 rfl a b
    omega
  simp only [step, h0]
  cases p0
  case locked =>
    have hn : inCS p1 = false := by cases h : inCS p1 <;> simp_all [inCS]
    simp only [stepG]
    split <;> simp_all [setPc, abs2, pcAt, two, absPC, inCS, Model.DedupLock.step, Model.DedupLock.pc, Model.DedupLock.setPc]
  case miss =>
    have hn : inCS p1 = false := by cases h : inCS p1 <;> simp_all [inCS]
    simp_all [stepG, setPc, abs2, pcAt, two, absPC, inCS, Model.DedupLock.step, Model.DedupLock.pc, Model.DedupLock.setPc, upd]
  case handled v =>
    have hn : inCS p1 = false := by cases h : inCS p1 <;> simp_all [inCS]
    simp only [stepG]
    split <;> simp_all [setPc, abs2, pcAt, two, absPC, inCS, Model.DedupLock.step, Model.DedupLock.pc, Model.DedupLock.setPc, upd]
  case done v => exact ⟨Or.inl rfl, _, _, hgs⟩
  case panicked => exact ⟨Or.inl rfl, _, _, hgs⟩
  case gone => exact ⟨Or.inl rfl, _, _, hgs⟩
  case unlocking e v =>
    simp_all [stepG, setPc, setEntry, abs2, pcAt, two, absPC, inCS]
  case retry =>
    simp only [stepG, lockRef]
    split <;> simp_all [setPc, setEntry, newEntry, abs2, pcAt, two, absPC, inCS]
  case start =>
    simp only [stepG, hc, if_true, lockRef]
    split
    · split
      · simp_all [setPc, abs2, pcAt, two, absPC, inCS]
      · rename_i hma
        have hr := hI.mapNone k hma
        have hn : inCS p1 = false := by
          cases p1 <;> simp_all [refs, refP, holdsRef, inCS]
        simp_all [setPc, setEntry, newEntry, abs2, pcAt, two, absPC, inCS, Model.DedupLock.step, Model.DedupLock.pc,
          Model.DedupLock.setPc]
    · split <;> simp_all [setPc, setEntry, newEntry, abs2, pcAt, two, absPC, inCS]
  case waiting e =>
    simp only [stepG]
    split
    · rename_i hh
      have hw := hI.wait 0 _ e h0 rfl
      have hn : inCS p1 = false := by
        cases h : inCS p1
        · rfl
        · obtain ⟨e', he', hh'⟩ := hI.cs 1 _ h1 h
          simp only at hw he' hh'
          rw [hw] at he'; cases he'
          rw [hh] at hh'; cases hh'
      simp_all [setPc, setEntry, abs2, pcAt, two, absPC, inCS, Model.DedupLock.step, Model.DedupLock.pc, Model.DedupLock.setPc]
    · exact ⟨Or.inl rfl, _, _, hgs⟩
  case replied v =>
    have hn : inCS p1 = false := by cases h : inCS p1 <;> simp_all [inCS]
    obtain ⟨e, he, _⟩ := hI.cs 0 _ h0 rfl
    simp only at he
    simp only [stepG, hc, if_true, unlockRef, he]
    split <;> simp_all [setPc, setEntry, abs2, pcAt, two, absPC, inCS, Model.DedupLock.step, Model.DedupLock.pc,
      Model.DedupLock.setPc]

theorem sim1 (c0 : Nat → Option Nat) (c : Cfg) (hc : c.useLock = true) (k : Nat) (s : State) (hI : Inv c0 s) (p0 p1 : PC)
    (hgs : s.gs = [⟨k, p0⟩, ⟨k, p1⟩]) :
    (abs2 k (step c s (.step 1)) = abs2 k s ∨ abs2 k (step c s (.step 1)) = Model.DedupLock.step true (abs2 k s) true) ∧
    two k (step c s (.step 1)) := by
  have h0 : s.gs[0]? = some ⟨k, p0⟩ := by simp [hgs]
  have h1 : s.gs[1]? = some ⟨k, p1⟩ := by simp [hgs]
  have hmx : inCS p0 = true → inCS p1 = true → False := fun a b => by
    have := mutex hI h0 h1 rfl a b
    omega
  simp only [step, h1]
  cases p1
  case locked =>
    have hn : inCS p0 = false := by cases h : inCS p0 <;> simp_all [inCS]
    simp only [stepG]
    split <;> simp_all [setPc, abs2, pcAt, two, absPC, inCS, Model.DedupLock.step, Model.DedupLock.pc, Model.DedupLock.setPc]
  case miss =>
    have hn : inCS p0 = false := by cases h : inCS p0 <;> simp_all [inCS]
    simp_all [stepG, setPc, abs2, pcAt, two, absPC, inCS, Model.DedupLock.step, Model.DedupLock.pc, Model.DedupLock.setPc, upd]
  case handled v =>
    have hn : inCS p0 = false := by cases h : inCS p0 <;> simp_all [inCS]
    simp only [stepG]
    split <;> simp_all [setPc, abs2, pcAt, two, absPC, inCS, Model.DedupLock.step, Model.DedupLock.pc, Model.DedupLock.setPc, upd]
  case done v => exact ⟨Or.inl rfl, _, _, hgs⟩
  case panicked => exact ⟨Or.inl rfl, _, _, hgs⟩
  case gone => exact ⟨Or.inl rfl, _, _, hgs⟩
  case unlocking e v =>
    simp_all [stepG, setPc, setEntry, abs2, pcAt, two, absPC, inCS]
  case retry =>
    simp only [stepG, lockRef]
    split <;> simp_all [setPc, setEntry, newEntry, abs2, pcAt, two, absPC, inCS]
  case start =>
    simp only [stepG, hc, if_true, lockRef]
    split
    · split
      · simp_all [setPc, abs2, pcAt, two, absPC, inCS]
      · rename_i hma
        have hr := hI.mapNone k hma
        have hn : inCS p0 = false := by
          cases p0 <;> simp_all [refs, refP, holdsRef, inCS]
        simp_all [setPc, setEntry, newEntry, abs2, pcAt, two, absPC, inCS, Model.DedupLock.step, Model.DedupLock.pc,
          Model.DedupLock.setPc]
    · split <;> simp_all [setPc, setEntry, newEntry, abs2, pcAt, two, absPC, inCS]
  case waiting e =>
    simp only [stepG]
    split
    · rename_i hh
      have hw := hI.wait 1 _ e h1 rfl
      have hn : inCS p0 = false := by
        cases h : inCS p0
        · rfl
        · obtain ⟨e', he', hh'⟩ := hI.cs 0 _ h0 h
          simp only at hw he' hh'
          rw [hw] at he'; cases he'
          rw [hh] at hh'; cases hh'
      simp_all [setPc, setEntry, abs2, pcAt, two, absPC, inCS, Model.DedupLock.step, Model.DedupLock.pc, Model.DedupLock.setPc]
    · exact ⟨Or.inl rfl, _, _, hgs⟩
  case replied v =>
    have hn : inCS p0 = false := by cases h : inCS p0 <;> simp_all [inCS]
    obtain ⟨e, he, _⟩ := hI.cs 1 _ h1 rfl
    simp only at he
    simp only [stepG, hc, if_true, unlockRef, he]
    split <;> simp_all [setPc, setEntry, abs2, pcAt, two, absPC, inCS, Model.DedupLock.step, Model.DedupLock.pc,
      Model.DedupLock.setPc]

/-- goroutine 0 / 1 executes its next statement -/
def stepOf (b : Bool) : Ev := .step (if b then 1 else 0)

theorem two_refines (c0 : Nat → Option Nat) (c : Cfg) (hc : c.useLock = true) (k : Nat) (cached0 : Bool) :
    ∀ (bs : List Bool) (s : State) (sched0 : List Bool), Inv c0 s → two k s →
      abs2 k s = Model.DedupLock.exec true (Model.DedupLock.init cached0) sched0 →
      ∃ sched, abs2 k (exec c s (bs.map stepOf)) = Model.DedupLock.exec true (Model.DedupLock.init cached0) sched := by
  intro bs
  induction bs with
  | nil => intro s sched0 _ _ h; exact ⟨sched0, h⟩
  | cons b r ih =>
    intro s sched0 hI ⟨p0, p1, hgs⟩ h
    have hI' := inv_step c0 c hc s (stepOf b) hI
    simp only [List.map_cons, exec, List.foldl_cons]
    have hs : (abs2 k (step c s (stepOf b)) = abs2 k s ∨
        abs2 k (step c s (stepOf b)) = Model.DedupLock.step true (abs2 k s) b) ∧ two k (step c s (stepOf b)) := by
      cases b
      · exact sim0 c0 c hc k s hI p0 p1 hgs
      · exact sim1 c0 c hc k s hI p0 p1 hgs
    obtain ⟨hor, ht⟩ := hs
    rcases hor with he | he
    · exact ih _ sched0 hI' ht (he.trans h)
    · refine ih _ (sched0 ++ [b]) hI' ht ?_
      rw [he, h]
      simp [Model.DedupLock.exec, List.foldl_append]

theorem two_init (c0 : Nat → Option Nat) (c : Cfg) (k : Nat) :
    abs2 k (exec c (init c0) [.arrive k, .arrive k]) = Model.DedupLock.init (c0 k).isSome ∧
    two k (exec c (init c0) [.arrive k, .arrive k]) := by
  constructor
  · simp [exec, step, init, abs2, pcAt, absPC, inCS, Model.DedupLock.init]
  · exact ⟨.start, .start, by simp [exec, step, init]⟩

end CoapVerif.Lemmas.DedupLockN
