import CoapVerif.Model.Framing
/-! Helper lemmas for C07: results of the header parser are stable under appending more bytes, and
the accumulate-then-parse loop commutes with receiving bytes later. Core Lean only. -/
namespace CoapVerif.Lemmas.Framing
open CoapVerif.Model.Framing

theorem getD_append_left (bs c : Bytes) (i : Nat) (d : UInt8) (h : i < bs.length) :
    (bs ++ c).getD i d = bs.getD i d := by
  simp [List.getD, List.getElem?_append_left h]

theorem lenField_append {n : Nat} {r : Bytes} {x : Nat × Nat} (c : Bytes) (h : lenField n r = some x) :
    lenField n (r ++ c) = some x := by
  unfold lenField at h ⊢
  by_cases h1 : n < Generated.TcpFraming.len13Base
  · simp only [h1, ↓reduceIte] at h ⊢; exact h
  · simp only [h1, ↓reduceIte] at h ⊢
    by_cases h2 : n = 13
    · simp only [h2, ↓reduceIte] at h ⊢
      cases r with
      | nil => simp at h
      | cons b t => simpa using h
    · simp only [h2, ↓reduceIte] at h ⊢
      by_cases h3 : n = 14
      · simp only [h3, ↓reduceIte] at h ⊢
        match r, h with
        | b0 :: b1 :: t, h => simpa using h
      · simp only [h3, ↓reduceIte] at h ⊢
        by_cases h4 : n = 15
        · simp only [h4, ↓reduceIte] at h ⊢
          match r, h with
          | b0 :: b1 :: b2 :: b3 :: t, h => simpa using h
        · simp only [h4, ↓reduceIte] at h ⊢; exact h

theorem mkHdr_append_ok {bs : Bytes} {tkl a b : Nat} {h : Hdr} (c : Bytes) (e : mkHdr bs tkl a b = .ok h) :
    mkHdr (bs ++ c) tkl a b = .ok h := by
  unfold mkHdr at e ⊢
  split at e
  · cases e
  · rename_i h1
    split at e
    · cases e
    · rename_i h2
      split at e
      · cases e
      · rename_i h3
        have l : (bs ++ c).length = bs.length + c.length := List.length_append
        have g : (bs ++ c).getD a 0 = bs.getD a 0 := getD_append_left bs c a 0 (by omega)
        have n2 : ¬ (bs ++ c).length < a + 1 := by omega
        have n3 : ¬ (bs ++ c).length < a + 1 + tkl := by omega
        simp only [h1, n2, n3, if_false, g]
        exact e

theorem mkHdr_append_invalid {bs : Bytes} {tkl a b : Nat} (c : Bytes) (e : mkHdr bs tkl a b = .invalid) :
    mkHdr (bs ++ c) tkl a b = .invalid := by
  unfold mkHdr at e ⊢
  split at e
  · rename_i h1; simp [h1]
  · split at e
    · cases e
    · split at e <;> cases e

theorem decodeHeader_append_ok {bs : Bytes} {h : Hdr} (c : Bytes) (e : decodeHeader bs = .ok h) :
    decodeHeader (bs ++ c) = .ok h := by
  unfold decodeHeader at e
  cases bs with
  | nil => simp at e
  | cons first rest =>
    simp only at e
    split at e
    · cases e
    · rename_i htk
      split at e
      · cases e
      · rename_i a b hl
        have := lenField_append c hl
        simp only [List.cons_append, decodeHeader, this, htk, if_false]
        exact mkHdr_append_ok c e

theorem decodeHeader_append_invalid {bs : Bytes} (c : Bytes) (e : decodeHeader bs = .invalid) :
    decodeHeader (bs ++ c) = .invalid := by
  unfold decodeHeader at e
  cases bs with
  | nil => simp at e
  | cons first rest =>
    simp only at e
    split at e
    · rename_i htk
      simp only [List.cons_append, decodeHeader, htk, if_true]
    · rename_i htk
      split at e
      · cases e
      · rename_i a b hl
        have := lenField_append c hl
        simp only [List.cons_append, decodeHeader, this, htk, if_false]
        exact mkHdr_append_invalid c e

theorem proc_short {max : Nat} {buf : Bytes} {out : List Msg} (h : decodeHeader buf = .short) :
    proc max buf out = ⟨buf, out, false⟩ := by
  rw [proc]; split <;> simp_all

theorem proc_invalid {max : Nat} {buf : Bytes} {out : List Msg} (h : decodeHeader buf = .invalid) :
    proc max buf out = ⟨buf, out, true⟩ := by
  rw [proc]; split <;> simp_all

theorem proc_ok {max : Nat} {buf : Bytes} {out : List Msg} {hd : Hdr} (h : decodeHeader buf = .ok hd) :
    proc max buf out =
      if hd.msgLen > max then ⟨buf, out, true⟩
      else if buf.length < hd.msgLen then ⟨buf, out, false⟩
      else match decodeFrame (buf.take hd.msgLen) with
        | none => ⟨buf, out, true⟩
        | some m => proc max (buf.drop hd.msgLen) (out ++ [m]) := by
  rw [proc]
  split
  · simp_all
  · simp_all
  · rename_i hd' heq
    rw [h] at heq
    injection heq with heq
    subst heq
    rfl

/-- Key commutation: bytes that arrive after a `processBuffer` pass lead to the same state as if they had
    been in the buffer from the start (as long as the first pass did not close the connection). -/
theorem proc_append (max : Nat) (buf : Bytes) (out : List Msg) (c : Bytes) :
    (proc max buf out).closed = false →
      proc max ((proc max buf out).buf ++ c) (proc max buf out).out = proc max (buf ++ c) out := by
  fun_induction proc max buf out with
  | case1 buf out hh => intro _; rfl
  | case2 buf out hh => intro h; simp at h
  | case3 buf out hd hh hgt => intro h; simp at h
  | case4 buf out hd hh hgt hlt => intro _; rfl
  | case5 buf out hd hh hgt hlt hdec => intro h; simp at h
  | case6 buf out hd hh hgt hlt m hdec ih =>
    intro hcl
    rw [ih hcl]
    have hok := decodeHeader_append_ok c hh
    have hle : hd.msgLen ≤ buf.length := by omega
    have n2 : ¬ (buf ++ c).length < hd.msgLen := by simp [List.length_append]; omega
    rw [proc_ok (max := max) (out := out) hok]
    simp only [hgt, n2, ↓reduceIte]
    rw [List.take_append_of_le_length hle, hdec, List.drop_append_of_le_length hle]

/-- Once a pass closes the connection, so does the pass over any extension, with the same deliveries. -/
theorem proc_closed_append (max : Nat) (buf : Bytes) (out : List Msg) (c : Bytes) :
    (proc max buf out).closed = true →
      (proc max (buf ++ c) out).closed = true ∧ (proc max (buf ++ c) out).out = (proc max buf out).out := by
  fun_induction proc max buf out with
  | case1 buf out hh => intro h; simp at h
  | case2 buf out hh =>
    intro _
    rw [proc_invalid (decodeHeader_append_invalid c hh)]
    simp
  | case3 buf out hd hh hgt =>
    intro _
    rw [proc_ok (decodeHeader_append_ok c hh)]
    simp [hgt]
  | case4 buf out hd hh hgt hlt => intro h; simp at h
  | case5 buf out hd hh hgt hlt hdec =>
    intro _
    have hle : hd.msgLen ≤ buf.length := by omega
    have n2 : ¬ (buf ++ c).length < hd.msgLen := by simp [List.length_append]; omega
    rw [proc_ok (decodeHeader_append_ok c hh)]
    simp only [hgt, n2, ↓reduceIte]
    rw [List.take_append_of_le_length hle, hdec]
    simp
  | case6 buf out hd hh hgt hlt m hdec ih =>
    intro hcl
    have hle : hd.msgLen ≤ buf.length := by omega
    have n2 : ¬ (buf ++ c).length < hd.msgLen := by simp [List.length_append]; omega
    rw [proc_ok (decodeHeader_append_ok c hh)]
    simp only [hgt, n2, ↓reduceIte]
    rw [List.take_append_of_le_length hle, hdec, List.drop_append_of_le_length hle]
    exact ih hcl

end CoapVerif.Lemmas.Framing
