import CoapVerif.Props.C07
import CoapVerif.Lemmas.CoderRoundTrip
import CoapVerif.Lemmas.RefParser
/-!
Link between the stream-framing model of C07 (`Model/Framing.lean`: `decodeHeader`, `walkOpts`, `decodeFrame`,
predicate `Props.C07.WellFramed`) and the codec models/specification of C01/C02 (`tcpHdr`, `decLoop`, `encTcp`):

* `decodeHeader_of_tcpHdr`, `walkOpts_of_decLoop`: whatever the C01/C02 list-level decoder accepts, the framing
  model accepts with the same header fields / the same payload position;
* `encTcp_wellFramed`: the RFC 8323 encoding of every well-formed message is a `WellFramed` frame of C07 and
  `Framing.decodeFrame` returns exactly its code, token and payload — so C07's "exactly the sent messages"
  (`run_delivers_sent`) applies to real encoded messages, not only to frames assumed well-framed.
Neither model is changed.
-/
set_option linter.unusedVariables false
set_option linter.unusedSimpArgs false
namespace CoapVerif.Lemmas.FramingCodecLink
open CoapVerif.Spec.Wire
open CoapVerif.Model CoapVerif.Model.OptionCodec
open CoapVerif.Lemmas.OptionCodec CoapVerif.Lemmas.OptionRoundTrip CoapVerif.Lemmas.CoderDecode
open CoapVerif.Lemmas.CoderRoundTrip
open CoapVerif.Generated.TcpFraming

/-- Extended length: the two models agree, and the codec model's rest is the input minus `off - 1` bytes. -/
theorem lenField_of_tcpExt {nib : Nat} {t t' : Bytes} {opLen off : Nat} (h : tcpExt nib t = .ok (opLen, t', off)) :
    Framing.lenField nib t = some (off, opLen) ∧ ∃ pre, t = pre ++ t' ∧ pre.length + 1 = off := by
  unfold tcpExt at h
  unfold Framing.lenField
  simp only [len13Base, len14Base, len15Base]
  split at h
  · rename_i h13
    simp at h; obtain ⟨rfl, rfl, rfl⟩ := h
    exact ⟨by simp [h13], [], rfl, rfl⟩
  · rename_i h13
    split at h
    · rename_i e13
      cases t with
      | nil => simp at h
      | cons e r =>
        simp at h; obtain ⟨rfl, rfl, rfl⟩ := h
        exact ⟨by simp [e13], [e], rfl, rfl⟩
    · rename_i e13
      split at h
      · rename_i e14
        match t, h with
        | [], h => simp at h
        | [_], h => simp at h
        | e0 :: e1 :: r, h =>
          simp at h; obtain ⟨rfl, rfl, rfl⟩ := h
          exact ⟨by simp [e14], [e0, e1], rfl, rfl⟩
      · rename_i e14
        split at h
        · rename_i e15
          match t, h with
          | [], h => simp at h
          | [_], h => simp at h
          | [_, _], h => simp at h
          | [_, _, _], h => simp at h
          | e0 :: e1 :: e2 :: e3 :: r, h =>
            simp at h; obtain ⟨rfl, rfl, rfl⟩ := h
            refine ⟨?_, [e0, e1, e2, e3], rfl, rfl⟩
            simp [e15]; omega
        · rename_i e15
          simp at h; obtain ⟨rfl, rfl, rfl⟩ := h
          exact ⟨by simp [h13, e13, e14, e15], [], rfl, rfl⟩

/-- Header pre-parse: an accepted header of the codec model is the accepted header of the framing model. -/
theorem decodeHeader_of_tcpHdr {bs : Bytes} {h : TcpCoder.Header} (hh : tcpHdr bs = .ok h) :
    Framing.decodeHeader bs = .ok ⟨h.length, h.messageLength, h.code, h.token.length⟩ := by
  unfold tcpHdr at hh
  cases bs with
  | nil => simp at hh
  | cons b t =>
    simp only at hh
    split at hh
    · cases hh
    · rename_i htk
      split at hh
      · cases hh
      · rename_i opLen t' off hext
        obtain ⟨hlf, pre, hpre, hoff⟩ := lenField_of_tcpExt hext
        unfold Framing.decodeHeader
        have htk' : ¬ (b.toNat % 16 > maxTokenSize) := by simp [maxTokenSize]; omega
        simp only [headerChecksTkl, Bool.true_and, htk', decide_false, Bool.false_eq_true, ↓reduceIte, hlf]
        unfold tcpHdrRest at hh
        unfold Framing.mkHdr
        split at hh
        · cases hh
        · rename_i hml
          simp only [hml, ↓reduceIte]
          cases t' with
          | nil => simp at hh
          | cons code r =>
            simp only at hh
            split at hh
            · cases hh
            · rename_i hr
              injection hh with hh; subst hh
              subst hpre
              have l1 : ¬ ((b :: (pre ++ code :: r)).length < off + 1) := by simp; omega
              have l2 : ¬ ((b :: (pre ++ code :: r)).length < off + 1 + b.toNat % 16) := by simp; omega
              simp only [l1, l2, ↓reduceIte, List.length_take]
              have hg : (b :: (pre ++ code :: r)).getD off 0 = code := by
                rw [← hoff]
                simp [List.getD_eq_getElem?_getD]
              have hmin : min (b.toNat % 16) r.length = b.toNat % 16 := by omega
              rw [hg, hmin]

/-- The codec's extension parser and the framing model's are the same function. -/
theorem parseExt_eq_decExt (opt : Nat) (bs : Bytes) :
    Framing.parseExt opt bs = match decExt opt bs with | .ok r => some r | .error _ => none := by
  unfold Framing.parseExt decExt
  simp only [extByteCode, extWordCode, extByteAddend, extWordAddend]
  by_cases h13 : opt = 13
  · subst h13; cases bs <;> simp
  · by_cases h14 : opt = 14
    · subst h14
      match bs with
      | [] => simp
      | [_] => simp
      | _ :: _ :: _ => simp
    · simp [h13, h14]

/-- Unfolding of `walkOpts` without equation binders. -/
theorem walkOpts_cons (prev : Nat) (b : UInt8) (t : Bytes) :
    Framing.walkOpts prev (b :: t) =
      if b = 0xff then some t else
      if b.toNat / 16 = 15 ∨ b.toNat % 16 = 15 then none else
      match Framing.parseExt (b.toNat / 16) t with
      | none => none
      | some (delta, t1) =>
        match Framing.parseExt (b.toNat % 16) t1 with
        | none => none
        | some (len, t2) =>
          if t2.length < len then none
          else if prev + delta > 65535 then none
          else Framing.walkOpts (prev + delta) (t2.drop len) := by
  rw [Framing.walkOpts.eq_def]
  simp only [extError]
  by_cases hff : b = 0xff
  · simp [hff]
  · simp only [hff, ↓reduceIte]
    by_cases hm : b.toNat / 16 = 15 ∨ b.toNat % 16 = 15
    · simp [hm]
    · simp only [hm, ↓reduceIte]
      cases hd : Framing.parseExt (b.toNat / 16) t with
      | none => rfl
      | some r1 =>
        obtain ⟨d, t1⟩ := r1
        simp only []
        cases hl2 : Framing.parseExt (b.toNat % 16) t1 with
        | none => rfl
        | some r2 => rfl

/-- Option area: whatever the codec loop accepts, the framing model accepts with the same payload. -/
theorem walkOpts_of_decLoop (defs : Defs) (cap n prev : Nat) (bs : Bytes) (os : List Opt) (rest : Bytes)
    (h : decLoop defs cap n prev bs = .ok (os, rest)) : Framing.walkOpts prev bs = some rest := by
  induction hl : bs.length using Nat.strongRecOn generalizing n prev bs os rest with
  | _ len ih =>
    subst hl
    cases bs with
    | nil =>
      rw [decLoop.eq_def] at h; simp at h; obtain ⟨_, rfl⟩ := h
      rw [Framing.walkOpts.eq_def]
    | cons b t =>
      rw [CoapVerif.Lemmas.RefParser.decLoop_cons] at h
      rw [walkOpts_cons]
      by_cases hff : b = 0xff
      · simp [hff] at h ⊢; exact h.2
      · simp only [hff, ↓reduceIte] at h ⊢
        by_cases hm : b.toNat / 16 = 15 ∨ b.toNat % 16 = 15
        · simp [hm] at h
        · simp only [hm, ↓reduceIte] at h ⊢
          rw [parseExt_eq_decExt]
          cases hd : decExt (b.toNat / 16) t with
          | error e => simp [hd] at h
          | ok r1 =>
            obtain ⟨delta, t1⟩ := r1
            simp only [hd] at h ⊢
            rw [parseExt_eq_decExt]
            cases hl2 : decExt (b.toNat % 16) t1 with
            | error e => simp [hl2] at h
            | ok r2 =>
              obtain ⟨len', t2⟩ := r2
              simp only [hl2] at h ⊢
              by_cases hlen : t2.length < len'
              · simp [hlen] at h
              · simp only [hlen, ↓reduceIte] at h ⊢
                by_cases hov : prev + delta > 65535
                · simp [hov] at h
                · simp only [hov, ↓reduceIte] at h ⊢
                  by_cases hc : cap = n
                  · simp [hc] at h
                  · simp only [hc, ↓reduceIte] at h
                    have l1 := decExt_len hd
                    have l2 := decExt_len hl2
                    have hlt : (t2.drop len').length < (b :: t).length := by simp; omega
                    cases hrec : decLoop defs cap
                        (if (keepOpt defs (prev + delta) (List.take len' t2)).isSome = true then n + 1 else n)
                        (prev + delta) (t2.drop len') with
                    | error e => simp [hrec] at h
                    | ok r3 =>
                      obtain ⟨os', rest'⟩ := r3
                      simp only [hrec, Except.ok.injEq, Prod.mk.injEq] at h
                      obtain ⟨_, rfl⟩ := h
                      exact ih _ hlt _ _ _ _ _ hrec rfl

/-- **The encoding of every well-formed message is a well-framed frame of C07**, and the framing model decodes it
to exactly the message's code, token and payload. -/
theorem encTcp_wellFramed (m : Msg) (hwf : WF .tcp m = true) (max : Nat) (hmax : (encTcp m).length ≤ max) :
    Props.C07.WellFramed max (encTcp m) ∧
    Framing.decodeFrame (encTcp m) = some ⟨m.code, m.token, m.payload⟩ := by
  have hwf' := hwf
  simp only [WF, Bool.and_eq_true, decide_eq_true_eq] at hwf'
  obtain ⟨⟨⟨htk, hcode⟩, hopts⟩, hb⟩ := hwf'
  have hh := tcpHdr_encTcp m htk hcode hb []
  simp only [List.append_nil] at hh
  have hdh := decodeHeader_of_tcpHdr hh
  simp only at hdh
  -- the frame split at the end of the fixed header and at the start of the token
  have hsplit : encTcp m = (UInt8.ofNat (lenNib (encBody m).length * 16 + m.token.length) ::
      (extLen (encBody m).length ++ [UInt8.ofNat m.code])) ++ (m.token ++ encBody m) := by
    unfold encTcp; simp
  have hpre : (UInt8.ofNat (lenNib (encBody m).length * 16 + m.token.length) ::
      (extLen (encBody m).length ++ [UInt8.ofNat m.code])).length = 1 + (extLen (encBody m).length).length + 1 := by
    simp; omega
  have hbody : (encTcp m).drop (1 + (extLen (encBody m).length).length + 1 + m.token.length) = encBody m := by
    rw [hsplit, ← hpre, ← List.drop_drop, List.drop_left' rfl, List.drop_left' rfl]
  have htoken : ((encTcp m).drop (1 + (extLen (encBody m).length).length + 1 + m.token.length - m.token.length)).take
      m.token.length = m.token := by
    rw [Nat.add_sub_cancel, hsplit, ← hpre, List.drop_left' rfl, List.take_left' rfl]
  have hwalk : Framing.walkOpts 0 (encBody m) = some m.payload := by
    rw [← defsFor_regOf] at hopts
    have := decLoop_encOpts (TcpCoder.defsFor m.code) (defsFor_noUnknown m.code) m.options m.payload
      m.options.length 0 0 hopts (by omega)
    exact walkOpts_of_decLoop _ _ _ _ _ _ _ this
  have hframe : Framing.decodeFrame (encTcp m) = some ⟨m.code, m.token, m.payload⟩ := by
    unfold Framing.decodeFrame
    simp only [hdh, Nat.lt_irrefl, ↓reduceIte, hbody, hwalk, htoken]
  exact ⟨⟨_, _, hdh, rfl, hmax, hframe⟩, hframe⟩

/-- Consequence for C07's main theorem: a stream that is the concatenation of encodings of well-formed messages, cut
into chunks in any way, delivers exactly those messages (code, token, payload), in order, and stays open. -/
theorem run_delivers_encoded (max : Nat) (ms : List Msg) (cs : List Bytes)
    (hwf : ∀ m ∈ ms, WF .tcp m = true ∧ (encTcp m).length ≤ max)
    (hc : cs.flatten = (ms.map encTcp).flatten) :
    (Framing.run max cs).obs = (ms.map fun m => (⟨m.code, m.token, m.payload⟩ : Framing.Msg), false) := by
  have hf : ∀ f ∈ ms.map encTcp, Props.C07.WellFramed max f := by
    intro f hfm
    obtain ⟨m, hm, rfl⟩ := List.mem_map.mp hfm
    exact (encTcp_wellFramed m (hwf m hm).1 max (hwf m hm).2).1
  have := (Props.C07.run_delivers_sent max (ms.map encTcp) cs hf hc).1
  rw [this]
  congr 1
  clear this hf hc
  induction ms with
  | nil => rfl
  | cons m ms ih =>
    have h1 := (encTcp_wellFramed m (hwf m (by simp)).1 max (hwf m (by simp)).2).2
    simp only [List.map_cons, List.filterMap_cons, h1]
    rw [ih (fun x hx => hwf x (by simp [hx]))]

end CoapVerif.Lemmas.FramingCodecLink

section Audit
open CoapVerif.Lemmas.FramingCodecLink
#print axioms lenField_of_tcpExt
#print axioms decodeHeader_of_tcpHdr
#print axioms parseExt_eq_decExt
#print axioms walkOpts_cons
#print axioms walkOpts_of_decLoop
#print axioms encTcp_wellFramed
#print axioms run_delivers_encoded
end Audit
