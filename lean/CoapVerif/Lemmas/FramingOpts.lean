import CoapVerif.Model.FramingOpts
import CoapVerif.Lemmas.Framing
/-! Lemmas about `Model/FramingOpts.lean: procO` — the commutation lemmas of `Lemmas/Framing.lean` for the pass that
delivers messages with their options, and its projection onto `Framing.proc`. -/
namespace CoapVerif.Lemmas.FramingOpts
open CoapVerif.Model.Framing CoapVerif.Model.FramingOpts CoapVerif.Lemmas.Framing

theorem procO_short {max : Nat} {buf : Bytes} {out : List MsgO} (h : decodeHeader buf = .short) :
    procO max buf out = ⟨buf, out, false⟩ := by
  rw [procO]; split <;> simp_all

theorem procO_invalid {max : Nat} {buf : Bytes} {out : List MsgO} (h : decodeHeader buf = .invalid) :
    procO max buf out = ⟨buf, out, true⟩ := by
  rw [procO]; split <;> simp_all

theorem procO_ok {max : Nat} {buf : Bytes} {out : List MsgO} {hd : Hdr} (h : decodeHeader buf = .ok hd) :
    procO max buf out =
      if hd.msgLen > max then ⟨buf, out, true⟩
      else if buf.length < hd.msgLen then ⟨buf, out, false⟩
      else match decodeFrameO (buf.take hd.msgLen) with
        | none => ⟨buf, out, true⟩
        | some m => procO max (buf.drop hd.msgLen) (out ++ [m]) := by
  rw [procO]
  split
  · simp_all
  · simp_all
  · rename_i hd' heq
    rw [h] at heq
    injection heq with heq
    subst heq
    rfl

theorem procO_append (max : Nat) (buf : Bytes) (out : List MsgO) (c : Bytes) :
    (procO max buf out).closed = false →
      procO max ((procO max buf out).buf ++ c) (procO max buf out).out = procO max (buf ++ c) out := by
  fun_induction procO max buf out with
  | case1 buf out hh => intro _; rfl
  | case2 buf out hh => intro h; simp at h
  | case3 buf out hd hh hgt => intro h; simp at h
  | case4 buf out hd hh hgt hlt => intro _; rfl
  | case5 buf out hd hh hgt hlt hdec => intro h; simp at h
  | case6 buf out hd hh hgt hlt m hdec ih =>
    intro hcl
    rw [ih hcl]
    have hok := decodeHeader_append_ok c hh
    have hle : hd.msgLen ≤ buf.length := by omega
    have n2 : ¬ (buf ++ c).length < hd.msgLen := by simp [List.length_append]; omega
    rw [procO_ok (max := max) (out := out) hok]
    simp only [hgt, n2, ↓reduceIte]
    rw [List.take_append_of_le_length hle, hdec, List.drop_append_of_le_length hle]

theorem procO_closed_append (max : Nat) (buf : Bytes) (out : List MsgO) (c : Bytes) :
    (procO max buf out).closed = true →
      (procO max (buf ++ c) out).closed = true ∧ (procO max (buf ++ c) out).out = (procO max buf out).out := by
  fun_induction procO max buf out with
  | case1 buf out hh => intro h; simp at h
  | case2 buf out hh =>
    intro _
    rw [procO_invalid (decodeHeader_append_invalid c hh)]
    simp
  | case3 buf out hd hh hgt =>
    intro _
    rw [procO_ok (decodeHeader_append_ok c hh)]
    simp [hgt]
  | case4 buf out hd hh hgt hlt => intro h; simp at h
  | case5 buf out hd hh hgt hlt hdec =>
    intro _
    have hle : hd.msgLen ≤ buf.length := by omega
    have n2 : ¬ (buf ++ c).length < hd.msgLen := by simp [List.length_append]; omega
    rw [procO_ok (decodeHeader_append_ok c hh)]
    simp only [hgt, n2, ↓reduceIte]
    rw [List.take_append_of_le_length hle, hdec]
    simp
  | case6 buf out hd hh hgt hlt m hdec ih =>
    intro hcl
    have hle : hd.msgLen ≤ buf.length := by omega
    have n2 : ¬ (buf ++ c).length < hd.msgLen := by simp [List.length_append]; omega
    rw [procO_ok (decodeHeader_append_ok c hh)]
    simp only [hgt, n2, ↓reduceIte]
    rw [List.take_append_of_le_length hle, hdec, List.drop_append_of_le_length hle]
    exact ih hcl

/-- Forgetting the options, `procO` is `proc`. -/
theorem procO_erase (max : Nat) (buf : Bytes) (out : List MsgO) :
    (procO max buf out).erase = proc max buf (out.map MsgO.erase) := by
  fun_induction procO max buf out with
  | case1 buf out hh => rw [proc_short hh]; rfl
  | case2 buf out hh => rw [proc_invalid hh]; rfl
  | case3 buf out hd hh hgt => rw [proc_ok hh]; simp [hgt, StO.erase]
  | case4 buf out hd hh hgt hlt => rw [proc_ok hh]; simp [hgt, hlt, StO.erase]
  | case5 buf out hd hh hgt hlt hdec =>
    rw [proc_ok hh]
    have := decodeFrameO_erase (buf.take hd.msgLen)
    rw [hdec] at this
    simp only [Option.map_none] at this
    simp [hgt, hlt, StO.erase, ← this]
  | case6 buf out hd hh hgt hlt m hdec ih =>
    rw [proc_ok hh]
    have := decodeFrameO_erase (buf.take hd.msgLen)
    rw [hdec] at this
    simp only [Option.map_some] at this
    simp only [hgt, hlt, ↓reduceIte, ← this]
    rw [ih]
    simp

end CoapVerif.Lemmas.FramingOpts
