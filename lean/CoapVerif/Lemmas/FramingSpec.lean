import CoapVerif.Model.Framing
import CoapVerif.Spec.Framing
import CoapVerif.Lemmas.Framing
/-!
The framing model (`Model/Framing.lean`, follows the Go code, generated constants) against the RFC-level
specification (`Spec/Framing.lean`, RFC literals only): option walk, frame decoding, header classification.
Core Lean only.
-/
namespace CoapVerif.Lemmas.FramingSpec
open CoapVerif.Model.Framing CoapVerif.Generated.TcpFraming
open CoapVerif.Spec.Framing (extBytes bigEndian declared optHead payloadOf Next)

theorem be1 (b : UInt8) : bigEndian [b] = b.toNat := by simp [bigEndian]
theorem be2 (a b : UInt8) : bigEndian [a, b] = a.toNat * 256 + b.toNat := by simp [bigEndian]
theorem be4 (a b c d : UInt8) : bigEndian [a, b, c, d] = ((a.toNat * 256 + b.toNat) * 256 + c.toNat) * 256 + d.toNat := by
  simp [bigEndian]

/-- one option header: the model's two `parseExt` calls are the specification's `optHead` -/
theorem optHead_eq (b : UInt8) (t : Bytes) (h15 : ¬ (b.toNat / 16 = 15 ∨ b.toNat % 16 = 15)) :
    optHead (b :: t) =
      match parseExt (b.toNat / 16) t with
      | none => none
      | some (delta, t1) =>
        match parseExt (b.toNat % 16) t1 with
        | none => none
        | some (len, t2) => some (delta, len, t2) := by
  have hd : b.toNat / 16 < 16 := by have := b.toNat_lt; omega
  have hl : b.toNat % 16 < 16 := Nat.mod_lt _ (by decide)
  unfold optHead
  simp only [h15, if_false]
  unfold parseExt
  simp only [extByteCode, extWordCode, extByteAddend, extWordAddend]
  -- case analysis on the two nibbles (13 / 14 / other) and on how many bytes are there
  by_cases d13 : b.toNat / 16 = 13
  · by_cases l13 : b.toNat % 16 = 13
    · match t with
      | [] => simp [d13, l13]
      | [x] => simp [d13, l13]
      | x :: y :: r => simp [d13, l13, be1]
    · by_cases l14 : b.toNat % 16 = 14
      · match t with
        | [] => simp [d13, l14]
        | [x] => simp [d13, l14]
        | [x, y] => simp [d13, l14]
        | x :: y :: z :: r => simp [d13, l14, be1, be2]
      · match t with
        | [] => simp [d13, l13, l14]
        | x :: r => simp [d13, l13, l14, be1]
  · by_cases d14 : b.toNat / 16 = 14
    · by_cases l13 : b.toNat % 16 = 13
      · match t with
        | [] => simp [d14, l13]
        | [x] => simp [d14, l13]
        | [x, y] => simp [d14, l13]
        | x :: y :: z :: r => simp [d14, l13, be1, be2]
      · by_cases l14 : b.toNat % 16 = 14
        · match t with
          | [] => simp [d14, l14]
          | [x] => simp [d14, l14]
          | [x, y] => simp [d14, l14]
          | [x, y, z] => simp [d14, l14]
          | x :: y :: z :: w :: r => simp [d14, l14, be2]
        · match t with
          | [] => simp [d14, l13, l14]
          | [x] => simp [d14, l13, l14]
          | x :: y :: r => simp [d14, l13, l14, be2]
    · by_cases l13 : b.toNat % 16 = 13
      · match t with
        | [] => simp [d13, d14, l13]
        | x :: r => simp [d13, d14, l13, be1]
      · by_cases l14 : b.toNat % 16 = 14
        · match t with
          | [] => simp [d13, d14, l14]
          | [x] => simp [d13, d14, l14]
          | x :: y :: r => simp [d13, d14, l14, be2]
        · simp [d13, d14, l13, l14]

/-- the model's option walk is the specification's, given enough fuel -/
theorem walk_eq (prev : Nat) (bs : Bytes) : ∀ fuel, bs.length < fuel → walkOpts prev bs = payloadOf fuel prev bs := by
  fun_induction walkOpts prev bs with
  | case1 prev =>
    intro fuel hf
    cases fuel with
    | zero => simp at hf
    | succ f => simp [payloadOf]
  | case2 prev t =>
    intro fuel hf
    cases fuel with
    | zero => simp at hf
    | succ f => simp [payloadOf]
  | case3 prev b t hb d l h15 =>
    intro fuel hf
    cases fuel with
    | zero => simp at hf
    | succ f =>
      have h15' : b.toNat / 16 = 15 ∨ b.toNat % 16 = 15 := h15
      have : optHead (b :: t) = none := by
        unfold optHead
        simp only [h15', if_true]
      simp [payloadOf, hb, this]
  | case4 prev b t hb d l h15 hd =>
    intro fuel hf
    cases fuel with
    | zero => simp at hf
    | succ f =>
      have h15' : ¬ (b.toNat / 16 = 15 ∨ b.toNat % 16 = 15) := h15
      have := optHead_eq b t h15'
      have hd' : parseExt (b.toNat / 16) t = _ := hd
      rw [hd'] at this
      simp [payloadOf, hb, this]
  | case5 prev b t hb d l h15 delta t1 hd hl =>
    intro fuel hf
    cases fuel with
    | zero => simp at hf
    | succ f =>
      have h15' : ¬ (b.toNat / 16 = 15 ∨ b.toNat % 16 = 15) := h15
      have := optHead_eq b t h15'
      have hd' : parseExt (b.toNat / 16) t = _ := hd
      rw [hd'] at this
      have hl' : parseExt (b.toNat % 16) t1 = _ := hl
      simp only [hl'] at this
      simp [payloadOf, hb, this]
  | case6 prev b t hb d l h15 delta t1 hd len t2 hl hlen =>
    intro fuel hf
    cases fuel with
    | zero => simp at hf
    | succ f =>
      have h15' : ¬ (b.toNat / 16 = 15 ∨ b.toNat % 16 = 15) := h15
      have := optHead_eq b t h15'
      have hd' : parseExt (b.toNat / 16) t = _ := hd
      rw [hd'] at this
      have hl' : parseExt (b.toNat % 16) t1 = _ := hl
      simp only [hl'] at this
      simp [payloadOf, hb, this, hlen]
  | case7 prev b t hb d l h15 delta t1 hd len t2 hl hlen hov =>
    intro fuel hf
    cases fuel with
    | zero => simp at hf
    | succ f =>
      have h15' : ¬ (b.toNat / 16 = 15 ∨ b.toNat % 16 = 15) := h15
      have := optHead_eq b t h15'
      have hd' : parseExt (b.toNat / 16) t = _ := hd
      rw [hd'] at this
      have hl' : parseExt (b.toNat % 16) t1 = _ := hl
      simp only [hl'] at this
      simp [payloadOf, hb, this, hlen, hov]
  | case8 prev b t hb d l h15 delta t1 hd len t2 hl hlen hov ih =>
    intro fuel hf
    cases fuel with
    | zero => simp at hf
    | succ f =>
      have h15' : ¬ (b.toNat / 16 = 15 ∨ b.toNat % 16 = 15) := h15
      have := optHead_eq b t h15'
      have hd' : parseExt (b.toNat / 16) t = _ := hd
      rw [hd'] at this
      have hl' : parseExt (b.toNat % 16) t1 = _ := hl
      simp only [hl'] at this
      have h1 := parseExt_len hd
      have h2 := parseExt_len hl
      have hfl : (t2.drop len).length < f := by
        simp only [List.length_drop, List.length_cons] at hf ⊢; omega
      simp only [payloadOf, hb, if_false, this, hlen, hov]
      exact ih f hfl

/-- the `switch` on the Len nibble is the RFC 8323 table -/
theorem lenField_spec (L : Nat) (hL : L < 16) (rest : Bytes) :
    lenField L rest = if rest.length < extBytes L then none else some (1 + extBytes L, declared L (rest.take (extBytes L))) := by
  unfold lenField extBytes declared
  simp only [len13Base, len14Base, len15Base]
  by_cases h12 : L ≤ 12
  · have a : L < 13 := by omega
    simp [a, h12]
  · have a : ¬ L < 13 := by omega
    simp only [a, h12, if_false]
    by_cases h13 : L = 13
    · match rest with
      | [] => simp [h13]
      | b :: r => simp [h13, be1]; omega
    · simp only [h13, if_false]
      by_cases h14 : L = 14
      · match rest with
        | [] => simp [h14]
        | [x] => simp [h14]
        | x :: y :: r => simp [h14, be2]; omega
      · have h15 : L = 15 := by omega
        simp only [h14, if_false, h15, if_true]
        match rest with
        | [] => simp
        | [x] => simp
        | [x, y] => simp
        | [x, y, z] => simp
        | x :: y :: z :: w :: r => simp [be4]; omega

/-- the header parser after the first byte, in terms of the RFC table (`e` extended-length bytes, declared length `dl`) -/
theorem decodeHeader_cons (first : UInt8) (rest : Bytes) :
    decodeHeader (first :: rest) =
      if first.toNat % 16 > 8 then .invalid
      else if rest.length < extBytes (first.toNat / 16) then .short
      else mkHdr (first :: rest) (first.toNat % 16) (1 + extBytes (first.toNat / 16))
        (declared (first.toNat / 16) (rest.take (extBytes (first.toNat / 16)))) := by
  have hL : first.toNat / 16 < 16 := by have := first.toNat_lt; omega
  unfold decodeHeader
  simp only [headerChecksTkl, maxTokenSize, Bool.true_and, decide_eq_true_eq]
  by_cases ht : first.toNat % 16 > 8
  · simp [ht]
  · simp only [ht, if_false]
    rw [lenField_spec _ hL]
    by_cases he : rest.length < extBytes (first.toNat / 16)
    · simp [he]
    · simp [he]

theorem next_cons (max : Nat) (first : UInt8) (rest : Bytes) :
    Spec.Framing.next max (first :: rest) =
      (let e := extBytes (first.toNat / 16)
       let tkl := first.toNat % 16
       if tkl > 8 then (if e + 1 + tkl ≤ rest.length then Next.mustClose else Next.mayClose)
       else if rest.length < e then Next.needMore
       else
         let total := 1 + e + 1 + tkl + declared (first.toNat / 16) (rest.take e)
         if total > max ∨ total ≥ 2 ^ 32 then (if e + 1 + tkl ≤ rest.length then Next.mustClose else Next.mayClose)
         else if (first :: rest).length < total then Next.needMore
         else Next.frame ((first :: rest).take total) ((first :: rest).drop total)) := rfl

theorem next_of_short (max : Nat) (bs : Bytes) (h : decodeHeader bs = .short) :
    Spec.Framing.next max bs = .needMore ∨ Spec.Framing.next max bs = .mayClose := by
  cases bs with
  | nil => left; rfl
  | cons first rest =>
    rw [decodeHeader_cons] at h
    rw [next_cons]
    simp only []
    by_cases ht : first.toNat % 16 > 8
    · simp [ht] at h
    · simp only [ht, if_false] at h ⊢
      by_cases he : rest.length < extBytes (first.toNat / 16)
      · simp [he]
      · simp only [he, if_false] at h ⊢
        unfold mkHdr at h
        split at h
        · cases h
        · rename_i h1
          split at h
          · rename_i h2
            -- code byte missing
            simp only [List.length_cons] at h2
            have hc : ¬ (extBytes (first.toNat / 16) + 1 + first.toNat % 16 ≤ rest.length) := by omega
            simp only [hc, if_false]
            split
            · right; rfl
            · split
              · left; rfl
              · rename_i h3 h4
                simp only [List.length_cons] at h4
                omega
          · split at h
            · rename_i h2 h3
              simp only [List.length_cons] at h3
              have hc : ¬ (extBytes (first.toNat / 16) + 1 + first.toNat % 16 ≤ rest.length) := by omega
              simp only [hc, if_false]
              split
              · right; rfl
              · split
                · left; rfl
                · rename_i h4 h5
                  simp only [List.length_cons] at h5
                  omega
            · cases h

theorem next_of_invalid (max : Nat) (bs : Bytes) (h : decodeHeader bs = .invalid) :
    Spec.Framing.next max bs = .mayClose ∨ Spec.Framing.next max bs = .mustClose := by
  cases bs with
  | nil => simp [decodeHeader] at h
  | cons first rest =>
    rw [decodeHeader_cons] at h
    rw [next_cons]
    simp only []
    by_cases ht : first.toNat % 16 > 8
    · simp only [ht, if_true]
      split
      · right; rfl
      · left; rfl
    · simp only [ht, if_false] at h ⊢
      by_cases he : rest.length < extBytes (first.toNat / 16)
      · simp [he] at h
      · simp only [he, if_false] at h ⊢
        unfold mkHdr at h
        split at h
        · rename_i h1
          have : (1 + extBytes (first.toNat / 16) + 1 + first.toNat % 16 +
              declared (first.toNat / 16) (rest.take (extBytes (first.toNat / 16))) > max ∨
              1 + extBytes (first.toNat / 16) + 1 + first.toNat % 16 +
              declared (first.toNat / 16) (rest.take (extBytes (first.toNat / 16))) ≥ 2 ^ 32) := by right; omega
          simp only [this, if_true]
          split
          · right; rfl
          · left; rfl
        · split at h
          · cases h
          · split at h <;> cases h

theorem next_of_ok (max : Nat) (bs : Bytes) (hd : Hdr) (h : decodeHeader bs = .ok hd) :
    (hd.msgLen > max → Spec.Framing.next max bs = .mustClose) ∧
    (¬ hd.msgLen > max → bs.length < hd.msgLen → Spec.Framing.next max bs = .needMore) ∧
    (¬ hd.msgLen > max → ¬ bs.length < hd.msgLen →
      Spec.Framing.next max bs = .frame (bs.take hd.msgLen) (bs.drop hd.msgLen)) := by
  cases bs with
  | nil => simp [decodeHeader] at h
  | cons first rest =>
    rw [decodeHeader_cons] at h
    rw [next_cons]
    simp only []
    by_cases ht : first.toNat % 16 > 8
    · simp [ht] at h
    · simp only [ht, if_false] at h ⊢
      by_cases he : rest.length < extBytes (first.toNat / 16)
      · simp [he] at h
      · simp only [he, if_false] at h ⊢
        have hm := mkHdr_msgLen h
        have htot : 1 + extBytes (first.toNat / 16) + 1 + first.toNat % 16 +
            declared (first.toNat / 16) (rest.take (extBytes (first.toNat / 16))) = hd.msgLen := by omega
        have hcomplete : extBytes (first.toNat / 16) + 1 + first.toNat % 16 ≤ rest.length := by
          have := hm.2.2.2.1
          simp only [List.length_cons] at this
          omega
        have h32 : ¬ hd.msgLen ≥ 2 ^ 32 := by have := hm.2.2.2.2; omega
        rw [htot]
        refine ⟨?_, ?_, ?_⟩
        · intro hgt
          simp [hgt, hcomplete]
        · intro hle hlt
          have : ¬ (hd.msgLen > max ∨ hd.msgLen ≥ 2 ^ 32) := by omega
          simp only [this, if_false, hlt, if_true]
        · intro hle hge
          have : ¬ (hd.msgLen > max ∨ hd.msgLen ≥ 2 ^ 32) := by omega
          simp only [this, if_false, hge]

theorem mkHdr_len_le_msgLen {bs : Bytes} {hd : Hdr} (h : decodeHeader bs = .ok hd) : hd.len ≤ hd.msgLen := by
  unfold decodeHeader at h
  split at h
  · cases h
  · split at h
    · cases h
    · split at h
      · cases h
      · have := mkHdr_msgLen h; omega

/-- the specification's message as the model's message -/
def conv (m : Spec.Framing.Msg) : Msg := ⟨m.code, m.token, m.payload⟩

theorem mkHdr_code {bs : Bytes} {tkl hdrOff opLen : Nat} {h : Hdr} (e : mkHdr bs tkl hdrOff opLen = .ok h) :
    h.code = (bs.getD hdrOff 0).toNat := by
  unfold mkHdr at e
  split at e
  · cases e
  · split at e
    · cases e
    · split at e
      · cases e
      · injection e with e; subst e; rfl

/-- `Coder.Decode` on a slice that holds a whole frame is the RFC-level `parseFrame` -/
theorem decodeFrame_eq (f : Bytes) (hd : Hdr) (h : decodeHeader f = .ok hd) (hl : hd.msgLen ≤ f.length) :
    decodeFrame f = (Spec.Framing.parseFrame f).map conv := by
  cases f with
  | nil => simp [decodeHeader] at h
  | cons first r =>
    have h0 := h
    rw [decodeHeader_cons] at h
    by_cases ht : first.toNat % 16 > 8
    · simp [ht] at h
    · simp only [ht, if_false] at h
      by_cases he : r.length < extBytes (first.toNat / 16)
      · simp [he] at h
      · simp only [he, if_false] at h
        have hm := mkHdr_msgLen h
        have hc := mkHdr_code h
        obtain ⟨hm1, hm2, hm3, hm4, hm5⟩ := hm
        simp only [List.length_cons] at hm4 hl
        unfold decodeFrame
        rw [h0]
        have hnl : ¬ ((first :: r).length < hd.msgLen) := by simp only [List.length_cons]; omega
        simp only [hnl, if_false]
        unfold Spec.Framing.parseFrame
        simp only []
        cases hr1 : r.drop (extBytes (first.toNat / 16)) with
        | nil =>
          have := congrArg List.length hr1
          simp only [List.length_drop, List.length_nil] at this
          omega
        | cons code r2 =>
          simp only []
          have hbody : (first :: r).drop hd.len = r2.drop (first.toNat % 16) := by
            rw [hm2]
            have : 1 + extBytes (first.toNat / 16) + 1 + first.toNat % 16 =
                (extBytes (first.toNat / 16) + (first.toNat % 16 + 1)) + 1 := by omega
            rw [this, List.drop_succ_cons, ← List.drop_drop, hr1, List.drop_succ_cons]
          have htok : (first :: r).drop (hd.len - hd.tkl) = r2 := by
            rw [hm2, hm3]
            have : 1 + extBytes (first.toNat / 16) + 1 + first.toNat % 16 - first.toNat % 16 =
                (extBytes (first.toNat / 16) + 1) + 1 := by omega
            rw [this, List.drop_succ_cons, ← List.drop_drop, hr1, List.drop_succ_cons, List.drop_zero]
          have hcode : hd.code = code.toNat := by
            rw [hc]
            have : 1 + extBytes (first.toNat / 16) = extBytes (first.toNat / 16) + 1 := by omega
            rw [this, List.getD_cons_succ, List.getD_eq_getElem?_getD]
            have h2 : r[extBytes (first.toNat / 16)]? = (r.drop (extBytes (first.toNat / 16)))[0]? := by
              rw [List.getElem?_drop]; simp
            rw [h2, hr1]; simp
          rw [hbody, htok, hm3, hcode]
          rw [walk_eq 0 (r2.drop (first.toNat % 16)) ((r2.drop (first.toNat % 16)).length + 1) (by omega)]
          cases Spec.Framing.payloadOf ((r2.drop (first.toNat % 16)).length + 1) 0 (r2.drop (first.toNat % 16)) with
          | none => rfl
          | some p => rfl

/-- the header parser looks only at the header bytes -/
theorem decodeHeader_take (bs : Bytes) (hd : Hdr) (n : Nat) (h : decodeHeader bs = .ok hd) (hn : hd.len ≤ n) :
    decodeHeader (bs.take n) = .ok hd := by
  cases bs with
  | nil => simp [decodeHeader] at h
  | cons first r =>
    rw [decodeHeader_cons] at h
    by_cases ht : first.toNat % 16 > 8
    · simp [ht] at h
    · simp only [ht, if_false] at h
      by_cases he : r.length < extBytes (first.toNat / 16)
      · simp [he] at h
      · simp only [he, if_false] at h
        obtain ⟨hm1, hm2, hm3, hm4, hm5⟩ := mkHdr_msgLen h
        simp only [List.length_cons] at hm4
        obtain ⟨k, rfl⟩ : ∃ k, n = k + 1 := ⟨n - 1, by omega⟩
        rw [List.take_succ_cons, decodeHeader_cons]
        simp only [ht, if_false]
        have he' : ¬ ((r.take k).length < extBytes (first.toNat / 16)) := by
          simp only [List.length_take]; omega
        simp only [he', if_false]
        have htt : (r.take k).take (extBytes (first.toNat / 16)) = r.take (extBytes (first.toNat / 16)) := by
          rw [List.take_take]; congr 1; omega
        rw [htt]
        unfold mkHdr at h ⊢
        split at h
        · cases h
        · rename_i h1
          split at h
          · cases h
          · rename_i h2
            split at h
            · cases h
            · rename_i h3
              simp only [List.length_cons] at h2 h3
              have a1 : ¬ (1 + extBytes (first.toNat / 16) + 1 + first.toNat % 16 +
                  declared (first.toNat / 16) (r.take (extBytes (first.toNat / 16))) > 4294967295) := h1
              have a2 : ¬ ((first :: r.take k).length < 1 + extBytes (first.toNat / 16) + 1) := by
                simp only [List.length_cons, List.length_take]; omega
              have a3 : ¬ ((first :: r.take k).length < 1 + extBytes (first.toNat / 16) + 1 + first.toNat % 16) := by
                simp only [List.length_cons, List.length_take]; omega
              simp only [a1, a2, a3, if_false]
              rw [← h]
              congr 2
              have : 1 + extBytes (first.toNat / 16) = extBytes (first.toNat / 16) + 1 := by omega
              rw [this, List.getD_cons_succ, List.getD_cons_succ, List.getD_eq_getElem?_getD, List.getD_eq_getElem?_getD,
                List.getElem?_take]
              have : extBytes (first.toNat / 16) < k := by omega
              simp [this]

open CoapVerif.Spec.Framing (Status) in
/-- `processBuffer` (the code-following model) against the RFC-level splitter: same deliveries; the
    model keeps the connection open where the specification says open, and closes it where the
    specification says it must be closed (where the specification allows either, nothing is claimed). -/
theorem proc_eq_split (max : Nat) (buf : Bytes) (out : List Msg) :
    ∀ (acc : List Spec.Framing.Msg) (fuel : Nat), out = acc.map conv → buf.length < fuel →
      (proc max buf out).out = (Spec.Framing.split max fuel buf acc).1.map conv ∧
      ((Spec.Framing.split max fuel buf acc).2 = Status.open_ → (proc max buf out).closed = false) ∧
      ((Spec.Framing.split max fuel buf acc).2 = Status.mustClose → (proc max buf out).closed = true) := by
  fun_induction proc max buf out with
  | case1 buf out hh =>
    intro acc fuel ho hf
    obtain ⟨f, rfl⟩ : ∃ f, fuel = f + 1 := ⟨fuel - 1, by omega⟩
    unfold Spec.Framing.split
    rcases next_of_short max buf hh with h | h <;> rw [h] <;> simp [ho]
  | case2 buf out hh =>
    intro acc fuel ho hf
    obtain ⟨f, rfl⟩ : ∃ f, fuel = f + 1 := ⟨fuel - 1, by omega⟩
    unfold Spec.Framing.split
    rcases next_of_invalid max buf hh with h | h <;> rw [h] <;> simp [ho]
  | case3 buf out hd hh hgt =>
    intro acc fuel ho hf
    obtain ⟨f, rfl⟩ : ∃ f, fuel = f + 1 := ⟨fuel - 1, by omega⟩
    unfold Spec.Framing.split
    rw [(next_of_ok max buf hd hh).1 hgt]; simp [ho]
  | case4 buf out hd hh hgt hlt =>
    intro acc fuel ho hf
    obtain ⟨f, rfl⟩ : ∃ f, fuel = f + 1 := ⟨fuel - 1, by omega⟩
    unfold Spec.Framing.split
    rw [(next_of_ok max buf hd hh).2.1 hgt hlt]; simp [ho]
  | case5 buf out hd hh hgt hlt hdec =>
    intro acc fuel ho hf
    obtain ⟨f, rfl⟩ : ∃ f, fuel = f + 1 := ⟨fuel - 1, by omega⟩
    unfold Spec.Framing.split
    rw [(next_of_ok max buf hd hh).2.2 hgt hlt]
    have hl := (mkHdr_len_le_msgLen hh)
    have hk := decodeHeader_take buf hd hd.msgLen hh hl
    have hfl : hd.msgLen ≤ (buf.take hd.msgLen).length := by simp only [List.length_take]; omega
    rw [decodeFrame_eq _ hd hk hfl] at hdec
    cases hp : Spec.Framing.parseFrame (buf.take hd.msgLen) with
    | none => simp only [hp]; simp [ho]
    | some m' => rw [hp] at hdec; simp at hdec
  | case6 buf out hd hh hgt hlt m hdec ih =>
    intro acc fuel ho hf
    obtain ⟨f, rfl⟩ : ∃ f, fuel = f + 1 := ⟨fuel - 1, by omega⟩
    unfold Spec.Framing.split
    rw [(next_of_ok max buf hd hh).2.2 hgt hlt]
    have hl := (mkHdr_len_le_msgLen hh)
    have hk := decodeHeader_take buf hd hd.msgLen hh hl
    have hfl : hd.msgLen ≤ (buf.take hd.msgLen).length := by simp only [List.length_take]; omega
    rw [decodeFrame_eq _ hd hk hfl] at hdec
    cases hp : Spec.Framing.parseFrame (buf.take hd.msgLen) with
    | none => rw [hp] at hdec; simp at hdec
    | some m' =>
      rw [hp] at hdec
      simp only [Option.map_some, Option.some.injEq] at hdec
      simp only [hp]
      have h2 := decodeHeader_msgLen_pos hh
      exact ih (acc ++ [m']) f (by simp [ho, hdec]) (by simp only [List.length_drop]; omega)

end CoapVerif.Lemmas.FramingSpec
