import CoapVerif.Model.Limiter
/-!
Helper lemmas for C16: the invariant of the limiter event system (`Model/Limiter.lean`) and its preservation by every
event.  The property theorems themselves are in `Props/C16.lean`.

Invariant, for every reachable state:
* the arrived requests are exactly those whose program counter is not `idle` (no duplicates, in arrival order);
* for every path key: `processedCounter` = number of requests that currently own an endpoint slot for that key, it lies
  in `1 … endpointLimit`, and `orderedRequest` is exactly the list of requests parked for that key **in arrival order**;
  a key without entry has neither owners nor waiters;
* the semaphore: `cur` = number of requests that own a unit, `cur ≤ size`, the waiters are exactly the requests parked
  in `Acquire`, and waiters exist only while the semaphore is full.
-/
namespace CoapVerif.Lemmas.Limiter
open CoapVerif.Model.Limiter

theorem countP_update {l : List Nat} (hnd : l.Nodup) {g g' : Nat → Bool} {i : Nat}
    (hag : ∀ j, j ≠ i → g' j = g j) :
    l.countP g' + (if i ∈ l ∧ g i = true then 1 else 0) = l.countP g + (if i ∈ l ∧ g' i = true then 1 else 0) := by
  induction l with
  | nil => simp
  | cons a t ih =>
    have hnd' := List.nodup_cons.mp hnd
    have ih := ih hnd'.2
    simp only [List.countP_cons, List.mem_cons]
    by_cases hai : a = i
    · subst hai
      have hnt : a ∉ t := hnd'.1
      have e : t.countP g' = t.countP g := List.countP_congr (fun x hx => by
        have : x ≠ a := fun h => hnt (h ▸ hx)
        rw [hag x this])
      simp only [hnt, false_and, if_false, Nat.add_zero] at ih
      cases hg : g a <;> cases hg' : g' a <;> simp [e]
    · have hia : i ≠ a := fun h => hai h.symm
      rw [hag a hai]
      simp only [hia, false_or]
      omega

theorem filter_update_remove {l : List Nat} (hnd : l.Nodup) {g g' : Nat → Bool} {i : Nat}
    (hag : ∀ j, j ≠ i → g' j = g j) (h' : g' i = false) : l.filter g' = (l.filter g).erase i := by
  induction l with
  | nil => simp
  | cons a t ih =>
    have hnd' := List.nodup_cons.mp hnd
    have ih := ih hnd'.2
    by_cases hai : a = i
    · subst hai
      have hnt : a ∉ t := hnd'.1
      have e : t.filter g' = t.filter g := List.filter_congr (fun x hx => by
        have : x ≠ a := fun h => hnt (h ▸ hx)
        rw [hag x this])
      cases hg : g a
      · simp only [List.filter_cons, h', hg, e]
        rw [List.erase_of_not_mem]
        intro hm; exact hnt (List.mem_filter.mp hm).1
      · simp [h', hg, e]
    · simp only [List.filter_cons, hag a hai]
      cases hg : g a
      · simpa using ih
      · simp only [if_true]
        rw [List.erase_cons_tail (by simpa using hai), ih]

theorem filter_update_same {l : List Nat} {g g' : Nat → Bool} {i : Nat}
    (hag : ∀ j, j ≠ i → g' j = g j) (h : g i = g' i) : l.filter g' = l.filter g := by
  apply List.filter_congr
  intro x _
  by_cases hx : x = i
  · subst hx; exact h.symm
  · exact hag x hx

theorem countP_update_same {l : List Nat} {g g' : Nat → Bool} {i : Nat}
    (hag : ∀ j, j ≠ i → g' j = g j) (h : g i = g' i) : l.countP g' = l.countP g := by
  apply List.countP_congr
  intro x _
  by_cases hx : x = i
  · subst hx; rw [h]
  · rw [hag x hx]


/-! ### counting over the arrived requests -/

def b2i (b : Bool) : Int := if b then 1 else 0
@[simp] theorem b2i_true : b2i true = 1 := rfl
@[simp] theorem b2i_false : b2i false = 0 := rfl

theorem countP_update_int {l : List Nat} (hnd : l.Nodup) {g g' : Nat → Bool} {i : Nat} (hi : i ∈ l)
    (hag : ∀ j, j ≠ i → g' j = g j) : (l.countP g' : Int) = l.countP g - b2i (g i) + b2i (g' i) := by
  have h := countP_update hnd hag
  simp only [hi, true_and] at h
  unfold b2i
  cases h1 : g i <;> cases h2 : g' i <;> simp [h1, h2] at h ⊢ <;> omega

theorem holders_setPc (s : State) (hnd : s.ids.Nodup) (i : Id) (v : Pc) (hi : i ∈ s.ids) (k : Key) :
    (holders (setPc s i v) k : Int)
      = holders s k - b2i (epHolder (s.pc i) && s.key i == k) + b2i (epHolder v && s.key i == k) := by
  have h := countP_update_int (l := s.ids) hnd (g := fun j => epHolder (s.pc j) && s.key j == k)
    (g' := fun j => epHolder (upd s.pc i v j) && s.key j == k) hi
    (fun j hj => by simp only [upd_other _ _ _ _ hj])
  simp only [upd_same] at h
  exact h

theorem semHolders_setPc (s : State) (hnd : s.ids.Nodup) (i : Id) (v : Pc) (hi : i ∈ s.ids) :
    (semHolders (setPc s i v) : Int) = semHolders s - b2i (semHolder (s.pc i)) + b2i (semHolder v) := by
  have h := countP_update_int (l := s.ids) hnd (g := fun j => semHolder (s.pc j))
    (g' := fun j => semHolder (upd s.pc i v j)) hi
    (fun j hj => by simp only [upd_other _ _ _ _ hj])
  simp only [upd_same] at h
  exact h


theorem waitingFor_setPc_remove (s : State) (hnd : s.ids.Nodup) (i : Id) (v : Pc) (hv : v ≠ .epQueued) (k : Key) :
    waitingFor (setPc s i v) k = (waitingFor s k).erase i := by
  apply filter_update_remove hnd (i := i)
  · intro j hj; simp only [setPc, upd_other _ _ _ _ hj]
  · simp [setPc, hv]

theorem waitingFor_setPc_same (s : State) (i : Id) (v : Pc) (hv : v ≠ .epQueued) (hp : s.pc i ≠ .epQueued) (k : Key) :
    waitingFor (setPc s i v) k = waitingFor s k := by
  apply filter_update_same (i := i)
  · intro j hj; simp only [setPc, upd_other _ _ _ _ hj]
  · have h1 : (s.pc i == Pc.epQueued) = false := by simpa using hp
    have h2 : (v == Pc.epQueued) = false := by simpa using hv
    simp [setPc, h1, h2]

/-! ### the invariant -/

structure InvBase (s : State) : Prop where
  limit_pos : 1 ≤ s.limit
  epLimit_pos : 1 ≤ s.epLimit
  nodup : s.ids.Nodup
  arrived : ∀ id, id ∈ s.ids ↔ s.pc id ≠ .idle

structure InvEp (s : State) : Prop where
  none_ : ∀ k, s.eps k = none → holders s k = 0 ∧ waitingFor s k = []
  some_ : ∀ k ep, s.eps k = some ep →
    ep.counter = holders s k ∧ 1 ≤ ep.counter ∧ ep.counter ≤ s.epLimit ∧ ep.queue = waitingFor s k

structure InvSem (s : State) : Prop where
  cur : s.semCur = semHolders s
  le : s.semCur ≤ s.limit
  nodup : s.semWaiters.Nodup
  mem : ∀ id, id ∈ s.semWaiters ↔ s.pc id = .semQueued
  full : s.semWaiters ≠ [] → s.semCur = s.limit

structure Inv (s : State) : Prop where
  base : InvBase s
  ep : InvEp s
  sem : InvSem s

/-- frame: a transition that leaves the endpoint table alone and does not change who holds / waits for an endpoint slot -/
theorem InvEp_frame {s s' : State} (h : InvEp s) (heps : s'.eps = s.eps) (hids : s'.ids = s.ids) (hkey : s'.key = s.key)
    (hlim : s'.epLimit = s.epLimit)
    (hpc : ∀ j, epHolder (s'.pc j) = epHolder (s.pc j) ∧ ((s'.pc j == .epQueued) = (s.pc j == .epQueued))) : InvEp s' := by
  have hh : ∀ k, holders s' k = holders s k := by
    intro k; simp only [holders, hids, hkey]
    apply List.countP_congr; intro x _; rw [(hpc x).1]
  have hw : ∀ k, waitingFor s' k = waitingFor s k := by
    intro k; simp only [waitingFor, hids, hkey]
    apply List.filter_congr; intro x _; rw [(hpc x).2]
  constructor
  · intro k hk; rw [heps] at hk; rw [hh, hw]; exact h.none_ k hk
  · intro k ep hk; rw [heps] at hk; rw [hh, hw, hlim]; exact h.some_ k ep hk

theorem InvBase_frame {s s' : State} (h : InvBase s) (hids : s'.ids = s.ids) (hl : s'.limit = s.limit) (he : s'.epLimit = s.epLimit)
    (hpc : ∀ j, (s'.pc j = .idle ↔ s.pc j = .idle)) : InvBase s' := by
  constructor
  · rw [hl]; exact h.limit_pos
  · rw [he]; exact h.epLimit_pos
  · rw [hids]; exact h.nodup
  · intro id; rw [hids, h.arrived id]; exact not_congr (hpc id).symm


theorem InvSem_frame {s s' : State} (h : InvSem s) (hcur : s'.semCur = s.semCur) (hws : s'.semWaiters = s.semWaiters)
    (hl : s'.limit = s.limit) (hcount : semHolders s' = semHolders s)
    (hpc : ∀ j, (s'.pc j = .semQueued ↔ s.pc j = .semQueued)) : InvSem s' := by
  constructor
  · rw [hcur, hcount]; exact h.cur
  · rw [hcur, hl]; exact h.le
  · rw [hws]; exact h.nodup
  · intro id; rw [hws, hpc id]; exact h.mem id
  · rw [hws, hcur, hl]; exact h.full

theorem semHolders_congr (s s' : State) (hids : s'.ids = s.ids) (hpc : ∀ j, semHolder (s'.pc j) = semHolder (s.pc j)) :
    semHolders s' = semHolders s := by
  simp only [semHolders, hids]
  apply List.countP_congr; intro x _; rw [hpc x]

theorem mem_ids_of_pc {s : State} (hb : InvBase s) {i : Id} {p : Pc} (h : s.pc i = p) (hp : p ≠ .idle) : i ∈ s.ids :=
  (hb.arrived i).mpr (by rw [h]; exact hp)

/-- a `setPc` that keeps the request in the same class (holder / waiter of either resource, arrived) preserves the invariant -/
theorem Inv_setPc_class {s : State} (h : Inv s) (i : Id) (v : Pc)
    (h1 : epHolder v = epHolder (s.pc i)) (h2 : semHolder v = semHolder (s.pc i))
    (h3 : (v = .epQueued ↔ s.pc i = .epQueued)) (h4 : (v = .semQueued ↔ s.pc i = .semQueued))
    (h5 : (v = .idle ↔ s.pc i = .idle)) : Inv (setPc s i v) := by
  have hpc : ∀ j, (setPc s i v).pc j = if j = i then v else s.pc j := fun j => rfl
  refine ⟨InvBase_frame h.base rfl rfl rfl ?_, InvEp_frame h.ep rfl rfl rfl rfl ?_, InvSem_frame h.sem rfl rfl rfl ?_ ?_⟩
  · intro j; rw [hpc]; by_cases hj : j = i <;> simp [hj, h5]
  · intro j; rw [hpc]; by_cases hj : j = i
    · subst hj; rw [if_pos rfl]
      refine ⟨h1, ?_⟩
      by_cases hv : v = .epQueued
      · rw [hv, h3.mp hv]
      · have h6 : s.pc j ≠ .epQueued := fun hh => hv (h3.mpr hh)
        have e1 : (v == Pc.epQueued) = false := by simpa using hv
        have e2 : (s.pc j == Pc.epQueued) = false := by simpa using h6
        rw [e1, e2]
    · simp [hj]
  · apply semHolders_congr s (setPc s i v) rfl
    intro j; rw [hpc]
    by_cases hj : j = i
    · subst hj; rw [if_pos rfl, h2]
    · rw [if_neg hj]
  · intro j; rw [hpc]; by_cases hj : j = i <;> simp [hj, h4]


/-! ### the semaphore -/

theorem notifyLoop_full (limit cur : Int) (ws : List Id) (pc : Id → Pc) (h : limit - cur < 1) :
    notifyLoop limit cur ws pc = (cur, ws, pc) := by
  cases ws with
  | nil => rfl
  | cons w t => simp [notifyLoop, h]

/-- with at most one free unit `notifyWaiters` wakes at most the first waiter -/
theorem notifyLoop_one (limit cur : Int) (w : Id) (t : List Id) (pc : Id → Pc) (h : limit - cur = 1) :
    notifyLoop limit cur (w :: t) pc = (cur + 1, t, if pc w = .semQueued then upd pc w .semGranted else pc) := by
  have h1 : ¬ (limit - cur < 1) := by omega
  simp only [notifyLoop, h1, if_false]
  exact notifyLoop_full _ _ _ _ (by omega)

/-- `Release(1)` by a holder `i`, which then continues with `v` (not a holder, not a waiter of the semaphore) -/
theorem InvSem_release {s : State} (hb : InvBase s) (h : InvSem s) (i : Id) (v : Pc)
    (hi : semHolder (s.pc i) = true) (hv : semHolder v = false) (hvq : v ≠ .semQueued) (_hvi : v ≠ .idle) :
    InvSem (setPc (semRelease s) i v) ∧
    (∀ j, (setPc (semRelease s) i v).pc j = if j = i then v else
      if s.semWaiters.head? = some j then .semGranted else s.pc j) ∧
    (semRelease s).eps = s.eps ∧ (semRelease s).ids = s.ids ∧ (semRelease s).key = s.key ∧
    (semRelease s).epLimit = s.epLimit ∧ (semRelease s).limit = s.limit ∧ (semRelease s).cancelled = s.cancelled := by
  have hiq : s.pc i ≠ .semQueued := by intro hh; rw [hh] at hi; simp [semHolder] at hi
  have hii : s.pc i ≠ .idle := by intro hh; rw [hh] at hi; simp [semHolder] at hi
  have himem : i ∈ s.ids := (hb.arrived i).mpr hii
  cases hws : s.semWaiters with
  | nil =>
    have e : semRelease s = { s with semCur := s.semCur - 1 } := by
      simp [semRelease, semNotify, hws, notifyLoop]
    rw [e]
    refine ⟨⟨?_, ?_, ?_, ?_, ?_⟩, ?_, rfl, rfl, rfl, rfl, rfl, rfl⟩
    · have := semHolders_setPc s hb.nodup i v himem
      rw [hi, hv, b2i_true, b2i_false] at this
      show s.semCur - 1 = (semHolders (setPc s i v) : Int)
      rw [this, h.cur]; omega
    · show s.semCur - 1 ≤ s.limit
      have := h.le; omega
    · show s.semWaiters.Nodup
      exact h.nodup
    · intro id
      show id ∈ s.semWaiters ↔ upd s.pc i v id = .semQueued
      by_cases hid : id = i
      · subst hid; simp only [upd_same]
        constructor
        · intro hm; exact absurd ((h.mem id).mp hm) hiq
        · intro hh; exact absurd hh hvq
      · rw [upd_other _ _ _ _ hid]; exact h.mem id
    · intro hne; exact absurd hws hne
    · intro j; show upd s.pc i v j = _
      by_cases hj : j = i
      · subst hj; simp
      · simp [upd_other _ _ _ _ hj, hj]
  | cons w t =>
    have hfull : s.semCur = s.limit := h.full (by rw [hws]; simp)
    have hwq : s.pc w = .semQueued := (h.mem w).mp (by rw [hws]; simp)
    have hwi : w ≠ i := by intro hh; rw [hh] at hwq; exact hiq hwq
    have hnd : (w :: t).Nodup := hws ▸ h.nodup
    have hwt : w ∉ t := (List.nodup_cons.mp hnd).1
    have e : semRelease s = { s with semCur := s.semCur, semWaiters := t, pc := upd s.pc w .semGranted } := by
      simp only [semRelease, semNotify, hws]
      rw [notifyLoop_one _ _ _ _ _ (by omega)]
      simp [hwq]
    rw [e]
    have hwmem : w ∈ s.ids := (hb.arrived w).mpr (by rw [hwq]; simp)
    refine ⟨⟨?_, ?_, ?_, ?_, ?_⟩, ?_, rfl, rfl, rfl, rfl, rfl, rfl⟩
    · have e1 := semHolders_setPc s hb.nodup w .semGranted hwmem
      have e2 := semHolders_setPc (setPc s w .semGranted) hb.nodup i v himem
      have hpi : (setPc s w .semGranted).pc i = s.pc i := upd_other _ _ _ _ (Ne.symm hwi)
      rw [hpi] at e2
      rw [hi, hv, b2i_true, b2i_false] at e2
      rw [hwq] at e1
      have q1 : semHolder .semQueued = false := rfl
      have q2 : semHolder .semGranted = true := rfl
      rw [q1, q2, b2i_true, b2i_false] at e1
      show s.semCur = (semHolders (setPc (setPc s w .semGranted) i v) : Int)
      rw [e2, e1, h.cur]; omega
    · exact h.le
    · exact (List.nodup_cons.mp hnd).2
    · intro id
      show id ∈ t ↔ upd (upd s.pc w .semGranted) i v id = .semQueued
      by_cases hid : id = i
      · subst hid; simp only [upd_same]
        constructor
        · intro hm
          have : id ∈ s.semWaiters := by rw [hws]; exact List.mem_cons_of_mem _ hm
          exact absurd ((h.mem id).mp this) hiq
        · intro hh; exact absurd hh hvq
      · rw [upd_other _ _ _ _ hid]
        by_cases hidw : id = w
        · subst hidw; simp only [upd_same]
          constructor
          · intro hm; exact absurd hm hwt
          · intro hh; cases hh
        · rw [upd_other _ _ _ _ hidw, ← h.mem id, hws]
          simp [hidw]
    · intro _; exact hfull
    · intro j; show upd (upd s.pc w .semGranted) i v j = _
      by_cases hj : j = i
      · subst hj; simp
      · rw [upd_other _ _ _ _ hj, if_neg hj]
        by_cases hjw : j = w
        · subst hjw; simp
        · rw [upd_other _ _ _ _ hjw]
          have : ¬ (some w = some j) := by intro hh; injection hh with hh; exact hjw hh.symm
          simp [this]


theorem Inv_release {s : State} (h : Inv s) (i : Id) (v : Pc)
    (hi : semHolder (s.pc i) = true) (hie : epHolder (s.pc i) = true)
    (hv : semHolder v = false) (hve : epHolder v = true) (hvq : v ≠ .semQueued) (hvi : v ≠ .idle) (hveq : v ≠ .epQueued) :
    Inv (setPc (semRelease s) i v) := by
  obtain ⟨hsem, hpc, heps, hids, hkey, hel, hl, _⟩ := InvSem_release h.base h.sem i v hi hv hvq hvi
  have hiq : s.pc i ≠ .epQueued := by intro hh; rw [hh] at hi; simp [semHolder] at hi
  have hii : s.pc i ≠ .idle := by intro hh; rw [hh] at hi; simp [semHolder] at hi
  have hhead : ∀ j, s.semWaiters.head? = some j → s.pc j = .semQueued := by
    intro j hj; exact (h.sem.mem j).mp (List.mem_of_mem_head? (by rw [hj]; rfl))
  refine ⟨InvBase_frame h.base hids hl hel ?_, InvEp_frame h.ep heps hids hkey hel ?_, hsem⟩
  · intro j; rw [hpc]
    by_cases hj : j = i
    · subst hj; simp [hvi, hii]
    · rw [if_neg hj]
      by_cases hw : s.semWaiters.head? = some j
      · simp [hw, hhead j hw]
      · simp [hw]
  · intro j; rw [hpc]
    by_cases hj : j = i
    · subst hj; rw [if_pos rfl, hve, hie]
      have e1 : (v == Pc.epQueued) = false := by simpa using hveq
      have e2 : (s.pc j == Pc.epQueued) = false := by simpa using hiq
      rw [e1, e2]; exact ⟨rfl, rfl⟩
    · rw [if_neg hj]
      by_cases hw : s.semWaiters.head? = some j
      · rw [if_pos hw, hhead j hw]; exact ⟨rfl, rfl⟩
      · rw [if_neg hw]; exact ⟨rfl, rfl⟩

/-- `Acquire` by a request that holds an endpoint slot and is about to ask for a unit -/
theorem Inv_semAcquire {s : State} (h : Inv s) (i : Id) (hi : s.pc i = .epGranted) : Inv (semAcquire s i) := by
  have himem : i ∈ s.ids := mem_ids_of_pc h.base hi (by simp)
  unfold semAcquire
  split
  · apply Inv_setPc_class h <;> simp [hi, epHolder, semHolder]
  · split
    · rename_i hc hfree
      -- fast path
      have hpc : ∀ j, (setPc { s with semCur := s.semCur + 1 } i .running).pc j = if j = i then .running else s.pc j := fun j => rfl
      refine ⟨InvBase_frame h.base rfl rfl rfl ?_, InvEp_frame h.ep rfl rfl rfl rfl ?_, ?_⟩
      · intro j; rw [hpc]; by_cases hj : j = i <;> simp [hj, hi]
      · intro j; rw [hpc]; by_cases hj : j = i
        · subst hj; rw [if_pos rfl, hi]; exact ⟨rfl, rfl⟩
        · rw [if_neg hj]; exact ⟨rfl, rfl⟩
      · have e := semHolders_setPc s h.base.nodup i .running himem
        rw [hi] at e
        have q1 : semHolder .epGranted = false := rfl
        have q2 : semHolder .running = true := rfl
        rw [q1, q2, b2i_true, b2i_false] at e
        constructor
        · show s.semCur + 1 = (semHolders (setPc s i .running) : Int)
          rw [e, h.sem.cur]; omega
        · show s.semCur + 1 ≤ s.limit
          omega
        · exact h.sem.nodup
        · intro id
          show id ∈ s.semWaiters ↔ upd s.pc i .running id = .semQueued
          by_cases hid : id = i
          · subst hid; simp only [upd_same]
            constructor
            · intro hm; rw [hfree.2] at hm; cases hm
            · intro hh; cases hh
          · rw [upd_other _ _ _ _ hid]; exact h.sem.mem id
        · intro hne; exact absurd hfree.2 hne
    · rename_i hc hfree
      have hpc : ∀ j, (setPc { s with semWaiters := s.semWaiters ++ [i] } i .semQueued).pc j = if j = i then .semQueued else s.pc j := fun j => rfl
      refine ⟨InvBase_frame h.base rfl rfl rfl ?_, InvEp_frame h.ep rfl rfl rfl rfl ?_, ?_⟩
      · intro j; rw [hpc]; by_cases hj : j = i <;> simp [hj, hi]
      · intro j; rw [hpc]; by_cases hj : j = i
        · subst hj; rw [if_pos rfl, hi]; exact ⟨rfl, rfl⟩
        · rw [if_neg hj]; exact ⟨rfl, rfl⟩
      · have e := semHolders_setPc s h.base.nodup i .semQueued himem
        rw [hi] at e
        have q1 : semHolder .epGranted = false := rfl
        have q2 : semHolder .semQueued = false := rfl
        rw [q1, q2, b2i_false] at e
        have hni : i ∉ s.semWaiters := by
          intro hm; have := (h.sem.mem i).mp hm; rw [hi] at this; cases this
        constructor
        · show s.semCur = (semHolders (setPc s i .semQueued) : Int)
          rw [e, h.sem.cur]; omega
        · exact h.sem.le
        · show (s.semWaiters ++ [i]).Nodup
          rw [List.nodup_append]
          refine ⟨h.sem.nodup, by simp, ?_⟩
          intro a ha b hb; simp at hb; subst hb; intro hab; subst hab; exact hni ha
        · intro id
          show id ∈ s.semWaiters ++ [i] ↔ upd s.pc i .semQueued id = .semQueued
          by_cases hid : id = i
          · subst hid; simp
          · rw [upd_other _ _ _ _ hid, List.mem_append]; simp [hid, h.sem.mem id]
        · intro _
          show s.semCur = s.limit
          by_cases hw : s.semWaiters = []
          · have : ¬ (s.limit - s.semCur ≥ 1) := fun hh => hfree ⟨hh, hw⟩
            have := h.sem.le; omega
          · exact h.sem.full hw

/-- `Acquire`'s `ctx.Done()` branch -/
theorem Inv_semCancel {s : State} (h : Inv s) (i : Id) (hi : s.pc i = .semQueued ∨ s.pc i = .semGranted) :
    Inv (semCancel s i) := by
  unfold semCancel
  split
  · rename_i hg
    exact Inv_release h i (.relEp .ctx) (by rw [hg]; rfl) (by rw [hg]; rfl) rfl rfl (by simp) (by simp) (by simp)
  · rename_i hg
    have hq : s.pc i = .semQueued := by cases hi with | inl h => exact h | inr h => exact absurd h hg
    have himem : i ∈ s.ids := mem_ids_of_pc h.base hq (by simp)
    have hiw : i ∈ s.semWaiters := (h.sem.mem i).mpr hq
    have hne : s.semWaiters ≠ [] := by intro hh; rw [hh] at hiw; cases hiw
    have hfull := h.sem.full hne
    have hno : ¬ (s.semWaiters.head? = some i ∧ s.limit > s.semCur) := by intro hh; omega
    simp only [hno, if_false]
    have hpc : ∀ j, (setPc { s with semWaiters := s.semWaiters.erase i } i (.relEp .ctx)).pc j = if j = i then .relEp .ctx else s.pc j := fun j => rfl
    refine ⟨InvBase_frame h.base rfl rfl rfl ?_, InvEp_frame h.ep rfl rfl rfl rfl ?_, ?_⟩
    · intro j; rw [hpc]; by_cases hj : j = i <;> simp [hj, hq]
    · intro j; rw [hpc]; by_cases hj : j = i
      · subst hj; rw [if_pos rfl, hq]; exact ⟨rfl, rfl⟩
      · rw [if_neg hj]; exact ⟨rfl, rfl⟩
    · have e := semHolders_setPc s h.base.nodup i (.relEp .ctx) himem
      rw [hq] at e
      have q1 : semHolder .semQueued = false := rfl
      have q2 : semHolder (.relEp .ctx) = false := rfl
      rw [q1, q2, b2i_false] at e
      constructor
      · show s.semCur = (semHolders (setPc s i (.relEp .ctx)) : Int)
        rw [e, h.sem.cur]; omega
      · exact h.sem.le
      · exact h.sem.nodup.erase i
      · intro id
        show id ∈ s.semWaiters.erase i ↔ upd s.pc i (.relEp .ctx) id = .semQueued
        rw [h.sem.nodup.mem_erase_iff]
        by_cases hid : id = i
        · subst hid; simp
        · rw [upd_other _ _ _ _ hid]; simp [hid, h.sem.mem id]
      · intro _; exact hfull


/-! ### the endpoint table -/

theorem holder_pos {s : State} {i : Id} {k : Key} (hm : i ∈ s.ids) (hh : epHolder (s.pc i) = true) (hk : s.key i = k) :
    holders s k ≠ 0 := by
  intro h0
  have := (List.countP_eq_zero.mp h0) i hm
  simp [hh, hk] at this

theorem mem_waitingFor {s : State} {i : Id} {k : Key} : i ∈ waitingFor s k ↔ i ∈ s.ids ∧ s.pc i = .epQueued ∧ s.key i = k := by
  simp [waitingFor, List.mem_filter]

theorem holders_congr {s s' : State} (hids : s'.ids = s.ids) (hkey : s'.key = s.key)
    (hpc : ∀ j, epHolder (s'.pc j) = epHolder (s.pc j)) (k : Key) : holders s' k = holders s k := by
  simp only [holders, hids, hkey]
  apply List.countP_congr; intro x _; rw [hpc x]

/-- `releaseEndpoint` by a holder `i` of a slot for `k := key i`, which is then done -/
theorem Inv_epRelease {s : State} (h : Inv s) (i : Id) (r : Res) (hi : s.pc i = .relEp r) :
    Inv (setPc (epRelease s (s.key i)) i (.done r)) := by
  have himem : i ∈ s.ids := mem_ids_of_pc h.base hi (by simp)
  have hih : epHolder (s.pc i) = true := by rw [hi]; rfl
  unfold epRelease
  cases he : s.eps (s.key i) with
  | none => exact absurd (h.ep.none_ _ he).1 (holder_pos himem hih rfl)
  | some ep =>
    obtain ⟨hc, hc1, hcl, hq⟩ := h.ep.some_ _ ep he
    simp only
    cases hqq : ep.queue with
    | cons w t =>
      simp only
      have hwmem : w ∈ waitingFor s (s.key i) := by rw [← hq, hqq]; simp
      obtain ⟨hwids, hwq, hwk⟩ := mem_waitingFor.mp hwmem
      have hwi : w ≠ i := by intro hh; rw [hh, hi] at hwq; cases hwq
      have hwake : wakeEp s.pc w = upd s.pc w .epGranted := by simp [wakeEp, hwq]
      rw [hwake]
      have hpc : ∀ j, (setPc { s with eps := upd s.eps (s.key i) (some { ep with queue := t }), pc := upd s.pc w .epGranted } i (.done r)).pc j
          = if j = i then .done r else if j = w then .epGranted else s.pc j := by
        intro j; show upd (upd s.pc w .epGranted) i (.done r) j = _
        by_cases hj : j = i
        · subst hj; simp
        · rw [upd_other _ _ _ _ hj, if_neg hj]
          by_cases hjw : j = w
          · subst hjw; simp
          · rw [upd_other _ _ _ _ hjw, if_neg hjw]
      refine ⟨InvBase_frame h.base rfl rfl rfl ?_, ?_, InvSem_frame h.sem rfl rfl rfl ?_ ?_⟩
      · intro j; rw [hpc]
        by_cases hj : j = i
        · subst hj; simp [hi]
        · rw [if_neg hj]; by_cases hjw : j = w
          · subst hjw; simp [hwq]
          · rw [if_neg hjw]
      · -- endpoint table
        have hhold : ∀ k, (holders (setPc (setPc s w .epGranted) i (.done r)) k : Int) = holders s k := by
          intro k
          have e1 := holders_setPc s h.base.nodup w .epGranted hwids k
          have e2 := holders_setPc (setPc s w .epGranted) h.base.nodup i (.done r) himem k
          have hpi : (setPc s w .epGranted).pc i = s.pc i := upd_other _ _ _ _ (Ne.symm hwi)
          rw [hpi, hi] at e2
          rw [hwq] at e1
          have q1 : epHolder .epQueued = false := rfl
          have q2 : epHolder .epGranted = true := rfl
          have q3 : epHolder (.relEp r) = true := rfl
          have q4 : epHolder (.done r) = false := rfl
          rw [q1, q2] at e1; rw [q3, q4] at e2
          show (holders (setPc (setPc s w .epGranted) i (.done r)) k : Int) = _
          rw [e2, e1]
          have hk2 : (setPc s w .epGranted).key i = s.key i := rfl
          rw [hk2, hwk]
          simp only [Bool.false_and, Bool.true_and, b2i_false]
          omega
        have hwait : ∀ k, waitingFor (setPc (setPc s w .epGranted) i (.done r)) k = (waitingFor s k).erase w := by
          intro k
          rw [waitingFor_setPc_same _ _ _ (by simp) (by
            show upd s.pc w .epGranted i ≠ .epQueued
            rw [upd_other _ _ _ _ (Ne.symm hwi), hi]; simp)]
          exact waitingFor_setPc_remove s h.base.nodup w .epGranted (by simp) k
        constructor
        · intro k hk
          have hkne : k ≠ s.key i := by
            intro hh; subst hh
            have : upd s.eps (s.key i) (some { ep with queue := t }) (s.key i) = none := hk
            simp at this
          have hk' : s.eps k = none := by
            have : upd s.eps (s.key i) (some { ep with queue := t }) k = none := hk
            rwa [upd_other _ _ _ _ hkne] at this
          obtain ⟨a, b⟩ := h.ep.none_ k hk'
          constructor
          · have := hhold k
            show holders (setPc (setPc s w .epGranted) i (.done r)) k = 0
            omega
          · show waitingFor (setPc (setPc s w .epGranted) i (.done r)) k = []
            rw [hwait, b]; rfl
        · intro k ep' hk
          by_cases hkk : k = s.key i
          · subst hkk
            have : upd s.eps (s.key i) (some { ep with queue := t }) (s.key i) = some ep' := hk
            rw [upd_same] at this
            injection this with this
            subst this
            refine ⟨?_, hc1, hcl, ?_⟩
            · have := hhold (s.key i)
              show ep.counter = (holders (setPc (setPc s w .epGranted) i (.done r)) (s.key i) : Int)
              omega
            · show t = waitingFor (setPc (setPc s w .epGranted) i (.done r)) (s.key i)
              rw [hwait, ← hq, hqq]; simp
          · have hk' : s.eps k = some ep' := by
              have : upd s.eps (s.key i) (some { ep with queue := t }) k = some ep' := hk
              rwa [upd_other _ _ _ _ hkk] at this
            obtain ⟨a, b, c, d⟩ := h.ep.some_ k ep' hk'
            refine ⟨?_, b, c, ?_⟩
            · have := hhold k
              show ep'.counter = (holders (setPc (setPc s w .epGranted) i (.done r)) k : Int)
              omega
            · show ep'.queue = waitingFor (setPc (setPc s w .epGranted) i (.done r)) k
              rw [hwait, d, List.erase_of_not_mem]
              intro hm; exact hkk ((mem_waitingFor.mp hm).2.2 ▸ hwk.symm ▸ rfl)
      · refine semHolders_congr s _ ?_ ?_
        · rfl
        intro j; rw [hpc]
        by_cases hj : j = i
        · subst hj; rw [if_pos rfl, hi]; rfl
        · rw [if_neg hj]; by_cases hjw : j = w
          · subst hjw; rw [if_pos rfl, hwq]; rfl
          · rw [if_neg hjw]
      · intro j; rw [hpc]
        by_cases hj : j = i
        · subst hj; simp [hi]
        · rw [if_neg hj]; by_cases hjw : j = w
          · subst hjw; simp [hwq]
          · rw [if_neg hjw]
    | nil =>
      simp only
      have hpcx : ∀ (s0 : State), s0.pc = s.pc → ∀ j, (setPc s0 i (.done r)).pc j = if j = i then .done r else s.pc j := by
        intro s0 h0 j; show upd s0.pc i (.done r) j = _; rw [h0]; rfl
      have hhold : ∀ k, (holders (setPc s i (.done r)) k : Int) = holders s k - b2i (s.key i == k) := by
        intro k
        have e2 := holders_setPc s h.base.nodup i (.done r) himem k
        rw [hi] at e2
        have q3 : epHolder (.relEp r) = true := rfl
        have q4 : epHolder (.done r) = false := rfl
        rw [q3, q4] at e2
        rw [e2]; simp
      have hwait : ∀ k, waitingFor (setPc s i (.done r)) k = waitingFor s k := by
        intro k; exact waitingFor_setPc_same s i (.done r) (by simp) (by rw [hi]; simp) k
      have hbase : ∀ (s0 : State), s0.pc = s.pc → s0.ids = s.ids → s0.limit = s.limit → s0.epLimit = s.epLimit →
          InvBase (setPc s0 i (.done r)) := by
        intro s0 h0 h1 h2 h3
        refine InvBase_frame h.base h1 h2 h3 ?_
        intro j; rw [hpcx s0 h0]
        by_cases hj : j = i
        · subst hj; simp [hi]
        · rw [if_neg hj]
      have hsem : ∀ (s0 : State), s0.pc = s.pc → s0.ids = s.ids → s0.limit = s.limit → s0.semCur = s.semCur →
          s0.semWaiters = s.semWaiters → InvSem (setPc s0 i (.done r)) := by
        intro s0 h0 h1 h2 h3 h4
        refine InvSem_frame h.sem h3 h4 h2 ?_ ?_
        · apply semHolders_congr s (setPc s0 i (.done r)) h1
          intro j; rw [hpcx s0 h0]
          by_cases hj : j = i
          · subst hj; rw [if_pos rfl, hi]; rfl
          · rw [if_neg hj]
        · intro j; rw [hpcx s0 h0]
          by_cases hj : j = i
          · subst hj; simp [hi]
          · rw [if_neg hj]
      have hcself : (holders (setPc s i (.done r)) (s.key i) : Int) = ep.counter - 1 := by
        rw [hhold, hc]; simp
      split
      · rename_i hz
        refine ⟨hbase _ rfl rfl rfl rfl, ?_, hsem _ rfl rfl rfl rfl rfl⟩
        constructor
        · intro k hk
          by_cases hkk : k = s.key i
          · subst hkk
            constructor
            · show holders (setPc s i (.done r)) (s.key i) = 0
              omega
            · show waitingFor (setPc s i (.done r)) (s.key i) = []
              rw [hwait, ← hq, hqq]
          · have hk' : s.eps k = none := by
              have : upd s.eps (s.key i) none k = none := hk
              rwa [upd_other _ _ _ _ hkk] at this
            obtain ⟨a, b⟩ := h.ep.none_ k hk'
            constructor
            · have := hhold k
              have hne : (s.key i == k) = false := by simpa using (Ne.symm hkk)
              rw [hne] at this
              show holders (setPc s i (.done r)) k = 0
              simp at this; omega
            · show waitingFor (setPc s i (.done r)) k = []
              rw [hwait, b]
        · intro k ep' hk
          have hkk : k ≠ s.key i := by
            intro hh; subst hh
            have : upd s.eps (s.key i) none (s.key i) = some ep' := hk
            simp at this
          have hk' : s.eps k = some ep' := by
            have : upd s.eps (s.key i) none k = some ep' := hk
            rwa [upd_other _ _ _ _ hkk] at this
          obtain ⟨a, b, c, d⟩ := h.ep.some_ k ep' hk'
          refine ⟨?_, b, c, ?_⟩
          · have := hhold k
            have hne : (s.key i == k) = false := by simpa using (Ne.symm hkk)
            rw [hne] at this
            show ep'.counter = (holders (setPc s i (.done r)) k : Int)
            simp at this; omega
          · show ep'.queue = waitingFor (setPc s i (.done r)) k
            rw [hwait, d]
      · rename_i hz
        refine ⟨hbase _ rfl rfl rfl rfl, ?_, hsem _ rfl rfl rfl rfl rfl⟩
        constructor
        · intro k hk
          have hkk : k ≠ s.key i := by
            intro hh; subst hh
            have : upd s.eps (s.key i) (some ⟨ep.counter - 1, []⟩) (s.key i) = none := hk
            simp at this
          have hk' : s.eps k = none := by
            have : upd s.eps (s.key i) (some ⟨ep.counter - 1, []⟩) k = none := hk
            rwa [upd_other _ _ _ _ hkk] at this
          obtain ⟨a, b⟩ := h.ep.none_ k hk'
          constructor
          · have := hhold k
            have hne : (s.key i == k) = false := by simpa using (Ne.symm hkk)
            rw [hne] at this
            show holders (setPc s i (.done r)) k = 0
            simp at this; omega
          · show waitingFor (setPc s i (.done r)) k = []
            rw [hwait, b]
        · intro k ep' hk
          by_cases hkk : k = s.key i
          · subst hkk
            have : upd s.eps (s.key i) (some ⟨ep.counter - 1, []⟩) (s.key i) = some ep' := hk
            rw [upd_same] at this
            injection this with this
            subst this
            refine ⟨?_, ?_, ?_, ?_⟩
            · show ep.counter - 1 = (holders (setPc s i (.done r)) (s.key i) : Int)
              omega
            · show 1 ≤ ep.counter - 1
              omega
            · show ep.counter - 1 ≤ s.epLimit
              omega
            · show ([] : List Id) = waitingFor (setPc s i (.done r)) (s.key i)
              rw [hwait, ← hq, hqq]
          · have hk' : s.eps k = some ep' := by
              have : upd s.eps (s.key i) (some ⟨ep.counter - 1, []⟩) k = some ep' := hk
              rwa [upd_other _ _ _ _ hkk] at this
            obtain ⟨a, b, c, d⟩ := h.ep.some_ k ep' hk'
            refine ⟨?_, b, c, ?_⟩
            · have := hhold k
              have hne : (s.key i == k) = false := by simpa using (Ne.symm hkk)
              rw [hne] at this
              show ep'.counter = (holders (setPc s i (.done r)) k : Int)
              simp at this; omega
            · show ep'.queue = waitingFor (setPc s i (.done r)) k
              rw [hwait, d]


/-- `cancelEndpoint` -/
theorem Inv_epCancel {s : State} (h : Inv s) (i : Id) (hi : s.pc i = .epQueued ∨ s.pc i = .epGranted) :
    Inv (epCancel s i) := by
  have himem : i ∈ s.ids := by
    cases hi with
    | inl hq => exact mem_ids_of_pc h.base hq (by simp)
    | inr hg => exact mem_ids_of_pc h.base hg (by simp)
  have hgranted : s.pc i = .epGranted → Inv (setPc s i (.relEp .ctx)) := by
    intro hg
    apply Inv_setPc_class h <;> simp [hg, epHolder, semHolder]
  cases he : s.eps (s.key i) with
  | none =>
    simp only [epCancel, he]
    cases hi with
    | inl hq =>
      have : i ∈ waitingFor s (s.key i) := mem_waitingFor.mpr ⟨himem, hq, rfl⟩
      rw [(h.ep.none_ _ he).2] at this; cases this
    | inr hg => exact hgranted hg
  | some ep =>
    obtain ⟨hc, hc1, hcl, hq⟩ := h.ep.some_ _ ep he
    simp only [epCancel, he]
    split
    · rename_i hmem
      have hiq : s.pc i = .epQueued := by rw [hq] at hmem; exact (mem_waitingFor.mp hmem).2.1
      have hpc : ∀ j, (setPc { s with eps := upd s.eps (s.key i) (some { ep with queue := ep.queue.erase i }) } i (.done .ctx)).pc j
          = if j = i then .done .ctx else s.pc j := fun j => rfl
      refine ⟨InvBase_frame h.base rfl rfl rfl ?_, ?_, InvSem_frame h.sem rfl rfl rfl ?_ ?_⟩
      · intro j; rw [hpc]
        by_cases hj : j = i
        · subst hj; simp [hiq]
        · rw [if_neg hj]
      · have hhold : ∀ k, holders (setPc s i (.done .ctx)) k = holders s k := by
          intro k
          apply holders_congr (s := s) (s' := setPc s i (.done .ctx)) rfl rfl
          intro j; show epHolder (upd s.pc i (.done .ctx) j) = _
          by_cases hj : j = i
          · subst hj; rw [upd_same, hiq]; rfl
          · rw [upd_other _ _ _ _ hj]
        have hwait : ∀ k, waitingFor (setPc s i (.done .ctx)) k = (waitingFor s k).erase i :=
          fun k => waitingFor_setPc_remove s h.base.nodup i (.done .ctx) (by simp) k
        constructor
        · intro k hk
          have hkne : k ≠ s.key i := by
            intro hh; subst hh
            have : upd s.eps (s.key i) (some { ep with queue := ep.queue.erase i }) (s.key i) = none := hk
            simp at this
          have hk' : s.eps k = none := by
            have : upd s.eps (s.key i) (some { ep with queue := ep.queue.erase i }) k = none := hk
            rwa [upd_other _ _ _ _ hkne] at this
          obtain ⟨a, b⟩ := h.ep.none_ k hk'
          constructor
          · show holders (setPc s i (.done .ctx)) k = 0
            rw [hhold, a]
          · show waitingFor (setPc s i (.done .ctx)) k = []
            rw [hwait, b]; rfl
        · intro k ep' hk
          by_cases hkk : k = s.key i
          · subst hkk
            have : upd s.eps (s.key i) (some { ep with queue := ep.queue.erase i }) (s.key i) = some ep' := hk
            rw [upd_same] at this
            injection this with this
            subst this
            refine ⟨?_, hc1, hcl, ?_⟩
            · show ep.counter = (holders (setPc s i (.done .ctx)) (s.key i) : Int)
              rw [hhold, hc]
            · show ep.queue.erase i = waitingFor (setPc s i (.done .ctx)) (s.key i)
              rw [hwait, hq]
          · have hk' : s.eps k = some ep' := by
              have : upd s.eps (s.key i) (some { ep with queue := ep.queue.erase i }) k = some ep' := hk
              rwa [upd_other _ _ _ _ hkk] at this
            obtain ⟨a, b, c, d⟩ := h.ep.some_ k ep' hk'
            refine ⟨?_, b, c, ?_⟩
            · show ep'.counter = (holders (setPc s i (.done .ctx)) k : Int)
              rw [hhold, a]
            · show ep'.queue = waitingFor (setPc s i (.done .ctx)) k
              rw [hwait, d, List.erase_of_not_mem]
              intro hm; exact hkk ((mem_waitingFor.mp hm).2.2).symm
      · refine semHolders_congr s _ ?_ ?_
        · rfl
        · intro j; rw [hpc]
          by_cases hj : j = i
          · subst hj; rw [if_pos rfl, hiq]; rfl
          · rw [if_neg hj]
      · intro j; rw [hpc]
        by_cases hj : j = i
        · subst hj; simp [hiq]
        · rw [if_neg hj]
    · rename_i hmem
      cases hi with
      | inl hqq =>
        exact absurd (hq ▸ mem_waitingFor.mpr ⟨himem, hqq, rfl⟩) hmem
      | inr hg => exact hgranted hg


/-! ### arrival -/

section Arrive
variable (s : State) (id : Id) (k : Key) (v : Pc) (eps' : Key → Option Ep)

/-- the state after the registering section, whatever it did to the table -/
def arrived : State := { s with key := upd s.key id k, ids := s.ids ++ [id], pc := upd s.pc id v, eps := eps' }

theorem holders_arrived (hn : id ∉ s.ids) (k' : Key) :
    holders (arrived s id k v eps') k' = holders s k' + (if (epHolder v && k == k') = true then 1 else 0) := by
  simp only [holders, arrived, List.countP_append, List.countP_cons, List.countP_nil, upd_same, Nat.zero_add]
  congr 1
  apply List.countP_congr
  intro x hx
  have : x ≠ id := fun hh => hn (hh ▸ hx)
  simp [upd_other _ _ _ _ this]

theorem waitingFor_arrived (hn : id ∉ s.ids) (k' : Key) :
    waitingFor (arrived s id k v eps') k' = waitingFor s k' ++ (if (v == .epQueued && k == k') = true then [id] else []) := by
  simp only [waitingFor, arrived, List.filter_append, upd_same]
  congr 1
  · apply List.filter_congr
    intro x hx
    have : x ≠ id := fun hh => hn (hh ▸ hx)
    simp [upd_other _ _ _ _ this]
  · simp [List.filter_cons]

theorem semHolders_arrived (hn : id ∉ s.ids) (hv : semHolder v = false) :
    semHolders (arrived s id k v eps') = semHolders s := by
  simp only [semHolders, arrived, List.countP_append, List.countP_cons, List.countP_nil, upd_same, hv]
  simp only [Bool.false_eq_true, if_false, Nat.add_zero]
  apply List.countP_congr
  intro x hx
  have : x ≠ id := fun hh => hn (hh ▸ hx)
  simp [upd_other _ _ _ _ this]

end Arrive

theorem Inv_arrive {s : State} (h : Inv s) (id : Id) (k : Key) (hi : s.pc id = .idle) (hn : id ∉ s.ids) :
    Inv (epRegister { s with key := upd s.key id k, ids := s.ids ++ [id] } id k) := by
  have base : ∀ v eps', v ≠ .idle → InvBase (arrived s id k v eps') := by
    intro v eps' hv
    constructor
    · exact h.base.limit_pos
    · exact h.base.epLimit_pos
    · show (s.ids ++ [id]).Nodup
      rw [List.nodup_append]
      refine ⟨h.base.nodup, by simp, ?_⟩
      intro a ha b hb; simp at hb; subst hb; intro hab; subst hab; exact hn ha
    · intro j
      show j ∈ s.ids ++ [id] ↔ upd s.pc id v j ≠ .idle
      by_cases hj : j = id
      · subst hj; simp [hv]
      · rw [upd_other _ _ _ _ hj, List.mem_append]; simp [hj, h.base.arrived j]
  have sem : ∀ v eps', semHolder v = false → v ≠ .semQueued → InvSem (arrived s id k v eps') := by
    intro v eps' hv hq
    refine InvSem_frame h.sem rfl rfl rfl (semHolders_arrived s id k v eps' hn hv) ?_
    intro j
    show upd s.pc id v j = .semQueued ↔ _
    by_cases hj : j = id
    · subst hj; simp [hq, hi]
    · rw [upd_other _ _ _ _ hj]
  unfold epRegister
  cases he : s.eps k with
  | none =>
    simp only [he]
    refine ⟨base .epGranted _ (by simp), ?_, sem .epGranted _ rfl (by simp)⟩
    obtain ⟨a, b⟩ := h.ep.none_ k he
    constructor
    · intro k' hk
      have hkne : k' ≠ k := by
        intro hh; subst hh
        have : upd s.eps k' (some ⟨1, []⟩) k' = none := hk
        simp at this
      have hk' : s.eps k' = none := by
        have : upd s.eps k (some ⟨1, []⟩) k' = none := hk
        rwa [upd_other _ _ _ _ hkne] at this
      obtain ⟨a', b'⟩ := h.ep.none_ k' hk'
      have hne : (k == k') = false := by simpa using (Ne.symm hkne)
      constructor
      · show holders (arrived s id k .epGranted _) k' = 0
        rw [holders_arrived _ _ _ _ _ hn, a', hne]; simp
      · show waitingFor (arrived s id k .epGranted _) k' = []
        rw [waitingFor_arrived _ _ _ _ _ hn, b']; simp
    · intro k' ep' hk
      by_cases hkk : k' = k
      · subst hkk
        have : upd s.eps k' (some ⟨1, []⟩) k' = some ep' := hk
        rw [upd_same] at this
        injection this with this
        subst this
        refine ⟨?_, by decide, h.base.epLimit_pos, ?_⟩
        · show (1 : Int) = (holders (arrived s id k' .epGranted _) k' : Int)
          rw [holders_arrived _ _ _ _ _ hn, a]; simp [epHolder]
        · show [] = waitingFor (arrived s id k' .epGranted _) k'
          rw [waitingFor_arrived _ _ _ _ _ hn, b]; simp
      · have hk' : s.eps k' = some ep' := by
          have : upd s.eps k (some ⟨1, []⟩) k' = some ep' := hk
          rwa [upd_other _ _ _ _ hkk] at this
        obtain ⟨a', b', c', d'⟩ := h.ep.some_ k' ep' hk'
        have hne : (k == k') = false := by simpa using (Ne.symm hkk)
        refine ⟨?_, b', c', ?_⟩
        · show ep'.counter = (holders (arrived s id k .epGranted _) k' : Int)
          rw [holders_arrived _ _ _ _ _ hn, a', hne]; simp
        · show ep'.queue = waitingFor (arrived s id k .epGranted _) k'
          rw [waitingFor_arrived _ _ _ _ _ hn, d', hne]; simp
  | some ep =>
    obtain ⟨a, b, c, d⟩ := h.ep.some_ k ep he
    simp only [he]
    split
    · rename_i hlt
      refine ⟨base .epGranted _ (by simp), ?_, sem .epGranted _ rfl (by simp)⟩
      constructor
      · intro k' hk
        have hkne : k' ≠ k := by
          intro hh; subst hh
          have : upd s.eps k' (some { ep with counter := ep.counter + 1 }) k' = none := hk
          simp at this
        have hk' : s.eps k' = none := by
          have : upd s.eps k (some { ep with counter := ep.counter + 1 }) k' = none := hk
          rwa [upd_other _ _ _ _ hkne] at this
        obtain ⟨a', b'⟩ := h.ep.none_ k' hk'
        have hne : (k == k') = false := by simpa using (Ne.symm hkne)
        constructor
        · show holders (arrived s id k .epGranted _) k' = 0
          rw [holders_arrived _ _ _ _ _ hn, a', hne]; simp
        · show waitingFor (arrived s id k .epGranted _) k' = []
          rw [waitingFor_arrived _ _ _ _ _ hn, b']; simp
      · intro k' ep' hk
        by_cases hkk : k' = k
        · subst hkk
          have : upd s.eps k' (some { ep with counter := ep.counter + 1 }) k' = some ep' := hk
          rw [upd_same] at this
          injection this with this
          subst this
          refine ⟨?_, ?_, ?_, ?_⟩
          · show ep.counter + 1 = (holders (arrived s id k' .epGranted _) k' : Int)
            rw [holders_arrived _ _ _ _ _ hn, a]; simp [epHolder]
          · show 1 ≤ ep.counter + 1
            omega
          · show ep.counter + 1 ≤ s.epLimit
            omega
          · show ep.queue = waitingFor (arrived s id k' .epGranted _) k'
            rw [waitingFor_arrived _ _ _ _ _ hn, d]; simp
        · have hk' : s.eps k' = some ep' := by
            have : upd s.eps k (some { ep with counter := ep.counter + 1 }) k' = some ep' := hk
            rwa [upd_other _ _ _ _ hkk] at this
          obtain ⟨a', b', c', d'⟩ := h.ep.some_ k' ep' hk'
          have hne : (k == k') = false := by simpa using (Ne.symm hkk)
          refine ⟨?_, b', c', ?_⟩
          · show ep'.counter = (holders (arrived s id k .epGranted _) k' : Int)
            rw [holders_arrived _ _ _ _ _ hn, a', hne]; simp
          · show ep'.queue = waitingFor (arrived s id k .epGranted _) k'
            rw [waitingFor_arrived _ _ _ _ _ hn, d', hne]; simp
    · rename_i hlt
      refine ⟨base .epQueued _ (by simp), ?_, sem .epQueued _ rfl (by simp)⟩
      constructor
      · intro k' hk
        have hkne : k' ≠ k := by
          intro hh; subst hh
          have : upd s.eps k' (some { ep with queue := ep.queue ++ [id] }) k' = none := hk
          simp at this
        have hk' : s.eps k' = none := by
          have : upd s.eps k (some { ep with queue := ep.queue ++ [id] }) k' = none := hk
          rwa [upd_other _ _ _ _ hkne] at this
        obtain ⟨a', b'⟩ := h.ep.none_ k' hk'
        have hne : (k == k') = false := by simpa using (Ne.symm hkne)
        constructor
        · show holders (arrived s id k .epQueued _) k' = 0
          rw [holders_arrived _ _ _ _ _ hn, a']; simp [epHolder]
        · show waitingFor (arrived s id k .epQueued _) k' = []
          rw [waitingFor_arrived _ _ _ _ _ hn, b', hne]; simp
      · intro k' ep' hk
        by_cases hkk : k' = k
        · subst hkk
          have : upd s.eps k' (some { ep with queue := ep.queue ++ [id] }) k' = some ep' := hk
          rw [upd_same] at this
          injection this with this
          subst this
          refine ⟨?_, b, c, ?_⟩
          · show ep.counter = (holders (arrived s id k' .epQueued _) k' : Int)
            rw [holders_arrived _ _ _ _ _ hn, a]; simp [epHolder]
          · show ep.queue ++ [id] = waitingFor (arrived s id k' .epQueued _) k'
            rw [waitingFor_arrived _ _ _ _ _ hn, d]; simp
        · have hk' : s.eps k' = some ep' := by
            have : upd s.eps k (some { ep with queue := ep.queue ++ [id] }) k' = some ep' := hk
            rwa [upd_other _ _ _ _ hkk] at this
          obtain ⟨a', b', c', d'⟩ := h.ep.some_ k' ep' hk'
          have hne : (k == k') = false := by simpa using (Ne.symm hkk)
          refine ⟨?_, b', c', ?_⟩
          · show ep'.counter = (holders (arrived s id k .epQueued _) k' : Int)
            rw [holders_arrived _ _ _ _ _ hn, a']; simp [epHolder]
          · show ep'.queue = waitingFor (arrived s id k .epQueued _) k'
            rw [waitingFor_arrived _ _ _ _ _ hn, d', hne]; simp


/-! ### every event preserves the invariant -/

theorem Inv_cancelFlag {s : State} (h : Inv s) (id : Id) : Inv { s with cancelled := upd s.cancelled id true } :=
  ⟨InvBase_frame h.base rfl rfl rfl (fun _ => Iff.rfl), InvEp_frame h.ep rfl rfl rfl rfl (fun _ => ⟨rfl, rfl⟩),
   InvSem_frame h.sem rfl rfl rfl rfl (fun _ => Iff.rfl)⟩

theorem Inv_step {s : State} (h : Inv s) (ev : Event) : Inv (step s ev) := by
  cases ev with
  | arrive id k =>
    simp only [step]
    split
    · rename_i hc; exact Inv_arrive h id k hc.1 hc.2
    · exact h
  | cancel id => exact Inv_cancelFlag h id
  | finish id =>
    simp only [step]
    split
    · rename_i hc
      apply Inv_setPc_class h <;> simp [hc, epHolder, semHolder]
    · exact h
  | step id br =>
    have hrel : ∀ v, semHolder (s.pc id) = true → epHolder (s.pc id) = true → v = Pc.relEp .ctx ∨ v = Pc.relEp .ok →
        Inv (setPc (semRelease s) id v) := by
      intro v h1 h2 hv
      rcases hv with hv | hv <;> subst hv <;>
        exact Inv_release h id _ h1 h2 rfl rfl (by simp) (by simp) (by simp)
    cases hp : s.pc id <;> cases br <;> simp only [step, hp]
    all_goals first
      | exact h
      | exact Inv_semAcquire h id hp
      | exact Inv_epRelease h id _ hp
      | exact hrel _ (by rw [hp]; rfl) (by rw [hp]; rfl) (Or.inr rfl)
      | (split
         · first
           | exact Inv_epCancel h id (Or.inl hp)
           | exact Inv_epCancel h id (Or.inr hp)
           | exact Inv_semCancel h id (Or.inl hp)
           | exact Inv_semCancel h id (Or.inr hp)
           | exact hrel _ (by rw [hp]; rfl) (by rw [hp]; rfl) (Or.inl rfl)
         · first
           | exact h
           | (apply Inv_setPc_class h <;> simp [hp, epHolder, semHolder]))

theorem effective_pos (l : Int) : 1 ≤ effective l := by
  unfold effective maxInt64; split <;> omega

theorem Inv_init (limit epLimit : Int) : Inv (init limit epLimit) := by
  refine ⟨⟨effective_pos _, effective_pos _, List.nodup_nil, ?_⟩, ⟨?_, ?_⟩, ⟨rfl, ?_, List.nodup_nil, ?_, ?_⟩⟩
  · intro id; simp [init]
  · intro k _; exact ⟨rfl, rfl⟩
  · intro k ep hk; simp [init] at hk
  · show (0 : Int) ≤ effective limit
    have := effective_pos limit; omega
  · intro id; simp [init]
  · intro hne; exact absurd rfl hne

theorem Inv_run {s : State} (h : Inv s) (evs : List Event) : Inv (run s evs) := by
  induction evs generalizing s with
  | nil => exact h
  | cons e t ih => exact ih (Inv_step h e)

theorem Inv_reachable (limit epLimit : Int) (evs : List Event) : Inv (run (init limit epLimit) evs) :=
  Inv_run (Inv_init limit epLimit) evs


/-! ### who can change whose program counter -/

theorem notifyLoop_pc (limit : Int) (ws : List Id) : ∀ (cur : Int) (pc : Id → Pc) (j : Id),
    (notifyLoop limit cur ws pc).2.2 j = pc j ∨ (pc j = .semQueued ∧ (notifyLoop limit cur ws pc).2.2 j = .semGranted) := by
  induction ws with
  | nil => intro cur pc j; exact Or.inl rfl
  | cons w t ih =>
    intro cur pc j
    simp only [notifyLoop]
    split
    · exact Or.inl rfl
    · split
      · rename_i hw
        rcases ih (cur + 1) (upd pc w .semGranted) j with h | h
        · by_cases hj : j = w
          · subst hj; right; rw [h]; simp [hw]
          · left; rw [h, upd_other _ _ _ _ hj]
        · by_cases hj : j = w
          · subst hj; rw [upd_same] at h; exact absurd h.1 (by simp)
          · right; rw [upd_other _ _ _ _ hj] at h; exact h
      · exact ih (cur + 1) pc j

theorem semRelease_pc (s : State) (j : Id) :
    (semRelease s).pc j = s.pc j ∨ (s.pc j = .semQueued ∧ (semRelease s).pc j = .semGranted) :=
  notifyLoop_pc _ _ _ _ j

theorem semRelease_eps (s : State) : (semRelease s).eps = s.eps ∧ (semRelease s).key = s.key ∧ (semRelease s).ids = s.ids :=
  ⟨rfl, rfl, rfl⟩

theorem epRelease_pc (s : State) (k : Key) (j : Id) :
    (epRelease s k).pc j = s.pc j ∨ (∃ ep t, s.eps k = some ep ∧ ep.queue = j :: t) := by
  unfold epRelease
  cases he : s.eps k with
  | none => exact Or.inl rfl
  | some ep =>
    simp only
    cases hq : ep.queue with
    | nil => simp only; split <;> exact Or.inl rfl
    | cons w t =>
      simp only [wakeEp]
      by_cases hj : j = w
      · subst hj; exact Or.inr ⟨ep, t, rfl, hq⟩
      · left; split
        · rw [upd_other _ _ _ _ hj]
        · rfl

theorem epCancel_pc_other (s : State) (id j : Id) (hj : j ≠ id) : (epCancel s id).pc j = s.pc j := by
  unfold epCancel
  simp only
  split
  · exact upd_other _ _ _ _ hj
  · split <;> exact upd_other _ _ _ _ hj

theorem semAcquire_pc_other (s : State) (id j : Id) (hj : j ≠ id) : (semAcquire s id).pc j = s.pc j := by
  unfold semAcquire
  split
  · exact upd_other _ _ _ _ hj
  · split <;> exact upd_other _ _ _ _ hj

theorem semCancel_pc_other (s : State) (id j : Id) (hj : j ≠ id) :
    (semCancel s id).pc j = s.pc j ∨ (s.pc j = .semQueued ∧ (semCancel s id).pc j = .semGranted) := by
  unfold semCancel
  split
  · show upd _ id _ j = _ ∨ _ ∧ upd _ id _ j = _
    rw [upd_other _ _ _ _ hj]
    exact notifyLoop_pc _ _ _ _ j
  · simp only
    split
    · show upd _ id _ j = _ ∨ _ ∧ upd _ id _ j = _
      rw [upd_other _ _ _ _ hj]
      exact notifyLoop_pc _ _ _ _ j
    · left; exact upd_other _ _ _ _ hj

/-- A request that waits for an endpoint slot is admitted only by a release that finds it at the head of its path's queue. -/
theorem admitted_only_from_head (s : State) (ev : Event) (b : Id) (hb : s.pc b = .epQueued)
    (hg : (step s ev).pc b = .epGranted) :
    ∃ i ep t, s.eps (s.key i) = some ep ∧ ep.queue = b :: t := by
  have hne : Pc.epQueued ≠ Pc.epGranted := by simp
  cases ev with
  | arrive id k =>
    simp only [step] at hg
    split at hg
    · rename_i hc
      have hbi : b ≠ id := by intro hh; rw [hh, hc.1] at hb; cases hb
      exfalso
      unfold epRegister at hg
      simp only at hg
      split at hg
      · simp only [upd_other _ _ _ _ hbi] at hg; rw [hb] at hg; cases hg
      · split at hg
        · simp only [upd_other _ _ _ _ hbi] at hg; rw [hb] at hg; cases hg
        · simp only [upd_other _ _ _ _ hbi] at hg; rw [hb] at hg; cases hg
    · rw [hb] at hg; cases hg
  | cancel id => simp only [step] at hg; rw [hb] at hg; cases hg
  | finish id =>
    simp only [step] at hg
    split at hg
    · rename_i hc
      have hbi : b ≠ id := by intro hh; rw [hh, hc] at hb; cases hb
      simp only [setPc, upd_other _ _ _ _ hbi] at hg; rw [hb] at hg; cases hg
    · rw [hb] at hg; cases hg
  | step id br =>
    by_cases hbi : b = id
    · subst hbi
      exfalso
      cases br <;> simp only [step, hb] at hg
      · cases hg
      · split at hg
        · unfold epCancel at hg
          simp only at hg
          split at hg
          · simp [setPc] at hg
          · split at hg <;> simp [setPc] at hg
        · first | cases hg | (rw [hb] at hg; cases hg)
    · cases hp : s.pc id <;> cases br <;> simp only [step, hp] at hg
      all_goals first
        | (rw [hb] at hg; cases hg)
        | (split at hg <;> first
            | (rw [hb] at hg; cases hg)
            | skip)
        | skip
      all_goals first
        | (rw [epCancel_pc_other s id b hbi, hb] at hg; cases hg)
        | (rw [semAcquire_pc_other s id b hbi, hb] at hg; cases hg)
        | (rcases semCancel_pc_other s id b hbi with h1 | h1
           · rw [h1, hb] at hg; cases hg
           · rw [hb] at h1; cases h1.1)
        | (simp only [setPc, upd_other _ _ _ _ hbi] at hg
           first
             | (rw [hb] at hg; cases hg)
             | (rcases semRelease_pc s b with h1 | h1
                · rw [h1, hb] at hg; cases hg
                · rw [hb] at h1; cases h1.1)
             | (rcases epRelease_pc s (s.key id) b with h1 | h1
                · rw [h1, hb] at hg; cases hg
                · obtain ⟨ep, t, h2, h3⟩ := h1
                  exact ⟨id, ep, t, h2, h3⟩))

/-- the request whose goroutine (or context / wrapped function) an event belongs to -/
def actor : Event → Id
  | .arrive id _ => id
  | .cancel id => id
  | .finish id => id
  | .step id _ => id

/-- An event of one request changes another request's program counter only by waking it: a parked semaphore waiter
    becomes `semGranted`, a parked endpoint waiter becomes `epGranted`. -/
theorem step_pc_other (s : State) (ev : Event) (j : Id) (hj : j ≠ actor ev) :
    (step s ev).pc j = s.pc j ∨ (s.pc j = .semQueued ∧ (step s ev).pc j = .semGranted) ∨
      (s.pc j = .epQueued ∧ (step s ev).pc j = .epGranted) := by
  cases ev with
  | arrive id k =>
    simp only [actor] at hj
    simp only [step]
    split
    · left; unfold epRegister; simp only
      split
      · exact upd_other _ _ _ _ hj
      · split <;> exact upd_other _ _ _ _ hj
    · exact Or.inl rfl
  | cancel id => exact Or.inl rfl
  | finish id =>
    simp only [actor] at hj
    simp only [step]
    split
    · left; exact upd_other _ _ _ _ hj
    · exact Or.inl rfl
  | step id br =>
    simp only [actor] at hj
    have hrel : ∀ v, (setPc (semRelease s) id v).pc j = s.pc j ∨ (s.pc j = .semQueued ∧ (setPc (semRelease s) id v).pc j = .semGranted) := by
      intro v
      show upd _ id v j = _ ∨ _ ∧ upd _ id v j = _
      rw [upd_other _ _ _ _ hj]
      exact semRelease_pc s j
    cases hp : s.pc id <;> cases br <;> simp only [step, hp]
    all_goals first
      | exact Or.inl rfl
      | exact Or.inl trivial
      | (left; exact semAcquire_pc_other s id j hj)
      | (rcases hrel (.relEp .ok) with h1 | h1
         · exact Or.inl h1
         · exact Or.inr (Or.inl h1))
      | (split
         · first
           | (left; exact epCancel_pc_other s id j hj)
           | (rcases semCancel_pc_other s id j hj with h1 | h1
              · exact Or.inl h1
              · exact Or.inr (Or.inl h1))
           | (rcases hrel (.relEp .ctx) with h1 | h1
              · exact Or.inl h1
              · exact Or.inr (Or.inl h1))
         · first
           | exact Or.inl rfl
           | exact Or.inl trivial
           | (left; exact upd_other _ _ _ _ hj))
      | (simp only [setPc, upd_other _ _ _ _ hj]
         unfold epRelease
         cases he : s.eps (s.key id) with
         | none => exact Or.inl rfl
         | some ep =>
           simp only
           cases hq : ep.queue with
           | nil => simp only; split <;> exact Or.inl rfl
           | cons w t =>
             simp only [wakeEp]
             split
             · rename_i hw
               by_cases hjw : j = w
               · subst hjw; right; right; exact ⟨hw, upd_same _ _ _⟩
               · left; exact upd_other _ _ _ _ hjw
             · exact Or.inl rfl)

/-- the configured limits never change -/
theorem step_limits (s : State) (ev : Event) : (step s ev).limit = s.limit ∧ (step s ev).epLimit = s.epLimit := by
  have hreg : ∀ (s : State) id k, (epRegister s id k).limit = s.limit ∧ (epRegister s id k).epLimit = s.epLimit := by
    intro s id k; unfold epRegister; split
    · exact ⟨rfl, rfl⟩
    · split <;> exact ⟨rfl, rfl⟩
  have hcan : ∀ (s : State) id, (epCancel s id).limit = s.limit ∧ (epCancel s id).epLimit = s.epLimit := by
    intro s id; unfold epCancel; simp only; split
    · exact ⟨rfl, rfl⟩
    · split <;> exact ⟨rfl, rfl⟩
  have hacq : ∀ (s : State) id, (semAcquire s id).limit = s.limit ∧ (semAcquire s id).epLimit = s.epLimit := by
    intro s id; unfold semAcquire; split
    · exact ⟨rfl, rfl⟩
    · split <;> exact ⟨rfl, rfl⟩
  have hsc : ∀ (s : State) id, (semCancel s id).limit = s.limit ∧ (semCancel s id).epLimit = s.epLimit := by
    intro s id; unfold semCancel; split
    · exact ⟨rfl, rfl⟩
    · simp only; split <;> exact ⟨rfl, rfl⟩
  have hrel : ∀ (s : State) k, (epRelease s k).limit = s.limit ∧ (epRelease s k).epLimit = s.epLimit := by
    intro s k; unfold epRelease; split
    · exact ⟨rfl, rfl⟩
    · split
      · exact ⟨rfl, rfl⟩
      · split <;> exact ⟨rfl, rfl⟩
  cases ev with
  | arrive id k => simp only [step]; split; exact hreg _ id k; exact ⟨rfl, rfl⟩
  | cancel id => exact ⟨rfl, rfl⟩
  | finish id => simp only [step]; split <;> exact ⟨rfl, rfl⟩
  | step id br =>
    cases hp : s.pc id <;> cases br <;> simp only [step, hp]
    all_goals first
      | exact ⟨rfl, rfl⟩
      | exact ⟨trivial, trivial⟩
      | exact hacq s id
      | exact hrel s (s.key id)
      | (split <;> first | exact ⟨rfl, rfl⟩ | exact hcan s id | exact hsc s id)

theorem run_limits (evs : List Event) : ∀ s : State, (run s evs).limit = s.limit ∧ (run s evs).epLimit = s.epLimit := by
  induction evs with
  | nil => intro s; exact ⟨rfl, rfl⟩
  | cons e t ih =>
    intro s
    show (run (step s e) t).limit = _ ∧ (run (step s e) t).epLimit = _
    rw [(ih _).1, (ih _).2]; exact step_limits s e

/-- a path has waiters only while all its slots are taken -/
def QFull (s : State) : Prop := ∀ k ep, s.eps k = some ep → ep.queue ≠ [] → ep.counter = s.epLimit

theorem QFull_of_eps {s s' : State} (h : QFull s) (he : s'.eps = s.eps) (hl : s'.epLimit = s.epLimit) : QFull s' := by
  intro k ep hk hq; rw [he] at hk; rw [hl]; exact h k ep hk hq

theorem semNotify_eps (s : State) : (semNotify s).eps = s.eps ∧ (semNotify s).epLimit = s.epLimit := ⟨rfl, rfl⟩

theorem semAcquire_eps (s : State) (id : Id) : (semAcquire s id).eps = s.eps ∧ (semAcquire s id).epLimit = s.epLimit := by
  unfold semAcquire; split
  · exact ⟨rfl, rfl⟩
  · split <;> exact ⟨rfl, rfl⟩

theorem semCancel_eps (s : State) (id : Id) : (semCancel s id).eps = s.eps ∧ (semCancel s id).epLimit = s.epLimit := by
  unfold semCancel; split
  · exact ⟨rfl, rfl⟩
  · simp only; split <;> exact ⟨rfl, rfl⟩

theorem QFull_epRegister {s : State} (h : QFull s) (hle : ∀ k ep, s.eps k = some ep → ep.counter ≤ s.epLimit)
    (id : Id) (k : Key) : QFull (epRegister s id k) := by
  unfold epRegister
  cases he : s.eps k with
  | none =>
    intro k' ep' hk' hq
    by_cases hkk : k' = k
    · subst hkk
      have : upd s.eps k' (some ⟨1, []⟩) k' = some ep' := hk'
      rw [upd_same] at this; injection this with this; subst this
      exact absurd rfl hq
    · have : upd s.eps k (some ⟨1, []⟩) k' = some ep' := hk'
      rw [upd_other _ _ _ _ hkk] at this
      exact h k' ep' this hq
  | some ep =>
    simp only
    split
    · rename_i hlt
      intro k' ep' hk' hq
      by_cases hkk : k' = k
      · subst hkk
        have : upd s.eps k' (some { ep with counter := ep.counter + 1 }) k' = some ep' := hk'
        rw [upd_same] at this; injection this with this; subst this
        have := h k' ep he hq
        show ep.counter + 1 = s.epLimit
        omega
      · have : upd s.eps k (some { ep with counter := ep.counter + 1 }) k' = some ep' := hk'
        rw [upd_other _ _ _ _ hkk] at this
        exact h k' ep' this hq
    · rename_i hlt
      intro k' ep' hk' hq
      by_cases hkk : k' = k
      · subst hkk
        have : upd s.eps k' (some { ep with queue := ep.queue ++ [id] }) k' = some ep' := hk'
        rw [upd_same] at this; injection this with this; subst this
        have := hle k' ep he
        show ep.counter = s.epLimit
        omega
      · have : upd s.eps k (some { ep with queue := ep.queue ++ [id] }) k' = some ep' := hk'
        rw [upd_other _ _ _ _ hkk] at this
        exact h k' ep' this hq

theorem QFull_epRelease {s : State} (h : QFull s) (k : Key) : QFull (epRelease s k) := by
  unfold epRelease
  cases he : s.eps k with
  | none => exact h
  | some ep =>
    simp only
    cases hq : ep.queue with
    | cons w t =>
      intro k' ep' hk' hq'
      by_cases hkk : k' = k
      · subst hkk
        have : upd s.eps k' (some { ep with queue := t }) k' = some ep' := hk'
        rw [upd_same] at this; injection this with this; subst this
        exact h k' ep he (by rw [hq]; simp)
      · have : upd s.eps k (some { ep with queue := t }) k' = some ep' := hk'
        rw [upd_other _ _ _ _ hkk] at this
        exact h k' ep' this hq'
    | nil =>
      simp only
      split
      · intro k' ep' hk' hq'
        by_cases hkk : k' = k
        · subst hkk
          have : upd s.eps k' none k' = some ep' := hk'
          simp at this
        · have : upd s.eps k none k' = some ep' := hk'
          rw [upd_other _ _ _ _ hkk] at this
          exact h k' ep' this hq'
      · intro k' ep' hk' hq'
        by_cases hkk : k' = k
        · subst hkk
          have : upd s.eps k' (some ⟨ep.counter - 1, []⟩) k' = some ep' := hk'
          rw [upd_same] at this; injection this with this; subst this
          exact absurd rfl hq'
        · have : upd s.eps k (some ⟨ep.counter - 1, []⟩) k' = some ep' := hk'
          rw [upd_other _ _ _ _ hkk] at this
          exact h k' ep' this hq'

theorem QFull_epCancel {s : State} (h : QFull s) (id : Id) : QFull (epCancel s id) := by
  unfold epCancel
  simp only
  cases he : s.eps (s.key id) with
  | none => exact h
  | some ep =>
    simp only
    split
    · intro k' ep' hk' hq'
      by_cases hkk : k' = s.key id
      · subst hkk
        have : upd s.eps (s.key id) (some { ep with queue := ep.queue.erase id }) (s.key id) = some ep' := hk'
        rw [upd_same] at this; injection this with this; subst this
        apply h _ ep he
        intro hh
        apply hq'
        show ep.queue.erase id = []
        rw [hh]; rfl
      · have : upd s.eps (s.key id) (some { ep with queue := ep.queue.erase id }) k' = some ep' := hk'
        rw [upd_other _ _ _ _ hkk] at this
        exact h k' ep' this hq'
    · exact h

theorem QFull_step {s : State} (hI : Inv s) (h : QFull s) (ev : Event) : QFull (step s ev) := by
  have hle : ∀ k ep, s.eps k = some ep → ep.counter ≤ s.epLimit := fun k ep hk => (hI.ep.some_ k ep hk).2.2.1
  cases ev with
  | arrive id k =>
    simp only [step]
    split
    · exact QFull_epRegister (s := { s with key := upd s.key id k, ids := s.ids ++ [id] }) h hle id k
    · exact h
  | cancel id => exact h
  | finish id =>
    simp only [step]
    split
    · exact h
    · exact h
  | step id br =>
    cases hp : s.pc id <;> cases br <;> simp only [step, hp]
    all_goals first
      | exact h
      | exact QFull_of_eps h (semAcquire_eps s id).1 (semAcquire_eps s id).2
      | exact QFull_epRelease h (s.key id)
      | exact QFull_of_eps h rfl rfl
      | (split
         · first
           | exact QFull_epCancel h id
           | exact QFull_of_eps h (semCancel_eps s id).1 (semCancel_eps s id).2
           | exact QFull_of_eps h rfl rfl
         · first
           | exact h
           | exact QFull_of_eps h rfl rfl)

theorem QFull_reachable (limit epLimit : Int) (evs : List Event) : QFull (run (init limit epLimit) evs) := by
  have key : ∀ (evs : List Event) (s : State), Inv s → QFull s → QFull (run s evs) := by
    intro evs
    induction evs with
    | nil => intro s _ h; exact h
    | cons e t ih => intro s hI h; exact ih (step s e) (Inv_step hI e) (QFull_step hI h e)
  exact key evs _ (Inv_init limit epLimit) (by intro k ep hk; simp [init] at hk)

end CoapVerif.Lemmas.Limiter
