import CoapVerif.Lemmas.Limiter
/-!
Order lemmas for C16: what exactly is first-in-first-out in `limitParallelRequests.go`.

Only the **per-path queue** (`orderedRequest`) is ordered by arrival.  A request that has obtained a slot of its path then
calls `semaphore.Acquire`; which of two such requests calls it first is decided by the Go scheduler, so with an endpoint
limit ≥ 2 a later request of a path may enter the wrapped function before an earlier one of the same path (both own a
path slot at that time).  What *is* guaranteed, in every reachable state: a request is never the owner of a path slot
while a request that arrived earlier for the same path is still parked in the path's queue (`NoOvertake`).
-/
namespace CoapVerif.Lemmas.Limiter
open CoapVerif.Model.Limiter

/-- `a` arrived (registered with the limiter) before `b` -/
def Before (l : List Id) (a b : Id) : Prop := ∃ l1 l2, l = l1 ++ a :: l2 ∧ b ∈ l2

theorem Before_mem {l : List Id} {a b : Id} (h : Before l a b) : a ∈ l ∧ b ∈ l := by
  obtain ⟨l1, l2, rfl, hb⟩ := h
  constructor
  · simp
  · simp [hb]

/-- in `l ++ [x]` (without duplicates) nothing comes after `x`, and the order of the others is that of `l` -/
theorem Before_snoc {l : List Id} {x a b : Id} (hnd : (l ++ [x]).Nodup) (h : Before (l ++ [x]) a b) :
    a ≠ x ∧ (b ≠ x → Before l a b) := by
  obtain ⟨l1, l2, hl, hb⟩ := h
  -- l2 is not empty, so the last element of l1 ++ a :: l2 is the last of l2
  have hne : l2 ≠ [] := by intro hh; rw [hh] at hb; cases hb
  obtain ⟨l2', y, rfl⟩ : ∃ l2' y, l2 = l2' ++ [y] := ⟨l2.dropLast, l2.getLast hne, (List.dropLast_concat_getLast hne).symm⟩
  have e : l ++ [x] = (l1 ++ a :: l2') ++ [y] := by rw [hl]; simp
  have hxy := List.append_inj' e rfl
  obtain ⟨hl', hy⟩ := hxy
  simp only [List.cons.injEq, and_true] at hy
  subst hy
  constructor
  · intro hax
    subst hax
    rw [hl'] at hnd
    have := List.nodup_append.mp hnd
    exact this.2.2 a (by simp) a (by simp) rfl
  · intro hbx
    refine ⟨l1, l2', hl', ?_⟩
    simp only [List.mem_append, List.mem_singleton] at hb
    rcases hb with hb | hb
    · exact hb
    · exact absurd hb hbx

/-- One event cannot admit a later waiter of a path while an earlier one is still parked (the queue is the arrival-ordered
    list of the parked requests and only its head is woken). -/
theorem fifo_step {s : State} (h : Inv s) (ev : Event) (a b : Id)
    (ha : s.pc a = .epQueued) (hb : s.pc b = .epQueued) (hk : s.key a = s.key b) (hbef : Before s.ids a b) :
    (step s ev).pc b ≠ .epGranted := by
  intro hg
  obtain ⟨i, ep, t, he, hq⟩ := admitted_only_from_head s ev b hb hg
  have hqa := (h.ep.some_ _ ep he).2.2.2
  have hbw : b ∈ waitingFor s (s.key i) := by rw [← hqa, hq]; simp
  have hki : s.key i = s.key b := ((mem_waitingFor.mp hbw).2.2).symm
  obtain ⟨l1, l2, hl, hbl2⟩ := hbef
  have hnd := h.base.nodup
  have hfilter : waitingFor s (s.key i) =
      l1.filter (fun x => s.pc x == .epQueued && s.key x == s.key i) ++ a :: l2.filter (fun x => s.pc x == .epQueued && s.key x == s.key i) := by
    simp only [waitingFor, hl, List.filter_append, List.filter_cons, ha, hk, hki, beq_self_eq_true, Bool.and_self, if_true]
  rw [← hqa, hq] at hfilter
  rw [hl] at hnd
  have hnd' := List.nodup_append.mp hnd
  cases hf : l1.filter (fun x => s.pc x == .epQueued && s.key x == s.key i) with
  | nil =>
    rw [hf] at hfilter
    simp only [List.nil_append, List.cons.injEq] at hfilter
    have : a ∉ l2 := (List.nodup_cons.mp hnd'.2.1).1
    exact this (hfilter.1 ▸ hbl2)
  | cons c r =>
    rw [hf] at hfilter
    simp only [List.cons_append, List.cons.injEq] at hfilter
    have hb1 : b ∈ l1 := by
      have : b ∈ l1.filter (fun x => s.pc x == .epQueued && s.key x == s.key i) := by rw [hf, hfilter.1]; simp
      exact (List.mem_filter.mp this).1
    exact hnd'.2.2 b hb1 b (List.mem_cons_of_mem _ hbl2) rfl

theorem countP_lt_of_witness {l : List Nat} {p q : Nat → Bool} (hpq : ∀ x ∈ l, p x = true → q x = true)
    {a : Nat} (ha : a ∈ l) (hq : q a = true) (hp : p a = false) : l.countP p < l.countP q := by
  induction l with
  | nil => cases ha
  | cons x t ih =>
    simp only [List.countP_cons]
    have hmono : t.countP p ≤ t.countP q := List.countP_mono_left (fun y hy h => hpq y (List.mem_cons_of_mem _ hy) h)
    rcases List.mem_cons.mp ha with rfl | hat
    · simp [hq, hp]; omega
    · have := ih (fun y hy h => hpq y (List.mem_cons_of_mem _ hy) h) hat
      cases hpx : p x
      · simp; omega
      · have := hpq x (by simp) hpx
        simp [this]; omega

/-! ### what one event does to `ids`, `key` and the acting request -/

/-- an arrival that takes effect -/
def Arrives (s : State) (ev : Event) (id : Id) (k : Key) : Prop := ev = .arrive id k ∧ s.pc id = .idle ∧ id ∉ s.ids

/-- every event other than an effective arrival leaves `ids` and `key` alone -/
theorem step_ids_key (s : State) (ev : Event) :
    (∃ id k, Arrives s ev id k) ∨ ((step s ev).ids = s.ids ∧ (step s ev).key = s.key) := by
  have hcan : ∀ (s : State) id, (epCancel s id).ids = s.ids ∧ (epCancel s id).key = s.key := by
    intro s id; unfold epCancel; simp only; split
    · exact ⟨rfl, rfl⟩
    · split <;> exact ⟨rfl, rfl⟩
  have hacq : ∀ (s : State) id, (semAcquire s id).ids = s.ids ∧ (semAcquire s id).key = s.key := by
    intro s id; unfold semAcquire; split
    · exact ⟨rfl, rfl⟩
    · split <;> exact ⟨rfl, rfl⟩
  have hsc : ∀ (s : State) id, (semCancel s id).ids = s.ids ∧ (semCancel s id).key = s.key := by
    intro s id; unfold semCancel; split
    · exact ⟨rfl, rfl⟩
    · simp only; split <;> exact ⟨rfl, rfl⟩
  have hrel : ∀ (s : State) k, (epRelease s k).ids = s.ids ∧ (epRelease s k).key = s.key := by
    intro s k; unfold epRelease; split
    · exact ⟨rfl, rfl⟩
    · split
      · exact ⟨rfl, rfl⟩
      · split <;> exact ⟨rfl, rfl⟩
  cases ev with
  | arrive id k =>
    by_cases hc : s.pc id = .idle ∧ id ∉ s.ids
    · exact Or.inl ⟨id, k, rfl, hc.1, hc.2⟩
    · right; simp only [step, hc, if_false]; exact ⟨by first | rfl | trivial, by first | rfl | trivial⟩
  | cancel id => exact Or.inr ⟨rfl, rfl⟩
  | finish id => right; simp only [step]; split <;> exact ⟨rfl, rfl⟩
  | step id br =>
    right
    cases hp : s.pc id <;> cases br <;> simp only [step, hp]
    all_goals first
      | exact ⟨rfl, rfl⟩
      | exact ⟨trivial, trivial⟩
      | exact hacq s id
      | exact hrel s (s.key id)
      | (split <;> first | exact ⟨rfl, rfl⟩ | exact hcan s id | exact hsc s id)

/-- what an effective arrival does -/
theorem step_arrives {s : State} {ev : Event} {id : Id} {k : Key} (h : Arrives s ev id k) :
    (step s ev).ids = s.ids ++ [id] ∧ (step s ev).key = upd s.key id k ∧ (∀ j, j ≠ id → (step s ev).pc j = s.pc j) ∧
    ((step s ev).pc id = .epQueued ∨
      ((step s ev).pc id = .epGranted ∧ (s.eps k = none ∨ ∃ ep, s.eps k = some ep ∧ ep.counter < s.epLimit))) := by
  obtain ⟨rfl, h1, h2⟩ := h
  simp only [step, h1, h2, not_false_eq_true, and_self, if_true]
  unfold epRegister
  simp only
  cases he : s.eps k with
  | none =>
    simp only
    exact ⟨by first | rfl | trivial, by first | rfl | trivial, fun j hj => upd_other _ _ _ _ hj,
      Or.inr ⟨upd_same _ _ _, Or.inl (by first | rfl | trivial)⟩⟩
  | some ep =>
    simp only
    split
    · rename_i hlt
      exact ⟨by first | rfl | trivial, by first | rfl | trivial, fun j hj => upd_other _ _ _ _ hj,
        Or.inr ⟨upd_same _ _ _, Or.inr ⟨ep, by first | rfl | trivial, hlt⟩⟩⟩
    · exact ⟨by first | rfl | trivial, by first | rfl | trivial, fun j hj => upd_other _ _ _ _ hj, Or.inl (upd_same _ _ _)⟩

theorem epCancel_pc_self {s : State} (h : Inv s) (id : Id) (hq : s.pc id = .epQueued) :
    (epCancel s id).pc id = .done .ctx := by
  have hm : id ∈ s.ids := mem_ids_of_pc h.base hq (by simp)
  have hw : id ∈ waitingFor s (s.key id) := mem_waitingFor.mpr ⟨hm, hq, rfl⟩
  unfold epCancel
  simp only
  cases he : s.eps (s.key id) with
  | none => rw [(h.ep.none_ _ he).2] at hw; cases hw
  | some ep =>
    have hqq := (h.ep.some_ _ ep he).2.2.2
    simp only
    rw [if_pos (by rw [hqq]; exact hw)]
    exact upd_same _ _ _

/-- the acting request itself gets a path slot only by arriving -/
theorem actor_becomes_holder {s : State} (h : Inv s) (ev : Event)
    (hn : epHolder (s.pc (actor ev)) = false) (hh : epHolder ((step s ev).pc (actor ev)) = true) :
    ∃ k, Arrives s ev (actor ev) k := by
  cases ev with
  | arrive id k =>
    simp only [actor] at hn hh ⊢
    by_cases hc : s.pc id = .idle ∧ id ∉ s.ids
    · exact ⟨k, rfl, hc.1, hc.2⟩
    · simp only [step, hc, if_false] at hh; rw [hn] at hh; cases hh
  | cancel id => simp only [actor, step] at hn hh; rw [hn] at hh; cases hh
  | finish id =>
    simp only [actor] at hn hh
    simp only [step] at hh
    split at hh
    · rename_i hr; rw [hr] at hn; simp [epHolder] at hn
    · rw [hn] at hh; cases hh
  | step id br =>
    simp only [actor] at hn hh
    exfalso
    cases hp : s.pc id <;> rw [hp] at hn <;> simp [epHolder] at hn
    · cases br <;> simp only [step, hp] at hh <;> simp [hp, epHolder] at hh
    · cases br <;> simp only [step, hp] at hh
      · simp [hp, epHolder] at hh
      · split at hh
        · rw [epCancel_pc_self h id hp] at hh; simp [epHolder] at hh
        · simp [hp, epHolder] at hh
    · cases br <;> simp only [step, hp] at hh <;> simp [hp, epHolder] at hh

/-- a request is parked in its path's queue after an event only if it was before, or it has just arrived -/
theorem becomes_epQueued (s : State) (ev : Event) (a : Id) (hq : (step s ev).pc a = .epQueued) :
    s.pc a = .epQueued ∨ ∃ k, Arrives s ev a k := by
  by_cases ha : a = actor ev
  · cases ev with
    | arrive id k =>
      simp only [actor] at ha; subst ha
      by_cases hc : s.pc a = .idle ∧ a ∉ s.ids
      · exact Or.inr ⟨k, rfl, hc.1, hc.2⟩
      · simp only [step, hc, if_false] at hq; exact Or.inl hq
    | cancel id => exact Or.inl hq
    | finish id =>
      simp only [actor] at ha; subst ha
      simp only [step] at hq
      split at hq
      · simp [setPc] at hq
      · exact Or.inl hq
    | step id br =>
      simp only [actor] at ha; subst ha
      left
      have h1 : (epCancel s a).pc a ≠ .epQueued := by
        unfold epCancel
        simp only
        split
        · simp [setPc]
        · split <;> simp [setPc]
      have h2 : (semCancel s a).pc a ≠ .epQueued := by
        unfold semCancel
        split
        · simp [setPc]
        · simp only
          split <;> simp [setPc]
      have h3 : (semAcquire s a).pc a ≠ .epQueued := by
        unfold semAcquire
        split
        · simp [setPc]
        · split <;> simp [setPc]
      cases hp : s.pc a <;> cases br <;> simp only [step, hp] at hq
      all_goals first
        | exact hq
        | rfl
        | exact absurd hq h3
        | (rw [hp] at hq; cases hq)
        | (simp [setPc] at hq; done)
        | (split at hq <;> first
            | exact hq
            | rfl
            | exact absurd hq h1
            | exact absurd hq h2
            | (rw [hp] at hq; cases hq)
            | (simp [setPc] at hq; done))
  · rcases step_pc_other s ev a ha with h1 | h1 | h1
    · left; rw [← h1]; exact hq
    · rw [h1.2] at hq; cases hq
    · rw [h1.2] at hq; cases hq

/-! ### the order invariant -/

/-- Nobody owns a slot of a path while a request that arrived earlier for that path is still parked in its queue. -/
def NoOvertake (s : State) : Prop :=
  ∀ a b, Before s.ids a b → s.key a = s.key b → s.pc a = .epQueued → epHolder (s.pc b) = false

theorem NoOvertake_step {s : State} (hI : Inv s) (hF : QFull s) (hN : NoOvertake s) (ev : Event) :
    NoOvertake (step s ev) := by
  intro a b hbef hk ha
  -- suppose b holds a slot in the new state
  cases hhold : epHolder ((step s ev).pc b) with
  | false => rfl
  | true =>
    exfalso
    -- the common end of all cases: both were parked before and b was woken
    have finish : s.pc a = .epQueued → Before s.ids a b → s.key a = s.key b → b ≠ actor ev ∨ (∀ k, ¬ Arrives s ev b k) → False := by
      intro ha0 hbef0 hk0 hbact
      have hnb := hN a b hbef0 hk0 ha0
      by_cases hb : b = actor ev
      · subst hb
        obtain ⟨k, hk'⟩ := actor_becomes_holder hI ev hnb hhold
        rcases hbact with h | h
        · exact h rfl
        · exact h k hk'
      · rcases step_pc_other s ev b hb with h1 | h1 | h1
        · rw [h1, hnb] at hhold; cases hhold
        · rw [h1.1] at hnb; simp [epHolder] at hnb
        · exact fifo_step hI ev a b ha0 h1.1 hk0 hbef0 h1.2
    rcases step_ids_key s ev with ⟨x, k, harr⟩ | ⟨hids, hkey⟩
    · obtain ⟨hids, hkey, hpco, hpcx⟩ := step_arrives harr
      have hnd : (s.ids ++ [x]).Nodup := by
        rw [List.nodup_append]
        refine ⟨hI.base.nodup, by simp, ?_⟩
        intro u hu v hv; simp at hv; subst hv; intro huv; subst huv; exact harr.2.2 hu
      rw [hids] at hbef
      obtain ⟨hax, hrest⟩ := Before_snoc hnd hbef
      have ha0 : s.pc a = .epQueued := by rw [← hpco a hax]; exact ha
      have haids : a ∈ s.ids := mem_ids_of_pc hI.base ha0 (by simp)
      have hka : (step s ev).key a = s.key a := by rw [hkey]; exact upd_other _ _ _ _ hax
      by_cases hbx : b = x
      · -- the newcomer: the queue of its path is not empty, so all slots are taken and it is parked
        subst hbx
        have hkb : (step s ev).key b = k := by rw [hkey]; exact upd_same _ _ _
        have hak : s.key a = k := by rw [← hka, hk, hkb]
        have hw : a ∈ waitingFor s k := mem_waitingFor.mpr ⟨haids, ha0, hak⟩
        rcases hpcx with hq | ⟨_, hn | ⟨ep, he, hlt⟩⟩
        · rw [hq] at hhold; simp [epHolder] at hhold
        · rw [(hI.ep.none_ k hn).2] at hw; cases hw
        · have hqq := (hI.ep.some_ k ep he).2.2.2
          have hne : ep.queue ≠ [] := by rw [hqq]; intro hh; rw [hh] at hw; cases hw
          have := hF k ep he hne
          omega
      · have hkb : (step s ev).key b = s.key b := by rw [hkey]; exact upd_other _ _ _ _ hbx
        refine finish ha0 (hrest hbx) (by rw [← hka, hk, hkb]) (Or.inr ?_)
        intro k' hk'
        have := hk'.1
        rw [harr.1] at this
        injection this with h1 _
        exact hbx h1.symm
    · rw [hids] at hbef
      rw [hkey] at hk
      rcases becomes_epQueued s ev a ha with ha0 | ⟨k, hk'⟩
      · refine finish ha0 hbef hk (Or.inr ?_)
        intro k' hk'
        -- an effective arrival would have changed ids
        have := (step_arrives hk').1
        rw [hids] at this
        have hl := congrArg List.length this
        simp at hl
      · have := (step_arrives hk').1
        rw [hids] at this
        have hl := congrArg List.length this
        simp at hl

theorem NoOvertake_reachable (limit epLimit : Int) (evs : List Event) : NoOvertake (run (init limit epLimit) evs) := by
  have key : ∀ (evs : List Event) (s : State), Inv s → QFull s → NoOvertake s → NoOvertake (run s evs) := by
    intro evs
    induction evs with
    | nil => intro s _ _ h; exact h
    | cons e t ih =>
      intro s hI hF hN
      exact ih (step s e) (Inv_step hI e) (QFull_step hI hF e) (NoOvertake_step hI hF hN e)
  refine key evs _ (Inv_init limit epLimit) (by intro k ep hk; simp [init] at hk) ?_
  intro a b hbef
  have := (Before_mem hbef).1
  simp [init] at this

end CoapVerif.Lemmas.Limiter
