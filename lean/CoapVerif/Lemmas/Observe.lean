import CoapVerif.Model.Observe
/-! Invariants of the observation table model and the characterisation of step outputs (core Lean only). -/
namespace CoapVerif.Lemmas.Observe
open CoapVerif.Model.Observe
open CoapVerif.Spec.Observe (Obs)

/-- Table invariant: one entry per token, one entry per observation identity, identities already issued. -/
structure Inv (s : State) : Prop where
  tokInj : ∀ e1 ∈ s.table, ∀ e2 ∈ s.table, e1.tok = e2.tok → e1 = e2
  idInj : ∀ e1 ∈ s.table, ∀ e2 ∈ s.table, e1.id = e2.id → e1 = e2
  idLt : ∀ e ∈ s.table, e.id < s.nextId

theorem lookup_some {t : List Entry} {tok : Nat} {e : Entry} (h : lookup t tok = some e) : e ∈ t ∧ e.tok = tok := by
  unfold lookup at h
  have h1 := List.mem_of_find?_eq_some h
  have h2 := List.find?_some h
  exact ⟨h1, by simpa using h2⟩

theorem lookup_none {t : List Entry} {tok : Nat} (h : lookup t tok = none) : ∀ e ∈ t, e.tok ≠ tok := by
  unfold lookup at h
  intro e he
  have := List.find?_eq_none.mp h e he
  simpa using this

theorem mem_remove {t : List Entry} {tok : Nat} {e : Entry} : e ∈ remove t tok ↔ e ∈ t ∧ e.tok ≠ tok := by
  unfold remove; simp [List.mem_filter]

theorem mem_update {t : List Entry} {tok : Nat} {st : ObsState} {e' : Entry} :
    e' ∈ update t tok st ↔ ∃ e ∈ t, e' = if e.tok == tok then { e with st := st } else e := by
  unfold update
  simp only [List.mem_map]
  constructor
  · rintro ⟨e, he, rfl⟩; exact ⟨e, he, rfl⟩
  · rintro ⟨e, he, rfl⟩; exact ⟨e, he, rfl⟩

theorem inv_init : Inv {} := ⟨by simp, by simp, by simp⟩

theorem inv_remove {s : State} (h : Inv s) (tok : Nat) (sigs : List Sig) :
    Inv { s with table := remove s.table tok, sigs := sigs } := by
  constructor
  · intro e1 h1 e2 h2 he
    exact h.tokInj e1 (mem_remove.mp h1).1 e2 (mem_remove.mp h2).1 he
  · intro e1 h1 e2 h2 he
    exact h.idInj e1 (mem_remove.mp h1).1 e2 (mem_remove.mp h2).1 he
  · intro e he
    exact h.idLt e (mem_remove.mp he).1

theorem inv_update {s : State} (h : Inv s) (tok : Nat) (st : ObsState) (sigs : List Sig) :
    Inv { s with table := update s.table tok st, sigs := sigs } := by
  constructor
  · intro e1 h1 e2 h2 he
    obtain ⟨a, ha, rfl⟩ := mem_update.mp h1
    obtain ⟨b, hb, rfl⟩ := mem_update.mp h2
    have hab : a.tok = b.tok := by
      by_cases c1 : a.tok == tok <;> by_cases c2 : b.tok == tok <;> simp [c1, c2] at he <;> simp_all
    have := h.tokInj a ha b hb hab
    subst this; rfl
  · intro e1 h1 e2 h2 he
    obtain ⟨a, ha, rfl⟩ := mem_update.mp h1
    obtain ⟨b, hb, rfl⟩ := mem_update.mp h2
    have hab : a.id = b.id := by
      by_cases c1 : a.tok == tok <;> by_cases c2 : b.tok == tok <;> simp [c1, c2] at he <;> simp_all
    have := h.idInj a ha b hb hab
    subst this; rfl
  · intro e he
    obtain ⟨a, ha, rfl⟩ := mem_update.mp he
    have := h.idLt a ha
    by_cases c1 : a.tok == tok <;> simp [c1] <;> exact this

theorem step_inv (s : State) (ev : Ev) (h : Inv s) : Inv (step s ev).1 := by
  cases ev with
  | reg tok =>
    simp only [step]
    cases hl : lookup s.table tok with
    | some e =>
      simp only []
      exact ⟨h.tokInj, h.idInj, fun e he => Nat.lt_succ_of_lt (h.idLt e he)⟩
    | none =>
      simp only []
      have hn := lookup_none hl
      constructor
      · intro e1 h1 e2 h2 he
        simp only [List.mem_append, List.mem_singleton] at h1 h2
        rcases h1 with h1 | h1 <;> rcases h2 with h2 | h2
        · exact h.tokInj e1 h1 e2 h2 he
        · subst h2; exact absurd he (hn e1 h1)
        · subst h1; exact absurd he.symm (hn e2 h2)
        · subst h1; subst h2; rfl
      · intro e1 h1 e2 h2 he
        simp only [List.mem_append, List.mem_singleton] at h1 h2
        rcases h1 with h1 | h1 <;> rcases h2 with h2 | h2
        · exact h.idInj e1 h1 e2 h2 he
        · subst h2; have := h.idLt e1 h1; simp at he; omega
        · subst h1; have := h.idLt e2 h2; simp at he; omega
        · subst h1; subst h2; rfl
      · intro e he
        simp only [List.mem_append, List.mem_singleton] at he
        rcases he with he | he
        · exact Nat.lt_succ_of_lt (h.idLt e he)
        · subst he; simp
  | arrive tok code seq now tag =>
    simp only [step]
    cases hl : lookup s.table tok with
    | none => exact h
    | some e => exact inv_update h tok _ _
  | regDone tok id =>
    simp only [step]
    cases hf : s.sigs.find? (fun g => g.id == id) with
    | none => exact h
    | some g =>
      simp only []
      split
      · exact inv_remove h tok _
      · split
        · exact inv_remove h tok _
        · exact ⟨h.tokInj, h.idInj, h.idLt⟩
  | regAbort tok id =>
    simp only [step]
    cases hl : lookup s.table tok with
    | none => exact h
    | some e => exact inv_remove h tok s.sigs
  | cancel tok id =>
    simp only [step]
    cases hl : lookup s.table tok with
    | none => exact h
    | some e => exact inv_remove h tok s.sigs

end CoapVerif.Lemmas.Observe
