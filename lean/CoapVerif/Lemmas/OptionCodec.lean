import CoapVerif.Model.OptionCodec
/-!
Helper lemmas for the option codec (core Lean only; also imported by `Model/PoolMessage.lean`
for the termination argument of the capacity retry).

Decoder side: the checked-slicing loop `unmarshalLoop` is characterised by the list-level function
`decLoop` (no slicing, no processed counter): `unmarshalLoop_eq`.  All later theorems about decoding
are proved on `decLoop`; since `decLoop` has no `Err.panic` branch, the no-panic theorems follow.
-/
set_option linter.unusedVariables false
namespace CoapVerif.Lemmas.OptionCodec
open CoapVerif.Generated.Codec
open CoapVerif.Spec.Wire (Bytes Opt Msg)
open CoapVerif.Model.OptionCodec

/-! ## Checked primitives under their guards -/

@[simp] theorem idx_cons_zero (b : UInt8) (t : Bytes) : idx (b :: t) 0 = .ok b := by simp [idx]
@[simp] theorem idx_cons_one (a b : UInt8) (t : Bytes) : idx (a :: b :: t) 1 = .ok b := by simp [idx]

theorem sliceFrom_ok {b : Bytes} {i : Nat} (h : i ≤ b.length) : sliceFrom b i = .ok (b.drop i) := by
  simp [sliceFrom, h]
theorem sliceTo_ok {b : Bytes} {j : Nat} (h : j ≤ b.length) : sliceTo b j = .ok (b.take j) := by
  simp [sliceTo, h]
theorem sliceFromP_ok {b : Bytes} {i : Nat} (h : i ≤ b.length) : sliceFromP b i = .ok ⟨b.drop i, rfl⟩ := by
  simp [sliceFromP, h]

theorem shr4 (b : UInt8) : (b >>> 4).toNat = b.toNat / 16 := by
  rw [UInt8.toNat_shiftRight]; simp [Nat.shiftRight_eq_div_pow]
theorem and15 (b : UInt8) : (b &&& 0x0f).toNat = b.toNat % 16 := by
  rw [UInt8.toNat_and]; exact Nat.and_two_pow_sub_one_eq_mod b.toNat 4

/-! ## `parseExtOpt` = list-level `decExt` -/

/-- Value and remaining bytes of an extended delta/length field (cf. DESIGN appendix C `extDec`). -/
def decExt (nib : Nat) (bs : Bytes) : Except Err (Nat × Bytes) :=
  if nib = 13 then
    match bs with
    | b :: r => .ok (b.toNat + 13, r)
    | [] => .error .optTruncated
  else if nib = 14 then
    match bs with
    | b0 :: b1 :: r => .ok (b0.toNat * 256 + b1.toNat + 269, r)
    | _ => .error .optTruncated
  else .ok (nib, bs)

theorem parseExtOpt_eq (data : Bytes) (opt : Nat) :
    parseExtOpt data opt =
      match decExt opt data with
      | .error e => .error e
      | .ok (v, r) => .ok (data.length - r.length, v) := by
  unfold parseExtOpt decExt
  simp only [extByteCode, extWordCode, extByteAddend, extWordAddend]
  by_cases h13 : opt = 13
  · subst h13
    cases data with
    | nil => simp
    | cons b t => simp [bind, Except.bind]
  · by_cases h14 : opt = 14
    · subst h14
      cases data with
      | nil => simp
      | cons b0 t =>
        cases t with
        | nil => simp
        | cons b1 t =>
          have : ¬ (t.length + 1 + 1 < 2) := by omega
          simp [bind, Except.bind, sliceTo, getU16, this]
          omega
    · simp [h13, h14]

theorem decExt_suffix {nib : Nat} {bs r : Bytes} {v : Nat} (h : decExt nib bs = .ok (v, r)) :
    ∃ pre, bs = pre ++ r := by
  unfold decExt at h
  split at h
  · cases bs with
    | nil => simp at h
    | cons b t => simp at h; obtain ⟨_, rfl⟩ := h; exact ⟨[b], rfl⟩
  · split at h
    · cases bs with
      | nil => simp at h
      | cons b0 t =>
        cases t with
        | nil => simp at h
        | cons b1 t => simp at h; obtain ⟨_, rfl⟩ := h; exact ⟨[b0, b1], rfl⟩
    · simp at h; obtain ⟨_, rfl⟩ := h; exact ⟨[], rfl⟩

theorem decExt_len {nib : Nat} {bs r : Bytes} {v : Nat} (h : decExt nib bs = .ok (v, r)) :
    r.length ≤ bs.length := by
  obtain ⟨pre, rfl⟩ := decExt_suffix h
  simp

theorem decExt_val_le {nib : Nat} {bs r : Bytes} {v : Nat} (h : decExt nib bs = .ok (v, r)) (hn : nib < 15) :
    v ≤ 65804 := by
  unfold decExt at h
  split at h
  · cases bs with
    | nil => simp at h
    | cons b t => simp at h; have := b.toNat_lt; omega
  · split at h
    · cases bs with
      | nil => simp at h
      | cons b0 t =>
        cases t with
        | nil => simp at h
        | cons b1 t => simp at h; have := b0.toNat_lt; have := b1.toNat_lt; omega
    · simp at h; omega

theorem decExt_err {nib : Nat} {bs : Bytes} {e : Err} (h : decExt nib bs = .error e) : e = .optTruncated := by
  unfold decExt at h
  split at h
  · cases bs with
    | nil => simp at h; exact h.symm
    | cons b t => simp at h
  · split at h
    · cases bs with
      | nil => simp at h; exact h.symm
      | cons b0 t =>
        cases t with
        | nil => simp at h; exact h.symm
        | cons b1 t => simp at h
    · simp at h

/-! ## `unmarshalLoop` = list-level `decLoop` -/

/-- What `Option.Unmarshal` + the `ID != 0` test keep of an option: `none` = dropped. -/
def keepOpt (defs : Defs) (id : Nat) (v : Bytes) : Option Opt :=
  if (optionUnmarshal v defs id).1.id ≠ 0 then some (optionUnmarshal v defs id).1 else none

/-- List-level reading of the loop of `Options.Unmarshal`: options appended and the bytes after the
payload marker (or `[]`). -/
def decLoop (defs : Defs) (cap n prev : Nat) (bs : Bytes) : Except Err (List Opt × Bytes) :=
  match bs with
  | [] => .ok ([], [])
  | b :: t =>
    if b = 0xff then .ok ([], t) else
    let d := b.toNat / 16
    let l := b.toNat % 16
    if d = 15 ∨ l = 15 then .error .optExtMarker else
    match hd : decExt d t with
    | .error e => .error e
    | .ok (delta, t1) =>
      match hl : decExt l t1 with
      | .error e => .error e
      | .ok (len, t2) =>
        if t2.length < len then .error .optTruncated
        else if prev + delta > 65535 then .error .optOverflow
        else if cap = n then .error .optCap
        else
          match decLoop defs cap (if (keepOpt defs (prev + delta) (t2.take len)).isSome then n + 1 else n)
              (prev + delta) (t2.drop len) with
          | .error e => .error e
          | .ok (os, rest) =>
            .ok ((match keepOpt defs (prev + delta) (t2.take len) with | some o => o :: os | none => os), rest)
termination_by bs.length
decreasing_by
  have h1 := decExt_len hd
  have h2 := decExt_len hl
  simp only [List.length_drop, List.length_cons]; omega

theorem optionUnmarshal_snd (v : Bytes) (defs : Defs) (id : Nat) : (optionUnmarshal v defs id).2 = v.length := by
  unfold optionUnmarshal
  split
  · split
    · rfl
    · simp only []
      split <;> rfl
  · rfl

theorem decLoop_suffix (defs : Defs) (cap n prev : Nat) (bs : Bytes) (os : List Opt) (rest : Bytes)
    (h : decLoop defs cap n prev bs = .ok (os, rest)) : ∃ pre, bs = pre ++ rest := by
  induction hl : bs.length using Nat.strongRecOn generalizing n prev bs os rest with
  | _ len ih =>
    rw [decLoop.eq_def] at h
    cases bs with
    | nil => simp at h; obtain ⟨_, rfl⟩ := h; exact ⟨[], rfl⟩
    | cons b t =>
      simp only at h
      split at h
      · simp at h; obtain ⟨_, rfl⟩ := h; exact ⟨[b], rfl⟩
      · split at h
        · cases h
        · split at h
          · cases h
          · rename_i delta t1 hd
            split at h
            · cases h
            · rename_i len' t2 hl2
              split at h
              · cases h
              · split at h
                · cases h
                · split at h
                  · cases h
                  · split at h
                    · cases h
                    · rename_i os' rest' hrec
                      simp only [Except.ok.injEq, Prod.mk.injEq] at h
                      obtain ⟨_, rfl⟩ := h
                      obtain ⟨p1, rfl⟩ := decExt_suffix hd
                      obtain ⟨p2, rfl⟩ := decExt_suffix hl2
                      have hlt : (t2.drop len').length < len := by
                        simp at hl ⊢; omega
                      obtain ⟨p3, e3⟩ := ih _ hlt _ _ _ _ _ hrec rfl
                      refine ⟨b :: (p1 ++ (p2 ++ (t2.take len' ++ p3))), ?_⟩
                      have : t2 = t2.take len' ++ t2.drop len' := (List.take_append_drop len' t2).symm
                      rw [e3] at this
                      simp only [List.cons_append, List.append_assoc]
                      rw [← this]

theorem keepOpt_isSome (defs : Defs) (id : Nat) (v : Bytes) :
    (keepOpt defs id v).isSome = decide ((optionUnmarshal v defs id).1.id ≠ 0) := by
  unfold keepOpt; split <;> simp_all

theorem sliceFromP_cons1 (b : UInt8) (t : Bytes) : sliceFromP (b :: t) 1 = .ok ⟨t, rfl⟩ := by
  simp [sliceFromP]

theorem sliceFromP_append (p r : Bytes) :
    sliceFromP (p ++ r) ((p ++ r).length - r.length) = .ok ⟨r, by simp⟩ := by
  have h : (p ++ r).length - r.length ≤ (p ++ r).length := by omega
  simp [sliceFromP]

theorem sliceFromP_len (t : Bytes) (k : Nat) (h : k ≤ t.length) :
    sliceFromP t k = .ok ⟨t.drop k, rfl⟩ := by
  simp [sliceFromP, h]

theorem unmarshalLoop_eq (defs : Defs) (cap n prev processed : Nat) (data : Bytes) :
    unmarshalLoop defs cap n prev processed data =
      match decLoop defs cap n prev data with
      | .error e => .error e
      | .ok (os, rest) => .ok (os, processed + (data.length - rest.length)) := by
  induction hl : data.length using Nat.strongRecOn generalizing n prev processed data with
  | _ len ih =>
    subst hl
    rw [unmarshalLoop.eq_def, decLoop.eq_def]
    cases data with
    | nil => simp
    | cons b t =>
      simp only [List.length_cons, gt_iff_lt, Nat.zero_lt_succ, ↓reduceDIte, idx_cons_zero]
      by_cases hff : b = 0xff
      · simp [hff]
      · simp only [hff, ↓reduceIte, shr4, and15, extError]
        by_cases hm : b.toNat / 16 = 15 ∨ b.toNat % 16 = 15
        · simp [hm]
        · simp only [hm, ↓reduceIte, sliceFromP_cons1, parseExtOpt_eq]
          cases hd : decExt (b.toNat / 16) t with
          | error e => simp
          | ok r1 =>
            obtain ⟨delta, t1⟩ := r1
            obtain ⟨p1, rfl⟩ := decExt_suffix hd
            simp only [sliceFromP_append]
            cases hl2 : decExt (b.toNat % 16) t1 with
            | error e => simp
            | ok r2 =>
              obtain ⟨len', t2⟩ := r2
              obtain ⟨p2, rfl⟩ := decExt_suffix hl2
              simp only [sliceFromP_append, maxOptionID]
              by_cases hlen : t2.length < len'
              · simp [hlen]
              · simp only [hlen, ↓reduceIte]
                by_cases hov : prev + delta > 65535
                · simp [hov]
                · simp only [hov, ↓reduceIte]
                  rw [sliceTo_ok (by omega)]
                  simp only [optionUnmarshal_snd]
                  by_cases hc : cap = n
                  · simp [hc]
                  · simp only [hc, ↓reduceIte]
                    have hk : (List.take len' t2).length = len' := by simp; omega
                    have hs := optionUnmarshal_snd (List.take len' t2) defs (prev + delta)
                    rw [hk] at hs
                    simp only [keepOpt_isSome]
                    unfold keepOpt
                    generalize optionUnmarshal (List.take len' t2) defs (prev + delta) = ou at hs ⊢
                    obtain ⟨o, k⟩ := ou
                    simp only at hs
                    subst hs
                    rw [sliceFromP_len t2 k (by omega)]
                    have hlt : (t2.drop k).length < (b :: (p1 ++ (p2 ++ t2))).length := by
                      simp; omega
                    simp only []
                    rw [ih _ hlt _ _ _ _ rfl]
                    have arith : ∀ rest : Bytes, (∃ pre, List.drop k t2 = pre ++ rest) →
                        processed + 1 + (List.length (p1 ++ (p2 ++ t2)) - List.length (p2 ++ t2)) +
                          (List.length (p2 ++ t2) - List.length t2) + (List.take k t2).length +
                          ((List.drop k t2).length - List.length rest) =
                        processed + (List.length (p1 ++ (p2 ++ t2)) + 1 - List.length rest) := by
                      intro rest ⟨pre, hpre⟩
                      have : (List.drop k t2).length = pre.length + rest.length := by rw [hpre]; simp
                      simp only [List.length_append, List.length_drop, hk] at this ⊢
                      omega
                    by_cases ho : o.id = 0
                    · simp only [ho, ne_eq, not_true_eq_false, decide_false, Bool.false_eq_true, ↓reduceIte]
                      cases hrec : decLoop defs cap n (prev + delta) (List.drop k t2) with
                      | error e => rfl
                      | ok r =>
                        obtain ⟨os, rest⟩ := r
                        simp only [Except.ok.injEq, Prod.mk.injEq, true_and]
                        exact arith rest (decLoop_suffix _ _ _ _ _ _ _ hrec)
                    · simp only [ho, ne_eq, not_false_eq_true, decide_true, ↓reduceIte]
                      cases hrec : decLoop defs cap (n + 1) (prev + delta) (List.drop k t2) with
                      | error e => rfl
                      | ok r =>
                        obtain ⟨os, rest⟩ := r
                        simp only [Except.ok.injEq, Prod.mk.injEq, true_and]
                        exact arith rest (decLoop_suffix _ _ _ _ _ _ _ hrec)

/-- The loop reports `ErrOptionsTooSmall` only when the capacity is below the number of bytes left:
every kept option consumed at least its header byte. -/
theorem decLoop_optCap (defs : Defs) (cap n prev : Nat) (bs : Bytes)
    (h : decLoop defs cap n prev bs = .error .optCap) (hn : n ≤ cap) : cap < n + bs.length := by
  induction hl : bs.length using Nat.strongRecOn generalizing n prev bs with
  | _ len ih =>
    subst hl
    rw [decLoop.eq_def] at h
    cases bs with
    | nil => simp at h
    | cons b t =>
      simp only at h
      split at h
      · cases h
      · split at h
        · cases h
        · split at h
          · rename_i e he; have := decExt_err he; subst this; cases h
          · rename_i delta t1 hd
            split at h
            · rename_i e he; have := decExt_err he; subst this; cases h
            · rename_i len' t2 hl2
              split at h
              · cases h
              · split at h
                · cases h
                · split at h
                  · rename_i hc; simp; omega
                  · rename_i hc
                    split at h
                    · rename_i e hrec
                      injection h with h; subst h
                      have l1 := decExt_len hd
                      have l2 := decExt_len hl2
                      have hlt : (t2.drop len').length < (b :: t).length := by simp; omega
                      have := ih _ hlt _ _ _ hrec (by split <;> omega) rfl
                      simp only [List.length_drop, List.length_cons] at this ⊢
                      split at this <;> omega
                    · cases h

theorem unmarshalLoop_optCap (defs : Defs) (cap n prev processed : Nat) (data : Bytes)
    (h : unmarshalLoop defs cap n prev processed data = .error .optCap) (hn : n ≤ cap) :
    cap < n + data.length := by
  rw [unmarshalLoop_eq] at h
  split at h
  · rename_i e he; injection h with h; subst h; exact decLoop_optCap _ _ _ _ _ he hn
  · cases h

/-- `decLoop` has no panic branch. -/
theorem decLoop_no_panic (defs : Defs) (cap n prev : Nat) (bs : Bytes) :
    decLoop defs cap n prev bs ≠ .error .panic := by
  induction hl : bs.length using Nat.strongRecOn generalizing n prev bs with
  | _ len ih =>
    subst hl
    intro h
    rw [decLoop.eq_def] at h
    cases bs with
    | nil => simp at h
    | cons b t =>
      simp only at h
      split at h
      · cases h
      · split at h
        · cases h
        · split at h
          · rename_i e he; have := decExt_err he; subst this; cases h
          · rename_i delta t1 hd
            split at h
            · rename_i e he; have := decExt_err he; subst this; cases h
            · rename_i len' t2 hl2
              split at h
              · cases h
              · split at h
                · cases h
                · split at h
                  · cases h
                  · split at h
                    · rename_i e hrec
                      injection h with h; subst h
                      have l1 := decExt_len hd
                      have l2 := decExt_len hl2
                      have hlt : (t2.drop len').length < (b :: t).length := by simp; omega
                      exact ih _ hlt _ _ _ rfl hrec
                    · cases h

theorem unmarshalLoop_no_panic (defs : Defs) (cap n prev processed : Nat) (data : Bytes) :
    unmarshalLoop defs cap n prev processed data ≠ .error .panic := by
  rw [unmarshalLoop_eq]
  intro h
  split at h
  · rename_i e he; injection h with h; subst h; exact decLoop_no_panic _ _ _ _ _ he
  · cases h
