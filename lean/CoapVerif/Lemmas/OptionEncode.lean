import CoapVerif.Model.OptionCodec
/-!
Encoder side of the option codec: the buffer-passing model (`marshalOptionHeaderExt`, `marshalOptionHeader`,
`optionMarshal`, `optionsMarshalLoop`) writes exactly the list `optsB` at the front of a large-enough
buffer and leaves the rest untouched (A), computes its length with a nil buffer (C), and reports
`(length, too small)` without leaving the buffer for every smaller buffer (B) — DESIGN appendix B1 step 5.
`optsB` is then identified with the RFC encoder `encOpts` on well-formed option lists.
-/
set_option linter.unusedVariables false
set_option linter.unusedSimpArgs false
namespace CoapVerif.Lemmas.OptionEncode
open CoapVerif.Generated.Codec
open CoapVerif.Spec.Wire
open CoapVerif.Model.OptionCodec

/-! ## Bytes the model writes -/

def extB (opt ext : Int) : Bytes :=
  if opt = 13 then [byteOfInt ext]
  else if opt = 14 then [UInt8.ofNat ((ext % 65536).toNat / 256), UInt8.ofNat ((ext % 65536).toNat % 256)]
  else []

def hdrB (delta length : Int) : Bytes :=
  (byteOfInt ((extendOpt delta).1 * 16) ||| byteOfInt (extendOpt length).1) ::
    (extB (extendOpt delta).1 (extendOpt delta).2 ++ extB (extendOpt length).1 (extendOpt length).2)

def optB (prev : Nat) (o : Opt) : Bytes := hdrB ((o.id : Int) - (prev : Int)) (o.val.length : Int) ++ o.val

def optsB (prev : Nat) : List Opt → Bytes
  | [] => []
  | o :: os => optB prev o ++ optsB o.id os

/-! ## Primitive facts -/

theorem withSub_ok {α : Type} (buf : Bytes) (k : Nat) (f : Bytes → Except Err (α × Bytes)) (a : α) (w : Bytes)
    (hk : k ≤ buf.length) (hf : f (buf.drop k) = .ok (a, w)) : withSub buf k f = .ok (a, buf.take k ++ w) := by
  simp [withSub, hk, hf]

theorem setAt_zero (b : UInt8) (t : Bytes) (v : UInt8) : setAt (b :: t) 0 v = .ok (v :: t) := by
  simp [setAt]

/-- `marshalOptionHeaderExt`: needs `|extB|` bytes. -/
theorem ext_spec (buf : Bytes) (opt ext : Int) :
    ∃ w, marshalOptionHeaderExt buf opt ext = .ok ((extB opt ext).length, decide (buf.length < (extB opt ext).length), w) ∧
      w.length = buf.length ∧ ((extB opt ext).length ≤ buf.length → w = extB opt ext ++ buf.drop (extB opt ext).length) := by
  unfold marshalOptionHeaderExt extB
  simp only [extByteCode, extWordCode]
  by_cases h13 : opt = 13
  · subst h13
    cases buf with
    | nil => exact ⟨[], by simp⟩
    | cons b t => exact ⟨byteOfInt ext :: t, by simp [setAt, bind, Except.bind]⟩
  · by_cases h14 : opt = 14
    · subst h14
      match buf with
      | [] => exact ⟨[], by simp⟩
      | [b] => exact ⟨[b], by simp⟩
      | b0 :: b1 :: t =>
        refine ⟨UInt8.ofNat ((ext % 65536).toNat / 256) :: UInt8.ofNat ((ext % 65536).toNat % 256) :: t, ?_⟩
        simp [putU16, bind, Except.bind]
    · have a : ¬ (opt = ((13 : Nat) : Int)) := by simpa using h13
      have b : ¬ (opt = ((14 : Nat) : Int)) := by simpa using h14
      exact ⟨buf, by simp [h13, h14, a, b]⟩

theorem step_dead (buf : Bytes) (size : Nat) (opt ext : Int) :
    headerExtStep buf false size opt ext = .ok (((extB opt ext).length, decide (0 < (extB opt ext).length)), buf) := by
  obtain ⟨w, hw, _, _⟩ := ext_spec [] opt ext
  simp [headerExtStep, hw, bind, Except.bind]

theorem step_live (buf : Bytes) (size : Nat) (opt ext : Int) (hs : size ≤ buf.length) :
    ∃ w, headerExtStep buf true size opt ext =
        .ok (((extB opt ext).length, decide (buf.length - size < (extB opt ext).length)), w) ∧
      w.length = buf.length ∧
      (size + (extB opt ext).length ≤ buf.length →
        w = buf.take size ++ (extB opt ext ++ buf.drop (size + (extB opt ext).length))) := by
  obtain ⟨w, hw, hl, hfit⟩ := ext_spec (buf.drop size) opt ext
  refine ⟨buf.take size ++ w, ?_, ?_, ?_⟩
  · simp only [headerExtStep, ↓reduceIte]
    rw [withSub_ok buf size _ ((extB opt ext).length, decide ((buf.drop size).length < (extB opt ext).length)) w hs]
    · simp
    · simp [hw, bind, Except.bind]
  · simp [hl]; omega
  · intro h
    rw [hfit (by simp; omega)]
    simp [List.drop_drop]

theorem header_spec (buf : Bytes) (delta length : Int) :
    ∃ w, marshalOptionHeader buf delta length =
        .ok ((hdrB delta length).length, decide (buf.length < (hdrB delta length).length), w) ∧
      w.length = buf.length ∧
      ((hdrB delta length).length ≤ buf.length → w = hdrB delta length ++ buf.drop (hdrB delta length).length) := by
  unfold marshalOptionHeader hdrB
  rcases hd : extendOpt delta with ⟨d, dx⟩
  rcases hl : extendOpt length with ⟨l, lx⟩
  simp only []
  cases buf with
  | nil =>
    refine ⟨[], ?_, rfl, by simp⟩
    simp [step_dead, bind, Except.bind, pure, Except.pure]
    omega
  | cons b t =>
    obtain ⟨w1, h1, l1, f1⟩ := step_live ((byteOfInt (d * 16) ||| byteOfInt l) :: t) 1 d dx (by simp)
    simp only [List.length_cons] at l1 f1
    simp only [List.length_cons, Nat.zero_lt_succ, ↓reduceIte, setAt_zero, bind, Except.bind, pure, Except.pure, h1,
      gt_iff_lt, Bool.true_and]
    by_cases hs1 : t.length < (extB d dx).length
    · -- first extension does not fit: everything after is counted with nil
      have e1 : decide (t.length + 1 - 1 < (extB d dx).length) = true := by simp; omega
      simp only [e1, Bool.not_true, step_dead]
      refine ⟨w1, ?_, by simpa using l1, ?_⟩
      · simp; omega
      · intro h; simp at h; omega
    · have e1 : decide (t.length + 1 - 1 < (extB d dx).length) = false := by simp; omega
      simp only [e1, Bool.not_false]
      have hw1 := f1 (by omega)
      rw [Nat.add_comm 1, List.drop_succ_cons] at hw1
      simp only [List.take_succ_cons, List.take_zero, List.cons_append, List.nil_append] at hw1
      obtain ⟨w2, h2, l2, f2⟩ := step_live w1 (1 + (extB d dx).length) l lx (by rw [l1]; omega)
      simp only [h2]
      refine ⟨w2, ?_, by rw [l2, l1], ?_⟩
      · simp only [Bool.true_and, Bool.not_not, Except.ok.injEq, Prod.mk.injEq, List.length_cons, List.length_append,
          true_and, and_true]
        refine ⟨by omega, ?_⟩
        rw [l1]
        apply decide_eq_decide.mpr
        omega
      · intro h
        simp only [List.length_cons, List.length_append] at h
        rw [f2 (by rw [l1]; omega), hw1]
        have a : List.take (1 + (extB d dx).length) ((byteOfInt (d * 16) ||| byteOfInt l) ::
            (extB d dx ++ List.drop ((extB d dx).length) t)) = (byteOfInt (d * 16) ||| byteOfInt l) :: extB d dx := by
          rw [Nat.add_comm, List.take_succ_cons, List.take_left' rfl]
        have b : List.drop (1 + (extB d dx).length + (extB l lx).length) ((byteOfInt (d * 16) ||| byteOfInt l) ::
            (extB d dx ++ List.drop ((extB d dx).length) t)) = List.drop ((extB d dx).length + (extB l lx).length) t := by
          have : 1 + (extB d dx).length + (extB l lx).length = ((extB d dx).length + (extB l lx).length) + 1 := by omega
          rw [this, List.drop_succ_cons, List.drop_append, List.drop_drop]
          simp
        rw [a, b]
        simp [List.length_append]

theorem marshalValue_fst (buf v : Bytes) : (marshalValue buf v).1 = v.length := by
  unfold marshalValue; split <;> rfl

theorem goCopy_fits (buf v : Bytes) (h : v.length ≤ buf.length) : goCopy buf v = v ++ buf.drop v.length := by
  simp [goCopy, List.take_of_length_le h]

theorem goCopy_length (buf v : Bytes) : (goCopy buf v).length = buf.length := by
  simp [goCopy]; omega

theorem value_spec (buf v : Bytes) :
    ∃ w, marshalValue buf v = (v.length, decide (buf.length < v.length), w) ∧ w.length = buf.length ∧
      (v.length ≤ buf.length → w = v ++ buf.drop v.length) := by
  unfold marshalValue
  by_cases h : buf.length < v.length
  · exact ⟨buf, by simp [h], rfl, by intro h'; omega⟩
  · exact ⟨goCopy buf v, by simp [h], goCopy_length buf v, fun h' => goCopy_fits buf v h'⟩

theorem option_spec (buf : Bytes) (prev : Nat) (o : Opt) :
    ∃ w, optionMarshal buf prev o = .ok ((optB prev o).length, decide (buf.length < (optB prev o).length), w) ∧
      w.length = buf.length ∧ ((optB prev o).length ≤ buf.length → w = optB prev o ++ buf.drop (optB prev o).length) := by
  unfold optionMarshal optB
  obtain ⟨w1, h1, l1, f1⟩ := header_spec buf ((o.id : Int) - (prev : Int)) (o.val.length : Int)
  have hv0 : (marshalValue [] o.val).1 = o.val.length := marshalValue_fst [] o.val
  rcases hmv : marshalValue [] o.val with ⟨n0, s0, b0⟩
  rw [hmv] at hv0; simp only at hv0; subst hv0
  simp only [bind, Except.bind, h1]
  generalize hdrB ((o.id : Int) - (prev : Int)) (o.val.length : Int) = hb at *
  by_cases hs : buf.length < hb.length
  · -- header does not fit
    simp only [hs, decide_true, Bool.not_true, Bool.false_eq_true, ↓reduceIte, hmv, Bool.false_and]
    refine ⟨w1, ?_, l1, ?_⟩
    · simp; omega
    · intro h; simp at h; omega
  · simp only [hs, decide_false, Bool.not_false, ↓reduceIte, Bool.true_and]
    have hw1 := f1 (by omega)
    obtain ⟨w2, h2, l2, f2⟩ := value_spec (w1.drop hb.length) o.val
    rw [withSub_ok w1 _ _ (o.val.length, decide ((w1.drop hb.length).length < o.val.length)) w2
      (by rw [l1]; omega) (by rw [h2])]
    simp only []
    refine ⟨List.take hb.length w1 ++ w2, ?_, ?_, ?_⟩
    · simp only [Bool.not_not, Except.ok.injEq, Prod.mk.injEq, List.length_append, true_and, and_true]
      simp only [List.length_drop, l1]
      apply decide_eq_decide.mpr
      omega
    · simp [l2, l1]; omega
    · intro h
      simp only [List.length_append] at h
      rw [f2 (by simp [l1]; omega), hw1]
      simp [List.drop_drop]

theorem loop_spec (os : List Opt) (buf : Bytes) (live : Bool) (prev length : Nat)
    (hinv : live = true → length ≤ buf.length) :
    ∃ w, optionsMarshalLoop buf live prev length os =
        .ok (length + (optsB prev os).length, !live || decide (buf.length < length + (optsB prev os).length), w) ∧
      w.length = buf.length ∧
      (live = true → length + (optsB prev os).length ≤ buf.length →
        w = buf.take length ++ (optsB prev os ++ buf.drop (length + (optsB prev os).length))) := by
  induction os generalizing buf live prev length with
  | nil =>
    refine ⟨buf, ?_, rfl, ?_⟩
    · cases live with
      | false => simp [optionsMarshalLoop, optsB]
      | true =>
        have := hinv rfl
        have : ¬ (buf.length < length) := by omega
        simp [optionsMarshalLoop, optsB, this]
    · intro _ _; simp [optsB]
  | cons o os ih =>
    simp only [optionsMarshalLoop, optsB, bind, Except.bind, List.length_append]
    cases live with
    | false =>
      obtain ⟨w0, h0, _, _⟩ := option_spec [] prev o
      simp only [Bool.false_and, Bool.false_eq_true, ↓reduceIte, h0]
      obtain ⟨w, hw, hl, _⟩ := ih buf false o.id (length + (optB prev o).length) (by simp)
      refine ⟨w, ?_, hl, by simp⟩
      rw [hw]; simp [Nat.add_assoc]
    | true =>
      have hle := hinv rfl
      simp only [Bool.true_and, hle, decide_true, ↓reduceIte]
      obtain ⟨wo, ho, lo, fo⟩ := option_spec (buf.drop length) prev o
      rw [withSub_ok buf length _ ((optB prev o).length, decide ((buf.drop length).length < (optB prev o).length)) wo hle
        (by simp [ho, bind, Except.bind])]
      simp only []
      by_cases hs : (buf.drop length).length < (optB prev o).length
      · -- this option does not fit: the rest is counted with nil
        simp only [hs, decide_true, Bool.not_true]
        obtain ⟨w, hw, hl, _⟩ := ih (buf.take length ++ wo) false o.id (length + (optB prev o).length) (by simp)
        refine ⟨w, ?_, ?_, ?_⟩
        · rw [hw]
          simp only [List.length_drop] at hs
          have : buf.length < length + ((optB prev o).length + (optsB o.id os).length) := by omega
          simp [this, Nat.add_assoc]
        · rw [hl]; simp [lo]; omega
        · intro _ h; simp only [List.length_drop] at hs; omega
      · simp only [hs, decide_false, Bool.not_false]
        simp only [List.length_drop] at hs
        have hwo := fo (by simp; omega)
        obtain ⟨w, hw, hl, hf⟩ := ih (buf.take length ++ wo) true o.id (length + (optB prev o).length)
          (by intro _; simp [lo]; omega)
        have hbl : (buf.take length ++ wo).length = buf.length := by simp [lo]; omega
        refine ⟨w, ?_, by rw [hl, hbl], ?_⟩
        · rw [hw, hbl]; simp [Nat.add_assoc]
        · intro _ h
          rw [hf rfl (by rw [hbl]; omega), hwo]
          have t1 : List.take (length + (optB prev o).length) (List.take length buf ++
              (optB prev o ++ List.drop (optB prev o).length (List.drop length buf))) =
              List.take length buf ++ optB prev o := by
            have hl1 : (List.take length buf).length = length := by simp; omega
            rw [List.take_append, hl1]
            simp [List.take_of_length_le, hl1]
          have t2 : List.drop (length + (optB prev o).length + (optsB o.id os).length) (List.take length buf ++
              (optB prev o ++ List.drop (optB prev o).length (List.drop length buf))) =
              List.drop (length + ((optB prev o).length + (optsB o.id os).length)) buf := by
            have hl1 : (List.take length buf).length = length := by simp; omega
            rw [List.drop_append, hl1, List.drop_append]
            have z1 : List.drop (length + (optB prev o).length + (optsB o.id os).length) (List.take length buf) = [] := by
              apply List.drop_of_length_le; omega
            have z2 : List.drop (length + (optB prev o).length + (optsB o.id os).length - length) (optB prev o) = [] := by
              apply List.drop_of_length_le; omega
            rw [z1, z2]
            simp only [List.nil_append, List.drop_drop]
            congr 1
            omega
          rw [t1, t2]
          simp [List.append_assoc]

/-! ## `Options.Marshal` -/

theorem optionsMarshal_nil (os : List Opt) : optionsMarshal none os = .ok ((optsB 0 os).length, true, []) := by
  obtain ⟨w, hw, hl, _⟩ := loop_spec os [] false 0 0 (by simp)
  have : w = [] := by cases w with | nil => rfl | cons _ _ => simp at hl
  subst this
  simpa [optionsMarshal] using hw

theorem optionsMarshal_spec (os : List Opt) (buf : Bytes) :
    ∃ w, optionsMarshal (some buf) os = .ok ((optsB 0 os).length, decide (buf.length < (optsB 0 os).length), w) ∧
      w.length = buf.length ∧ ((optsB 0 os).length ≤ buf.length → w = optsB 0 os ++ buf.drop (optsB 0 os).length) := by
  obtain ⟨w, hw, hl, hf⟩ := loop_spec os buf true 0 0 (by simp)
  refine ⟨w, by simpa [optionsMarshal] using hw, hl, ?_⟩
  intro h
  simpa using hf rfl (by simpa using h)

/-! ## The model's bytes are the RFC bytes on well-formed option lists -/

theorem or_nibbles : ∀ d l : Fin 15, UInt8.ofNat (d.val * 16) ||| UInt8.ofNat l.val = UInt8.ofNat (d.val * 16 + l.val) := by
  decide

theorem byteOfInt_nat (n : Nat) : byteOfInt (n : Int) = UInt8.ofNat n := by
  unfold byteOfInt
  have : ((n : Int) % 256).toNat = n % 256 := by omega
  rw [this]
  apply UInt8.toNat_inj.mp
  simp

theorem extendOpt_nat (n : Nat) :
    extendOpt (n : Int) = (((nib n : Nat) : Int), if n ≤ 12 then (0 : Int) else if n ≤ 268 then ((n - 13 : Nat) : Int) else ((n - 269 : Nat) : Int)) := by
  unfold extendOpt nib
  simp only [extByteAddend, extWordAddend, extByteCode, extWordCode]
  by_cases h1 : n ≤ 12
  · have : ¬ ((n : Int) ≥ ((13 : Nat) : Int)) := by omega
    simp only [this, h1, ↓reduceIte]
  · by_cases h2 : n ≤ 268
    · have a : (n : Int) ≥ ((13 : Nat) : Int) := by omega
      have b : ¬ ((n : Int) ≥ ((269 : Nat) : Int)) := by omega
      simp only [a, b, h1, h2, ↓reduceIte, Prod.mk.injEq, true_and]
      omega
    · have a : (n : Int) ≥ ((13 : Nat) : Int) := by omega
      have b : (n : Int) ≥ ((269 : Nat) : Int) := by omega
      simp only [a, b, h1, h2, ↓reduceIte, Prod.mk.injEq, true_and]
      omega

theorem extB_nat (n : Nat) (h : n ≤ 65804) : extB (extendOpt (n : Int)).1 (extendOpt (n : Int)).2 = ext n := by
  rw [extendOpt_nat]
  unfold extB ext nib
  by_cases h1 : n ≤ 12
  · have a : ¬ ((n : Int) = 13) := by omega
    have b : ¬ ((n : Int) = 14) := by omega
    simp [h1, a, b]
  · by_cases h2 : n ≤ 268
    · simp only [h1, h2, ↓reduceIte]
      have : byteOfInt ((n - 13 : Nat) : Int) = UInt8.ofNat (n - 13) := byteOfInt_nat _
      simp [this]
    · simp only [h1, h2, ↓reduceIte]
      have a : ¬ (((14 : Nat) : Int) = 13) := by decide
      have e : (((n - 269 : Nat) : Int) % 65536).toNat = n - 269 := by omega
      simp [e]

theorem hdrB_nat (d l : Nat) (hd : d ≤ 65804) (hl : l ≤ 65804) :
    hdrB (d : Int) (l : Int) = UInt8.ofNat (nib d * 16 + nib l) :: (ext d ++ ext l) := by
  unfold hdrB
  rw [extB_nat d hd, extB_nat l hl]
  congr 1
  rw [extendOpt_nat d, extendOpt_nat l]
  simp only []
  have hn1 : nib d < 15 := by unfold nib; split <;> (try split) <;> omega
  have hn2 : nib l < 15 := by unfold nib; split <;> (try split) <;> omega
  have e1 : ((nib d : Nat) : Int) * 16 = ((nib d * 16 : Nat) : Int) := by omega
  rw [e1, byteOfInt_nat, byteOfInt_nat]
  exact or_nibbles ⟨nib d, hn1⟩ ⟨nib l, hn2⟩

/-- Ascending numbers (each delta expressible) and expressible lengths: what the byte-level equality needs. -/
def encodable (prev : Nat) : List Opt → Prop
  | [] => True
  | o :: os => prev ≤ o.id ∧ o.id - prev ≤ 65804 ∧ o.val.length ≤ 65804 ∧ encodable o.id os

theorem optsB_eq_encOpts (os : List Opt) (prev : Nat) (h : encodable prev os) : optsB prev os = encOpts prev os := by
  induction os generalizing prev with
  | nil => rfl
  | cons o os ih =>
    obtain ⟨h1, h2, h3, h4⟩ := h
    simp only [optsB, encOpts, optB, encOpt]
    have : ((o.id : Int) - (prev : Int)) = ((o.id - prev : Nat) : Int) := by omega
    rw [this, hdrB_nat _ _ h2 h3, ih o.id h4]
    simp

theorem optsWF_encodable (reg : List (Nat × Nat × Nat)) (os : List Opt) (prev : Nat) (h : optsWF reg prev os = true) :
    encodable prev os := by
  induction os generalizing prev with
  | nil => trivial
  | cons o os ih =>
    simp only [optsWF, Bool.and_eq_true, decide_eq_true_eq] at h
    obtain ⟨⟨⟨⟨⟨h1, h0⟩, h2⟩, h3⟩, hleg⟩, hrest⟩ := h
    exact ⟨h1, by omega, h3, ih o.id hrest⟩

end CoapVerif.Lemmas.OptionEncode
