import CoapVerif.Model.OptionGlue
import CoapVerif.Lemmas.PoolOptionsModel
/-!
Lemmas about `Model/OptionGlue.lean` (C15): `ResponseWriter.SetResponse` refines "reset to the given options, then
Content-Format when there is a body"; the options an observation keeps of its registration request are a clone whose
values no history on the request message — `Reset` and reuse included — can change.
-/
namespace CoapVerif.Lemmas.OptionGlueModel
open CoapVerif.Model.Options CoapVerif.Spec.SortedMultiset CoapVerif.Lemmas.SortedMultiset
open CoapVerif.Lemmas.OptionsModel CoapVerif.Lemmas.OptionValuesModel CoapVerif.Lemmas.PoolOptionsModel
open CoapVerif.Generated.OptionList CoapVerif.Generated.OptionListShape

theorem setResponse_spec (g : Nat → Nat) (gb : Nat → Nat → Nat) {r : Msg} (hinv : MsgInv r) (cf : Nat) (hcf : cf < 65536)
    (hasBody : Bool) (inp : List (Opt View))
    (hext : ∀ v ∈ inp.map (·.2), InB r.mem v ∧ Below r.vb.bid r.vb.off v) :
    ∃ r', r.setResponse g gb cf hasBody inp = .ok (r', none) ∧ MsgInv r' ∧
      items r'.mem r'.opts = responseOptions cf hasBody (inp.map (fun x => (x.1, r.mem.read x.2))) := by
  obtain ⟨r1, e1, h1, h2, _, h4⟩ := retry_spec gb hinv (contract_reset g inp) hext
  simp only [Bool.false_eq_true, if_false] at h4
  obtain ⟨he1, hi1⟩ := h4
  subst he1
  unfold Msg.setResponse
  simp only [setResponseAlwaysResets, true_or, if_true, bind, Except.bind]
  have h1' : r.resetOptionsTo g gb inp = .ok (r1, none) := h1
  rw [h1']
  simp only []
  cases hasBody with
  | false =>
    simp only [Bool.false_eq_true, if_false, pure, Except.pure]
    exact ⟨r1, rfl, h2, by rw [hi1]; simp [responseOptions]⟩
  | true =>
    simp only [if_true]
    obtain ⟨r2, e2, k1, k2, _, k4⟩ := retry_spec gb h2 (contract_u32 true g contentFormat cf)
      (by intro v hv; cases hv)
    simp only [Bool.false_eq_true, if_false, if_true] at k4
    obtain ⟨he2, hi2⟩ := k4
    subst he2
    have k1' : r1.setOptionUint32 g gb contentFormat cf = .ok (r2, none) := by
      simp only [if_true] at k1; exact k1
    rw [k1']
    refine ⟨r2, rfl, k2, ?_⟩
    rw [hi2, hi1]
    have e : contentFormat = contentFormatId := by decide
    simp [responseOptions, e, Nat.mod_eq_of_lt hcf]

/-- Registering an observation on a request message and then doing *anything* with that message — edits, buffer
growth, `Reset` and reuse for another request — leaves the options the observation keeps exactly as they were. -/
theorem observation_keeps (g : Nat → Nat) (gb : Nat → Nat → Nat) {r : Msg} (hinv : MsgInv r) :
    ∃ res, observeRequest g r.mem r.opts = .ok res ∧
      (res.2.isSome ↔ registers (items r.mem r.opts) = true) ∧
      ∀ kept, res.2 = some kept →
        items res.1 kept = items r.mem r.opts ∧
        MsgInv ({ r with mem := res.1 } : Msg) ∧
        ∀ (ops : List Msg.Op) (r' : Msg), Msg.run g gb { r with mem := res.1 } ops = .ok r' →
          items r'.mem kept = items r.mem r.opts := by
  have hobs : observe = observeId := by decide
  have hu := getUint32_spec r.mem hinv.wf hinv.sorted observe
  unfold observeRequest
  rw [hu, hobs]
  simp only [bind, Except.bind]
  unfold registers
  cases hv : values observeId (items r.mem r.opts) with
  | nil =>
    simp only [List.head?_nil, Option.map_none, pure, Except.pure]
    exact ⟨_, rfl, by simp, by intro kept h; cases h⟩
  | cons v vs =>
    simp only [List.head?_cons, Option.map_some]
    by_cases hz : uintOf v = 0
    · simp only [hz, observationClonesOptions, if_true]
      have hin : ∀ x ∈ r.opts.toList, InB r.mem x.2 := fun x hx => (hinv.live x hx).1
      obtain ⟨m', c, c1, c2, c3, c4, c5, c6, c7⟩ := clone_spec g hinv.wf hinv.sorted hin
      rw [c1]
      simp only [pure, Except.pure]
      refine ⟨_, rfl, by simp [hz], ?_⟩
      intro kept hk
      simp only [Option.some.injEq] at hk
      subst hk
      -- the request message in the heap that now also holds the clone
      have hsl : ∀ s : Slice, SliceIn r.mem s → SliceIn m' s := by
        intro s hs
        have hs' : s.off + s.len ≤ r.mem.size s.bid := hs
        have := (c5 ⟨s.bid, 0, s.off + s.len⟩ (Or.inr (by simpa using hs'))).2
        rcases this with h | h
        · unfold SliceIn; simp only at h; omega
        · unfold SliceIn; simpa using h
      have hinv' : MsgInv ({ r with mem := m' } : Msg) :=
        ⟨hinv.wf, hinv.sorted, hsl _ hinv.vbIn,
          fun x hx => ⟨(c5 x.2 (hinv.live x hx).1).2, (hinv.live x hx).2⟩,
          hsl _ hinv.origIn, Nat.lt_of_lt_of_le hinv.vbBid c7, Nat.lt_of_lt_of_le hinv.origBid c7⟩
      refine ⟨c4, hinv', ?_⟩
      intro ops r' hrun
      rw [← c4]
      unfold items
      apply mapVal_congr
      intro x hx
      obtain ⟨a, b⟩ := c6 x hx
      have hf : Foreign ({ r with mem := m' } : Msg) x.2 := by
        rcases a with a | a
        · exact Or.inl a
        · refine Or.inr ⟨a, ?_, ?_⟩
          · have := hinv.vbBid; show x.2.bid ≠ r.vb.bid; omega
          · have := hinv.origBid; show x.2.bid ≠ r.orig.bid; omega
      exact (foreign_run g gb ops hinv' hrun hf).1
    · cases hu' : uintOf v with
      | zero => exact absurd hu' hz
      | succ n =>
        simp only [pure, Except.pure]
        exact ⟨(r.mem, none), rfl, by simp, by intro kept h; cases h⟩

def kindName : ReqKind → String
  | .get => "get" | .post => "post" | .put => "put" | .delete => "delete" | .observe => "observe"

/-- The request builders: never a runtime panic; refused exactly for a path with a segment over 255 bytes; otherwise
the built request carries the caller's options (stable sort), the path, Content-Format for a POST/PUT with payload, and
for an observe request exactly one Observe option with value 0 whatever the caller's options contain. -/
theorem buildRequest_spec (g : Nat → Nat) (gb : Nat → Nat → Nat) (m : Mem) (k : ReqKind) (p : Bytes) (cf : Nat)
    (hcf : cf < 65536) (hasBody : Bool) (inp : List Item) :
    ∃ m', buildRequest g gb m k p cf hasBody inp = .ok (m', requestOptions (kindName k) p cf hasBody inp) := by
  have hinv0 := msgInv_new m newMessageOptionsCap
  have hi0 : items (Msg.new m newMessageOptionsCap).mem (Msg.new m newMessageOptionsCap).opts = [] := by
    simp [items, Msg.new, Mem.alloc, Options.make, Options.toList, mapVal]
  unfold buildRequest
  simp only [newObserveRequestSetsObserve, not_true_eq_false, and_false, if_false, and_true]
  obtain ⟨r1, s1, inv1, it1, _⟩ := step_spec g gb hinv0 (.resetTo inp)
  rw [hi0] at it1
  simp only [bind, Except.bind, s1]
  obtain ⟨r2, e, s2, inv2, _, h4⟩ := msg_setPath_spec g gb inv1 p
  rw [s2]
  simp only []
  unfold requestOptions
  have it1' : items r1.mem r1.opts = resetTo inp := it1
  rw [it1'] at h4
  cases hsp : Spec.SortedMultiset.setPath uriPathId p (resetTo inp) with
  | none =>
    rw [hsp] at h4; simp only [] at h4
    rw [h4.1]
    exact ⟨r2.mem, rfl⟩
  | some l' =>
    rw [hsp] at h4; simp only [] at h4
    obtain ⟨he, hi2⟩ := h4
    subst he
    simp only [Option.map_some]
    -- Content-Format
    obtain ⟨r3, s3, inv3, it3⟩ : ∃ r3, (if hasBody = true ∧ (k = .post ∨ k = .put) then r2.step g gb (.setUint32 contentFormat cf)
        else pure r2 : M Msg) = .ok r3 ∧ MsgInv r3 ∧
        items r3.mem r3.opts = (if hasBody = true ∧ (kindName k = "post" ∨ kindName k = "put")
          then Spec.SortedMultiset.set (contentFormatId, uintBytes (cf % 65536)) l' else l') := by
      by_cases c : hasBody = true ∧ (k = .post ∨ k = .put)
      · obtain ⟨r3, a1, a2, a3, _⟩ := step_spec g gb inv2 (.setUint32 contentFormat cf)
        have c' : hasBody = true ∧ (kindName k = "post" ∨ kindName k = "put") := by
          refine ⟨c.1, ?_⟩
          rcases c.2 with h | h <;> subst h <;> simp [kindName]
        refine ⟨r3, by simp only [c, and_self, if_true]; exact a1, a2, ?_⟩
        rw [a3, hi2]
        have e : contentFormat = contentFormatId := by decide
        simp only [specStep, c', and_self, if_true, e, Nat.mod_eq_of_lt hcf]
      · have c' : ¬ (hasBody = true ∧ (kindName k = "post" ∨ kindName k = "put")) := by
          intro h
          apply c
          refine ⟨h.1, ?_⟩
          cases k <;> simp [kindName] at h ⊢
        exact ⟨r2, by simp only [c, if_false]; rfl, inv2, by simp only [c', if_false]; exact hi2⟩
    rw [s3]
    simp only []
    by_cases ck : k = .observe
    · subst ck
      obtain ⟨r4, a1, _, a3, _⟩ := step_spec g gb inv3 (.setUint32 observe 0)
      simp only [if_true, a1, pure, Except.pure]
      refine ⟨r4.mem, ?_⟩
      have e : observe = observeId := by decide
      have hu : uintBytes 0 = [] := by decide
      have hit : r4.items = items r4.mem r4.opts := rfl
      rw [hit, a3, it3]
      simp [specStep, kindName, e, hu]
    · simp only [ck, if_false, pure, Except.pure]
      refine ⟨r3.mem, ?_⟩
      have : ¬ (kindName k = "observe") := by cases k <;> simp [kindName] at ck ⊢
      have hit : r3.items = items r3.mem r3.opts := rfl
      rw [hit, it3]
      simp [this]

end CoapVerif.Lemmas.OptionGlueModel
