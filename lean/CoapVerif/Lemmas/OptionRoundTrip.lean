import CoapVerif.Lemmas.OptionCodec
/-!
Round trip of the option list at list level: `decLoop` inverts the RFC encoder `encOpts`
(DESIGN appendix B1 steps 1–4 and 6), plus the registry correspondence between the generated
definition tables (what the code consults) and the registries of the specification.
-/
set_option linter.unusedVariables false
namespace CoapVerif.Lemmas.OptionRoundTrip
open CoapVerif.Generated.Codec CoapVerif.Generated.OptionDefs
open CoapVerif.Spec.Wire
open CoapVerif.Model.OptionCodec CoapVerif.Lemmas.OptionCodec

/-! ## Extension codec -/

theorem nib_lt (v : Nat) : nib v < 15 := by unfold nib; split <;> (try split) <;> omega

theorem decExt_ext (v : Nat) (h : v ≤ 65804) (r : Bytes) : decExt (nib v) (ext v ++ r) = .ok (v, r) := by
  unfold nib ext
  split
  · rename_i h1
    have n13 : v ≠ 13 := by omega
    have n14 : v ≠ 14 := by omega
    simp [decExt, n13, n14]
  · split
    · rename_i h1 h2
      simp [decExt]
      have : (v - 13) % 256 = v - 13 := Nat.mod_eq_of_lt (by omega)
      simp [this]; omega
    · rename_i h1 h2
      simp [decExt]
      have a : (v - 269) / 256 % 256 = (v - 269) / 256 := Nat.mod_eq_of_lt (by omega)
      simp [a]
      omega

theorem hdr_toNat (d l : Nat) (hd : d < 15) (hl : l < 15) : (UInt8.ofNat (d * 16 + l)).toNat = d * 16 + l := by
  simp; omega

theorem hdr_ne_ff (d l : Nat) (hd : d < 15) (hl : l < 15) : UInt8.ofNat (d * 16 + l) ≠ 0xff := by
  intro h
  have := congrArg UInt8.toNat h
  rw [hdr_toNat d l hd hl] at this
  simp at this
  omega

/-! ## Registry correspondence -/

/-- Length bounds of a definition table (what the specification calls a registry). -/
def regOf (defs : Defs) : List (Nat × Nat × Nat) := defs.map fun (k, lo, hi, _) => (k, lo, hi)

/-- No entry of a definition table has format `ValueUnknown`. -/
def noUnknown (defs : Defs) : Bool := defs.all fun (_, _, _, f) => f != fmtUnknown

theorem lookup_regOf (defs : Defs) (id : Nat) :
    lookup (regOf defs) id = (lookupDef defs id).map fun (lo, hi, _) => (lo, hi) := by
  induction defs with
  | nil => rfl
  | cons d ds ih =>
    obtain ⟨k, lo, hi, f⟩ := d
    simp only [regOf, List.map_cons, lookup, lookupDef]
    split
    · simp
    · exact ih

theorem lookupDef_fmt (defs : Defs) (h : noUnknown defs = true) (id lo hi f : Nat)
    (hl : lookupDef defs id = some (lo, hi, f)) : f ≠ fmtUnknown := by
  induction defs with
  | nil => simp [lookupDef] at hl
  | cons d ds ih =>
    obtain ⟨k, lo', hi', f'⟩ := d
    simp only [noUnknown, List.all_cons, Bool.and_eq_true] at h
    simp only [lookupDef] at hl
    split at hl
    · simp at hl; obtain ⟨_, _, rfl⟩ := hl; simpa using h.1
    · exact ih h.2 hl

/-- What the code keeps of an option = the leniency filter of the specification. -/
theorem keepOpt_eq (defs : Defs) (hu : noUnknown defs = true) (id : Nat) (v : Bytes) (hv : v.length < 4294967296) :
    keepOpt defs id v = if id ≠ 0 ∧ lengthLegal (regOf defs) id v.length = true then some ⟨id, v⟩ else none := by
  unfold keepOpt optionUnmarshal lengthLegal
  rw [lookup_regOf]
  cases hl : lookupDef defs id with
  | none => by_cases h0 : id = 0 <;> simp [h0]
  | some t =>
    obtain ⟨lo, hi, f⟩ := t
    have hf := lookupDef_fmt defs hu id lo hi f hl
    have hm : v.length % 4294967296 = v.length := Nat.mod_eq_of_lt hv
    simp only [hf, ↓reduceIte, hm, Option.map_some]
    by_cases hr : v.length < lo ∨ v.length > hi
    · have : ¬ (lo ≤ v.length ∧ v.length ≤ hi) := by omega
      simp [hr, this]
    · have : lo ≤ v.length ∧ v.length ≤ hi := by omega
      by_cases h0 : id = 0 <;> simp [hr, this, h0]

theorem coap_noUnknown : noUnknown coapOptionDefs = true := by decide
theorem csm_noUnknown : noUnknown tcpSignalCSMOptionDefs = true := by decide
theorem pingpong_noUnknown : noUnknown tcpSignalPingPongOptionDefs = true := by decide
theorem release_noUnknown : noUnknown tcpSignalReleaseOptionDefs = true := by decide
theorem abort_noUnknown : noUnknown tcpSignalAbortOptionDefs = true := by decide

theorem coap_regOf : regOf coapOptionDefs = rfcRegistry := by decide
theorem csm_regOf : regOf tcpSignalCSMOptionDefs = csmRegistry := by decide
theorem pingpong_regOf : regOf tcpSignalPingPongOptionDefs = pingPongRegistry := by decide
theorem release_regOf : regOf tcpSignalReleaseOptionDefs = releaseRegistry := by decide
theorem abort_regOf : regOf tcpSignalAbortOptionDefs = abortRegistry := by decide

/-! ## Option list round trip -/

/-- Tail of an option area: nothing, or the marker and a non-empty payload. -/
theorem encPayload_cases (p : Bytes) : encPayload p = [] ∧ p = [] ∨ encPayload p = 0xff :: p ∧ p ≠ [] := by
  unfold encPayload
  cases p with
  | nil => simp
  | cons b t => simp

theorem decLoop_payload (defs : Defs) (cap n prev : Nat) (p : Bytes) :
    decLoop defs cap n prev (encPayload p) = .ok ([], p) := by
  rw [decLoop.eq_def]
  rcases encPayload_cases p with ⟨h, rfl⟩ | ⟨h, _⟩
  · simp [h]
  · simp [h]

theorem decLoop_encOpts (defs : Defs) (hu : noUnknown defs = true) (os : List Opt) (p : Bytes) (cap n prev : Nat)
    (hwf : optsWF (regOf defs) prev os = true) (hc : n + os.length ≤ cap) :
    decLoop defs cap n prev (encOpts prev os ++ encPayload p) = .ok (os, p) := by
  induction os generalizing prev n with
  | nil => simpa [encOpts] using decLoop_payload defs cap n prev p
  | cons o os ih =>
    simp only [optsWF, Bool.and_eq_true, decide_eq_true_eq] at hwf
    obtain ⟨⟨⟨⟨⟨h1, h0⟩, h2⟩, h3⟩, hleg⟩, hrest⟩ := hwf
    have hd := nib_lt (o.id - prev)
    have hl := nib_lt o.val.length
    simp only [encOpts, encOpt, List.cons_append, List.append_assoc]
    rw [decLoop.eq_def]
    have hne := hdr_ne_ff _ _ hd hl
    have hb := hdr_toNat _ _ hd hl
    simp only [hne, ↓reduceIte]
    have e1 : (UInt8.ofNat (nib (o.id - prev) * 16 + nib o.val.length)).toNat / 16 = nib (o.id - prev) := by
      rw [hb]; omega
    have e2 : (UInt8.ofNat (nib (o.id - prev) * 16 + nib o.val.length)).toNat % 16 = nib o.val.length := by
      rw [hb]; omega
    have n1 : ¬ (nib (o.id - prev) = 15 ∨ nib o.val.length = 15) := by omega
    simp only [e1, e2, n1, ↓reduceIte]
    have r1 := decExt_ext (o.id - prev) (by omega) (ext o.val.length ++ (o.val ++ (encOpts o.id os ++ encPayload p)))
    have r2 := decExt_ext o.val.length h3 (o.val ++ (encOpts o.id os ++ encPayload p))
    have hp : prev + (o.id - prev) = o.id := by omega
    split
    · rename_i e heq; rw [e1, r1] at heq; cases heq
    · rename_i delta t1 heq
      rw [e1, r1] at heq
      injection heq with heq; injection heq with hδ ht1; subst hδ; subst ht1
      split
      · rename_i e heq2; rw [e2, r2] at heq2; cases heq2
      · rename_i len t2 heq2
        rw [e2, r2] at heq2
        injection heq2 with heq2; injection heq2 with hlen ht2; subst hlen; subst ht2
        have hk : keepOpt defs o.id o.val = some o := by
          rw [keepOpt_eq defs hu o.id o.val (by omega)]
          simp [h0, hleg]
        have hc1 : ¬ cap = n := by simp at hc; omega
        have ht : ¬ (o.val ++ (encOpts o.id os ++ encPayload p)).length < o.val.length := by simp
        have hov : ¬ o.id > 65535 := by omega
        simp only [hp, ht, hov, hc1, ↓reduceIte, List.take_left', List.drop_left', hk, Option.isSome_some]
        rw [ih (n + 1) o.id hrest (by simp at hc ⊢; omega)]
