import CoapVerif.Model.PoolOptions
import CoapVerif.Lemmas.OptionsModel
/-!
Lemmas about `Model/OptionValues.lean` and `Model/PoolOptions.lean` (C15): the heap of value buffers (reads of a
view are not affected by writes outside it), the editing functions with a destination buffer refine the
sorted-multiset specification on the list of `(number, bytes)` a reader sees, path splitting equals the
specification's `segments`, path reading equals `join`.
-/
namespace CoapVerif.Lemmas.OptionValuesModel
open CoapVerif.Model.Options CoapVerif.Spec.SortedMultiset CoapVerif.Lemmas.SortedMultiset CoapVerif.Lemmas.OptionsModel

/-! ### the heap -/

theorem buf_eq (m : Mem) (b : Nat) : m.buf b = (m[b]?).getD [] := by
  unfold Mem.buf; rw [List.getD_eq_getElem?_getD]

theorem size_pos_lt {m : Mem} {b : Nat} (h : 0 < m.size b) : b < m.length := by
  unfold Mem.size at h
  rw [buf_eq] at h
  by_cases c : b < m.length
  · exact c
  · rw [List.getElem?_eq_none (by omega)] at h; simp at h

theorem buf_write_same {m : Mem} {b : Nat} (off : Nat) (data : List UInt8) (hb : b < m.length) :
    (m.write b off data).buf b = (m.buf b).take off ++ data ++ (m.buf b).drop (off + data.length) := by
  unfold Mem.write
  rw [buf_eq (m.set b _), List.getElem?_set]
  simp [hb]

theorem buf_write_other {m : Mem} {b b' : Nat} (off : Nat) (data : List UInt8) (h : b' ≠ b) :
    (m.write b off data).buf b' = m.buf b' := by
  unfold Mem.write
  rw [buf_eq (m.set b _), List.getElem?_set]
  have : ¬ (b = b') := fun e => h e.symm
  simp only [this, if_false]
  exact (buf_eq m b').symm

theorem length_write (m : Mem) (b off : Nat) (data : List UInt8) : (m.write b off data).length = m.length := by
  unfold Mem.write; simp

theorem size_write {m : Mem} {b off : Nat} {data : List UInt8} (hin : off + data.length ≤ m.size b) (b' : Nat) :
    (m.write b off data).size b' = m.size b' := by
  unfold Mem.size at *
  by_cases c : b' = b
  · subst c
    by_cases hb : b' < m.length
    · rw [buf_write_same off data hb]
      simp [List.length_append, List.length_take, List.length_drop]; omega
    · unfold Mem.write; rw [List.set_eq_of_length_le (by omega)]
  · rw [buf_write_other off data c]

/-- A write leaves every view that does not overlap the written range as it was. -/
theorem read_write_disj {m : Mem} {b off : Nat} {data : List UInt8} (hin : off + data.length ≤ m.size b) (v : View)
    (h : v.bid ≠ b ∨ v.off + v.len ≤ off ∨ off + data.length ≤ v.off) :
    (m.write b off data).read v = m.read v := by
  unfold Mem.read
  by_cases c : v.bid = b
  · have h' : v.off + v.len ≤ off ∨ off + data.length ≤ v.off := by
      rcases h with h | h
      · exact absurd c h
      · exact h
    rw [c]
    by_cases hb : b < m.length
    · rw [buf_write_same off data hb]
      unfold Mem.size at hin
      generalize m.buf b = B at hin ⊢
      apply List.ext_getElem?
      intro j
      simp only [List.getElem?_take, List.getElem?_drop, List.getElem?_append, List.length_append, List.length_take]
      by_cases cj : j < v.len
      · simp only [cj, if_true]
        rcases h' with h' | h'
        · have h1 : v.off + j < min off B.length := by omega
          have h2 : v.off + j < off := by omega
          simp only [h1, h2, if_true]
          have : v.off + j < min off B.length + data.length := by omega
          simp only [this, if_true]
        · have h1 : ¬ (v.off + j < min off B.length + data.length) := by omega
          simp only [h1, if_false]
          congr 1; omega
      · simp only [cj, if_false]
    · unfold Mem.write; rw [List.set_eq_of_length_le (by omega)]
  · rw [buf_write_other off data c]

/-- Reading back what was just written. -/
theorem read_write_self {m : Mem} {b off : Nat} {data : List UInt8} (hin : off + data.length ≤ m.size b) :
    (m.write b off data).read ⟨b, off, data.length⟩ = data := by
  unfold Mem.read
  simp only
  by_cases hd : data = []
  · subst hd; simp
  · have hpos : 0 < m.size b := by
      have : 0 < data.length := List.length_pos_iff.mpr hd
      omega
    have hb := size_pos_lt hpos
    rw [buf_write_same off data hb]
    unfold Mem.size at hin
    generalize m.buf b = B at hin
    have h1 : (List.take off B).length = off := by rw [List.length_take]; omega
    rw [List.append_assoc, List.drop_left' h1, List.take_left' rfl]

theorem read_zero_len (m : Mem) (v : View) (h : v.len = 0) : m.read v = [] := by
  unfold Mem.read; simp [h]

theorem read_length {m : Mem} {v : View} (h : v.off + v.len ≤ m.size v.bid) : (m.read v).length = v.len := by
  unfold Mem.read Mem.size at *
  simp [List.length_take, List.length_drop]; omega

/-- Allocating a new buffer does not change what existing views read. -/
theorem read_append {m : Mem} (extra : List UInt8) (v : View) (h : v.len = 0 ∨ v.bid < m.length) :
    (m ++ [extra]).read v = m.read v := by
  rcases h with h | h
  · rw [read_zero_len _ _ h, read_zero_len _ _ h]
  · unfold Mem.read
    rw [buf_eq, buf_eq, List.getElem?_append_left h]

theorem size_append_lt {m : Mem} (extra : List UInt8) {b : Nat} (h : b < m.length) : (m ++ [extra]).size b = m.size b := by
  unfold Mem.size
  rw [buf_eq, buf_eq, List.getElem?_append_left h]

theorem size_append_new (m : Mem) (extra : List UInt8) : (m ++ [extra]).size m.length = extra.length := by
  unfold Mem.size
  rw [buf_eq, List.getElem?_append_right (Nat.le_refl _)]
  simp

/-! ### views, liveness, the list a reader sees -/

/-- the view lies inside its buffer -/
def InB (m : Mem) (v : View) : Prop := v.len = 0 ∨ v.off + v.len ≤ m.size v.bid
/-- the view does not reach into the region `[off, ∞)` of buffer `b` (the unused part of a value buffer) -/
def Below (b off : Nat) (v : View) : Prop := v.len = 0 ∨ v.bid ≠ b ∨ v.off + v.len ≤ off
/-- every stored value is inside its buffer and outside the unused part of `buf` -/
def Live (m : Mem) (buf : Slice) (o : Options View) : Prop :=
  ∀ x ∈ o.toList, InB m x.2 ∧ Below buf.bid buf.off x.2
/-- the slice lies inside its buffer -/
def SliceIn (m : Mem) (s : Slice) : Prop := s.off + s.len ≤ m.size s.bid
/-- the list of `(number, value bytes)` a reader of the options sees -/
def items (m : Mem) (o : Options View) : List Item := mapVal m.read o.toList

theorem mapVal_congr {β γ : Type} {f g : β → γ} {l : List (Nat × β)} (h : ∀ x ∈ l, f x.2 = g x.2) :
    mapVal f l = mapVal g l := by
  unfold mapVal
  apply List.map_congr_left
  intro x hx
  rw [h x hx]

theorem mem_set' {β : Type} {x z : Nat × β} {l : List (Nat × β)} (h : z ∈ Spec.SortedMultiset.set x l) : z = x ∨ z ∈ l := by
  unfold Spec.SortedMultiset.set at h
  rcases mem_ins h with h | h
  · exact Or.inl h
  · exact Or.inr (List.mem_filter.mp h).1

theorem mem_remove' {β : Type} {id : Nat} {z : Nat × β} {l : List (Nat × β)} (h : z ∈ remove id l) : z ∈ l :=
  (List.mem_filter.mp h).1

theorem below_mono {b off off' : Nat} {v : View} (h : Below b off v) (hle : off ≤ off') : Below b off' v := by
  unfold Below at *; omega

theorem read_stable_of_write {m : Mem} {buf : Slice} (hbuf : SliceIn m buf) {data : List UInt8}
    (hfit : data.length ≤ buf.len) {v : View} (hb : Below buf.bid buf.off v) :
    (m.write buf.bid buf.off data).read v = m.read v := by
  unfold Below at hb
  unfold SliceIn at hbuf
  by_cases c : v.len = 0
  · rw [read_zero_len _ _ c, read_zero_len _ _ c]
  · apply read_write_disj (by omega)
    omega

theorem take_of_fit {data : List UInt8} {n : Nat} (h : data.length ≤ n) : data.take n = data :=
  List.take_of_length_le h

/-- Common core of `SetBytes`/`AddBytes`/`SetUint32`/`AddUint32`: copy the value into the buffer, store the view. -/
theorem put_spec (isSet : Bool) (g : Nat → Nat) {m : Mem} {o : Options View} {buf : Slice}
    (hwf : WF o) (hs : Sorted o.toList) (hbuf : SliceIn m buf) (hlive : Live m buf o)
    (id : Nat) (data : List UInt8) (hfit : data.length ≤ buf.len) :
    let m' := m.copyTo buf data
    ∃ v o', buf.head m' data.length = .ok v ∧
      (if isSet then o.set g (id, v) else o.add g (id, v)) = .ok o' ∧ WF o' ∧ Sorted o'.toList ∧
      items m' o' = (if isSet then Spec.SortedMultiset.set (id, data) (items m o) else ins (id, data) (items m o)) ∧
      (∀ b, m'.size b = m.size b) ∧ m'.length = m.length ∧
      (∀ w, Below buf.bid buf.off w → m'.read w = m.read w) ∧
      Live m' ⟨buf.bid, buf.off + data.length, buf.len - data.length⟩ o' := by
  intro m'
  have hm' : m' = m.write buf.bid buf.off data := by
    show m.copyTo buf data = _
    unfold Mem.copyTo; rw [take_of_fit hfit]
  have hbuf' : buf.off + buf.len ≤ m.size buf.bid := hbuf
  have hin : buf.off + data.length ≤ m.size buf.bid := by omega
  have hsize : ∀ b, m'.size b = m.size b := by intro b; rw [hm']; exact size_write hin b
  have hstable : ∀ w, Below buf.bid buf.off w → m'.read w = m.read w := by
    intro w hw; rw [hm']; exact read_stable_of_write hbuf hfit hw
  refine ⟨⟨buf.bid, buf.off, data.length⟩, ?_⟩
  have hhead : buf.head m' data.length = .ok ⟨buf.bid, buf.off, data.length⟩ := by
    unfold Slice.head; rw [hsize]; simp [hin]
  have hread : m'.read ⟨buf.bid, buf.off, data.length⟩ = data := by rw [hm']; exact read_write_self hin
  have hold : mapVal m'.read o.toList = mapVal m.read o.toList :=
    mapVal_congr (fun x hx => hstable x.2 (hlive x hx).2)
  have hnew_live : ∀ (o' : Options View), (∀ z ∈ o'.toList, z = (id, (⟨buf.bid, buf.off, data.length⟩ : View)) ∨ z ∈ o.toList) →
      Live m' ⟨buf.bid, buf.off + data.length, buf.len - data.length⟩ o' := by
    intro o' hmem z hz
    rcases hmem z hz with h | h
    · subst h
      refine ⟨Or.inr ?_, Or.inr (Or.inr ?_)⟩
      · show buf.off + data.length ≤ m'.size buf.bid
        rw [hsize]; exact hin
      · exact Nat.le_refl _
    · obtain ⟨h1, h2⟩ := hlive z h
      refine ⟨?_, below_mono h2 (by simp)⟩
      unfold InB at *; rw [hsize]; exact h1
  cases isSet with
  | true =>
    obtain ⟨o', h1, h2, _, h4⟩ := set_spec g hwf hs (id, (⟨buf.bid, buf.off, data.length⟩ : View))
    have h5 : o'.toList = Spec.SortedMultiset.set (id, (⟨buf.bid, buf.off, data.length⟩ : View)) o.toList := by
      rw [h4, set_eq _ hs]
    refine ⟨o', hhead, h1, h2, ?_, ?_, hsize, by rw [hm']; exact length_write _ _ _ _, hstable, ?_⟩
    · rw [h5]; exact set_sorted _ hs
    · unfold items; rw [h5, mapVal_set, hold]; simp only [hread, if_true]
    · apply hnew_live; intro z hz; rw [h5] at hz; exact mem_set' hz
  | false =>
    obtain ⟨o', h1, h2, _, h4⟩ := add_spec g hwf hs (id, (⟨buf.bid, buf.off, data.length⟩ : View))
    have h5 : o'.toList = ins (id, (⟨buf.bid, buf.off, data.length⟩ : View)) o.toList := by
      rw [h4, ins_eq _ hs]
    refine ⟨o', hhead, h1, h2, ?_, ?_, hsize, by rw [hm']; exact length_write _ _ _ _, hstable, ?_⟩
    · rw [h5]; exact ins_sorted _ hs
    · unfold items; rw [h5, mapVal_ins, hold]; simp only [hread]; rfl
    · apply hnew_live; intro z hz; rw [h5] at hz; exact mem_ins hz

/-- What an editing call with destination buffer `buf` that consumed `used` bytes guarantees about heap and list. -/
structure Post (m : Mem) (buf : Slice) (m' : Mem) (o' : Options View) (used : Nat) : Prop where
  wf : WF o'
  sorted : Sorted o'.toList
  size : ∀ b, m'.size b = m.size b
  length : m'.length = m.length
  /-- nothing outside the unused part of the buffer changed -/
  stable : ∀ w, Below buf.bid buf.off w → m'.read w = m.read w
  /-- every stored value lies outside what is still unused -/
  live : Live m' ⟨buf.bid, buf.off + used, buf.len - used⟩ o'

theorem Post.trans {m m1 m2 : Mem} {buf : Slice} {o1 o2 : Options View} {u1 u2 : Nat}
    (h1 : Post m buf m1 o1 u1) (h2 : Post m1 ⟨buf.bid, buf.off + u1, buf.len - u1⟩ m2 o2 u2) :
    Post m buf m2 o2 (u1 + u2) where
  wf := h2.wf
  sorted := h2.sorted
  size := fun b => by rw [h2.size, h1.size]
  length := by rw [h2.length, h1.length]
  stable := fun w hw => by
    rw [h2.stable w (below_mono hw (by simp)), h1.stable w hw]
  live := by
    have := h2.live
    simp only at this
    have e1 : buf.off + u1 + u2 = buf.off + (u1 + u2) := by omega
    have e2 : buf.len - u1 - u2 = buf.len - (u1 + u2) := by omega
    rw [e1, e2] at this
    exact this

theorem put_ok (isSet : Bool) (g : Nat → Nat) {m : Mem} {o : Options View} {buf : Slice}
    (hwf : WF o) (hs : Sorted o.toList) (hbuf : SliceIn m buf) (hlive : Live m buf o)
    (id : Nat) (data : List UInt8) (hfit : data.length ≤ buf.len)
    (hok : ¬ (id = CoapVerif.Generated.OptionList.uriPath ∧ data.length > CoapVerif.Generated.OptionList.maxPathValue)) :
    ∃ m' o', (if isSet then Options.setBytes g m o buf id data else Options.addBytes g m o buf id data)
        = .ok ⟨m', o', data.length, none⟩ ∧
      Post m buf m' o' data.length ∧
      items m' o' = (if isSet then Spec.SortedMultiset.set (id, data) (items m o) else ins (id, data) (items m o)) := by
  obtain ⟨v, o', h1, h2, h3, h4, h5, h6, h7, h8, h9⟩ := put_spec isSet g hwf hs hbuf hlive id data hfit
  refine ⟨m.copyTo buf data, o', ?_, ⟨h3, h4, h6, h7, h8, h9⟩, h5⟩
  have c1 : ¬ (buf.len < data.length) := by omega
  cases isSet with
  | true =>
    simp only [if_true] at h2 ⊢
    unfold Options.setBytes
    simp only [c1, hok, if_false, bind, Except.bind, h1, h2, pure, Except.pure]
  | false =>
    simp only [Bool.false_eq_true, if_false] at h2 ⊢
    unfold Options.addBytes
    simp only [c1, hok, if_false, bind, Except.bind, h1, h2, pure, Except.pure]

/-! ### paths: the model's loops against the specification's `segments` -/

theorem slash_eq : Options.slash = Spec.SortedMultiset.slash := rfl

theorem maxPathValue_eq : CoapVerif.Generated.OptionList.maxPathValue = maxSegment := by decide

theorem splitAux_index (rest : Bytes) : ∀ (cur : Bytes),
    match Options.indexSlash rest with
    | none => splitAux rest cur = [cur.reverse ++ rest]
    | some k => splitAux rest cur = (cur.reverse ++ rest.take k) :: splitAux (rest.drop (k + 1)) [] := by
  induction rest with
  | nil => intro cur; simp [Options.indexSlash, splitAux]
  | cons c r ih =>
    intro cur
    unfold Options.indexSlash
    by_cases h : c = Options.slash
    · subst h
      have e : Options.slash = Spec.SortedMultiset.slash := rfl
      simp [splitAux, e]
    · have h' : ¬ (c = Spec.SortedMultiset.slash) := h
      simp only [h, if_false]
      have := ih (c :: cur)
      cases hi : Options.indexSlash r with
      | none => rw [hi] at this; simp [splitAux, h', this]
      | some k => rw [hi] at this; simp [splitAux, h', this]

theorem segments_nil : segments [] = [] := by simp [segments, splitAux]

theorem segments_of_index_none {rest : Bytes} (h : Options.indexSlash rest = none) (hne : rest ≠ []) :
    segments rest = [rest] := by
  have := splitAux_index rest []
  rw [h] at this
  simp only at this
  unfold segments; rw [this]
  simp [hne]

theorem segments_of_index_zero {rest : Bytes} (h : Options.indexSlash rest = some 0) :
    segments rest = segments rest.tail := by
  have := splitAux_index rest []
  rw [h] at this
  simp only at this
  unfold segments; rw [this]
  simp

theorem segments_of_index_succ {rest : Bytes} {k : Nat} (h : Options.indexSlash rest = some (k + 1)) :
    segments rest = rest.take (k + 1) :: segments (rest.drop (k + 2)) := by
  have := splitAux_index rest []
  rw [h] at this
  simp only at this
  unfold segments; rw [this]
  have hlen : k + 1 ≤ rest.length := by
    clear this
    induction rest generalizing k with
    | nil => simp [Options.indexSlash] at h
    | cons c r ih =>
      unfold Options.indexSlash at h
      by_cases hc : c = Options.slash
      · simp [hc] at h
      · simp only [hc, if_false, Option.map_eq_some_iff] at h
        obtain ⟨a, ha, hk⟩ := h
        cases k with
        | zero => simp
        | succ k =>
          have : a = k + 1 := by omega
          subst this
          have := ih ha
          simp; omega
  have hne : ¬ (rest.take (k + 1)).isEmpty = true := by
    rw [List.isEmpty_iff]
    intro e
    have := congrArg List.length e
    rw [List.length_take, List.length_nil] at this
    omega
  simp [List.filter_cons, hne]

theorem indexSlash_le {rest : Bytes} {k : Nat} (h : Options.indexSlash rest = some k) : k < rest.length := by
  induction rest generalizing k with
  | nil => simp [Options.indexSlash] at h
  | cons c r ih =>
    unfold Options.indexSlash at h
    by_cases hc : c = Options.slash
    · simp [hc] at h; subst h; simp
    · simp only [hc, if_false, Option.map_eq_some_iff] at h
      obtain ⟨a, ha, hk⟩ := h
      have := ih ha
      simp; omega

def totalSeg (segs : List Bytes) : Nat := (segs.map List.length).sum

/-- `GetPathBufferSize`'s loop = the specification's split: refuses iff a segment is too long, else the total length. -/
theorem pathSizeLoop_spec : ∀ (fuel : Nat) (rest : Bytes) (size : Nat), rest.length < fuel →
    Options.pathSizeLoop fuel rest size = .ok (
      if (segments rest).any (fun s => s.length > maxSegment) then .error Err.invalidLen
      else .ok (size + totalSeg (segments rest))) := by
  intro fuel
  induction fuel with
  | zero => intro rest size h; omega
  | succ fuel ih =>
    intro rest size hf
    unfold Options.pathSizeLoop
    by_cases hr : rest = []
    · subst hr; simp [segments_nil, totalSeg, pure, Except.pure]
    · simp only [hr, if_false]
      cases hi : Options.indexSlash rest with
      | none =>
        simp only [Option.getD_none]
        rw [segments_of_index_none hi hr, maxPathValue_eq]
        by_cases c : rest.length > maxSegment
        · simp [c, pure, Except.pure]
        · simp only [c, if_false]
          have hfuel : 0 < fuel := by
            have : 0 < rest.length := List.length_pos_iff.mpr hr
            omega
          have hd : List.drop (rest.length + 1) rest = [] := List.drop_eq_nil_of_le (by omega)
          rw [hd, ih [] _ hfuel]
          simp [segments_nil, totalSeg, c]
      | some k =>
        cases k with
        | zero =>
          simp only []
          rw [segments_of_index_zero hi]
          apply ih
          have := indexSlash_le hi
          simp; omega
        | succ k =>
          simp only [Option.getD_some]
          rw [segments_of_index_succ hi, maxPathValue_eq]
          have hk := indexSlash_le hi
          have hlt : (rest.take (k + 1)).length = k + 1 := by rw [List.length_take]; omega
          by_cases c : k + 1 > maxSegment
          · simp [c, hlt, pure, Except.pure]
          · simp only [c, if_false]
            rw [ih _ _ (by simp; omega)]
            simp only [List.any_cons, hlt, totalSeg, List.map_cons, List.sum_cons]
            have c' : decide (k + 1 > maxSegment) = false := by simpa using c
            simp only [c', Bool.false_or]
            by_cases c2 : (segments (List.drop (k + 1 + 1) rest)).any (fun s => decide (s.length > maxSegment)) = true
            · simp [c2]
            · simp only [c2, if_false, Bool.false_eq_true]
              have : size + (k + 1) + ((segments (List.drop (k + 1 + 1) rest)).map List.length).sum
                  = size + (k + 1 + ((segments (List.drop (k + 1 + 1) rest)).map List.length).sum) := by omega
              rw [this]

theorem Post.refl {m : Mem} {buf : Slice} {o : Options View} (hwf : WF o) (hs : Sorted o.toList) (hl : Live m buf o) :
    Post m buf m o 0 where
  wf := hwf
  sorted := hs
  size := fun _ => rfl
  length := rfl
  stable := fun _ _ => rfl
  live := by simpa using hl

/-- one iteration of the segment loop of `setPath` that stores a segment -/
def stepExpr (g : Nat → Nat) (id : Nat) (buf : Slice) (fuel : Nat) (m : Mem) (o : Options View) (encoded : Nat)
    (seg rest' : Bytes) : M Res := do
  let data ← buf.tail encoded
  let res ← Options.addString g m o data id seg
  match res.err with
  | some e => pure ⟨res.mem, res.opts, -1, some e⟩
  | none => Options.setPathLoop g id buf fuel res.mem res.opts (encoded + res.used.toNat) rest'

def adv (buf : Slice) (n : Nat) : Slice := ⟨buf.bid, buf.off + n, buf.len - n⟩

theorem adv_adv (buf : Slice) (a b : Nat) : adv (adv buf a) b = adv buf (a + b) := by
  unfold adv; simp only [Slice.mk.injEq, true_and]; omega

/-- The segment loop of `setPath` adds exactly the specification's segments, in order, consuming their total length. -/
theorem setPathLoop_spec (g : Nat → Nat) (id : Nat) (buf : Slice) :
    ∀ (fuel : Nat) (rest : Bytes) (m : Mem) (o : Options View) (encoded : Nat), rest.length < fuel →
      WF o → Sorted o.toList → SliceIn m buf → Live m (adv buf encoded) o →
      encoded + totalSeg (segments rest) ≤ buf.len → (∀ s ∈ segments rest, s.length ≤ maxSegment) →
      ∃ m' o', Options.setPathLoop g id buf fuel m o encoded rest
          = .ok ⟨m', o', ((encoded + totalSeg (segments rest) : Nat) : Int), none⟩ ∧
        Post m (adv buf encoded) m' o' (totalSeg (segments rest)) ∧
        items m' o' = (segments rest).foldl (fun acc s => ins (id, s) acc) (items m o) := by
  intro fuel
  induction fuel with
  | zero => intro rest m o encoded h; omega
  | succ fuel ih =>
    intro rest m o encoded hf hwf hs hbuf hlive htot hmax
    have step : ∀ (seg rest' : Bytes), segments rest = seg :: segments rest' → rest'.length < fuel →
        ∃ m' o', stepExpr g id buf fuel m o encoded seg rest'
            = .ok ⟨m', o', ((encoded + totalSeg (segments rest) : Nat) : Int), none⟩ ∧
          Post m (adv buf encoded) m' o' (totalSeg (segments rest)) ∧
          items m' o' = (segments rest).foldl (fun acc s => ins (id, s) acc) (items m o) := by
      intro seg rest' hseg hlen'
      rw [hseg] at htot hmax ⊢
      have htot' : encoded + (seg.length + totalSeg (segments rest')) ≤ buf.len := by
        simpa [totalSeg] using htot
      have hsegmax : seg.length ≤ maxSegment := hmax seg (by simp)
      have hbuf' : buf.off + buf.len ≤ m.size buf.bid := hbuf
      have hdata : buf.tail encoded = .ok (adv buf encoded) := by
        unfold Slice.tail adv
        have : encoded ≤ buf.len := by omega
        simp [this]
      have hin : SliceIn m (adv buf encoded) := by unfold SliceIn adv; simp only; omega
      obtain ⟨m1, o1, h1, hp1, hi1⟩ := put_ok false g hwf hs hin hlive id seg (by unfold adv; simp only; omega)
        (by rw [maxPathValue_eq]; omega)
      simp only [Bool.false_eq_true, if_false] at h1 hi1
      have hin1 : SliceIn m1 buf := by unfold SliceIn; rw [hp1.size]; exact hbuf
      have hl1 : Live m1 (adv buf (encoded + seg.length)) o1 := by
        have := hp1.live
        rw [← adv_adv]; exact this
      obtain ⟨m2, o2, h2, hp2, hi2⟩ := ih rest' m1 o1 (encoded + seg.length) hlen' hp1.wf hp1.sorted hin1 hl1
        (by omega) (fun s hs' => hmax s (by simp [hs']))
      refine ⟨m2, o2, ?_, ?_, ?_⟩
      · unfold stepExpr
        simp only [hdata, bind, Except.bind]
        have : Options.addString g m o (adv buf encoded) id seg = Options.addBytes g m o (adv buf encoded) id seg := rfl
        rw [this, h1]
        simp only [Int.toNat_natCast]
        rw [h2]
        simp only [totalSeg, List.map_cons, List.sum_cons]
        congr 3; omega
      · have := Post.trans hp1 (by rw [← adv_adv] at hp2; exact hp2)
        simpa [totalSeg] using this
      · rw [hi2, hi1]; simp
    unfold Options.setPathLoop
    by_cases hr : rest = []
    · subst hr
      simp only [if_true, pure, Except.pure, segments_nil, totalSeg, List.map_nil, List.sum_nil, Nat.add_zero,
        List.foldl_nil]
      exact ⟨m, o, rfl, Post.refl hwf hs hlive, rfl⟩
    · simp only [hr, if_false]
      cases hi : Options.indexSlash rest with
      | none =>
        simp only [Option.getD_none]
        have hd : List.drop (rest.length + 1) rest = [] := List.drop_eq_nil_of_le (by omega)
        have hfuel : 0 < fuel := by
          have : 0 < rest.length := List.length_pos_iff.mpr hr
          omega
        have := step rest [] (by rw [segments_of_index_none hi hr, segments_nil]) hfuel
        unfold stepExpr at this
        rw [List.take_length, hd]
        exact this
      | some k =>
        cases k with
        | zero =>
          simp only []
          have hk := indexSlash_le hi
          have := ih rest.tail m o encoded (by simp; omega) hwf hs hbuf hlive
            (by rw [← segments_of_index_zero hi]; exact htot) (by rw [← segments_of_index_zero hi]; exact hmax)
          rw [← segments_of_index_zero hi] at this
          exact this
        | succ k =>
          simp only [Option.getD_some]
          have hk := indexSlash_le hi
          have := step (rest.take (k + 1)) (rest.drop (k + 2)) (segments_of_index_succ hi) (by simp; omega)
          unfold stepExpr at this
          exact this

theorem adv_zero (buf : Slice) : adv buf 0 = buf := by
  cases buf; simp [adv]

theorem items_remove {m : Mem} {o o1 : Options View} {id : Nat} (hs : Sorted o.toList)
    (h : o1.toList = o.toList.take (lt id o.toList) ++ o.toList.drop (le id o.toList)) :
    items m o1 = remove id (items m o) := by
  unfold items
  rw [h, ← remove_eq id hs, mapVal_remove]

/-- `setPath` (as repaired): the empty string changes nothing; a path with a segment over 255 bytes is refused with
the list (and the heap) untouched; a path that does not fit the buffer is refused with `ErrTooSmall`, again
untouched; otherwise the old path options are replaced by one option per non-empty segment. -/
theorem setPath_spec (g : Nat → Nat) {m : Mem} {o : Options View} {buf : Slice}
    (hwf : WF o) (hs : Sorted o.toList) (hbuf : SliceIn m buf) (hlive : Live m buf o) (id : Nat) (p : Bytes) :
    ∃ res, Options.setPath g m o id buf p = .ok res ∧
      match Spec.SortedMultiset.setPath id p (items m o) with
      | none => res.err = some Err.invalidLen ∧ res.mem = m ∧ res.opts = o
      | some l' =>
        if p ≠ [] ∧ totalSeg (segments p) > buf.len then res.err = some Err.tooSmall ∧ res.mem = m ∧ res.opts = o
        else
          let used := if p = [] then 0 else totalSeg (segments p)
          res.err = none ∧ res.used = (used : Int) ∧ Post m buf res.mem res.opts used ∧ items res.mem res.opts = l' := by
  unfold Options.setPath
  simp only [CoapVerif.Generated.OptionListShape.setPathValidatesBeforeRemove, if_true]
  unfold Options.setPathChecked Spec.SortedMultiset.setPath
  by_cases hp : p = []
  · subst hp
    simp only [if_true, pure, Except.pure]
    refine ⟨_, rfl, ?_⟩
    simp only [ne_eq, not_true_eq_false, false_and, if_false, if_true]
    and_intros <;> first | rfl | trivial | exact Post.refl hwf hs hlive
  · simp only [hp, if_false, bind, Except.bind]
    -- stripping one leading slash does not change the segments
    have hseg : segments (if p.head? = some Options.slash then p.tail else p) = segments p := by
      by_cases hh : p.head? = some Options.slash
      · simp only [hh, if_true]
        cases p with
        | nil => exact absurd rfl hp
        | cons c r =>
          simp only [List.head?_cons, Option.some.injEq] at hh
          subst hh
          have : Options.indexSlash (Options.slash :: r) = some 0 := by simp [Options.indexSlash]
          rw [segments_of_index_zero this]
      · simp only [hh, if_false]
    generalize hq : (if p.head? = some Options.slash then p.tail else p) = q at hseg
    unfold Options.getPathBufferSize
    rw [pathSizeLoop_spec (q.length + 1) q 0 (by omega), hseg]
    by_cases hany : (segments p).any (fun s => decide (s.length > maxSegment)) = true
    · simp only [hany, if_true, pure, Except.pure]
      exact ⟨_, rfl, rfl, rfl, rfl⟩
    · simp only [hany, if_false, Bool.false_eq_true, Nat.zero_add]
      by_cases hfit : totalSeg (segments p) > buf.len
      · simp only [hfit, if_true, pure, Except.pure]
        refine ⟨_, rfl, ?_⟩
        simp only [ne_eq, hp, not_false_eq_true, hfit, and_self, if_true]
      · simp only [hfit, if_false]
        obtain ⟨o1, hr1, hwf1, _, _, ht1⟩ := remove_spec hwf hs id
        rw [hr1]
        simp only []
        have hs1 : Sorted o1.toList := by rw [ht1, ← remove_eq id hs]; exact remove_sorted id hs
        have hl1 : Live m (adv buf 0) o1 := by
          rw [adv_zero]
          intro x hx
          rw [ht1, ← remove_eq id hs] at hx
          exact hlive x (mem_remove' hx)
        have hmax : ∀ s ∈ segments p, s.length ≤ maxSegment := by
          intro s hs'
          by_cases c : s.length ≤ maxSegment
          · exact c
          · exfalso; apply hany
            rw [List.any_eq_true]
            exact ⟨s, hs', by simp; omega⟩
        obtain ⟨m', o', h2, hp2, hi2⟩ := setPathLoop_spec g id buf (q.length + 1) q m o1 0 (by omega) hwf1 hs1 hbuf hl1
          (by rw [hseg]; omega) (by rw [hseg]; exact hmax)
        rw [hseg] at h2 hp2 hi2
        rw [h2]
        refine ⟨_, rfl, ?_⟩
        have hc : ¬ (p ≠ [] ∧ totalSeg (segments p) > buf.len) := by intro h; exact hfit h.2
        simp only [and_false, hp, if_false]
        rw [adv_zero] at hp2
        and_intros <;> first | rfl | trivial | exact hp2 | (simp) | (rw [hi2, items_remove hs ht1])

/-! ### getters that read values -/

theorem read_length_le (m : Mem) (v : View) : (m.read v).length ≤ v.len := by
  unfold Mem.read; rw [List.length_take]; omega

theorem drop_cons_of_get {o : Options View} (hwf : WF o) {i : Nat} {x : Opt View} (hx : o.toList[i]? = some x) :
    o.toList.drop i = x :: o.toList.drop (i + 1) := by
  obtain ⟨hi, h⟩ := List.getElem?_eq_some_iff.mp hx
  rw [List.drop_eq_getElem_cons hi, h]

/-- bytes the `path` loops need for the options in `xs`: one slash plus the value length each -/
def neededOf (xs : List (Opt View)) : Nat := (xs.map (fun x => x.2.len + 1)).sum

theorem pathNeeded_spec {o : Options View} (hwf : WF o) :
    ∀ (k i needed : Nat), i + k ≤ o.len →
      Options.pathNeeded o k (i : Int) needed = .ok (needed + neededOf ((o.toList.drop i).take k)) := by
  intro k
  induction k with
  | zero => intro i needed _; simp [Options.pathNeeded, neededOf, pure, Except.pure]
  | succ k ih =>
    intro i needed h
    obtain ⟨x, hx, _, hg⟩ := get_eq hwf (i := i) (by omega)
    unfold Options.pathNeeded
    rw [getI_nat, hg]
    simp only [bind, Except.bind]
    have e1 : (i : Int) + 1 = ((i + 1 : Nat) : Int) := by omega
    rw [e1, ih (i + 1) _ (by omega), drop_cons_of_get hwf hx]
    simp only [List.take_succ_cons, neededOf, List.map_cons, List.sum_cons]
    congr 1; omega

theorem pathWrite_spec (m : Mem) {o : Options View} (hwf : WF o) :
    ∀ (k i rem : Nat) (out : List UInt8), i + k ≤ o.len → neededOf ((o.toList.drop i).take k) ≤ rem →
      Options.pathWrite m o k (i : Int) rem out
        = .ok (out ++ ((o.toList.drop i).take k).flatMap (fun x => Options.slash :: m.read x.2)) := by
  intro k
  induction k with
  | zero => intro i rem out _ _; simp [Options.pathWrite, pure, Except.pure]
  | succ k ih =>
    intro i rem out h hrem
    obtain ⟨x, hx, _, hg⟩ := get_eq hwf (i := i) (by omega)
    rw [drop_cons_of_get hwf hx] at hrem ⊢
    simp only [List.take_succ_cons, neededOf, List.map_cons, List.sum_cons] at hrem
    unfold Options.pathWrite
    have h0 : ¬ (rem = 0) := by omega
    simp only [h0, if_false]
    rw [getI_nat, hg]
    simp only [bind, Except.bind]
    have h1 : ¬ (x.2.len > rem - 1) := by omega
    simp only [h1, if_false]
    have e1 : (i : Int) + 1 = ((i + 1 : Nat) : Int) := by omega
    have hrl := read_length_le m x.2
    rw [e1, ih (i + 1) _ _ (by omega) (by unfold neededOf; omega)]
    rw [List.take_of_length_le (by omega)]
    simp [List.flatMap_cons]

theorem join_values (m : Mem) (xs : List (Opt View)) :
    join ((xs.map (·.2)).map m.read) = xs.flatMap (fun x => Options.slash :: m.read x.2) := by
  induction xs with
  | nil => rfl
  | cons x xs ih =>
    unfold join at ih ⊢
    simp only [List.map_cons, List.flatMap_cons, ih]
    rfl

theorem join_length (m : Mem) (xs : List (Opt View)) :
    (xs.flatMap (fun x => Options.slash :: m.read x.2)).length ≤ neededOf xs := by
  induction xs with
  | nil => simp [neededOf]
  | cons x xs ih =>
    have := read_length_le m x.2
    simp only [List.flatMap_cons, List.length_append, List.length_cons, neededOf, List.map_cons, List.sum_cons] at ih ⊢
    omega

/-- `path(buf, id)` on a buffer of any length. -/
theorem path_spec (m : Mem) {o : Options View} (hwf : WF o) (hs : Sorted o.toList) (id bufLen : Nat) :
    Options.path m o bufLen id = .ok (
      let xs := (o.toList.drop (lt id o.toList)).take (le id o.toList - lt id o.toList)
      if xs = [] then ((-1 : Int), some Err.notFound, [])
      else if bufLen < neededOf xs then ((neededOf xs : Int), some Err.tooSmall, [])
      else ((neededOf xs : Int), none, xs.flatMap (fun x => Options.slash :: m.read x.2))) := by
  have hlen : le id o.toList ≤ o.len := by have := le_le_length id o.toList; rwa [toList_length hwf] at this
  have hll := lt_le_le id o.toList
  unfold Options.path
  rw [find_spec hwf hs]
  by_cases c : lt id o.toList = le id o.toList
  · simp [c, bind, Except.bind, pure, Except.pure]
  · have hne : (o.toList.drop (lt id o.toList)).take (le id o.toList - lt id o.toList) ≠ [] := by
      intro h
      have := congrArg List.length h
      rw [List.length_take, List.length_drop, toList_length hwf, List.length_nil] at this
      omega
    have e1 : ((le id o.toList : Int) - (lt id o.toList : Int)).toNat = le id o.toList - lt id o.toList := by omega
    simp only [c, if_false, bind, Except.bind, e1, CoapVerif.Generated.OptionListShape.pathLoopsStrict, if_true, Nat.add_zero]
    rw [pathNeeded_spec hwf _ _ 0 (by omega)]
    simp only [Nat.zero_add]
    rw [if_neg hne]
    by_cases c2 : bufLen < neededOf ((o.toList.drop (lt id o.toList)).take (le id o.toList - lt id o.toList))
    · simp only [c2, if_true, pure, Except.pure]
    · simp only [c2, if_false]
      rw [pathWrite_spec m hwf _ _ _ [] (by omega) (by omega)]
      simp only [List.nil_append, pure, Except.pure]

/-- `Path()` / `LocationPath()` never panic and return the specification's reading of the list. -/
theorem pathString_spec (m : Mem) {o : Options View} (hwf : WF o) (hs : Sorted o.toList) (id : Nat) :
    Options.pathString m o id = .ok (
      match Spec.SortedMultiset.path id (items m o) with
      | none => ([], some Err.notFound)
      | some p => (p, none)) := by
  have hvals : values id (items m o) = (((o.toList.drop (lt id o.toList)).take (le id o.toList - lt id o.toList)).map (·.2)).map m.read := by
    unfold items; rw [values_mapVal, values_eq id hs]
  unfold Options.pathString Spec.SortedMultiset.path
  rw [path_spec m hwf hs id 32, hvals]
  generalize hxs : (o.toList.drop (lt id o.toList)).take (le id o.toList - lt id o.toList) = xs
  by_cases c : xs = []
  · subst c; simp [bind, Except.bind, pure, Except.pure]
  · have hne : (xs.map (·.2)).map m.read ≠ [] := by simpa using c
    have hj := join_values m xs
    have hjl := join_length m xs
    simp only [c, if_false]
    by_cases c2 : 32 < neededOf xs
    · simp only [c2, if_true, bind, Except.bind]
      rw [path_spec m hwf hs id (32 + (neededOf xs : Int).toNat), hxs]
      have c3 : ¬ (32 + (neededOf xs : Int).toNat < neededOf xs) := by omega
      simp only [c, c3, if_false, pure, Except.pure]
      have c4 : ¬ ((neededOf xs : Int) < 0 ∨ neededOf xs > 32 + neededOf xs) := by omega
      simp only [Int.toNat_natCast]
      rw [List.take_of_length_le hjl, ← hj, if_neg c4]
    · simp only [c2, if_false, bind, Except.bind, pure, Except.pure]
      have c4 : ¬ ((neededOf xs : Int) < 0 ∨ neededOf xs > 32) := by omega
      simp only [Int.toNat_natCast]
      rw [List.take_of_length_le hjl, ← hj, if_neg c4]

theorem values_items (m : Mem) (o : Options View) (id : Nat) :
    values id (items m o) = (values id o.toList).map m.read := by
  unfold items; rw [values_mapVal]

theorem decodeUint32_eq (bs : List UInt8) : decodeUint32 bs = uintOf bs := rfl

theorem getBytes_spec (m : Mem) {o : Options View} (hwf : WF o) (hs : Sorted o.toList) (id : Nat) :
    Options.getBytes m o id = .ok ((values id (items m o)).head?) := by
  unfold Options.getBytes
  rw [getFirst_spec hwf hs, values_items]
  simp [bind, Except.bind, pure, Except.pure, List.head?_map]

theorem getUint32_spec (m : Mem) {o : Options View} (hwf : WF o) (hs : Sorted o.toList) (id : Nat) :
    Options.getUint32 m o id = .ok (((values id (items m o)).head?).map uintOf) := by
  unfold Options.getUint32
  rw [getFirst_spec hwf hs, values_items]
  simp [bind, Except.bind, pure, Except.pure, List.head?_map, decodeUint32_eq]
  rfl

theorem contentFormat_spec (m : Mem) {o : Options View} (hwf : WF o) (hs : Sorted o.toList) :
    Options.contentFormatOf m o
      = .ok (((values contentFormatId (items m o)).head?).map (fun v => mediaTypeOf (uintOf v))) := by
  unfold Options.contentFormatOf
  have e : CoapVerif.Generated.OptionList.contentFormat = contentFormatId := by decide
  rw [e, getUint32_spec m hwf hs]
  simp only [bind, Except.bind, pure, Except.pure, Option.map_map]
  congr 2

/-- The multi-value getters, for a result slice of any length `n`. -/
theorem getBytess_spec (m : Mem) {o : Options View} (hwf : WF o) (hs : Sorted o.toList) (id n : Nat) :
    Options.getBytess m o id n = .ok (
      let vs := values id (items m o)
      if vs = [] then ((0 : Int), some Err.notFound, [])
      else if n < vs.length then ((vs.length : Int), some Err.tooSmall, [])
      else ((vs.length : Int), none, vs)) := by
  unfold Options.getBytess
  rw [show CoapVerif.Generated.OptionListShape.getBytessLoopStrict = true from rfl, getMulti_spec hwf hs, values_items]
  simp only [bind, Except.bind, pure, Except.pure, List.length_map, List.map_eq_nil_iff]
  by_cases c : values id o.toList = []
  · simp [c]
  · by_cases c2 : n < (values id o.toList).length <;> simp [c, c2]

theorem getStrings_spec (m : Mem) {o : Options View} (hwf : WF o) (hs : Sorted o.toList) (id n : Nat) :
    Options.getStrings m o id n = .ok (
      let vs := values id (items m o)
      if vs = [] then ((0 : Int), some Err.notFound, [])
      else if n < vs.length then ((vs.length : Int), some Err.tooSmall, [])
      else ((vs.length : Int), none, vs)) := by
  unfold Options.getStrings
  rw [show CoapVerif.Generated.OptionListShape.getStringsLoopStrict = true from rfl, getMulti_spec hwf hs, values_items]
  simp only [bind, Except.bind, pure, Except.pure, List.length_map, List.map_eq_nil_iff]
  by_cases c : values id o.toList = []
  · simp [c]
  · by_cases c2 : n < (values id o.toList).length <;> simp [c, c2]

theorem getUint32s_spec (m : Mem) {o : Options View} (hwf : WF o) (hs : Sorted o.toList) (id n : Nat) :
    Options.getUint32s m o id n = .ok (
      let vs := (values id (items m o)).map uintOf
      if vs = [] then ((0 : Int), some Err.notFound, [])
      else if n < vs.length then ((vs.length : Int), some Err.tooSmall, [])
      else ((vs.length : Int), none, vs)) := by
  unfold Options.getUint32s
  rw [show CoapVerif.Generated.OptionListShape.getUint32sLoopStrict = true from rfl, getMulti_spec hwf hs, values_items]
  simp only [bind, Except.bind, pure, Except.pure, List.length_map, List.map_eq_nil_iff]
  by_cases c : values id o.toList = []
  · simp [c]
  · by_cases c2 : n < (values id o.toList).length <;> simp [c, c2, decodeUint32_eq]

/-- `Queries()`: all Uri-Query values, or `ErrOptionNotFound`; the retry with a longer slice never fails. -/
theorem queries_spec (m : Mem) {o : Options View} (hwf : WF o) (hs : Sorted o.toList) :
    Options.queries m o = .ok (
      let vs := values uriQueryId (items m o)
      if vs = [] then none else some vs) := by
  have e : CoapVerif.Generated.OptionList.uriQuery = uriQueryId := by decide
  unfold Options.queries
  rw [e, getStrings_spec m hwf hs]
  generalize hv : values uriQueryId (items m o) = vs
  by_cases c : vs = []
  · simp [c, bind, Except.bind, pure, Except.pure]
  · by_cases c2 : 4 < vs.length
    · have c3 : ¬ ((vs.length : Int) < 4) := by omega
      have c5 : ¬ ((vs.length : Int) < 0) := by omega
      simp only [c, c2, if_true, if_false, bind, Except.bind, c3, getStrings_spec m hwf hs, Int.toNat_natCast, hv]
      simp [c, pure, Except.pure, c5]
    · have c5 : ¬ ((vs.length : Int) < 0) := by omega
      have c6 : ¬ (vs.length > 4) := by omega
      simp only [c, c2, if_false, bind, Except.bind, pure, Except.pure, Int.toNat_natCast]
      simp [c5, c6]

end CoapVerif.Lemmas.OptionValuesModel
