import CoapVerif.Model.Options
import CoapVerif.Lemmas.SortedMultiset
/-!
Lemmas about `Model/Options.lean` (C15): the binary search of `findPosition` (loop invariant, termination
measure), the two linear scans, the in-place shift loops, and the refinement of `Set`/`Add`/`Remove` to the
index forms of the sorted-multiset specification.
-/
namespace CoapVerif.Lemmas.OptionsModel
open CoapVerif.Model.Options CoapVerif.Spec.SortedMultiset CoapVerif.Lemmas.SortedMultiset

variable {α : Type}

/-- A slice header is well formed when its length does not exceed the capacity. -/
def WF (o : Options α) : Prop := o.len ≤ o.arr.length

theorem toList_length {o : Options α} (h : WF o) : o.toList.length = o.len := by
  unfold Options.toList WF at *
  rw [List.length_take]; omega

theorem toList_getElem? {o : Options α} (i : Nat) (hi : i < o.len) : o.toList[i]? = o.arr[i]? := by
  unfold Options.toList
  rw [List.getElem?_take]; simp [hi]

theorem get_eq {o : Options α} (h : WF o) {i : Nat} (hi : i < o.len) :
    ∃ x, o.toList[i]? = some x ∧ o.arr[i]? = some x ∧ o.get i = .ok x := by
  have hlt : i < o.arr.length := by unfold WF at h; omega
  refine ⟨o.arr[i], ?_, ?_, ?_⟩
  · rw [toList_getElem? i hi]; exact List.getElem?_eq_getElem hlt
  · exact List.getElem?_eq_getElem hlt
  · unfold Options.get
    simp [hi, List.getElem?_eq_getElem hlt]

theorem lt_iff' {β : Type} {l : List (Nat × β)} (hs : Sorted l) (id : Nat) {i : Nat} {x : Nat × β}
    (h : l[i]? = some x) : x.1 < id ↔ i < lt id l := by
  obtain ⟨hi, rfl⟩ := List.getElem?_eq_some_iff.mp h
  exact lt_iff hs id i hi

theorem le_iff' {β : Type} {l : List (Nat × β)} (hs : Sorted l) (id : Nat) {i : Nat} {x : Nat × β}
    (h : l[i]? = some x) : x.1 ≤ id ↔ i < le id l := by
  obtain ⟨hi, rfl⟩ := List.getElem?_eq_some_iff.mp h
  exact le_iff hs id i hi

/-! ### the binary search loop -/

/-- Bounds invariant + termination measure: for *every* (even unsorted) list the loop ends without panic. -/
theorem findPivot_total {o : Options α} (hwf : WF o) (id : Nat) :
    ∀ (fuel mn mx pv : Nat), mn ≤ pv → pv ≤ mx → mx ≤ o.len → pv < o.len →
      ((pv = mn ∨ pv = mx) → 2 * (mx - mn) + 1 < fuel) → 2 * (mx - mn) < fuel →
      ∃ p, Options.findPivot o id fuel mn mx pv = .ok p ∧ p < o.len := by
  intro fuel
  induction fuel with
  | zero => intro mn mx pv _ _ _ _ _ h; omega
  | succ fuel ih =>
    intro mn mx pv h1 h2 h3 h4 h5 h6
    obtain ⟨x, _, _, hg⟩ := get_eq hwf h4
    unfold Options.findPivot
    simp only [hg, bind, Except.bind]
    by_cases c1 : id = x.1 ∨ (mx - mn) / 2 = 0
    · simp only [c1, if_true]; exact ⟨pv, rfl, h4⟩
    · simp only [c1, if_false]
      by_cases c2 : id < x.1
      · simp only [c2, if_true]
        apply ih <;> omega
      · simp only [c2, if_false]
        apply ih <;> omega

/-- Loop invariant on a sorted list (DESIGN appendix B2): what the pivot satisfies when the loop ends. -/
theorem findPivot_spec {o : Options α} (hwf : WF o) (hs : Sorted o.toList) (id : Nat) :
    ∀ (fuel mn mx pv : Nat), mn ≤ pv → pv ≤ mx → mx ≤ o.len → pv < o.len →
      ((pv = 0 ∧ mn = 0) ∨ mn < lt id o.toList) → le id o.toList ≤ mx →
      ∀ p, Options.findPivot o id fuel mn mx pv = .ok p → p < o.len ∧ p ≤ le id o.toList ∧ lt id o.toList ≤ p + 1 := by
  intro fuel
  have hll := lt_le_le id o.toList
  induction fuel with
  | zero => intro mn mx pv _ _ _ _ _ _ p h; simp [Options.findPivot] at h
  | succ fuel ih =>
    intro mn mx pv h1 h2 h3 h4 hA hB p hp
    obtain ⟨x, hx, _, hg⟩ := get_eq hwf h4
    have hlt := lt_iff' hs id hx
    have hle := le_iff' hs id hx
    unfold Options.findPivot at hp
    simp only [hg, bind, Except.bind] at hp
    by_cases c1 : id = x.1 ∨ (mx - mn) / 2 = 0
    · simp only [c1, if_true, pure, Except.pure] at hp
      injection hp with hp
      subst hp
      refine ⟨h4, ?_, ?_⟩ <;> omega
    · simp only [c1, if_false] at hp
      by_cases c2 : id < x.1
      · simp only [c2, if_true] at hp
        refine ih mn pv (pv - (pv - mn) / 2) ?_ ?_ ?_ ?_ ?_ ?_ p hp <;> omega
      · simp only [c2, if_false] at hp
        refine ih pv mx (pv + (mx - pv) / 2) ?_ ?_ ?_ ?_ ?_ ?_ p hp <;> omega

/-! ### the two linear scans -/

theorem scanRight_total {o : Options α} (hwf : WF o) (id : Nat) :
    ∀ (k i : Nat), ∃ r, Options.scanRight o id k i = .ok r := by
  intro k
  induction k with
  | zero => intro i; exact ⟨i, rfl⟩
  | succ k ih =>
    intro i
    unfold Options.scanRight
    by_cases c : i < o.len
    · obtain ⟨x, _, _, hg⟩ := get_eq hwf c
      simp only [c, if_true, hg, bind, Except.bind]
      by_cases c2 : x.1 ≤ id
      · simp only [c2, if_true]; exact ih (i + 1)
      · simp only [c2, if_false]; exact ⟨i, rfl⟩
    · simp only [c, if_false]; exact ⟨i, rfl⟩

theorem scanRight_spec {o : Options α} (hwf : WF o) (hs : Sorted o.toList) (id : Nat) :
    ∀ (k i : Nat), i ≤ le id o.toList → o.len ≤ i + k →
      Options.scanRight o id k i = .ok (le id o.toList) := by
  intro k
  have hlen : le id o.toList ≤ o.len := by have := le_le_length id o.toList; rwa [toList_length hwf] at this
  induction k with
  | zero =>
    intro i h1 h2
    have : i = le id o.toList := by omega
    subst this; rfl
  | succ k ih =>
    intro i h1 h2
    unfold Options.scanRight
    by_cases c : i < o.len
    · obtain ⟨x, hx, _, hg⟩ := get_eq hwf c
      have hle := le_iff' hs id hx
      simp only [c, if_true, hg, bind, Except.bind]
      by_cases c2 : x.1 ≤ id
      · simp only [c2, if_true]; apply ih <;> omega
      · simp only [c2, if_false]
        have : i = le id o.toList := by omega
        rw [← this]; rfl
    · simp only [c, if_false]
      have : i = le id o.toList := by omega
      rw [← this]; rfl

theorem scanLeft_total {o : Options α} (hwf : WF o) (id : Nat) :
    ∀ (i : Nat), i < o.len → ∃ r, Options.scanLeft o id i = .ok r := by
  intro i
  induction i with
  | zero =>
    intro h
    obtain ⟨x, _, _, hg⟩ := get_eq hwf h
    unfold Options.scanLeft
    simp only [hg, bind, Except.bind]
    by_cases c : x.1 ≥ id <;> simp only [c, if_true, if_false] <;> exact ⟨_, rfl⟩
  | succ i ih =>
    intro h
    obtain ⟨x, _, _, hg⟩ := get_eq hwf h
    unfold Options.scanLeft
    simp only [hg, bind, Except.bind]
    by_cases c : x.1 ≥ id
    · simp only [c, if_true]; exact ih (by omega)
    · simp only [c, if_false]; exact ⟨_, rfl⟩

theorem scanLeft_spec {o : Options α} (hwf : WF o) (hs : Sorted o.toList) (id : Nat) :
    ∀ (i : Nat), i < o.len → lt id o.toList ≤ i + 1 →
      Options.scanLeft o id i = .ok ((lt id o.toList : Int) - 1) := by
  intro i
  induction i with
  | zero =>
    intro h h2
    obtain ⟨x, hx, _, hg⟩ := get_eq hwf h
    have hlt := lt_iff' hs id hx
    unfold Options.scanLeft
    simp only [hg, bind, Except.bind]
    by_cases c : x.1 ≥ id
    · simp only [c, if_true, pure, Except.pure]
      have : lt id o.toList = 0 := by omega
      rw [this]; rfl
    · simp only [c, if_false, pure, Except.pure]
      have : lt id o.toList = 1 := by omega
      rw [this]; rfl
  | succ i ih =>
    intro h h2
    obtain ⟨x, hx, _, hg⟩ := get_eq hwf h
    have hlt := lt_iff' hs id hx
    unfold Options.scanLeft
    simp only [hg, bind, Except.bind]
    by_cases c : x.1 ≥ id
    · simp only [c, if_true]; apply ih <;> omega
    · simp only [c, if_false, pure, Except.pure]
      have : lt id o.toList = i + 1 + 1 := by omega
      rw [this]; congr 1; omega

/-! ### `findPosition` and `Find` -/

/-- What `findPosition` returns on a sorted list: `(lt − 1, le)` with Go's two special encodings. -/
def postOf (n b : Nat) : Int := if n = 0 then 0 else if b = n then -1 else (b : Int)
abbrev posOf (n a b : Nat) : Int × Int := ((a : Int) - 1, postOf n b)

theorem postOf_fix {n b : Nat} (h : b ≤ n) : (if postOf n b = -1 then (n : Int) else postOf n b) = (b : Int) := by
  unfold postOf
  repeat' split
  all_goals omega

theorem findPosition_total {o : Options α} (hwf : WF o) (id : Nat) : ∃ r, o.findPosition id = .ok r := by
  unfold Options.findPosition
  by_cases c : o.len = 0
  · simp only [c, if_true]; exact ⟨_, rfl⟩
  · simp only [c, if_false]
    obtain ⟨p, hp, hpl⟩ := findPivot_total hwf id (2 * o.len + 2) 0 o.len 0 (by omega) (by omega) (by omega) (by omega)
      (by omega) (by omega)
    obtain ⟨r, hr⟩ := scanRight_total hwf id (o.len - p) p
    obtain ⟨l, hl⟩ := scanLeft_total hwf id p hpl
    simp only [hp, hr, hl, bind, Except.bind]
    exact ⟨_, rfl⟩

theorem findPosition_spec {o : Options α} (hwf : WF o) (hs : Sorted o.toList) (id : Nat) :
    o.findPosition id = .ok (posOf o.len (lt id o.toList) (le id o.toList)) := by
  unfold Options.findPosition posOf postOf
  have hlen : le id o.toList ≤ o.len := by have := le_le_length id o.toList; rwa [toList_length hwf] at this
  have hll := lt_le_le id o.toList
  by_cases c : o.len = 0
  · have : lt id o.toList = 0 := by omega
    simp only [c, if_true, this, pure, Except.pure]; rfl
  · simp only [c, if_false]
    obtain ⟨p, hp, _⟩ := findPivot_total hwf id (2 * o.len + 2) 0 o.len 0 (by omega) (by omega) (by omega) (by omega)
      (by omega) (by omega)
    obtain ⟨hpl, hp1, hp2⟩ := findPivot_spec hwf hs id (2 * o.len + 2) 0 o.len 0 (by omega) (by omega) (by omega) (by omega)
      (Or.inl ⟨rfl, rfl⟩) hlen p hp
    have hr := scanRight_spec hwf hs id (o.len - p) p hp1 (by omega)
    have hl := scanLeft_spec hwf hs id p hpl hp2
    simp only [hp, hr, hl, bind, Except.bind, pure, Except.pure]

/-- What `Find` returns on a sorted list: the index range `[lt, le)` when it is not empty. -/
theorem find_spec {o : Options α} (hwf : WF o) (hs : Sorted o.toList) (id : Nat) :
    o.find id = .ok (if lt id o.toList = le id o.toList then none
                     else some ((lt id o.toList : Int), (le id o.toList : Int))) := by
  unfold Options.find
  have hlen : le id o.toList ≤ o.len := by have := le_le_length id o.toList; rwa [toList_length hwf] at this
  have hll := lt_le_le id o.toList
  rw [findPosition_spec hwf hs id]
  simp only [posOf, postOf, bind, Except.bind, pure, Except.pure, Int.sub_add_cancel]
  repeat' split
  all_goals first | rfl | (exfalso; omega) | (simp only [*])

/-! ### primitives -/

theorem getI_nat (o : Options α) (i : Nat) : o.getI (i : Int) = o.get i := by
  unfold Options.getI
  have : ¬ ((i : Int) < 0) := by omega
  simp [this]

theorem setAtI_nat (o : Options α) (i : Nat) (x : Opt α) : o.setAtI (i : Int) x = o.setAt i x := by
  unfold Options.setAtI
  have : ¬ ((i : Int) < 0) := by omega
  simp [this]

theorem resliceI_nat (o : Options α) (n : Nat) : o.resliceI (n : Int) = o.reslice n := by
  unfold Options.resliceI
  have : ¬ ((n : Int) < 0) := by omega
  simp [this]

theorem get_arr {arr : List (Opt α)} {n i : Nat} (hi : i < n) (hn : n ≤ arr.length) :
    ∃ x, arr[i]? = some x ∧ (⟨arr, n⟩ : Options α).get i = .ok x := by
  obtain ⟨x, _, h2, h3⟩ := get_eq (o := ⟨arr, n⟩) hn hi
  exact ⟨x, h2, h3⟩

theorem setAt_arr {arr : List (Opt α)} {n i : Nat} (x : Opt α) (hi : i < n) (hn : n ≤ arr.length) :
    (⟨arr, n⟩ : Options α).setAt i x = .ok ⟨arr.set i x, n⟩ := by
  unfold Options.setAt
  have : i < n ∧ i < arr.length := ⟨hi, by omega⟩
  simp [this]

/-! ### the shift loops -/

theorem shiftRight_spec (n : Nat) :
    ∀ (k hi : Nat) (arr : List (Opt α)) (u : Int), k ≤ hi → hi < n → n ≤ arr.length →
      ∃ arr', Options.shiftRight ⟨arr, n⟩ k (hi : Int) u = .ok (⟨arr', n⟩, u + k) ∧ arr'.length = arr.length ∧
        ∀ j, arr'[j]? = if hi - k < j ∧ j ≤ hi then arr[j - 1]? else arr[j]? := by
  intro k
  induction k with
  | zero =>
    intro hi arr u _ _ _
    refine ⟨arr, by simp [Options.shiftRight, pure, Except.pure], rfl, ?_⟩
    intro j
    have : ¬ (hi - 0 < j ∧ j ≤ hi) := by omega
    rw [if_neg this]
  | succ k ih =>
    intro hi arr u h1 h2 h3
    have e1 : (hi : Int) - 1 = ((hi - 1 : Nat) : Int) := by omega
    obtain ⟨x, hx, hg⟩ := get_arr (arr := arr) (n := n) (i := hi - 1) (by omega) h3
    obtain ⟨arr', hr, hlen, hspec⟩ := ih (hi - 1) (arr.set hi x) (u + 1) (by omega) (by omega) (by simpa using h3)
    refine ⟨arr', ?_, by simpa using hlen, ?_⟩
    · unfold Options.shiftRight
      rw [e1, getI_nat, hg]
      simp only [bind, Except.bind]
      rw [setAtI_nat, setAt_arr x h2 h3]
      simp only []
      rw [hr]
      congr 2; omega
    · intro j
      rw [hspec j]
      simp only [List.getElem?_set]
      by_cases c1 : hi - (k + 1) < j ∧ j ≤ hi
      · simp only [c1, and_self, if_true]
        by_cases c2 : j = hi
        · subst c2
          have : ¬ (j - 1 - k < j ∧ j ≤ j - 1) := by omega
          have h4 : j < arr.length := by omega
          simp [this, h4, hx]
        · have : hi - 1 - k < j ∧ j ≤ hi - 1 := by omega
          have h5 : ¬ (hi = j - 1) := by omega
          simp [this, h5]
      · have : ¬ (hi - 1 - k < j ∧ j ≤ hi - 1) := by omega
        have h5 : ¬ (hi = j) := by omega
        simp [c1, this, h5]

theorem shiftLeft_spec (n : Nat) :
    ∀ (k i u : Nat) (arr : List (Opt α)), u ≤ i → i + k ≤ n → n ≤ arr.length →
      ∃ arr', Options.shiftLeft ⟨arr, n⟩ k (i : Int) (u : Int) = .ok (⟨arr', n⟩, ((u + k : Nat) : Int)) ∧
        arr'.length = arr.length ∧
        ∀ j, arr'[j]? = if u ≤ j ∧ j < u + k then arr[j + (i - u)]? else arr[j]? := by
  intro k
  induction k with
  | zero =>
    intro i u arr _ _ _
    refine ⟨arr, by simp [Options.shiftLeft, pure, Except.pure], rfl, ?_⟩
    intro j
    have : ¬ (u ≤ j ∧ j < u + 0) := by omega
    rw [if_neg this]
  | succ k ih =>
    intro i u arr h1 h2 h3
    obtain ⟨x, hx, hg⟩ := get_arr (arr := arr) (n := n) (i := i) (by omega) h3
    obtain ⟨arr', hr, hlen, hspec⟩ := ih (i + 1) (u + 1) (arr.set u x) (by omega) (by omega) (by simpa using h3)
    refine ⟨arr', ?_, by simpa using hlen, ?_⟩
    · unfold Options.shiftLeft
      rw [getI_nat, hg]
      simp only [bind, Except.bind]
      rw [setAtI_nat, setAt_arr x (by omega) h3]
      simp only []
      have e1 : (i : Int) + 1 = ((i + 1 : Nat) : Int) := by omega
      have e2 : (u : Int) + 1 = ((u + 1 : Nat) : Int) := by omega
      rw [e1, e2, hr]
      congr 2; omega
    · intro j
      rw [hspec j]
      simp only [List.getElem?_set]
      by_cases c1 : u ≤ j ∧ j < u + (k + 1)
      · simp only [c1, and_self, if_true]
        by_cases c2 : j = u
        · subst c2
          have : ¬ (j + 1 ≤ j ∧ j < j + 1 + k) := by omega
          have h4 : j < arr.length := by omega
          have h5 : j + (i - j) = i := by omega
          simp [this, h4, h5, hx]
        · have : u + 1 ≤ j ∧ j < u + 1 + k := by omega
          have h6 : j + (i + 1 - (u + 1)) = j + (i - u) := by omega
          have h5 : ¬ (u = j + (i - u)) := by omega
          rw [if_pos this, h6, if_neg h5]
      · have : ¬ (u + 1 ≤ j ∧ j < u + 1 + k) := by omega
        have h5 : ¬ (u = j) := by omega
        simp [c1, this, h5]

/-! ### list splices, pointwise -/

theorem getElem?_splice {β : Type} (l : List β) (a b : Nat) (x : β) (ha : a ≤ l.length) (j : Nat) :
    (l.take a ++ x :: l.drop b)[j]? = if j < a then l[j]? else if j = a then some x else l[b + (j - a - 1)]? := by
  have hl : (l.take a).length = a := by rw [List.length_take]; omega
  rw [List.getElem?_append, hl]
  by_cases c1 : j < a
  · simp [c1, List.getElem?_take]
  · by_cases c2 : j = a
    · subst c2; simp
    · obtain ⟨d, hd⟩ : ∃ d, j - a = d + 1 := ⟨j - a - 1, by omega⟩
      rw [if_neg c1, if_neg c1, if_neg c2, hd, Nat.add_sub_cancel, List.getElem?_cons_succ, List.getElem?_drop]

theorem getElem?_cut {β : Type} (l : List β) (a b : Nat) (ha : a ≤ l.length) (j : Nat) :
    (l.take a ++ l.drop b)[j]? = if j < a then l[j]? else l[b + (j - a)]? := by
  have hl : (l.take a).length = a := by rw [List.length_take]; omega
  rw [List.getElem?_append, hl]
  by_cases c1 : j < a
  · simp [c1, List.getElem?_take]
  · rw [if_neg c1, if_neg c1, List.getElem?_drop]

theorem toList_getElem?' (o : Options α) (j : Nat) : o.toList[j]? = if j < o.len then o.arr[j]? else none := by
  unfold Options.toList; rw [List.getElem?_take]

/-! ### `growOne`, `Add`, `Remove`, `Set` -/

theorem growOne_spec [Inhabited α] (g : Nat → Nat) {o : Options α} (hwf : WF o) :
    ∃ arr', o.growOne g = .ok ⟨arr', o.len + 1⟩ ∧ o.len + 1 ≤ arr'.length ∧ ∀ j, j < o.len → arr'[j]? = o.arr[j]? := by
  unfold Options.growOne
  unfold WF at hwf
  by_cases c : o.len = o.arr.length
  · have c' : ¬ (o.len < o.arr.length) := by omega
    simp only [c, if_true, pure, Except.pure, Options.append, Nat.lt_irrefl, if_false]
    refine ⟨_, rfl, ?_, ?_⟩
    · simp [List.length_append, List.length_take]
    · intro j hj
      have hl : (List.take o.arr.length o.arr).length = o.arr.length := by simp
      rw [List.getElem?_append_left (by rw [hl]; omega), List.getElem?_take]
      simp
  · simp only [c, if_false, Options.reslice]
    have : o.len + 1 ≤ o.arr.length := by omega
    simp only [this, if_true]
    exact ⟨o.arr, rfl, this, fun j _ => rfl⟩

theorem add_spec [Inhabited α] (g : Nat → Nat) {o : Options α} (hwf : WF o) (hs : Sorted o.toList) (x : Opt α) :
    ∃ o', o.add g x = .ok o' ∧ WF o' ∧ o'.len = o.len + 1 ∧
      o'.toList = o.toList.take (le x.1 o.toList) ++ x :: o.toList.drop (le x.1 o.toList) := by
  have hlen : le x.1 o.toList ≤ o.len := by have := le_le_length x.1 o.toList; rwa [toList_length hwf] at this
  generalize hb : le x.1 o.toList = b at hlen
  obtain ⟨arr1, hg1, hcap1, hpre1⟩ := growOne_spec g hwf
  obtain ⟨arr2, hr2, hlen2, hspec2⟩ := shiftRight_spec (o.len + 1) (o.len - b) o.len arr1 0 (by omega) (by omega) hcap1
  refine ⟨⟨arr2.set b x, o.len + 1⟩, ?_, ?_, rfl, ?_⟩
  · unfold Options.add
    rw [findPosition_spec hwf hs, hb]
    simp only [bind, Except.bind, posOf, hg1]
    rw [postOf_fix hlen]
    have e1 : (((o.len + 1 : Nat) : Int) - 1 - (b : Int)).toNat = o.len - b := by omega
    have e2 : ((o.len + 1 : Nat) : Int) - 1 = (o.len : Int) := by omega
    rw [e1, e2, hr2]
    simp only []
    rw [setAtI_nat, setAt_arr x (by omega) (by omega)]
  · unfold WF; simp only [List.length_set]; omega
  · apply List.ext_getElem?
    intro j
    rw [getElem?_splice _ _ _ _ (by rw [toList_length hwf]; omega)]
    rw [toList_getElem?']
    simp only [List.getElem?_set, hspec2, toList_getElem?']
    have hb2 : b < arr2.length := by omega
    by_cases c1 : j < b
    · have h1 : j < o.len + 1 := by omega
      have h2 : ¬ (b = j) := by omega
      have h3 : ¬ (o.len - (o.len - b) < j ∧ j ≤ o.len) := by omega
      have h4 : j < o.len := by omega
      simp only [c1, h1, h2, h3, h4, if_true, if_false]
      exact hpre1 j h4
    · by_cases c2 : j = b
      · subst c2
        have h1 : j < o.len + 1 := by omega
        simp [h1, hb2]
      · by_cases c3 : j < o.len + 1
        · have h2 : ¬ (b = j) := by omega
          have h3 : (o.len - (o.len - b) < j ∧ j ≤ o.len) := by omega
          have h4 : b + (j - b - 1) = j - 1 := by omega
          have h5 : j - 1 < o.len := by omega
          simp only [c1, c2, c3, h2, h3, h4, h5, if_true, if_false, and_self]
          exact hpre1 (j - 1) h5
        · have h4 : b + (j - b - 1) = j - 1 := by omega
          have h5 : ¬ (j - 1 < o.len) := by omega
          simp only [c1, c2, c3, h4, h5, if_false]

/-- `Add` on a slice with spare capacity works in place: the backing array keeps its length and nothing above the old
length is touched (what makes `ResetOptionsTo` safe when its input is a slice of the receiver's own array). -/
theorem add_frame [Inhabited α] (g : Nat → Nat) {o o' : Options α} (hwf : WF o) (hs : Sorted o.toList) (x : Opt α)
    (hcap : o.len < o.arr.length) (h : o.add g x = .ok o') :
    o'.arr.length = o.arr.length ∧ ∀ j, o.len < j → o'.arr[j]? = o.arr[j]? := by
  have hlen : le x.1 o.toList ≤ o.len := by have := le_le_length x.1 o.toList; rwa [toList_length hwf] at this
  generalize hb : le x.1 o.toList = b at hlen
  have hg1 : o.growOne g = .ok ⟨o.arr, o.len + 1⟩ := by
    unfold Options.growOne Options.reslice
    have c : ¬ (o.len = o.arr.length) := by omega
    have c2 : o.len + 1 ≤ o.arr.length := by omega
    simp [c, c2]
  obtain ⟨arr2, hr2, hlen2, hspec2⟩ := shiftRight_spec (o.len + 1) (o.len - b) o.len o.arr 0 (by omega) (by omega) (by omega)
  have hadd : o.add g x = .ok ⟨arr2.set b x, o.len + 1⟩ := by
    unfold Options.add
    rw [findPosition_spec hwf hs, hb]
    simp only [bind, Except.bind, posOf, hg1]
    rw [postOf_fix hlen]
    have e1 : (((o.len + 1 : Nat) : Int) - 1 - (b : Int)).toNat = o.len - b := by omega
    have e2 : ((o.len + 1 : Nat) : Int) - 1 = (o.len : Int) := by omega
    rw [e1, e2, hr2]
    simp only []
    rw [setAtI_nat, setAt_arr x (by omega) (by omega)]
  rw [hadd] at h
  injection h with h
  subst h
  refine ⟨by simp only [List.length_set]; exact hlen2, ?_⟩
  intro j hj
  simp only [List.getElem?_set, hspec2]
  have h1 : ¬ (b = j) := by omega
  have h2 : ¬ (o.len - (o.len - b) < j ∧ j ≤ o.len) := by omega
  simp only [h1, h2, if_false]

theorem remove_spec {o : Options α} (hwf : WF o) (hs : Sorted o.toList) (id : Nat) :
    ∃ o', o.remove id = .ok o' ∧ WF o' ∧ o'.arr.length = o.arr.length ∧
      o'.len = o.len - (le id o.toList - lt id o.toList) ∧
      o'.toList = o.toList.take (lt id o.toList) ++ o.toList.drop (le id o.toList) := by
  have hlen : le id o.toList ≤ o.len := by have := le_le_length id o.toList; rwa [toList_length hwf] at this
  have hll := lt_le_le id o.toList
  generalize hb : le id o.toList = b at hlen hll
  generalize ha : lt id o.toList = a at hll
  unfold Options.remove
  rw [find_spec hwf hs, ha, hb]
  by_cases c : a = b
  · subst c
    simp only [if_true, bind, Except.bind, pure, Except.pure]
    exact ⟨o, rfl, hwf, rfl, by omega, by simp⟩
  · simp only [c, if_false, bind, Except.bind]
    have hwf' : o.len ≤ o.arr.length := hwf
    obtain ⟨arr', hr, hl', hspec⟩ := shiftLeft_spec o.len (o.len - b) b a o.arr (by omega) (by omega) hwf'
    have e1 : ((o.len : Int) - (b : Int)).toNat = o.len - b := by omega
    have e2 : (o.len : Int) - ((b : Int) - (a : Int)) = ((o.len - (b - a) : Nat) : Int) := by omega
    have e3 : (⟨o.arr, o.len⟩ : Options α) = o := rfl
    rw [e1, e2, ← e3, hr]
    simp only []
    rw [resliceI_nat]
    unfold Options.reslice
    have h4 : o.len - (b - a) ≤ arr'.length := by omega
    simp only [h4, if_true]
    refine ⟨_, rfl, ?_, hl', rfl, ?_⟩
    · unfold WF; exact h4
    · apply List.ext_getElem?
      intro j
      rw [getElem?_cut _ _ _ (by rw [toList_length hwf]; omega)]
      simp only [toList_getElem?', hspec]
      by_cases c1 : j < a
      · have h1 : j < o.len - (b - a) := by omega
        have h2 : ¬ (a ≤ j ∧ j < a + (o.len - b)) := by omega
        have h3 : j < o.len := by omega
        simp only [c1, h1, h2, h3, if_true, if_false]
      · by_cases c2 : j < o.len - (b - a)
        · have h2 : (a ≤ j ∧ j < a + (o.len - b)) := by omega
          have h3 : b + (j - a) < o.len := by omega
          have h5 : j + (b - a) = b + (j - a) := by omega
          simp only [c1, c2, h2, h3, h5, if_true, if_false, and_self]
        · have h3 : ¬ (b + (j - a) < o.len) := by omega
          simp only [c1, c2, h3, if_false]

/-- "replace + move" of `Set`, for the insertion index `a` and the old range `[a, b)`. -/
theorem setMove_spec [Inhabited α] (g : Nat → Nat) {o : Options α} (hwf : WF o) (x : Opt α) (a b : Nat)
    (hab : a ≤ b) (hb : b ≤ o.len) :
    ∃ o', Options.setMove g o x (a : Int) ((a : Int) + 1) (b : Int) = .ok o' ∧ WF o' ∧ o'.len = o.len + 1 - (b - a) ∧
      o'.toList = o.toList.take a ++ x :: o.toList.drop b := by
  obtain ⟨arr1, hg1, hcap1, hpre1⟩ := growOne_spec g hwf
  unfold Options.setMove
  simp only [bind, Except.bind, hg1]
  have e1 : ((o.len : Int) - (b : Int)).toNat = o.len - b := by omega
  have e2 : (a : Int) + 1 = ((a + 1 : Nat) : Int) := by omega
  rw [e1, e2]
  by_cases c : b = a
  · -- nothing to replace: shift right by one from `a`
    subst c
    have c' : (b : Int) < ((b + 1 : Nat) : Int) := by omega
    simp only [c', if_true]
    obtain ⟨arr2, hr2, hlen2, hspec2⟩ := shiftRight_spec (o.len + 1) (o.len - b) o.len arr1 ((b + 1 : Nat) : Int)
      (by omega) (by omega) hcap1
    rw [hr2]
    simp only []
    rw [setAtI_nat, setAt_arr x (by omega) (by omega)]
    simp only []
    have e3 : ((b + 1 : Nat) : Int) + ((o.len - b : Nat) : Int) = ((o.len + 1 : Nat) : Int) := by omega
    rw [e3, resliceI_nat]
    unfold Options.reslice
    have h4 : o.len + 1 ≤ (arr2.set b x).length := by simp only [List.length_set]; omega
    simp only [h4, if_true]
    refine ⟨_, rfl, h4, by simp, ?_⟩
    apply List.ext_getElem?
    intro j
    rw [getElem?_splice _ _ _ _ (by rw [toList_length hwf]; omega)]
    rw [toList_getElem?']
    simp only [List.getElem?_set, hspec2, toList_getElem?']
    have hb2 : b < arr2.length := by omega
    by_cases c1 : j < b
    · have h1 : j < o.len + 1 := by omega
      have h2 : ¬ (b = j) := by omega
      have h3 : ¬ (o.len - (o.len - b) < j ∧ j ≤ o.len) := by omega
      have h5 : j < o.len := by omega
      simp only [c1, h1, h2, h3, h5, if_true, if_false]
      exact hpre1 j h5
    · by_cases c2 : j = b
      · subst c2
        have h1 : j < o.len + 1 := by omega
        simp [h1, hb2]
      · by_cases c3 : j < o.len + 1
        · have h2 : ¬ (b = j) := by omega
          have h3 : (o.len - (o.len - b) < j ∧ j ≤ o.len) := by omega
          have h5 : b + (j - b - 1) = j - 1 := by omega
          have h6 : j - 1 < o.len := by omega
          simp only [c1, c2, c3, h2, h3, h5, h6, if_true, if_false, and_self]
          exact hpre1 (j - 1) h6
        · have h5 : b + (j - b - 1) = j - 1 := by omega
          have h6 : ¬ (j - 1 < o.len) := by omega
          simp only [c1, c2, c3, h5, h6, if_false]
  · -- replace the range `[a, b)`: move the tail left to `a + 1`
    have c' : ¬ ((b : Int) < ((a + 1 : Nat) : Int)) := by omega
    simp only [c', if_false]
    obtain ⟨arr2, hr2, hlen2, hspec2⟩ := shiftLeft_spec (o.len + 1) (o.len - b) b (a + 1) arr1 (by omega) (by omega) hcap1
    rw [hr2]
    simp only []
    rw [setAtI_nat, setAt_arr x (by omega) (by omega)]
    simp only []
    rw [resliceI_nat]
    unfold Options.reslice
    have h4 : a + 1 + (o.len - b) ≤ (arr2.set a x).length := by simp only [List.length_set]; omega
    simp only [h4, if_true]
    refine ⟨_, rfl, h4, by simp; omega, ?_⟩
    apply List.ext_getElem?
    intro j
    rw [getElem?_splice _ _ _ _ (by rw [toList_length hwf]; omega)]
    rw [toList_getElem?']
    simp only [List.getElem?_set, hspec2, toList_getElem?']
    have ha2 : a < arr2.length := by omega
    by_cases c1 : j < a
    · have h1 : j < a + 1 + (o.len - b) := by omega
      have h2 : ¬ (a = j) := by omega
      have h3 : ¬ (a + 1 ≤ j) := by omega
      have h5 : j < o.len := by omega
      simp only [c1, h1, h2, h3, h5, if_true, if_false, false_and]
      exact hpre1 j h5
    · by_cases c2 : j = a
      · subst c2
        have h1 : j < j + 1 + (o.len - b) := by omega
        simp [h1, ha2]
      · by_cases c3 : j < a + 1 + (o.len - b)
        · have h2 : ¬ (a = j) := by omega
          have h3 : (a + 1 ≤ j ∧ j < a + 1 + (o.len - b)) := by omega
          have h5 : j + (b - (a + 1)) = b + (j - a - 1) := by omega
          have h6 : b + (j - a - 1) < o.len := by omega
          simp only [c1, c2, c3, h2, h3, h5, h6, if_true, if_false, and_self]
          exact hpre1 _ h6
        · have h6 : ¬ (b + (j - a - 1) < o.len) := by omega
          simp only [c1, c2, c3, h6, if_false]

theorem setSwitch_posOf (n a b : Nat) (hab : a ≤ b) (hb : b ≤ n)
    (hne : ¬ ((a : Int) - 1 = -1 ∧ postOf n b = -1)) :
    Options.setSwitch (n : Int) ((a : Int) - 1) (postOf n b)
      = ((a : Int), (a : Int) + 1, (b : Int), decide (1 ≤ a ∧ a + 1 = b)) := by
  unfold Options.setSwitch
  unfold postOf at hne ⊢
  repeat' split
  all_goals first
    | (exfalso; omega)
    | (refine Prod.ext ?_ (Prod.ext ?_ (Prod.ext ?_ ?_)) <;> simp <;> first | omega | (rw [Bool.eq_iff_iff]; simp only [decide_eq_true_eq, Bool.and_eq_true]; omega))

theorem set_spec [Inhabited α] (g : Nat → Nat) {o : Options α} (hwf : WF o) (hs : Sorted o.toList) (x : Opt α) :
    ∃ o', o.set g x = .ok o' ∧ WF o' ∧
      o'.len = o.len + 1 - (le x.1 o.toList - lt x.1 o.toList) ∧
      o'.toList = o.toList.take (lt x.1 o.toList) ++ x :: o.toList.drop (le x.1 o.toList) := by
  have hlen : le x.1 o.toList ≤ o.len := by have := le_le_length x.1 o.toList; rwa [toList_length hwf] at this
  have hll := lt_le_le x.1 o.toList
  generalize hb : le x.1 o.toList = b at hlen hll
  generalize ha : lt x.1 o.toList = a at hll
  have hwf' : o.len ≤ o.arr.length := hwf
  unfold Options.set
  rw [findPosition_spec hwf hs, ha, hb]
  simp only [bind, Except.bind]
  by_cases c : (a : Int) - 1 = -1 ∧ postOf o.len b = -1
  · -- every option has this number: `append(options[:0], opt)`
    have hc : a = 0 ∧ b = o.len ∧ o.len ≠ 0 := by
      unfold postOf at c
      obtain ⟨c1, c2⟩ := c
      split at c2
      · omega
      · split at c2 <;> omega
    obtain ⟨rfl, rfl, hn⟩ := hc
    simp only [c, and_self, if_true, Options.reslice, Nat.zero_le, pure, Except.pure, Options.append]
    have h1 : 0 < o.arr.length := by omega
    simp only [h1, if_true]
    refine ⟨_, rfl, ?_, by simp, ?_⟩
    · unfold WF; simp only [List.length_set]; omega
    · unfold Options.toList
      have : o.arr.length = (o.arr.length - 1) + 1 := by omega
      cases harr : o.arr with
      | nil => simp [harr] at h1
      | cons y ys => simp
  · simp only [c, if_false]
    rw [setSwitch_posOf o.len a b hll hlen c]
    simp only []
    by_cases ce : 1 ≤ a ∧ a + 1 = b
    · -- exactly one option with this number: replaced in place
      simp only [ce, and_self, decide_true, if_true]
      rw [setAtI_nat]
      have e3 : (⟨o.arr, o.len⟩ : Options α) = o := rfl
      rw [← e3, setAt_arr x (by omega) hwf']
      refine ⟨_, rfl, ?_, by simp; omega, ?_⟩
      · unfold WF; simp only [List.length_set]; exact hwf'
      · apply List.ext_getElem?
        intro j
        rw [getElem?_splice _ _ _ _ (by rw [toList_length hwf]; omega)]
        simp only [toList_getElem?', List.getElem?_set]
        by_cases c1 : j < a
        · have h1 : j < o.len := by omega
          have h2 : ¬ (a = j) := by omega
          simp only [c1, h1, h2, if_true, if_false]
        · by_cases c2 : j = a
          · subst c2
            have h1 : j < o.len := by omega
            have h2 : j < o.arr.length := by omega
            simp [h1, h2]
          · have h2 : ¬ (a = j) := by omega
            have h3 : b + (j - a - 1) = j := by omega
            simp only [c1, c2, h2, h3, if_false]
    · have ce' : decide (1 ≤ a ∧ a + 1 = b) = false := by simp only [decide_eq_false_iff_not]; exact ce
      simp only [ce', Bool.false_eq_true, if_false]
      obtain ⟨o', h1, h2, h3, h4⟩ := setMove_spec g hwf x a b hll hlen
      exact ⟨o', h1, h2, h3, h4⟩

/-! ### getters -/

theorem getFirst_spec {o : Options α} (hwf : WF o) (hs : Sorted o.toList) (id : Nat) :
    o.getFirst id = .ok ((values id o.toList).head?) := by
  have hlen : le id o.toList ≤ o.len := by have := le_le_length id o.toList; rwa [toList_length hwf] at this
  have hll := lt_le_le id o.toList
  unfold Options.getFirst
  rw [find_spec hwf hs, values_eq id hs]
  by_cases c : lt id o.toList = le id o.toList
  · simp [c, bind, Except.bind, pure, Except.pure]
  · simp only [c, if_false, bind, Except.bind]
    rw [getI_nat]
    obtain ⟨x, hx, _, hg⟩ := get_eq hwf (i := lt id o.toList) (by omega)
    rw [hg]
    simp only [pure, Except.pure]
    congr 1
    have h1 : le id o.toList - lt id o.toList = (le id o.toList - lt id o.toList - 1) + 1 := by omega
    rw [h1]
    have h2 : List.drop (lt id o.toList) o.toList = x :: List.drop (lt id o.toList + 1) o.toList := by
      rw [List.drop_eq_getElem_cons (by rw [toList_length hwf]; omega)]
      congr 1
      have := List.getElem?_eq_some_iff.mp hx
      obtain ⟨_, h⟩ := this
      exact h
    rw [h2]
    simp

theorem collect_spec {o : Options α} (hwf : WF o) (n : Nat) :
    ∀ (k i : Nat) (acc : List α), i + k ≤ o.len → acc.length + k ≤ n →
      Options.collect o n k (i : Int) acc = .ok (acc.reverse ++ ((o.toList.drop i).take k).map (·.2)) := by
  intro k
  induction k with
  | zero => intro i acc _ _; simp [Options.collect, pure, Except.pure]
  | succ k ih =>
    intro i acc h1 h2
    obtain ⟨x, hx, _, hg⟩ := get_eq hwf (i := i) (by omega)
    unfold Options.collect
    rw [getI_nat, hg]
    simp only [bind, Except.bind]
    have h3 : acc.length < n := by omega
    simp only [h3, if_true]
    have e1 : (i : Int) + 1 = ((i + 1 : Nat) : Int) := by omega
    rw [e1, ih (i + 1) (x.2 :: acc) (by omega) (by simp; omega)]
    congr 1
    have h4 : List.drop i o.toList = x :: List.drop (i + 1) o.toList := by
      rw [List.drop_eq_getElem_cons (by rw [toList_length hwf]; omega)]
      congr 1
      exact (List.getElem?_eq_some_iff.mp hx).2
    rw [h4]
    simp

/-- The multi-value getters on a sorted list, for a result slice of *any* length `n` (0, too small, exact, larger). -/
theorem getMulti_spec {o : Options α} (hwf : WF o) (hs : Sorted o.toList) (id n : Nat) :
    o.getMulti true id n = .ok (
      let vs := values id o.toList
      if vs = [] then ((0 : Int), some Err.notFound, [])
      else if n < vs.length then ((vs.length : Int), some Err.tooSmall, [])
      else ((vs.length : Int), none, vs)) := by
  have hlen : le id o.toList ≤ o.len := by have := le_le_length id o.toList; rwa [toList_length hwf] at this
  have hll := lt_le_le id o.toList
  have hvl := values_length id hs
  unfold Options.getMulti
  simp only [if_true, Nat.add_zero]
  rw [find_spec hwf hs]
  by_cases c : lt id o.toList = le id o.toList
  · have : values id o.toList = [] := by
      apply List.eq_nil_of_length_eq_zero; omega
    simp [c, this, bind, Except.bind, pure, Except.pure]
  · have hne : values id o.toList ≠ [] := by
      intro h; rw [h] at hvl; simp at hvl; omega
    simp only [c, if_false, bind, Except.bind]
    by_cases c2 : n < (values id o.toList).length
    · have h1 : (n : Int) < (le id o.toList : Int) - (lt id o.toList : Int) := by omega
      have h2 : (le id o.toList : Int) - (lt id o.toList : Int) = (((values id o.toList).length : Nat) : Int) := by omega
      rw [if_neg hne, if_pos c2, if_pos h1, h2]
      rfl
    · have h1 : ¬ ((n : Int) < (le id o.toList : Int) - (lt id o.toList : Int)) := by omega
      have e1 : ((le id o.toList : Int) - (lt id o.toList : Int)).toNat = le id o.toList - lt id o.toList := by omega
      rw [if_neg hne, if_neg c2, if_neg h1, e1, collect_spec hwf n _ _ [] (by omega) (by simp; omega)]
      simp only [List.reverse_nil, List.nil_append]
      rw [← values_eq id hs]
      rfl

end CoapVerif.Lemmas.OptionsModel
