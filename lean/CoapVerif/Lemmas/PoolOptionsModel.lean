import CoapVerif.Lemmas.OptionValuesModel
/-!
Lemmas about `Model/PoolOptions.lean` (C15): the pooled message's invariant (`MsgInv`), growth of the value buffer
(`appendZeros`) keeps every stored value, the retry-after-`ErrTooSmall` pattern of the setters under a contract on
the `Options` method it wraps, and the contracts of those methods.
-/
namespace CoapVerif.Lemmas.PoolOptionsModel
open CoapVerif.Model.Options CoapVerif.Spec.SortedMultiset CoapVerif.Lemmas.SortedMultiset
open CoapVerif.Lemmas.OptionsModel CoapVerif.Lemmas.OptionValuesModel

/-- Invariant of the option-editing state of a `pool.Message`. -/
structure MsgInv (r : Msg) : Prop where
  wf : WF r.opts
  sorted : Sorted r.opts.toList
  /-- the unused rest of the value buffer lies inside its backing array -/
  vbIn : SliceIn r.mem r.vb
  /-- every stored value lies inside its buffer and below the cursor of the current value buffer -/
  live : Live r.mem r.vb r.opts
  /-- `origValueBuffer` lies inside its backing array -/
  origIn : SliceIn r.mem r.orig
  /-- both buffers exist in the heap -/
  vbBid : r.vb.bid < r.mem.length
  origBid : r.orig.bid < r.mem.length

/-- A view is *kept* from `(m, vb)` to `(m', vb')`: if it was inside its buffer and outside the unused part of the
value buffer, it still is, and it reads the same bytes. -/
structure Keeps (m : Mem) (vb : Slice) (m' : Mem) (vb' : Slice) : Prop where
  views : ∀ v, InB m v → Below vb.bid vb.off v → m'.read v = m.read v ∧ InB m' v ∧ Below vb'.bid vb'.off v
  /-- buffers never shrink -/
  sizes : ∀ b, m.size b ≤ m'.size b
  /-- buffers are never freed; the current value buffer exists -/
  lengths : m.length ≤ m'.length
  bid : vb.bid < m.length → vb'.bid < m'.length
  /-- the value buffer stays where it is or moves to a buffer allocated later -/
  fresh : vb'.bid = vb.bid ∨ m.length ≤ vb'.bid

theorem Keeps.refl (m : Mem) (vb : Slice) : Keeps m vb m vb :=
  ⟨fun _ h1 h2 => ⟨rfl, h1, h2⟩, fun _ => Nat.le_refl _, Nat.le_refl _, fun h => h, Or.inl rfl⟩

theorem Keeps.trans {m m1 m2 : Mem} {vb vb1 vb2 : Slice} (h1 : Keeps m vb m1 vb1) (h2 : Keeps m1 vb1 m2 vb2) :
    Keeps m vb m2 vb2 := by
  refine ⟨?_, fun b => Nat.le_trans (h1.sizes b) (h2.sizes b), Nat.le_trans h1.lengths h2.lengths,
    fun h => h2.bid (h1.bid h), ?_⟩
  rotate_left
  · rcases h2.fresh with a | a
    · rcases h1.fresh with b | b
      · exact Or.inl (by rw [a, b])
      · exact Or.inr (by rw [a]; exact b)
    · exact Or.inr (Nat.le_trans h1.lengths a)
  intro v hi hb
  obtain ⟨a1, a2, a3⟩ := h1.views v hi hb
  obtain ⟨b1, b2, b3⟩ := h2.views v a2 a3
  exact ⟨by rw [b1, a1], b2, b3⟩

theorem keeps_of_post {m m' : Mem} {buf : Slice} {o' : Options View} {used : Nat} (h : Post m buf m' o' used) :
    Keeps m buf m' (adv buf used) := by
  refine ⟨?_, fun b => by rw [h.size]; exact Nat.le_refl _, by rw [h.length]; exact Nat.le_refl _,
    fun hb => by rw [h.length]; exact hb, Or.inl rfl⟩
  intro v hi hb
  refine ⟨h.stable v hb, ?_, below_mono hb (by simp [adv])⟩
  unfold InB at *; rw [h.size]; exact hi

theorem sliceIn_of_keeps {m m' : Mem} {vb vb' : Slice} (hk : Keeps m vb m' vb') {s : Slice} (h : SliceIn m s) :
    SliceIn m' s := by
  unfold SliceIn at *
  exact Nat.le_trans h (hk.sizes s.bid)

/-- `append(valueBuffer, make([]byte, n)...)` — in place or into a fresh buffer — keeps every stored value. -/
theorem appendZeros_spec (gb : Nat → Nat → Nat) {m : Mem} {s : Slice} (hs : SliceIn m s) (n : Nat) :
    SliceIn (appendZeros gb m s n).1 (appendZeros gb m s n).2 ∧ (appendZeros gb m s n).2.len = s.len + n ∧
      Keeps m s (appendZeros gb m s n).1 (appendZeros gb m s n).2 := by
  unfold appendZeros
  have hs' : s.off + s.len ≤ m.size s.bid := hs
  by_cases c : s.len + n ≤ s.cap m
  · simp only [c, if_true]
    have hcap : s.off + (s.len + n) ≤ m.size s.bid := by unfold Slice.cap at c; omega
    have hin : s.off + s.len + (List.replicate n (0 : UInt8)).length ≤ m.size s.bid := by simp; omega
    refine ⟨?_, by first | rfl | trivial, ?_⟩
    · show s.off + (s.len + n) ≤ _
      rw [size_write hin]; exact hcap
    · refine ⟨?_, fun b => by rw [size_write hin]; exact Nat.le_refl _, by rw [length_write]; exact Nat.le_refl _,
        fun hb => by rw [length_write]; exact hb, Or.inl rfl⟩
      intro v hi hb
      refine ⟨?_, ?_, hb⟩
      · by_cases c0 : v.len = 0
        · rw [read_zero_len _ _ c0, read_zero_len _ _ c0]
        · apply read_write_disj hin
          unfold Below at hb; omega
      · unfold InB at *; rw [size_write hin]; exact hi
  · simp only [c, if_false]
    have hrl : (m.read ⟨s.bid, s.off, s.len⟩).length = s.len := read_length (v := ⟨s.bid, s.off, s.len⟩) hs'
    refine ⟨?_, by first | rfl | trivial, ?_⟩
    · show 0 + (s.len + n) ≤ _
      rw [size_append_new]
      simp only [List.length_append, hrl, List.length_replicate]
      omega
    · refine ⟨?_, ?_, by simp, fun _ => by simp, Or.inr (Nat.le_refl _)⟩
      · intro v hi hb
        by_cases c0 : v.len = 0
        · exact ⟨by rw [read_zero_len _ _ c0, read_zero_len _ _ c0], Or.inl c0, Or.inl c0⟩
        · have hlt : v.bid < m.length := by
            apply size_pos_lt
            unfold InB at hi; omega
          refine ⟨read_append _ v (Or.inr hlt), ?_, Or.inr (Or.inl (by simp; omega))⟩
          unfold InB at *; rw [size_append_lt _ hlt]; exact hi
      · intro b
        by_cases hb : b < m.length
        · rw [size_append_lt _ hb]; exact Nat.le_refl _
        · have : m.size b = 0 := by
            unfold Mem.size; rw [buf_eq, List.getElem?_eq_none (by omega)]; rfl
          omega

theorem live_of_keeps {m m' : Mem} {vb vb' : Slice} {o : Options View} (hk : Keeps m vb m' vb') (hl : Live m vb o) :
    Live m' vb' o := by
  intro x hx
  obtain ⟨h1, h2⟩ := hl x hx
  obtain ⟨_, a2, a3⟩ := hk.views x.2 h1 h2
  exact ⟨a2, a3⟩

theorem items_of_keeps {m m' : Mem} {vb vb' : Slice} {o : Options View} (hk : Keeps m vb m' vb') (hl : Live m vb o) :
    items m' o = items m o := by
  unfold items
  apply mapVal_congr
  intro x hx
  obtain ⟨h1, h2⟩ := hl x hx
  exact (hk.views x.2 h1 h2).1

/-- What `retry` needs to know about the `Options` method it wraps: it asks for `need` bytes; with less it answers
`ErrTooSmall` and reports `need`, touching nothing; with enough it either refuses for a reason that does not depend
on the buffer (`refuse`), touching nothing, or performs the edit `spec` consuming exactly `need` bytes.  `ext` are
views the method reads (input of `ResetOptionsTo`). -/
structure Contract (f : Mem → Options View → Slice → M Res) (need : Nat) (refuse : Bool) (ext : List View)
    (spec : Mem → List Item → List Item) : Prop where
  small : ∀ m o buf, buf.len < need → f m o buf = .ok ⟨m, o, need, some .tooSmall⟩
  refused : refuse = true → ∀ m o buf, ¬ buf.len < need → f m o buf = .ok ⟨m, o, -1, some .invalidLen⟩
  ok : refuse = false → ∀ m o buf, ¬ buf.len < need → WF o → Sorted o.toList → SliceIn m buf → Live m buf o →
    (∀ v ∈ ext, InB m v ∧ Below buf.bid buf.off v) →
    ∃ m' o', f m o buf = .ok ⟨m', o', need, none⟩ ∧ Post m buf m' o' need ∧ items m' o' = spec m (items m o)
  specStable : ∀ m m', (∀ v ∈ ext, m'.read v = m.read v) → spec m' = spec m

/-- The retry pattern of `SetOptionString`, `AddOptionString`, `SetOptionUint32`, `AddOptionUint32`,
`ResetOptionsTo`: never a runtime panic; a refusal leaves the list as it was; otherwise the list becomes the
reference's; in every case the invariant holds again and every stored value is kept — also across buffer growth. -/
theorem retry_spec (gb : Nat → Nat → Nat) {r : Msg} (hinv : MsgInv r)
    {f : Mem → Options View → Slice → M Res} {need : Nat} {refuse : Bool} {ext : List View}
    {spec : Mem → List Item → List Item} (hc : Contract f need refuse ext spec)
    (hext : ∀ v ∈ ext, InB r.mem v ∧ Below r.vb.bid r.vb.off v) :
    ∃ r' e, r.retry gb f = .ok (r', e) ∧ MsgInv r' ∧ Keeps r.mem r.vb r'.mem r'.vb ∧
      (if refuse then e = some Err.invalidLen ∧ r'.opts = r.opts ∧ items r'.mem r'.opts = items r.mem r.opts
       else e = none ∧ items r'.mem r'.opts = spec r.mem (items r.mem r.opts)) := by
  -- the state in which the decisive call is made: either the original one or the one with the grown buffer
  have key : ∀ (m1 : Mem) (vb1 : Slice), SliceIn m1 vb1 → Keeps r.mem r.vb m1 vb1 → ¬ vb1.len < need →
      ∃ r' e, (do
          let res ← f m1 r.opts vb1
          match res.err with
          | some e => pure (({ r with mem := res.mem, vb := vb1 } : Msg), some e)
          | none =>
            if res.used < 0 then (Except.error Panic.slice : M (Msg × Option Err))
            else do
              let vb' ← vb1.tail res.used.toNat
              pure ({ r with mem := res.mem, opts := res.opts, vb := vb' }, none)) = .ok (r', e) ∧
        MsgInv r' ∧ Keeps r.mem r.vb r'.mem r'.vb ∧
        (if refuse then e = some Err.invalidLen ∧ r'.opts = r.opts ∧ items r'.mem r'.opts = items r.mem r.opts
         else e = none ∧ items r'.mem r'.opts = spec r.mem (items r.mem r.opts)) := by
    intro m1 vb1 hin1 hk1 hfit
    have hl1 : Live m1 vb1 r.opts := live_of_keeps hk1 hinv.live
    have hi1 : items m1 r.opts = items r.mem r.opts := items_of_keeps hk1 hinv.live
    cases hr : refuse with
    | true =>
      rw [hc.refused hr m1 r.opts vb1 hfit]
      refine ⟨{ r with mem := m1, vb := vb1 }, some .invalidLen, rfl,
        ⟨hinv.wf, hinv.sorted, hin1, hl1, sliceIn_of_keeps hk1 hinv.origIn, hk1.bid hinv.vbBid,
          Nat.lt_of_lt_of_le hinv.origBid hk1.lengths⟩, hk1, ?_⟩
      simp only [if_true]
      and_intros <;> first | rfl | trivial | exact hi1
    | false =>
      have hext1 : ∀ v ∈ ext, InB m1 v ∧ Below vb1.bid vb1.off v := by
        intro v hv
        obtain ⟨a, b⟩ := hext v hv
        obtain ⟨_, c, d⟩ := hk1.views v a b
        exact ⟨c, d⟩
      obtain ⟨m2, o2, h2, hp2, hi2⟩ := hc.ok hr m1 r.opts vb1 hfit hinv.wf hinv.sorted hin1 hl1 hext1
      rw [h2]
      have hneed : need ≤ vb1.len := by omega
      have h0 : ¬ ((need : Int) < 0) := by omega
      have htail : vb1.tail need = .ok (adv vb1 need) := by
        unfold Slice.tail adv; simp [hneed]
      simp only [bind, Except.bind, h0, if_false, Int.toNat_natCast, htail, pure, Except.pure]
      refine ⟨_, none, rfl, ⟨hp2.wf, hp2.sorted, ?_, hp2.live,
        sliceIn_of_keeps (hk1.trans (keeps_of_post hp2)) hinv.origIn, (hk1.trans (keeps_of_post hp2)).bid hinv.vbBid,
        Nat.lt_of_lt_of_le hinv.origBid (hk1.trans (keeps_of_post hp2)).lengths⟩, hk1.trans (keeps_of_post hp2), ?_⟩
      · show vb1.off + need + (vb1.len - need) ≤ m2.size vb1.bid
        rw [hp2.size]
        have : vb1.off + vb1.len ≤ m1.size vb1.bid := hin1
        omega
      · simp only [Bool.false_eq_true, if_false, true_and]
        rw [hi2, hi1, hc.specStable r.mem m1 (fun v hv => (hk1.views v (hext v hv).1 (hext v hv).2).1)]
  unfold Msg.retry
  by_cases hsmall : r.vb.len < need
  · rw [hc.small r.mem r.opts r.vb hsmall]
    obtain ⟨h1, h2, h3⟩ := appendZeros_spec gb hinv.vbIn need
    simp only [bind, Except.bind, Int.toNat_natCast]
    obtain ⟨r', e, hk, rest⟩ := key _ _ h1 h3 (by omega)
    refine ⟨r', e, ?_, rest⟩
    rw [← hk]
    simp only [bind, Except.bind]
    cases f (appendZeros gb r.mem r.vb need).1 r.opts (appendZeros gb r.mem r.vb need).2 with
    | error e => rfl
    | ok res => cases hres : res.err <;> simp [hres, pure, Except.pure]
  · obtain ⟨r', e, hk, rest⟩ := key r.mem r.vb hinv.vbIn (Keeps.refl _ _) hsmall
    refine ⟨r', e, ?_, rest⟩
    rw [← hk]
    simp only [bind, Except.bind]
    cases hf : f r.mem r.opts r.vb with
    | error e => rfl
    | ok res =>
      have hne : res.err ≠ some Err.tooSmall := by
        cases hr : refuse with
        | true => rw [hc.refused hr _ _ _ hsmall] at hf; injection hf with hf; subst hf; simp
        | false =>
          obtain ⟨m2, o2, h2, _, _⟩ := hc.ok hr r.mem r.opts r.vb hsmall hinv.wf hinv.sorted hinv.vbIn hinv.live hext
          rw [h2] at hf; injection hf with hf; subst hf; simp
      cases hres : res.err with
      | none => simp [pure, Except.pure, hres]
      | some e =>
        cases e with
        | tooSmall => exact absurd hres hne
        | notFound => simp [pure, Except.pure, hres]
        | invalidLen => simp [pure, Except.pure, hres]

/-! ### contracts of the wrapped `Options` methods -/

open CoapVerif.Generated.OptionList in
/-- `SetBytes`/`AddBytes` (= `SetString`/`AddString`) -/
theorem contract_bytes (isSet : Bool) (g : Nat → Nat) (id : Nat) (data : List UInt8) :
    Contract (fun m o b => if isSet then Options.setBytes g m o b id data else Options.addBytes g m o b id data)
      data.length (decide (id = uriPath ∧ data.length > maxPathValue)) []
      (fun _ l => if isSet then Spec.SortedMultiset.set (id, data) l else ins (id, data) l) where
  small := by
    intro m o buf h
    cases isSet <;> simp [Options.setBytes, Options.addBytes, h, pure, Except.pure]
  refused := by
    intro hr m o buf h
    have hr' : id = uriPath ∧ data.length > maxPathValue := by simpa using hr
    cases isSet <;> simp [Options.setBytes, Options.addBytes, h, hr', pure, Except.pure]
  ok := by
    intro hr m o buf h hwf hs hin hl _
    have hr' : ¬ (id = uriPath ∧ data.length > maxPathValue) := by simpa using hr
    exact put_ok isSet g hwf hs hin hl id data (by omega) hr'
  specStable := fun _ _ _ => rfl

open CoapVerif.Generated.OptionList in
theorem encodeUint32Bytes_eq (v : Nat) : encodeUint32Bytes v = uintBytes v := by
  unfold encodeUint32Bytes uintBytes max1ByteNumber max2ByteNumber max3ByteNumber
  by_cases c0 : v = 0
  · simp [c0]
  · by_cases c1 : v ≤ 255
    · have : v < 256 := by omega
      simp [c0, c1, this]
    · have n1 : ¬ v < 256 := by omega
      by_cases c2 : v ≤ 65535
      · have : v < 65536 := by omega
        simp [c0, c1, n1, c2, this]
      · have n2 : ¬ v < 65536 := by omega
        by_cases c3 : v ≤ 16777215
        · have : v < 16777216 := by omega
          simp [c0, c1, n1, c2, n2, c3, this]
        · have n3 : ¬ v < 16777216 := by omega
          simp [c0, c1, n1, c2, n2, c3, n3]

/-- `SetUint32`/`AddUint32` -/
theorem contract_u32 (isSet : Bool) (g : Nat → Nat) (id v : Nat) :
    Contract (fun m o b => if isSet then Options.setUint32 g m o b id v else Options.addUint32 g m o b id v)
      (uintBytes v).length false []
      (fun _ l => if isSet then Spec.SortedMultiset.set (id, uintBytes v) l else ins (id, uintBytes v) l) where
  small := by
    intro m o buf h
    cases isSet <;> simp [Options.setUint32, Options.addUint32, encodeUint32, h, pure, Except.pure, encodeUint32Bytes_eq]
  refused := by intro hr; cases hr
  ok := by
    intro _ m o buf h hwf hs hin hl _
    rw [← encodeUint32Bytes_eq] at h ⊢
    obtain ⟨val, o', h1, h2, h3, h4, h5, h6, h7, h8, h9⟩ :=
      put_spec isSet g hwf hs hin hl id (encodeUint32Bytes v) (by omega)
    refine ⟨m.copyTo buf (encodeUint32Bytes v), o', ?_, ⟨h3, h4, h6, h7, h8, h9⟩, h5⟩
    cases isSet with
    | true =>
      simp only [if_true] at h2 ⊢
      simp only [Options.setUint32, encodeUint32, h, if_false, h1, h2, bind, Except.bind, pure, Except.pure]
    | false =>
      simp only [Bool.false_eq_true, if_false] at h2 ⊢
      simp only [Options.addUint32, encodeUint32, h, if_false, h1, h2, bind, Except.bind, pure, Except.pure]
  specStable := fun _ _ _ => rfl

/-! ### `ResetOptionsTo` -/

theorem totalLen_foldl (inp : List (Opt View)) (a : Nat) :
    inp.foldl (fun acc x => acc + x.2.len) a = a + Options.totalLen inp := by
  unfold Options.totalLen
  induction inp generalizing a with
  | nil => simp
  | cons x xs ih => simp only [List.foldl_cons]; rw [ih, ih (0 + x.2.len)]; omega

theorem totalLen_cons (x : Opt View) (xs : List (Opt View)) :
    Options.totalLen (x :: xs) = x.2.len + Options.totalLen xs := by
  show (x :: xs).foldl (fun acc x => acc + x.2.len) 0 = _
  simp only [List.foldl_cons]; rw [totalLen_foldl]; omega

theorem read_length_of_inB {m : Mem} {v : View} (h : InB m v) : (m.read v).length = v.len := by
  rcases h with h | h
  · rw [read_zero_len _ _ h, h]; rfl
  · exact read_length h

/-- The copy-and-add loop of `ResetOptionsTo`: the input options are inserted one after the other (stable), their
values copied to consecutive places of the buffer. -/
theorem resetLoop_spec (g : Nat → Nat) :
    ∀ (inp : List (Opt View)) (m : Mem) (opts : Options View) (buf : Slice) (used : Nat),
      WF opts → Sorted opts.toList → SliceIn m buf → Live m buf opts →
      (∀ x ∈ inp, InB m x.2 ∧ Below buf.bid buf.off x.2) → Options.totalLen inp ≤ buf.len →
      ∃ m' o', Options.resetLoop g inp m opts buf used = .ok ⟨m', o', ((used + Options.totalLen inp : Nat) : Int), none⟩ ∧
        Post m buf m' o' (Options.totalLen inp) ∧
        items m' o' = (inp.map (fun x => (x.1, m.read x.2))).foldl (fun acc x => ins x acc) (items m opts) := by
  intro inp
  induction inp with
  | nil =>
    intro m opts buf used hwf hs hin hl _ _
    exact ⟨m, opts, by simp [Options.resetLoop, Options.totalLen, pure, Except.pure],
      by simpa [Options.totalLen] using Post.refl hwf hs hl, rfl⟩
  | cons x rest ih =>
    intro m opts buf used hwf hs hin hl hext htot
    rw [totalLen_cons] at htot ⊢
    obtain ⟨hxi, hxb⟩ := hext x (by simp)
    have hrl := read_length_of_inB hxi
    obtain ⟨val, o1, h1, h2, h3, h4, h5, h6, h7, h8, h9⟩ :=
      put_spec false g hwf hs hin hl x.1 (m.read x.2) (by omega)
    rw [hrl] at h1 h9
    simp only [Bool.false_eq_true, if_false] at h2 h5
    have hp1 : Post m buf (m.copyTo buf (m.read x.2)) o1 x.2.len := ⟨h3, h4, h6, h7, h8, h9⟩
    have hin1 : SliceIn (m.copyTo buf (m.read x.2)) (adv buf x.2.len) := by
      unfold SliceIn adv; simp only; rw [h6]
      have : buf.off + buf.len ≤ m.size buf.bid := hin
      omega
    have hext1 : ∀ y ∈ rest, InB (m.copyTo buf (m.read x.2)) y.2 ∧ Below (adv buf x.2.len).bid (adv buf x.2.len).off y.2 := by
      intro y hy
      obtain ⟨a, b⟩ := hext y (by simp [hy])
      refine ⟨?_, below_mono b (by simp [adv])⟩
      unfold InB at *; rw [h6]; exact a
    obtain ⟨m2, o2, hr2, hp2, hi2⟩ := ih (m.copyTo buf (m.read x.2)) o1 (adv buf x.2.len) (used + x.2.len) h3 h4 hin1 h9
      hext1 (by simp only [adv]; omega)
    refine ⟨m2, o2, ?_, Post.trans hp1 hp2, ?_⟩
    · unfold Options.resetLoop
      have htail : buf.tail x.2.len = .ok (adv buf x.2.len) := by
        unfold Slice.tail adv
        have : x.2.len ≤ buf.len := by omega
        simp [this]
      simp only [bind, Except.bind, h1, h2, htail]
      rw [hr2]
      congr 3; omega
    · rw [hi2, h5]
      simp only [List.map_cons, List.foldl_cons]
      congr 1
      apply List.map_congr_left
      intro y hy
      obtain ⟨a, b⟩ := hext y (by simp [hy])
      rw [h8 y.2 b]

theorem contract_reset (g : Nat → Nat) (inp : List (Opt View)) :
    Contract (fun m o b => Options.resetOptionsTo g m o b inp) (Options.totalLen inp) false (inp.map (·.2))
      (fun m _ => resetTo (inp.map (fun x => (x.1, m.read x.2)))) where
  small := by
    intro m o buf h
    simp [Options.resetOptionsTo, Options.resetOptionsToChecked, CoapVerif.Generated.OptionListShape.resetChecksSizeBeforeOverwrite,
      h, pure, Except.pure]
  refused := by intro hr; cases hr
  ok := by
    intro _ m o buf h hwf hs hin hl hext
    unfold Options.resetOptionsTo
    simp only [CoapVerif.Generated.OptionListShape.resetChecksSizeBeforeOverwrite, if_true]
    unfold Options.resetOptionsToChecked
    simp only [h, if_false, Options.reslice, Nat.zero_le, if_true, bind, Except.bind]
    have hwf0 : WF (⟨o.arr, 0⟩ : Options View) := Nat.zero_le _
    have hs0 : Sorted (⟨o.arr, 0⟩ : Options View).toList := by simp [Options.toList, Sorted]
    have hl0 : Live m buf (⟨o.arr, 0⟩ : Options View) := by intro x hx; simp [Options.toList] at hx
    obtain ⟨m', o', h1, h2, h3⟩ := resetLoop_spec g inp m ⟨o.arr, 0⟩ buf 0 hwf0 hs0 hin hl0
      (fun x hx => hext x.2 (List.mem_map_of_mem hx)) (by omega)
    refine ⟨m', o', ?_, h2, ?_⟩
    · rw [h1]; simp
    · rw [h3]; simp [items, Options.toList, mapVal, resetTo]
  specStable := by
    intro m m' h
    funext _
    congr 1
    apply List.map_congr_left
    intro x hx
    rw [h x.2 (List.mem_map_of_mem hx)]

/-! ### the other `pool.Message` operations -/

theorem tail_ok {s : Slice} {n : Nat} (h : n ≤ s.len) : s.tail n = .ok (adv s n) := by
  unfold Slice.tail adv; simp [h]

/-- `SetOptionBytes` / `AddOptionBytes` -/
theorem putOptionBytes_spec (isSet : Bool) (g : Nat → Nat) (gb : Nat → Nat → Nat) {r : Msg} (hinv : MsgInv r)
    (id : Nat) (value : List UInt8) :
    ∃ r', r.putOptionBytes isSet g gb id value = .ok r' ∧ MsgInv r' ∧ Keeps r.mem r.vb r'.mem r'.vb ∧
      items r'.mem r'.opts = (if isSet then Spec.SortedMultiset.set (id, value) (items r.mem r.opts)
                              else ins (id, value) (items r.mem r.opts)) := by
  -- the state after the optional growth
  obtain ⟨m1, vb1, hgrow, hin1, hk1, hfit⟩ : ∃ m1 vb1,
      (if r.vb.len < value.length then appendZeros gb r.mem r.vb (value.length - r.vb.len) else (r.mem, r.vb)) = (m1, vb1) ∧
      SliceIn m1 vb1 ∧ Keeps r.mem r.vb m1 vb1 ∧ value.length ≤ vb1.len := by
    by_cases c : r.vb.len < value.length
    · obtain ⟨h1, h2, h3⟩ := appendZeros_spec gb hinv.vbIn (value.length - r.vb.len)
      exact ⟨_, _, by simp only [c, if_true], h1, h3, by omega⟩
    · exact ⟨r.mem, r.vb, by simp only [c, if_false], hinv.vbIn, Keeps.refl _ _, by omega⟩
  have hl1 : Live m1 vb1 r.opts := live_of_keeps hk1 hinv.live
  have hi1 : items m1 r.opts = items r.mem r.opts := items_of_keeps hk1 hinv.live
  obtain ⟨val, o', h1, h2, h3, h4, h5, h6, h7, h8, h9⟩ := put_spec isSet g hinv.wf hinv.sorted hin1 hl1 id value hfit
  have hp : Post m1 vb1 (m1.copyTo vb1 value) o' value.length := ⟨h3, h4, h6, h7, h8, h9⟩
  have hmin : min vb1.len value.length = value.length := by omega
  have hk2 := hk1.trans (keeps_of_post hp)
  refine ⟨{ r with mem := m1.copyTo vb1 value, opts := o', vb := adv vb1 value.length }, ?_,
    ⟨h3, h4, ?_, h9, sliceIn_of_keeps hk2 hinv.origIn, hk2.bid hinv.vbBid,
      Nat.lt_of_lt_of_le hinv.origBid hk2.lengths⟩, hk2, by rw [h5, hi1]⟩
  · unfold Msg.putOptionBytes
    rw [hgrow]
    simp only [hmin, h1, bind, Except.bind, tail_ok hfit, pure, Except.pure]
    cases isSet with
    | true => simp only [if_true] at h2 ⊢; rw [h2]
    | false => simp only [Bool.false_eq_true, if_false] at h2 ⊢; rw [h2]
  · show vb1.off + value.length + (vb1.len - value.length) ≤ (m1.copyTo vb1 value).size vb1.bid
    rw [h6]
    have : vb1.off + vb1.len ≤ m1.size vb1.bid := hin1
    omega

theorem uriPath_eq : CoapVerif.Generated.OptionList.uriPath = uriPathId := by decide

/-- `pool.Message.SetPath`: a refused path changes nothing at all; otherwise — growing the value buffer when the
segments do not fit — the Uri-Path options are replaced by the segments and every stored value is kept. -/
theorem msg_setPath_spec (g : Nat → Nat) (gb : Nat → Nat → Nat) {r : Msg} (hinv : MsgInv r) (p : Bytes) :
    ∃ r' e, r.setPath g gb p = .ok (r', e) ∧ MsgInv r' ∧ Keeps r.mem r.vb r'.mem r'.vb ∧
      match Spec.SortedMultiset.setPath uriPathId p (items r.mem r.opts) with
      | none => e = some Err.invalidLen ∧ r' = r
      | some l' => e = none ∧ items r'.mem r'.opts = l' := by
  obtain ⟨res, h1, h2⟩ := setPath_spec g hinv.wf hinv.sorted hinv.vbIn hinv.live uriPathId p
  unfold Msg.setPath
  rw [uriPath_eq, h1]
  simp only [bind, Except.bind]
  -- committing a successful call made with buffer `vb1` in heap `m1`
  have commit : ∀ (m1 : Mem) (vb1 : Slice) (res : Res) (l' : List Item) (used : Nat), SliceIn m1 vb1 →
      Keeps r.mem r.vb m1 vb1 → res.err = none → res.used = (used : Int) → Post m1 vb1 res.mem res.opts used →
      used ≤ vb1.len → items res.mem res.opts = l' →
      ∃ r' e, (match res.err with
          | some e => (pure (({ r with mem := res.mem, vb := vb1 } : Msg), some e) : M (Msg × Option Err))
          | none =>
            if res.used < 0 then .error .slice
            else do
              let vb' ← vb1.tail res.used.toNat
              pure ({ r with mem := res.mem, opts := res.opts, vb := vb' }, none)) = .ok (r', e) ∧
        MsgInv r' ∧ Keeps r.mem r.vb r'.mem r'.vb ∧ e = none ∧ items r'.mem r'.opts = l' := by
    intro m1 vb1 res l' used hin1 hk1 he hu hp hle hi
    have h0 : ¬ ((used : Int) < 0) := by omega
    have hk2 := hk1.trans (keeps_of_post hp)
    refine ⟨{ r with mem := res.mem, opts := res.opts, vb := adv vb1 used }, none, ?_,
      ⟨hp.wf, hp.sorted, ?_, hp.live, sliceIn_of_keeps hk2 hinv.origIn, hk2.bid hinv.vbBid,
        Nat.lt_of_lt_of_le hinv.origBid hk2.lengths⟩, hk2, rfl, hi⟩
    · rw [he, hu]
      simp only [h0, if_false, Int.toNat_natCast, tail_ok hle, bind, Except.bind, pure, Except.pure]
    · show vb1.off + used + (vb1.len - used) ≤ res.mem.size vb1.bid
      rw [hp.size]
      have : vb1.off + vb1.len ≤ m1.size vb1.bid := hin1
      omega
  cases hsp : Spec.SortedMultiset.setPath uriPathId p (items r.mem r.opts) with
  | none =>
    rw [hsp] at h2
    obtain ⟨he, hm, ho⟩ := h2
    simp only [he, pure, Except.pure]
    refine ⟨r, some .invalidLen, ?_, hinv, Keeps.refl _ _, rfl, rfl⟩
    rw [hm]
  | some l' =>
    rw [hsp] at h2
    simp only [] at h2 ⊢
    by_cases c : p ≠ [] ∧ totalSeg (segments p) > r.vb.len
    · rw [if_pos c] at h2
      obtain ⟨he, hm, ho⟩ := h2
      simp only [he]
      -- the size computed for the growth is the total length of the segments
      have hnone : ¬ ((segments p).any (fun s => decide (s.length > maxSegment)) = true) := by
        intro hany
        unfold Spec.SortedMultiset.setPath at hsp
        simp [c.1, hany] at hsp
      have hsize : Options.getPathBufferSize p = .ok (.ok (totalSeg (segments p))) := by
        unfold Options.getPathBufferSize
        rw [pathSizeLoop_spec (p.length + 1) p 0 (by omega)]
        simp only [hnone, if_false, Bool.false_eq_true, Nat.zero_add]
      rw [hsize]
      simp only []
      obtain ⟨g1, g2, g3⟩ := appendZeros_spec gb hinv.vbIn (totalSeg (segments p))
      rw [hm, ho]
      generalize hgz : appendZeros gb r.mem r.vb (totalSeg (segments p)) = gz at g1 g2 g3
      obtain ⟨m1, vb1⟩ := gz
      simp only at g1 g2 g3 ⊢
      have hl1 : Live m1 vb1 r.opts := live_of_keeps g3 hinv.live
      have hi1 : items m1 r.opts = items r.mem r.opts := items_of_keeps g3 hinv.live
      obtain ⟨res2, k1, k2⟩ := setPath_spec g hinv.wf hinv.sorted g1 hl1 uriPathId p
      rw [k1]
      simp only [pure, Except.pure]
      rw [hi1, hsp] at k2
      simp only [] at k2
      have c2 : ¬ (p ≠ [] ∧ totalSeg (segments p) > vb1.len) := by omega
      simp only [c2, if_false, c.1] at k2
      obtain ⟨ke, ku, kp, ki⟩ := k2
      obtain ⟨r', e, q1, q2, q3, q4, q5⟩ := commit m1 vb1 res2 l' _ g1 g3 ke ku kp (by omega) ki
      exact ⟨r', e, q1, q2, q3, q4, q5⟩
    · rw [if_neg c] at h2
      obtain ⟨he, hu, hp, hi⟩ := h2
      have hne : res.err ≠ some Err.tooSmall := by rw [he]; simp
      have hle : (if p = [] then 0 else totalSeg (segments p)) ≤ r.vb.len := by
        by_cases hp0 : p = []
        · simp [hp0]
        · simp only [hp0, if_false]
          have : ¬ (totalSeg (segments p) > r.vb.len) := fun h => c ⟨hp0, h⟩
          omega
      obtain ⟨r', e, q1, q2, q3, q4, q5⟩ := commit r.mem r.vb res l' _ hinv.vbIn (Keeps.refl _ _) he hu hp hle hi
      refine ⟨r', e, ?_, q2, q3, q4, q5⟩
      rw [← q1]
      simp only [he, pure, Except.pure]
      rfl

/-- `Remove(id)` -/
theorem msg_remove_spec {r : Msg} (hinv : MsgInv r) (id : Nat) :
    ∃ r', r.remove id = .ok r' ∧ MsgInv r' ∧ r'.mem = r.mem ∧ r'.vb = r.vb ∧
      items r'.mem r'.opts = remove id (items r.mem r.opts) := by
  obtain ⟨o1, h1, h2, _, _, h5⟩ := remove_spec hinv.wf hinv.sorted id
  refine ⟨{ r with opts := o1 }, ?_, ⟨h2, ?_, hinv.vbIn, ?_, hinv.origIn, hinv.vbBid, hinv.origBid⟩, rfl, rfl,
    items_remove hinv.sorted h5⟩
  · unfold Msg.remove; simp only [h1, bind, Except.bind, pure, Except.pure]
  · rw [h5, ← remove_eq id hinv.sorted]; exact remove_sorted id hinv.sorted
  · intro x hx
    rw [h5, ← remove_eq id hinv.sorted] at hx
    exact hinv.live x (mem_remove' hx)

/-- `Reset()`: the list is empty and the whole original buffer is available again (no value is live any more). -/
theorem msg_reset_spec {r : Msg} (hinv : MsgInv r) :
    ∃ r', r.reset = .ok r' ∧ MsgInv r' ∧ items r'.mem r'.opts = [] ∧ r'.vb = r.orig := by
  refine ⟨{ r with opts := ⟨r.opts.arr, 0⟩, vb := r.orig }, ?_,
    ⟨Nat.zero_le _, ?_, hinv.origIn, ?_, hinv.origIn, hinv.origBid, hinv.origBid⟩, ?_, rfl⟩
  · unfold Msg.reset; simp [Options.reslice, bind, Except.bind, pure, Except.pure]
  · simp [Options.toList, Sorted]
  · intro x hx; simp [Options.toList] at hx
  · simp [items, Options.toList, mapVal]

/-! ### histories -/

theorem selectOwn_map {β γ : Type} (f : β → γ) (l : List β) (idxs : List Nat) :
    (idxs.filterMap (fun i => l[i % l.length]?)).map f = idxs.filterMap (fun i => (l.map f)[i % (l.map f).length]?) := by
  induction idxs with
  | nil => rfl
  | cons i rest ih =>
    simp only [List.filterMap_cons, List.length_map, List.getElem?_map]
    cases h : l[i % l.length]? with
    | none => simpa using ih
    | some x => simpa using ih

theorem mem_selectOwn {o : Options View} {idxs : List Nat} {x : Opt View} (h : x ∈ Msg.selectOwn o idxs) :
    x ∈ o.toList := by
  unfold Msg.selectOwn at h
  obtain ⟨i, _, hi⟩ := List.mem_filterMap.mp h
  exact List.mem_of_getElem? hi

theorem read_append_list {m : Mem} (extra : Mem) (v : View) (h : v.len = 0 ∨ v.bid < m.length) :
    (m ++ extra).read v = m.read v := by
  rcases h with h | h
  · rw [read_zero_len _ _ h, read_zero_len _ _ h]
  · unfold Mem.read
    rw [buf_eq, buf_eq, List.getElem?_append_left h]

theorem allocInputs_spec : ∀ (inp : List Item) (m : Mem),
    ∃ extra, (Msg.allocInputs m inp).1 = m ++ extra ∧
      (Msg.allocInputs m inp).2.map (fun x => (x.1, (m ++ extra).read x.2)) = inp ∧
      ∀ x ∈ (Msg.allocInputs m inp).2, InB (m ++ extra) x.2 ∧ m.length ≤ x.2.bid := by
  intro inp
  induction inp with
  | nil => intro m; exact ⟨[], by simp [Msg.allocInputs], by simp [Msg.allocInputs], by simp [Msg.allocInputs]⟩
  | cons x rest ih =>
    intro m
    obtain ⟨extra, h1, h2, h3⟩ := ih (m ++ [x.2])
    refine ⟨x.2 :: extra, ?_, ?_, ?_⟩
    · simp only [Msg.allocInputs, Mem.allocBytes]; rw [h1]; simp
    · simp only [Msg.allocInputs, Mem.allocBytes, List.map_cons]
      have e : m ++ x.2 :: extra = (m ++ [x.2]) ++ extra := by simp
      rw [e]
      congr 1
      · have : ((m ++ [x.2]) ++ extra).read ⟨m.length, 0, x.2.length⟩ = x.2 := by
          rw [read_append_list extra _ (Or.inr (by simp))]
          unfold Mem.read
          rw [buf_eq, List.getElem?_append_right (Nat.le_refl _)]
          simp
        rw [this]
    · intro y hy
      simp only [Msg.allocInputs, Mem.allocBytes, List.mem_cons] at hy
      have e : m ++ x.2 :: extra = (m ++ [x.2]) ++ extra := by simp
      rw [e]
      rcases hy with hy | hy
      · subst hy
        refine ⟨Or.inr ?_, Nat.le_refl _⟩
        show 0 + x.2.length ≤ _
        unfold Mem.size
        rw [buf_eq, List.getElem?_append_left (by simp), List.getElem?_append_right (Nat.le_refl _)]
        simp
      · obtain ⟨a, b⟩ := h3 y hy
        refine ⟨a, ?_⟩
        simp at b; omega

theorem keeps_append {m : Mem} (vb : Slice) (extra : Mem) : Keeps m vb (m ++ extra) vb := by
  have hsz : ∀ b, m.size b ≤ (m ++ extra).size b := by
    intro b
    by_cases hb : b < m.length
    · unfold Mem.size; rw [buf_eq, buf_eq, List.getElem?_append_left hb]; exact Nat.le_refl _
    · have : m.size b = 0 := by unfold Mem.size; rw [buf_eq, List.getElem?_eq_none (by omega)]; rfl
      omega
  refine ⟨?_, hsz, by simp, fun h => by simp; omega, Or.inl rfl⟩
  intro v hi hb
  by_cases c0 : v.len = 0
  · exact ⟨by rw [read_zero_len _ _ c0, read_zero_len _ _ c0], Or.inl c0, hb⟩
  · have hlt : v.bid < m.length := by
      apply size_pos_lt
      unfold InB at hi; omega
    refine ⟨read_append_list extra v (Or.inr hlt), ?_, hb⟩
    unfold InB at *
    have := hsz v.bid
    omega

/-- One step of a history: no runtime panic, the invariant is re-established, the list a reader sees is the
reference's, and — unless the step is `Reset`, which gives the buffer back — every stored value is kept. -/
theorem step_spec (g : Nat → Nat) (gb : Nat → Nat → Nat) {r : Msg} (hinv : MsgInv r) (op : Msg.Op) :
    ∃ r', r.step g gb op = .ok r' ∧ MsgInv r' ∧ items r'.mem r'.opts = specStep (items r.mem r.opts) op ∧
      (op ≠ .reset → Keeps r.mem r.vb r'.mem r'.vb) := by
  have noext : ∀ v ∈ ([] : List View), InB r.mem v ∧ Below r.vb.bid r.vb.off v := by intro v hv; cases hv
  have mp : CoapVerif.Generated.OptionList.maxPathValue = maxSegment := maxPathValue_eq
  cases op with
  | setBytes id v =>
    obtain ⟨r', h1, h2, h3, h4⟩ := putOptionBytes_spec true g gb hinv id v
    exact ⟨r', h1, h2, by simpa [specStep] using h4, fun _ => h3⟩
  | addBytes id v =>
    obtain ⟨r', h1, h2, h3, h4⟩ := putOptionBytes_spec false g gb hinv id v
    exact ⟨r', h1, h2, by simpa [specStep] using h4, fun _ => h3⟩
  | setString id v =>
    obtain ⟨r', e, h1, h2, h3, h4⟩ := retry_spec gb hinv (contract_bytes true g id v) noext
    refine ⟨r', ?_, h2, ?_, fun _ => h3⟩
    · simp only [Msg.step, Msg.setOptionString, Options.setString, bind, Except.bind, pure, Except.pure]
      simp only [if_true] at h1; rw [h1]
    · unfold specStep
      rw [uriPath_eq, mp] at h4
      by_cases c : id = uriPathId ∧ v.length > maxSegment
      · simp only [c, and_self, decide_true, if_true] at h4 ⊢; exact h4.2.2
      · simp only [c, decide_false, Bool.false_eq_true, if_false, if_true] at h4 ⊢; exact h4.2
  | addString id v =>
    obtain ⟨r', e, h1, h2, h3, h4⟩ := retry_spec gb hinv (contract_bytes false g id v) noext
    refine ⟨r', ?_, h2, ?_, fun _ => h3⟩
    · simp only [Msg.step, Msg.addOptionString, Options.addString, bind, Except.bind, pure, Except.pure]
      simp only [Bool.false_eq_true, if_false] at h1; rw [h1]
    · unfold specStep
      rw [uriPath_eq, mp] at h4
      by_cases c : id = uriPathId ∧ v.length > maxSegment
      · simp only [c, and_self, decide_true, if_true] at h4 ⊢; exact h4.2.2
      · simp only [c, decide_false, Bool.false_eq_true, if_false] at h4 ⊢; exact h4.2
  | setUint32 id v =>
    obtain ⟨r', e, h1, h2, h3, h4⟩ := retry_spec gb hinv (contract_u32 true g id v) noext
    refine ⟨r', ?_, h2, ?_, fun _ => h3⟩
    · simp only [Msg.step, Msg.setOptionUint32, bind, Except.bind, pure, Except.pure]
      simp only [if_true] at h1; rw [h1]
    · simp only [Bool.false_eq_true, if_false, if_true] at h4; exact h4.2
  | addUint32 id v =>
    obtain ⟨r', e, h1, h2, h3, h4⟩ := retry_spec gb hinv (contract_u32 false g id v) noext
    refine ⟨r', ?_, h2, ?_, fun _ => h3⟩
    · simp only [Msg.step, Msg.addOptionUint32, bind, Except.bind, pure, Except.pure]
      simp only [Bool.false_eq_true, if_false] at h1; rw [h1]
    · simp only [Bool.false_eq_true, if_false] at h4; exact h4.2
  | setPath p =>
    obtain ⟨r', e, h1, h2, h3, h4⟩ := msg_setPath_spec g gb hinv p
    refine ⟨r', ?_, h2, ?_, fun _ => h3⟩
    · simp only [Msg.step, bind, Except.bind, pure, Except.pure, h1]
    · show _ = (Spec.SortedMultiset.setPath uriPathId p (items r.mem r.opts)).getD (items r.mem r.opts)
      cases hsp : Spec.SortedMultiset.setPath uriPathId p (items r.mem r.opts) with
      | none => rw [hsp] at h4; simp only [] at h4; rw [Option.getD_none, h4.2]
      | some l' => rw [hsp] at h4; simp only [] at h4; rw [Option.getD_some]; exact h4.2
  | addQuery q =>
    obtain ⟨r', e, h1, h2, h3, h4⟩ := retry_spec gb hinv (contract_bytes false g CoapVerif.Generated.OptionList.uriQuery q) noext
    refine ⟨r', ?_, h2, ?_, fun _ => h3⟩
    · simp only [Msg.step, Msg.addQuery, Msg.addOptionString, Options.addString, bind, Except.bind, pure, Except.pure]
      simp only [Bool.false_eq_true, if_false] at h1; rw [h1]
    · have hq : ¬ (CoapVerif.Generated.OptionList.uriQuery = CoapVerif.Generated.OptionList.uriPath ∧
          q.length > CoapVerif.Generated.OptionList.maxPathValue) := by
        intro h; exact absurd h.1 (by decide)
      simp only [hq, decide_false, Bool.false_eq_true, if_false] at h4
      have e : CoapVerif.Generated.OptionList.uriQuery = uriQueryId := by decide
      rw [e] at h4
      exact h4.2
  | remove id =>
    obtain ⟨r', h1, h2, h3, h4, h5⟩ := msg_remove_spec hinv id
    refine ⟨r', h1, h2, h5, fun _ => ?_⟩
    rw [h3, h4]; exact Keeps.refl _ _
  | resetTo inp =>
    obtain ⟨extra, a1, a2, a3⟩ := allocInputs_spec inp r.mem
    have hk0 : Keeps r.mem r.vb (r.mem ++ extra) r.vb := keeps_append r.vb extra
    have hinv0 : MsgInv ({ r with mem := r.mem ++ extra } : Msg) :=
      ⟨hinv.wf, hinv.sorted, sliceIn_of_keeps hk0 hinv.vbIn, live_of_keeps hk0 hinv.live,
        sliceIn_of_keeps hk0 hinv.origIn, hk0.bid hinv.vbBid, Nat.lt_of_lt_of_le hinv.origBid hk0.lengths⟩
    have hext : ∀ v ∈ (Msg.allocInputs r.mem inp).2.map (·.2),
        InB (r.mem ++ extra) v ∧ Below r.vb.bid r.vb.off v := by
      intro v hv
      obtain ⟨x, hx, rfl⟩ := List.mem_map.mp hv
      obtain ⟨b1, b2⟩ := a3 x hx
      refine ⟨b1, Or.inr (Or.inl ?_)⟩
      have := hinv.vbBid
      omega
    obtain ⟨r', e, h1, h2, h3, h4⟩ := retry_spec gb hinv0 (contract_reset g (Msg.allocInputs r.mem inp).2) hext
    refine ⟨r', ?_, h2, ?_, fun _ => hk0.trans h3⟩
    · simp only [Msg.step, Msg.resetOptionsTo, bind, Except.bind, pure, Except.pure]
      rw [a1, h1]
    · simp only [Bool.false_eq_true, if_false] at h4
      rw [h4.2, a2]; rfl
  | resetSelf idxs =>
    -- the sources are the message's own stored values: inside their buffers and below the cursor (the invariant)
    have hext : ∀ v ∈ (Msg.selectOwn r.opts idxs).map (·.2), InB r.mem v ∧ Below r.vb.bid r.vb.off v := by
      intro v hv
      obtain ⟨x, hx, rfl⟩ := List.mem_map.mp hv
      exact hinv.live x (mem_selectOwn hx)
    obtain ⟨r', e, h1, h2, h3, h4⟩ := retry_spec gb hinv (contract_reset g (Msg.selectOwn r.opts idxs)) hext
    refine ⟨r', ?_, h2, ?_, fun _ => h3⟩
    · simp only [Msg.step, Msg.resetOptionsTo, bind, Except.bind, pure, Except.pure, h1]
    · simp only [Bool.false_eq_true, if_false] at h4
      rw [h4.2]
      show _ = resetTo (Spec.SortedMultiset.selectOwn (items r.mem r.opts) idxs)
      congr 1
      exact selectOwn_map (fun x => (x.1, r.mem.read x.2)) r.opts.toList idxs
  | reset =>
    obtain ⟨r', h1, h2, h3, _⟩ := msg_reset_spec hinv
    exact ⟨r', h1, h2, h3, fun h => absurd rfl h⟩

/-- A whole history refines the reference list. -/
theorem run_spec (g : Nat → Nat) (gb : Nat → Nat → Nat) : ∀ (ops : List Msg.Op) {r : Msg}, MsgInv r →
    ∃ r', Msg.run g gb r ops = .ok r' ∧ MsgInv r' ∧
      items r'.mem r'.opts = ops.foldl specStep (items r.mem r.opts) ∧
      (Spec.OptionOp.Op.reset ∉ ops → Keeps r.mem r.vb r'.mem r'.vb) := by
  intro ops
  induction ops with
  | nil => intro r hinv; exact ⟨r, rfl, hinv, rfl, fun _ => Keeps.refl _ _⟩
  | cons op ops ih =>
    intro r hinv
    obtain ⟨r1, h1, h2, h3, h4⟩ := step_spec g gb hinv op
    obtain ⟨r2, k1, k2, k3, k4⟩ := ih h2
    refine ⟨r2, ?_, k2, ?_, ?_⟩
    · simp only [Msg.run, bind, Except.bind, h1]; exact k1
    · rw [k3, h3]; rfl
    · intro hn
      have hop : op ≠ .reset := fun e => hn (by simp [e])
      have hops : Spec.OptionOp.Op.reset ∉ ops := fun e => hn (by simp [e])
      exact (h4 hop).trans (k4 hops)

/-! ### views that are not the message's: untouched by every history, `Reset` included -/

theorem retry_orig (gb : Nat → Nat → Nat) {r r' : Msg} {f : Mem → Options View → Slice → M Res} {e : Option Err}
    (h : r.retry gb f = .ok (r', e)) : r'.orig = r.orig := by
  unfold Msg.retry at h
  simp only [bind, Except.bind, pure, Except.pure] at h
  repeat' split at h
  all_goals (cases h <;> rfl)

theorem step_orig (g : Nat → Nat) (gb : Nat → Nat → Nat) {r r' : Msg} (op : Msg.Op) (h : r.step g gb op = .ok r') :
    r'.orig = r.orig := by
  have fromRetry : ∀ (x : M (Msg × Option Err)), (∀ r1 e, x = .ok (r1, e) → r1.orig = r.orig) →
      (do let y ← x; pure y.1 : M Msg) = .ok r' → r'.orig = r.orig := by
    intro x hx hy
    cases hxx : x with
    | error err => rw [hxx] at hy; cases hy
    | ok y =>
      rw [hxx] at hy
      simp only [bind, Except.bind, pure, Except.pure, Except.ok.injEq] at hy
      rw [← hy]; exact hx y.1 y.2 (by rw [hxx])
  cases op with
  | setBytes id v | addBytes id v =>
    simp only [Msg.step, Msg.putOptionBytes, bind, Except.bind, pure, Except.pure] at h
    repeat' split at h
    all_goals (cases h <;> rfl)
  | setString id v => exact fromRetry _ (fun _ _ hh => retry_orig gb hh) h
  | addString id v => exact fromRetry _ (fun _ _ hh => retry_orig gb hh) h
  | setUint32 id v => exact fromRetry _ (fun _ _ hh => retry_orig gb hh) h
  | addUint32 id v => exact fromRetry _ (fun _ _ hh => retry_orig gb hh) h
  | addQuery q =>
    refine fromRetry (r.addQuery g gb q) (fun r1 e hh => ?_) h
    unfold Msg.addQuery Msg.addOptionString at hh
    exact retry_orig gb hh
  | resetSelf idxs => exact fromRetry _ (fun _ _ hh => retry_orig gb hh) h
  | resetTo inp =>
    simp only [Msg.step] at h
    exact fromRetry _ (fun r1 e hh => by have := retry_orig gb hh; exact this) h
  | setPath p =>
    refine fromRetry _ (fun r1 e hh => ?_) h
    unfold Msg.setPath at hh
    simp only [bind, Except.bind, pure, Except.pure] at hh
    repeat' split at hh
    all_goals (cases hh <;> rfl)
  | remove id =>
    simp only [Msg.step, Msg.remove, bind, Except.bind, pure, Except.pure] at h
    split at h
    · cases h
    · simp only [Except.ok.injEq] at h; rw [← h]
  | reset =>
    simp only [Msg.step, Msg.reset, bind, Except.bind, pure, Except.pure] at h
    split at h
    · cases h
    · simp only [Except.ok.injEq] at h; rw [← h]

/-- A view that does not belong to the message: inside its buffer, in a buffer that is neither the current nor the
original value buffer of the message (e.g. a value of a clone, or of another message). -/
def Foreign (r : Msg) (v : View) : Prop :=
  v.len = 0 ∨ (v.off + v.len ≤ r.mem.size v.bid ∧ v.bid ≠ r.vb.bid ∧ v.bid ≠ r.orig.bid)

theorem foreign_step (g : Nat → Nat) (gb : Nat → Nat → Nat) {r r' : Msg} (hinv : MsgInv r) (op : Msg.Op)
    (h : r.step g gb op = .ok r') {v : View} (hf : Foreign r v) :
    r'.mem.read v = r.mem.read v ∧ Foreign r' v := by
  by_cases c0 : v.len = 0
  · exact ⟨by rw [read_zero_len _ _ c0, read_zero_len _ _ c0], Or.inl c0⟩
  · have ⟨h1, h2, h3⟩ : v.off + v.len ≤ r.mem.size v.bid ∧ v.bid ≠ r.vb.bid ∧ v.bid ≠ r.orig.bid := by
      rcases hf with hf | hf
      · exact absurd hf c0
      · exact hf
    have horig := step_orig g gb op h
    have hlt : v.bid < r.mem.length := size_pos_lt (by omega)
    by_cases hop : op = .reset
    · subst hop
      obtain ⟨r'', k1, _, _, k4⟩ := msg_reset_spec hinv
      have h' : r.reset = .ok r' := h
      rw [h'] at k1; injection k1 with k1; subst k1
      have hm : r'.mem = r.mem := by
        simp only [Msg.step, Msg.reset, bind, Except.bind, pure, Except.pure] at h
        split at h
        · cases h
        · simp only [Except.ok.injEq] at h; rw [← h]
      refine ⟨by rw [hm], Or.inr ⟨by rw [hm]; exact h1, by rw [k4]; exact h3, by rw [horig]; exact h3⟩⟩
    · obtain ⟨r'', k1, _, _, k4⟩ := step_spec g gb hinv op
      rw [h] at k1; injection k1 with k1; subst k1
      have hk := k4 hop
      obtain ⟨a1, a2, _⟩ := hk.views v (Or.inr h1) (Or.inr (Or.inl h2))
      refine ⟨a1, Or.inr ⟨?_, ?_, by rw [horig]; exact h3⟩⟩
      · rcases a2 with a2 | a2
        · exact absurd a2 c0
        · exact a2
      · rcases hk.fresh with f | f
        · rw [f]; exact h2
        · omega

/-- Any history on a message — edits, growth, `Reset` and reuse — leaves every foreign view as it was. -/
theorem foreign_run (g : Nat → Nat) (gb : Nat → Nat → Nat) : ∀ (ops : List Msg.Op) {r r' : Msg}, MsgInv r →
    Msg.run g gb r ops = .ok r' → ∀ {v : View}, Foreign r v → r'.mem.read v = r.mem.read v ∧ Foreign r' v := by
  intro ops
  induction ops with
  | nil =>
    intro r r' _ h v hf
    simp only [Msg.run, pure, Except.pure, Except.ok.injEq] at h
    subst h; exact ⟨rfl, hf⟩
  | cons op ops ih =>
    intro r r' hinv h v hf
    obtain ⟨r1, s1, s2, _, _⟩ := step_spec g gb hinv op
    simp only [Msg.run, bind, Except.bind, s1] at h
    obtain ⟨a1, a2⟩ := foreign_step g gb hinv op s1 hf
    obtain ⟨b1, b2⟩ := ih s2 h a2
    exact ⟨by rw [b1, a1], b2⟩

/-- A freshly created message satisfies the invariant. -/
theorem msgInv_new (m : Mem) (optCap : Nat) : MsgInv (Msg.new m optCap) := by
  unfold Msg.new Mem.alloc
  simp only
  have hsz : (m ++ [List.replicate CoapVerif.Generated.OptionList.valueBufferSize (0 : UInt8)]).size m.length
      = CoapVerif.Generated.OptionList.valueBufferSize := by rw [size_append_new]; simp
  refine ⟨?_, ?_, ?_, ?_, ?_, by simp, by simp⟩
  · unfold WF Options.make; simp
  · simp [Options.make, Options.toList, Sorted]
  · show 0 + CoapVerif.Generated.OptionList.valueBufferSize ≤ _; rw [hsz]; omega
  · intro x hx; simp [Options.make, Options.toList] at hx
  · show 0 + CoapVerif.Generated.OptionList.valueBufferSize ≤ _; rw [hsz]; omega

/-! ### `ResetOptionsTo` whose input is a slice of the receiver's own array -/

/-- The aliased loop (reads `in[idx]` from the array the earlier `Add`s have been writing into) equals the plain loop
on a snapshot of the input taken before the call: when iteration `j` starts, the `Add`s have touched only the indices
`< j` of the array (`add_frame`), and it reads index `k + j ≥ j`. -/
theorem resetLoopAliased_eq (g : Nat → Nat) (orig : List (Opt View)) (k : Nat) :
    ∀ (cnt j : Nat) (m : Mem) (opts : Options View) (buf : Slice) (used : Nat),
      WF opts → Sorted opts.toList → opts.len = j → opts.arr.length = orig.length →
      (∀ i, j ≤ i → opts.arr[i]? = orig[i]?) → k + j + cnt ≤ orig.length →
      Options.resetLoopAliased g cnt (k + j) m opts opts.arr buf used
        = Options.resetLoop g ((orig.drop (k + j)).take cnt) m opts buf used := by
  intro cnt
  induction cnt with
  | zero => intro j m opts buf used _ _ _ _ _ _; simp [Options.resetLoopAliased, Options.resetLoop]
  | succ cnt ih =>
    intro j m opts buf used hwf hs hj hlen hfr hle
    have hrd : k + j < orig.length := by omega
    have hsrc : opts.arr[k + j]? = some orig[k + j] := by
      rw [hfr (k + j) (by omega)]; exact List.getElem?_eq_getElem hrd
    have hdrop : (orig.drop (k + j)).take (cnt + 1) = orig[k + j] :: (orig.drop (k + j + 1)).take cnt := by
      rw [List.drop_eq_getElem_cons hrd, List.take_succ_cons]
    rw [hdrop]
    unfold Options.resetLoopAliased Options.resetLoop
    simp only [hsrc, bind, Except.bind, pure, Except.pure]
    cases hA : buf.head (m.copyTo buf (m.read orig[k + j].2)) orig[k + j].2.len with
    | error e => rfl
    | ok v =>
      simp only []
      cases hB : opts.add g (orig[k + j].1, v) with
      | error e => rfl
      | ok opts' =>
        simp only []
        cases hC : buf.tail orig[k + j].2.len with
        | error e => rfl
        | ok buf' =>
          simp only []
          have hcap : opts.len < opts.arr.length := by omega
          obtain ⟨f1, f2⟩ := add_frame g hwf hs _ hcap hB
          obtain ⟨o'', a1, a2, a3, a4⟩ := add_spec g hwf hs (orig[k + j].1, v)
          rw [hB] at a1; injection a1 with a1; subst a1
          have hs' : Sorted opts'.toList := by rw [a4, ← ins_eq _ hs]; exact ins_sorted _ hs
          simp only [hcap, if_true, decide_true]
          have e : k + j + 1 = k + (j + 1) := by omega
          rw [e]
          exact ih (j + 1) _ opts' buf' _ a2 hs' (by omega) (by omega)
            (fun i hi => by rw [f2 i (by omega), hfr i (by omega)]) (by omega)

theorem take_drop_toList {o : Options View} {k n : Nat} (h : k + n ≤ o.len) :
    (o.arr.drop k).take n = (o.toList.drop k).take n := by
  unfold Options.toList
  rw [List.drop_take, List.take_take]
  congr 1; omega

/-- `options.ResetOptionsTo(buf, options[k:k+n])` — the input aliasing the receiver's own array — behaves exactly like
`ResetOptionsTo` on a private copy of those options. -/
theorem resetOptionsToAliased_eq (g : Nat → Nat) (m : Mem) {o : Options View} (hwf : WF o) (buf : Slice) {k n : Nat}
    (h : k + n ≤ o.len) :
    Options.resetOptionsToAliased g m o buf k n = Options.resetOptionsTo g m o buf ((o.toList.drop k).take n) := by
  have hwf' : o.len ≤ o.arr.length := hwf
  unfold Options.resetOptionsToAliased Options.resetOptionsTo
  have c : ¬ (k + n > o.arr.length) := by omega
  simp only [c, if_false, CoapVerif.Generated.OptionListShape.resetChecksSizeBeforeOverwrite, if_true]
  unfold Options.resetOptionsToChecked
  rw [take_drop_toList h]
  by_cases hs : buf.len < Options.totalLen ((o.toList.drop k).take n)
  · simp only [hs, if_true]
  · simp only [hs, if_false, Options.reslice, Nat.zero_le, if_true, bind, Except.bind]
    have := resetLoopAliased_eq g o.arr k n 0 m ⟨o.arr, 0⟩ buf 0 (Nat.zero_le _) (by simp [Options.toList, Sorted]) rfl rfl
      (fun _ _ => rfl) (by omega)
    simp only [Nat.add_zero] at this
    rw [this, take_drop_toList h]

theorem resetLoop_err_none (g : Nat → Nat) : ∀ (inp : List (Opt View)) (m : Mem) (opts : Options View) (buf : Slice)
    (used : Nat) (res : Res), Options.resetLoop g inp m opts buf used = .ok res → res.err = none := by
  intro inp
  induction inp with
  | nil => intro m opts buf used res h; simp only [Options.resetLoop, pure, Except.pure, Except.ok.injEq] at h; rw [← h]
  | cons x rest ih =>
    intro m opts buf used res h
    unfold Options.resetLoop at h
    simp only [bind, Except.bind] at h
    cases hA : buf.head (m.copyTo buf (m.read x.2)) x.2.len with
    | error e => rw [hA] at h; cases h
    | ok v =>
      rw [hA] at h; simp only at h
      cases hB : opts.add g (x.1, v) with
      | error e => rw [hB] at h; cases h
      | ok o' =>
        rw [hB] at h; simp only at h
        cases hC : buf.tail x.2.len with
        | error e => rw [hC] at h; cases h
        | ok b' => rw [hC] at h; exact ih _ _ _ _ _ h

/-- `retry` only ever calls the wrapped method on the message's own option header. -/
theorem retry_congr (gb : Nat → Nat → Nat) (r : Msg) {f f' : Mem → Options View → Slice → M Res}
    (h1 : ∀ m b, f m r.opts b = f' m r.opts b)
    (h2 : ∀ m b res, f' m r.opts b = .ok res → res.err = some Err.tooSmall → res.opts = r.opts) :
    r.retry gb f = r.retry gb f' := by
  unfold Msg.retry
  rw [h1]
  cases hf : f' r.mem r.opts r.vb with
  | error e => rfl
  | ok res =>
    simp only [bind, Except.bind]
    cases he : res.err with
    | none => rfl
    | some e =>
      cases e with
      | tooSmall =>
        simp only []
        rw [h2 _ _ _ hf he, h1]
      | notFound => rfl
      | invalidLen => rfl

/-- `r.ResetOptionsTo(r.Options()[k:k+n])` on a pooled message = resetting it to a private copy of those options. -/
theorem resetOptionsToOwnSlice_eq (g : Nat → Nat) (gb : Nat → Nat → Nat) {r : Msg} (hwf : WF r.opts) {k n : Nat}
    (h : k + n ≤ r.opts.len) :
    r.resetOptionsToOwnSlice g gb k n = r.resetOptionsTo g gb ((r.opts.toList.drop k).take n) := by
  unfold Msg.resetOptionsToOwnSlice Msg.resetOptionsTo
  apply retry_congr
  · intro m b; exact resetOptionsToAliased_eq g m hwf b h
  · intro m b res hr he
    unfold Options.resetOptionsTo at hr
    simp only [CoapVerif.Generated.OptionListShape.resetChecksSizeBeforeOverwrite, if_true] at hr
    unfold Options.resetOptionsToChecked at hr
    by_cases hs : b.len < Options.totalLen ((r.opts.toList.drop k).take n)
    · simp only [hs, if_true, pure, Except.pure, Except.ok.injEq] at hr; rw [← hr]
    · simp only [hs, if_false, Options.reslice, Nat.zero_le, if_true, bind, Except.bind] at hr
      have := resetLoop_err_none g _ _ _ _ _ _ hr
      rw [this] at he; cases he

/-! ### `Options.Clone` -/

/-- every option the copy loop of `ResetOptionsTo` leaves in the list was there before or is a slice of `buf` -/
theorem resetLoop_views (g : Nat → Nat) :
    ∀ (inp : List (Opt View)) (m : Mem) (opts : Options View) (buf : Slice) (used : Nat) (res : Res),
      WF opts → Sorted opts.toList → Options.resetLoop g inp m opts buf used = .ok res →
      ∀ x ∈ res.opts.toList, x ∈ opts.toList ∨ x.2.bid = buf.bid := by
  intro inp
  induction inp with
  | nil =>
    intro m opts buf used res _ _ h x hx
    simp only [Options.resetLoop, pure, Except.pure, Except.ok.injEq] at h
    subst h; exact Or.inl hx
  | cons y rest ih =>
    intro m opts buf used res hwf hs h x hx
    unfold Options.resetLoop at h
    simp only [bind, Except.bind] at h
    cases hh : buf.head (m.copyTo buf (m.read y.2)) y.2.len with
    | error e => rw [hh] at h; cases h
    | ok v =>
      rw [hh] at h
      simp only at h
      have hv : v.bid = buf.bid := by
        unfold Slice.head at hh
        split at hh
        · injection hh with hh; subst hh; rfl
        · cases hh
      obtain ⟨o1, a1, a2, _, a4⟩ := add_spec g hwf hs (y.1, v)
      rw [a1] at h
      simp only at h
      cases ht : buf.tail y.2.len with
      | error e => rw [ht] at h; cases h
      | ok buf' =>
        rw [ht] at h
        simp only at h
        have hb : buf'.bid = buf.bid := by
          unfold Slice.tail at ht
          split at ht
          · injection ht with ht; subst ht; rfl
          · cases ht
        have hs1 : Sorted o1.toList := by rw [a4, ← ins_eq _ hs]; exact ins_sorted _ hs
        rcases ih _ o1 buf' _ res a2 hs1 h x hx with h1 | h1
        · rw [a4, ← ins_eq _ hs] at h1
          rcases mem_ins h1 with h2 | h2
          · right; rw [h2]; exact hv
          · exact Or.inl h2
        · right; rw [h1, hb]

/-- `Clone()`: never fails for values that lie inside their buffers; the clone reads as the original, its values
live in buffers allocated by the call, and nothing the original stores is touched (also when the 64-byte scratch
buffer is too small and a larger one is taken). -/
theorem clone_spec (g : Nat → Nat) {m : Mem} {o : Options View} (hwf : WF o) (hs : Sorted o.toList)
    (hin : ∀ x ∈ o.toList, InB m x.2) :
    ∃ m' c, Options.clone g m o = .ok (m', c, none) ∧ WF c ∧ Sorted c.toList ∧ items m' c = items m o ∧
      (∀ v, InB m v → m'.read v = m.read v ∧ InB m' v) ∧
      (∀ x ∈ c.toList, InB m' x.2 ∧ m.length ≤ x.2.bid) ∧ m.length ≤ m'.length := by
  have hC := contract_reset g o.toList
  unfold Options.clone
  simp only [Mem.alloc]
  have hwf0 : WF (Options.make o.len : Options View) := by unfold WF Options.make; simp
  have hs0 : Sorted (Options.make o.len : Options View).toList := by simp [Options.make, Options.toList, Sorted]
  have ht0 : (Options.make o.len : Options View).toList = [] := by simp [Options.make, Options.toList]
  have hitems0 : ∀ mm, items mm (Options.make o.len : Options View) = [] := by
    intro mm; simp [items, ht0, mapVal]
  have hspec : ∀ mm : Mem, (∀ x ∈ o.toList, mm.read x.2 = m.read x.2) →
      resetTo (o.toList.map (fun x => (x.1, mm.read x.2))) = items m o := by
    intro mm h
    have : o.toList.map (fun x => (x.1, mm.read x.2)) = items m o := by
      unfold items mapVal
      apply List.map_congr_left
      intro x hx; rw [h x hx]
    rw [this]
    exact resetTo_of_sorted ((mapVal_sorted _).mpr hs)
  have bid_lt : ∀ v, InB m v → v.len ≠ 0 → v.bid < m.length := by
    intro v hi c0; apply size_pos_lt; unfold InB at hi; omega
  have read_ext : ∀ (extra : Mem) v, InB m v → (m ++ extra).read v = m.read v ∧ InB (m ++ extra) v := by
    intro extra v hi
    have hk := keeps_append ⟨v.bid + 1, 0, 0⟩ extra (m := m)
    have := hk.views v hi (Or.inr (Or.inl (by simp)))
    exact ⟨this.1, this.2.1⟩
  -- the result of a successful `ResetOptionsTo` into a fresh buffer `buf` of a heap `mm` that extends `m`
  have finish : ∀ (mm : Mem) (buf : Slice) (res : Res), m.length ≤ buf.bid → m.length ≤ mm.length →
      (∀ v, InB m v → mm.read v = m.read v ∧ InB mm v) →
      Options.resetOptionsTo g mm (Options.make o.len) buf o.toList = .ok res → res.err = none →
      Post mm buf res.mem res.opts (Options.totalLen o.toList) →
      items res.mem res.opts = resetTo (o.toList.map (fun x => (x.1, mm.read x.2))) →
      WF res.opts ∧ Sorted res.opts.toList ∧ items res.mem res.opts = items m o ∧
        (∀ v, InB m v → res.mem.read v = m.read v ∧ InB res.mem v) ∧
        (∀ x ∈ res.opts.toList, InB res.mem x.2 ∧ m.length ≤ x.2.bid) ∧ m.length ≤ res.mem.length := by
    intro mm buf res hb hml hmm hcall herr hp hi
    refine ⟨hp.wf, hp.sorted, ?_, ?_, ?_, by rw [hp.length]; exact hml⟩
    · rw [hi]; exact hspec mm (fun x hx => (hmm x.2 (hin x hx)).1)
    · intro v hv
      obtain ⟨a, b⟩ := hmm v hv
      by_cases c0 : v.len = 0
      · exact ⟨by rw [read_zero_len _ _ c0, read_zero_len _ _ c0], Or.inl c0⟩
      · have := bid_lt v hv c0
        refine ⟨by rw [hp.stable v (Or.inr (Or.inl (by omega))), a], ?_⟩
        unfold InB at *; rw [hp.size]; exact b
    · intro x hx
      refine ⟨(hp.live x hx).1, ?_⟩
      unfold Options.resetOptionsTo at hcall
      simp only [CoapVerif.Generated.OptionListShape.resetChecksSizeBeforeOverwrite, if_true] at hcall
      unfold Options.resetOptionsToChecked at hcall
      by_cases hsm : buf.len < Options.totalLen o.toList
      · simp only [hsm, if_true, pure, Except.pure, Except.ok.injEq] at hcall
        subst hcall; cases herr
      · simp only [hsm, if_false, Options.reslice, Nat.zero_le, if_true, bind, Except.bind] at hcall
        have := resetLoop_views g o.toList mm ⟨(Options.make o.len : Options View).arr, 0⟩ buf 0 res
          (Nat.zero_le _) (by simp [Options.toList, Sorted]) hcall x hx
        rcases this with h | h
        · simp [Options.toList] at h
        · omega
  let m1 : Mem := m ++ [List.replicate 64 (0 : UInt8)]
  let buf1 : Slice := ⟨m.length, 0, 64⟩
  have hin1 : SliceIn m1 buf1 := by
    show 0 + 64 ≤ m1.size m.length
    rw [size_append_new]; simp
  have hl1 : Live m1 buf1 (Options.make o.len : Options View) := by intro x hx; rw [ht0] at hx; cases hx
  have hmm1 : ∀ v, InB m v → m1.read v = m.read v ∧ InB m1 v := fun v hv => read_ext _ v hv
  by_cases hsmall : 64 < Options.totalLen o.toList
  · -- the values do not fit 64 bytes: a buffer of exactly the needed size is taken
    have h1 := hC.small m1 (Options.make o.len) buf1 hsmall
    simp only [m1, buf1] at h1
    simp only [h1, bind, Except.bind, Int.toNat_natCast]
    let m2 : Mem := m1 ++ [List.replicate (Options.totalLen o.toList) (0 : UInt8)]
    let buf2 : Slice := ⟨m1.length, 0, Options.totalLen o.toList⟩
    have hsz2 : m2.size m1.length = Options.totalLen o.toList := by rw [size_append_new]; simp
    let data := (m2.read ⟨m.length, 0, 64⟩).take (Options.totalLen o.toList)
    have hdl : data.length ≤ Options.totalLen o.toList := by simp [data, List.length_take]; omega
    have hwin : 0 + data.length ≤ m2.size m1.length := by rw [hsz2]; omega
    let m3 : Mem := m2.write m1.length 0 data
    have hin3 : SliceIn m3 buf2 := by
      show 0 + Options.totalLen o.toList ≤ m3.size m1.length
      rw [size_write hwin, hsz2]; omega
    have e2 : m2 = m ++ [List.replicate 64 (0 : UInt8), List.replicate (Options.totalLen o.toList) (0 : UInt8)] := by
      simp [m2, m1]
    have hlen1 : m1.length = m.length + 1 := by simp [m1]
    have read3 : ∀ v, InB m v → m3.read v = m.read v ∧ InB m3 v := by
      intro v hi
      obtain ⟨r1, r2⟩ := read_ext [List.replicate 64 (0 : UInt8), List.replicate (Options.totalLen o.toList) (0 : UInt8)] v hi
      rw [← e2] at r1 r2
      by_cases c0 : v.len = 0
      · exact ⟨by rw [read_zero_len _ _ c0, read_zero_len _ _ c0], Or.inl c0⟩
      · have hlt := bid_lt v hi c0
        refine ⟨?_, ?_⟩
        · rw [← r1]; exact read_write_disj hwin v (Or.inl (by omega))
        · unfold InB at *; rw [size_write hwin]; exact r2
    have hl3 : Live m3 buf2 (Options.make o.len : Options View) := by intro x hx; rw [ht0] at hx; cases hx
    have hext3 : ∀ v ∈ o.toList.map (·.2), InB m3 v ∧ Below buf2.bid buf2.off v := by
      intro v hv
      obtain ⟨x, hx, rfl⟩ := List.mem_map.mp hv
      refine ⟨(read3 x.2 (hin x hx)).2, ?_⟩
      by_cases c0 : x.2.len = 0
      · exact Or.inl c0
      · have hlt := bid_lt x.2 (hin x hx) c0
        exact Or.inr (Or.inl (by show x.2.bid ≠ m1.length; omega))
    obtain ⟨m4, c, k1, k2, k3⟩ := hC.ok rfl m3 (Options.make o.len) buf2 (by show ¬ (Options.totalLen o.toList < _); omega)
      hwf0 hs0 hin3 hl3 hext3
    have hm3 : (m1 ++ [List.replicate (Options.totalLen o.toList) (0 : UInt8)]).copyTo ⟨m1.length, 0, Options.totalLen o.toList⟩
        (m1.read ⟨m.length, 0, 64⟩) = m3 := by
      unfold Mem.copyTo
      simp only [m3, data, m2]
      congr 2
      exact (read_append _ _ (Or.inr (by simp [m1]))).symm
    simp only [m1] at hm3
    rw [hm3, k1]
    obtain ⟨f1, f2, f3, f4, f5, f6⟩ := finish m3 buf2 _ (by show m.length ≤ m1.length; omega)
      (by show m.length ≤ (m2.write m1.length 0 data).length; rw [length_write, e2]; simp) read3 k1 rfl k2 k3
    exact ⟨m4, c, rfl, f1, f2, f3, f4, f5, f6⟩
  · -- the values fit the 64-byte scratch buffer
    have hext1 : ∀ v ∈ o.toList.map (·.2), InB m1 v ∧ Below buf1.bid buf1.off v := by
      intro v hv
      obtain ⟨x, hx, rfl⟩ := List.mem_map.mp hv
      refine ⟨(hmm1 x.2 (hin x hx)).2, ?_⟩
      by_cases c0 : x.2.len = 0
      · exact Or.inl c0
      · have hlt := bid_lt x.2 (hin x hx) c0
        exact Or.inr (Or.inl (by show x.2.bid ≠ m.length; omega))
    obtain ⟨m4, c, k1, k2, k3⟩ := hC.ok rfl m1 (Options.make o.len) buf1 (by show ¬ (64 < _); exact hsmall)
      hwf0 hs0 hin1 hl1 hext1
    simp only [m1, buf1] at k1
    simp only [k1, bind, Except.bind, pure, Except.pure]
    obtain ⟨f1, f2, f3, f4, f5, f6⟩ := finish m1 buf1 _ (Nat.le_refl _) (by simp [m1]) hmm1 k1 rfl k2 k3
    exact ⟨m4, c, rfl, f1, f2, f3, f4, f5, f6⟩

end CoapVerif.Lemmas.PoolOptionsModel
