import CoapVerif.Model.PoolRetry
import CoapVerif.Lemmas.CoderDecode
/-!
The option capacity only decides *whether* a decoder reports `ErrOptionsTooSmall`, never what it
returns otherwise (`*_cap_indep`); hence the pooled retry loop returns what the decoder returns
with any sufficient capacity (`decodeRetry_spec`).
-/
set_option linter.unusedVariables false
namespace CoapVerif.Lemmas.PoolRetry
open CoapVerif.Generated.Codec CoapVerif.Generated.OptionDefs
open CoapVerif.Spec.Wire (Bytes Opt Msg)
open CoapVerif.Model CoapVerif.Model.OptionCodec CoapVerif.Model.PoolMessage
open CoapVerif.Lemmas.OptionCodec CoapVerif.Lemmas.CoderDecode

theorem decLoop_cap_indep (defs : Defs) (c1 n1 c2 n2 prev : Nat) (bs : Bytes)
    (h1 : decLoop defs c1 n1 prev bs ≠ .error .optCap) (h2 : decLoop defs c2 n2 prev bs ≠ .error .optCap) :
    decLoop defs c1 n1 prev bs = decLoop defs c2 n2 prev bs := by
  induction hl : bs.length using Nat.strongRecOn generalizing n1 n2 prev bs with
  | _ len ih =>
    subst hl
    rw [decLoop.eq_def] at h1 h2 ⊢
    rw [decLoop.eq_def defs c2]
    cases bs with
    | nil => rfl
    | cons b t =>
      simp only at h1 h2 ⊢
      by_cases hff : b = 0xff
      · simp [hff]
      · simp only [hff, ↓reduceIte] at h1 h2 ⊢
        by_cases hm : b.toNat / 16 = 15 ∨ b.toNat % 16 = 15
        · simp [hm]
        · simp only [hm, ↓reduceIte] at h1 h2 ⊢
          revert h1 h2
          cases hd : decExt (b.toNat / 16) t with
          | error e => intro _ _; rfl
          | ok r1 =>
            obtain ⟨delta, t1⟩ := r1
            simp only []
            cases hl2 : decExt (b.toNat % 16) t1 with
            | error e => intro _ _; rfl
            | ok r2 =>
              obtain ⟨len', t2⟩ := r2
              simp only []
              intro h1 h2
              by_cases hlen : t2.length < len'
              · simp [hlen]
              · simp only [hlen, ↓reduceIte] at h1 h2 ⊢
                by_cases hov : prev + delta > 65535
                · simp [hov]
                · simp only [hov, ↓reduceIte] at h1 h2 ⊢
                  have hc1 : ¬ c1 = n1 := by intro h; simp [h] at h1
                  have hc2 : ¬ c2 = n2 := by intro h; simp [h] at h2
                  simp only [hc1, hc2, ↓reduceIte] at h1 h2 ⊢
                  have l1 := decExt_len hd
                  have l2 := decExt_len hl2
                  have hlt : (t2.drop len').length < (b :: t).length := by simp; omega
                  have hrec := ih _ hlt
                    (if (keepOpt defs (prev + delta) (List.take len' t2)).isSome = true then n1 + 1 else n1)
                    (if (keepOpt defs (prev + delta) (List.take len' t2)).isSome = true then n2 + 1 else n2)
                    (prev + delta) (t2.drop len')
                    (by intro h; rw [h] at h1; simp at h1)
                    (by intro h; rw [h] at h2; simp at h2) rfl
                  rw [hrec]

theorem udpDec_cap_indep (c1 c2 : Nat) (bs : Bytes)
    (h1 : udpDec c1 bs ≠ .error .optCap) (h2 : udpDec c2 bs ≠ .error .optCap) : udpDec c1 bs = udpDec c2 bs := by
  unfold udpDec at h1 h2 ⊢
  split
  · rename_i b0 b1 b2 b3 rest
    simp only at h1 h2
    split
    · rfl
    · rename_i hv
      simp only [hv, ↓reduceIte] at h1 h2
      split
      · rfl
      · rename_i ht
        simp only [ht, ↓reduceIte] at h1 h2
        split
        · rfl
        · rename_i hr
          simp only [hr, ↓reduceIte] at h1 h2
          have := decLoop_cap_indep coapOptionDefs c1 0 c2 0 0 (rest.drop (b0.toNat % 16))
            (by intro h; rw [h] at h1; simp at h1) (by intro h; rw [h] at h2; simp at h2)
          rw [this]
  · rfl

theorem tcpDec_cap_indep (c1 c2 : Nat) (bs : Bytes)
    (h1 : tcpDec c1 bs ≠ .error .optCap) (h2 : tcpDec c2 bs ≠ .error .optCap) : tcpDec c1 bs = tcpDec c2 bs := by
  unfold tcpDec at h1 h2 ⊢
  cases hh : tcpHdr bs with
  | error e => rfl
  | ok h =>
    simp only [hh] at h1 h2 ⊢
    split
    · rfl
    · rename_i hs
      simp only [hs, ↓reduceIte] at h1 h2
      have := decLoop_cap_indep (TcpCoder.defsFor h.code) c1 0 c2 0 0 ((bs.take h.messageLength).drop h.length)
        (by intro h'; rw [h'] at h1; simp at h1) (by intro h'; rw [h'] at h2; simp at h2)
      rw [this]

theorem decode_cap_indep (c : Coder) (c1 c2 : Nat) (bs : Bytes)
    (h1 : c.decode c1 bs ≠ .error .optCap) (h2 : c.decode c2 bs ≠ .error .optCap) : c.decode c1 bs = c.decode c2 bs := by
  cases c with
  | udp =>
    simp only [Coder.decode, udp_decode_eq] at h1 h2 ⊢
    exact udpDec_cap_indep c1 c2 bs h1 h2
  | tcp =>
    simp only [Coder.decode, tcp_decode_eq] at h1 h2 ⊢
    exact tcpDec_cap_indep c1 c2 bs h1 h2

/-- With at least as many slots as input bytes a decoder never reports the capacity error. -/
theorem decode_big_cap (c : Coder) (cap : Nat) (bs : Bytes) (h : bs.length ≤ cap) : c.decode cap bs ≠ .error .optCap := by
  intro he
  have := decode_optCap_lt he
  omega

/-- The retry loop ends with the result of the decoder at some capacity ≥ the initial one, and that
result is not the capacity error. -/
theorem decodeRetry_spec (c : Coder) (cap : Nat) (data : Bytes) :
    ∃ cap', cap ≤ cap' ∧ decodeRetry c cap data = (c.decode cap' data, cap') ∧ c.decode cap' data ≠ .error .optCap := by
  induction hm : data.length - cap using Nat.strongRecOn generalizing cap with
  | _ k ih =>
    rw [decodeRetry.eq_def]
    split
    · rename_i h
      have h1 := decode_optCap_lt h
      have h2 := newCap_gt cap
      obtain ⟨cap', hle, heq, hne⟩ := ih (data.length - newCap cap) (by omega) (newCap cap) rfl
      exact ⟨cap', by omega, heq, hne⟩
    · rename_i hr
      refine ⟨cap, Nat.le_refl _, rfl, ?_⟩
      intro h
      exact hr h

/-- The pooled decode returns what the decoder returns with any sufficient capacity. -/
theorem decodeRetry_eq_big (c : Coder) (cap big : Nat) (data : Bytes) (hb : data.length ≤ big) :
    (decodeRetry c cap data).1 = c.decode big data := by
  obtain ⟨cap', _, heq, hne⟩ := decodeRetry_spec c cap data
  rw [heq]
  exact decode_cap_indep c cap' big data hne (decode_big_cap c big data hb)

/-- The executable twin with enough fuel is the well-founded loop. -/
theorem decodeRetryN_eq (c : Coder) (fuel cap : Nat) (data : Bytes) (hf : data.length - cap < fuel) :
    decodeRetryN c fuel cap data = decodeRetry c cap data := by
  induction fuel generalizing cap with
  | zero => omega
  | succ fuel ih =>
    rw [decodeRetryN, decodeRetry.eq_def]
    split
    · rename_i h
      have h1 := decode_optCap_lt h
      have h2 := newCap_gt cap
      have h3 : ¬ (newCap cap ≤ cap) := by omega
      simp only [h3, ↓reduceIte]
      rw [ih (newCap cap) (by omega)]
      split
      · rfl
      · rename_i hne; exact absurd h hne
    · rename_i hne
      split
      · rename_i h; exact absurd h hne
      · rfl

theorem unmarshalWithDecoderN_eq (c : Coder) (r : PoolMsg) (data : Bytes) :
    unmarshalWithDecoderN c r data = unmarshalWithDecoder c r data := by
  unfold unmarshalWithDecoderN unmarshalWithDecoder
  simp only [bind, Except.bind]
  cases sliceTo (goCopy (if r.bufferUnmarshal.length < data.length then
      grow r.bufferUnmarshal (data.length - r.bufferUnmarshal.length) else r.bufferUnmarshal) data) data.length with
  | error e => rfl
  | ok bu =>
    simp only []
    rw [decodeRetryN_eq c (bu.length + 1) r.optCap bu (by omega)]
    rfl

end CoapVerif.Lemmas.PoolRetry
