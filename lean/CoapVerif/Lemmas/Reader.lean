import CoapVerif.Model.Reader
/-! Invariants of the reader model (`Model/Reader.lean`), used by `Props/C11.lean`. -/
namespace CoapVerif.Lemmas.Reader
open CoapVerif.Model.Reader

/-- the part of the state that tells where every accepted message is -/
structure QView where
  accepted : List Msg
  started : List Msg
  queue : List Msg
  hand : Option Msg
  lost : List Msg
  inbox : List Msg
  closed : Bool
  deriving DecidableEq

def qview (s : State) : QView := ⟨s.accepted, s.started, s.queue, s.hand, s.lost, s.inbox, s.closed⟩

theorem setLoop_qview (s : State) (l : Nat) (lp : Loop) : qview (setLoop s l lp) = qview s := rfl

theorem tryReplace_qview (s : State) : qview (tryReplace s) = qview s := by
  unfold tryReplace
  split
  · split <;> rfl
  · rfl

/-- no action of a handler touches the queue discipline -/
theorem doAct_qview (s : State) (l : Nat) (lp : Loop) (act : Act) (rest : List Act) (s' : State)
    (h : doAct s l lp act rest = some s') : qview s' = qview s := by
  cases act with
  | replace => simp only [doAct, Option.some.injEq] at h; subst h; rw [tryReplace_qview]; rfl
  | startCall k dur => simp only [doAct, Option.some.injEq] at h; subst h; rfl
  | acquire key limit =>
    simp only [doAct] at h
    split at h
    · cases h; rfl
    · split at h
      · cases h; rfl
      · split at h
        · cases h; rfl
        · split at h
          · cases h; rfl
          · cases h
  | send k => simp only [doAct, Option.some.injEq] at h; subst h; rfl
  | wait c onClose =>
    simp only [doAct] at h
    split at h
    · cases h; rfl
    · split at h
      · cases h; rfl
      · split at h
        · cases h; rfl
        · cases h
  | endCall k => simp only [doAct, Option.some.injEq] at h; subst h; rfl
  | release key => simp only [doAct, Option.some.injEq] at h; subst h; rfl

/-- (Q) every accepted message is in exactly one stage, and the stages are in arrival order -/
structure InvQ (s : State) : Prop where
  fifo : s.accepted = s.started ++ s.queue ++ s.hand.toList ++ s.lost
  lostClosed : s.lost ≠ [] → s.closed = true ∧ s.hand = none
  wire : (s.accepted ++ s.inbox).Nodup

theorem dispatch_qview (s : State) (m : Msg) : qview (dispatch s m) = qview s := by
  unfold dispatch
  split <;> (try split) <;> rfl

theorem inlinePart_qview (s : State) (m : Msg) : qview (inlinePart s m) = qview s := by
  unfold inlinePart
  split <;> (try split) <;> rfl

theorem invQ_of_qview (s s' : State) (h : qview s' = qview s) (inv : InvQ s) : InvQ s' := by
  have e : s'.accepted = s.accepted ∧ s'.started = s.started ∧ s'.queue = s.queue ∧ s'.hand = s.hand ∧ s'.lost = s.lost ∧
      s'.inbox = s.inbox ∧ s'.closed = s.closed := by
    simp only [qview, QView.mk.injEq] at h; exact h
  obtain ⟨e1, e2, e3, e4, e5, e6, e7⟩ := e
  constructor
  · rw [e1, e2, e3, e4, e5]; exact inv.fifo
  · rw [e5, e7, e4]; exact inv.lostClosed
  · rw [e1, e6]; exact inv.wire

theorem nodup_move (a : List Msg) (m : Msg) (rest : List Msg) (h : (a ++ m :: rest).Nodup) : ((a ++ [m]) ++ rest).Nodup := by
  simpa [List.append_assoc] using h

theorem nodup_drop (a : List Msg) (m : Msg) (rest : List Msg) (h : (a ++ m :: rest).Nodup) : (a ++ rest).Nodup := by
  rw [List.nodup_append] at h ⊢
  obtain ⟨h1, h2, h3⟩ := h
  refine ⟨h1, (List.nodup_cons.mp h2).2, ?_⟩
  intro x hx y hy
  exact h3 x hx y (List.mem_cons_of_mem _ hy)

theorem invQ_step (s : State) (ev : Event) (inv : InvQ s) : InvQ (step s ev) := by
  cases ev with
  | feederRead =>
    rw [step]
    split
    · rename_i m rest hh hi
      dsimp only
      have hv := inlinePart_qview { s with inbox := rest } m
      generalize inlinePart { s with inbox := rest } m = s1 at hv ⊢
      have e : s1.accepted = s.accepted ∧ s1.started = s.started ∧ s1.queue = s.queue ∧ s1.hand = s.hand ∧
          s1.lost = s.lost ∧ s1.inbox = rest ∧ s1.closed = s.closed := by
        simp only [qview, QView.mk.injEq] at hv; exact hv
      obtain ⟨e1, e2, e3, e4, e5, e6, e7⟩ := e
      have wire := inv.wire
      rw [hi] at wire
      split
      · -- handled inline or discarded: it leaves the wire
        constructor
        · rw [e1, e2, e3, e4, e5]; exact inv.fifo
        · rw [e5, e7, e4]; exact inv.lostClosed
        · rw [e1, e6]; exact nodup_drop _ m rest wire
      · rename_i hc
        have hclosed : s.closed = false := by
          cases hcl : s.closed
          · rfl
          · exfalso; apply hc; rw [e7, hcl]; simp
        have hlost : s.lost = [] := by
          cases hl : s.lost with
          | nil => rfl
          | cons x xs =>
            have := (inv.lostClosed (by rw [hl]; simp)).1
            rw [hclosed] at this; cases this
        constructor
        · dsimp only
          rw [e1, e2, e3, e5, inv.fifo, hh, hlost]
          simp
        · dsimp only; rw [e5]; intro hne; exact absurd hlost hne
        · dsimp only
          rw [e1, e6]; exact nodup_move _ m rest wire
    · exact inv
  | feederPush =>
    rw [step]
    split
    · rename_i m hh
      split
      · rename_i hc
        have hlost : s.lost = [] := by
          cases hl : s.lost with
          | nil => rfl
          | cons x xs =>
            have := (inv.lostClosed (by rw [hl]; simp)).2
            rw [hh] at this; cases this
        constructor
        · dsimp only
          rw [inv.fifo, hh, hlost]; simp
        · intro _; exact ⟨hc, rfl⟩
        · exact inv.wire
      · rename_i hc
        split
        · have hlost : s.lost = [] := by
            cases hl : s.lost with
            | nil => rfl
            | cons x xs =>
              have := (inv.lostClosed (by rw [hl]; simp)).1
              exact absurd this hc
          constructor
          · dsimp only
            rw [inv.fifo, hh, hlost]; simp
          · dsimp only; intro hne; exact absurd hlost hne
          · exact inv.wire
        · exact inv
    · exact inv
  | loopTake l =>
    rw [step]
    split
    · rename_i lp hl
      split
      · dsimp only
        split
        · rename_i m q hq
          apply invQ_of_qview (dispatch { s with queue := q, started := s.started ++ [m], log := s.log ++ [.start m.id] } m)
          · rfl
          · apply invQ_of_qview { s with queue := q, started := s.started ++ [m], log := s.log ++ [.start m.id] } _ (dispatch_qview _ m)
            constructor
            · dsimp only; rw [inv.fifo, hq]; simp
            · exact inv.lostClosed
            · exact inv.wire
        · rename_i hq
          split
          · rename_i m hh
            apply invQ_of_qview (dispatch { s with hand := none, started := s.started ++ [m], log := s.log ++ [.start m.id] } m)
            · rfl
            · apply invQ_of_qview { s with hand := none, started := s.started ++ [m], log := s.log ++ [.start m.id] } _ (dispatch_qview _ m)
              constructor
              · dsimp only; rw [inv.fifo, hq, hh]; simp
              · intro hne; exact ⟨(inv.lostClosed hne).1, rfl⟩
              · exact inv.wire
          · exact inv
      · exact inv
    · exact inv
  | loopExit l =>
    rw [step]
    split
    · split
      · exact invQ_of_qview s _ rfl inv
      · exact inv
    · exact inv
  | handlerStep l =>
    rw [step]
    split
    · rename_i lp hl
      split
      · split
        · split
          · exact invQ_of_qview s _ rfl inv
          · exact invQ_of_qview s _ rfl inv
        · rename_i act rest hp
          split
          · rename_i s' hs'
            exact invQ_of_qview s s' (doAct_qview s l lp act rest s' hs') inv
          · exact inv
      · exact inv
    · exact inv
  | tick dt => rw [step]; exact invQ_of_qview s _ rfl inv
  | close =>
    rw [step]
    constructor
    · exact inv.fifo
    · intro hne; exact ⟨rfl, (inv.lostClosed hne).2⟩
    · exact inv.wire

theorem invQ_init (cap : Nat) (udp : Bool) (inbox : List Msg) (hnd : inbox.Nodup) : InvQ (init cap udp inbox) := by
  constructor
  · simp [init]
  · intro h; simp [init] at h
  · simpa [init] using hnd

theorem invQ_run (s : State) (evs : List Event) (inv : InvQ s) : InvQ (run s evs) := by
  unfold run
  induction evs generalizing s with
  | nil => exact inv
  | cons e es ih => exact ih _ (invQ_step s e inv)

/-! ### The current loop -/

/-- fields of a loop record that the replacement protocol looks at -/
def CoreEq (lp lp' : Loop) : Prop := lp'.doneClosed = lp.doneClosed ∧ lp'.reading = lp.reading ∧ lp'.pc = lp.pc

/-- (C) exactly one loop — the current one — has an open `loopDone`; `readingMessages` is false exactly while a
    message is processed; loop identifiers are allocated in order -/
structure InvC (s : State) : Prop where
  cur : ∃ lp, s.loops s.current = some lp ∧ lp.doneClosed = false
  others : ∀ l lp, s.loops l = some lp → l ≠ s.current → lp.doneClosed = true
  fresh : ∀ l, l ≥ s.nloops → s.loops l = none
  lt : s.current < s.nloops
  flag : ∀ l lp, s.loops l = some lp → (lp.reading = false ↔ lp.pc = .running)

theorem invC_congr (s s' : State) (h1 : s'.loops = s.loops) (h2 : s'.current = s.current) (h3 : s'.nloops = s.nloops)
    (inv : InvC s) : InvC s' := by
  constructor
  · rw [h1, h2]; exact inv.cur
  · rw [h1, h2]; exact inv.others
  · rw [h1, h3]; exact inv.fresh
  · rw [h2, h3]; exact inv.lt
  · rw [h1]; exact inv.flag

theorem invC_setLoop (s : State) (l : Nat) (lp lp' : Loop) (hl : s.loops l = some lp)
    (hd : lp'.doneClosed = lp.doneClosed) (hf : lp'.reading = false ↔ lp'.pc = .running) (inv : InvC s) :
    InvC (setLoop s l lp') := by
  constructor
  · obtain ⟨c, hc1, hc2⟩ := inv.cur
    by_cases h : s.current = l
    · refine ⟨lp', by simp [setLoop, h], ?_⟩
      rw [hd]; rw [h, hl] at hc1; cases hc1; exact hc2
    · exact ⟨c, by simp [setLoop, h, hc1], hc2⟩
  · intro i li hi hne
    by_cases h : i = l
    · subst h; simp [setLoop] at hi; subst hi; rw [hd]; exact inv.others i lp hl hne
    · simp [setLoop, h] at hi; exact inv.others i li hi hne
  · intro i hi
    have hln : l < s.nloops := by
      cases Nat.lt_or_ge l s.nloops with
      | inl h => exact h
      | inr h => have := inv.fresh l h; rw [hl] at this; cases this
    have : i ≠ l := by intro e; subst e; exact absurd hln (Nat.not_lt.mpr hi)
    simp [setLoop, this]; exact inv.fresh i hi
  · exact inv.lt
  · intro i li hi
    by_cases h : i = l
    · subst h; simp [setLoop] at hi; subst hi; exact hf
    · simp [setLoop, h] at hi; exact inv.flag i li hi

theorem tryReplace_reading (s : State) (cur : Loop) (hcur : s.loops s.current = some cur) (hr : cur.reading = true) :
    tryReplace s = s := by
  unfold tryReplace; rw [hcur]; simp [hr]

theorem tryReplace_busy (s : State) (cur : Loop) (hcur : s.loops s.current = some cur) (hr : cur.reading = false) :
    (tryReplace s).loops = (fun i => if i = s.nloops then some idleLoop
        else if i = s.current then some { cur with doneClosed := true } else s.loops i) ∧
    (tryReplace s).current = s.nloops ∧ (tryReplace s).nloops = s.nloops + 1 ∧ qview (tryReplace s) = qview s := by
  unfold tryReplace; rw [hcur]; simp [hr, setLoop, qview]

theorem invC_tryReplace (s : State) (inv : InvC s) : InvC (tryReplace s) := by
  obtain ⟨cur, hcur, _⟩ := inv.cur
  cases hr : cur.reading
  · obtain ⟨e1, e2, e3, _⟩ := tryReplace_busy s cur hcur hr
    have hlt := inv.lt
    constructor
    · rw [e1, e2]; exact ⟨idleLoop, by simp, rfl⟩
    · intro i li hi hne'
      rw [e2] at hne'
      rw [e1] at hi
      simp only [hne', if_false] at hi
      by_cases h2 : i = s.current
      · simp only [h2, if_true] at hi; cases hi; rfl
      · simp only [h2, if_false] at hi; exact inv.others i li hi h2
    · intro i hi
      rw [e3] at hi
      rw [e1]
      have h1 : i ≠ s.nloops := by omega
      have h2 : i ≠ s.current := by omega
      simp only [h1, h2, if_false]; exact inv.fresh i (by omega)
    · rw [e2, e3]; omega
    · intro i li hi
      rw [e1] at hi
      by_cases h1 : i = s.nloops
      · simp only [h1, if_true] at hi; cases hi; simp [idleLoop]
      · simp only [h1, if_false] at hi
        by_cases h2 : i = s.current
        · simp only [h2, if_true] at hi; cases hi; exact inv.flag s.current cur hcur
        · simp only [h2, if_false] at hi; exact inv.flag i li hi
  · rw [tryReplace_reading s cur hcur hr]; exact inv

/-- a handler action keeps (C) -/
theorem doAct_invC (s : State) (l : Nat) (lp : Loop) (act : Act) (rest : List Act) (s' : State)
    (hl : s.loops l = some lp) (h : doAct s l lp act rest = some s') (inv : InvC s) : InvC s' := by
  have keep : ∀ (s0 : State) (lp' : Loop), s0.loops = s.loops → s0.current = s.current → s0.nloops = s.nloops →
      lp'.doneClosed = lp.doneClosed → lp'.reading = lp.reading → lp'.pc = lp.pc → InvC (setLoop s0 l lp') := by
    intro s0 lp' e1 e2 e3 d1 d2 d3
    apply invC_setLoop s0 l lp lp' (by rw [e1]; exact hl) d1 _ (invC_congr s s0 e1 e2 e3 inv)
    rw [d2, d3]; exact inv.flag l lp hl
  cases act with
  | replace =>
    simp only [doAct, Option.some.injEq] at h; subst h
    exact invC_tryReplace _ (keep s _ rfl rfl rfl rfl rfl rfl)
  | startCall k dur => simp only [doAct, Option.some.injEq] at h; subst h; exact keep s _ rfl rfl rfl rfl rfl rfl
  | acquire key limit =>
    simp only [doAct] at h
    split at h
    · cases h; exact keep s _ rfl rfl rfl rfl rfl rfl
    · split at h
      · cases h; exact invC_congr s _ rfl rfl rfl inv
      · split at h
        · cases h; exact keep _ _ rfl rfl rfl rfl rfl rfl
        · split at h
          · cases h; exact keep _ _ rfl rfl rfl rfl rfl rfl
          · cases h
  | send k => simp only [doAct, Option.some.injEq] at h; subst h; exact keep _ _ rfl rfl rfl rfl rfl rfl
  | wait c onClose =>
    simp only [doAct] at h
    split at h
    · cases h; exact keep s _ rfl rfl rfl rfl rfl rfl
    · split at h
      · cases h; exact keep s _ rfl rfl rfl rfl rfl rfl
      · split at h
        · cases h; exact keep s _ rfl rfl rfl rfl rfl rfl
        · cases h
  | endCall k => simp only [doAct, Option.some.injEq] at h; subst h; exact keep _ _ rfl rfl rfl rfl rfl rfl
  | release key => simp only [doAct, Option.some.injEq] at h; subst h; exact keep _ _ rfl rfl rfl rfl rfl rfl

theorem invC_step (s : State) (ev : Event) (inv : InvC s) : InvC (step s ev) := by
  cases ev with
  | feederRead =>
    rw [step]
    split
    · dsimp only
      have hv : ∀ (s0 : State) (m : Msg), (inlinePart s0 m).loops = s0.loops ∧ (inlinePart s0 m).current = s0.current ∧
          (inlinePart s0 m).nloops = s0.nloops := by
        intro s0 m; unfold inlinePart; split <;> (try split) <;> exact ⟨rfl, rfl, rfl⟩
      rename_i m rest _ _
      obtain ⟨a, b, c⟩ := hv { s with inbox := rest } m
      split
      · exact invC_congr s _ a b c inv
      · exact invC_congr s _ a b c inv
    · exact inv
  | feederPush =>
    rw [step]
    split
    · split
      · exact invC_congr s _ rfl rfl rfl inv
      · split
        · exact invC_congr s _ rfl rfl rfl inv
        · exact inv
    · exact inv
  | loopTake l =>
    rw [step]
    split
    · rename_i lp hl
      split
      · dsimp only
        have hd : ∀ (s0 : State) (m : Msg), (dispatch s0 m).loops = s0.loops ∧ (dispatch s0 m).current = s0.current ∧
            (dispatch s0 m).nloops = s0.nloops := by
          intro s0 m; unfold dispatch; split <;> (try split) <;> exact ⟨rfl, rfl, rfl⟩
        have take : ∀ (s0 : State) (m : Msg), s0.loops = s.loops → s0.current = s.current → s0.nloops = s.nloops →
            InvC (setLoop (dispatch s0 m) l { lp with reading := false, pc := .running, cur := some m, prog := progOf m.kind }) := by
          intro s0 m e1 e2 e3
          obtain ⟨a, b, c⟩ := hd s0 m
          apply invC_setLoop (dispatch s0 m) l lp { lp with reading := false, pc := .running, cur := some m, prog := progOf m.kind }
            (by rw [a, e1]; exact hl) rfl (by simp)
          exact invC_congr s _ (by rw [a, e1]) (by rw [b, e2]) (by rw [c, e3]) inv
        split
        · exact take _ _ rfl rfl rfl
        · split
          · exact take _ _ rfl rfl rfl
          · exact inv
      · exact inv
    · exact inv
  | loopExit l =>
    rw [step]
    split
    · rename_i lp hl
      split
      · rename_i hc
        have hpc : lp.pc = .atSelect := by
          simp only [Bool.and_eq_true, decide_eq_true_eq] at hc; exact hc.1
        have hr : lp.reading = true := by
          cases hrd : lp.reading
          · have := (inv.flag l lp hl).1 hrd; rw [hpc] at this; cases this
          · rfl
        apply invC_setLoop s l lp { lp with pc := .exited } hl rfl _ inv
        simp [hr]
      · exact inv
    · exact inv
  | handlerStep l =>
    rw [step]
    split
    · rename_i lp hl
      split
      · split
        · split
          · rename_i m _
            exact invC_setLoop { s with finished := s.finished ++ [m], log := s.log ++ [.finish m.id] } l lp
              { lp with reading := true, pc := .atSelect, cur := none } hl rfl (by simp) (invC_congr s _ rfl rfl rfl inv)
          · exact invC_setLoop s l lp { lp with reading := true, pc := .atSelect } hl rfl (by simp) inv
        · rename_i act rest hp
          split
          · rename_i s' hs'
            exact doAct_invC s l lp act rest s' hl hs' inv
          · exact inv
      · exact inv
    · exact inv
  | tick dt => rw [step]; exact invC_congr s _ rfl rfl rfl inv
  | close => rw [step]; exact invC_congr s _ rfl rfl rfl inv

theorem invC_init (cap : Nat) (udp : Bool) (inbox : List Msg) : InvC (init cap udp inbox) := by
  constructor
  · exact ⟨idleLoop, by simp [init], rfl⟩
  · intro l lp hl hne
    simp only [init] at hl hne
    split at hl
    · rename_i e; exact absurd e hne
    · cases hl
  · intro l hl
    simp only [init] at hl ⊢
    have : l ≠ 0 := by omega
    simp [this]
  · simp [init]
  · intro l lp hl
    simp only [init] at hl
    split at hl
    · cases hl; simp [idleLoop]
    · cases hl

theorem invC_run (s : State) (evs : List Event) (inv : InvC s) : InvC (run s evs) := by
  unfold run
  induction evs generalizing s with
  | nil => exact inv
  | cons e es ih => exact ih _ (invC_step s e inv)

/-! ### Handlers whose blocking waits are preceded by a replacement request -/

theorem skipToEnd_length (p : List Act) : (skipToEnd p).length ≤ p.length := by
  induction p with
  | nil => simp [skipToEnd]
  | cons a rest ih =>
    cases a <;> simp [skipToEnd] <;> omega

/-- what a non-`replace` action does to the loops -/
theorem doAct_cases (s : State) (l : Nat) (lp : Loop) (act : Act) (rest : List Act) (s' : State)
    (h : doAct s l lp act rest = some s') (hnr : act ≠ .replace) :
    s'.current = s.current ∧ s'.nloops = s.nloops ∧ s'.closed = s.closed ∧
    ((∃ lp', s'.loops = (fun i => if i = l then some lp' else s.loops i) ∧ lp'.pc = lp.pc ∧ lp'.cur = lp.cur ∧
        (lp'.prog = rest ∨ (lp'.prog = skipToEnd rest ∧ ((∃ c b, act = .wait c b) ∨ ∃ key n, act = .acquire key (n + 1))))) ∨
     (s'.loops = s.loops ∧ ∃ key n, act = .acquire key (n + 1))) := by
  cases act with
  | replace => exact absurd rfl hnr
  | startCall k dur =>
    simp only [doAct, Option.some.injEq] at h; subst h
    exact ⟨rfl, rfl, rfl, Or.inl ⟨_, rfl, rfl, rfl, Or.inl rfl⟩⟩
  | acquire key limit =>
    simp only [doAct] at h
    split at h
    · cases h; exact ⟨rfl, rfl, rfl, Or.inl ⟨_, rfl, rfl, rfl, Or.inl rfl⟩⟩
    · rename_i hl0
      obtain ⟨n, hn⟩ : ∃ n, limit = n + 1 := ⟨limit - 1, by omega⟩
      split at h
      · cases h; exact ⟨rfl, rfl, rfl, Or.inr ⟨rfl, key, n, by rw [hn]⟩⟩
      · split at h
        · cases h; exact ⟨rfl, rfl, rfl, Or.inl ⟨_, rfl, rfl, rfl, Or.inl rfl⟩⟩
        · split at h
          · cases h; exact ⟨rfl, rfl, rfl, Or.inl ⟨_, rfl, rfl, rfl, Or.inr ⟨rfl, Or.inr ⟨key, n, by rw [hn]⟩⟩⟩⟩
          · cases h
  | send k =>
    simp only [doAct, Option.some.injEq] at h; subst h
    exact ⟨rfl, rfl, rfl, Or.inl ⟨_, rfl, rfl, rfl, Or.inl rfl⟩⟩
  | wait c onClose =>
    simp only [doAct] at h
    split at h
    · cases h; exact ⟨rfl, rfl, rfl, Or.inl ⟨_, rfl, rfl, rfl, Or.inl rfl⟩⟩
    · split at h
      · cases h; exact ⟨rfl, rfl, rfl, Or.inl ⟨_, rfl, rfl, rfl, Or.inr ⟨rfl, Or.inl ⟨c, onClose, rfl⟩⟩⟩⟩
      · split at h
        · cases h; exact ⟨rfl, rfl, rfl, Or.inl ⟨_, rfl, rfl, rfl, Or.inr ⟨rfl, Or.inl ⟨c, onClose, rfl⟩⟩⟩⟩
        · cases h
  | endCall k =>
    simp only [doAct, Option.some.injEq] at h; subst h
    exact ⟨rfl, rfl, rfl, Or.inl ⟨_, rfl, rfl, rfl, Or.inl rfl⟩⟩
  | release key =>
    simp only [doAct, Option.some.injEq] at h; subst h
    exact ⟨rfl, rfl, rfl, Or.inl ⟨_, rfl, rfl, rfl, Or.inl rfl⟩⟩

/-- messages waiting to be taken, oldest first -/
def waiting (s : State) : List Msg := s.queue ++ s.hand.toList

/-- (W) every request still to be dispatched has a well-formed handler; the current loop, while it runs a handler, has
    not yet passed a blocking construct without asking for a replacement first; it has exited only if the connection
    is closed -/
structure InvW (s : State) : Prop where
  msgs : ∀ m ∈ s.inbox ++ waiting s, waitsPreceded (progOf m.kind) = true
  cur : ∀ lp, s.loops s.current = some lp → lp.pc = .running → waitsPreceded lp.prog = true
  alive : ∀ lp, s.loops s.current = some lp → lp.pc = .exited → s.closed = true

theorem waitsPreceded_tail (act : Act) (rest : List Act) (h : waitsPreceded (act :: rest) = true) (hnr : act ≠ .replace) :
    waitsPreceded rest = true ∧ (∀ c b, act ≠ .wait c b) ∧ (∀ key n, act ≠ .acquire key (n + 1)) := by
  cases act with
  | replace => exact absurd rfl hnr
  | startCall k d => exact ⟨by simpa [waitsPreceded] using h, (by intro c b e; cases e), (by intro k n e; cases e)⟩
  | acquire key limit =>
    cases limit with
    | zero => exact ⟨by simpa [waitsPreceded] using h, (by intro c b e; cases e), (by intro k n e; cases e)⟩
    | succ n => simp [waitsPreceded] at h
  | send k => exact ⟨by simpa [waitsPreceded] using h, (by intro c b e; cases e), (by intro k n e; cases e)⟩
  | wait c b => simp [waitsPreceded] at h
  | endCall k => exact ⟨by simpa [waitsPreceded] using h, (by intro c b e; cases e), (by intro k n e; cases e)⟩
  | release key => exact ⟨by simpa [waitsPreceded] using h, (by intro c b e; cases e), (by intro k n e; cases e)⟩

theorem invW_step (s : State) (ev : Event) (ic : InvC s) (inv : InvW s) : InvW (step s ev) := by
  obtain ⟨clp, hclp, hcd⟩ := ic.cur
  cases ev with
  | feederRead =>
    rw [step]
    split
    · rename_i m rest hh hi
      dsimp only
      have hv : ∀ (s0 : State), (inlinePart s0 m).loops = s0.loops ∧ (inlinePart s0 m).current = s0.current ∧
          (inlinePart s0 m).closed = s0.closed ∧ qview (inlinePart s0 m) = qview s0 := by
        intro s0; unfold inlinePart; split <;> (try split) <;> exact ⟨rfl, rfl, rfl, rfl⟩
      obtain ⟨a, b, c, d⟩ := hv { s with inbox := rest }
      generalize inlinePart { s with inbox := rest } m = s1 at a b c d ⊢
      have e : s1.queue = s.queue ∧ s1.hand = s.hand ∧ s1.inbox = rest := by
        simp only [qview, QView.mk.injEq] at d; exact ⟨d.2.2.1, d.2.2.2.1, d.2.2.2.2.2.1⟩
      obtain ⟨e3, e4, e6⟩ := e
      have hm : ∀ x, (x ∈ rest ∨ x ∈ s.queue ∨ x = m) → waitsPreceded (progOf x.kind) = true := by
        intro x hx
        apply inv.msgs x
        rw [hi]
        rcases hx with h | h | h
        · simp [h]
        · simp [waiting, h]
        · simp [h]
      split
      · constructor
        · intro x hx
          apply hm x
          have : x ∈ rest ∨ x ∈ s.queue := by
            simpa [waiting, e3, e4, e6, hh, List.mem_append] using hx
          rcases this with h | h
          · exact Or.inl h
          · exact Or.inr (Or.inl h)
        · rw [a, b]; exact inv.cur
        · rw [a, b, c]; exact inv.alive
      · constructor
        · intro x hx
          apply hm x
          have : x ∈ rest ∨ x ∈ s.queue ∨ x = m := by
            simpa [waiting, e3, e6, List.mem_append] using hx
          exact this
        · dsimp only; rw [a, b]; exact inv.cur
        · dsimp only; rw [a, b, c]; exact inv.alive
    · exact inv
  | feederPush =>
    rw [step]
    split
    · rename_i m hh
      split
      · constructor
        · intro x hx
          apply inv.msgs x
          simp only [waiting, Option.toList, List.append_nil, List.mem_append] at hx ⊢
          rcases hx with h | h
          · exact Or.inl h
          · exact Or.inr (Or.inl h)
        · exact inv.cur
        · exact inv.alive
      · split
        · constructor
          · intro x hx
            apply inv.msgs x
            simp only [waiting, hh, Option.toList, List.append_nil, List.mem_append, List.mem_singleton] at hx ⊢
            rcases hx with h | h | h
            · exact Or.inl h
            · exact Or.inr (Or.inl h)
            · exact Or.inr (Or.inr h)
          · exact inv.cur
          · exact inv.alive
        · exact inv
    · exact inv
  | loopTake l =>
    rw [step]
    split
    · rename_i lp hl
      split
      · rename_i hpc
        dsimp only
        have hd : ∀ (s0 : State) (m : Msg), (dispatch s0 m).loops = s0.loops ∧ (dispatch s0 m).current = s0.current ∧
            (dispatch s0 m).closed = s0.closed ∧ qview (dispatch s0 m) = qview s0 := by
          intro s0 m; unfold dispatch; split <;> (try split) <;> exact ⟨rfl, rfl, rfl, rfl⟩
        have take : ∀ (s0 : State) (m : Msg), s0.loops = s.loops → s0.current = s.current → s0.closed = s.closed →
            s0.inbox = s.inbox → (∀ x ∈ waiting s0, x ∈ waiting s) → m ∈ waiting s →
            InvW (setLoop (dispatch s0 m) l { lp with reading := false, pc := .running, cur := some m, prog := progOf m.kind }) := by
          intro s0 m e1 e2 e3 e4 e5 hm
          obtain ⟨a, b, c, d⟩ := hd s0 m
          have dq : (dispatch s0 m).queue = s0.queue ∧ (dispatch s0 m).hand = s0.hand ∧ (dispatch s0 m).inbox = s0.inbox := by
            simp only [qview, QView.mk.injEq] at d; exact ⟨d.2.2.1, d.2.2.2.1, d.2.2.2.2.2.1⟩
          constructor
          · intro x hx
            apply inv.msgs x
            simp only [setLoop, waiting, dq.1, dq.2.1, dq.2.2, e4, List.mem_append] at hx ⊢
            rcases hx with h | h
            · exact Or.inl h
            · have := e5 x (by simp only [waiting, List.mem_append]; exact h)
              simp only [waiting, List.mem_append] at this
              exact Or.inr this
          · intro lp' hlp' hrun
            simp only [setLoop, b, e2] at hlp'
            split at hlp'
            · cases hlp'
              apply inv.msgs m
              simp only [List.mem_append]; exact Or.inr hm
            · rw [a, e1] at hlp'; exact inv.cur lp' hlp' hrun
          · intro lp' hlp' hex
            simp only [setLoop, b, e2] at hlp'
            show (dispatch s0 m).closed = true
            rw [c, e3]
            split at hlp'
            · cases hlp'; cases hex
            · rw [a, e1] at hlp'; exact inv.alive lp' hlp' hex
        split
        · rename_i m q hq
          apply take { s with queue := q, started := s.started ++ [m], log := s.log ++ [.start m.id] } m rfl rfl rfl rfl
          · intro x hx; simp only [waiting, hq, List.mem_append, List.mem_cons] at hx ⊢
            rcases hx with h | h
            · exact Or.inl (Or.inr h)
            · exact Or.inr h
          · simp [waiting, hq]
        · rename_i hq
          split
          · rename_i m hh
            apply take { s with hand := none, started := s.started ++ [m], log := s.log ++ [.start m.id] } m rfl rfl rfl rfl
            · intro x hx; simp [waiting, hq] at hx
            · simp [waiting, hq, hh]
          · exact inv
      · exact inv
    · exact inv
  | loopExit l =>
    rw [step]
    split
    · rename_i lp hl
      split
      · rename_i hc
        constructor
        · exact inv.msgs
        · intro lp' hlp' hrun
          simp only [setLoop] at hlp'
          split at hlp'
          · cases hlp'; cases hrun
          · exact inv.cur lp' hlp' hrun
        · intro lp' hlp' hex
          simp only [setLoop] at hlp'
          split at hlp'
          · rename_i e
            -- the current loop can leave only because the connection is done
            rw [e, hl] at hclp; cases hclp
            simp only [Bool.and_eq_true, decide_eq_true_eq, Bool.or_eq_true] at hc
            rcases hc.2 with h | h
            · rw [hcd] at h; cases h
            · exact h
          · exact inv.alive lp' hlp' hex
      · exact inv
    · exact inv
  | handlerStep l =>
    rw [step]
    split
    · rename_i lp hl
      split
      · rename_i hpc
        split
        · -- the handler returned
          have fin : ∀ (s0 : State) (lp' : Loop), s0.loops = s.loops → s0.current = s.current → s0.closed = s.closed →
              s0.inbox = s.inbox → waiting s0 = waiting s → lp'.pc = .atSelect → InvW (setLoop s0 l lp') := by
            intro s0 lp' e1 e2 e3 e4 e5 hp
            constructor
            · intro x hx
              apply inv.msgs x
              have hx' : x ∈ s0.inbox ++ waiting s0 := hx
              rw [e4, e5] at hx'
              exact hx'
            · intro lp'' h1 h2
              simp only [setLoop, e2] at h1
              split at h1
              · cases h1; rw [hp] at h2; cases h2
              · rw [e1] at h1; exact inv.cur lp'' h1 h2
            · intro lp'' h1 h2
              simp only [setLoop, e2] at h1
              show s0.closed = true
              rw [e3]
              split at h1
              · cases h1; rw [hp] at h2; cases h2
              · rw [e1] at h1; exact inv.alive lp'' h1 h2
          split
          · exact fin _ _ rfl rfl rfl rfl rfl rfl
          · exact fin _ _ rfl rfl rfl rfl rfl rfl
        · rename_i act rest hp
          split
          · rename_i s' hs'
            have hq := doAct_qview s l lp act rest s' hs'
            have eq : s'.queue = s.queue ∧ s'.hand = s.hand ∧ s'.inbox = s.inbox ∧ s'.closed = s.closed := by
              simp only [qview, QView.mk.injEq] at hq; exact ⟨hq.2.2.1, hq.2.2.2.1, hq.2.2.2.2.2.1, hq.2.2.2.2.2.2⟩
            have hmsgs : ∀ m ∈ s'.inbox ++ waiting s', waitsPreceded (progOf m.kind) = true := by
              intro x hx; apply inv.msgs x; simpa [waiting, eq.1, eq.2.1, eq.2.2.1] using hx
            by_cases hrep : act = .replace
            · subst hrep
              simp only [doAct, Option.some.injEq] at hs'
              -- the state in which TryToReplaceLoop runs
              have hcur1 : ∃ c1, (setLoop s l { lp with prog := rest }).loops s.current = some c1 ∧
                  c1.reading = (if s.current = l then lp.reading else clp.reading) ∧ c1.pc = (if s.current = l then lp.pc else clp.pc) ∧
                  (s.current ≠ l → c1 = clp) := by
                by_cases e : s.current = l
                · exact ⟨{ lp with prog := rest }, by simp [setLoop, e], by simp [e], by simp [e], fun h => absurd e h⟩
                · exact ⟨clp, by simp [setLoop, e, hclp], by simp [e], by simp [e], fun _ => rfl⟩
              obtain ⟨c1, hc1, hr1, hp1, hsame⟩ := hcur1
              cases hrd : c1.reading
              · -- the current loop is busy: a fresh loop becomes current
                obtain ⟨t1, t2, t3, t4⟩ := tryReplace_busy (setLoop s l { lp with prog := rest }) c1 hc1 hrd
                subst hs'
                have nl : (setLoop s l { lp with prog := rest }).nloops = s.nloops := rfl
                constructor
                · exact hmsgs
                · intro lp' h1 h2
                  rw [t1, t2, nl] at h1
                  simp at h1; subst h1; cases h2
                · intro lp' h1 h2
                  rw [t1, t2, nl] at h1
                  simp at h1; subst h1; cases h2
              · -- the current loop is reading: nothing happens
                rw [tryReplace_reading _ c1 hc1 hrd] at hs'
                subst hs'
                have hne : s.current ≠ l := by
                  intro e
                  have hf := (ic.flag l lp hl).2 hpc
                  simp only [e, if_true] at hr1
                  rw [hr1, hf] at hrd; cases hrd
                constructor
                · exact hmsgs
                · intro lp' h1 h2
                  simp only [setLoop, hne, if_false] at h1
                  exact inv.cur lp' h1 h2
                · intro lp' h1 h2
                  simp only [setLoop, hne, if_false] at h1
                  exact inv.alive lp' h1 h2
            · obtain ⟨c1, c2, c3, hc⟩ := doAct_cases s l lp act rest s' hs' hrep
              rcases hc with ⟨lp', hloops, hpc', _, hprog⟩ | ⟨hloops, key, n, hact⟩
              · constructor
                · exact hmsgs
                · intro lp'' h1 h2
                  rw [hloops, c1] at h1
                  by_cases e : s.current = l
                  · simp only [e, if_true] at h1; cases h1
                    have hw := inv.cur lp (by rw [e]; exact hl) hpc
                    rw [hp] at hw
                    have ht := waitsPreceded_tail act rest hw hrep
                    rcases hprog with hprog | ⟨_, hbad⟩
                    · rw [hprog]; exact ht.1
                    · rcases hbad with ⟨c, b, hb⟩ | ⟨key, n, hb⟩
                      · exact absurd hb (ht.2.1 c b)
                      · exact absurd hb (ht.2.2 key n)
                  · simp only [e, if_false] at h1; exact inv.cur lp'' h1 h2
                · intro lp'' h1 h2
                  rw [hloops, c1] at h1
                  rw [c3]
                  by_cases e : s.current = l
                  · simp only [e, if_true] at h1; cases h1; rw [hpc', hpc] at h2; cases h2
                  · simp only [e, if_false] at h1; exact inv.alive lp'' h1 h2
              · constructor
                · exact hmsgs
                · intro lp'' h1 h2; rw [hloops, c1] at h1; exact inv.cur lp'' h1 h2
                · intro lp'' h1 h2; rw [hloops, c1] at h1; rw [c3]; exact inv.alive lp'' h1 h2
          · exact inv
      · exact inv
    · exact inv
  | tick dt => rw [step]; exact ⟨inv.msgs, inv.cur, inv.alive⟩
  | close => rw [step]; exact ⟨inv.msgs, inv.cur, fun _ _ _ => rfl⟩

theorem invW_init (cap : Nat) (udp : Bool) (inbox : List Msg)
    (hwf : ∀ m ∈ inbox, waitsPreceded (progOf m.kind) = true) : InvW (init cap udp inbox) := by
  constructor
  · intro m hm; apply hwf m; simpa [init, waiting] using hm
  · intro lp h1 h2; simp [init] at h1; subst h1; cases h2
  · intro lp h1 h2; simp [init] at h1; subst h1; cases h2

theorem invCW_run (s : State) (evs : List Event) (ic : InvC s) (iw : InvW s) : InvC (run s evs) ∧ InvW (run s evs) := by
  unfold run
  induction evs generalizing s with
  | nil => exact ⟨ic, iw⟩
  | cons e es ih => exact ih _ (invC_step s e ic) (invW_step s e ic iw)

/-- **the current loop is never blocked**: while it runs a (well-formed) handler its next action can always be taken -/
theorem current_can_step (s : State) (iw : InvW s) (lp : Loop) (h : s.loops s.current = some lp)
    (hr : lp.pc = .running) (act : Act) (rest : List Act) (hp : lp.prog = act :: rest) :
    (doAct s s.current lp act rest).isSome = true := by
  have hw := iw.cur lp h hr
  rw [hp] at hw
  cases act with
  | replace => rfl
  | startCall k d => rfl
  | acquire key limit =>
    cases limit with
    | zero => simp [doAct]
    | succ n => simp [waitsPreceded] at hw
  | send k => rfl
  | wait c b => simp [waitsPreceded] at hw
  | endCall k => rfl
  | release key => rfl

/-- one step of whatever loop is current -/
def advance (s : State) : State :=
  match s.loops s.current with
  | some lp => if lp.pc = .running then step s (.handlerStep s.current) else step s (.loopTake s.current)
  | none => s

def advanceN : Nat → State → State
  | 0, s => s
  | n + 1, s => advanceN n (advance s)

/-- how far the current loop is from its select -/
def measure (s : State) : Nat :=
  match s.loops s.current with
  | some lp => if lp.pc = .running then lp.prog.length + 1 else 0
  | none => 0

theorem advance_inv (s : State) (ic : InvC s) (iw : InvW s) : InvC (advance s) ∧ InvW (advance s) := by
  unfold advance
  split
  · split
    · exact ⟨invC_step s _ ic, invW_step s _ ic iw⟩
    · exact ⟨invC_step s _ ic, invW_step s _ ic iw⟩
  · exact ⟨ic, iw⟩

/-- the current loop stands at its select: it takes the oldest waiting message -/
theorem head_taken_zero (s : State) (hk : measure s ≤ 0) (ic : InvC s) (iw : InvW s) (hopen : s.closed = false)
    (m : Msg) (rest : List Msg) (hw : waiting s = m :: rest) :
    ∃ n, (advanceN n s).started = s.started ++ [m] ∧ waiting (advanceN n s) = rest ∧ (advanceN n s).closed = false ∧
      InvC (advanceN n s) ∧ InvW (advanceN n s) := by
  obtain ⟨lp, hlp, hcd⟩ := ic.cur
  have hnr : lp.pc ≠ .running := by
    intro e; unfold measure at hk; rw [hlp] at hk; simp [e] at hk
  have hne : lp.pc ≠ .exited := by
    intro e; have := iw.alive lp hlp e; rw [hopen] at this; cases this
  have hsel : lp.pc = .atSelect := by
    cases h : lp.pc
    · rfl
    · exact absurd h hnr
    · exact absurd h hne
  refine ⟨1, ?_⟩
  have hadv : advanceN 1 s = step s (.loopTake s.current) := by
    simp [advanceN, advance, hlp, hsel]
  obtain ⟨ic1, iw1⟩ := advance_inv s ic iw
  have hadv' : advance s = step s (.loopTake s.current) := by simp [advance, hlp, hsel]
  rw [hadv]
  rw [hadv'] at ic1 iw1
  have hd : ∀ (s0 : State) (x : Msg), (dispatch s0 x).started = s0.started ∧ (dispatch s0 x).queue = s0.queue ∧
      (dispatch s0 x).hand = s0.hand ∧ (dispatch s0 x).closed = s0.closed := by
    intro s0 x; have := dispatch_qview s0 x
    simp only [qview, QView.mk.injEq] at this
    exact ⟨this.2.1, this.2.2.1, this.2.2.2.1, this.2.2.2.2.2.2⟩
  refine ⟨?_, ?_, ?_, ic1, iw1⟩
  · rw [step, hlp]; simp only [hsel, if_true]
    cases hq : s.queue with
    | cons x q =>
      have : x = m := by simp [waiting, hq] at hw; exact hw.1
      subst this
      simp [setLoop, (hd _ _).1]
    | nil =>
      cases hh : s.hand with
      | some x =>
        have : x = m := by simp [waiting, hq, hh] at hw; exact hw.1
        subst this
        simp [setLoop, (hd _ _).1]
      | none => simp [waiting, hq, hh] at hw
  · rw [step, hlp]; simp only [hsel, if_true]
    cases hq : s.queue with
    | cons x q =>
      have : q ++ s.hand.toList = rest := by simp [waiting, hq] at hw; exact hw.2
      simp [setLoop, waiting, (hd _ _).2.1, (hd _ _).2.2.1, this]
    | nil =>
      cases hh : s.hand with
      | some x =>
        have : rest = [] := by simp [waiting, hq, hh] at hw; exact hw.2
        simp [setLoop, waiting, (hd _ _).2.1, (hd _ _).2.2.1, this]
      | none => simp [waiting, hq, hh] at hw
  · rw [step, hlp]; simp only [hsel, if_true]
    cases hq : s.queue with
    | cons x q => simp [setLoop, (hd _ _).2.2.2, hopen]
    | nil =>
      cases hh : s.hand with
      | some x => simp [setLoop, (hd _ _).2.2.2, hopen]
      | none => simp [waiting, hq, hh] at hw

/-- **A waiting message is taken after finitely many steps of the current loop alone** — however many handlers are
    blocked in nested calls. -/
theorem head_taken : ∀ (k : Nat) (s : State), measure s ≤ k → InvC s → InvW s → s.closed = false →
    ∀ (m : Msg) (rest : List Msg), waiting s = m :: rest →
    ∃ n, (advanceN n s).started = s.started ++ [m] ∧ waiting (advanceN n s) = rest ∧ (advanceN n s).closed = false ∧
      InvC (advanceN n s) ∧ InvW (advanceN n s) := by
  intro k
  induction k with
  | zero =>
    intro s hk ic iw hopen m rest hw
    exact head_taken_zero s hk ic iw hopen m rest hw
  | succ k ih =>
    intro s hk ic iw hopen m rest hw
    obtain ⟨lp, hlp, hcd⟩ := ic.cur
    by_cases hrun : lp.pc = .running
    · -- one action of the handler, then the induction hypothesis
      have hadv : advance s = step s (.handlerStep s.current) := by simp [advance, hlp, hrun]
      obtain ⟨ic1, iw1⟩ := advance_inv s ic iw
      have key : measure (advance s) ≤ k ∧ (advance s).started = s.started ∧ waiting (advance s) = waiting s ∧
          (advance s).closed = s.closed := by
        rw [hadv, step, hlp]; simp only [hrun, if_true]
        cases hp : lp.prog with
        | nil =>
          cases hc : lp.cur with
          | some x => simp [measure, setLoop, waiting]
          | none => simp [measure, setLoop, waiting]
        | cons act rest' =>
          have hsome := current_can_step s iw lp hlp hrun act rest' hp
          dsimp only
          cases hdo : doAct s s.current lp act rest' with
          | none => rw [hdo] at hsome; cases hsome
          | some s1 =>
            have hq := doAct_qview s s.current lp act rest' s1 hdo
            have eq : s1.started = s.started ∧ s1.queue = s.queue ∧ s1.hand = s.hand ∧ s1.closed = s.closed := by
              simp only [qview, QView.mk.injEq] at hq; exact ⟨hq.2.1, hq.2.2.1, hq.2.2.2.1, hq.2.2.2.2.2.2⟩
            refine ⟨?_, eq.1, by simp [waiting, eq.2.1, eq.2.2.1], eq.2.2.2⟩
            have hmk : measure s = lp.prog.length + 1 := by simp [measure, hlp, hrun]
            rw [hmk, hp] at hk
            by_cases hrep : act = .replace
            · subst hrep
              simp only [doAct, Option.some.injEq] at hdo
              have hrd : lp.reading = false := (ic.flag s.current lp hlp).2 hrun
              obtain ⟨t1, t2, t3, _⟩ := tryReplace_busy (setLoop s s.current { lp with prog := rest' }) { lp with prog := rest' }
                (by simp [setLoop]) hrd
              subst hdo
              unfold measure
              rw [t2, t1]
              simp [setLoop, idleLoop]
            · obtain ⟨c1, _, _, hc⟩ := doAct_cases s s.current lp act rest' s1 hdo hrep
              rcases hc with ⟨lp', hloops, hpc', _, hprog⟩ | ⟨_, key, n, hact⟩
              · unfold measure
                rw [c1, hloops]
                simp only [if_true, hpc', hrun]
                rcases hprog with hprog | ⟨hprog, _⟩
                · rw [hprog]; simp at hk ⊢; omega
                · rw [hprog]; have := skipToEnd_length rest'; simp at hk ⊢; omega
              · -- an acquire that can block is excluded by well-formedness
                have hw' := iw.cur lp hlp hrun
                rw [hp, hact] at hw'
                simp [waitsPreceded] at hw'
      obtain ⟨h1, h2, h3, h4⟩ := key
      obtain ⟨n, g1, g2, g3, g4, g5⟩ := ih (advance s) h1 ic1 iw1 (by rw [h4]; exact hopen) m rest (by rw [h3]; exact hw)
      exact ⟨n + 1, by simpa [advanceN, h2] using g1, by simpa [advanceN] using g2, by simpa [advanceN] using g3,
        by simpa [advanceN] using g4, by simpa [advanceN] using g5⟩
    · -- already at its select
      have hm0 : measure s ≤ 0 := by simp [measure, hlp, hrun]
      exact head_taken_zero s hm0 ic iw hopen m rest hw

/-! ### Accounting across loop replacement -/

/-- (A) a loop holds a message only while it runs a handler; what a loop holds has been taken and is not finished; no
    message is held by two loops; every taken message is finished or held by a loop — whether that loop is still the
    current one or has been replaced; nothing finishes twice -/
structure InvA (s : State) : Prop where
  idle : ∀ l lp, s.loops l = some lp → lp.pc ≠ .running → lp.cur = none
  curS : ∀ l lp m, s.loops l = some lp → lp.cur = some m → m ∈ s.started ∧ m ∉ s.finished
  uniq : ∀ l l' lp lp' m, s.loops l = some lp → s.loops l' = some lp' → lp.cur = some m → lp'.cur = some m → l = l'
  fin : ∀ m ∈ s.finished, m ∈ s.started
  acc : ∀ m ∈ s.started, m ∈ s.finished ∨ ∃ l lp, s.loops l = some lp ∧ lp.cur = some m
  finNd : s.finished.Nodup

/-- loops keep what they hold; new loops hold nothing and stand at their select -/
structure CurPres (s s' : State) : Prop where
  fwd : ∀ i lp, s.loops i = some lp → ∃ lp', s'.loops i = some lp' ∧ lp'.cur = lp.cur
  bwd : ∀ i lp', s'.loops i = some lp' →
    (∃ lp, s.loops i = some lp ∧ lp'.cur = lp.cur ∧ lp'.pc = lp.pc) ∨ (lp'.cur = none ∧ lp'.pc = .atSelect)

theorem invA_of_curPres (s s' : State) (cp : CurPres s s') (hs : s'.started = s.started) (hf : s'.finished = s.finished)
    (inv : InvA s) : InvA s' := by
  constructor
  · intro l lp' hl hp
    rcases cp.bwd l lp' hl with ⟨lp, h1, h2, h3⟩ | ⟨h, _⟩
    · rw [h2]; exact inv.idle l lp h1 (by rw [← h3]; exact hp)
    · exact h
  · intro l lp' m hl hc
    rw [hs, hf]
    rcases cp.bwd l lp' hl with ⟨lp, h1, h2, _⟩ | ⟨h, _⟩
    · exact inv.curS l lp m h1 (by rw [← h2]; exact hc)
    · rw [h] at hc; cases hc
  · intro l l' lp1 lp2 m h1 h2 c1 c2
    rcases cp.bwd l lp1 h1 with ⟨a, a1, a2, _⟩ | ⟨h, _⟩
    · rcases cp.bwd l' lp2 h2 with ⟨b, b1, b2, _⟩ | ⟨h, _⟩
      · exact inv.uniq l l' a b m a1 b1 (by rw [← a2]; exact c1) (by rw [← b2]; exact c2)
      · rw [h] at c2; cases c2
    · rw [h] at c1; cases c1
  · rw [hs, hf]; exact inv.fin
  · intro m hm
    rw [hs] at hm; rw [hf]
    rcases inv.acc m hm with h | ⟨l, lp, h1, h2⟩
    · exact Or.inl h
    · obtain ⟨lp', g1, g2⟩ := cp.fwd l lp h1
      exact Or.inr ⟨l, lp', g1, by rw [g2]; exact h2⟩
  · rw [hf]; exact inv.finNd

theorem curPres_refl (s s' : State) (h : s'.loops = s.loops) : CurPres s s' :=
  ⟨fun i lp hl => ⟨lp, by rw [h]; exact hl, rfl⟩, fun i lp' hl => Or.inl ⟨lp', by rw [← h]; exact hl, rfl, rfl⟩⟩

theorem curPres_trans (a b c : State) (h1 : CurPres a b) (h2 : CurPres b c) : CurPres a c := by
  constructor
  · intro i lp hl
    obtain ⟨lp1, g1, g2⟩ := h1.fwd i lp hl
    obtain ⟨lp2, k1, k2⟩ := h2.fwd i lp1 g1
    exact ⟨lp2, k1, k2.trans g2⟩
  · intro i lp' hl
    rcases h2.bwd i lp' hl with ⟨lp1, g1, g2, g3⟩ | h
    · rcases h1.bwd i lp1 g1 with ⟨lp0, k1, k2, k3⟩ | ⟨k1, k2⟩
      · exact Or.inl ⟨lp0, k1, g2.trans k2, g3.trans k3⟩
      · exact Or.inr ⟨g2.trans k1, g3.trans k2⟩
    · exact Or.inr h

/-- replacing one loop's record by one with the same `cur` and `pc` -/
theorem curPres_setLoop (s : State) (l : Nat) (lp lp' : Loop) (hl : s.loops l = some lp) (hc : lp'.cur = lp.cur)
    (hp : lp'.pc = lp.pc) : CurPres s (setLoop s l lp') := by
  constructor
  · intro i lpi hi
    by_cases e : i = l
    · subst e; rw [hl] at hi; cases hi; exact ⟨lp', by simp [setLoop], hc⟩
    · exact ⟨lpi, by simp [setLoop, e, hi], rfl⟩
  · intro i lpi hi
    by_cases e : i = l
    · subst e; simp [setLoop] at hi; subst hi; exact Or.inl ⟨lp, hl, hc, hp⟩
    · simp [setLoop, e] at hi; exact Or.inl ⟨lpi, hi, rfl, rfl⟩

/-- **`TryToReplaceLoop` moves no message**: the replaced loop keeps the message it is processing, the new loop starts
    empty, queue and hand are untouched (`tryReplace_qview`). -/
theorem curPres_tryReplace (s : State) (ic : InvC s) : CurPres s (tryReplace s) := by
  obtain ⟨cur, hcur, _⟩ := ic.cur
  cases hr : cur.reading
  · obtain ⟨e1, _, _, _⟩ := tryReplace_busy s cur hcur hr
    have hn : s.loops s.nloops = none := ic.fresh _ (Nat.le_refl _)
    constructor
    · intro i lp hl
      rw [e1]
      by_cases h1 : i = s.nloops
      · rw [h1, hn] at hl; cases hl
      · by_cases h2 : i = s.current
        · rw [h2, hcur] at hl; cases hl
          have h1' : s.current ≠ s.nloops := by rw [← h2]; exact h1
          exact ⟨{ cur with doneClosed := true }, by simp [h2, h1'], rfl⟩
        · exact ⟨lp, by simp [h1, h2, hl], rfl⟩
    · intro i lp' hl
      rw [e1] at hl
      by_cases h1 : i = s.nloops
      · simp only [h1, if_true] at hl; cases hl; exact Or.inr ⟨rfl, rfl⟩
      · simp only [h1, if_false] at hl
        by_cases h2 : i = s.current
        · simp only [h2, if_true] at hl; cases hl
          exact Or.inl ⟨cur, by rw [h2]; exact hcur, rfl, rfl⟩
        · simp only [h2, if_false] at hl; exact Or.inl ⟨lp', hl, rfl, rfl⟩
  · rw [tryReplace_reading s cur hcur hr]; exact curPres_refl s s rfl

theorem doAct_curPres (s : State) (l : Nat) (lp : Loop) (act : Act) (rest : List Act) (s' : State)
    (hl : s.loops l = some lp) (h : doAct s l lp act rest = some s') (ic : InvC s) :
    CurPres s s' ∧ s'.started = s.started ∧ s'.finished = s.finished := by
  have hq := doAct_qview s l lp act rest s' h
  have hst : s'.started = s.started := by simp only [qview, QView.mk.injEq] at hq; exact hq.2.1
  by_cases hrep : act = .replace
  · subst hrep
    simp only [doAct, Option.some.injEq] at h; subst h
    have c1 : CurPres s (setLoop s l { lp with prog := rest }) := curPres_setLoop s l lp _ hl rfl rfl
    have ic1 : InvC (setLoop s l { lp with prog := rest }) :=
      invC_setLoop s l lp { lp with prog := rest } hl rfl (ic.flag l lp hl) ic
    have hfin : (tryReplace (setLoop s l { lp with prog := rest })).finished = s.finished := by
      unfold tryReplace; split
      · split <;> rfl
      · rfl
    exact ⟨curPres_trans _ _ _ c1 (curPres_tryReplace _ ic1), hst, hfin⟩
  · obtain ⟨_, _, _, hc⟩ := doAct_cases s l lp act rest s' h hrep
    have hfin : s'.finished = s.finished := by
      cases act with
      | replace => exact absurd rfl hrep
      | startCall k d => simp only [doAct, Option.some.injEq] at h; subst h; rfl
      | acquire key limit =>
        simp only [doAct] at h
        split at h
        · cases h; rfl
        · split at h
          · cases h; rfl
          · split at h
            · cases h; rfl
            · split at h
              · cases h; rfl
              · cases h
      | send k => simp only [doAct, Option.some.injEq] at h; subst h; rfl
      | wait c b =>
        simp only [doAct] at h
        split at h
        · cases h; rfl
        · split at h
          · cases h; rfl
          · split at h
            · cases h; rfl
            · cases h
      | endCall k => simp only [doAct, Option.some.injEq] at h; subst h; rfl
      | release key => simp only [doAct, Option.some.injEq] at h; subst h; rfl
    refine ⟨?_, hst, hfin⟩
    rcases hc with ⟨lp', hloops, hpc', hcur', _⟩ | ⟨hloops, _⟩
    · constructor
      · intro i lpi hi
        rw [hloops]
        by_cases e : i = l
        · subst e; rw [hl] at hi; cases hi; exact ⟨lp', by simp, hcur'⟩
        · exact ⟨lpi, by simp [e, hi], rfl⟩
      · intro i lpi hi
        rw [hloops] at hi
        by_cases e : i = l
        · subst e; simp at hi; subst hi; exact Or.inl ⟨lp, hl, hcur', hpc'⟩
        · simp [e] at hi; exact Or.inl ⟨lpi, hi, rfl, rfl⟩
    · exact curPres_refl s s' hloops

theorem invA_step (s : State) (ev : Event) (iq : InvQ s) (ic : InvC s) (inv : InvA s) : InvA (step s ev) := by
  cases ev with
  | feederRead =>
    rw [step]
    split
    · rename_i m rest _ _
      dsimp only
      have hv : ∀ (s0 : State), (inlinePart s0 m).loops = s0.loops ∧ (inlinePart s0 m).started = s0.started ∧
          (inlinePart s0 m).finished = s0.finished := by
        intro s0; unfold inlinePart; split <;> (try split) <;> exact ⟨rfl, rfl, rfl⟩
      obtain ⟨a, b, c⟩ := hv { s with inbox := rest }
      split
      · exact invA_of_curPres s _ (curPres_refl _ _ a) b c inv
      · exact invA_of_curPres s _ (curPres_refl _ _ a) b c inv
    · exact inv
  | feederPush =>
    rw [step]
    split
    · split
      · exact invA_of_curPres s _ (curPres_refl _ _ rfl) rfl rfl inv
      · split
        · exact invA_of_curPres s _ (curPres_refl _ _ rfl) rfl rfl inv
        · exact inv
    · exact inv
  | loopTake l =>
    rw [step]
    split
    · rename_i lp hl
      split
      · rename_i hpc
        dsimp only
        have hd : ∀ (s0 : State) (x : Msg), (dispatch s0 x).loops = s0.loops ∧ (dispatch s0 x).started = s0.started ∧
            (dispatch s0 x).finished = s0.finished := by
          intro s0 x; unfold dispatch; split <;> (try split) <;> exact ⟨rfl, rfl, rfl⟩
        have hidle : lp.cur = none := inv.idle l lp hl (by rw [hpc]; intro e; cases e)
        -- taking a message that is neither started nor finished
        have take : ∀ (s0 : State) (m : Msg), s0.loops = s.loops → s0.started = s.started ++ [m] → s0.finished = s.finished →
            m ∉ s.started →
            InvA (setLoop (dispatch s0 m) l { lp with reading := false, pc := .running, cur := some m, prog := progOf m.kind }) := by
          intro s0 m e1 e2 e3 hnew
          obtain ⟨a, b, c⟩ := hd s0 m
          have hnf : m ∉ s.finished := fun h => hnew (inv.fin m h)
          constructor
          · intro i lpi hi hp
            simp only [setLoop] at hi
            split at hi
            · cases hi; exact absurd rfl hp
            · rw [a, e1] at hi; exact inv.idle i lpi hi hp
          · intro i lpi x hi hc
            show x ∈ (dispatch s0 m).started ∧ x ∉ (dispatch s0 m).finished
            rw [b, c, e2, e3]
            simp only [setLoop] at hi
            split at hi
            · cases hi; simp at hc; subst hc
              exact ⟨by simp, hnf⟩
            · rw [a, e1] at hi
              obtain ⟨g1, g2⟩ := inv.curS i lpi x hi hc
              exact ⟨by simp [g1], g2⟩
          · intro i j lpi lpj x hi hj ci cj
            simp only [setLoop] at hi hj
            split at hi
            · rename_i ei
              split at hj
              · rename_i ej; rw [ei, ej]
              · cases hi; simp at ci; subst ci
                rw [a, e1] at hj
                exact absurd (inv.curS j lpj _ hj cj).1 hnew
            · split at hj
              · cases hj; simp at cj; subst cj
                rw [a, e1] at hi
                exact absurd (inv.curS i lpi _ hi ci).1 hnew
              · rw [a, e1] at hi hj; exact inv.uniq i j lpi lpj x hi hj ci cj
          · intro x hx
            show x ∈ (dispatch s0 m).started
            have hx' : x ∈ (dispatch s0 m).finished := hx
            rw [c, e3] at hx'; rw [b, e2]; simp [inv.fin x hx']
          · intro x hx
            have hx' : x ∈ (dispatch s0 m).started := hx
            rw [b, e2] at hx'
            show x ∈ (dispatch s0 m).finished ∨ _
            rw [c, e3]
            rcases List.mem_append.mp hx' with h | h
            · rcases inv.acc x h with g | ⟨i, lpi, g1, g2⟩
              · exact Or.inl g
              · right
                have hil : i ≠ l := by
                  intro e; subst e; rw [hl] at g1; cases g1; rw [hidle] at g2; cases g2
                exact ⟨i, lpi, by simp [setLoop, hil, a, e1, g1], g2⟩
            · simp at h; subst h
              exact Or.inr ⟨l, { lp with reading := false, pc := .running, cur := some x, prog := progOf x.kind }, by simp [setLoop], rfl⟩
          · show (dispatch s0 m).finished.Nodup
            rw [c, e3]; exact inv.finNd
        have hwire : s.accepted.Nodup := (List.nodup_append.mp iq.wire).1
        rw [iq.fifo] at hwire
        split
        · rename_i m q hq
          apply take { s with queue := q, started := s.started ++ [m], log := s.log ++ [.start m.id] } m rfl rfl rfl
          rw [hq] at hwire
          simp only [List.append_assoc] at hwire
          have := (List.nodup_append.mp hwire).2.2
          intro hin
          exact this m hin m (by simp) rfl
        · rename_i hq
          split
          · rename_i m hh
            apply take { s with hand := none, started := s.started ++ [m], log := s.log ++ [.start m.id] } m rfl rfl rfl
            rw [hq, hh] at hwire
            simp only [List.append_assoc] at hwire
            have := (List.nodup_append.mp hwire).2.2
            intro hin
            exact this m hin m (by simp) rfl
          · exact inv
      · exact inv
    · exact inv
  | loopExit l =>
    rw [step]
    split
    · rename_i lp hl
      split
      · rename_i hc
        have hpc : lp.pc = .atSelect := by
          simp only [Bool.and_eq_true, decide_eq_true_eq] at hc; exact hc.1
        have hidle : lp.cur = none := inv.idle l lp hl (by rw [hpc]; intro e; cases e)
        constructor
        · intro i lpi hi hp
          simp only [setLoop] at hi
          split at hi
          · cases hi; exact hidle
          · exact inv.idle i lpi hi hp
        · intro i lpi x hi hcx
          simp only [setLoop] at hi
          split at hi
          · cases hi; rw [hidle] at hcx; cases hcx
          · exact inv.curS i lpi x hi hcx
        · intro i j lpi lpj x hi hj ci cj
          simp only [setLoop] at hi hj
          split at hi
          · cases hi; rw [hidle] at ci; cases ci
          · split at hj
            · cases hj; rw [hidle] at cj; cases cj
            · exact inv.uniq i j lpi lpj x hi hj ci cj
        · exact inv.fin
        · intro x hx
          rcases inv.acc x hx with g | ⟨i, lpi, g1, g2⟩
          · exact Or.inl g
          · right
            have hil : i ≠ l := by
              intro e; subst e; rw [hl] at g1; cases g1; rw [hidle] at g2; cases g2
            exact ⟨i, lpi, by simp [setLoop, hil, g1], g2⟩
        · exact inv.finNd
      · exact inv
    · exact inv
  | handlerStep l =>
    rw [step]
    split
    · rename_i lp hl
      split
      · rename_i hpc
        split
        · split
          · rename_i m hm
            -- the handler returned: the message moves from the loop to `finished`
            obtain ⟨hms, hmf⟩ := inv.curS l lp m hl hm
            constructor
            · intro i lpi hi hp
              simp only [setLoop] at hi
              split at hi
              · cases hi; rfl
              · exact inv.idle i lpi hi hp
            · intro i lpi x hi hcx
              simp only [setLoop] at hi
              split at hi
              · cases hi; cases hcx
              · rename_i hil
                obtain ⟨g1, g2⟩ := inv.curS i lpi x hi hcx
                refine ⟨g1, ?_⟩
                show x ∉ s.finished ++ [m]
                intro hin
                rcases List.mem_append.mp hin with h | h
                · exact g2 h
                · simp at h; subst h
                  exact hil (inv.uniq i l lpi lp x hi hl hcx hm)
            · intro i j lpi lpj x hi hj ci cj
              simp only [setLoop] at hi hj
              split at hi
              · cases hi; cases ci
              · split at hj
                · cases hj; cases cj
                · exact inv.uniq i j lpi lpj x hi hj ci cj
            · intro x hx
              have hx' : x ∈ s.finished ++ [m] := hx
              rcases List.mem_append.mp hx' with h | h
              · exact inv.fin x h
              · simp at h; subst h; exact hms
            · intro x hx
              show x ∈ s.finished ++ [m] ∨ _
              rcases inv.acc x hx with g | ⟨i, lpi, g1, g2⟩
              · exact Or.inl (by simp [g])
              · by_cases hil : i = l
                · subst hil; rw [hl] at g1; cases g1; rw [hm] at g2; cases g2
                  exact Or.inl (by simp)
                · exact Or.inr ⟨i, lpi, by simp [setLoop, hil, g1], g2⟩
            · show (s.finished ++ [m]).Nodup
              rw [List.nodup_append]
              refine ⟨inv.finNd, by simp, ?_⟩
              intro a ha b hb
              simp at hb; subst hb
              intro e; subst e; exact hmf ha
          · rename_i hm
            -- (a running loop always holds a message in reachable states; the branch is kept total)
            refine invA_of_curPres s _ ⟨?_, ?_⟩ rfl rfl inv
            · intro i lpi hi
              by_cases e : i = l
              · subst e; rw [hl] at hi; cases hi
                exact ⟨{ lp with reading := true, pc := .atSelect }, by simp [setLoop], rfl⟩
              · exact ⟨lpi, by simp [setLoop, e, hi], rfl⟩
            · intro i lpi hi
              by_cases e : i = l
              · subst e; simp [setLoop] at hi; subst hi; exact Or.inr ⟨hm, rfl⟩
              · simp [setLoop, e] at hi; exact Or.inl ⟨lpi, hi, rfl, rfl⟩
        · rename_i act rest hp
          split
          · rename_i s' hs'
            obtain ⟨cp, e1, e2⟩ := doAct_curPres s l lp act rest s' hl hs' ic
            exact invA_of_curPres s s' cp e1 e2 inv
          · exact inv
      · exact inv
    · exact inv
  | tick dt => rw [step]; exact invA_of_curPres s _ (curPres_refl _ _ rfl) rfl rfl inv
  | close => rw [step]; exact invA_of_curPres s _ (curPres_refl _ _ rfl) rfl rfl inv

theorem invA_init (cap : Nat) (udp : Bool) (inbox : List Msg) : InvA (init cap udp inbox) := by
  constructor
  · intro l lp hl _; simp only [init] at hl; split at hl <;> cases hl; rfl
  · intro l lp m hl hc; simp only [init] at hl; split at hl <;> cases hl; cases hc
  · intro l l' lp lp' m hl _ hc _; simp only [init] at hl; split at hl <;> cases hl; cases hc
  · intro m hm; simp [init] at hm
  · intro m hm; simp [init] at hm
  · simp [init]

theorem invQCA_run (s : State) (evs : List Event) (iq : InvQ s) (ic : InvC s) (ia : InvA s) :
    InvQ (run s evs) ∧ InvC (run s evs) ∧ InvA (run s evs) := by
  unfold run
  induction evs generalizing s with
  | nil => exact ⟨iq, ic, ia⟩
  | cons e es ih => exact ih _ (invQ_step s e iq) (invC_step s e ic) (invA_step s e iq ic ia)

end CoapVerif.Lemmas.Reader
