import CoapVerif.Lemmas.OptionRoundTrip
import CoapVerif.Lemmas.CoderDecode
import CoapVerif.Lemmas.CoderRoundTrip
import CoapVerif.Spec.Rfc8323Parse
/-!
The decoders agree with the reference parsers of `Spec/Rfc7252Parse.lean` / `Spec/Rfc8323Parse.lean`
(tokenise → prefix sums → 16-bit check → leniency filter) on every byte string, given an option
capacity that cannot run out.
-/
set_option linter.unusedVariables false
set_option linter.unusedSimpArgs false
namespace CoapVerif.Lemmas.RefParser
open CoapVerif.Generated.Codec CoapVerif.Generated.OptionDefs
open CoapVerif.Spec.Wire CoapVerif.Spec
open CoapVerif.Model CoapVerif.Model.OptionCodec
open CoapVerif.Lemmas CoapVerif.Lemmas.OptionCodec CoapVerif.Lemmas.OptionRoundTrip CoapVerif.Lemmas.CoderDecode

/-- A delta/length field: the code's parser and the grammar agree for nibbles 0..14. -/
theorem field_eq_decExt (nib : Nat) (h : nib < 15) (t : Bytes) :
    Rfc7252.field nib t = match decExt nib t with | .ok r => some r | .error _ => none := by
  unfold Rfc7252.field decExt
  by_cases h12 : nib ≤ 12
  · have a : ¬ nib = 13 := by omega
    have b : ¬ nib = 14 := by omega
    simp [h12, a, b]
  · by_cases h13 : nib = 13
    · subst h13
      cases t <;> simp
    · have h14 : nib = 14 := by omega
      subst h14
      match t with
      | [] => simp
      | [_] => simp
      | _ :: _ :: _ => simp

theorem field_15 (t : Bytes) : Rfc7252.field 15 t = none := by simp [Rfc7252.field]

/-- Unfolding of `decLoop` without equation binders. -/
theorem decLoop_cons (defs : Defs) (cap n prev : Nat) (b : UInt8) (t : Bytes) :
    decLoop defs cap n prev (b :: t) =
      if b = 0xff then .ok ([], t) else
      if b.toNat / 16 = 15 ∨ b.toNat % 16 = 15 then .error .optExtMarker else
      match decExt (b.toNat / 16) t with
      | .error e => .error e
      | .ok (delta, t1) =>
        match decExt (b.toNat % 16) t1 with
        | .error e => .error e
        | .ok (len, t2) =>
          if t2.length < len then .error .optTruncated
          else if prev + delta > 65535 then .error .optOverflow
          else if cap = n then .error .optCap
          else
            match decLoop defs cap (if (keepOpt defs (prev + delta) (t2.take len)).isSome then n + 1 else n)
                (prev + delta) (t2.drop len) with
            | .error e => .error e
            | .ok (os, rest) =>
              .ok ((match keepOpt defs (prev + delta) (t2.take len) with | some o => o :: os | none => os), rest) := by
  rw [decLoop.eq_def]
  simp only []
  split
  · rfl
  · split
    · rfl
    · cases hd : decExt (b.toNat / 16) t with
      | error e => rfl
      | ok r1 =>
        obtain ⟨delta, t1⟩ := r1
        simp only []
        cases hl2 : decExt (b.toNat % 16) t1 with
        | error e => rfl
        | ok r2 => rfl

/-- Unfolding of the grammar tokeniser without equation binders. -/
theorem tokens_cons (b : UInt8) (t : Bytes) :
    Rfc7252.tokens (b :: t) =
      if b = 0xff then some ([], t) else
      match Rfc7252.field (b.toNat / 16) t with
      | none => none
      | some (d, t1) =>
        match Rfc7252.field (b.toNat % 16) t1 with
        | none => none
        | some (l, t2) =>
          if t2.length < l then none
          else
            match Rfc7252.tokens (t2.drop l) with
            | none => none
            | some (rest, p) => some ((d, t2.take l) :: rest, p) := by
  rw [Rfc7252.tokens.eq_def]
  simp only []
  split
  · rfl
  · cases hd : Rfc7252.field (b.toNat / 16) t with
    | none => rfl
    | some r1 =>
      obtain ⟨d, t1⟩ := r1
      simp only []
      cases hl2 : Rfc7252.field (b.toNat % 16) t1 with
      | none => rfl
      | some r2 => rfl

/-- `all numbers < 65536` of a prefix-summed token list. -/
def numsOK (prev : Nat) (toks : List (Nat × Bytes)) : Bool :=
  (Rfc7252.absolute prev toks).all fun o => decide (o.id < 65536)

theorem decLoop_tokens (defs : Defs) (hu : noUnknown defs = true) (cap n prev : Nat) (bs : Bytes)
    (hcap : n + bs.length ≤ cap) :
    match Rfc7252.tokens bs with
    | none => ∃ e, decLoop defs cap n prev bs = .error e
    | some (toks, p) =>
      if numsOK prev toks = true then
        decLoop defs cap n prev bs = .ok (Rfc7252.lenient (regOf defs) (Rfc7252.absolute prev toks), p)
      else ∃ e, decLoop defs cap n prev bs = .error e := by
  induction hl : bs.length using Nat.strongRecOn generalizing n prev bs with
  | _ len ih =>
    subst hl
    cases bs with
    | nil =>
      rw [Rfc7252.tokens.eq_def, decLoop.eq_def]
      simp [numsOK, Rfc7252.absolute, Rfc7252.lenient]
    | cons b t =>
      rw [tokens_cons, decLoop_cons]
      by_cases hff : b = 0xff
      · simp [hff, numsOK, Rfc7252.absolute, Rfc7252.lenient]
      · simp only [hff, ↓reduceIte]
        have hdn : b.toNat / 16 ≤ 15 := by have := b.toNat_lt; omega
        have hln : b.toNat % 16 ≤ 15 := by omega
        by_cases hm : b.toNat / 16 = 15 ∨ b.toNat % 16 = 15
        · simp only [hm, ↓reduceIte]
          rcases hm with hm | hm
          · simp only [hm, field_15]; exact ⟨_, rfl⟩
          · -- the grammar fails at the length field (or already at the delta field)
            cases hf : Rfc7252.field (b.toNat / 16) t with
            | none => exact ⟨_, rfl⟩
            | some r => obtain ⟨d, t1⟩ := r; simp only [hm, field_15]; exact ⟨_, rfl⟩
        · simp only [hm, ↓reduceIte]
          have hd15 : b.toNat / 16 < 15 := by omega
          have hl15 : b.toNat % 16 < 15 := by omega
          have f1 := field_eq_decExt (b.toNat / 16) hd15 t
          cases hd : decExt (b.toNat / 16) t with
          | error e =>
            rw [hd] at f1; simp only [f1]; exact ⟨_, rfl⟩
          | ok r1 =>
            obtain ⟨delta, t1⟩ := r1
            rw [hd] at f1
            simp only [f1]
            have f2 := field_eq_decExt (b.toNat % 16) hl15 t1
            cases hl2 : decExt (b.toNat % 16) t1 with
            | error e => rw [hl2] at f2; simp only [f2]; exact ⟨_, rfl⟩
            | ok r2 =>
              obtain ⟨len', t2⟩ := r2
              rw [hl2] at f2
              simp only [f2]
              by_cases hlen : t2.length < len'
              · simp only [hlen, ↓reduceIte]; exact ⟨_, rfl⟩
              · simp only [hlen, ↓reduceIte]
                have l1 := decExt_len hd
                have l2 := decExt_len hl2
                have hlt : (t2.drop len').length < (b :: t).length := by simp; omega
                have hc : ¬ cap = n := by simp at hcap; omega
                have hvl : (t2.take len').length < 4294967296 := by
                  have := decExt_val_le hl2 hl15
                  simp; omega
                have hk := keepOpt_eq defs hu (prev + delta) (t2.take len') hvl
                have hrec := ih _ hlt
                  (if (keepOpt defs (prev + delta) (List.take len' t2)).isSome = true then n + 1 else n)
                  (prev + delta) (t2.drop len')
                  (by simp only [List.length_drop, List.length_cons] at hcap ⊢; split <;> omega) rfl
                cases htk : Rfc7252.tokens (t2.drop len') with
                | none =>
                  rw [htk] at hrec
                  obtain ⟨e, he⟩ := hrec
                  simp only []
                  by_cases hov : prev + delta > 65535
                  · simp only [hov, ↓reduceIte]; exact ⟨_, rfl⟩
                  · simp only [hov, ↓reduceIte, hc, he]; exact ⟨_, rfl⟩
                | some r3 =>
                  obtain ⟨rest, p⟩ := r3
                  rw [htk] at hrec
                  simp only [] at hrec ⊢
                  have hnums : numsOK prev ((delta, t2.take len') :: rest) =
                      (decide (prev + delta < 65536) && numsOK (prev + delta) rest) := by
                    simp [numsOK, Rfc7252.absolute]
                  rw [hnums]
                  by_cases hov : prev + delta > 65535
                  · have : ¬ (prev + delta < 65536) := by omega
                    simp only [hov, ↓reduceIte, this, decide_false, Bool.false_and, Bool.false_eq_true]
                    exact ⟨_, rfl⟩
                  · have h65 : prev + delta < 65536 := by omega
                    simp only [hov, ↓reduceIte, hc, h65, decide_true, Bool.true_and]
                    by_cases hno : numsOK (prev + delta) rest = true
                    · simp only [hno, ↓reduceIte] at hrec ⊢
                      rw [hrec]
                      simp only [Rfc7252.absolute, Rfc7252.lenient, List.filter_cons]
                      by_cases hkeep : prev + delta ≠ 0 ∧ lengthLegal (regOf defs) (prev + delta) (t2.take len').length = true
                      · rw [hk, if_pos hkeep]
                        have : (decide (prev + delta ≠ 0) && lengthLegal (regOf defs) (prev + delta) (t2.take len').length) = true := by
                          simp only [Bool.and_eq_true, decide_eq_true_eq]; exact hkeep
                        simp only [this, ↓reduceIte]
                      · rw [hk, if_neg hkeep]
                        have : (decide (prev + delta ≠ 0) && lengthLegal (regOf defs) (prev + delta) (t2.take len').length) = false := by
                          by_cases h0 : prev + delta = 0
                          · simp [h0]
                          · have : lengthLegal (regOf defs) (prev + delta) (t2.take len').length = false := by
                              cases hh : lengthLegal (regOf defs) (prev + delta) (t2.take len').length with
                              | false => rfl
                              | true => exact absurd ⟨h0, hh⟩ hkeep
                            rw [this]; simp
                        simp only [this, Bool.false_eq_true, ↓reduceIte]
                    · simp only [hno, Bool.false_eq_true, ↓reduceIte] at hrec ⊢
                      obtain ⟨e, he⟩ := hrec
                      rw [he]; exact ⟨_, rfl⟩

/-- Result of a decoder as a verdict. -/
def toOpt {α : Type} : Except Err α → Option α
  | .ok a => some a
  | .error _ => none

theorem decLoop_eq_parseBody (defs : Defs) (hu : noUnknown defs = true) (cap : Nat) (bs : Bytes) (hcap : bs.length ≤ cap) :
    toOpt (decLoop defs cap 0 0 bs) = Rfc7252.parseBody (regOf defs) bs := by
  have h := decLoop_tokens defs hu cap 0 0 bs (by omega)
  unfold Rfc7252.parseBody
  cases ht : Rfc7252.tokens bs with
  | none =>
    rw [ht] at h
    obtain ⟨e, he⟩ := h
    simp [he, toOpt]
  | some r =>
    obtain ⟨toks, p⟩ := r
    rw [ht] at h
    simp only [] at h ⊢
    unfold numsOK at h
    by_cases hn : ((Rfc7252.absolute 0 toks).all fun o => decide (o.id < 65536)) = true
    · simp only [hn, ↓reduceIte] at h ⊢
      simp [h, toOpt]
    · simp only [hn, Bool.false_eq_true, ↓reduceIte] at h ⊢
      obtain ⟨e, he⟩ := h
      simp [he, toOpt]

/-- Datagram decoder = RFC 7252 reference parser; an accepted datagram is consumed completely. -/
theorem udpDec_eq_ref (cap : Nat) (bs : Bytes) (hcap : bs.length ≤ cap) :
    toOpt (udpDec cap bs) = (Rfc7252.parse bs).map fun m => (m, bs.length) := by
  unfold udpDec Rfc7252.parse
  match bs with
  | [] => simp [toOpt]
  | [_] => simp [toOpt]
  | [_, _] => simp [toOpt]
  | [_, _, _] => simp [toOpt]
  | b0 :: b1 :: b2 :: b3 :: rest =>
    simp only []
    by_cases hv : b0.toNat / 64 ≠ 1
    · have : ¬ (b0.toNat / 64 = 1 ∧ b0.toNat % 16 ≤ 8 ∧ b0.toNat % 16 ≤ rest.length) := by
        intro h; exact hv h.1
      simp [hv, this, toOpt]
    · simp only [hv, ↓reduceIte]
      by_cases ht : b0.toNat % 16 > 8
      · have : ¬ (b0.toNat / 64 = 1 ∧ b0.toNat % 16 ≤ 8 ∧ b0.toNat % 16 ≤ rest.length) := by omega
        simp [ht, this, toOpt]
      · simp only [ht, ↓reduceIte]
        by_cases hl : rest.length < b0.toNat % 16
        · have : ¬ (b0.toNat / 64 = 1 ∧ b0.toNat % 16 ≤ 8 ∧ b0.toNat % 16 ≤ rest.length) := by omega
          simp [hl, this, toOpt]
        · have : b0.toNat / 64 = 1 ∧ b0.toNat % 16 ≤ 8 ∧ b0.toNat % 16 ≤ rest.length := by
            refine ⟨by omega, by omega, by omega⟩
          simp only [hl, ↓reduceIte, this, and_self]
          have hb := decLoop_eq_parseBody coapOptionDefs coap_noUnknown cap (rest.drop (b0.toNat % 16))
            (by simp at hcap ⊢; omega)
          rw [coap_regOf] at hb
          rw [← hb]
          cases decLoop coapOptionDefs cap 0 0 (List.drop (b0.toNat % 16) rest) with
          | error e => simp [toOpt]
          | ok r => obtain ⟨os, pay⟩ := r; simp [toOpt]

/-- Big-endian value of 1, 2, 4 bytes. -/
theorem beVal1 (a : UInt8) : Rfc8323.beVal [a] = a.toNat := by simp [Rfc8323.beVal]
theorem beVal2 (a b : UInt8) : Rfc8323.beVal [a, b] = a.toNat * 256 + b.toNat := by simp [Rfc8323.beVal]
theorem beVal4 (a b c d : UInt8) :
    Rfc8323.beVal [a, b, c, d] = a.toNat * 16777216 + b.toNat * 65536 + c.toNat * 256 + d.toNat := by
  simp [Rfc8323.beVal]; omega

/-- Header verdict of the model in the vocabulary of the reference. -/
def headVerdict : Except Err TcpCoder.Header → Rfc8323.HeadVerdict
  | .ok h => .ok ⟨h.length, h.messageLength, h.code, h.token⟩
  | .error .shortRead => .incomplete
  | .error _ => .malformed

theorem headRest_eq (tkl k opLen : Nat) (t' : Bytes) :
    headVerdict (tcpHdrRest tkl opLen (1 + k) t') = Rfc8323.headRest tkl k opLen t' := by
  unfold tcpHdrRest Rfc8323.headRest
  simp only []
  split
  · rfl
  · cases t' with
    | nil => rfl
    | cons code r =>
      simp only []
      split <;> rfl

theorem tcpHdr_eq_ref (bs : Bytes) : headVerdict (tcpHdr bs) = Rfc8323.parseHead bs := by
  unfold tcpHdr Rfc8323.parseHead
  cases bs with
  | nil => rfl
  | cons b t =>
    simp only []
    by_cases htk : b.toNat % 16 > 8
    · simp [htk, headVerdict]
    · simp only [htk, ↓reduceIte]
      have hn : b.toNat / 16 ≤ 15 := by have := b.toNat_lt; omega
      unfold tcpExt Rfc8323.extOf
      by_cases h12 : b.toNat / 16 ≤ 12
      · have : b.toNat / 16 < 13 := by omega
        simp only [h12, this, ↓reduceIte, Nat.not_lt_zero, List.drop_zero]
        exact headRest_eq (b.toNat % 16) 0 (b.toNat / 16) t
      · have n13 : ¬ b.toNat / 16 < 13 := by omega
        simp only [h12, n13, ↓reduceIte]
        by_cases e13 : b.toNat / 16 = 13
        · simp only [e13, ↓reduceIte]
          cases t with
          | nil => simp [headVerdict]
          | cons e r =>
            have : ¬ ((e :: r).length < 1) := by simp
            simp only [this, ↓reduceIte, List.take_succ_cons, List.take_zero, beVal1, List.drop_succ_cons, List.drop_zero,
              Nat.one_ne_zero]
            exact headRest_eq (b.toNat % 16) 1 (13 + e.toNat) r
        · simp only [e13, ↓reduceIte]
          by_cases e14 : b.toNat / 16 = 14
          · simp only [e14, ↓reduceIte]
            match t with
            | [] => simp [headVerdict]
            | [_] => simp [headVerdict]
            | e0 :: e1 :: r =>
              have : ¬ ((e0 :: e1 :: r).length < 2) := by simp
              simp only [this, ↓reduceIte, List.take_succ_cons, List.take_zero, beVal2, List.drop_succ_cons, List.drop_zero]
              exact headRest_eq (b.toNat % 16) 2 (269 + (e0.toNat * 256 + e1.toNat)) r
          · have e15 : b.toNat / 16 = 15 := by omega
            have ne : ¬ ((15 : Nat) = 14) := by decide
            simp only [e15, ne, ↓reduceIte]
            match t with
            | [] => simp [headVerdict]
            | [_] => simp [headVerdict]
            | [_, _] => simp [headVerdict]
            | [_, _, _] => simp [headVerdict]
            | e0 :: e1 :: e2 :: e3 :: r =>
              have : ¬ ((e0 :: e1 :: e2 :: e3 :: r).length < 4) := by simp
              simp only [this, ↓reduceIte, List.take_succ_cons, List.take_zero, beVal4, List.drop_succ_cons, List.drop_zero]
              exact headRest_eq (b.toNat % 16) 4 (65805 + (e0.toNat * 16777216 + e1.toNat * 65536 + e2.toNat * 256 + e3.toNat)) r

/-- Stream decoder = RFC 8323 reference parser (frame bytes, consumed count), for inputs below 4 GiB. -/
theorem tcpDec_eq_ref (cap : Nat) (bs : Bytes) (hcap : bs.length ≤ cap) (h32 : bs.length < 4294967296) :
    toOpt (tcpDec cap bs) = Rfc8323.parse bs := by
  unfold tcpDec Rfc8323.parse
  have hv := tcpHdr_eq_ref bs
  cases hh : tcpHdr bs with
  | error e =>
    rw [hh] at hv
    cases e <;> simp only [headVerdict] at hv <;> simp [← hv, toOpt]
  | ok h =>
    rw [hh] at hv
    simp only [headVerdict] at hv
    rw [← hv]
    simp only []
    have hmod : bs.length % 4294967296 = bs.length := Nat.mod_eq_of_lt h32
    rw [hmod]
    by_cases hs : bs.length < h.messageLength
    · simp [hs, toOpt]
    · simp only [hs, ↓reduceIte]
      have hb := decLoop_eq_parseBody (TcpCoder.defsFor h.code) (CoderRoundTrip.defsFor_noUnknown h.code) cap
        ((bs.take h.messageLength).drop h.length) (by simp; omega)
      rw [CoderRoundTrip.defsFor_regOf] at hb
      rw [← hb]
      cases decLoop (TcpCoder.defsFor h.code) cap 0 0 (List.drop h.length (List.take h.messageLength bs)) with
      | error e => simp [toOpt]
      | ok r => obtain ⟨os, pay⟩ := r; simp [toOpt]

end CoapVerif.Lemmas.RefParser
